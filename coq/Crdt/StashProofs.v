(* Theorems about the pending stash of TransactionMut::apply_update (model: Crdt/Integrate.v).
   Summary of the statements at the end of the file. *)
From Coq Require Import List NArith ZArith Bool Lia Permutation Wf_nat Sorted.
From Coq Require Import ZifyBool ZifyN ZifyNat.
From YV Require Import Gen.Consts Lib.Bytes Codec.Varint Codec.AnyCodec Codec.IdSetCodec Codec.UpdateV1
  Ids.Ranges Crdt.Doc Crdt.Blocks Crdt.BlocksProofs Crdt.Merge Crdt.MergeProofs Crdt.Integrate Crdt.IntegrateProofs.
From YV.Crdt Require Import Stash.
Import ListNotations.
Open Scope N_scope.

(* ================================================================================================ *)
(* 0. small facts                                                                                   *)
(* ================================================================================================ *)
Lemma itg2_abs_cf_list : forall d, itg_cf_list d -> map itg_abs_block d = d.
Proof.
  intros d Hd. unfold itg_cf_list in Hd. induction Hd as [|b l Hb _ IHl]; [reflexivity|]. cbn [map]. rewrite IHl.
  rewrite (itg_abs_block_id _ Hb). reflexivity.
Qed.

Lemma itg2_abs_cf_blocks : forall u, itg_cf_blocks (u_blocks u) -> u_blocks (itg_abs_update u) = u_blocks u.
Proof.
  intros u H. unfold itg_abs_update. cbn [u_blocks].
  induction (u_blocks u) as [|[c d] r IH]; [reflexivity|]. cbn [map fst snd].
  rewrite (itg2_abs_cf_list d) by (apply (H (c, d)); left; reflexivity).
  rewrite IH; [reflexivity|]. intros e He. apply H. right. exact He.
Qed.

Lemma itg2_cov_spec : forall bs i, itg2_cov bs i = true <->
  exists d, In (cl i, d) bs /\ itg_dcov d (ck i) = true.
Proof.
  intros bs i. unfold itg2_cov. rewrite existsb_exists. split.
  - intros [[c d] [He Hc]]. cbn [fst snd] in Hc. apply andb_prop in Hc. destruct Hc as [Hc Hd].
    apply N.eqb_eq in Hc. subst c. exists d. split; assumption.
  - intros [d [He Hd]]. exists (cl i, d). split; [exact He|]. cbn [fst snd]. rewrite N.eqb_refl, Hd. reflexivity.
Qed.

Lemma itg2_cov_app : forall x y i, itg2_cov (x ++ y) i = itg2_cov x i || itg2_cov y i.
Proof. intros. unfold itg2_cov. apply existsb_app. Qed.

(* a non-Skip block of a keyed block set covers its ids *)
Lemma itg2_in_cov : forall bs b j, (forall c d x, In (c, d) bs -> In x d -> itg_client x = c) ->
  itg2_in bs b -> itg_clock b <= j < itg_end b -> itg2_cov bs (mkid (itg_client b) j) = true.
Proof.
  intros bs b j Hk [c [d [He [Hb Hs]]]] Hj. apply itg2_cov_spec. cbn [cl ck]. exists d.
  rewrite (Hk c d b He Hb). split; [exact He|]. apply (itg_in_dcov d b j Hb Hs Hj).
Qed.

Lemma itg2_cov_in : forall bs i, itg2_cov bs i = true ->
  exists d y, In (cl i, d) bs /\ In y d /\ itg_is_skip y = false /\ itg_clock y <= ck i < itg_end y.
Proof.
  intros bs i H. apply itg2_cov_spec in H. destruct H as [d [He Hd]].
  destruct (itg_dcov_in _ _ Hd) as [y [Hy [Hs Hr]]]. exists d, y. repeat split; try assumption; lia.
Qed.

Lemma itg2_wf_keyed : forall bs, itg_update_wf bs = true -> forall c d x, In (c, d) bs -> In x d -> itg_client x = c.
Proof. intros bs H. apply (proj2 (itg_update_wf_ok _ H)). Qed.

Lemma itg2_wf_deque : forall bs c d, itg_update_wf bs = true -> In (c, d) bs ->
  exists f r, d = f :: r /\ itg_deque_from c (itg_clock f) d = true.
Proof.
  intros bs c d H He. unfold itg_update_wf in H. apply andb_prop in H. destruct H as [_ H].
  rewrite forallb_forall in H. specialize (H _ He). cbn [fst snd] in H. unfold itg_deque_wf in H.
  destruct d as [|f r]; [discriminate|]. exists f, r. split; [reflexivity|exact H].
Qed.

(* in a contiguous deque the clocks increase *)
Lemma itg2_deque_lower : forall c d a x, itg_deque_from c a d = true -> In x d -> a <= itg_clock x.
Proof.
  intros c. induction d as [|b r IH]; intros a x H Hx; [destruct Hx|].
  destruct (itg_deque_from_cons _ _ _ _ H) as [_ [Ha [Hl H2]]]. destruct Hx as [<-|Hx]; [lia|].
  specialize (IH _ x H2 Hx). unfold itg_end in *. lia.
Qed.

Lemma itg2_deque_same_clock : forall c d a x z, itg_deque_from c a d = true -> In x d -> In z d ->
  itg_clock x = itg_clock z -> x = z.
Proof.
  intros c. induction d as [|b r IH]; intros a x z H Hx Hz E; [destruct Hx|].
  destruct (itg_deque_from_cons _ _ _ _ H) as [_ [Ha [Hl H2]]].
  destruct Hx as [<-|Hx]; destruct Hz as [<-|Hz]; try reflexivity.
  - pose proof (itg2_deque_lower _ _ _ _ H2 Hz). unfold itg_end in *. lia.
  - pose proof (itg2_deque_lower _ _ _ _ H2 Hx). unfold itg_end in *. lia.
  - apply (IH _ x z H2 Hx Hz E).
Qed.

Lemma itg2_deque_suffix : forall c pre l a, itg_deque_from c a (pre ++ l) = true ->
  itg_deque_from c (itg_dend a pre) l = true.
Proof. intros c pre l a H. rewrite itg_deque_from_app in H. apply andb_prop in H. apply H. Qed.

Lemma itg2_nodup_keys_distinct : forall ks, NoDup ks -> itg_keys_distinct ks = true.
Proof.
  induction ks as [|k r IH]; intros H; [reflexivity|]. inversion H as [|x l Hn Hr]; subst. cbn [itg_keys_distinct].
  rewrite (IH Hr), andb_true_r. apply negb_true_iff. apply not_true_is_false. intros Ht.
  apply existsb_exists in Ht. destruct Ht as [y [Hy Ey]]. apply N.eqb_eq in Ey. subst y. contradiction.
Qed.

(* ================================================================================================ *)
(* 1. blocks that belong to the history                                                             *)
(* ================================================================================================ *)
Lemma itg2_block_id_eta : forall b, block_id b = mkid (itg_client b) (itg_clock b).
Proof. intros b. unfold itg_client, itg_clock. destruct (block_id b). reflexivity. Qed.

(* the predicate carried through BlockSet::exclude and BlockPicker *)
Definition itg2_QH (H : list (N * list block)) (rho : id -> nat) (W : list xop) (y : block) : Prop :=
  itg_cf_block y = true /\ (itg_is_skip y = true \/ itg2_okb H rho W y).

Lemma itg2_QH_cut_closed : forall H rho W, itg2_history H rho -> itg_cut_closed (itg2_QH H rho W).
Proof.
  intros H rho W HH c. split.
  - intros y k [Hcf HQ] Hk. destruct (itg_splice_spec y k Hcf Hk) as [S1 [S2 [S3 [S4 [S5 [S6 [S7 S8]]]]]]].
    split; (split; [assumption|]).
    + destruct HQ as [Hs|[P0 [P1 [P2 [P3 P4]]]]]; [left; rewrite S7; exact Hs|right].
      destruct (proj1 (itg_sub_cut_closed W c) y k (conj Hcf P2) Hk) as [[_ U1] _].
      assert (Hdeps : itg_deps (fst (itg_splice y k)) = itg_deps y).
      { destruct y as [i o ro p ps cc|i n|i n]; cbn [itg_splice mrg_splice fst itg_deps] in *; try reflexivity.
        cbn [itg_cf_block] in Hcf. destruct cc as [n|l|bb|s|j|k0 j|t|l|g o0]; try discriminate.
        - reflexivity.
        - destruct t; try discriminate. cbn [block_len content_len] in Hk. lia. }
      unfold itg2_okb, itg_client, itg_end, itg_clock in *. rewrite S3, S4, Hdeps.
      split; [exact S1|]. split; [lia|]. split; [exact U1|]. split; [|exact P4].
      intros j Hj. apply P3. lia.
    + destruct HQ as [Hs|[P0 [P1 [P2 [P3 P4]]]]]; [left; rewrite S8; exact Hs|right].
      destruct (proj1 (itg_sub_cut_closed W c) y k (conj Hcf P2) Hk) as [_ [_ U2]].
      unfold itg2_okb, itg_client, itg_end, itg_clock in *. rewrite S5, S6. cbn [cl ck].
      split; [exact S2|]. split; [lia|]. split; [exact U2|]. split; [intros j Hj; apply P3; lia|].
      (* the first id of the right half is ranked above the first id of the block *)
      assert (Hfirst : (rho (block_id y) < rho (mkid (cl (block_id y)) (ck (block_id y) + k)))%nat).
      { pose proof (itg2_h_order _ _ HH (cl (block_id y)) (ck (block_id y)) (ck (block_id y) + k)) as X.
        assert (X1 : itg2_cov H (mkid (cl (block_id y)) (ck (block_id y))) = true) by (apply P3; lia).
        assert (X2 : itg2_cov H (mkid (cl (block_id y)) (ck (block_id y) + k)) = true) by (apply P3; lia).
        specialize (X X1 X2 ltac:(lia)). rewrite itg_id_eta in X. exact X. }
      intros dep Hdep.
      destruct y as [i o ro p ps cc|i n|i n]; cbn [itg_splice mrg_splice snd itg_deps block_id block_len] in *;
        [|destruct Hdep|destruct Hdep].
      cbn [itg_cf_block] in Hcf. destruct cc as [n|l|bb|s|j|k0 j|t|l|g o0]; try discriminate.
      * cbn [mrg_content_splice snd itg_oid] in Hdep. cbn [content_len] in *.
        destruct Hdep as [<-|Hdep].
        -- split; [apply P3; lia|].
           apply (itg2_h_order _ _ HH (cl i) (ck i + k - 1) (ck i + k)); [apply P3; lia|apply P3; lia|lia].
        -- assert (Hy : In dep (itg_oid o ++ itg_oid ro ++ match p with PId i0 => [i0] | _ => [] end ++ [])).
           { apply in_or_app. right. exact Hdep. }
           destruct (P4 dep Hy) as [A1 A2]. split; [exact A1|lia].
      * destruct t; try discriminate. cbn [content_len] in Hk. lia.
  - intros k n. split; [reflexivity|left; reflexivity].
Qed.

Lemma itg2_QH_of_oks : forall H rho W bs, itg_cf_blocks bs -> itg2_oks H rho W bs -> itg_all_blocks (itg2_QH H rho W) bs.
Proof.
  intros H rho W bs Hcf Hp [c d] He b Hb. cbn [snd] in Hb. split.
  - pose proof (Hcf (c, d) He) as Hf. unfold itg_cf_list in Hf. rewrite Forall_forall in Hf. apply Hf. exact Hb.
  - destruct (itg_is_skip b) eqn:Es; [left; reflexivity|right]. apply Hp. exists c, d. repeat split; assumption.
Qed.

Lemma itg2_oks_of_QH : forall H rho W bs, itg_all_blocks (itg2_QH H rho W) bs -> itg_cf_blocks bs /\ itg2_oks H rho W bs.
Proof.
  intros H rho W bs HQ. split.
  - intros e He. unfold itg_cf_list. apply Forall_forall. intros b Hb. apply (HQ e He b Hb).
  - intros y [c [d [He [Hy Hs]]]]. destruct (HQ (c, d) He y Hy) as [_ [A|A]]; [rewrite A in Hs; discriminate|exact A].
Qed.

(* the classical formulation: a part of a block of a causally closed list of blocks belongs to the history *)
Lemma itg2_piece_okb : forall H rho W y b, itg2_history H rho -> itg2_closed H rho ->
  itg2_in H b -> itg2_piece y b -> incl (units_of_block y) W -> itg2_okb H rho W y.
Proof.
  intros H rho W y b HH HC Hb [P0 [P1 [P2 [P3 [P4 [P5 [P6 P8]]]]]]] HW.
  assert (Hcov : forall j, itg_clock b <= j < itg_end b -> itg2_cov H (mkid (itg_client y) j) = true).
  { intros j Hj. rewrite P1. apply itg2_in_cov; [apply (itg2_c_keyed _ _ HC)|exact Hb|exact Hj]. }
  assert (Hrb : (rho (block_id b) <= rho (block_id y))%nat).
  { rewrite (itg2_block_id_eta b), (itg2_block_id_eta y), <- P1.
    destruct (N.eq_dec (itg_clock b) (itg_clock y)) as [E|E]; [rewrite E; lia|].
    pose proof (itg2_h_order _ _ HH (itg_client y) (itg_clock b) (itg_clock y)) as X.
    assert (X' : (rho (mkid (itg_client y) (itg_clock b)) < rho (mkid (itg_client y) (itg_clock y)))%nat).
    { apply X; [apply Hcov; unfold itg_end in *; lia|apply Hcov; unfold itg_end in *; lia|lia]. }
    lia. }
  unfold itg2_okb. split; [exact P0|]. split; [exact P4|]. split; [exact HW|]. split.
  - intros j Hj. apply Hcov. unfold itg_end in *. lia.
  - intros dep Hd. destruct (P8 dep Hd) as [A|[A1 A2]].
    + destruct (itg2_c_deps _ _ HC b Hb dep A) as [C1 C2]. split; [exact C1|lia].
    + assert (Em : dep = mkid (itg_client y) (ck dep)) by (rewrite P1, <- A1; symmetry; apply itg_id_eta).
      rewrite Em. split; [apply Hcov; unfold itg_end in *; lia|].
      rewrite (itg2_block_id_eta y).
      apply (itg2_h_order _ _ HH (itg_client y) (ck dep) (itg_clock y)); [apply Hcov|apply Hcov|]; unfold itg_end in *; lia.
Qed.

(* ================================================================================================ *)
(* 2. the missing vector through set_min                                                            *)
(* ================================================================================================ *)
Lemma itg2_get_set_min : forall m c k c', itg_get (itg_sv_set_min m c k) c' =
  if c' =? c then Some (match itg_get m c with Some v => N.min v k | None => k end) else itg_get m c'.
Proof.
  intros m c k c'. unfold itg_sv_set_min. destruct (itg_get m c) as [v|] eqn:E; rewrite itg_get_put; reflexivity.
Qed.

Lemma itg2_entry_set_min : forall m c k i, itg2_entry m i -> itg2_entry (itg_sv_set_min m c k) i.
Proof.
  intros m c k i [v [Hv Hle]]. unfold itg2_entry. rewrite itg2_get_set_min. destruct (cl i =? c) eqn:E.
  - apply N.eqb_eq in E. subst c. rewrite Hv. exists (N.min v k). split; [reflexivity|lia].
  - exists v. split; assumption.
Qed.

Lemma itg2_entry_set_min_new : forall m i, itg2_entry (itg_sv_set_min m (cl i) (ck i)) i.
Proof.
  intros m i. unfold itg2_entry. rewrite itg2_get_set_min, N.eqb_refl.
  destruct (itg_get m (cl i)) as [v|]; eexists; (split; [reflexivity|lia]).
Qed.

Lemma itg2_entry_merge_old : forall new old i, itg2_entry old i -> itg2_entry (itg_merge_missing old new) i.
Proof.
  unfold itg_merge_missing. induction new as [|e r IH]; intros old i Hi; [exact Hi|]. cbn [fold_left].
  apply IH. apply itg2_entry_set_min. exact Hi.
Qed.

Lemma itg2_entry_merge_new : forall new old i, itg2_entry new i -> itg2_entry (itg_merge_missing old new) i.
Proof.
  intros new old i [v [Hv Hle]]. apply itg_get_in in Hv. revert old.
  unfold itg_merge_missing. induction new as [|e r IH]; intros old; [destruct Hv|]. cbn [fold_left].
  destruct Hv as [->|Hv].
  - cbn [fst snd]. apply (itg2_entry_merge_old r). unfold itg2_entry. rewrite itg2_get_set_min, N.eqb_refl.
    destruct (itg_get old (cl i)) as [w|]; eexists; (split; [reflexivity|lia]).
  - apply IH. exact Hv.
Qed.



(* ================================================================================================ *)
(* 2b. one run of Update::integrate: the heads of the stash it returns (BlockPicker)  [itg2_run_heads] *)
(* ================================================================================================ *)
(* association lists: keys                                                                          *)
(* ================================================================================================ *)
Lemma itg2_rh_keys_del : forall (A : Type) (m : list (N * A)) c x, In x (map fst (itg_del m c)) -> In x (map fst m) /\ x <> c.
Proof.
  intros A m c x H. apply in_map_iff in H. destruct H as [[k v] [<- H]]. unfold itg_del in H. apply filter_In in H.
  destruct H as [H1 H2]. cbn [fst] in *. split; [apply (in_map fst) in H1; exact H1|]. lia.
Qed.
Lemma itg2_rh_nodup_del : forall (A : Type) (m : list (N * A)) c, NoDup (map fst m) -> NoDup (map fst (itg_del m c)).
Proof.
  intros A m c. unfold itg_del. induction m as [|[k v] r IH]; intros H; cbn [filter map fst]; [constructor|].
  cbn [map fst] in H. inversion H as [|z l Hn Hr]; subst.
  destruct (negb (k =? c)); [|apply IH; exact Hr]. cbn [map fst]. constructor; [|apply IH; exact Hr].
  intros Hin. apply Hn. apply in_map_iff in Hin. destruct Hin as [[k' v'] [<- Hin]]. apply filter_In in Hin.
  apply (in_map fst). apply Hin.
Qed.
Lemma itg2_rh_keys_ins : forall (A : Type) (m : list (N * A)) c v x, In x (map fst (itg_ins m c v)) -> x = c \/ In x (map fst m).
Proof.
  intros A m c v x H. apply in_map_iff in H. destruct H as [e [<- H]]. apply itg_in_ins in H.
  destruct H as [->|H]; [left; reflexivity|right; apply (in_map fst); exact H].
Qed.
Lemma itg2_rh_nodup_ins : forall (A : Type) (m : list (N * A)) c v, NoDup (map fst m) -> ~ In c (map fst m) ->
  NoDup (map fst (itg_ins m c v)).
Proof.
  intros A m c v. induction m as [|[k w] r IH]; intros H Hn; cbn [itg_ins].
  - cbn. constructor; [intros []|constructor].
  - destruct (c <? k).
    + cbn [map fst]. constructor; [exact Hn|exact H].
    + cbn [map fst] in *. inversion H as [|z l Hk Hr]; subst. constructor.
      * intros Hin. apply itg2_rh_keys_ins in Hin. destruct Hin as [->|Hin]; [apply Hn; left; reflexivity|contradiction].
      * apply IH; [exact Hr|]. intros Hin. apply Hn. right. exact Hin.
Qed.
Lemma itg2_rh_nodup_put : forall (A : Type) (m : list (N * A)) c v, NoDup (map fst m) -> NoDup (map fst (itg_put m c v)).
Proof.
  intros A m c v H. unfold itg_put. apply itg2_rh_nodup_ins; [apply itg2_rh_nodup_del; exact H|].
  intros Hin. apply itg2_rh_keys_del in Hin. destruct Hin as [_ Hin]. apply Hin. reflexivity.
Qed.

(* ================================================================================================ *)
(* the missing vector                                                                               *)
(* ================================================================================================ *)
Lemma itg2_rh_entry_set : forall ms m, itg2_entry (itg_sv_set_min ms (cl m) (ck m)) m.
Proof.
  intros ms m. unfold itg2_entry, itg_sv_set_min. destruct (itg_get ms (cl m)) as [v|]; rewrite itg_get_put_same;
    eexists; (split; [reflexivity|lia]).
Qed.
Lemma itg2_rh_entry_mono : forall ms c k m, itg2_entry ms m -> itg2_entry (itg_sv_set_min ms c k) m.
Proof.
  intros ms c k m [k0 [H1 H2]]. unfold itg2_entry, itg_sv_set_min.
  destruct (itg_get ms c) as [v|] eqn:E; rewrite itg_get_put; destruct (cl m =? c) eqn:Ec.
  - apply N.eqb_eq in Ec. rewrite Ec in H1. rewrite E in H1. injection H1 as ->. eexists. split; [reflexivity|lia].
  - exists k0. split; assumption.
  - apply N.eqb_eq in Ec. rewrite Ec in H1. rewrite E in H1. discriminate.
  - exists k0. split; assumption.
Qed.

(* ================================================================================================ *)
(* the drain of a failed switch: what gets into `unapplicable`                                      *)
(* ================================================================================================ *)
Lemma itg2_rh_drain_unapp : forall items store latest unapp store' latest' unapp',
  itg_pk_drain items store latest unapp = (store', latest', unapp') ->
  NoDup (map fst unapp) ->
  NoDup (map fst unapp') /\
  forall c d, In (c, d) unapp' -> In (c, d) unapp \/ exists t rest, In t items /\ c = itg_client t /\ d = t :: rest.
Proof.
  induction items as [|item rest_items IH]; intros store latest unapp store' latest' unapp' H Hnd; cbn [itg_pk_drain] in H.
  - injection H as _ _ <-. split; [exact Hnd|]. intros c d Hin. left. exact Hin.
  - assert (Hstep : forall S L X, itg_pk_drain rest_items S L (itg_put unapp (itg_client item) (item :: X)) = (store', latest', unapp') ->
              NoDup (map fst unapp') /\
              forall c d, In (c, d) unapp' -> In (c, d) unapp \/ exists t rest, In t (item :: rest_items) /\ c = itg_client t /\ d = t :: rest).
    { intros S L X HX. destruct (IH _ _ _ _ _ _ HX (itg2_rh_nodup_put _ _ _ _ Hnd)) as [A B]. split; [exact A|].
      intros c d Hin. destruct (B c d Hin) as [Hp|[t [rest [T1 [T2 T3]]]]].
      - apply itg_in_put in Hp. destruct Hp as [Hp|Hp]; [|left; exact Hp].
        injection Hp as -> ->. right. exists item, X. split; [left; reflexivity|split; reflexivity].
      - right. exists t, rest. split; [right; exact T1|split; assumption]. }
    destruct (itg_get store (itg_client item)) as [blocks|]; [apply (Hstep _ _ _ H)|].
    destruct latest as [[lc blocks]|]; [|apply (Hstep _ _ _ H)].
    destruct (lc =? itg_client item); apply (Hstep _ _ _ H).
Qed.

Lemma itg2_rh_next_stack_in : forall pk s, In s (itg_pk_stack (snd (itg_pk_next pk))) -> In s (itg_pk_stack pk).
Proof.
  intros pk s. unfold itg_pk_next. destruct (itg_pk_stack pk) as [|x st]; [|cbn; intros H; right; exact H].
  destruct (itg_pk_latest pk) as [[c [|x r]]|]; cbn [snd itg_pk_stack]; try (intros []).
  - destruct (itg_pk_next_client _ _ _) as [[[n cs] store] latest]. cbn. intros [].
  - destruct (itg_pk_next_client _ _ _) as [[[n cs] store] latest]. cbn. intros [].
Qed.

(* ================================================================================================ *)
(* the weak invariant: heads of the stash come with a recorded dependency                           *)
(* ================================================================================================ *)
Section Itg2Weak.
  Variable bs : list (N * list block).
  Definition itg2_rh_Q (b : block) : Prop := exists D, In (itg_client b, D) bs.
  (* h is a block of client c, not a Skip, with a dependency id recorded in the missing vector *)
  Definition itg2_rh_gb (ms : list (N * N)) (c : N) (h : block) : Prop :=
    itg_client h = c /\ itg_is_skip h = false /\ exists m, In m (itg_deps h) /\ itg2_entry ms m.
  Definition itg2_rh_wk (pk : itg_picker) : Prop :=
    NoDup (map fst (itg_pk_unapp pk)) /\
    (forall c d, In (c, d) (itg_pk_unapp pk) -> exists h rest, d = h :: rest /\ itg2_rh_gb (itg_pk_missing pk) c h) /\
    (forall s, In s (itg_pk_stack pk) -> itg2_rh_gb (itg_pk_missing pk) (itg_client s) s).

  Lemma itg2_rh_gb_mono : forall ms c k x h, itg2_rh_gb ms x h -> itg2_rh_gb (itg_sv_set_min ms c k) x h.
  Proof.
    intros ms c k x h [A [B [m [C D]]]]. split; [exact A|]. split; [exact B|]. exists m. split; [exact C|].
    apply itg2_rh_entry_mono. exact D.
  Qed.

  Lemma itg2_rh_wk_next : forall pk, itg2_rh_wk pk -> itg2_rh_wk (snd (itg_pk_next pk)).
  Proof.
    intros pk [A [B C]]. unfold itg2_rh_wk. rewrite itg_pk_next_unapp, itg_pk_next_missing.
    split; [exact A|]. split; [exact B|]. intros s Hs. apply C. apply itg2_rh_next_stack_in. exact Hs.
  Qed.

  Lemma itg2_rh_wk_switch : forall pk b m, itg2_rh_wk pk -> itg_is_skip b = false -> In m (itg_deps b) ->
    itg2_rh_wk (snd (itg_pk_switch pk b m)).
  Proof.
    intros pk b m [A [B C]] Esk Hm. unfold itg_pk_switch.
    set (ms1 := itg_sv_set_min (itg_pk_missing pk) (cl m) (ck m)).
    assert (Hb : itg2_rh_gb ms1 (itg_client b) b).
    { split; [reflexivity|]. split; [exact Esk|]. exists m. split; [exact Hm|apply itg2_rh_entry_set]. }
    destruct (itg_pk_drain (rev (b :: itg_pk_stack pk)) (itg_pk_store pk) (itg_pk_latest pk) (itg_pk_unapp pk))
      as [[store latest] unapp] eqn:Ed.
    set (pk1 := itg_mkpicker store latest [] (itg_pk_clients pk) (itg_sv_set_min ms1 (cl m) (ck m)) unapp).
    assert (Hfail : itg2_rh_wk (snd (itg_pk_next pk1))).
    { apply itg2_rh_wk_next. destruct (itg2_rh_drain_unapp _ _ _ _ _ _ _ Ed A) as [D1 D2].
      unfold itg2_rh_wk, pk1. cbn [itg_pk_unapp itg_pk_missing itg_pk_stack]. split; [exact D1|]. split; [|intros s []].
      intros c d Hin. destruct (D2 c d Hin) as [Ho|[t [rest [T1 [T2 T3]]]]].
      - destruct (B c d Ho) as [h [rest [E G]]]. exists h, rest. split; [exact E|]. apply itg2_rh_gb_mono. apply itg2_rh_gb_mono. exact G.
      - exists t, rest. split; [exact T3|]. subst c. apply itg2_rh_gb_mono. apply in_rev in T1. destruct T1 as [<-|T1]; [exact Hb|].
        apply itg2_rh_gb_mono. apply C. exact T1. }
    destruct (itg_get (itg_pk_store pk) (cl m)) as [[|b' r]|]; try exact Hfail.
    destruct (existsb _ _); [exact Hfail|]. cbn [snd]. unfold itg2_rh_wk. cbn [itg_pk_unapp itg_pk_missing itg_pk_stack].
    split; [exact A|]. split.
    - intros c d Hin. destruct (B c d Hin) as [h [rest [E G]]]. exists h, rest. split; [exact E|]. apply itg2_rh_gb_mono. exact G.
    - intros s [<-|Hs]; [exact Hb|]. apply itg2_rh_gb_mono. apply C. exact Hs.
  Qed.

  Definition itg2_rh_W_P (log0 : list block) (next : option block) (r : itg_run) : Prop :=
    itg_C_P bs log0 next r /\
    (forall b, next = Some b -> itg2_rh_Q b) /\ itg_pk_all itg2_rh_Q (itg_rn_pk r) /\
    itg2_rh_wk (itg_rn_pk r).

  Lemma itg2_rh_W_skip : forall log0 b r, itg2_rh_W_P log0 (Some b) r -> itg_is_skip b = true ->
    itg2_rh_W_P log0 (fst (itg_pk_next (itg_rn_pk r)))
      (itg_mkrun (itg_rn_blocks r) (itg_rn_log r) (itg_rn_state r) (snd (itg_pk_next (itg_rn_pk r)))).
  Proof.
    intros log0 b r [HC [HQ [Hall Hw]]] Esk. unfold itg2_rh_W_P. cbn [itg_rn_pk].
    destruct (itg_pk_next_all itg2_rh_Q _ Hall) as [A1 A2].
    split; [apply (itg_C_P_skip bs log0 b r HC Esk)|]. split; [exact A1|]. split; [exact A2|apply itg2_rh_wk_next; exact Hw].
  Qed.
  Lemma itg2_rh_W_switch : forall log0 b r m st, itg2_rh_W_P log0 (Some b) r -> itg_is_skip b = false -> In m (itg_deps b) ->
    itg2_rh_W_P log0 (fst (itg_pk_switch (itg_rn_pk r) b m))
      (itg_mkrun (itg_rn_blocks r) (itg_rn_log r) st (snd (itg_pk_switch (itg_rn_pk r) b m))).
  Proof.
    intros log0 b r m st [HC [HQ [Hall Hw]]] Esk Hm. unfold itg2_rh_W_P. cbn [itg_rn_pk].
    destruct (itg_pk_switch_all itg2_rh_Q _ b m Hall (HQ b eq_refl)) as [A1 A2].
    split; [apply itg_C_P_switch; exact HC|]. split; [exact A1|]. split; [exact A2|apply itg2_rh_wk_switch; assumption].
  Qed.
  Lemma itg2_rh_W_integ : forall log0 b r blocks2 st, itg2_rh_W_P log0 (Some b) r ->
    itg2_rh_W_P log0 (fst (itg_pk_next (itg_rn_pk r)))
      (itg_mkrun blocks2 (b :: itg_rn_log r) st (snd (itg_pk_next (itg_rn_pk r)))).
  Proof.
    intros log0 b r blocks2 st [HC [HQ [Hall Hw]]]. unfold itg2_rh_W_P. cbn [itg_rn_pk].
    destruct (itg_pk_next_all itg2_rh_Q _ Hall) as [A1 A2].
    split; [apply itg_C_P_integ; exact HC|]. split; [exact A1|]. split; [exact A2|apply itg2_rh_wk_next; exact Hw].
  Qed.

  Lemma itg2_rh_W_init : forall blocks log, itg_update_ok bs ->
    let np := itg_pk_next (itg_pk_new bs) in
    itg2_rh_W_P log (fst np) (itg_mkrun blocks log [] (snd np)).
  Proof.
    intros blocks log Hok np. unfold itg2_rh_W_P. cbn [itg_rn_pk itg_rn_log].
    destruct (itg_pk_next_pinv bs _ [] (itg_pk_new_pinv bs Hok)) as [A0 B0]. fold np in A0, B0.
    assert (Hall0 : itg_pk_all itg2_rh_Q (itg_pk_new bs)).
    { unfold itg_pk_all, itg_pk_new. cbn [itg_pk_store itg_pk_latest itg_pk_stack itg_pk_unapp].
      split; [|split; [intros c d Hc; discriminate|split; [intros b []|intros e []]]].
      intros [c D] He b Hb. exists D. rewrite (proj2 Hok c D b He Hb). exact He. }
    destruct (itg_pk_next_all itg2_rh_Q _ Hall0) as [A1 A2]. fold np in A1, A2.
    split; [split; [exists []; split; [reflexivity|exact A0]|exact B0]|]. split; [exact A1|]. split; [exact A2|].
    apply itg2_rh_wk_next. unfold itg2_rh_wk, itg_pk_new. cbn [itg_pk_unapp itg_pk_stack]. split; [constructor|].
    split; [intros c d []|intros s []].
  Qed.

  (* reading the final state *)
  Lemma itg2_rh_W_final : forall log0 r c d, itg2_rh_W_P log0 None r -> In (c, d) (itg_pk_unapp (itg_rn_pk r)) ->
    exists D pre h rest, In (c, D) bs /\ D = pre ++ h :: rest /\ d = h :: rest /\ itg_is_skip h = false.
  Proof.
    intros log0 r c d [[[new [N1 N2]] Hfin] [_ [Hall [Hnd [Hun _]]]]] Hin.
    destruct (Hfin eq_refl) as [F1 [F2 F3]].
    destruct (Hun c d Hin) as [h [rest [E [G1 [G2 _]]]]].
    assert (HQ : itg2_rh_Q h).
    { destruct Hall as [_ [_ [_ H4]]]. apply (H4 _ Hin). cbn [snd]. rewrite E. left. reflexivity. }
    destruct HQ as [D HD]. rewrite G1 in HD.
    unfold itg_pk_pinv in N2. rewrite F1, F2 in N2. cbn [itg_out] in N2.
    destruct (itg_pi_status _ _ _ _ _ _ _ N2 c D HD) as [pre [rest' [ED [F L]]]].
    pose proof (itg_get_of_in _ _ _ _ Hnd Hin) as Hg.
    exists D, pre, h, rest. split; [exact HD|]. split; [|split; [exact E|exact G2]].
    destruct L as [A|[A|[A|A]]].
    - destruct A as [[] _].
    - destruct A as [_ [_ [_ A4]]]. rewrite A4 in Hg. discriminate.
    - destruct A as [A1 _]. rewrite A1 in Hg. injection Hg as ->. rewrite <- E. exact ED.
    - destruct A as [_ [_ [_ [_ [A5 _]]]]]. rewrite A5 in Hg. discriminate.
  Qed.
End Itg2Weak.

Lemma itg2_rh_loop_W : forall bs fuel next r r', itg2_rh_W_P bs (itg_rn_log r) next r ->
  itg_loop fuel next r = itg_ok r' -> itg2_rh_W_P bs (itg_rn_log r) None r'.
Proof.
  intros bs fuel next r r' H0 H.
  apply (itg_loop_rule (itg2_rh_W_P bs (itg_rn_log r))) with (fuel := fuel) (next := next) (r := r); [| | |exact H0|exact H].
  - intros b r0 HP Esk np. apply (itg2_rh_W_skip bs _ b r0 HP Esk).
  - intros b r0 m HP Esk Em np. apply itg2_rh_W_switch; [exact HP|exact Esk|]. apply (itg_missing_dep_some _ _ _ Em).
  - intros b r0 b1 b2 HP Esk Em c lc E1 E2 np. apply itg2_rh_W_integ. exact HP.
Qed.

Theorem itg2_run_heads_weak : forall blocks log bs blocks' log' p,
  itg_update_ok bs ->
  itg_integrate blocks log bs = itg_ok (blocks', log', Some p) ->
  NoDup (map fst (u_blocks (itg_p_update p))) /\
  forall c d, In (c, d) (u_blocks (itg_p_update p)) ->
    exists D pre h rest m, In (c, D) bs /\ D = pre ++ h :: rest /\ d = h :: rest /\ itg_is_skip h = false /\
      In m (itg_deps h) /\ itg2_entry (itg_p_missing p) m.
Proof.
  intros blocks log bs blocks' log' p Hok H. unfold itg_integrate in H.
  destruct bs as [|e0 bs0] eqn:Eb; [discriminate|]. rewrite <- Eb in *. clear Eb.
  set (np := itg_pk_next (itg_pk_new bs)) in *.
  destruct (itg_loop (itg_loop_fuel bs) (fst np) (itg_mkrun blocks log [] (snd np))) as [r'| |] eqn:E;
    cbn [itg_bind] in H; try discriminate.
  injection H as _ _ Hp.
  pose proof (itg2_rh_loop_W bs _ _ _ _ (itg2_rh_W_init bs blocks log Hok) E) as HW. cbn [itg_rn_log] in HW.
  unfold itg_pk_pending in Hp. destruct (itg_pk_unapp (itg_rn_pk r')) as [|e un] eqn:Eu; [discriminate|].
  injection Hp as <-. cbn [itg_p_update itg_p_missing u_blocks]. rewrite <- Eu.
  pose proof HW as [_ [_ [_ [Hnd [Hun _]]]]]. split; [exact Hnd|].
  intros c d Hin. destruct (itg2_rh_W_final bs _ _ c d HW Hin) as [D [pre [h [rest [A1 [A2 [A3 A4]]]]]]].
  destruct (Hun c d Hin) as [h' [rest' [E' [_ [_ [m [M1 M2]]]]]]].
  assert (h' = h) by congruence. subst h'.
  exists D, pre, h, rest, m. repeat split; assumption.
Qed.

(* ================================================================================================ *)
(* the pool of a client: blocks that this run may still integrate                                   *)
(* ================================================================================================ *)
Definition itg2_rh_avail (out : list block) (store : list (N * list block)) (latest : option (N * list block)) (X : N) : Prop :=
  In X (map itg_client out) \/ (exists b r, itg_get store X = Some (b :: r)) \/ (exists b r, latest = Some (X, b :: r)).
Definition itg2_rh_lat_store (latest : option (N * list block)) (store : list (N * list block)) : Prop :=
  forall lc d, latest = Some (lc, d) -> itg_get store lc = None.

Lemma itg2_rh_get_del_none : forall (A : Type) (m : list (N * A)) c x, itg_get m x = None -> itg_get (itg_del m c) x = None.
Proof.
  intros A m c x H. destruct (N.eq_dec x c) as [->|Hne]; [apply itg_get_del_same|].
  rewrite itg_get_del_other by exact Hne. exact H.
Qed.
Lemma itg2_rh_get_del_some : forall (A : Type) (m : list (N * A)) c x v, itg_get (itg_del m c) x = Some v -> itg_get m x = Some v /\ x <> c.
Proof.
  intros A m c x v H. destruct (N.eq_dec x c) as [->|Hne]; [rewrite itg_get_del_same in H; discriminate|].
  rewrite itg_get_del_other in H by exact Hne. split; assumption.
Qed.

Lemma itg2_rh_next_client_avail : forall cs store latest n cs' store' latest',
  itg_pk_next_client cs store latest = (n, cs', store', latest') ->
  (forall c d x, itg_get store c = Some d -> In x d -> itg_client x = c) ->
  itg_lat_empty latest -> itg2_rh_lat_store latest store ->
  (forall X, itg2_rh_avail (itg_out n []) store' latest' X -> exists b r, itg_get store X = Some (b :: r)) /\
  itg2_rh_lat_store latest' store'.
Proof.
  induction cs as [|c cs IH]; intros store latest n cs' store' latest' H Hcl Hle HI; cbn [itg_pk_next_client] in H.
  - injection H as <- _ <- <-. split; [|exact HI]. intros X [A|[A|[b [r A]]]]; [destruct A|exact A|].
    destruct Hle as [Hle|[c0 Hle]]; rewrite Hle in A; discriminate.
  - assert (Hdel : forall c0 d x, itg_get (itg_del store c) c0 = Some d -> In x d -> itg_client x = c0).
    { intros c0 d x Hg Hx. apply itg2_rh_get_del_some in Hg. apply (Hcl _ _ _ (proj1 Hg) Hx). }
    assert (Hrec : forall L, itg_lat_empty L -> itg2_rh_lat_store L (itg_del store c) ->
              itg_pk_next_client cs (itg_del store c) L = (n, cs', store', latest') ->
              (forall X, itg2_rh_avail (itg_out n []) store' latest' X -> exists b r, itg_get store X = Some (b :: r)) /\
              itg2_rh_lat_store latest' store').
    { intros L HL HIL HX. destruct (IH _ _ _ _ _ _ HX Hdel HL HIL) as [A B]. split; [|exact B].
      intros X HXa. destruct (A X HXa) as [b [r Hg]]. apply itg2_rh_get_del_some in Hg. exists b, r. apply Hg. }
    destruct (itg_get store c) as [[|b r]|] eqn:Eg.
    + apply (Hrec (Some (c, []))); [right; exists c; reflexivity| |exact H].
      intros lc d Hl. injection Hl as <- <-. apply itg_get_del_same.
    + injection H as <- _ <- <-. split.
      * intros X [A|[[b0 [r0 A]]|[b0 [r0 A]]]].
        -- cbn in A. destruct A as [A|[]]. subst X. rewrite (Hcl c (b :: r) b Eg (or_introl eq_refl)). exists b, r. exact Eg.
        -- apply itg2_rh_get_del_some in A. exists b0, r0. apply A.
        -- injection A as <- _. exists b, r. exact Eg.
      * intros lc d Hl. injection Hl as <- <-. apply itg_get_del_same.
    + apply (Hrec None); [left; reflexivity| |exact H]. intros lc d Hl. discriminate.
Qed.

Lemma itg2_rh_pk_next_avail : forall pk,
  (forall c d x, itg_get (itg_pk_store pk) c = Some d -> In x d -> itg_client x = c) ->
  (forall c d x, itg_pk_latest pk = Some (c, d) -> In x d -> itg_client x = c) ->
  itg2_rh_lat_store (itg_pk_latest pk) (itg_pk_store pk) ->
  let np := itg_pk_next pk in
  (forall X, itg2_rh_avail (itg_out (fst np) (itg_pk_stack (snd np))) (itg_pk_store (snd np)) (itg_pk_latest (snd np)) X ->
             itg2_rh_avail (itg_pk_stack pk) (itg_pk_store pk) (itg_pk_latest pk) X) /\
  itg2_rh_lat_store (itg_pk_latest (snd np)) (itg_pk_store (snd np)).
Proof.
  intros pk Hs Hl HI. unfold itg_pk_next. destruct (itg_pk_stack pk) as [|x s] eqn:Es.
  - assert (Hnc : forall L, itg_lat_empty L -> itg2_rh_lat_store L (itg_pk_store pk) ->
       (forall X b r, L = Some (X, b :: r) -> False) ->
       let '(n, cs, store, latest) := itg_pk_next_client (itg_pk_clients pk) (itg_pk_store pk) L in
       (forall X, itg2_rh_avail (itg_out n []) store latest X -> itg2_rh_avail [] (itg_pk_store pk) L X) /\
       itg2_rh_lat_store latest store).
    { intros L HL HIL _. destruct (itg_pk_next_client (itg_pk_clients pk) (itg_pk_store pk) L) as [[[n cs] store] latest] eqn:E.
      destruct (itg2_rh_next_client_avail _ _ _ _ _ _ _ E Hs HL HIL) as [A B]. split; [|exact B].
      intros X HX. right. left. apply A. exact HX. }
    destruct (itg_pk_latest pk) as [[c [|b r]]|] eqn:El.
    + specialize (Hnc (Some (c, [])) (or_intror (ex_intro _ c eq_refl)) HI ltac:(intros X b r HX; discriminate)).
      destruct (itg_pk_next_client _ _ _) as [[[n cs] store] latest]. cbn [fst snd itg_pk_stack itg_pk_store itg_pk_latest]. exact Hnc.
    + cbn [fst snd itg_pk_stack itg_pk_store itg_pk_latest itg_out]. split.
      * intros X [A|[A|[b0 [r0 A]]]].
        -- cbn in A. destruct A as [A|[]]. subst X. right. right. exists b, r.
           rewrite (Hl c (b :: r) b eq_refl (or_introl eq_refl)). reflexivity.
        -- right. left. exact A.
        -- injection A as <- _. right. right. exists b, r. reflexivity.
      * intros lc d Hd. injection Hd as <- _. apply (HI c (b :: r)). reflexivity.
    + specialize (Hnc None (or_introl eq_refl) HI ltac:(intros X b r HX; discriminate)).
      destruct (itg_pk_next_client _ _ _) as [[[n cs] store] latest]. cbn [fst snd itg_pk_stack itg_pk_store itg_pk_latest]. exact Hnc.
  - cbn [fst snd itg_pk_stack itg_pk_store itg_pk_latest itg_out]. split; [intros X HX; exact HX|exact HI].
Qed.

Lemma itg2_rh_drain_avail : forall items store latest unapp store' latest' unapp',
  itg_pk_drain items store latest unapp = (store', latest', unapp') ->
  itg2_rh_lat_store latest store ->
  itg2_rh_lat_store latest' store' /\
  forall X b r,
    (itg_get store' X = Some (b :: r) -> itg_get store X = Some (b :: r) /\ ~ In X (map itg_client items)) /\
    (latest' = Some (X, b :: r) -> latest = Some (X, b :: r) /\ ~ In X (map itg_client items)).
Proof.
  induction items as [|item rest_items IH]; intros store latest unapp store' latest' unapp' H HI; cbn [itg_pk_drain] in H.
  - injection H as <- <- _. split; [exact HI|]. intros X b r. split; intros HX; (split; [exact HX|intros []]).
  - set (c := itg_client item) in *. cbn [map]. fold c.
    destruct (itg_get store c) as [blocks|] eqn:Eg.
    + assert (HI' : itg2_rh_lat_store latest (itg_del store c)).
      { intros lc d Hl. apply itg2_rh_get_del_none. apply (HI lc d Hl). }
      destruct (IH _ _ _ _ _ _ H HI') as [A B]. split; [exact A|]. intros X b r. destruct (B X b r) as [B1 B2]. split.
      * intros HX. destruct (B1 HX) as [C1 C2]. apply itg2_rh_get_del_some in C1. split; [apply C1|].
        intros [Hc|Hin]; [apply (proj2 C1); symmetry; exact Hc|apply C2; exact Hin].
      * intros HX. destruct (B2 HX) as [C1 C2]. split; [exact C1|].
        intros [Hc|Hin]; [|apply C2; exact Hin].
        pose proof (HI _ _ C1) as Hn. rewrite <- Hc in Hn. rewrite Eg in Hn. discriminate.
    + assert (Hsame : forall L, itg2_rh_lat_store L store ->
                (forall X b r, L = Some (X, b :: r) -> latest = Some (X, b :: r) /\ X <> c) ->
                itg_pk_drain rest_items store L (itg_put unapp c (item :: match latest with Some (_, bl) => bl | None => [] end)) = (store', latest', unapp') \/
                (exists U, itg_pk_drain rest_items store L U = (store', latest', unapp')) ->
                itg2_rh_lat_store latest' store' /\
                forall X b r,
                  (itg_get store' X = Some (b :: r) -> itg_get store X = Some (b :: r) /\ ~ (c = X \/ In X (map itg_client rest_items))) /\
                  (latest' = Some (X, b :: r) -> latest = Some (X, b :: r) /\ ~ (c = X \/ In X (map itg_client rest_items)))).
      { intros L HL HLl HX.
        assert (HX' : exists U, itg_pk_drain rest_items store L U = (store', latest', unapp')).
        { destruct HX as [HX|HX]; [eexists; exact HX|exact HX]. }
        destruct HX' as [U HU]. destruct (IH _ _ _ _ _ _ HU HL) as [A B]. split; [exact A|].
        intros X b r. destruct (B X b r) as [B1 B2]. split.
        - intros Hg. destruct (B1 Hg) as [C1 C2]. split; [exact C1|]. intros [Hc|Hin]; [|apply C2; exact Hin].
          rewrite <- Hc in C1. rewrite Eg in C1. discriminate.
        - intros Hg. destruct (B2 Hg) as [C1 C2]. destruct (HLl _ _ _ C1) as [D1 D2]. split; [exact D1|].
          intros [Hc|Hin]; [apply D2; symmetry; exact Hc|apply C2; exact Hin]. }
      destruct latest as [[lc blocks]|] eqn:El.
      * destruct (lc =? c) eqn:Elc.
        -- apply (Hsame (Some (lc, []))); [intros l0 d0 Hl0; injection Hl0 as <- <-; apply (HI lc blocks eq_refl)|
             intros X b r HX; discriminate|right; eexists; exact H].
        -- apply N.eqb_neq in Elc. apply (Hsame (Some (lc, blocks))); [exact HI| |right; eexists; exact H].
           intros X b r HX. injection HX as <- ->. split; [reflexivity|exact Elc].
      * apply (Hsame None); [exact HI|intros X b r HX; discriminate|right; eexists; exact H].
Qed.

(* ================================================================================================ *)
(* the chain of the stack; the picker part of the invariant                                         *)
(* ================================================================================================ *)
Fixpoint itg2_rh_chain (st : list (N * list itg_seg)) (ms : list (N * N)) (prev : block) (stack : list block) : Prop :=
  match stack with
  | [] => True
  | t :: s => (itg_is_skip t = false /\ exists m, In m (itg_deps t) /\ cl m = itg_client prev /\
                 itg_has st m = false /\ itg2_entry ms m) /\ itg2_rh_chain st ms t s
  end.
Definition itg2_rh_chain_out (st : list (N * list itg_seg)) (ms : list (N * N)) (out : list block) : Prop :=
  match out with [] => True | p :: s => itg2_rh_chain st ms p s end.

Lemma itg2_rh_chain_mono : forall st ms st' ms' stack prev, itg2_rh_chain st ms prev stack ->
  (forall m, itg_has st m = false -> In (cl m) (map itg_client (removelast (prev :: stack))) -> itg_has st' m = false) ->
  (forall m, itg2_entry ms m -> itg2_entry ms' m) ->
  itg2_rh_chain st' ms' prev stack.
Proof.
  intros st ms st' ms'. induction stack as [|t s IH]; intros prev H Hh He; cbn [itg2_rh_chain] in *; [exact I|].
  destruct H as [[A [m [B [C [D E]]]]] R]. split.
  - split; [exact A|]. exists m. split; [exact B|]. split; [exact C|]. split; [|apply He; exact E].
    apply Hh; [exact D|]. rewrite C. cbn [removelast map]. left. reflexivity.
  - apply IH; [exact R| |exact He]. intros m0 H0 Hin. apply Hh; [exact H0|].
    change (removelast (prev :: t :: s)) with (prev :: removelast (t :: s)). cbn [map]. right. exact Hin.
Qed.

Lemma itg2_rh_chain_in : forall st ms stack prev, itg2_rh_chain st ms prev stack ->
  forall t, In t stack -> itg_is_skip t = false /\ exists m, In m (itg_deps t) /\ In (cl m) (map itg_client (prev :: stack)) /\
    itg_has st m = false /\ itg2_entry ms m.
Proof.
  intros st ms. induction stack as [|x s IH]; intros prev H t Ht; [destruct Ht|]. cbn [itg2_rh_chain] in H.
  destruct H as [[A [m [B [C [D E]]]]] R]. destruct Ht as [<-|Ht].
  - split; [exact A|]. exists m. split; [exact B|]. split; [rewrite C; left; reflexivity|]. split; assumption.
  - destruct (IH x R t Ht) as [A' [m' [B' [C' [D' E']]]]]. split; [exact A'|]. exists m'. split; [exact B'|].
    split; [right; exact C'|]. split; assumption.
Qed.

Lemma itg2_rh_in_removelast : forall (A : Type) (l : list A) x, In x (removelast l) -> In x l.
Proof.
  intros A. induction l as [|a r IH]; intros x H; [destruct H|]. destruct r as [|b r']; [destruct H|].
  change (removelast (a :: b :: r')) with (a :: removelast (b :: r')) in H. destruct H as [<-|H]; [left; reflexivity|right; apply IH; exact H].
Qed.

Definition itg2_rh_fk (st : list (N * list itg_seg)) (next : option block) (pk : itg_picker) : Prop :=
  let out := itg_out next (itg_pk_stack pk) in
  itg2_rh_lat_store (itg_pk_latest pk) (itg_pk_store pk) /\
  (forall s, itg_last_opt out = Some s -> itg_lat_is (itg_pk_latest pk) (itg_client s)) /\
  itg2_rh_chain_out st (itg_pk_missing pk) out /\
  (forall c d, In (c, d) (itg_pk_unapp pk) -> exists h rest m, d = h :: rest /\ In m (itg_deps h) /\
     itg_has st m = false /\ itg2_entry (itg_pk_missing pk) m /\
     ~ itg2_rh_avail out (itg_pk_store pk) (itg_pk_latest pk) (cl m)).

(* `next` is consumed (a Skip, or integrated: the store changes for ids of its client only) *)
Lemma itg2_rh_fk_consume : forall st st' b pk, itg2_rh_fk st (Some b) pk ->
  NoDup (map itg_client (b :: itg_pk_stack pk)) ->
  (forall m, itg_has st m = false -> cl m <> itg_client b -> itg_has st' m = false) ->
  itg2_rh_fk st' None pk.
Proof.
  intros st st' b pk [HI [HQ3 [Hch Hun]]] Hnd Hh. unfold itg2_rh_fk in *. cbn [itg_out] in *.
  split; [exact HI|]. split; [|split].
  - intros s Hs. apply HQ3. destruct (itg_pk_stack pk) as [|y r1]; [discriminate|]. rewrite itg_last_opt_cons. exact Hs.
  - unfold itg2_rh_chain_out in *. destruct (itg_pk_stack pk) as [|x s] eqn:Es; [exact I|]. cbn [itg2_rh_chain] in Hch.
    destruct Hch as [_ R]. apply (itg2_rh_chain_mono st (itg_pk_missing pk)); [exact R| |tauto].
    intros m H0 Hin. apply Hh; [exact H0|]. intros Hc. cbn [map] in Hnd. inversion Hnd as [|z l Hn Hr]; subst.
    apply Hn. rewrite <- Hc. apply in_map_iff in Hin. destruct Hin as [y [Y1 Y2]]. rewrite <- Y1.
    apply (in_map itg_client (x :: s) y). apply itg2_rh_in_removelast. exact Y2.
  - intros c d Hin. destruct (Hun c d Hin) as [h [rest [m [E [M1 [M2 [M3 M4]]]]]]]. exists h, rest, m.
    split; [exact E|]. split; [exact M1|]. split; [|split; [exact M3|]].
    + apply Hh; [exact M2|]. intros Hc. apply M4. left. cbn [map]. left. symmetry. exact Hc.
    + intros Ha. apply M4. destruct Ha as [A|A]; [left; cbn [map]; right; exact A|right; exact A].
Qed.

Lemma itg2_rh_fk_next : forall st pk, itg2_rh_fk st None pk ->
  (forall c d x, itg_get (itg_pk_store pk) c = Some d -> In x d -> itg_client x = c) ->
  (forall c d x, itg_pk_latest pk = Some (c, d) -> In x d -> itg_client x = c) ->
  itg2_rh_fk st (fst (itg_pk_next pk)) (snd (itg_pk_next pk)).
Proof.
  intros st pk [HI [HQ3 [Hch Hun]]] Hs Hl. cbn [itg_out] in *.
  destruct (itg2_rh_pk_next_avail pk Hs Hl HI) as [Av HI'].
  pose proof (itg_pk_next_stack pk Hs Hl) as Hst.
  unfold itg2_rh_fk. rewrite itg_pk_next_missing, itg_pk_next_unapp.
  split; [exact HI'|]. split; [|split].
  - destruct (itg_pk_stack pk) as [|x s] eqn:Es.
    + destruct Hst as [S1 S2]. rewrite S1. intros s0 Hs0. destruct (fst (itg_pk_next pk)) as [b0|] eqn:En; cbn [itg_out itg_last_opt] in Hs0; [|discriminate].
      injection Hs0 as <-. apply S2. reflexivity.
    + destruct Hst as [S1 [S2 S3]]. rewrite S1, S2, S3. cbn [itg_out]. exact HQ3.
  - destruct (itg_pk_stack pk) as [|x s] eqn:Es.
    + destruct Hst as [S1 S2]. rewrite S1. destruct (fst (itg_pk_next pk)); exact I.
    + destruct Hst as [S1 [S2 S3]]. rewrite S1, S2. cbn [itg_out]. exact Hch.
  - intros c d Hin. destruct (Hun c d Hin) as [h [rest [m [E [M1 [M2 [M3 M4]]]]]]]. exists h, rest, m.
    split; [exact E|]. split; [exact M1|]. split; [exact M2|]. split; [exact M3|].
    intros Ha. apply M4. apply Av. exact Ha.
Qed.

Lemma itg2_rh_fk_switch : forall bs new st pk b m, itg2_rh_fk st (Some b) pk ->
  itg_pk_pinv bs (Some b) pk new -> NoDup (map fst (itg_pk_unapp pk)) -> itg_blocks_ok st ->
  itg_is_skip b = false -> itg_missing_dep st b = Some m ->
  itg2_rh_fk st (fst (itg_pk_switch pk b m)) (snd (itg_pk_switch pk b m)).
Proof.
  intros bs new st pk b m [HI [HQ3 [Hch Hun]]] Hinv Hndu Hok Esk Em. cbn [itg_out] in *. unfold itg_pk_pinv in Hinv. cbn [itg_out] in Hinv.
  destruct (itg_missing_dep_some _ _ _ Em) as [Hmd Hmiss]. rewrite (itg_is_missing_spec _ _ Hok) in Hmiss.
  assert (Hhm : itg_has st m = false) by (destruct (itg_has st m); [discriminate|reflexivity]). clear Hmiss.
  unfold itg2_rh_chain_out in Hch.
  unfold itg_pk_switch. set (mc := cl m).
  set (ms1 := itg_sv_set_min (itg_pk_missing pk) mc (ck m)).
  assert (He1 : forall x, itg2_entry (itg_pk_missing pk) x -> itg2_entry ms1 x) by (intros x Hx; apply itg2_rh_entry_mono; exact Hx).
  assert (Hem : itg2_entry ms1 m) by apply itg2_rh_entry_set.
  destruct (itg_pk_drain (rev (b :: itg_pk_stack pk)) (itg_pk_store pk) (itg_pk_latest pk) (itg_pk_unapp pk))
    as [[store latest] unapp] eqn:Ed.
  set (pk1 := itg_mkpicker store latest [] (itg_pk_clients pk) (itg_sv_set_min ms1 mc (ck m)) unapp).
  assert (Hfail : (forall b' r, itg_get (itg_pk_store pk) mc = Some (b' :: r) -> In mc (map itg_client (b :: itg_pk_stack pk))) ->
                  itg2_rh_fk st (fst (itg_pk_next pk1)) (snd (itg_pk_next pk1))).
  { intros Hcond.
    assert (Hp1 : itg_pinv bs [] (itg_pk_clients pk) store latest unapp new).
    { apply (itg_pk_drain_pinv bs _ new _ _ _ _ _ _ _ Ed).
      apply (itg_pinv_out_perm bs (b :: itg_pk_stack pk)); [| |exact Hinv].
      - rewrite map_rev. apply NoDup_rev. apply (itg_pi_out _ _ _ _ _ _ _ Hinv).
      - intros x. apply in_rev. }
    destruct (itg2_rh_drain_avail _ _ _ _ _ _ _ Ed HI) as [HI1 Dav].
    destruct (itg2_rh_drain_unapp _ _ _ _ _ _ _ Ed Hndu) as [_ Dun].
    assert (Hitems : forall X, In X (map itg_client (rev (b :: itg_pk_stack pk))) <-> In X (map itg_client (b :: itg_pk_stack pk))).
    { intros X. rewrite map_rev. symmetry. apply in_rev. }
    (* a client whose pool is not empty after the drain had a non-empty pool before and has no block in stack_head :: stack *)
    assert (Hav : forall X, itg2_rh_avail [] store latest X ->
               ~ In X (map itg_client (b :: itg_pk_stack pk)) /\
               ((exists b0 r0, itg_get (itg_pk_store pk) X = Some (b0 :: r0)) \/ (exists b0 r0, itg_pk_latest pk = Some (X, b0 :: r0)))).
    { intros X [A|[[b0 [r0 A]]|[b0 [r0 A]]]]; [destruct A| |].
      - destruct (proj1 (Dav X b0 r0) A) as [C1 C2]. split; [rewrite <- Hitems; exact C2|left; exists b0, r0; exact C1].
      - destruct (proj2 (Dav X b0 r0) A) as [C1 C2]. split; [rewrite <- Hitems; exact C2|right; exists b0, r0; exact C1]. }
    apply itg2_rh_fk_next; [|apply (itg_pi_store_cl _ _ _ _ _ _ _ Hp1)|apply (itg_pi_lat_cl _ _ _ _ _ _ _ Hp1)].
    unfold itg2_rh_fk, pk1. cbn [itg_out itg_pk_stack itg_pk_store itg_pk_latest itg_pk_missing itg_pk_unapp].
    split; [exact HI1|]. split; [intros s Hs; discriminate|]. split; [exact I|].
    intros c d Hin. destruct (Dun c d Hin) as [Ho|[t [rest [T1 [T2 T3]]]]].
    - destruct (Hun c d Ho) as [h [rest [m0 [E [M1 [M2 [M3 M4]]]]]]]. exists h, rest, m0.
      split; [exact E|]. split; [exact M1|]. split; [exact M2|]. split; [apply itg2_rh_entry_mono; apply He1; exact M3|].
      intros Ha. apply M4. destruct (Hav _ Ha) as [_ [A|A]]; [right; left; exact A|right; right; exact A].
    - apply in_rev in T1. destruct T1 as [<-|T1].
      + exists b, rest, m. split; [exact T3|]. split; [exact Hmd|]. split; [exact Hhm|]. split; [apply itg2_rh_entry_mono; exact Hem|].
        intros Ha. destruct (Hav _ Ha) as [Hn [[b0 [r0 A]]|[b0 [r0 A]]]].
        * apply Hn. apply (Hcond b0 r0 A).
        * destruct (itg_last_opt_some (b :: itg_pk_stack pk) ltac:(discriminate)) as [s0 Hs0].
          destruct (HQ3 s0 Hs0) as [d0 Hd0]. rewrite A in Hd0. injection Hd0 as Hd0 _.
          apply Hn. rewrite Hd0. apply in_map. apply (itg_last_opt_in _ _ Hs0).
      + destruct (itg2_rh_chain_in _ _ _ _ Hch t T1) as [A' [m' [B' [C' [D' E']]]]].
        exists t, rest, m'. split; [exact T3|]. split; [exact B'|]. split; [exact D'|].
        split; [apply itg2_rh_entry_mono; apply He1; exact E'|].
        intros Ha. destruct (Hav _ Ha) as [Hn _]. apply Hn. exact C'. }
  destruct (itg_get (itg_pk_store pk) mc) as [[|b' r]|] eqn:Eg; try (apply Hfail; intros b0 r0 H0; discriminate).
  destruct (existsb (fun s => itg_client s =? mc) (b :: itg_pk_stack pk)) eqn:Eex.
  - apply Hfail. intros _ _ _. apply existsb_exists in Eex. destruct Eex as [s [S1 S2]]. apply N.eqb_eq in S2.
    rewrite <- S2. apply in_map. exact S1.
  - cbn [fst snd]. unfold itg2_rh_fk. cbn [itg_out itg_pk_stack itg_pk_store itg_pk_latest itg_pk_missing itg_pk_unapp].
    assert (Hb' : itg_client b' = mc) by (apply (itg_pi_store_cl _ _ _ _ _ _ _ Hinv mc (b' :: r) b' Eg); left; reflexivity).
    split; [|split; [|split]].
    + intros lc d Hl. rewrite itg_get_put. destruct (lc =? mc) eqn:Ec; [|apply (HI lc d Hl)].
      apply N.eqb_eq in Ec. subst lc. rewrite (HI mc d Hl) in Eg. discriminate.
    + intros s Hs. rewrite itg_last_opt_cons in Hs. apply HQ3. exact Hs.
    + cbn [itg2_rh_chain_out itg2_rh_chain]. split.
      * split; [exact Esk|]. exists m. split; [exact Hmd|]. split; [symmetry; exact Hb'|]. split; [exact Hhm|exact Hem].
      * apply (itg2_rh_chain_mono st (itg_pk_missing pk)); [exact Hch|intros m0 H0 _; exact H0|exact He1].
    + intros c d Hin. destruct (Hun c d Hin) as [h [rest [m0 [E [M1 [M2 [M3 M4]]]]]]]. exists h, rest, m0.
      split; [exact E|]. split; [exact M1|]. split; [exact M2|]. split; [apply He1; exact M3|].
      intros Ha. apply M4. destruct Ha as [A|[[b0 [r0 A]]|A]].
      * cbn [map] in A. destruct A as [A|A]; [|left; exact A]. right. left. exists b', r. rewrite <- A, Hb'. exact Eg.
      * rewrite itg_get_put in A. destruct (cl m0 =? mc) eqn:Ec.
        -- apply N.eqb_eq in Ec. right. left. exists b', r. rewrite Ec. exact Eg.
        -- right. left. exists b0, r0. exact A.
      * right. right. exact A.
Qed.

(* ================================================================================================ *)
(* the run                                                                                          *)
(* ================================================================================================ *)
Definition itg2_rh_F_P (bs : list (N * list block)) (log0 : list block) (next : option block) (r : itg_run) : Prop :=
  itg2_rh_W_P bs log0 next r /\
  itg_blocks_ok (itg_rn_blocks r) /\ itg_cache_ok (itg_rn_blocks r) (itg_rn_state r) /\
  itg2_rh_fk (itg_rn_blocks r) next (itg_rn_pk r).

Lemma itg2_rh_F_pinv : forall bs log0 b r, itg2_rh_W_P bs log0 (Some b) r ->
  exists new, itg_pk_pinv bs (Some b) (itg_rn_pk r) new.
Proof. intros bs log0 b r [[[new [_ N2]] _] _]. exists new. exact N2. Qed.

Lemma itg2_rh_loop_F : forall bs fuel next r r', itg2_rh_F_P bs (itg_rn_log r) next r ->
  itg_loop fuel next r = itg_ok r' -> itg2_rh_F_P bs (itg_rn_log r) None r'.
Proof.
  intros bs fuel next r r' H0 H.
  apply (itg_loop_rule (itg2_rh_F_P bs (itg_rn_log r))) with (fuel := fuel) (next := next) (r := r); [| | |exact H0|exact H].
  - intros b r0 [HW [A [B HF]]] Esk np. destruct (itg2_rh_F_pinv _ _ _ _ HW) as [new Hp].
    unfold itg_pk_pinv in Hp. cbn [itg_out] in Hp.
    unfold itg2_rh_F_P. cbn [itg_rn_blocks itg_rn_state itg_rn_pk].
    split; [apply (itg2_rh_W_skip bs _ b r0 HW Esk)|]. split; [exact A|]. split; [exact B|].
    apply itg2_rh_fk_next; [|apply (itg_pi_store_cl _ _ _ _ _ _ _ Hp)|apply (itg_pi_lat_cl _ _ _ _ _ _ _ Hp)].
    apply (itg2_rh_fk_consume (itg_rn_blocks r0) (itg_rn_blocks r0) b); [exact HF|apply (itg_pi_out _ _ _ _ _ _ _ Hp)|].
    intros m0 Hm0 _. exact Hm0.
  - intros b r0 m [HW [A [B HF]]] Esk Em np. destruct (itg2_rh_F_pinv _ _ _ _ HW) as [new Hp].
    unfold itg2_rh_F_P. cbn [itg_rn_blocks itg_rn_state itg_rn_pk].
    split; [apply itg2_rh_W_switch; [exact HW|exact Esk|apply (itg_missing_dep_some _ _ _ Em)]|].
    split; [exact A|]. split; [apply itg_cache_state1; exact B|].
    apply (itg2_rh_fk_switch bs new); try assumption.
    destruct HW as [_ [_ [_ [Hnd _]]]]. exact Hnd.
  - intros b r0 blocks1 blocks2 [HW [A [B HF]]] Esk Em c lc E1 E2 np. destruct (itg2_rh_F_pinv _ _ _ _ HW) as [new Hp].
    unfold itg_pk_pinv in Hp. cbn [itg_out] in Hp.
    unfold itg2_rh_F_P. cbn [itg_rn_blocks itg_rn_state itg_rn_pk].
    assert (Hlc : lc = itg_get_clock (itg_rn_blocks r0) c) by (apply itg_cache_local; exact B).
    rewrite Hlc in E1.
    destruct (itg_integ_spec _ _ _ _ _ _ A E1 E2) as [A1 [A2 [A3 [A4 A5]]]].
    split; [apply itg2_rh_W_integ; exact HW|]. split; [exact A1|]. split.
    + intros c' v. rewrite itg_get_put. destruct (c' =? c) eqn:E.
      * intros Hv. injection Hv as <-. apply N.eqb_eq in E. subst c'. rewrite A2, Hlc. reflexivity.
      * intros Hv. apply N.eqb_neq in E. unfold itg_get_clock. rewrite (A3 _ E).
        apply (itg_cache_state1 _ c B) in Hv. exact Hv.
    + apply itg2_rh_fk_next; [|apply (itg_pi_store_cl _ _ _ _ _ _ _ Hp)|apply (itg_pi_lat_cl _ _ _ _ _ _ _ Hp)].
      apply (itg2_rh_fk_consume (itg_rn_blocks r0) blocks2 b); [exact HF|apply (itg_pi_out _ _ _ _ _ _ _ Hp)|].
      intros m0 Hm0 Hne. rewrite A4, Hm0. fold c in Hne. cbn [orb].
      destruct (cl m0 =? c) eqn:Ec; [apply N.eqb_eq in Ec; contradiction|reflexivity].
Qed.

Theorem itg2_run_heads : forall blocks log bs blocks' log' p,
  itg_update_ok bs -> itg_blocks_ok blocks ->
  itg_integrate blocks log bs = itg_ok (blocks', log', Some p) ->
  NoDup (map fst (u_blocks (itg_p_update p))) /\
  forall c d, In (c, d) (u_blocks (itg_p_update p)) ->
    exists D pre h rest m, In (c, D) bs /\ D = pre ++ h :: rest /\ d = h :: rest /\ itg_is_skip h = false /\
      In m (itg_deps h) /\ itg_has blocks' m = false /\ itg2_entry (itg_p_missing p) m.
Proof.
  intros blocks log bs blocks' log' p Hok Hbok H. unfold itg_integrate in H.
  destruct bs as [|e0 bs0] eqn:Eb; [discriminate|]. rewrite <- Eb in *. clear Eb.
  set (np := itg_pk_next (itg_pk_new bs)) in *.
  destruct (itg_loop (itg_loop_fuel bs) (fst np) (itg_mkrun blocks log [] (snd np))) as [r'| |] eqn:E;
    cbn [itg_bind] in H; try discriminate.
  injection H as <- _ Hp.
  assert (H0 : itg2_rh_F_P bs log (fst np) (itg_mkrun blocks log [] (snd np))).
  { unfold itg2_rh_F_P. cbn [itg_rn_blocks itg_rn_state itg_rn_pk].
    split; [apply (itg2_rh_W_init bs blocks log Hok)|]. split; [exact Hbok|]. split; [intros c v Hv; discriminate|].
    pose proof (itg_pk_new_pinv bs Hok) as Hp0. unfold itg_pk_pinv in Hp0.
    apply itg2_rh_fk_next; [|apply (itg_pi_store_cl _ _ _ _ _ _ _ Hp0)|apply (itg_pi_lat_cl _ _ _ _ _ _ _ Hp0)].
    unfold itg2_rh_fk, itg_pk_new. cbn [itg_out itg_pk_stack itg_pk_store itg_pk_latest itg_pk_missing itg_pk_unapp].
    split; [intros lc d Hl; discriminate|]. split; [intros s Hs; discriminate|]. split; [exact I|intros c d []]. }
  pose proof (itg2_rh_loop_F bs _ _ _ _ H0 E) as [HW [_ [_ [_ [_ [_ HU]]]]]]. cbn [itg_rn_log] in HW.
  unfold itg_pk_pending in Hp. destruct (itg_pk_unapp (itg_rn_pk r')) as [|e un] eqn:Eu; [discriminate|].
  injection Hp as <-. cbn [itg_p_update itg_p_missing u_blocks]. rewrite <- Eu in *.
  pose proof HW as [_ [_ [_ [Hnd _]]]]. split; [exact Hnd|].
  intros c d Hin. destruct (itg2_rh_W_final bs _ _ c d HW Hin) as [D [pre [h [rest [A1 [A2 [A3 A4]]]]]]].
  destruct (HU c d Hin) as [h' [rest' [m [E' [M1 [M2 [M3 _]]]]]]].
  assert (h' = h) by congruence. subst h'.
  exists D, pre, h, rest, m. repeat split; assumption.
Qed.

(* ================================================================================================ *)
(* 2c. the shape of the block lists  [itg2_shape_integrate] [itg2_shape_no_holes]                   *)
(* The shape of the block lists (no empty segment; a Skip segment is followed by an integrated one) is kept by
   Update::integrate, and with the downward closure of the integrated ids it means: no hole, one range per client. *)

(* ================================================================================================ *)
(* a recursive form of the shape                                                                    *)
(* ================================================================================================ *)
(* is the first segment integrated (nx: what follows the list) *)
Definition itg2_sh_hd_ns (l : list itg_seg) (nx : bool) : bool :=
  match l with g :: _ => negb (itg_sg_skip g) | [] => nx end.
Fixpoint itg2_sh_shpn (l : list itg_seg) (nx : bool) : Prop :=
  match l with
  | [] => True
  | g :: r => 0 < itg_sg_len g /\ (itg_sg_skip g = true -> itg2_sh_hd_ns r nx = true) /\ itg2_sh_shpn r nx
  end.

Lemma itg2_sh_shape_l_iff : forall l, itg2_shape_l l <-> itg2_sh_shpn l false.
Proof.
  induction l as [|g r IH]; split.
  - intros _. exact I.
  - intros _ pre g0 post E. destruct pre; discriminate.
  - intros H. cbn [itg2_sh_shpn]. destruct (H [] g r eq_refl) as [A B]. split; [exact A|]. split.
    + intros Hs. destruct (B Hs) as [g' [post' [-> Hg']]]. cbn [itg2_sh_hd_ns]. rewrite Hg'. reflexivity.
    + apply IH. intros pre g0 post E. apply (H (g :: pre) g0 post). rewrite E. reflexivity.
  - intros [A [B C]] pre g0 post E. destruct pre as [|x pre'].
    + cbn [app] in E. injection E as <- <-. split; [exact A|]. intros Hs. specialize (B Hs).
      destruct r as [|g' post']; cbn [itg2_sh_hd_ns] in B; [discriminate|].
      exists g', post'. split; [reflexivity|]. destruct (itg_sg_skip g'); [discriminate|reflexivity].
    + cbn [app] in E. injection E as <- E. apply (proj2 IH C pre' g0 post E).
Qed.

Lemma itg2_sh_hd_ns_app : forall x y nx, itg2_sh_hd_ns (x ++ y) nx = itg2_sh_hd_ns x (itg2_sh_hd_ns y nx).
Proof. intros [|g r] y nx; reflexivity. Qed.

Lemma itg2_sh_shpn_app : forall x y nx, itg2_sh_shpn (x ++ y) nx <-> itg2_sh_shpn x (itg2_sh_hd_ns y nx) /\ itg2_sh_shpn y nx.
Proof.
  induction x as [|g r IH]; intros y nx; cbn [app itg2_sh_shpn]; [tauto|].
  rewrite itg2_sh_hd_ns_app, IH. tauto.
Qed.

Lemma itg2_sh_shpn_any : forall l, itg2_sh_shpn l false -> forall nx, itg2_sh_shpn l nx.
Proof.
  induction l as [|g r IH]; cbn [itg2_sh_shpn]; intros H nx; [exact I|].
  destruct H as [A [B C]]. split; [exact A|]. split; [|apply IH; exact C].
  intros Hs. specialize (B Hs). destruct r; cbn [itg2_sh_hd_ns] in *; [discriminate|exact B].
Qed.

(* ================================================================================================ *)
(* BlockStore::push of an integrated block keeps the shape                                          *)
(* ================================================================================================ *)
Lemma itg2_sh_push_list_shape : forall l s len l', itg2_sh_shpn l false -> 0 < len ->
  itg_push_list l s len false = itg_ok l' -> itg2_sh_shpn l' false.
Proof.
  intros l s len l' Hs Hlen H. unfold itg_push_list in H.
  assert (Happ : itg2_sh_shpn (l ++ [itg_mkseg s len false]) false).
  { apply itg2_sh_shpn_app. split; [apply itg2_sh_shpn_any; exact Hs|].
    cbn [itg2_sh_shpn itg_sg_len itg_sg_skip]. split; [exact Hlen|]. split; [intros; discriminate|exact I]. }
  destruct l as [|g0 r0] eqn:El.
  - injection H as <-. exact Happ.
  - rewrite <- El in *. destruct (itg_list_clock l =? s) eqn:Ec.
    + injection H as <-. exact Happ.
    + destruct (itg_seg_split l s) as [[[pre g] post]|] eqn:Es; [|discriminate].
      destruct (itg_sg_end g <? s + len) eqn:E5; [discriminate|].
      destruct (itg_sg_skip g) eqn:Esk; cbn [negb] in H; [|discriminate].
      cbv beta iota in H. injection H as Hl'.
      destruct (itg_seg_split_spec _ _ _ _ _ Es) as [Hl Hin]. unfold itg_in_seg in Hin.
      rewrite Hl in Hs. apply itg2_sh_shpn_app in Hs. destruct Hs as [Hp [Hg0 [Hg1 Hpost]]].
      cbn [itg2_sh_hd_ns] in Hp. rewrite Esk in Hp. cbn [negb] in Hp. specialize (Hg1 Esk).
      rewrite <- Hl'. apply itg2_sh_shpn_app. split; [apply itg2_sh_shpn_any; exact Hp|].
      unfold itg_sg_end in *.
      destruct (itg_sg_start g <? s) eqn:A1; destruct (s + len <? itg_sg_start g + itg_sg_len g) eqn:A2;
        cbn [app itg2_sh_shpn itg2_sh_hd_ns itg_sg_len itg_sg_skip negb];
        repeat split; try (intros; discriminate); try reflexivity; try (intros _; exact Hg1); try exact Hg1; try exact Hpost; try lia.
Qed.

(* integrate_skip (if the block starts beyond the end of the list) followed by integrate, on one list *)
Lemma itg2_sh_integ_list_shape : forall l0 s len l1 l2, itg2_sh_shpn l0 false -> 0 < len ->
  (if itg_list_clock l0 <? s then itg_push_list l0 (itg_list_clock l0) (s - itg_list_clock l0) true else itg_ok l0)
    = itg_ok l1 ->
  itg_push_list l1 s len false = itg_ok l2 -> itg2_sh_shpn l2 false.
Proof.
  intros l0 s len l1 l2 Hs Hlen H1 H2. destruct (itg_list_clock l0 <? s) eqn:E.
  - set (g := itg_mkseg (itg_list_clock l0) (s - itg_list_clock l0) true) in *.
    assert (Hl1 : l1 = l0 ++ [g]).
    { unfold itg_push_list in H1. destruct l0 as [|x r]; [injection H1 as <-; reflexivity|].
      rewrite N.eqb_refl in H1. injection H1 as <-. reflexivity. }
    subst l1.
    assert (Hc : itg_list_clock (l0 ++ [g]) = s).
    { rewrite itg_list_clock_from0, itg_clock_from_app. cbn [itg_clock_from]. unfold itg_sg_end, g.
      cbn [itg_sg_start itg_sg_len]. lia. }
    assert (Hl2 : l2 = (l0 ++ [g]) ++ [itg_mkseg s len false]).
    { unfold itg_push_list in H2. rewrite Hc, N.eqb_refl in H2.
      destruct (l0 ++ [g]) eqn:E0; [destruct l0; discriminate|]. injection H2 as <-. reflexivity. }
    subst l2. rewrite <- app_assoc. apply itg2_sh_shpn_app. split; [apply itg2_sh_shpn_any; exact Hs|].
    cbn [app itg2_sh_shpn itg2_sh_hd_ns itg_sg_len itg_sg_skip negb]. unfold g. cbn [itg_sg_len itg_sg_skip].
    repeat split; try (intros; discriminate); try reflexivity; lia.
  - injection H1 as <-. apply (itg2_sh_push_list_shape _ _ _ _ Hs Hlen H2).
Qed.

(* ---- on the store ---- *)
Definition itg2_sh_lst (st : list (N * list itg_seg)) (c : N) : list itg_seg :=
  match itg_get st c with Some l => l | None => [] end.

Lemma itg2_sh_push_eq : forall st c s len sk,
  itg_push st c s len sk = itg_bind (itg_push_list (itg2_sh_lst st c) s len sk) (fun l' => itg_ok (itg_put st c l')).
Proof. intros. unfold itg_push, itg2_sh_lst. destruct (itg_get st c); reflexivity. Qed.

Lemma itg2_sh_get_clock_lst : forall st c, itg_get_clock st c = itg_list_clock (itg2_sh_lst st c).
Proof. intros. unfold itg_get_clock, itg2_sh_lst. destruct (itg_get st c); reflexivity. Qed.

Lemma itg2_sh_integ_shape : forall st c s len st1 st2, itg2_shape st -> 0 < len ->
  (if itg_get_clock st c <? s then itg_push st c (itg_get_clock st c) (s - itg_get_clock st c) true else itg_ok st)
    = itg_ok st1 ->
  itg_push st1 c s len false = itg_ok st2 -> itg2_shape st2.
Proof.
  intros st c s len st1 st2 Hsh Hlen H1 H2.
  rewrite itg2_sh_get_clock_lst in H1. set (l0 := itg2_sh_lst st c) in *.
  assert (Hl0 : itg2_sh_shpn l0 false).
  { unfold l0, itg2_sh_lst. destruct (itg_get st c) as [l|] eqn:E; [apply itg2_sh_shape_l_iff, (Hsh _ _ E)|exact I]. }
  assert (Hx : exists l1,
     (if itg_list_clock l0 <? s then itg_push_list l0 (itg_list_clock l0) (s - itg_list_clock l0) true else itg_ok l0)
       = itg_ok l1 /\ itg2_sh_lst st1 c = l1 /\ forall c', c' <> c -> itg_get st1 c' = itg_get st c').
  { destruct (itg_list_clock l0 <? s) eqn:E.
    - rewrite itg2_sh_push_eq in H1. fold l0 in H1.
      destruct (itg_push_list l0 (itg_list_clock l0) (s - itg_list_clock l0) true) as [l1| |];
        cbn [itg_bind] in H1; try discriminate.
      injection H1 as <-. exists l1. split; [reflexivity|]. split.
      + unfold itg2_sh_lst. rewrite itg_get_put_same. reflexivity.
      + intros c' Hne. apply itg_get_put_other. exact Hne.
    - injection H1 as <-. exists l0. split; [reflexivity|]. split; [reflexivity|]. intros; reflexivity. }
  destruct Hx as [l1 [P1 [P2 P3]]].
  rewrite itg2_sh_push_eq, P2 in H2.
  destruct (itg_push_list l1 s len false) as [l2| |] eqn:E2; cbn [itg_bind] in H2; try discriminate.
  injection H2 as <-.
  intros c' l Hg. rewrite itg_get_put in Hg. destruct (c' =? c) eqn:E.
  - injection Hg as <-. apply itg2_sh_shape_l_iff. apply (itg2_sh_integ_list_shape _ _ _ _ _ Hl0 Hlen P1 E2).
  - apply N.eqb_neq in E. rewrite P3 in Hg by exact E. apply (Hsh _ _ Hg).
Qed.

(* ================================================================================================ *)
(* (A) Update::integrate keeps the shape                                                            *)
(* ================================================================================================ *)
Definition itg2_sh_Q (b : block) : Prop := 0 < block_len b.

Definition itg2_sh_shape_P (next : option block) (r : itg_run) : Prop :=
  itg_blocks_ok (itg_rn_blocks r) /\
  itg_cache_ok (itg_rn_blocks r) (itg_rn_state r) /\
  itg2_shape (itg_rn_blocks r) /\
  (forall b, next = Some b -> itg2_sh_Q b) /\
  itg_pk_all itg2_sh_Q (itg_rn_pk r).

Lemma itg2_sh_loop_shape : forall fuel next r r', itg2_sh_shape_P next r -> itg_loop fuel next r = itg_ok r' ->
  itg2_sh_shape_P None r'.
Proof.
  intros fuel next r r' HP H.
  apply (itg_loop_rule itg2_sh_shape_P) with (fuel := fuel) (next := next) (r := r); [| | |exact HP|exact H].
  - intros b r0 [A [B [C [D E]]]] _ np. unfold itg2_sh_shape_P. cbn [itg_rn_blocks itg_rn_state itg_rn_pk].
    destruct (itg_pk_next_all itg2_sh_Q _ E) as [N1 N2].
    split; [exact A|]. split; [exact B|]. split; [exact C|]. split; assumption.
  - intros b r0 m [A [B [C [D E]]]] _ _ np. unfold itg2_sh_shape_P. cbn [itg_rn_blocks itg_rn_state itg_rn_pk].
    destruct (itg_pk_switch_all itg2_sh_Q _ b m E (D b eq_refl)) as [N1 N2].
    split; [exact A|]. split; [apply itg_cache_state1; exact B|]. split; [exact C|]. split; assumption.
  - intros b r0 blocks1 blocks2 [A [B [C [D E]]]] Esk Em c lc E1 E2 np. unfold itg2_sh_shape_P.
    cbn [itg_rn_blocks itg_rn_state itg_rn_pk].
    assert (Hlc : lc = itg_get_clock (itg_rn_blocks r0) c) by (apply itg_cache_local; exact B).
    rewrite Hlc in E1.
    destruct (itg_integ_spec _ _ _ _ _ _ A E1 E2) as [A1 [A2 [A3 [A4 A5]]]].
    destruct (itg_pk_next_all itg2_sh_Q _ E) as [N1 N2].
    split; [exact A1|]. split; [|split; [|split; assumption]].
    + intros c' v. rewrite itg_get_put. destruct (c' =? c) eqn:E0.
      * intros Hv. injection Hv as <-. apply N.eqb_eq in E0. subst c'. rewrite A2, Hlc. reflexivity.
      * intros Hv. apply N.eqb_neq in E0. unfold itg_get_clock. rewrite (A3 _ E0).
        apply (itg_cache_state1 _ c B) in Hv. exact Hv.
    + apply (itg2_sh_integ_shape _ _ _ _ _ _ C (D b eq_refl) E1 E2).
Qed.

Theorem itg2_shape_integrate : forall blocks log bs blocks' log' rem,
  itg_blocks_ok blocks -> itg2_shape blocks ->
  (forall c D b, In (c, D) bs -> In b D -> 0 < block_len b) ->
  itg_integrate blocks log bs = itg_ok (blocks', log', rem) -> itg2_shape blocks'.
Proof.
  intros blocks log bs blocks' log' rem Hok Hsh HQ H. unfold itg_integrate in H.
  destruct bs as [|e0 bs0] eqn:Eb.
  - injection H as <- _ _. exact Hsh.
  - rewrite <- Eb in *. clear Eb. set (np := itg_pk_next (itg_pk_new bs)) in *.
    destruct (itg_loop (itg_loop_fuel bs) (fst np) (itg_mkrun blocks log [] (snd np))) as [r'| |] eqn:E;
      cbn [itg_bind] in H; try discriminate.
    injection H as <- _ _.
    assert (H0 : itg_pk_all itg2_sh_Q (itg_pk_new bs)).
    { unfold itg_pk_all, itg_pk_new. cbn [itg_pk_store itg_pk_latest itg_pk_stack itg_pk_unapp].
      split; [|split; [intros c d Hc; discriminate|split; [intros b []|intros e []]]].
      intros [c D] He b Hb. apply (HQ c D b He Hb). }
    destruct (itg_pk_next_all itg2_sh_Q _ H0) as [N1 N2]. fold np in N1, N2.
    assert (HP : itg2_sh_shape_P (fst np) (itg_mkrun blocks log [] (snd np))).
    { unfold itg2_sh_shape_P. cbn [itg_rn_blocks itg_rn_state itg_rn_pk].
      split; [exact Hok|]. split; [intros c v Hv; discriminate|]. split; [exact Hsh|]. split; assumption. }
    destruct (itg2_sh_loop_shape _ _ _ _ HP E) as [_ [_ [C _]]]. exact C.
Qed.

(* ================================================================================================ *)
(* (C)                                                                                              *)
(* ================================================================================================ *)
Lemma itg2_shape_empty : itg2_shape [].
Proof. intros c l H. discriminate. Qed.

(* ================================================================================================ *)
(* (B) the shape and downward closure: no hole, one range per client                                *)
(* ================================================================================================ *)
Lemma itg2_sh_no_skip_seg : forall blocks c l, itg_blocks_ok blocks -> itg2_shape blocks ->
  (forall c j1 j2, itg_has blocks (mkid c j2) = true -> j1 < j2 -> itg_has blocks (mkid c j1) = true) ->
  itg_get blocks c = Some l -> forall g, In g l -> itg_sg_skip g = false.
Proof.
  intros blocks c l Hok Hsh Hcl Hg g Hin. destruct (itg_sg_skip g) eqn:Esk; [exfalso|reflexivity].
  apply in_split in Hin. destruct Hin as [pre [post El]]. subst l.
  destruct (Hok _ _ Hg) as [Hwf _]. pose proof (Hsh _ _ Hg) as Hs.
  destruct (Hs pre g post eq_refl) as [Hlen Hnx]. destruct (Hnx Esk) as [g' [post' [-> Esk']]].
  destruct (Hs (pre ++ [g]) g' post') as [Hlen' _]; [rewrite <- app_assoc; reflexivity|].
  rewrite itg_segs_from_app in Hwf. apply andb_prop in Hwf. destruct Hwf as [W1 W2].
  cbn [itg_segs_from] in W2. apply andb_prop in W2. destruct W2 as [W2 W3].
  assert (W3' : itg_segs_from (itg_sg_end g) (g' :: post') = true) by exact W3.
  apply andb_prop in W3. destruct W3 as [W3 W4].
  assert (H1 : itg_has blocks (mkid c (itg_sg_start g')) = true).
  { unfold itg_has. cbn [cl ck]. rewrite Hg, itg_has_l_app. apply orb_true_iff. right.
    unfold itg_has_l. cbn [existsb]. rewrite Esk, Esk'. cbn [negb andb orb]. apply orb_true_iff. left.
    unfold itg_in_seg, itg_sg_end. lia. }
  assert (H0 : itg_has blocks (mkid c (itg_sg_start g)) = false).
  { unfold itg_has. cbn [cl ck]. rewrite Hg, itg_has_l_app.
    assert (Hp : itg_has_l pre (itg_sg_start g) = false).
    { apply (itg_segs_out pre 0 _ W1). right. lia. }
    rewrite Hp. cbn [orb].
    assert (Hq : itg_has_l (g' :: post') (itg_sg_start g) = false).
    { apply (itg_segs_out _ _ _ W3'). left. unfold itg_sg_end. lia. }
    unfold itg_has_l in *. cbn [existsb] in *. rewrite Esk. cbn [negb andb orb]. exact Hq. }
  assert (Hlt : itg_sg_start g < itg_sg_start g') by (unfold itg_sg_end in *; lia).
  rewrite (Hcl c _ _ H1 Hlt) in H0. discriminate.
Qed.

(* a contiguous list of integrated segments of positive length *)
Lemma itg2_sh_runs_true_none : forall l, (forall g, In g l -> itg_sg_skip g = false /\ 0 < itg_sg_len g) ->
  itg_runs true None l = [].
Proof.
  induction l as [|g r IH]; intros H; [reflexivity|]. cbn [itg_runs].
  destruct (H g (or_introl eq_refl)) as [A B]. rewrite A.
  assert (Hb : (0 <? itg_sg_len g) = true) by lia. rewrite Hb. cbn [Bool.eqb andb].
  apply IH. intros g0 Hg0. apply H. right. exact Hg0.
Qed.

Lemma itg2_sh_runs_false_some : forall l a a0, itg_segs_from a l = true ->
  (forall g, In g l -> itg_sg_skip g = false /\ 0 < itg_sg_len g) ->
  itg_runs false (Some (a0, a)) l = [(a0, itg_clock_from a l)].
Proof.
  induction l as [|g r IH]; intros a a0 Hwf H; [reflexivity|]. cbn [itg_runs itg_clock_from].
  destruct (H g (or_introl eq_refl)) as [A B]. rewrite A.
  assert (Hb : (0 <? itg_sg_len g) = true) by lia. rewrite Hb. cbn [Bool.eqb andb].
  cbn [itg_segs_from] in Hwf. apply andb_prop in Hwf. destruct Hwf as [W1 W2].
  assert (He : (a =? itg_sg_start g) = true) by lia. rewrite He.
  apply IH; [exact W2|]. intros g0 Hg0. apply H. right. exact Hg0.
Qed.

Lemma itg2_sh_runs_false_none : forall l a, itg_segs_from a l = true -> l <> [] ->
  (forall g, In g l -> itg_sg_skip g = false /\ 0 < itg_sg_len g) ->
  itg_runs false None l = [(a, itg_clock_from a l)] /\ a < itg_clock_from a l.
Proof.
  intros [|g r] a Hwf Hne H; [contradiction|]. cbn [itg_runs itg_clock_from].
  destruct (H g (or_introl eq_refl)) as [A B]. rewrite A.
  assert (Hb : (0 <? itg_sg_len g) = true) by lia. rewrite Hb. cbn [Bool.eqb andb].
  cbn [itg_segs_from] in Hwf. apply andb_prop in Hwf. destruct Hwf as [W1 W2].
  split.
  - rewrite (itg2_sh_runs_false_some r (itg_sg_end g) (itg_sg_start g) W2).
    + assert (Hs : itg_sg_start g = a) by lia. rewrite Hs. reflexivity.
    + intros g0 Hg0. apply H. right. exact Hg0.
  - pose proof (itg_clock_from_ge _ _ W2). unfold itg_sg_end in *. lia.
Qed.

Lemma itg2_sh_has_l_noskip : forall l a k, itg_segs_from a l = true ->
  (forall g, In g l -> itg_sg_skip g = false /\ 0 < itg_sg_len g) ->
  itg_has_l l k = (a <=? k) && (k <? itg_clock_from a l).
Proof.
  induction l as [|g r IH]; intros a k Hwf H.
  - cbn [itg_has_l existsb itg_clock_from]. unfold itg_has_l. cbn [existsb]. lia.
  - cbn [itg_segs_from] in Hwf. apply andb_prop in Hwf. destruct Hwf as [W1 W2].
    destruct (H g (or_introl eq_refl)) as [A B].
    assert (Hr : itg_has_l r k = (itg_sg_end g <=? k) && (k <? itg_clock_from (itg_sg_end g) r)).
    { apply IH; [exact W2|]. intros g0 Hg0. apply H. right. exact Hg0. }
    pose proof (itg_clock_from_ge _ _ W2) as Hge.
    unfold itg_has_l in *. cbn [existsb itg_clock_from]. rewrite Hr, A. cbn [negb andb].
    unfold itg_in_seg, itg_sg_end in *. lia.
Qed.

(* NoDup (map fst blocks) is ADDED to the statement asked for: without it an entry of the association list that
   is hidden behind another entry of the same client is seen by the observers and not by itg_get
   (itg2_no_holes_dup_cex below) *)
Theorem itg2_shape_no_holes : forall blocks p log, itg_blocks_ok blocks -> itg2_shape blocks ->
  NoDup (map fst blocks) ->
  (forall c j1 j2, itg_has blocks (mkid c j2) = true -> j1 < j2 -> itg_has blocks (mkid c j1) = true) ->
  itg_obs_holes (itg_mkstore blocks p log) = [] /\
  forall e, In e (itg_obs_ranges (itg_mkstore blocks p log)) ->
    exists n, snd e = [(0, n)] /\ 0 < n /\ forall j, itg_has blocks (mkid (fst e) j) = (j <? n).
Proof.
  intros blocks p log Hok Hsh Hnd Hcl.
  assert (Hall : forall c l, In (c, l) blocks ->
            itg_get blocks c = Some l /\ itg_segs_from 0 l = true /\ l <> [] /\
            forall g, In g l -> itg_sg_skip g = false /\ 0 < itg_sg_len g).
  { intros c l Hin. pose proof (itg_get_of_in _ _ _ _ Hnd Hin) as Hg.
    destruct (Hok _ _ Hg) as [W1 W2]. split; [exact Hg|]. split; [exact W1|]. split; [exact W2|].
    intros g Hgi. split; [apply (itg2_sh_no_skip_seg _ _ _ Hok Hsh Hcl Hg g Hgi)|].
    apply in_split in Hgi. destruct Hgi as [pre [post El]]. apply (Hsh _ _ Hg pre g post El). }
  split.
  - unfold itg_obs_holes. cbn [itg_blocks].
    assert (Hgen : forall m : list (N * list itg_seg), (forall e, In e m -> itg_runs true None (snd e) = []) ->
              filter (fun e : N * list (N * N) => match snd e with [] => false | _ => true end)
                     (map (fun e => (fst e, itg_runs true None (snd e))) m) = []).
    { induction m as [|e m IH]; intros H; [reflexivity|]. cbn [map filter snd].
      rewrite (H e (or_introl eq_refl)). apply IH. intros e0 He0. apply H. right. exact He0. }
    apply Hgen. intros [c l] He. cbn [snd]. apply itg2_sh_runs_true_none. apply (Hall c l He).
  - intros e He. unfold itg_obs_ranges in He. cbn [itg_blocks] in He. apply in_map_iff in He.
    destruct He as [[c l] [<- Hin]]. cbn [fst snd].
    destruct (Hall c l Hin) as [Hg [W1 [W2 W3]]].
    destruct (itg2_sh_runs_false_none l 0 W1 W2 W3) as [R1 R2].
    exists (itg_clock_from 0 l). split; [exact R1|]. split; [exact R2|].
    intros j. unfold itg_has. cbn [cl ck]. rewrite Hg. rewrite (itg2_sh_has_l_noskip l 0 j W1 W3). lia.
Qed.

(* ================================================================================================ *)
(* the keys of the store stay distinct (the extra hypothesis of (B))                                *)
(* ================================================================================================ *)
Lemma itg2_sh_keys_del : forall (A : Type) (m : list (N * A)) c,
  map fst (itg_del m c) = filter (fun k => negb (k =? c)) (map fst m).
Proof.
  intros A m c. unfold itg_del. induction m as [|[c0 v0] r IH]; [reflexivity|]. cbn [map filter fst].
  destruct (c0 =? c); cbn [negb map fst]; rewrite IH; reflexivity.
Qed.

Lemma itg2_sh_keys_ins_in : forall (A : Type) (m : list (N * A)) c v x,
  In x (map fst (itg_ins m c v)) -> x = c \/ In x (map fst m).
Proof.
  intros A m c v x. induction m as [|[c0 v0] r IH]; cbn [itg_ins map fst In].
  - intros [H|[]]. left. symmetry. exact H.
  - destruct (c <? c0); cbn [map fst In].
    + intros [H|[H|H]]; [left; symmetry; exact H|right; left; exact H|right; right; exact H].
    + intros [H|H]; [right; left; exact H|]. destruct (IH H) as [H1|H1]; [left; exact H1|right; right; exact H1].
Qed.

Lemma itg2_sh_keys_ins_nodup : forall (A : Type) (m : list (N * A)) c v, ~ In c (map fst m) -> NoDup (map fst m) ->
  NoDup (map fst (itg_ins m c v)).
Proof.
  intros A m c v. induction m as [|[c0 v0] r IH]; cbn [itg_ins map fst]; intros Hn Hnd.
  - constructor; [intros []|constructor].
  - destruct (c <? c0); cbn [map fst].
    + constructor; [exact Hn|exact Hnd].
    + inversion Hnd as [|z l Hz Hr]; subst. constructor.
      * intros Hin. apply itg2_sh_keys_ins_in in Hin. destruct Hin as [->|Hin]; [apply Hn; left; reflexivity|contradiction].
      * apply IH; [intros Hin; apply Hn; right; exact Hin|exact Hr].
Qed.

Lemma itg2_sh_keys_put_nodup : forall (A : Type) (m : list (N * A)) c v, NoDup (map fst m) -> NoDup (map fst (itg_put m c v)).
Proof.
  intros A m c v Hnd. unfold itg_put. apply itg2_sh_keys_ins_nodup.
  - rewrite itg2_sh_keys_del. intros Hin. apply filter_In in Hin. destruct Hin as [_ Hb]. rewrite N.eqb_refl in Hb. discriminate.
  - rewrite itg2_sh_keys_del. apply NoDup_filter. exact Hnd.
Qed.

Lemma itg2_sh_push_nodup : forall st c s len sk st', NoDup (map fst st) -> itg_push st c s len sk = itg_ok st' ->
  NoDup (map fst st').
Proof.
  intros st c s len sk st' Hnd H. rewrite itg2_sh_push_eq in H.
  destruct (itg_push_list (itg2_sh_lst st c) s len sk) as [l'| |]; cbn [itg_bind] in H; try discriminate.
  injection H as <-. apply itg2_sh_keys_put_nodup. exact Hnd.
Qed.

Theorem itg2_nodup_integrate : forall blocks log bs blocks' log' rem, NoDup (map fst blocks) ->
  itg_integrate blocks log bs = itg_ok (blocks', log', rem) -> NoDup (map fst blocks').
Proof.
  intros blocks log bs blocks' log' rem Hnd H. unfold itg_integrate in H.
  destruct bs as [|e0 bs0] eqn:Eb.
  - injection H as <- _ _. exact Hnd.
  - rewrite <- Eb in *. clear Eb. set (np := itg_pk_next (itg_pk_new bs)) in *.
    destruct (itg_loop (itg_loop_fuel bs) (fst np) (itg_mkrun blocks log [] (snd np))) as [r'| |] eqn:E;
      cbn [itg_bind] in H; try discriminate.
    injection H as <- _ _.
    apply (itg_loop_rule (fun _ r => NoDup (map fst (itg_rn_blocks r)))) with
      (fuel := itg_loop_fuel bs) (next := fst np) (r := itg_mkrun blocks log [] (snd np)); [| | |exact Hnd|exact E].
    + intros b r0 HP _ np0. exact HP.
    + intros b r0 m HP _ _ np0. exact HP.
    + intros b r0 blocks1 blocks2 HP _ _ c lc E1 E2 np0. cbn [itg_rn_blocks] in *.
      apply (itg2_sh_push_nodup _ _ _ _ _ _) with (2 := E2).
      destruct (lc <? itg_clock b); [apply (itg2_sh_push_nodup _ _ _ _ _ _ HP E1)|injection E1 as <-; exact HP].
Qed.
(* ================================================================================================ *)
(* 2d. Update::merge_updates on two stashes  [itg2_mrg_real]                                        *)
(* Update::merge_updates (Crdt/Merge.v, used as [itg_mrg a b = mrg_merge_updates [a; b]]) satisfies the interface
   [itg2_mrg_ok] of Stash.v on two stashes made of blocks of one history. *)
Open Scope N_scope.

(* ================================================================================================ *)
(* 0. small facts                                                                                   *)
(* ================================================================================================ *)
Lemma itg2_mg_nodup_map_inj {A B} (f : A -> B) : forall l x y, NoDup (map f l) -> In x l -> In y l -> f x = f y -> x = y.
Proof.
  induction l as [|a l IH]; intros x y Hn Hx Hy E; [destruct Hx|].
  cbn [map] in Hn. inversion Hn as [|? ? Hni Hn']; subst.
  destruct Hx as [<-|Hx], Hy as [<-|Hy].
  - reflexivity.
  - exfalso. apply Hni. rewrite E. apply in_map. exact Hy.
  - exfalso. apply Hni. rewrite <- E. apply in_map. exact Hx.
  - apply IH; assumption.
Qed.

Lemma itg2_mg_sorted_app {A} (R : A -> A -> Prop) : forall l1 l2, StronglySorted R l1 -> StronglySorted R l2 ->
  (forall x y, In x l1 -> In y l2 -> R x y) -> StronglySorted R (l1 ++ l2).
Proof.
  induction l1 as [|a l1 IH]; intros l2 H1 H2 H; [exact H2|]. inversion H1 as [|? ? Hs Hf]; subst.
  cbn [app]. constructor.
  - apply IH; [exact Hs|exact H2|]. intros x y Hx Hy. apply H; [now right|exact Hy].
  - apply Forall_forall. intros y Hy. apply in_app_iff in Hy. destruct Hy as [Hy|Hy].
    + rewrite Forall_forall in Hf. apply Hf. exact Hy.
    + apply H; [now left|exact Hy].
Qed.

Lemma itg2_mg_cf_wf : forall b, itg_cf_block b = true -> blk_wf b = true.
Proof.
  intros [i o ro p ps c|i n|i n] H; try reflexivity. cbn [blk_wf itg_cf_block] in *. destruct c; try discriminate; reflexivity.
Qed.

Lemma itg2_mg_unit_nonskip : forall b x, In x (units_of_block b) -> itg_is_skip b = false.
Proof. intros [i o ro p ps c|i n|i n] x H; try reflexivity. destruct H. Qed.

(* ================================================================================================ *)
(* 1. the arguments are well-formed for the merge: mrg_wf [a; b]                                    *)
(* ================================================================================================ *)
(* keys distinct -> sorted strictly descending by IntoBlocks *)
Lemma itg2_mg_insert_client_sorted : forall x l, StronglySorted (fun c c' : N => c' < c) (map fst l) ->
  ~ In (fst x) (map fst l) -> StronglySorted (fun c c' : N => c' < c) (map fst (mrg_insert_client x l)).
Proof.
  intros x. induction l as [|y r IH]; intros Hs Hn; cbn [mrg_insert_client map].
  - constructor; constructor.
  - cbn [map] in Hs. inversion Hs as [|? ? Hs' Hf]; subst.
    assert (Hne : fst y <> fst x) by (intros E; apply Hn; left; exact E).
    destruct (fst y <=? fst x) eqn:E.
    + cbn [map]. constructor; [exact Hs|]. constructor; [lia|].
      apply Forall_forall. intros k Hk. rewrite Forall_forall in Hf. specialize (Hf k Hk). lia.
    + cbn [map]. constructor.
      * apply IH; [exact Hs'|]. intros Hin. apply Hn. right. exact Hin.
      * apply Forall_forall. intros k Hk.
        assert (Hk' : In k (map fst (x :: r))).
        { apply (Permutation_in k (Permutation_map fst (mrg_insert_client_perm x r))). exact Hk. }
        cbn [map] in Hk'. destruct Hk' as [<-|Hk']; [lia|]. rewrite Forall_forall in Hf. apply Hf. exact Hk'.
Qed.

Lemma itg2_mg_sort_clients_sorted : forall l, NoDup (map fst l) ->
  StronglySorted (fun c c' : N => c' < c) (map fst (mrg_sort_clients l)).
Proof.
  unfold mrg_sort_clients. induction l as [|x l IH]; intros Hn; cbn [fold_right map]; [constructor|].
  cbn [map] in Hn. inversion Hn as [|? ? Hni Hn']; subst.
  apply itg2_mg_insert_client_sorted; [apply IH; exact Hn'|].
  intros Hin. apply Hni. apply (Permutation_in _ (Permutation_map fst (mrg_sort_clients_perm l))). exact Hin.
Qed.

(* a client's contiguous run is sorted *)
Lemma itg2_mg_deque_from_sorted : forall c d a, itg_deque_from c a d = true ->
  StronglySorted mrg_before d /\ forall b, In b d -> mrg_client b = c /\ a <= mrg_clock b /\ 0 < block_len b.
Proof.
  intros c. induction d as [|x r IH]; intros a H; [split; [constructor|intros b []]|].
  destruct (itg_deque_from_cons _ _ _ _ H) as [Hc [Ha [Hl H2]]]. destruct (IH _ H2) as [IH1 IH2].
  unfold itg_end, itg_client, itg_clock in *. split.
  - constructor; [exact IH1|]. apply Forall_forall. intros y Hy. destruct (IH2 y Hy) as [Y1 [Y2 Y3]].
    right. unfold mrg_end, mrg_clock, mrg_client in *. split; [congruence|lia].
  - intros b [<-|Hb]; unfold mrg_client, mrg_clock in *.
    + repeat split; [exact Hc|lia|exact Hl].
    + destruct (IH2 b Hb) as [Y1 [Y2 Y3]]. unfold mrg_client, mrg_clock in *. repeat split; [exact Y1|lia|exact Y3].
Qed.

Lemma itg2_mg_entries_sorted : forall l, StronglySorted (fun c c' : N => c' < c) (map fst l) ->
  (forall e, In e l -> itg_deque_wf (fst e) (snd e) = true) ->
  StronglySorted mrg_before (flat_map snd l).
Proof.
  induction l as [|[c d] l IH]; intros Hs Hw; cbn [flat_map snd]; [constructor|].
  cbn [map fst] in Hs. inversion Hs as [|? ? Hs' Hf]; subst.
  assert (Hd : exists a, itg_deque_from c a d = true).
  { specialize (Hw (c, d) (or_introl eq_refl)). cbn [fst snd] in Hw. unfold itg_deque_wf in Hw.
    destruct d as [|b r]; [discriminate|]. eexists. exact Hw. }
  destruct Hd as [a Hd]. destruct (itg2_mg_deque_from_sorted c d a Hd) as [D1 D2].
  apply itg2_mg_sorted_app; [exact D1|apply IH; [exact Hs'|intros e He; apply Hw; now right]|].
  intros x y Hx Hy. apply in_flat_map in Hy. destruct Hy as [[c' d'] [He Hy]]. cbn [snd] in Hy.
  destruct (D2 x Hx) as [X1 _].
  assert (Hc' : mrg_client y = c').
  { pose proof (Hw (c', d') (or_intror He)) as Hw'. cbn [fst snd] in Hw'. unfold itg_deque_wf in Hw'.
    destruct d' as [|b r]; [destruct Hy|]. apply (proj2 (itg2_mg_deque_from_sorted c' _ _ Hw') y Hy). }
  left. rewrite X1, Hc'. rewrite Forall_forall in Hf. apply Hf. apply in_map_iff. exists (c', d'). split; [reflexivity|exact He].
Qed.

Lemma itg2_mg_update_wf_parts : forall bs, itg_update_wf bs = true ->
  NoDup (map fst bs) /\ (forall e, In e bs -> itg_deque_wf (fst e) (snd e) = true) /\
  (forall c d b, In (c, d) bs -> In b d -> itg_client b = c /\ 0 < block_len b).
Proof.
  intros bs H. unfold itg_update_wf in H. apply andb_prop in H. destruct H as [H1 H2]. rewrite forallb_forall in H2.
  split; [apply itg_keys_distinct_nodup; exact H1|]. split; [exact H2|].
  intros c d b He Hb. specialize (H2 _ He). cbn [fst snd] in H2. unfold itg_deque_wf in H2.
  destruct d as [|f r]; [destruct Hb|]. apply (itg_deque_from_clients c _ _ b H2 Hb).
Qed.

(* what one argument contributes *)
Lemma itg2_mg_into_blocks_ok : forall u, itg2_stash_wf (u_blocks u) ->
  forallb mrg_block_ok (mrg_into_blocks u) = true /\ mrg_sorted_b (mrg_into_blocks u) = true.
Proof.
  intros u [Hwf Hcf]. destruct (itg2_mg_update_wf_parts _ Hwf) as [Hn [Hd Hk]]. split.
  - apply forallb_forall. intros b Hb. apply mrg_into_blocks_in in Hb. destruct Hb as [Hb _].
    unfold mrg_out_blocks in Hb. apply in_flat_map in Hb. destruct Hb as [[c d] [He Hb]]. cbn [snd] in Hb.
    unfold mrg_block_ok. destruct (Hk c d b He Hb) as [_ Hl].
    pose proof (Hcf (c, d) He) as Hf. unfold itg_cf_list in Hf. rewrite Forall_forall in Hf. cbn [snd] in Hf.
    rewrite (itg2_mg_cf_wf b (Hf b Hb)). apply N.ltb_lt. exact Hl.
  - apply mrg_sorted_b_complete. unfold mrg_into_blocks. apply mrg_sorted_filter.
    apply itg2_mg_entries_sorted.
    + apply itg2_mg_sort_clients_sorted. exact Hn.
    + intros e He. apply Hd. apply (Permutation_in _ (mrg_sort_clients_perm _)). exact He.
Qed.

(* the non-Skip blocks of an argument *)
Lemma itg2_mg_into_blocks_in2 : forall u b, In b (mrg_into_blocks u) <-> itg2_in (u_blocks u) b.
Proof.
  intros u b. rewrite mrg_into_blocks_in. unfold itg2_in, mrg_out_blocks. rewrite in_flat_map. split.
  - intros [[[c d] [He Hb]] Hs]. exists c, d. split; [exact He|]. split; [exact Hb|exact Hs].
  - intros [c [d [He [Hb Hs]]]]. split; [|exact Hs]. exists (c, d). split; [exact He|exact Hb].
Qed.

Lemma itg2_mg_mrg_wf : forall H rho W a b, NoDup (map xid W) ->
  itg2_stash_wf (u_blocks a) -> itg2_oks H rho W (u_blocks a) ->
  itg2_stash_wf (u_blocks b) -> itg2_oks H rho W (u_blocks b) ->
  mrg_wf [a; b] = true.
Proof.
  intros H rho W a b HW Ha Oa Hb Ob. rewrite mrg_wf_core. apply andb_true_intro. split.
  - cbn [map forallb]. destruct (itg2_mg_into_blocks_ok a Ha) as [A1 A2]. destruct (itg2_mg_into_blocks_ok b Hb) as [B1 B2].
    rewrite A1, A2, B1, B2. reflexivity.
  - unfold mrg_agree_b. apply mrg_agree_gen_b_complete. intros x y Hx Hy E.
    assert (Hin : forall z, In z (flat_map units_of_block (concat (map mrg_into_blocks [a; b]))) -> In z W).
    { intros z Hz. apply in_flat_map in Hz. destruct Hz as [bl [Hbl Hz]]. cbn [map concat] in Hbl.
      rewrite app_nil_r in Hbl. apply in_app_iff in Hbl. destruct Hbl as [Hbl|Hbl]; apply itg2_mg_into_blocks_in2 in Hbl.
      - destruct (Oa bl Hbl) as [_ [_ [Hi _]]]. apply Hi. exact Hz.
      - destruct (Ob bl Hbl) as [_ [_ [Hi _]]]. apply Hi. exact Hz. }
    apply (itg2_mg_nodup_map_inj xid W); [exact HW|apply Hin; exact Hx|apply Hin; exact Hy|exact E].
Qed.

(* ================================================================================================ *)
(* 2. what MergeProofs.v gives about the result                                                     *)
(* ================================================================================================ *)
Lemma itg2_mg_mrg_facts : forall a b, mrg_wf [a; b] = true ->
  (forall x, In x (mrg_out_units (u_blocks (itg_mrg a b))) <-> In x (units_of_update a) \/ In x (units_of_update b)) /\
  mrg_out_ok (u_blocks (itg_mrg a b)) /\
  (forall bl, In bl (mrg_out_blocks (u_blocks (itg_mrg a b))) -> blk_wf bl = true /\ 0 < block_len bl).
Proof.
  intros a b Hwf. unfold itg_mrg. split; [|split].
  - intros x. change (mrg_out_units (u_blocks (mrg_merge_updates [a; b]))) with (units_of_update (mrg_merge_updates [a; b])).
    rewrite (mrg_units_preserved [a; b] Hwf x). split.
    + intros [u [[<-|[<-|[]]] Hx]]; [left|right]; exact Hx.
    + intros [Hx|Hx]; [exists a|exists b]; (split; [cbn; tauto|exact Hx]).
  - apply mrg_output_ok. exact Hwf.
  - destruct (mrg_wf_run (fun x => x) [a; b] Hwf) as [s0 [r [Hs0 [Hst Hm]]]].
    destruct (mrg_state_inv_final _ _ _ s0 r Hs0 Hst) as [_ [_ [_ Hbw]]].
    rewrite Hm. exact Hbw.
Qed.

(* ================================================================================================ *)
(* 3. coverage = ids of the units                                                                   *)
(* ================================================================================================ *)
Definition itg2_mg_keyed (bs : list (N * list block)) : Prop := forall c d b, In (c, d) bs -> In b d -> itg_client b = c.
Definition itg2_mg_allwf (bs : list (N * list block)) : Prop := forall b, itg2_in bs b -> blk_wf b = true.

Lemma itg2_mg_cov_spec : forall bs i, itg2_cov bs i = true <->
  exists c d b, In (c, d) bs /\ c = cl i /\ In b d /\ itg_is_skip b = false /\ itg_clock b <= ck i < itg_end b.
Proof.
  intros bs i. unfold itg2_cov. rewrite existsb_exists. split.
  - intros [[c d] [He Hc]]. cbn [fst snd] in Hc. apply andb_prop in Hc. destruct Hc as [Hc Hd].
    apply itg_dcov_in in Hd. destruct Hd as [b [Hb [Hs Hr]]]. exists c, d, b. repeat split; try assumption; lia.
  - intros [c [d [b [He [Hc [Hb [Hs Hr]]]]]]]. exists (c, d). split; [exact He|]. cbn [fst snd].
    rewrite (itg_in_dcov d b (ck i) Hb Hs Hr). subst c. rewrite N.eqb_refl. reflexivity.
Qed.

Lemma itg2_mg_cov_units : forall bs i, itg2_mg_keyed bs -> itg2_mg_allwf bs ->
  (itg2_cov bs i = true <-> exists x, In x (mrg_out_units bs) /\ xid x = i).
Proof.
  intros bs i Hk Hw. rewrite itg2_mg_cov_spec. split.
  - intros [c [d [b [He [Hc [Hb [Hs Hr]]]]]]].
    assert (Hwf : blk_wf b = true) by (apply Hw; exists c, d; repeat split; assumption).
    destruct (mrg_units_cover b (ck i) Hwf Hs) as [x [Hx Hi]]; [exact (proj1 Hr)|exact (proj2 Hr)|].
    exists x. split.
    + apply mrg_out_units_blocks. exists b. split; [|exact Hx]. unfold mrg_out_blocks. apply in_flat_map.
      exists (c, d). split; [exact He|exact Hb].
    + rewrite Hi. change (mrg_client b) with (itg_client b). rewrite (Hk c d b He Hb), Hc. apply itg_id_eta.
  - intros [x [Hx Hi]]. apply mrg_out_units_blocks in Hx. destruct Hx as [b [Hb Hx]].
    unfold mrg_out_blocks in Hb. apply in_flat_map in Hb. destruct Hb as [[c d] [He Hb]]. cbn [snd] in Hb.
    pose proof (itg2_mg_unit_nonskip b x Hx) as Hs.
    assert (Hwf : blk_wf b = true) by (apply Hw; exists c, d; repeat split; assumption).
    destruct (mrg_units_range b x Hwf Hx) as [R1 [R2 R3]].
    exists c, d, b. split; [exact He|]. split; [|split; [exact Hb|split; [exact Hs|]]].
    + rewrite <- (Hk c d b He Hb). unfold itg_client. rewrite <- Hi. symmetry. exact R1.
    + rewrite <- Hi. unfold itg_end, itg_clock. unfold mrg_end, mrg_clock in *. lia.
Qed.

Lemma itg2_mg_stash_keyed : forall bs, itg2_stash_wf bs -> itg2_mg_keyed bs /\ itg2_mg_allwf bs.
Proof.
  intros bs [Hwf Hcf]. destruct (itg2_mg_update_wf_parts _ Hwf) as [_ [_ Hk]]. split.
  - intros c d b He Hb. apply (Hk c d b He Hb).
  - intros b [c [d [He [Hb _]]]]. apply itg2_mg_cf_wf. pose proof (Hcf (c, d) He) as Hf. unfold itg_cf_list in Hf.
    rewrite Forall_forall in Hf. apply Hf. exact Hb.
Qed.

Lemma itg2_mg_out_keyed : forall a b, mrg_wf [a; b] = true ->
  itg2_mg_keyed (u_blocks (itg_mrg a b)) /\ itg2_mg_allwf (u_blocks (itg_mrg a b)).
Proof.
  intros a b Hwf. destruct (itg2_mg_mrg_facts a b Hwf) as [_ [[Hk _] Hbw]]. split.
  - intros c d bl He Hb. apply (proj2 (Hk c d He) bl Hb).
  - intros bl [c [d [He [Hb _]]]]. apply Hbw. unfold mrg_out_blocks. apply in_flat_map. exists (c, d). split; [exact He|exact Hb].
Qed.

Lemma itg2_mg_mrg_cov : forall a b, mrg_wf [a; b] = true -> itg2_stash_wf (u_blocks a) -> itg2_stash_wf (u_blocks b) ->
  forall i, itg2_cov (u_blocks (itg_mrg a b)) i = itg2_cov (u_blocks a) i || itg2_cov (u_blocks b) i.
Proof.
  intros a b Hwf Ha Hb i. destruct (itg2_mg_stash_keyed _ Ha) as [Ka Wa]. destruct (itg2_mg_stash_keyed _ Hb) as [Kb Wb].
  destruct (itg2_mg_out_keyed a b Hwf) as [Ko Wo]. destruct (itg2_mg_mrg_facts a b Hwf) as [Hu _].
  apply eq_true_iff_eq. rewrite orb_true_iff, (itg2_mg_cov_units _ i Ko Wo), (itg2_mg_cov_units _ i Ka Wa), (itg2_mg_cov_units _ i Kb Wb).
  split.
  - intros [x [Hx Hi]]. apply Hu in Hx. destruct Hx as [Hx|Hx]; [left|right]; exists x; split; assumption.
  - intros [[x [Hx Hi]]|[x [Hx Hi]]]; exists x; (split; [apply Hu|exact Hi]); [left|right]; exact Hx.
Qed.

(* ================================================================================================ *)
(* 4. content-free blocks and their units                                                           *)
(* ================================================================================================ *)
Definition itg2_mg_ucf (u : ucontent) : Prop := u = UDeleted \/ exists w, u = UType (TWeak w).

Lemma itg2_mg_item_unit_in : forall us c k o' ro' p' ps' x, In x (units_of_item c k o' ro' p' ps' us) ->
  exists u, In u us /\
    ((x = XItem (mkop (mkid c k) o' ro' p' ps' u) /\ exists r, us = u :: r) \/
     (exists j, k < j /\ j < k + N.of_nat (length us) /\
                x = XItem (mkop (mkid c j) (Some (mkid c (j - 1))) ro' p' ps' u))).
Proof.
  induction us as [|u us IH]; intros c k o' ro' p' ps' x H; cbn [units_of_item] in H; [destruct H|].
  destruct H as [<-|H].
  - exists u. split; [now left|]. left. split; [reflexivity|]. exists us. reflexivity.
  - apply IH in H. destruct H as [v [Hv [[E _]|[j [J1 [J2 E]]]]]]; exists v; (split; [now right|]); right.
    + exists (k + 1). assert (0 < length us)%nat by (destruct us; [destruct Hv|cbn [length]; lia]).
      cbn [length]. rewrite N.add_sub. repeat split; [lia|lia|exact E].
    + exists j. cbn [length]. repeat split; [lia|lia|exact E].
Qed.

Lemma itg2_mg_gc_units_item : forall n c k o, ~ In (XItem o) (gc_units c k n).
Proof. induction n as [|n IH]; intros c k o H; cbn [gc_units] in H; [destruct H|]. destruct H as [H|H]; [discriminate|apply (IH _ _ _ H)]. Qed.

Lemma itg2_mg_cf_content_units : forall i o ro p ps c u, itg_cf_block (BItem i o ro p ps c) = true ->
  In u (content_units c) -> itg2_mg_ucf u.
Proof.
  intros i o ro p ps c u Hcf Hu. cbn [itg_cf_block] in Hcf. destruct c as [n|l|bb|s|j|k j|t|l|g o0]; try discriminate.
  - cbn [content_units] in Hu. apply repeat_spec in Hu. left. exact Hu.
  - destruct t; try discriminate. cbn [content_units] in Hu. destruct Hu as [<-|[]]. right. eexists. reflexivity.
Qed.

Lemma itg2_mg_cf_units : forall b o, itg_cf_block b = true -> In (XItem o) (units_of_block b) -> itg2_mg_ucf (ocont o).
Proof.
  intros [i o' ro p ps c|i n|i n] o Hcf H; cbn [units_of_block] in H.
  - apply itg2_mg_item_unit_in in H. destruct H as [u [Hu [[E _]|[j [_ [_ E]]]]]]; injection E as ->; cbn [ocont];
      apply (itg2_mg_cf_content_units i o' ro p ps c u Hcf Hu).
  - destruct (itg2_mg_gc_units_item _ _ _ _ H).
  - destruct H.
Qed.

Lemma itg2_mg_content_cf : forall i o ro p ps c u, In u (content_units c) -> itg2_mg_ucf u ->
  itg_cf_block (BItem i o ro p ps c) = true.
Proof.
  intros i o ro p ps c u Hu Hc. cbn [itg_cf_block].
  destruct c as [n|l|bb|s|j|k j|t|l|g o0]; cbn [content_units] in Hu; try reflexivity.
  - apply in_map_iff in Hu. destruct Hu as [z [<- _]]. destruct Hc as [Hc|[w Hc]]; discriminate.
  - destruct Hu as [<-|[]]. destruct Hc as [Hc|[w Hc]]; discriminate.
  - assert (Hs : exists z, u = UString z).
    { destruct s as [|b0 [|b1 s']].
      - apply in_map_iff in Hu. destruct Hu as [z [<- _]]. eexists. reflexivity.
      - destruct Hu as [<-|[]]. eexists. reflexivity.
      - apply in_map_iff in Hu. destruct Hu as [z [<- _]]. eexists. reflexivity. }
    destruct Hs as [z ->]. destruct Hc as [Hc|[w Hc]]; discriminate.
  - destruct Hu as [<-|[]]. destruct Hc as [Hc|[w Hc]]; discriminate.
  - destruct Hu as [<-|[]]. destruct Hc as [Hc|[w Hc]]; discriminate.
  - destruct Hu as [<-|[]]. destruct Hc as [Hc|[w Hc]]; [discriminate|]. injection Hc as ->. reflexivity.
  - apply in_map_iff in Hu. destruct Hu as [z [<- _]]. destruct Hc as [Hc|[w Hc]]; discriminate.
  - destruct Hu as [<-|[]]. destruct Hc as [Hc|[w Hc]]; discriminate.
Qed.

(* a non-empty block all of whose item units carry Deleted / weak-link content is content-free *)
Lemma itg2_mg_cf_of_units : forall y, blk_wf y = true -> 0 < block_len y ->
  (forall o, In (XItem o) (units_of_block y) -> itg2_mg_ucf (ocont o)) -> itg_cf_block y = true.
Proof.
  intros [i o ro p ps c|i n|i n] Hwf Hl H; try reflexivity.
  cbn [blk_wf block_len units_of_block] in *. pose proof (blk_content_len_units c Hwf) as Hn.
  destruct (content_units c) as [|u r] eqn:E; [cbn [length] in Hn; lia|].
  apply (itg2_mg_content_cf i o ro p ps c u); [rewrite E; now left|].
  apply (H (mkop (mkid (cl i) (ck i)) o ro p ps u)). cbn [units_of_item]. now left.
Qed.

(* ================================================================================================ *)
(* 5. the dependency ids of a block that starts inside (or at the start of) a block of the history  *)
(* ================================================================================================ *)
Definition itg2_mg_wk (c : bcontent) : list id := match c with BType (TWeak w) => itg_weak_deps w | _ => [] end.

Lemma itg2_mg_first_unit_id : forall y x r, units_of_block y = x :: r -> xid x = block_id y.
Proof.
  intros [i o ro p ps c|i n|i n] x r H; cbn [units_of_block block_id] in *.
  - destruct (content_units c) as [|u us]; [discriminate|]. cbn [units_of_item] in H. injection H as <- _.
    cbn [xid oid]. apply itg_id_eta.
  - destruct (N.to_nat n) as [|m]; [discriminate|]. cbn [gc_units] in H. injection H as <- _. cbn [xid]. apply itg_id_eta.
  - discriminate.
Qed.

Lemma itg2_mg_deps_from : forall y b0 x r, itg_cf_block y = true -> itg_cf_block b0 = true ->
  units_of_block y = x :: r -> In x (units_of_block b0) ->
  forall dep, In dep (itg_deps y) ->
    In dep (itg_deps b0) \/ (itg_clock b0 < itg_clock y /\ dep = mkid (itg_client y) (itg_clock y - 1)).
Proof.
  intros [i o ro p ps c|i n|i n] b0 x r Hcy Hc0 Ey Hx dep Hd; cbn [itg_deps] in Hd; try (destruct Hd).
  cbn [units_of_block] in Ey. destruct (content_units c) as [|u0 r0] eqn:Ec; [discriminate|].
  cbn [units_of_item] in Ey. injection Ey as <- _.
  destruct b0 as [i' o' ro' p' ps' c'|i' n'|i' n']; cbn [units_of_block] in Hx;
    [|destruct (itg2_mg_gc_units_item _ _ _ _ Hx)|destruct Hx].
  apply itg2_mg_item_unit_in in Hx. destruct Hx as [u [Hu Hx]].
  assert (Hwk : u0 = u -> incl (itg2_mg_wk c) (itg2_mg_wk c')).
  { intros ->. cbn [itg_cf_block] in Hcy, Hc0. destruct c as [n|l|bb|s|j|k j|t|l|g o0]; try discriminate; try (intros z []).
    destruct t; try discriminate. cbn [content_units] in Ec. injection Ec as <- _.
    destruct c' as [n|l|bb|s|j|k j|t|l|g o0]; try discriminate.
    - cbn [content_units] in Hu. apply repeat_spec in Hu. discriminate.
    - destruct t; try discriminate. cbn [content_units] in Hu. destruct Hu as [Hu|[]]. injection Hu as ->. apply incl_refl. }
  change (match c with BType (TWeak w) => itg_weak_deps w | _ => [] end) with (itg2_mg_wk c) in Hd.
  cbn [itg_deps itg_clock itg_client block_id].
  change (match c' with BType (TWeak w) => itg_weak_deps w | _ => [] end) with (itg2_mg_wk c').
  destruct Hx as [[E _]|[j [J1 [J2 E]]]]; injection E as E1 E2 E3 E4 E5 E6 E7.
  - left. subst o' ro' p' ps'. specialize (Hwk E7). rewrite !in_app_iff in *.
    destruct Hd as [Hd|[Hd|[Hd|Hd]]]; [tauto|tauto|tauto|]. right. right. right. apply Hwk. exact Hd.
  - subst ro' p' ps'. specialize (Hwk E7). rewrite !in_app_iff in *.
    destruct Hd as [Hd|[Hd|[Hd|Hd]]]; [|left; tauto|left; tauto|left; right; right; right; apply Hwk; exact Hd].
    right. rewrite E3 in Hd. cbn [itg_oid In] in Hd. destruct Hd as [<-|[]]. unfold itg_clock, itg_client. cbn [block_id].
    split; [lia|]. rewrite E1, E2. reflexivity.
Qed.

(* ================================================================================================ *)
(* 6. every non-Skip block of the result belongs to the history                                     *)
(* ================================================================================================ *)
Lemma itg2_mg_okb_block_id_cov : forall H rho W b0, itg2_okb H rho W b0 -> itg2_cov H (block_id b0) = true.
Proof.
  intros H rho W b0 [_ [Hl [_ [Hc _]]]]. rewrite <- (itg_id_eta (block_id b0)). apply (Hc (itg_clock b0)).
  unfold itg_end, itg_clock. lia.
Qed.

Lemma itg2_mg_out_okb : forall H rho W a b, itg2_history H rho -> mrg_wf [a; b] = true ->
  itg2_oks H rho W (u_blocks a) -> itg2_oks H rho W (u_blocks b) ->
  itg2_oks H rho W (u_blocks (itg_mrg a b)).
Proof.
  intros H rho W a b HH Hwf Oa Ob y Hy. destruct (itg2_mg_mrg_facts a b Hwf) as [Hu [Hok Hbw]].
  destruct Hy as [c [d [He [Hyd Hsk]]]].
  assert (Hyo : In y (mrg_out_blocks (u_blocks (itg_mrg a b)))).
  { unfold mrg_out_blocks. apply in_flat_map. exists (c, d). split; [exact He|exact Hyd]. }
  destruct (Hbw y Hyo) as [Hwfy Hly].
  assert (Hsrc : forall x, In x (units_of_block y) -> exists b0, itg2_okb H rho W b0 /\ In x (units_of_block b0)).
  { intros x Hx. assert (Hxo : In x (mrg_out_units (u_blocks (itg_mrg a b)))).
    { apply mrg_out_units_blocks. exists y. split; [exact Hyo|exact Hx]. }
    apply Hu in Hxo. destruct Hxo as [Hxo|Hxo]; apply mrg_units_of_update_in in Hxo; destruct Hxo as [b0 [Hb0 Hxb]];
      apply itg2_mg_into_blocks_in2 in Hb0; exists b0; (split; [|exact Hxb]); [apply Oa|apply Ob]; exact Hb0. }
  assert (Hcf : itg_cf_block y = true).
  { apply itg2_mg_cf_of_units; [exact Hwfy|exact Hly|]. intros o Ho. destruct (Hsrc _ Ho) as [b0 [[Hc0 _] Hx0]].
    apply (itg2_mg_cf_units b0 o Hc0 Hx0). }
  assert (Hrange : forall x, In x (units_of_block y) -> itg2_cov H (xid x) = true /\
            exists b0, itg2_okb H rho W b0 /\ In x (units_of_block b0) /\
                       cl (xid x) = itg_client b0 /\ itg_clock b0 <= ck (xid x) < itg_end b0).
  { intros x Hx. destruct (Hsrc x Hx) as [b0 [Hok0 Hx0]]. pose proof Hok0 as [Hc0 [_ [_ [Hcov0 _]]]].
    destruct (mrg_units_range b0 x (itg2_mg_cf_wf b0 Hc0) Hx0) as [R1 [R2 R3]].
    assert (Hr : itg_clock b0 <= ck (xid x) < itg_end b0) by (unfold itg_end, itg_clock; unfold mrg_end, mrg_clock in *; lia).
    split.
    - rewrite <- (itg_id_eta (xid x)), R1. apply Hcov0. exact Hr.
    - exists b0. split; [exact Hok0|]. split; [exact Hx0|]. split; [exact R1|exact Hr]. }
  split; [exact Hcf|]. split; [exact Hly|]. split; [|split].
  - intros x Hx. destruct (Hsrc x Hx) as [b0 [[_ [_ [Hi _]]] Hx0]]. apply Hi. exact Hx0.
  - intros j Hj. destruct (mrg_units_cover y j Hwfy Hsk) as [x [Hx Hi]]; [apply Hj|apply Hj|].
    destruct (Hrange x Hx) as [Hc _]. rewrite Hi in Hc. exact Hc.
  - intros dep Hdep.
    destruct (mrg_units_cover y (itg_clock y) Hwfy Hsk) as [x1 [Hx1 _]]; [apply N.le_refl|unfold mrg_end, mrg_clock, itg_clock; lia|].
    destruct (units_of_block y) as [|x r] eqn:Ey; [destruct Hx1|].
    assert (Hxy : In x (units_of_block y)) by (rewrite Ey; now left).
    rewrite <- Ey in Hrange, Hsrc. clear Hx1.
    pose proof (itg2_mg_first_unit_id y x r Ey) as Hid.
    destruct (Hrange x Hxy) as [Hcx [b0 [Hok0 [Hx0 [Q1 Q2]]]]]. rewrite Hid in Q1, Q2, Hcx.
    pose proof Hok0 as [Hc0 [Hl0 [_ [Hcov0 Hdeps0]]]].
    pose proof (itg2_mg_okb_block_id_cov H rho W b0 Hok0) as Hcb0.
    (* rank of the first id of b0 against the first id of y *)
    assert (Hrk : itg_clock b0 = itg_clock y \/ itg_clock b0 < itg_clock y) by (unfold itg_clock in *; lia).
    assert (Hle : forall m : nat, (m < rho (block_id b0))%nat -> (m < rho (block_id y))%nat).
    { intros m Hm. destruct Hrk as [Hrk|Hrk].
      - assert (E : block_id b0 = block_id y).
        { rewrite <- (itg_id_eta (block_id b0)), <- (itg_id_eta (block_id y)). unfold itg_client, itg_clock in *. congruence. }
        rewrite <- E. exact Hm.
      - pose proof (itg2_h_order H rho HH (itg_client b0) (itg_clock b0) (itg_clock y)) as Ho.
        unfold itg_client, itg_clock in *. rewrite (itg_id_eta (block_id b0)) in Ho. rewrite <- Q1, (itg_id_eta (block_id y)) in Ho.
        specialize (Ho Hcb0 Hcx Hrk). lia. }
    destruct (itg2_mg_deps_from y b0 x r Hcf Hc0 Ey Hx0 dep Hdep) as [Hd0|[Hlt ->]].
    + destruct (Hdeps0 dep Hd0) as [D1 D2]. split; [exact D1|apply Hle; exact D2].
    + assert (Hcp : itg2_cov H (mkid (itg_client y) (itg_clock y - 1)) = true).
      { unfold itg_client. rewrite Q1. apply Hcov0. unfold itg_clock in *. lia. }
      split; [exact Hcp|].
      pose proof (itg2_h_order H rho HH (itg_client y) (itg_clock y - 1) (itg_clock y) Hcp) as Ho.
      unfold itg_client, itg_clock in Ho. rewrite (itg_id_eta (block_id y)) in Ho. apply Ho; [exact Hcx|].
      unfold itg_clock in *. lia.
Qed.

(* ================================================================================================ *)
(* 6b. contiguity of the result: every entry is a chain (each block starts where the previous one ends; the
   gaps were filled by the Skip blocks the second branch writes).  A new invariant of the loop:
   every entry of `result.blocks`, followed by curr_write when it is of the same client, is a chain. *)
(* ================================================================================================ *)
Fixpoint itg2_mg_chain (d : list block) : Prop :=
  match d with
  | [] => True
  | b :: r => match r with [] => True | b' :: _ => mrg_end b = mrg_clock b' end /\ itg2_mg_chain r
  end.
Definition itg2_mg_tail (cw : option block) (c : N) : list block :=
  match cw with Some w => if mrg_client w =? c then [w] else [] | None => [] end.
Definition itg2_mg_K (cw : option block) (out : list (N * list block)) : Prop :=
  NoDup (map fst out) /\ forall c d, In (c, d) out -> itg2_mg_chain (d ++ itg2_mg_tail cw c).

Lemma itg2_mg_chain_relast : forall d w w', itg2_mg_chain (d ++ [w]) -> mrg_clock w' = mrg_clock w -> itg2_mg_chain (d ++ [w']).
Proof.
  induction d as [|b r IH]; intros w w' H E; [cbn; tauto|].
  cbn [app itg2_mg_chain] in *. destruct H as [H1 H2]. split; [|apply (IH w); assumption].
  destruct r as [|b' r']; cbn [app] in *; [congruence|exact H1].
Qed.
Lemma itg2_mg_chain_snoc : forall d w o, itg2_mg_chain (d ++ [w]) -> mrg_end w = mrg_clock o -> itg2_mg_chain ((d ++ [w]) ++ [o]).
Proof.
  induction d as [|b r IH]; intros w o H E; [cbn; tauto|].
  cbn [app itg2_mg_chain] in *. destruct H as [H1 H2]. split; [|apply IH; assumption].
  destruct r as [|b' r']; cbn [app] in *; exact H1.
Qed.

Lemma itg2_mg_add_keys_nodup : forall l c bs, NoDup (map fst l) -> NoDup (map fst (add_client_blocks l c bs)).
Proof.
  induction l as [|[c' b'] r IH]; intros c bs H; cbn [add_client_blocks].
  - cbn. constructor; [intros []|constructor].
  - cbn [map fst] in H. inversion H as [|? ? Hn Hr]; subst. destruct (c' =? c) eqn:E; cbn [map fst].
    + constructor; assumption.
    + constructor; [|apply IH; exact Hr]. intros Hin. apply mrg_add_client_keys in Hin. destruct Hin as [Hin|Hin]; [contradiction|lia].
Qed.

Lemma itg2_mg_add_entries : forall l c bs k d', NoDup (map fst l) -> In (k, d') (add_client_blocks l c bs) ->
  (k <> c /\ In (k, d') l) \/ (k = c /\ (d' = bs \/ exists d, In (c, d) l /\ d' = d ++ bs)).
Proof.
  induction l as [|[c' b'] r IH]; intros c bs k d' Hn H; cbn [add_client_blocks] in H.
  - destruct H as [H|[]]. injection H as <- <-. right. split; [reflexivity|now left].
  - cbn [map fst] in Hn. inversion Hn as [|? ? Hni Hr]; subst. destruct (c' =? c) eqn:E.
    + apply N.eqb_eq in E. subst c'. destruct H as [H|H].
      * injection H as <- <-. right. split; [reflexivity|]. right. exists b'. split; [now left|reflexivity].
      * left. split; [|now right]. intros ->. apply Hni. apply in_map_iff. exists (c, d'). split; [reflexivity|exact H].
    + apply N.eqb_neq in E. destruct H as [H|H].
      * injection H as <- <-. left. split; [exact E|now left].
      * destruct (IH c bs k d' Hr H) as [[H1 H2]|[H1 [H2|[d [H2 H3]]]]].
        -- left. split; [exact H1|now right].
        -- right. split; [exact H1|now left].
        -- right. split; [exact H1|]. right. exists d. split; [now right|exact H3].
Qed.

Lemma itg2_mg_tail_same : forall w c, mrg_client w = c -> itg2_mg_tail (Some w) c = [w].
Proof. intros w c <-. unfold itg2_mg_tail. rewrite N.eqb_refl. reflexivity. Qed.
Lemma itg2_mg_tail_other : forall w c, mrg_client w <> c -> itg2_mg_tail (Some w) c = [].
Proof. intros w c H. unfold itg2_mg_tail. apply N.eqb_neq in H. rewrite H. reflexivity. Qed.

(* add_block(curr_write); curr_write = o *)
Lemma itg2_mg_K_add : forall w o out, itg2_mg_K (Some w) out ->
  (mrg_client o = mrg_client w /\ mrg_clock o = mrg_end w) \/
  (mrg_client o <> mrg_client w /\ forall d, ~ In (mrg_client o, d) out) ->
  itg2_mg_K (Some o) (mrg_add_block out w).
Proof.
  intros w o out [Kn Kc] Ho. unfold mrg_add_block. split; [apply itg2_mg_add_keys_nodup; exact Kn|].
  intros k d' Hin. apply (itg2_mg_add_entries out _ _ _ _ Kn) in Hin. destruct Hin as [[H1 H2]|[H1 H2]].
  - specialize (Kc k d' H2). rewrite itg2_mg_tail_other in Kc by congruence.
    destruct Ho as [[O1 O2]|[O1 O2]].
    + rewrite itg2_mg_tail_other by congruence. exact Kc.
    + destruct (N.eq_dec (mrg_client o) k) as [E|E]; [subst k; destruct (O2 d' H2)|].
      rewrite itg2_mg_tail_other by exact E. exact Kc.
  - subst k. assert (Hd : exists d, d' = d ++ [w] /\ itg2_mg_chain (d ++ [w])).
    { destruct H2 as [->|[d [H2 ->]]].
      - exists []. split; [reflexivity|cbn; tauto].
      - exists d. split; [reflexivity|]. specialize (Kc _ d H2). rewrite itg2_mg_tail_same in Kc by reflexivity. exact Kc. }
    destruct Hd as [d [-> Hd]]. destruct Ho as [[O1 O2]|[O1 O2]].
    + rewrite itg2_mg_tail_same by exact O1. apply itg2_mg_chain_snoc; [exact Hd|symmetry; exact O2].
    + rewrite itg2_mg_tail_other by exact O1. rewrite app_nil_r. exact Hd.
Qed.

(* curr_write replaced by a block with the same id (a squash) *)
Lemma itg2_mg_K_replace : forall w w' out, itg2_mg_K (Some w) out -> mrg_client w' = mrg_client w -> mrg_clock w' = mrg_clock w ->
  itg2_mg_K (Some w') out.
Proof.
  intros w w' out [Kn Kc] E1 E2. split; [exact Kn|]. intros c d Hin. specialize (Kc c d Hin).
  destruct (N.eq_dec (mrg_client w) c) as [E|E].
  - rewrite itg2_mg_tail_same in * by congruence. apply (itg2_mg_chain_relast d w w' Kc E2).
  - rewrite itg2_mg_tail_other in * by congruence. exact Kc.
Qed.

Lemma itg2_mg_K_write_succ : forall fc d w out d' w' out', itg2_mg_K (Some w) out -> mrg_client w = fc ->
  mrg_write_succ fc d w out = (d', w', out') -> itg2_mg_K (Some w') out'.
Proof.
  intros fc. induction d as [|x r IH]; intros w out d' w' out' K Hc H; cbn [mrg_write_succ] in H.
  - injection H as _ <- <-. exact K.
  - destruct ((mrg_client x =? fc) && (mrg_clock x =? mrg_end w)) eqn:E.
    + apply andb_prop in E. destruct E as [E1 E2]. apply N.eqb_eq in E1, E2.
      apply (IH x (mrg_add_block out w) d' w' out'); [|exact E1|exact H].
      apply itg2_mg_K_add; [exact K|]. left. split; [congruence|exact E2].
    + injection H as _ <- <-. exact K.
Qed.

Lemma itg2_mg_K_sow : forall cwb d1 other out d2 w out2, itg2_mg_K (Some cwb) out ->
  mrg_client other = mrg_client cwb -> mrg_clock other = mrg_end cwb ->
  mrg_squash_or_write cwb d1 other out = (d2, w, out2) -> itg2_mg_K (Some w) out2 /\ mrg_client w = mrg_client cwb.
Proof.
  intros cwb d1 other out d2 w out2 K E1 E2 H. unfold mrg_squash_or_write in H.
  destruct (mrg_try_squash cwb other) as [m|] eqn:Es.
  - injection H as _ <- <-. destruct (mrg_try_squash_some _ _ _ Es) as [S1 [S2 _]].
    split; [apply (itg2_mg_K_replace cwb m out K S1 S2)|exact S1].
  - injection H as _ <- <-. split; [|exact E1]. apply itg2_mg_K_add; [exact K|]. left. split; assumption.
Qed.

Lemma itg2_mg_splice_snd_id : forall b k, mrg_client (snd (mrg_splice b k)) = mrg_client b /\
  mrg_clock (snd (mrg_splice b k)) = mrg_clock b + k.
Proof. intros [i o ro p ps c|i n|i n] k; unfold mrg_client, mrg_clock; cbn [mrg_splice snd block_id cl ck]; split; reflexivity. Qed.

Lemma itg2_mg_K_branch : forall cwb cb r1 out d2 w out2, itg2_mg_K (Some cwb) out -> mrg_is_skip cwb = false ->
  mrg_out_ok out -> (forall b, In b (mrg_out_blocks out) -> mrg_before b cwb) ->
  mrg_client cb <= mrg_client cwb ->
  mrg_branch (mrg_client cb) cwb cb r1 out = (d2, w, out2) ->
  itg2_mg_K (Some w) out2 /\ mrg_client w = mrg_client cb.
Proof.
  intros cwb cb r1 out d2 w out2 K J [Hent _] Hbound Hle H. unfold mrg_branch in H.
  destruct (negb (mrg_client cb =? mrg_client cwb)) eqn:E1.
  - injection H as _ <- <-. split; [|reflexivity]. apply negb_true_iff, N.eqb_neq in E1.
    apply itg2_mg_K_add; [exact K|]. right. split; [exact E1|]. intros d Hin.
    destruct (Hent _ _ Hin) as [Hne Hcl]. destruct d as [|b0 d0]; [congruence|].
    specialize (Hcl b0 (or_introl eq_refl)).
    assert (Hb0 : In b0 (mrg_out_blocks out)).
    { unfold mrg_out_blocks. apply in_flat_map. eexists. split; [exact Hin|]. now left. }
    specialize (Hbound b0 Hb0). unfold mrg_before in Hbound. lia.
  - apply negb_false_iff, N.eqb_eq in E1. destruct (mrg_end cwb <? mrg_clock cb) eqn:E2.
    + destruct cwb as [i o ro p ps c|i n|i n]; [| |discriminate]; injection H as _ <- <-;
        (split; [|reflexivity]); (apply itg2_mg_K_add; [exact K|]); left; unfold mrg_client, mrg_clock;
        cbn [block_id cl ck]; split; [exact E1|reflexivity|exact E1|reflexivity].
    + apply N.ltb_ge in E2. unfold mrg_overlap in H. rewrite E1.
      destruct (0 <? mrg_end cwb - mrg_clock cb) eqn:E3.
      * apply N.ltb_lt in E3. destruct (itg2_mg_splice_snd_id cb (mrg_end cwb - mrg_clock cb)) as [P1 P2].
        destruct cwb as [i o ro p ps c|i n|i n]; [| |discriminate];
          (eapply itg2_mg_K_sow; [exact K| | |exact H]); try (rewrite P1; exact E1); rewrite P2; lia.
      * apply N.ltb_ge in E3. eapply itg2_mg_K_sow; [exact K|exact E1| |exact H]. lia.
Qed.

Lemma itg2_mg_K_round : forall d cw out d' cw' out',
  itg2_mg_K cw out -> (cw = None -> out = []) -> mrg_out_ok out ->
  (forall w b, cw = Some w -> In b (mrg_out_blocks out) -> mrg_before b w) ->
  (forall w b, cw = Some w -> In b d -> mrg_client b <= mrg_client w) ->
  (forall w, cw = Some w -> mrg_is_skip w = false) ->
  mrg_round d cw out = (d', cw', out') -> itg2_mg_K cw' out'.
Proof.
  intros d cw out d' cw' out' K Hstart Hok Hbound Hcl J H.
  destruct d as [|cur dtl]; [injection H as _ <- <-; exact K|]. unfold mrg_round in H.
  destruct cw as [cwb|].
  2:{ destruct (mrg_write_succ (mrg_client cur) dtl cur out) as [[d2 w] out2] eqn:Ews. cbn [fst snd] in H.
      injection H as _ <- <-. rewrite (Hstart eq_refl) in Ews.
      assert (K0 : itg2_mg_K (Some cur) []) by (split; [constructor|intros c d []]).
      apply (itg2_mg_K_write_succ _ _ _ _ _ _ _ K0 eq_refl Ews). }
  destruct (mrg_skip_written (mrg_client cwb) (mrg_end cwb) (cur :: dtl)) as [d1 it] eqn:Esk.
  destruct (mrg_skip_written_spec _ _ _ _ _ Esk) as [_ [_ [_ [[pre [L5 _]] _]]]]. cbn [fst snd] in H.
  destruct d1 as [|cb r1]; [injection H as _ <- <-; exact K|].
  destruct (negb (mrg_client cb =? mrg_client cur) || it && (mrg_end cwb <? mrg_clock cb)) eqn:Econt;
    [injection H as _ <- <-; exact K|].
  apply orb_false_elim in Econt. destruct Econt as [Ec1 _]. apply negb_false_iff, N.eqb_eq in Ec1.
  destruct (mrg_branch (mrg_client cur) cwb cb r1 out) as [[d2 w] out2] eqn:Ebr. cbn [fst snd] in H.
  destruct (mrg_write_succ (mrg_client cur) d2 w out2) as [[d3 w3] out3] eqn:Ews. cbn [fst snd] in H.
  injection H as _ <- <-. rewrite <- Ec1 in Ebr, Ews.
  assert (Hcb : In cb (cur :: dtl)) by (rewrite L5; apply in_or_app; right; now left).
  destruct (itg2_mg_K_branch cwb cb r1 out d2 w out2 K (J _ eq_refl) Hok (fun b => Hbound cwb b eq_refl)
              (Hcl cwb cb eq_refl Hcb) Ebr) as [K2 Hw].
  apply (itg2_mg_K_write_succ _ _ _ _ _ _ _ K2 Hw Ews).
Qed.

Section Itg2Contig.
Variable B0 : list block.
Hypothesis HB0 : forall b, In b B0 -> mrg_is_skip b = false /\ blk_wf b = true /\ 0 < block_len b.
Variable T : Type.
Variable pi : xop -> T.
Hypothesis Hfun : forall x y, In x (flat_map units_of_block B0) -> In y (flat_map units_of_block B0) ->
  xid x = xid y -> pi x = pi y.
Hypothesis Hcut : forall a b, In a B0 -> In b B0 -> mrg_client a = mrg_client b ->
  mrg_clock b < mrg_end a -> mrg_end a < mrg_end b -> blk_split b (mrg_end a - mrg_clock b) <> None.

Definition itg2_mg_sinv (s : mrg_state) : Prop := mrg_state_inv B0 T pi s /\ itg2_mg_K (mrg_cw s) (mrg_out s).

Lemma itg2_mg_sinv_step : forall s s', itg2_mg_sinv s -> mrg_step s = inl s' -> itg2_mg_sinv s'.
Proof.
  intros s s' [SI K] H. split; [apply (mrg_state_inv_step B0 HB0 T pi Hfun Hcut s s' SI H)|].
  destruct s as [ds cw out]. destruct SI as [I J]. unfold mrg_step in H. cbn [mrg_decs mrg_cw mrg_out] in *.
  destruct (mrg_sort mrg_dec_lt (filter mrg_has_current ds)) as [|d rest] eqn:Es; [discriminate|].
  destruct (mrg_round d cw out) as [[d' cw'] out'] eqn:Er. injection H as <-. cbn [mrg_cw mrg_out].
  assert (Hd : In d ds).
  { assert (Hin : In d (mrg_sort mrg_dec_lt (filter mrg_has_current ds))) by (rewrite Es; now left).
    apply mrg_sort_in in Hin. apply filter_In in Hin. apply Hin. }
  apply (itg2_mg_K_round d cw out d' cw' out' K (mrg_inv_start _ _ _ _ _ _ I) (mrg_inv_ok _ _ _ _ _ _ I)
           (mrg_inv_bound _ _ _ _ _ _ I)); [|exact J|exact Er].
  intros w b E Hb. apply (mrg_inv_clients _ _ _ _ _ _ I w b E). exists d. split; assumption.
Qed.
End Itg2Contig.

Lemma itg2_mg_chain_deque : forall c d a, itg2_mg_chain d -> (forall b, In b d -> mrg_client b = c /\ 0 < block_len b) ->
  match d with b :: _ => mrg_clock b = a | [] => True end -> itg_deque_from c a d = true.
Proof.
  intros c. induction d as [|b r IH]; intros a Hc Hb Ha; [reflexivity|].
  cbn [itg2_mg_chain] in Hc. destruct Hc as [H1 H2]. destruct (Hb b (or_introl eq_refl)) as [B1 B2].
  apply itg_deque_from_cons_intro; [exact B1|exact Ha|exact B2|].
  apply IH; [exact H2|intros b' Hb'; apply Hb; now right|]. destruct r as [|b' r']; [exact I|symmetry; exact H1].
Qed.

(* the result of the merge is contiguous *)
Lemma itg2_mrg_update_wf : forall us, mrg_wf us = true -> itg_update_wf (u_blocks (mrg_merge_updates us)) = true.
Proof.
  intros us Hwf. destruct (mrg_wf_gen_spec (fun x => x) us Hwf) as [W1 [W2 [W3 W4]]].
  destruct (mrg_merge_updates_eq us) as [r [Hr Hm]].
  pose proof (mrg_iter_inv (itg2_mg_sinv (mrg_input_blocks us) xop (fun x => x))
                (itg2_mg_sinv_step _ W2 xop (fun x => x) W3 W4) (mrg_fuel us) (mrg_init us)) as Hit.
  assert (Hinit : itg2_mg_sinv (mrg_input_blocks us) xop (fun x => x) (mrg_init us)).
  { split; [apply mrg_wf_init_inv; exact Hwf|]. unfold mrg_init. cbn [mrg_cw mrg_out]. split; [constructor|intros c d []]. }
  specialize (Hit Hinit). rewrite Hr in Hit. destruct Hit as [s0 [[SI K] Hst]].
  destruct (mrg_state_inv_final _ _ _ s0 r SI Hst) as [_ [_ [Hok Hbw]]].
  assert (Er : mrg_cw r = mrg_cw s0 /\ mrg_out r = mrg_out s0).
  { unfold mrg_step in Hst. destruct (mrg_sort mrg_dec_lt (filter mrg_has_current (mrg_decs s0))) as [|d rest].
    - injection Hst as <-. split; reflexivity.
    - destruct (mrg_round d (mrg_cw s0) (mrg_out s0)) as [[? ?] ?]. discriminate. }
  destruct Er as [Er1 Er2]. rewrite <- Er1, <- Er2 in K. cbn zeta in Hok, Hbw.
  rewrite Hm. unfold mrg_finish. cbn [u_blocks].
  set (fin := match mrg_cw r with Some b => mrg_add_block (mrg_out r) b | None => mrg_out r end) in *.
  assert (Kf : forall c d, In (c, d) fin -> itg2_mg_chain d).
  { intros c d Hin. subst fin. destruct (mrg_cw r) as [w|].
    - destruct K as [Kn Kc]. unfold mrg_add_block in Hin. apply (itg2_mg_add_entries _ _ _ _ _ Kn) in Hin.
      destruct Hin as [[H1 H2]|[H1 [->|[d0 [H2 ->]]]]].
      + specialize (Kc c d H2). rewrite itg2_mg_tail_other, app_nil_r in Kc by congruence. exact Kc.
      + cbn; tauto.
      + specialize (Kc _ d0 H2). rewrite itg2_mg_tail_same in Kc by reflexivity. exact Kc.
    - destruct K as [_ Kc]. specialize (Kc c d Hin). cbn [itg2_mg_tail] in Kc. rewrite app_nil_r in Kc. exact Kc. }
  destruct Hok as [Hent [Hkeys _]]. unfold itg_update_wf. apply andb_true_intro. split.
  - apply itg_nodup_keys_distinct. clear - Hkeys. induction Hkeys as [|k l Hs IH Hf]; constructor; [|exact IH].
    intros Hin. rewrite Forall_forall in Hf. specialize (Hf k Hin). lia.
  - apply forallb_forall. intros [c d] Hin. cbn [fst snd]. destruct (Hent c d Hin) as [Hne Hcl].
    unfold itg_deque_wf. destruct d as [|b0 d0]; [congruence|].
    apply itg2_mg_chain_deque; [apply (Kf c _ Hin)| |reflexivity].
    intros b Hb. split; [apply Hcl; exact Hb|]. apply Hbw. unfold mrg_out_blocks. apply in_flat_map.
    exists (c, b0 :: d0). split; [exact Hin|exact Hb].
Qed.

(* ================================================================================================ *)
(* 7. the theorem, with the contiguity of the result (a Skip written into every gap) as a hypothesis *)
(* ================================================================================================ *)
Theorem itg2_mrg_real_partial : forall H rho W, itg2_history H rho ->
  NoDup (map xid W) ->
  (forall a b, itg2_stash_wf (u_blocks a) -> itg2_oks H rho W (u_blocks a) ->
               itg2_stash_wf (u_blocks b) -> itg2_oks H rho W (u_blocks b) ->
               itg_update_wf (u_blocks (itg_mrg a b)) = true) ->
  itg2_mrg_ok H rho W itg_mrg.
Proof.
  intros H rho W HH HW Hcontig a b Ha Oa Hb Ob.
  pose proof (itg2_mg_mrg_wf H rho W a b HW Ha Oa Hb Ob) as Hwf.
  pose proof (itg2_mg_out_okb H rho W a b HH Hwf Oa Ob) as Oo.
  split; [|split; [apply itg2_mg_mrg_cov; assumption|exact Oo]].
  split; [apply Hcontig; assumption|].
  intros [c d] He. unfold itg_cf_list. cbn [snd]. apply Forall_forall. intros y Hy.
  destruct (itg_is_skip y) eqn:Hs; [destruct y; try discriminate; reflexivity|].
  apply (Oo y). exists c, d. repeat split; assumption.
Qed.

(* ================================================================================================ *)
(* 8. the theorem                                                                                   *)
(* ================================================================================================ *)
Theorem itg2_mrg_real : forall H rho W, itg2_history H rho ->
  NoDup (map xid W) ->
  itg2_mrg_ok H rho W itg_mrg.
Proof.
  intros H rho W HH HW. apply itg2_mrg_real_partial; [exact HH|exact HW|].
  intros a b Ha Oa Hb Ob. unfold itg_mrg. apply itg2_mrg_update_wf. apply (itg2_mg_mrg_wf H rho W a b HW Ha Oa Hb Ob).
Qed.

(* ================================================================================================ *)
(* 2e. Update::integrate stays inside the domain of the model  [itg2_integrate_total]               *)
(* Update::integrate stays inside the domain of the model (never itg_undef, never itg_nofuel) on a store of the
   reachable shape, for a well-formed update that was trimmed against this store. *)

(* ================================================================================================ *)
(* 0. two concrete runs: a block that fills a hole (and Skips in the update); stack switches        *)
(* ================================================================================================ *)
Definition itg2_tt_st1 : list (N * list itg_seg) :=
  [(1, [itg_mkseg 0 2 false; itg_mkseg 2 3 true; itg_mkseg 5 1 false])].
Definition itg2_tt_bs1 : list (N * list block) :=
  [(1, [itg2_item 1 2 2 None None; BSkip (mkid 1 4) 3; itg2_item 1 7 1 None None])].
Definition itg2_tt_bs2 : list (N * list block) :=
  [(1, [itg2_item 1 2 3 None None]);
   (2, [itg2_item 2 0 1 (Some (mkid 1 3)) None; itg2_item 2 1 1 (Some (mkid 3 0)) None]);
   (3, [itg2_item 3 0 2 (Some (mkid 2 0)) None])].
Definition itg2_tt_is_ok {A : Type} (r : itg_res A) : bool := match r with itg_ok _ => true | _ => false end.
Lemma itg2_tt_test1 : (itg_update_wf itg2_tt_bs1 && itg2_tt_is_ok (itg_integrate itg2_tt_st1 [] itg2_tt_bs1)) = true.
Proof. vm_compute. reflexivity. Qed.
Lemma itg2_tt_test2 : (itg_update_wf itg2_tt_bs2 && itg2_tt_is_ok (itg_integrate itg2_tt_st1 [] itg2_tt_bs2)) = true.
Proof. vm_compute. reflexivity. Qed.

(* ================================================================================================ *)
(* 1. the picker never duplicates a block: any weight on blocks, summed over the pool, never grows  *)
(*    (the proofs of section 4 of IntegrateProofs.v, for an arbitrary weight)                       *)
(* ================================================================================================ *)
Section itg2_tt_SecW.
Variable w : block -> N.
Definition itg2_tt_wl (d : list block) : N := fold_right (fun b m => w b + m) 0 d.
Definition itg2_tt_ws (m : list (N * list block)) : N := fold_right (fun e n => itg2_tt_wl (snd e) + n) 0 m.
Definition itg2_tt_wo (n : option block) : N := match n with Some b => w b | None => 0 end.
Definition itg2_tt_wlat (latest : option (N * list block)) : N :=
  match latest with Some (_, d) => itg2_tt_wl d | None => 0 end.

Lemma itg2_tt_ws_cons : forall c d r, itg2_tt_ws ((c, d) :: r) = itg2_tt_wl d + itg2_tt_ws r.
Proof. reflexivity. Qed.
Lemma itg2_tt_wl_cons : forall b d, itg2_tt_wl (b :: d) = w b + itg2_tt_wl d.
Proof. reflexivity. Qed.
Lemma itg2_tt_wl_app : forall x y, itg2_tt_wl (x ++ y) = itg2_tt_wl x + itg2_tt_wl y.
Proof. induction x as [|b r IH]; intros y; cbn [app]; [reflexivity|]. rewrite !itg2_tt_wl_cons, IH. lia. Qed.
Lemma itg2_tt_wl_nil : itg2_tt_wl [] = 0.
Proof. reflexivity. Qed.
Lemma itg2_tt_wl_rev : forall x, itg2_tt_wl (rev x) = itg2_tt_wl x.
Proof.
  induction x as [|b r IH]; [reflexivity|]. cbn [rev]. rewrite itg2_tt_wl_app, IH, !itg2_tt_wl_cons.
  rewrite itg2_tt_wl_nil. lia.
Qed.
Lemma itg2_tt_wl_in : forall x d, In x d -> w x <= itg2_tt_wl d.
Proof.
  intros x. induction d as [|b r IH]; intros H; [destruct H|]. rewrite itg2_tt_wl_cons.
  destruct H as [<-|H]; [lia|]. specialize (IH H). lia.
Qed.

Lemma itg2_tt_ws_del : forall m c,
  itg2_tt_ws (itg_del m c) + match itg_get m c with Some d => itg2_tt_wl d | None => 0 end <= itg2_tt_ws m.
Proof.
  intros m c. induction m as [|[c0 d0] r IH]; [cbn; lia|].
  rewrite itg_del_cons, itg2_tt_ws_cons. cbn [itg_get]. rewrite (N.eqb_sym c c0).
  destruct (c0 =? c) eqn:E.
  - assert (Hd : itg2_tt_ws (itg_del r c) <= itg2_tt_ws r) by (destruct (itg_get r c); lia). lia.
  - rewrite itg2_tt_ws_cons. lia.
Qed.
Lemma itg2_tt_ws_ins : forall m c d, itg2_tt_ws (itg_ins m c d) = itg2_tt_wl d + itg2_tt_ws m.
Proof.
  intros m c d. induction m as [|[c0 d0] r IH]; cbn [itg_ins]; [reflexivity|].
  destruct (c <? c0); [reflexivity|]. rewrite !itg2_tt_ws_cons, IH. lia.
Qed.
Lemma itg2_tt_ws_put : forall m c d,
  itg2_tt_ws (itg_put m c d) + match itg_get m c with Some d0 => itg2_tt_wl d0 | None => 0 end
  <= itg2_tt_ws m + itg2_tt_wl d.
Proof. intros m c d. unfold itg_put. rewrite itg2_tt_ws_ins. pose proof (itg2_tt_ws_del m c). lia. Qed.

Definition itg2_tt_wpk (pk : itg_picker) : N :=
  itg2_tt_ws (itg_pk_store pk) + itg2_tt_wlat (itg_pk_latest pk) + itg2_tt_wl (itg_pk_stack pk)
  + itg2_tt_ws (itg_pk_unapp pk).

Lemma itg2_tt_next_client_w : forall cs store latest n cs' store' latest',
  itg_pk_next_client cs store latest = (n, cs', store', latest') ->
  itg2_tt_wo n + itg2_tt_ws store' + itg2_tt_wlat latest' <= itg2_tt_ws store + itg2_tt_wlat latest.
Proof.
  induction cs as [|c cs IH]; intros store latest n cs' store' latest' H; cbn [itg_pk_next_client] in H.
  - injection H as <- _ <- <-. cbn [itg2_tt_wo]. lia.
  - pose proof (itg2_tt_ws_del store c) as Hd.
    destruct (itg_get store c) as [[|b r]|] eqn:E.
    + specialize (IH _ _ _ _ _ _ H). cbn [itg2_tt_wlat] in *; rewrite ?itg2_tt_wl_nil in *. lia.
    + injection H as <- _ <- <-. cbn [itg2_tt_wlat itg2_tt_wo] in *. rewrite itg2_tt_wl_cons in Hd. lia.
    + specialize (IH _ _ _ _ _ _ H). cbn [itg2_tt_wlat] in *. lia.
Qed.

Lemma itg2_tt_pk_next_w : forall pk,
  itg2_tt_wo (fst (itg_pk_next pk)) + itg2_tt_wpk (snd (itg_pk_next pk)) <= itg2_tt_wpk pk.
Proof.
  intros pk. unfold itg_pk_next, itg2_tt_wpk.
  destruct (itg_pk_stack pk) as [|x s] eqn:Es.
  - destruct (itg_pk_latest pk) as [[c [|x r]]|] eqn:El.
    + destruct (itg_pk_next_client (itg_pk_clients pk) (itg_pk_store pk) (Some (c, []))) as [[[n cs] store] latest] eqn:E.
      pose proof (itg2_tt_next_client_w _ _ _ _ _ _ _ E) as Hm.
      cbn [fst snd itg_pk_store itg_pk_latest itg_pk_stack itg_pk_unapp itg2_tt_wlat] in *; rewrite ?itg2_tt_wl_nil in *. lia.
    + cbn [fst snd itg_pk_store itg_pk_latest itg_pk_stack itg_pk_unapp itg2_tt_wlat itg2_tt_wo].
      rewrite itg2_tt_wl_cons, itg2_tt_wl_nil. lia.
    + destruct (itg_pk_next_client (itg_pk_clients pk) (itg_pk_store pk) None) as [[[n cs] store] latest] eqn:E.
      pose proof (itg2_tt_next_client_w _ _ _ _ _ _ _ E) as Hm.
      cbn [fst snd itg_pk_store itg_pk_latest itg_pk_stack itg_pk_unapp itg2_tt_wlat] in *; rewrite ?itg2_tt_wl_nil in *. lia.
  - cbn [fst snd itg_pk_store itg_pk_latest itg_pk_stack itg_pk_unapp itg2_tt_wo]. rewrite itg2_tt_wl_cons. lia.
Qed.

Lemma itg2_tt_drain_w : forall items store latest unapp store' latest' unapp',
  itg_pk_drain items store latest unapp = (store', latest', unapp') ->
  itg2_tt_ws store' + itg2_tt_wlat latest' + itg2_tt_ws unapp'
  <= itg2_tt_ws store + itg2_tt_wlat latest + itg2_tt_ws unapp + itg2_tt_wl items.
Proof.
  induction items as [|item rest IH]; intros store latest unapp store' latest' unapp' H; cbn [itg_pk_drain] in H.
  - injection H as <- <- <-. rewrite itg2_tt_wl_nil. lia.
  - rewrite itg2_tt_wl_cons. pose proof (itg2_tt_ws_del store (itg_client item)) as Hd.
    destruct (itg_get store (itg_client item)) as [blocks|] eqn:E.
    + specialize (IH _ _ _ _ _ _ H).
      pose proof (itg2_tt_ws_put unapp (itg_client item) (item :: blocks)) as Hp. rewrite itg2_tt_wl_cons in Hp.
      destruct (itg_get unapp (itg_client item)); lia.
    + destruct latest as [[lc blocks]|].
      * destruct (lc =? itg_client item).
        -- specialize (IH _ _ _ _ _ _ H).
           pose proof (itg2_tt_ws_put unapp (itg_client item) (item :: blocks)) as Hp. rewrite itg2_tt_wl_cons in Hp.
           cbn [itg2_tt_wlat] in *; rewrite ?itg2_tt_wl_nil in *. destruct (itg_get unapp (itg_client item)); lia.
        -- specialize (IH _ _ _ _ _ _ H).
           pose proof (itg2_tt_ws_put unapp (itg_client item) [item]) as Hp. rewrite itg2_tt_wl_cons in Hp.
           cbn [itg2_tt_wlat] in *; rewrite ?itg2_tt_wl_nil in *. destruct (itg_get unapp (itg_client item)); lia.
      * specialize (IH _ _ _ _ _ _ H).
        pose proof (itg2_tt_ws_put unapp (itg_client item) [item]) as Hp. rewrite itg2_tt_wl_cons in Hp.
        cbn [itg2_tt_wlat] in *; rewrite ?itg2_tt_wl_nil in *. destruct (itg_get unapp (itg_client item)); lia.
Qed.

Lemma itg2_tt_pk_switch_w : forall pk b m,
  itg2_tt_wo (fst (itg_pk_switch pk b m)) + itg2_tt_wpk (snd (itg_pk_switch pk b m)) <= w b + itg2_tt_wpk pk.
Proof.
  intros pk b m. unfold itg_pk_switch.
  set (mc := cl m). set (missing := itg_sv_set_min (itg_pk_missing pk) mc (ck m)).
  set (stack := b :: itg_pk_stack pk).
  destruct (itg_pk_drain (rev stack) (itg_pk_store pk) (itg_pk_latest pk) (itg_pk_unapp pk)) as [[store latest] unapp] eqn:Ed.
  set (pk1 := itg_mkpicker store latest [] (itg_pk_clients pk) (itg_sv_set_min missing mc (ck m)) unapp).
  assert (Hfail : itg2_tt_wo (fst (itg_pk_next pk1)) + itg2_tt_wpk (snd (itg_pk_next pk1)) <= w b + itg2_tt_wpk pk).
  { pose proof (itg2_tt_pk_next_w pk1) as H1. pose proof (itg2_tt_drain_w _ _ _ _ _ _ _ Ed) as H2.
    rewrite itg2_tt_wl_rev in H2. unfold stack in H2. rewrite itg2_tt_wl_cons in H2.
    assert (Hu1 : itg2_tt_wpk pk1 = itg2_tt_ws store + itg2_tt_wlat latest + 0 + itg2_tt_ws unapp) by reflexivity.
    unfold itg2_tt_wpk at 2. lia. }
  destruct (itg_get (itg_pk_store pk) mc) as [[|b' r]|] eqn:Eg; try exact Hfail.
  destruct (existsb (fun s => itg_client s =? mc) stack); [exact Hfail|].
  cbn [fst snd itg2_tt_wo]. unfold itg2_tt_wpk. cbn [itg_pk_store itg_pk_latest itg_pk_stack itg_pk_unapp].
  pose proof (itg2_tt_ws_put (itg_pk_store pk) mc r) as Hp. rewrite Eg, itg2_tt_wl_cons in Hp.
  unfold stack. rewrite itg2_tt_wl_cons. lia.
Qed.
End itg2_tt_SecW.

(* ================================================================================================ *)
(* 2. the weight "the block of client c that starts at clock k": at most one in a well-formed update *)
(* ================================================================================================ *)
Definition itg2_tt_wid (c k : N) (y : block) : N :=
  if (itg_client y =? c) && (itg_clock y =? k) then 1 else 0.

Lemma itg2_tt_wl_other : forall c k d, (forall y, In y d -> itg_client y <> c) -> itg2_tt_wl (itg2_tt_wid c k) d = 0.
Proof.
  intros c k. induction d as [|b r IH]; intros H; [reflexivity|]. rewrite itg2_tt_wl_cons, IH.
  - assert (Hb : itg_client b <> c) by (apply H; left; reflexivity). unfold itg2_tt_wid.
    destruct (itg_client b =? c) eqn:E; [apply N.eqb_eq in E; contradiction|]. reflexivity.
  - intros y Hy. apply H. right. exact Hy.
Qed.

Lemma itg2_tt_wl_deque : forall c k c' d a, itg_deque_from c' a d = true ->
  itg2_tt_wl (itg2_tt_wid c k) d <= 1 /\ (k < a -> itg2_tt_wl (itg2_tt_wid c k) d = 0).
Proof.
  intros c k c'. induction d as [|b r IH]; intros a H; [split; [cbn; lia|reflexivity]|].
  destruct (itg_deque_from_cons _ _ _ _ H) as [_ [Ha [Hl H2]]]. destruct (IH _ H2) as [I1 I2].
  rewrite itg2_tt_wl_cons. unfold itg2_tt_wid at 1 3. unfold itg_end in *.
  destruct ((itg_client b =? c) && (itg_clock b =? k)) eqn:E.
  - assert (Hk : k < itg_clock b + block_len b) by lia. specialize (I2 Hk). split; [lia|]. intros Hlt. lia.
  - split; [lia|]. intros Hlt. assert (Hk : k < itg_clock b + block_len b) by lia. specialize (I2 Hk). lia.
Qed.

Lemma itg2_tt_ws_bs : forall c k bs, NoDup (map fst bs) ->
  (forall c' D, In (c', D) bs -> exists a, itg_deque_from c' a D = true) ->
  itg2_tt_ws (itg2_tt_wid c k) bs <= 1 /\ (~ In c (map fst bs) -> itg2_tt_ws (itg2_tt_wid c k) bs = 0).
Proof.
  intros c k. induction bs as [|[c' D] rest IH]; intros Hnd Hdq; [split; [cbn; lia|reflexivity]|].
  cbn [map fst] in Hnd. inversion Hnd as [|z l Hn Hr]; subst.
  destruct IH as [I1 I2]; [exact Hr|intros c2 D2 H2; apply (Hdq c2 D2); right; exact H2|].
  destruct (Hdq c' D (or_introl eq_refl)) as [a Ha].
  rewrite itg2_tt_ws_cons.
  assert (Hoth : c' <> c -> itg2_tt_wl (itg2_tt_wid c k) D = 0).
  { intros Hne. apply itg2_tt_wl_other. intros y Hy. destruct (itg_deque_from_clients _ _ _ y Ha Hy) as [Hc _]. congruence. }
  split.
  - destruct (N.eq_dec c' c) as [->|Hne].
    + specialize (I2 Hn). destruct (itg2_tt_wl_deque c k _ _ _ Ha) as [W1 _]. lia.
    + specialize (Hoth Hne). lia.
  - intros Hnot. cbn [map fst In] in Hnot.
    assert (Hne : c' <> c) by (intros ->; apply Hnot; left; reflexivity).
    rewrite (Hoth Hne), I2; [reflexivity|]. intros Hin. apply Hnot. right. exact Hin.
Qed.

Lemma itg2_tt_wf_parts : forall bs, itg_update_wf bs = true ->
  NoDup (map fst bs) /\
  (forall c D, In (c, D) bs -> exists a, itg_deque_from c a D = true) /\
  (forall c D b, In (c, D) bs -> In b D -> itg_client b = c /\ 0 < block_len b).
Proof.
  intros bs H. destruct (itg_update_wf_ok _ H) as [K1 K2]. split; [exact K1|].
  assert (Hd : forall c D, In (c, D) bs -> exists a, itg_deque_from c a D = true).
  { intros c D He. destruct (itg2_wf_deque _ _ _ H He) as [f [r [_ Hq]]]. exists (itg_clock f). exact Hq. }
  split; [exact Hd|]. intros c D b He Hb. destruct (Hd c D He) as [a Ha]. apply (itg_deque_from_clients _ _ _ b Ha Hb).
Qed.

(* two blocks of a contiguous deque that start at different clocks do not overlap *)
Lemma itg2_tt_deque_apart : forall c d a x y, itg_deque_from c a d = true -> In x d -> In y d ->
  itg_clock x <> itg_clock y -> itg_end x <= itg_clock y \/ itg_end y <= itg_clock x.
Proof.
  intros c. induction d as [|b r IH]; intros a x y H Hx Hy Hne; [destruct Hx|].
  destruct (itg_deque_from_cons _ _ _ _ H) as [_ [Ha [Hl H2]]].
  destruct Hx as [<-|Hx]; destruct Hy as [<-|Hy].
  - contradiction.
  - left. apply (itg2_deque_lower _ _ _ _ H2 Hy).
  - right. apply (itg2_deque_lower _ _ _ _ H2 Hx).
  - apply (IH _ x y H2 Hx Hy Hne).
Qed.

(* ================================================================================================ *)
(* 3. BlockStore::push of a block none of whose ids is integrated                                    *)
(* ================================================================================================ *)
Lemma itg2_tt_seg_split_ex : forall l a k, itg_segs_from a l = true -> a <= k < itg_clock_from a l ->
  exists pre g post, itg_seg_split l k = Some (pre, g, post).
Proof.
  induction l as [|g r IH]; intros a k H Hk; cbn [itg_clock_from itg_segs_from] in *; [lia|].
  apply andb_prop in H. destruct H as [H1 H2]. cbn [itg_seg_split].
  destruct ((itg_sg_start g <=? k) && (k <? itg_sg_end g)) eqn:E.
  - eexists. eexists. eexists. reflexivity.
  - destruct (IH (itg_sg_end g) k H2) as [pre [x [post Es]]]; [lia|]. rewrite Es. eexists. eexists. eexists. reflexivity.
Qed.

Lemma itg2_tt_list_clock_snoc : forall l g, itg_list_clock (l ++ [g]) = itg_sg_end g.
Proof. intros l g. rewrite itg_list_clock_from0, itg_clock_from_app. reflexivity. Qed.

Lemma itg2_tt_push_list_ok : forall l s len, itg_segs_from 0 l = true -> itg2_shape_l l -> 0 < len ->
  (forall j, s <= j < s + len -> itg_has_l l j = false) ->
  exists l1 l2,
    (if itg_list_clock l <? s then itg_push_list l (itg_list_clock l) (s - itg_list_clock l) true else itg_ok l)
      = itg_ok l1 /\
    itg_push_list l1 s len false = itg_ok l2.
Proof.
  intros l s len Hwf Hsh Hlen Hhas. destruct (itg_list_clock l <? s) eqn:E.
  - set (g := itg_mkseg (itg_list_clock l) (s - itg_list_clock l) true).
    exists (l ++ [g]), ((l ++ [g]) ++ [itg_mkseg s len false]). split.
    + unfold itg_push_list. destruct l as [|x r]; [reflexivity|]. rewrite N.eqb_refl. reflexivity.
    + assert (Hc : itg_list_clock (l ++ [g]) = s).
      { rewrite itg2_tt_list_clock_snoc. unfold itg_sg_end, g. cbn [itg_sg_start itg_sg_len]. lia. }
      unfold itg_push_list. rewrite Hc, N.eqb_refl.
      destruct (l ++ [g]) eqn:E0; [destruct l; discriminate|reflexivity].
  - assert (Hx : exists l2, itg_push_list l s len false = itg_ok l2).
    { unfold itg_push_list. destruct l as [|x0 r0] eqn:El; [eexists; reflexivity|]. rewrite <- El in *.
      destruct (itg_list_clock l =? s) eqn:Ec; [eexists; reflexivity|].
      assert (Hk : 0 <= s < itg_clock_from 0 l) by (rewrite <- itg_list_clock_from0; lia).
      destruct (itg2_tt_seg_split_ex l 0 s Hwf Hk) as [pre [g [post Es]]]. rewrite Es.
      destruct (itg_seg_split_spec _ _ _ _ _ Es) as [Hl Hin].
      assert (Hin' : itg_sg_start g <= s < itg_sg_end g) by (unfold itg_in_seg in Hin; lia).
      destruct (itg_sg_skip g) eqn:Esk.
      2: { exfalso. assert (Hs : itg_has_l l s = false) by (apply Hhas; lia).
           assert (Ht : itg_has_l l s = true).
           { unfold itg_has_l. apply existsb_exists. exists g. split; [rewrite Hl; apply in_or_app; right; left; reflexivity|].
             rewrite Esk, Hin. reflexivity. }
           rewrite Ht in Hs. discriminate. }
      destruct (itg_sg_end g <? s + len) eqn:E5.
      - exfalso. destruct (Hsh pre g post Hl) as [_ Hnext]. destruct (Hnext Esk) as [g' [post' [Hpost Hg']]]. subst post.
        assert (Hl2 : l = (pre ++ [g]) ++ g' :: post') by (rewrite Hl, <- app_assoc; reflexivity).
        destruct (Hsh _ _ _ Hl2) as [Hlen' _].
        assert (Hst : itg_sg_start g' = itg_sg_end g).
        { rewrite Hl in Hwf. rewrite itg_segs_from_app in Hwf. apply andb_prop in Hwf. destruct Hwf as [_ W].
          cbn [itg_segs_from] in W. lia. }
        assert (Hs : itg_has_l l (itg_sg_end g) = false) by (apply Hhas; lia).
        assert (Ht : itg_has_l l (itg_sg_end g) = true).
        { unfold itg_has_l. apply existsb_exists. exists g'. split; [rewrite Hl; apply in_or_app; right; right; left; reflexivity|].
          rewrite Hg'. unfold itg_in_seg, itg_sg_end in *. lia. }
        rewrite Ht in Hs. discriminate.
      - cbn [negb]. eexists. reflexivity. }
    destruct Hx as [l2 H2]. exists l, l2. split; [reflexivity|exact H2].
Qed.

Lemma itg2_tt_push_ok : forall st c s len, itg_blocks_ok st -> itg2_shape st -> 0 < len ->
  (forall j, s <= j < s + len -> itg_has st (mkid c j) = false) ->
  exists st1 st2,
    (if itg_get_clock st c <? s then itg_push st c (itg_get_clock st c) (s - itg_get_clock st c) true else itg_ok st)
      = itg_ok st1 /\
    itg_push st1 c s len false = itg_ok st2.
Proof.
  intros st c s len Hok Hsh Hlen Hhas. rewrite itg2_sh_get_clock_lst. set (l := itg2_sh_lst st c).
  assert (Hl : itg_segs_from 0 l = true /\ itg2_shape_l l /\ forall j, s <= j < s + len -> itg_has_l l j = false).
  { unfold l, itg2_sh_lst. destruct (itg_get st c) as [l0|] eqn:Eg.
    - split; [apply (Hok _ _ Eg)|]. split; [apply (Hsh _ _ Eg)|]. intros j Hj. specialize (Hhas j Hj).
      unfold itg_has in Hhas. cbn [cl ck] in Hhas. rewrite Eg in Hhas. exact Hhas.
    - split; [reflexivity|]. split; [|intros; reflexivity]. intros pre g post E. destruct pre; discriminate. }
  destruct Hl as [L1 [L2 L3]].
  destruct (itg2_tt_push_list_ok l s len L1 L2 Hlen L3) as [l1 [l2 [H1 H2]]].
  destruct (itg_list_clock l <? s) eqn:E.
  - exists (itg_put st c l1), (itg_put (itg_put st c l1) c l2). split.
    + rewrite itg2_sh_push_eq. fold l. rewrite H1. reflexivity.
    + rewrite itg2_sh_push_eq. unfold itg2_sh_lst. rewrite itg_get_put_same, H2. reflexivity.
  - injection H1 as <-. exists st, (itg_put st c l2). split; [reflexivity|].
    rewrite itg2_sh_push_eq. fold l. rewrite H2. reflexivity.
Qed.

(* ================================================================================================ *)
(* 4. the loop invariant                                                                            *)
(* ================================================================================================ *)
Definition itg2_tt_inbs (bs : list (N * list block)) (y : block) : Prop :=
  exists D, In (itg_client y, D) bs /\ In y D.

(* new: the blocks integrated by this run *)
Definition itg2_tt_G (bs : list (N * list block)) (blocks0 : list (N * list itg_seg))
  (next : option block) (r : itg_run) : Prop :=
  exists new,
    (forall x, In x new -> itg2_tt_inbs bs x) /\
    (forall i, itg_has (itg_rn_blocks r) i = itg_has blocks0 i || itg_log_has new i) /\
    (forall c k, itg2_tt_wo (itg2_tt_wid c k) next + itg2_tt_wpk (itg2_tt_wid c k) (itg_rn_pk r)
                 + itg2_tt_wl (itg2_tt_wid c k) new <= 1).

Definition itg2_tt_P (bs : list (N * list block)) (blocks0 : list (N * list itg_seg))
  (next : option block) (r : itg_run) : Prop :=
  itg2_sh_shape_P next r /\
  (forall b, next = Some b -> itg2_tt_inbs bs b) /\
  itg_pk_all (itg2_tt_inbs bs) (itg_rn_pk r) /\
  itg2_tt_G bs blocks0 next r.

Lemma itg2_tt_P_skip : forall bs blocks0 b r, itg2_tt_P bs blocks0 (Some b) r ->
  itg2_tt_P bs blocks0 (fst (itg_pk_next (itg_rn_pk r)))
    (itg_mkrun (itg_rn_blocks r) (itg_rn_log r) (itg_rn_state r) (snd (itg_pk_next (itg_rn_pk r)))).
Proof.
  intros bs blocks0 b r [[A [B [C [D E]]]] [F [G [new [N1 [N2 N3]]]]]].
  destruct (itg_pk_next_all itg2_sh_Q _ E) as [S1 S2].
  destruct (itg_pk_next_all (itg2_tt_inbs bs) _ G) as [T1 T2].
  split; [|split; [exact T1|split; [exact T2|]]].
  - unfold itg2_sh_shape_P. cbn [itg_rn_blocks itg_rn_state itg_rn_pk].
    split; [exact A|]. split; [exact B|]. split; [exact C|]. split; [exact S1|exact S2].
  - exists new. cbn [itg_rn_blocks itg_rn_pk]. split; [exact N1|]. split; [exact N2|]. intros c k.
    specialize (N3 c k). pose proof (itg2_tt_pk_next_w (itg2_tt_wid c k) (itg_rn_pk r)). cbn [itg2_tt_wo] in N3. lia.
Qed.

Lemma itg2_tt_P_switch : forall bs blocks0 b r m, itg2_tt_P bs blocks0 (Some b) r ->
  itg2_tt_P bs blocks0 (fst (itg_pk_switch (itg_rn_pk r) b m))
    (itg_mkrun (itg_rn_blocks r) (itg_rn_log r) (itg_state1 r (itg_client b)) (snd (itg_pk_switch (itg_rn_pk r) b m))).
Proof.
  intros bs blocks0 b r m [[A [B [C [D E]]]] [F [G [new [N1 [N2 N3]]]]]].
  destruct (itg_pk_switch_all itg2_sh_Q _ b m E (D b eq_refl)) as [S1 S2].
  destruct (itg_pk_switch_all (itg2_tt_inbs bs) _ b m G (F b eq_refl)) as [T1 T2].
  split; [|split; [exact T1|split; [exact T2|]]].
  - unfold itg2_sh_shape_P. cbn [itg_rn_blocks itg_rn_state itg_rn_pk].
    split; [exact A|]. split; [apply itg_cache_state1; exact B|]. split; [exact C|]. split; [exact S1|exact S2].
  - exists new. cbn [itg_rn_blocks itg_rn_pk]. split; [exact N1|]. split; [exact N2|]. intros c k.
    specialize (N3 c k). pose proof (itg2_tt_pk_switch_w (itg2_tt_wid c k) (itg_rn_pk r) b m). cbn [itg2_tt_wo] in N3. lia.
Qed.

Lemma itg2_tt_P_integ : forall bs blocks0 b r blocks1 blocks2, itg2_tt_P bs blocks0 (Some b) r ->
  itg_is_skip b = false ->
  (if itg_local_clock r (itg_client b) <? itg_clock b
   then itg_push (itg_rn_blocks r) (itg_client b) (itg_local_clock r (itg_client b))
          (itg_clock b - itg_local_clock r (itg_client b)) true
   else itg_ok (itg_rn_blocks r)) = itg_ok blocks1 ->
  itg_push blocks1 (itg_client b) (itg_clock b) (block_len b) false = itg_ok blocks2 ->
  itg2_tt_P bs blocks0 (fst (itg_pk_next (itg_rn_pk r)))
    (itg_mkrun blocks2 (b :: itg_rn_log r)
       (itg_put (itg_state1 r (itg_client b)) (itg_client b)
          (N.max (itg_local_clock r (itg_client b)) (itg_clock b + block_len b)))
       (snd (itg_pk_next (itg_rn_pk r)))).
Proof.
  intros bs blocks0 b r blocks1 blocks2 [[A [B [C [D E]]]] [F [G [new [N1 [N2 N3]]]]]] Esk E1 E2.
  set (c := itg_client b) in *. set (lc := itg_local_clock r c) in *.
  assert (Hlc : lc = itg_get_clock (itg_rn_blocks r) c) by (apply itg_cache_local; exact B).
  assert (E1' := E1). rewrite Hlc in E1'.
  destruct (itg_integ_spec _ _ _ _ _ _ A E1' E2) as [A1 [A2 [A3 [A4 A5]]]].
  destruct (itg_pk_next_all itg2_sh_Q _ E) as [S1 S2].
  destruct (itg_pk_next_all (itg2_tt_inbs bs) _ G) as [T1 T2].
  split; [|split; [exact T1|split; [exact T2|]]].
  - unfold itg2_sh_shape_P. cbn [itg_rn_blocks itg_rn_state itg_rn_pk].
    split; [exact A1|]. split; [|split; [|split; [exact S1|exact S2]]].
    + intros c' v. rewrite itg_get_put. destruct (c' =? c) eqn:E0.
      * intros Hv. injection Hv as <-. apply N.eqb_eq in E0. subst c'. rewrite A2, Hlc. reflexivity.
      * intros Hv. apply N.eqb_neq in E0. unfold itg_get_clock. rewrite (A3 _ E0).
        apply (itg_cache_state1 _ c B) in Hv. exact Hv.
    + apply (itg2_sh_integ_shape _ _ _ _ _ _ C (D b eq_refl) E1' E2).
  - exists (b :: new). cbn [itg_rn_blocks itg_rn_pk]. split; [|split].
    + intros x [<-|Hx]; [apply (F b eq_refl)|apply N1; exact Hx].
    + intros i. rewrite A4, N2.
      assert (Hcv : itg_log_has (b :: new) i = itg_covers b i || itg_log_has new i) by reflexivity.
      rewrite Hcv.
      assert (Hcb : itg_covers b i = (cl i =? c) && (itg_clock b <=? ck i) && (ck i <? itg_clock b + block_len b)).
      { unfold itg_covers, itg_end. fold c. rewrite (N.eqb_sym c (cl i)). reflexivity. }
      rewrite <- Hcb. destruct (itg_has blocks0 i), (itg_log_has new i), (itg_covers b i); reflexivity.
    + intros c0 k. specialize (N3 c0 k). pose proof (itg2_tt_pk_next_w (itg2_tt_wid c0 k) (itg_rn_pk r)).
      cbn [itg2_tt_wo] in N3. rewrite itg2_tt_wl_cons. lia.
Qed.

(* ================================================================================================ *)
(* 5. no id of the block about to be integrated is integrated                                       *)
(* ================================================================================================ *)
Section itg2_tt_SecMain.
Variable bs : list (N * list block).
Variable blocks0 : list (N * list itg_seg).
Hypothesis Hwf : itg_update_wf bs = true.
Hypothesis Htrim : forall c d j, In (c, d) bs -> itg_dcov d j = true -> itg_has blocks0 (mkid c j) = false.

Lemma itg2_tt_fresh : forall b r j, itg2_tt_P bs blocks0 (Some b) r -> itg_is_skip b = false ->
  itg_clock b <= j < itg_end b -> itg_has (itg_rn_blocks r) (mkid (itg_client b) j) = false.
Proof.
  intros b r j [_ [F [_ [new [N1 [N2 N3]]]]]] Esk Hj.
  destruct (itg2_tt_wf_parts _ Hwf) as [K1 [K2 K3]].
  destruct (F b eq_refl) as [D [HD Hb]].
  rewrite N2. rewrite (Htrim _ _ j HD (itg_in_dcov D b j Hb Esk Hj)). cbn [orb].
  destruct (itg_log_has new (mkid (itg_client b) j)) eqn:El; [|reflexivity]. exfalso.
  unfold itg_log_has in El. apply existsb_exists in El. destruct El as [x [Hx Hc]].
  unfold itg_covers in Hc. cbn [cl ck] in Hc.
  assert (Hxc : itg_client x = itg_client b) by lia.
  destruct (N1 x Hx) as [D' [HD' Hx']]. rewrite Hxc in HD'.
  assert (HDD : D' = D).
  { pose proof (itg_get_of_in _ _ _ _ K1 HD) as G1. pose proof (itg_get_of_in _ _ _ _ K1 HD') as G2. congruence. }
  subst D'.
  specialize (N3 (itg_client b) (itg_clock b)). cbn [itg2_tt_wo] in N3.
  assert (Hwb : itg2_tt_wid (itg_client b) (itg_clock b) b = 1).
  { unfold itg2_tt_wid. rewrite !N.eqb_refl. reflexivity. }
  pose proof (itg2_tt_wl_in (itg2_tt_wid (itg_client b) (itg_clock b)) x new Hx) as Hwx.
  assert (Hw0 : itg2_tt_wid (itg_client b) (itg_clock b) x = 0) by lia.
  assert (Hne : itg_clock x <> itg_clock b).
  { intros Heq. unfold itg2_tt_wid in Hw0. rewrite Hxc, Heq, !N.eqb_refl in Hw0. discriminate. }
  destruct (K2 _ _ HD) as [a Ha].
  destruct (itg2_tt_deque_apart _ _ _ x b Ha Hx' Hb Hne); lia.
Qed.

Lemma itg2_tt_loop_total : forall fuel next r t, itg2_tt_P bs blocks0 next r -> itg_loop fuel next r <> itg_undef t.
Proof.
  induction fuel as [|f IH]; intros next r t HP.
  - destruct next; cbn [itg_loop]; discriminate.
  - destruct next as [b|]; cbn [itg_loop]; [|discriminate].
    destruct (itg_is_skip b) eqn:Esk.
    + apply IH. apply (itg2_tt_P_skip _ _ b r HP).
    + destruct (itg_missing_dep (itg_rn_blocks r) b) as [m|] eqn:Em.
      * fold (itg_local_clock r (itg_client b)). fold (itg_state1 r (itg_client b)).
        apply IH. apply (itg2_tt_P_switch _ _ b r m HP).
      * fold (itg_local_clock r (itg_client b)). fold (itg_state1 r (itg_client b)).
        assert (HP' := HP). destruct HP' as [[A [B [C [D E]]]] _].
        assert (Hlc : itg_local_clock r (itg_client b) = itg_get_clock (itg_rn_blocks r) (itg_client b))
          by (apply itg_cache_local; exact B).
        destruct (itg2_tt_push_ok (itg_rn_blocks r) (itg_client b) (itg_clock b) (block_len b) A C (D b eq_refl))
          as [st1 [st2 [H1 H2]]].
        { intros j Hj. apply (itg2_tt_fresh b r j HP Esk). unfold itg_end. exact Hj. }
        rewrite <- Hlc in H1. rewrite H1. cbn [itg_bind]. rewrite H2. cbn [itg_bind].
        apply IH. apply (itg2_tt_P_integ _ _ b r st1 st2 HP Esk H1 H2).
Qed.
End itg2_tt_SecMain.

(* ================================================================================================ *)
(* 6. the theorem                                                                                   *)
(* ================================================================================================ *)
Theorem itg2_integrate_total : forall blocks log bs,
  itg_blocks_ok blocks -> itg2_shape blocks -> itg_update_wf bs = true ->
  (forall c d j, In (c, d) bs -> itg_dcov d j = true -> itg_has blocks (mkid c j) = false) ->
  exists res, itg_integrate blocks log bs = itg_ok res.
Proof.
  intros blocks log bs Hok Hsh Hwf Htrim.
  destruct (itg_integrate blocks log bs) as [res|t|] eqn:E.
  - exists res. reflexivity.
  - exfalso. unfold itg_integrate in E. destruct bs as [|e0 bs0] eqn:Eb; [discriminate|]. rewrite <- Eb in *. clear Eb.
    set (np := itg_pk_next (itg_pk_new bs)) in *.
    destruct (itg_loop (itg_loop_fuel bs) (fst np) (itg_mkrun blocks log [] (snd np))) as [r'|t'|] eqn:EL;
      cbn [itg_bind] in E; try discriminate.
    destruct (itg2_tt_wf_parts _ Hwf) as [K1 [K2 K3]].
    revert EL. apply (itg2_tt_loop_total bs blocks Hwf Htrim).
    assert (H0 : itg_pk_all itg2_sh_Q (itg_pk_new bs)).
    { unfold itg_pk_all, itg_pk_new. cbn [itg_pk_store itg_pk_latest itg_pk_stack itg_pk_unapp].
      split; [|split; [intros c d Hc; discriminate|split; [intros b []|intros e []]]].
      intros [c D] He b Hb. apply (K3 c D b He Hb). }
    assert (H1 : itg_pk_all (itg2_tt_inbs bs) (itg_pk_new bs)).
    { unfold itg_pk_all, itg_pk_new. cbn [itg_pk_store itg_pk_latest itg_pk_stack itg_pk_unapp].
      split; [|split; [intros c d Hc; discriminate|split; [intros b []|intros e []]]].
      intros [c D] He b Hb. cbn [snd] in Hb. exists D. destruct (K3 c D b He Hb) as [-> _]. split; assumption. }
    destruct (itg_pk_next_all itg2_sh_Q _ H0) as [S1 S2]. fold np in S1, S2.
    destruct (itg_pk_next_all (itg2_tt_inbs bs) _ H1) as [T1 T2]. fold np in T1, T2.
    split; [|split; [exact T1|split; [exact T2|]]].
    + unfold itg2_sh_shape_P. cbn [itg_rn_blocks itg_rn_state itg_rn_pk].
      split; [exact Hok|]. split; [intros c v Hv; discriminate|]. split; [exact Hsh|]. split; [exact S1|exact S2].
    + exists []. cbn [itg_rn_blocks itg_rn_pk]. split; [intros x []|]. split; [intros i; cbn; rewrite orb_false_r; reflexivity|].
      intros c k. pose proof (itg2_tt_pk_next_w (itg2_tt_wid c k) (itg_pk_new bs)) as Hn. fold np in Hn.
      assert (Hu : itg2_tt_wpk (itg2_tt_wid c k) (itg_pk_new bs) = itg2_tt_ws (itg2_tt_wid c k) bs + 0 + 0 + 0) by reflexivity.
      destruct (itg2_tt_ws_bs c k bs K1 K2) as [W1 _]. rewrite itg2_tt_wl_nil. lia.
  - exfalso. apply (itg_integrate_fuel_ok _ _ _ E).
Qed.


(* ================================================================================================ *)
(* 3. the main development                                                                          *)
(* ================================================================================================ *)
Lemma itg2_integrate_some_nonempty : forall blocks log bs blocks' log' p,
  itg_integrate blocks log bs = itg_ok (blocks', log', Some p) -> u_blocks (itg_p_update p) <> [].
Proof.
  intros blocks log bs blocks' log' p H. unfold itg_integrate in H. destruct bs as [|e bs0]; [discriminate|].
  destruct (itg_loop _ _ _) as [r| |]; cbn [itg_bind] in H; try discriminate.
  injection H as _ _ Hp. unfold itg_pk_pending in Hp. destruct (itg_pk_unapp (itg_rn_pk r)) as [|x un]; [discriminate|].
  injection Hp as <-. cbn [itg_p_update u_blocks]. discriminate.
Qed.

Section Itg2Main.
  Variable H : list (N * list block).
  Variable rho : id -> nat.
  Variable W : list xop.
  Variable mrg : update -> update -> update.
  Hypothesis HH : itg2_history H rho.
  Hypothesis Hmrg : itg2_mrg_ok H rho W mrg.

  Lemma itg2_rank_le : forall c j1 j2, itg2_cov H (mkid c j1) = true -> itg2_cov H (mkid c j2) = true -> j1 <= j2 ->
    (rho (mkid c j1) <= rho (mkid c j2))%nat.
  Proof.
    intros c j1 j2 A B Hle. destruct (N.eq_dec j1 j2) as [->|Hne]; [lia|].
    pose proof (itg2_h_order _ _ HH c j1 j2 A B ltac:(lia)). lia.
  Qed.

  Definition itg2_pend_good (s : itg_store) : Prop :=
    match itg_pend s with Some p => itg2_good H rho W p | None => True end.
  Definition itg2_pend_blocked (s : itg_store) : Prop :=
    match itg_pend s with Some p => itg2_blocked H rho (itg_blocks s) p | None => True end.
  Definition itg2_log_ok (log : list block) : Prop := forall b, In b log -> itg2_okb H rho W b.
  (* the invariant of the reachable states *)
  Definition itg2_S (blocks : list (N * list itg_seg)) (log : list block) : Prop :=
    itg2_log_ok log /\ itg2_shape blocks /\ NoDup (map fst blocks).
  Definition itg2_I (s : itg_store) : Prop :=
    itg_inv s /\ itg2_pend_good s /\ itg2_S (itg_blocks s) (itg_log s).

  Lemma itg2_good_deliverable : forall p, itg2_good H rho W p -> itg2_deliverable H rho W (itg_p_update p).
  Proof.
    intros p [[Hwf Hcf] [Hp _]]. unfold itg2_deliverable. rewrite (itg2_abs_cf_blocks _ Hcf). split; assumption.
  Qed.

  Lemma itg2_empty_deliverable : itg2_deliverable H rho W itg_empty_update.
  Proof. split; [reflexivity|]. intros y [c [d [[] _]]]. Qed.

  (* the entries of a missing vector that the retry test found missing *)
  Lemma itg2_test_false : forall blocks p, itg_blocks_ok blocks -> itg_retry_test blocks p = false ->
    forall m, itg2_entry (itg_p_missing p) m -> exists k, k <= ck m /\ itg_has blocks (mkid (cl m) k) = false.
  Proof.
    intros blocks p Hok Ht m [k [Hk Hle]]. exists k. split; [exact Hle|].
    apply itg_get_in in Hk. unfold itg_retry_test in Ht.
    destruct (itg_has blocks (mkid (cl m) k)) eqn:Eh; [|reflexivity]. exfalso.
    assert (Hx : existsb (fun e => negb (itg_is_missing blocks (mkid (fst e) (snd e)))) (itg_p_missing p) = true).
    { apply existsb_exists. exists (cl m, k). split; [exact Hk|]. cbn [fst snd].
      rewrite (itg_is_missing_spec _ _ Hok), Eh. reflexivity. }
    rewrite Hx in Ht. discriminate.
  Qed.

  (* THE RETRY DECISION: when the test of apply_update fails, every stashed id is still held back *)
  Lemma itg2_headed_blocked : forall blocks p, itg_blocks_ok blocks -> itg_retry_test blocks p = false ->
    itg2_headed H rho p -> itg2_blocked H rho blocks p.
  Proof.
    intros blocks p Hok Ht Hh i Hi. destruct (Hh i Hi) as [m [M1 [M2 M3]]].
    destruct (itg2_test_false blocks p Hok Ht m M3) as [k [K1 K2]].
    exists (mkid (cl m) k).
    assert (Hck : itg2_cov H (mkid (cl m) k) = true).
    { destruct (N.eq_dec k (ck m)) as [->|Hne]; [rewrite itg_id_eta; exact M1|].
      apply (itg2_h_prefix _ _ HH (cl m) k (ck m)); [rewrite itg_id_eta; exact M1|lia]. }
    split; [exact Hck|]. split; [|exact K2].
    pose proof (itg2_rank_le (cl m) k (ck m) Hck ltac:(rewrite itg_id_eta; exact M1) K1) as X.
    rewrite itg_id_eta in X. lia.
  Qed.

  (* conservation of ids by trim + integrate *)
  Lemma itg2_run_conserves : forall blocks log u bs blocks' log' rem,
    itg_inv_bl blocks log -> itg_update_wf (u_blocks (itg_abs_update u)) = true ->
    itg_trim blocks (u_blocks (itg_abs_update u)) = itg_ok bs ->
    itg_integrate blocks log bs = itg_ok (blocks', log', rem) ->
    (forall i, itg_has blocks i = true -> itg_has blocks' i = true) /\
    forall i, itg2_cov (u_blocks (itg_abs_update u)) i = true ->
      itg_has blocks' i = true \/ itg2_cov_pend rem i = true.
  Proof.
    intros blocks log u bs blocks' log' rem Hinv Hwf Et Ei.
    pose proof (itg_inv_ok _ _ Hinv) as Hok.
    destruct (itg_trim_correct _ _ Hok Hwf (itg_abs_update_cf u)) as [bs0 [Et0 [F [Hwf' _]]]].
    rewrite Et in Et0. injection Et0 as <-.
    pose proof (itg_update_wf_ok _ Hwf') as Hok'.
    destruct (itg_integrate_conserves _ _ _ _ _ _ Hok' Ei) as [new [N1 N2]].
    destruct (itg_integrate_inv _ _ _ _ _ _ Hinv Ei) as [Hinv' _].
    assert (Hmono : forall i, itg_has blocks i = true -> itg_has blocks' i = true).
    { intros i Hi. rewrite (itg_inv_agree _ _ Hinv'), N1, itg_log_has_app. rewrite (itg_inv_agree _ _ Hinv) in Hi.
      rewrite Hi. apply orb_true_r. }
    split; [exact Hmono|].
    intros i Hi. apply itg2_cov_spec in Hi. destruct Hi as [d [HcD Hj]].
    destruct (itg_forall2_in_l _ _ _ _ _ _ F HcD) as [[c' d'] [Hin [R1 [R2 [R3 R4]]]]]. cbn [fst snd] in *. subst c'.
    destruct (itg_has blocks i) eqn:Eh; [left; apply Hmono; exact Eh|].
    assert (Hj' : itg_dcov d' (ck i) = true) by (rewrite R4, Hj, itg_id_eta, Eh; reflexivity).
    destruct (itg_dcov_in _ _ Hj') as [b [Hb [Hs Hr]]].
    destruct (N2 (cl i) d' b Hin Hb Hs) as [A|[r [rest [A1 [A2 A3]]]]].
    - left. rewrite (itg_inv_agree _ _ Hinv'), N1, itg_log_has_app.
      assert (Ht : itg_log_has new i = true).
      { apply existsb_exists. exists b. split; [exact A|]. unfold itg_covers.
        rewrite (proj2 Hok' (cl i) d' b Hin Hb). unfold itg_end in *. lia. }
      rewrite Ht. reflexivity.
    - right. subst rem. cbn [itg2_cov_pend]. apply itg2_cov_spec. exists rest. split; [apply itg_get_in; exact A2|].
      apply (itg_in_dcov _ b _ A3 Hs Hr).
  Qed.

  (* ---- one run of Update::integrate on the trimmed update ---- *)
  Lemma itg2_integrate_main : forall blocks log u bs blocks' log' rem,
    itg_inv_bl blocks log -> itg2_S blocks log -> itg2_deliverable H rho W u ->
    itg_trim blocks (u_blocks (itg_abs_update u)) = itg_ok bs ->
    itg_integrate blocks log bs = itg_ok (blocks', log', rem) ->
    itg2_S blocks' log' /\
    forall r, rem = Some r -> itg2_good H rho W r /\ itg2_blocked H rho blocks' r.
  Proof.
    intros blocks log u bs blocks' log' rem Hinv [Hlog [Hsh Hndb]] [Hwf Hpc] Et Ei.
    pose proof (itg_inv_ok _ _ Hinv) as Hok.
    destruct (itg_trim_correct _ _ Hok Hwf (itg_abs_update_cf u)) as [bs0 [Et0 [F [Hwf' Hcf']]]].
    rewrite Et in Et0. injection Et0 as <-.
    pose proof (itg2_QH_of_oks H rho W _ (itg_abs_update_cf u) Hpc) as HQ0.
    destruct (itg_trim_all _ _ _ _ (itg2_QH_cut_closed H rho W HH) HQ0 Et) as [HQ _].
    destruct (itg_integrate_moves _ _ _ _ _ _ _ HQ Ei) as [new [N1 [N2 HQr]]].
    split; [split; [|split]|].
    - intros b Hb. rewrite N1 in Hb. apply in_app_or in Hb. destruct Hb as [Hb|Hb]; [|apply Hlog; exact Hb].
      destruct (N2 b Hb) as [[_ [A|A]] Hs]; [rewrite A in Hs; discriminate|exact A].
    - apply (itg2_shape_integrate blocks log bs blocks' log' rem Hok Hsh); [|exact Ei].
      intros c D b HD Hb. destruct (itg2_wf_deque _ c D Hwf' HD) as [f [r0 [_ Hdq]]].
      apply (itg_deque_from_clients c D _ b Hdq Hb).
    - apply (itg2_nodup_integrate _ _ _ _ _ _ Hndb Ei).
    - intros r ->.
      destruct (itg2_oks_of_QH H rho W _ (HQr r eq_refl)) as [Hcfr Hpr].
      destruct (itg2_run_heads _ _ _ _ _ _ (itg_update_wf_ok _ Hwf') Hok Ei) as [Hnd Hhd].
      (* the deques of the stash *)
      assert (Hdq : forall c d, In (c, d) (u_blocks (itg_p_update r)) ->
                exists h rest m, d = h :: rest /\ itg_deque_from c (itg_clock h) d = true /\ itg_is_skip h = false /\
                  In m (itg_deps h) /\ itg_has blocks' m = false /\ itg2_entry (itg_p_missing r) m).
      { intros c d He. destruct (Hhd c d He) as [D [pre [h [rest [m [HD [ED [Ed [Hs [Hm [Hh Hen]]]]]]]]]]].
        exists h, rest, m. split; [exact Ed|]. split; [|repeat split; assumption].
        destruct (itg2_wf_deque _ c D Hwf' HD) as [f [r0 [_ Hdq]]]. rewrite ED in Hdq.
        apply itg2_deque_suffix in Hdq. rewrite Ed.
        destruct (itg_deque_from_cons _ _ _ _ Hdq) as [_ [Hc _]]. rewrite Hc. exact Hdq. }
      assert (Hwfr : itg_update_wf (u_blocks (itg_p_update r)) = true).
      { unfold itg_update_wf. rewrite (itg2_nodup_keys_distinct _ Hnd). cbn [andb]. apply forallb_forall.
        intros [c d] He. cbn [fst snd]. destruct (Hdq c d He) as [h [rest [m [Ed [Hq _]]]]]. rewrite Ed in *.
        unfold itg_deque_wf. exact Hq. }
      (* every stashed id is ranked above a dependency id of the head of its list, which is recorded and
         not integrated *)
      assert (Hkey : forall i, itg2_cov (u_blocks (itg_p_update r)) i = true ->
                exists m, itg2_cov H m = true /\ (rho m < rho i)%nat /\ itg_has blocks' m = false /\
                          itg2_entry (itg_p_missing r) m).
      { intros i Hi. destruct (itg2_cov_in _ _ Hi) as [d [y [He [Hy [Hs Hr]]]]].
        destruct (Hdq (cl i) d He) as [h [rest [m [Ed [Hq [Hsh' [Hm [Hh Hen]]]]]]]].
        assert (Hhd' : In h d) by (rewrite Ed; left; reflexivity).
        destruct (itg_deque_from_clients _ d _ h Hq Hhd') as [Hch Hlh].
        destruct (itg_deque_from_clients _ d _ y Hq Hy) as [Hcy Hly].
        pose proof (itg2_deque_lower _ d _ y Hq Hy) as Hle.
        destruct (Hpr h) as [_ [_ [_ [Ph Pd]]]]; [exists (cl i), d; repeat split; assumption|].
        destruct (Hpr y) as [_ [_ [_ [Py _]]]]; [exists (cl i), d; repeat split; assumption|].
        destruct (Pd m Hm) as [D1 D2].
        assert (Ci : itg2_cov H (mkid (cl i) (ck i)) = true) by (rewrite <- Hcy; apply Py; lia).
        assert (Chh : itg2_cov H (mkid (cl i) (itg_clock h)) = true) by (rewrite <- Hch; apply Ph; unfold itg_end; lia).
        pose proof (itg2_rank_le (cl i) (itg_clock h) (ck i) Chh Ci ltac:(lia)) as X.
        rewrite (itg2_block_id_eta h), Hch in D2. rewrite itg_id_eta in X.
        exists m. repeat split; try assumption. lia. }
      split; [split; [split; assumption|split; [exact Hpr|split]]|].
      + intros i Hi. destruct (Hkey i Hi) as [m [A [B [_ D]]]]. exists m. repeat split; assumption.
      + pose proof (itg2_integrate_some_nonempty _ _ _ _ _ _ Ei) as Hne.
        destruct (u_blocks (itg_p_update r)) as [|[c d] l] eqn:Eu; [contradiction|].
        destruct (Hdq c d ltac:(left; reflexivity)) as [h [rest [m [Ed [Hq [Hsh' _]]]]]].
        destruct (itg_deque_from_clients c d _ h Hq ltac:(rewrite Ed; left; reflexivity)) as [Hch Hlh].
        exists (mkid c (itg_clock h)). apply itg2_cov_spec. cbn [cl ck]. exists d. split; [left; reflexivity|].
        apply (itg_in_dcov d h); [rewrite Ed; left; reflexivity|exact Hsh'|unfold itg_end; lia].
      + intros i Hi. destruct (Hkey i Hi) as [m [A [B [C _]]]]. exists m. repeat split; assumption.
  Qed.

  (* ---- steps 1-3 of apply_update ---- *)
  Lemma itg2_step_main : forall s u s1 retry, itg2_I s -> itg2_deliverable H rho W u ->
    itg_step_with mrg s u = itg_ok (s1, retry) ->
    itg2_I s1 /\ (retry = false -> itg2_pend_blocked s1) /\
    forall i, itg_has (itg_blocks s) i = true \/ itg2_cov_pend (itg_pend s) i = true \/
              itg2_cov (u_blocks (itg_abs_update u)) i = true ->
      itg_has (itg_blocks s1) i = true \/ itg2_cov_pend (itg_pend s1) i = true.
  Proof.
    intros s u s1 retry [Hinv [Hgood HS]] Hdel Hstep.
    destruct (itg_step_inv _ _ _ _ _ Hinv Hstep) as [Hinv1 _].
    pose proof (itg_inv_ok _ _ Hinv1) as Hok1.
    unfold itg_step_with in Hstep.
    destruct (itg_trim (itg_blocks s) (u_blocks (itg_abs_update u))) as [bs| |] eqn:Et; cbn [itg_bind] in Hstep; try discriminate.
    destruct (itg_integrate (itg_blocks s) (itg_log s) bs) as [[[blocks log] rem]| |] eqn:Ei; cbn [itg_bind] in Hstep; try discriminate.
    destruct (itg2_run_conserves _ _ _ _ _ _ _ Hinv (proj1 Hdel) Et Ei) as [Hmono Hcons].
    destruct (itg2_integrate_main _ _ _ _ _ _ _ Hinv HS Hdel Et Ei) as [HS1 Hrem].
    unfold itg2_I, itg2_pend_good, itg2_pend_blocked in *.
    destruct (itg_pend s) as [p|] eqn:Ep.
    - injection Hstep as <- <-. cbn [itg_pend itg_blocks itg_log] in *.
      destruct rem as [r|].
      + destruct (Hrem r eq_refl) as [Gr Br]. destruct Hgood as [Wp [Pp [Hp [i0 Hi0]]]]. destruct Gr as [Wr [Pr [Hr _]]].
        destruct (Hmrg _ _ Wp Pp Wr Pr) as [Wm [Cm Pm]].
        cbn [itg_p_update itg_p_missing].
        split; [split; [exact Hinv1|split; [|exact HS1]]|split].
        * unfold itg2_good. cbn [itg_p_update itg_p_missing]. split; [exact Wm|]. split; [exact Pm|]. split.
          -- intros i Hi. cbn [itg_p_update itg_p_missing] in *. rewrite Cm in Hi. apply orb_prop in Hi.
             destruct Hi as [Hi|Hi].
             ++ destruct (Hp i Hi) as [m [A [B C]]]. exists m. repeat split; try assumption. apply itg2_entry_merge_old. exact C.
             ++ destruct (Hr i Hi) as [m [A [B C]]]. exists m. repeat split; try assumption. apply itg2_entry_merge_new. exact C.
          -- exists i0. rewrite Cm, Hi0. reflexivity.
        * intros Ht i Hi. cbn [itg_p_update] in Hi. rewrite Cm in Hi. apply orb_prop in Hi. destruct Hi as [Hi|Hi].
          -- apply (itg2_headed_blocked blocks p Hok1 Ht Hp i Hi).
          -- apply (Br i Hi).
        * intros i [Hi|[Hi|Hi]].
          -- left. apply Hmono. exact Hi.
          -- right. cbn [itg2_cov_pend] in *. cbn [itg_p_update]. rewrite Cm, Hi. reflexivity.
          -- destruct (Hcons i Hi) as [A|A]; [left; exact A|right]. cbn [itg2_cov_pend] in *. cbn [itg_p_update].
             rewrite Cm, A. apply orb_true_r.
      + split; [split; [exact Hinv1|split; [exact Hgood|exact HS1]]|split].
        * intros Ht. destruct Hgood as [Wp [Pp [Hp _]]]. apply (itg2_headed_blocked blocks p Hok1 Ht Hp).
        * intros i [Hi|[Hi|Hi]].
          -- left. apply Hmono. exact Hi.
          -- right. exact Hi.
          -- destruct (Hcons i Hi) as [A|A]; [left; exact A|discriminate].
    - injection Hstep as <- <-. cbn [itg_pend itg_blocks itg_log] in *.
      destruct rem as [r|].
      + destruct (Hrem r eq_refl) as [Gr Br].
        split; [split; [exact Hinv1|split; [exact Gr|exact HS1]]|split; [intros _; exact Br|]].
        intros i [Hi|[Hi|Hi]]; [left; apply Hmono; exact Hi|discriminate|apply Hcons; exact Hi].
      + split; [split; [exact Hinv1|split; [exact I|exact HS1]]|split; [intros _; exact I|]].
        intros i [Hi|[Hi|Hi]]; [left; apply Hmono; exact Hi|discriminate|apply Hcons; exact Hi].
  Qed.

  (* ---- step 5: the re-application of the stash ---- *)
  Lemma itg2_retry_main : forall fuel s s', itg2_I s ->
    itg_retry_with mrg fuel s = itg_ok s' ->
    itg2_I s' /\ itg2_pend_blocked s' /\
    forall i, itg_has (itg_blocks s) i = true \/ itg2_cov_pend (itg_pend s) i = true ->
      itg_has (itg_blocks s') i = true \/ itg2_cov_pend (itg_pend s') i = true.
  Proof.
    induction fuel as [|f IH]; intros s s' HI Hr; cbn [itg_retry_with] in Hr; [discriminate|].
    destruct (itg_pend s) as [p|] eqn:Ep.
    - set (s0 := itg_mkstore (itg_blocks s) None (itg_log s)) in *.
      destruct (itg_step_with mrg s0 (itg_p_update p)) as [[sa r1]| |] eqn:E1; cbn [itg_bind] in Hr; try discriminate.
      cbn [fst] in Hr. rewrite itg_step_empty in Hr. cbn [itg_bind fst snd] in Hr.
      assert (Hr1 : r1 = false) by (apply (itg_step_nopend_retry mrg s0 (itg_p_update p) sa r1 eq_refl E1)).
      destruct HI as [Hinv [Hgood HS]]. unfold itg2_pend_good in Hgood. rewrite Ep in Hgood.
      assert (HI0 : itg2_I s0) by (split; [exact Hinv|split; [exact I|exact HS]]).
      destruct (itg2_step_main s0 (itg_p_update p) sa r1 HI0 (itg2_good_deliverable p Hgood) E1) as [Ia [Ba Na]].
      assert (Nl : forall i, itg_has (itg_blocks s) i = true \/ itg2_cov_pend (Some p) i = true ->
                itg_has (itg_blocks sa) i = true \/ itg2_cov_pend (itg_pend sa) i = true).
      { intros i [Hi|Hi]; apply Na; [left; exact Hi|right; right].
        cbn [itg2_cov_pend] in Hi. rewrite (itg2_abs_cf_blocks _ (proj2 (proj1 Hgood))). exact Hi. }
      destruct (match itg_pend sa with Some p0 => itg_retry_test (itg_blocks sa) p0 | None => false end).
      + destruct (IH sa s' Ia Hr) as [A [C D]]. split; [exact A|]. split; [exact C|].
        intros i Hi. apply D. apply Nl. exact Hi.
      + injection Hr as <-. split; [exact Ia|]. split; [apply Ba; exact Hr1|exact Nl].
    - injection Hr as <-. split; [exact HI|]. split; [unfold itg2_pend_blocked; rewrite Ep; exact I|].
      intros i Hi. rewrite Ep. exact Hi.
  Qed.

  (* ---- apply_update ---- *)
  Lemma itg2_apply_main : forall s u s', itg2_I s -> itg2_deliverable H rho W u ->
    itg_apply_with mrg s u = itg_ok s' ->
    itg2_I s' /\ itg2_pend_blocked s' /\
    forall i, itg_has (itg_blocks s) i = true \/ itg2_cov_pend (itg_pend s) i = true \/
              itg2_cov (u_blocks (itg_abs_update u)) i = true ->
      itg_has (itg_blocks s') i = true \/ itg2_cov_pend (itg_pend s') i = true.
  Proof.
    intros s u s' HI Hdel Ha. unfold itg_apply_with in Ha.
    destruct (itg_step_with mrg s u) as [[s1 r1]| |] eqn:E1; cbn [itg_bind fst snd] in Ha; try discriminate.
    destruct (itg2_step_main s u s1 r1 HI Hdel E1) as [I1 [B1 N1]].
    destruct r1.
    - destruct (itg2_retry_main _ _ _ I1 Ha) as [A [C D]]. split; [exact A|]. split; [exact C|].
      intros i Hi. apply D. apply N1. exact Hi.
    - injection Ha as <-. split; [exact I1|]. split; [apply B1; reflexivity|exact N1].
  Qed.

  (* ---- a sequence of deliveries ---- *)
  Lemma itg2_run_main : forall us s s', itg2_I s -> itg2_pend_blocked s ->
    Forall (itg2_deliverable H rho W) us -> itg2_run_with mrg s us = itg_ok s' ->
    itg2_I s' /\ itg2_pend_blocked s' /\
    forall i, itg_has (itg_blocks s) i = true \/ itg2_cov_pend (itg_pend s) i = true \/ itg2_cov_us us i = true ->
      itg_has (itg_blocks s') i = true \/ itg2_cov_pend (itg_pend s') i = true.
  Proof.
    induction us as [|u r IH]; intros s s' HI Hbl Hall Hrun; cbn [itg2_run_with] in Hrun.
    - injection Hrun as <-. split; [exact HI|]. split; [exact Hbl|].
      intros i [Hi|[Hi|Hi]]; [left; exact Hi|right; exact Hi|discriminate].
    - inversion Hall as [|x l Hu Hr]; subst.
      destruct (itg_apply_with mrg s u) as [s1| |] eqn:E1; cbn [itg_bind] in Hrun; try discriminate.
      destruct (itg2_apply_main s u s1 HI Hu E1) as [I1 [B1 N1]].
      destruct (IH s1 s' I1 B1 Hr Hrun) as [A [C D]]. split; [exact A|]. split; [exact C|].
      intros i Hi. apply D. unfold itg2_cov_us in Hi. cbn [existsb] in Hi.
      destruct Hi as [Hi|[Hi|Hi]].
      + destruct (N1 i (or_introl Hi)) as [X|X]; [left; exact X|right; left; exact X].
      + destruct (N1 i (or_intror (or_introl Hi))) as [X|X]; [left; exact X|right; left; exact X].
      + apply orb_prop in Hi. destruct Hi as [Hi|Hi].
        * destruct (N1 i (or_intror (or_intror Hi))) as [X|X]; [left; exact X|right; left; exact X].
        * right; right. exact Hi.
  Qed.

  Lemma itg2_I_empty : itg2_I itg_empty.
  Proof.
    split; [exact itg_inv_empty|]. split; [exact I|]. split; [intros b []|]. split; [exact itg2_shape_empty|constructor].
  Qed.

  (* everything that is integrated is an id of the history *)
  Lemma itg2_has_cov : forall s i, itg2_I s -> itg_has (itg_blocks s) i = true -> itg2_cov H i = true.
  Proof.
    intros s i [Hinv [_ [Hlog _]]] Hi. rewrite (itg_inv_agree _ _ Hinv) in Hi. apply existsb_exists in Hi.
    destruct Hi as [b [Hb Hc]]. destruct (Hlog b Hb) as [_ [_ [_ [Pb _]]]].
    unfold itg_covers in Hc. assert (Hcl : itg_client b = cl i) by lia.
    pose proof (Pb (ck i) ltac:(lia)) as X. rewrite Hcl, itg_id_eta in X. exact X.
  Qed.

  (* ---- the end: everything of the history is in the store or in the stash ---- *)
  Lemma itg2_final : forall s, itg2_pend_good s -> itg2_pend_blocked s ->
    (forall i, itg2_cov H i = true -> itg_has (itg_blocks s) i = true \/ itg2_cov_pend (itg_pend s) i = true) ->
    (forall i, itg2_cov H i = true -> itg_has (itg_blocks s) i = true) /\ itg_pend s = None.
  Proof.
    intros s Hgood Hbl Hnl.
    assert (Hall : forall n i, (rho i < n)%nat -> itg2_cov H i = true -> itg_has (itg_blocks s) i = true).
    { induction n as [|n IH]; intros i Hn Hi; [lia|].
      destruct (Hnl i Hi) as [A|A]; [exact A|].
      unfold itg2_pend_good, itg2_pend_blocked in *. destruct (itg_pend s) as [p|] eqn:Ep; [|discriminate].
      cbn [itg2_cov_pend] in A. destruct (Hbl i A) as [j [J1 [J2 J3]]].
      rewrite (IH j ltac:(lia) J1) in J3. discriminate. }
    split; [intros i Hi; apply (Hall (S (rho i)) i); [lia|exact Hi]|].
    unfold itg2_pend_good, itg2_pend_blocked in *. destruct (itg_pend s) as [p|] eqn:Ep; [exfalso|reflexivity].
    destruct Hgood as [Wp [Pp [Hp [i0 Hi0]]]]. destruct (Hbl i0 Hi0) as [j [J1 [J2 J3]]].
    rewrite (Hall (S (rho j)) j ltac:(lia) J1) in J3. discriminate.
  Qed.

  (* item 3, one apply_update: nothing that is in the store, in the stash or in the incoming update is dropped *)
  Theorem itg2_no_loss_step_sec : forall s u s', itg2_I s -> itg2_deliverable H rho W u ->
    itg_apply_with mrg s u = itg_ok s' ->
    itg2_I s' /\
    forall i, itg_has (itg_blocks s) i = true \/ itg2_cov_pend (itg_pend s) i = true \/
              itg2_cov (u_blocks (itg_abs_update u)) i = true ->
      itg_has (itg_blocks s') i = true \/ itg2_cov_pend (itg_pend s') i = true.
  Proof. intros s u s' A C D. destruct (itg2_apply_main s u s' A C D) as [X [_ Y]]. split; assumption. Qed.

  (* item 3, any sequence of deliveries from the empty store *)
  Theorem itg2_no_loss_sec : forall us s, Forall (itg2_deliverable H rho W) us ->
    itg2_run_with mrg itg_empty us = itg_ok s ->
    (forall i, itg2_cov_us us i = true -> itg_has (itg_blocks s) i = true \/ itg2_cov_pend (itg_pend s) i = true) /\
    (forall i, itg_has (itg_blocks s) i = true -> itg2_cov H i = true).
  Proof.
    intros us s Hall Hrun.
    destruct (itg2_run_main us itg_empty s itg2_I_empty I Hall Hrun) as [HI [_ D]]. split.
    - intros i Hi. apply D. right; right. exact Hi.
    - intros i Hi. apply (itg2_has_cov s i HI Hi).
  Qed.

  (* item 4: when apply_update returns, every id that is still stashed is ranked above an id of the history that
     is not integrated *)
  Theorem itg2_progress_step_sec : forall s u s', itg2_I s -> itg2_deliverable H rho W u ->
    itg_apply_with mrg s u = itg_ok s' ->
    itg2_I s' /\ itg2_pend_blocked s'.
  Proof. intros s u s' A C D. destruct (itg2_apply_main s u s' A C D) as [X [Y _]]. split; assumption. Qed.

  (* item 1 *)
  Theorem itg2_eventually_empty_sec : forall us s, Forall (itg2_deliverable H rho W) us ->
    (forall i, itg2_cov H i = true -> itg2_cov_us us i = true) ->
    itg2_run_with mrg itg_empty us = itg_ok s ->
    itg_obs_has_pending s = false /\ itg_obs_missing s = [] /\ itg_obs_pending s = [] /\
    itg_obs_holes s = [] /\
    (forall i, itg_has (itg_blocks s) i = itg2_cov H i) /\
    (forall e, In e (itg_obs_ranges s) ->
       exists n, snd e = [(0, n)] /\ 0 < n /\ forall j, itg2_cov H (mkid (fst e) j) = (j <? n)).
  Proof.
    intros us s Hall Hcov Hrun.
    destruct (itg2_run_main us itg_empty s itg2_I_empty I Hall Hrun) as [HI [B D]].
    pose proof HI as [Hinv [G [_ [Hsh Hnd]]]].
    destruct (itg2_final s G B) as [F1 F2].
    { intros i Hi. apply D. right; right. apply Hcov. exact Hi. }
    assert (Heq : forall i, itg_has (itg_blocks s) i = itg2_cov H i).
    { intros i. destruct (itg2_cov H i) eqn:Ec; [apply F1; exact Ec|].
      destruct (itg_has (itg_blocks s) i) eqn:Eh; [|reflexivity]. rewrite (itg2_has_cov s i HI Eh) in Ec. discriminate. }
    assert (Hdown : forall c j1 j2, itg_has (itg_blocks s) (mkid c j2) = true -> j1 < j2 ->
              itg_has (itg_blocks s) (mkid c j1) = true).
    { intros c j1 j2 Hh Hlt. rewrite Heq in *. apply (itg2_h_prefix _ _ HH c j1 j2 Hh Hlt). }
    destruct (itg2_shape_no_holes (itg_blocks s) (itg_pend s) (itg_log s) (itg_inv_ok _ _ Hinv) Hsh Hnd Hdown) as [N1 N2].
    assert (Es : itg_mkstore (itg_blocks s) (itg_pend s) (itg_log s) = s) by (destruct s; reflexivity).
    rewrite Es in N1, N2.
    split; [unfold itg_obs_has_pending; rewrite F2; reflexivity|].
    split; [unfold itg_obs_missing; rewrite F2; reflexivity|].
    split; [unfold itg_obs_pending; rewrite F2; reflexivity|].
    split; [exact N1|]. split; [exact Heq|].
    intros e He. destruct (N2 e He) as [n [A [A2 A3]]]. exists n. split; [exact A|]. split; [exact A2|].
    intros j. rewrite <- Heq. apply A3.
  Qed.

  (* ---- the deliveries never leave the domain of the model ---- *)
  Lemma itg2_forall2_in_r : forall (A B : Type) (R : A -> B -> Prop) l l' y, Forall2 R l l' -> In y l' ->
    exists x, In x l /\ R x y.
  Proof.
    intros A B R l l' y F. induction F as [|a b l l' Hr _ IH]; intros Hy; [destruct Hy|].
    destruct Hy as [<-|Hy]; [exists a; split; [left; reflexivity|exact Hr]|].
    destruct (IH Hy) as [x [Hx Hr']]. exists x. split; [right; exact Hx|exact Hr'].
  Qed.

  Lemma itg2_step_total_sec : forall s u, itg2_I s -> itg2_deliverable H rho W u ->
    exists sr, itg_step_with mrg s u = itg_ok sr.
  Proof.
    intros s u [Hinv [_ [_ [Hsh _]]]] [Hwf _].
    pose proof (itg_inv_ok _ _ Hinv) as Hok.
    destruct (itg_trim_correct _ _ Hok Hwf (itg_abs_update_cf u)) as [bs [Et [F [Hwf' _]]]].
    assert (Htr : forall c d j, In (c, d) bs -> itg_dcov d j = true -> itg_has (itg_blocks s) (mkid c j) = false).
    { intros c d j Hd Hj. destruct (itg2_forall2_in_r _ _ _ _ _ _ F Hd) as [[c0 d0] [_ [R1 [_ [_ R4]]]]].
      cbn [fst snd] in *. subst c0. rewrite R4 in Hj. apply andb_prop in Hj. destruct Hj as [_ Hn].
      apply negb_true_iff in Hn. exact Hn. }
    destruct (itg2_integrate_total (itg_blocks s) (itg_log s) bs Hok Hsh Hwf' Htr) as [[[bl lg] rem] Ei].
    unfold itg_step_with. rewrite Et. cbn [itg_bind]. rewrite Ei. cbn [itg_bind].
    destruct (itg_pend s); eexists; reflexivity.
  Qed.

  Lemma itg2_retry_total_sec : forall fuel s, itg2_I s ->
    (exists s', itg_retry_with mrg fuel s = itg_ok s') \/ itg_retry_with mrg fuel s = itg_nofuel.
  Proof.
    induction fuel as [|f IH]; intros s HI; cbn [itg_retry_with]; [right; reflexivity|].
    destruct (itg_pend s) as [p|] eqn:Ep; [|left; eexists; reflexivity].
    set (s0 := itg_mkstore (itg_blocks s) None (itg_log s)).
    destruct HI as [Hinv [Hgood HS]]. unfold itg2_pend_good in Hgood. rewrite Ep in Hgood.
    assert (HI0 : itg2_I s0) by (split; [exact Hinv|split; [exact I|exact HS]]).
    destruct (itg2_step_total_sec s0 (itg_p_update p) HI0 (itg2_good_deliverable p Hgood)) as [[sa r1] E1].
    rewrite E1. cbn [itg_bind fst]. rewrite itg_step_empty. cbn [itg_bind fst snd].
    destruct (itg2_step_main s0 (itg_p_update p) sa r1 HI0 (itg2_good_deliverable p Hgood) E1) as [Ia _].
    destruct (match itg_pend sa with Some p0 => itg_retry_test (itg_blocks sa) p0 | None => false end).
    - apply IH. exact Ia.
    - left. eexists. reflexivity.
  Qed.

  Lemma itg2_apply_total_sec : forall s u, itg2_I s -> itg2_deliverable H rho W u ->
    exists s', itg_apply_with mrg s u = itg_ok s'.
  Proof.
    intros s u HI Hdel.
    pose proof (itg_apply_with_terminates mrg s u (itg_inv_ok _ _ (proj1 HI))) as Hnf.
    destruct (itg2_step_total_sec s u HI Hdel) as [[s1 r1] E1].
    destruct (itg2_step_main s u s1 r1 HI Hdel E1) as [I1 _].
    unfold itg_apply_with in *. rewrite E1 in *. cbn [itg_bind fst snd] in *.
    destruct r1; [|eexists; reflexivity].
    destruct (itg2_retry_total_sec (itg_retry_fuel s1) s1 I1) as [[s' E]|E]; [exists s'; exact E|contradiction].
  Qed.

  Lemma itg2_run_total_sec : forall us s, itg2_I s -> Forall (itg2_deliverable H rho W) us ->
    exists s', itg2_run_with mrg s us = itg_ok s'.
  Proof.
    induction us as [|u r IH]; intros s HI Hall; cbn [itg2_run_with]; [eexists; reflexivity|].
    inversion Hall as [|x l Hu Hr]; subst.
    destruct (itg2_apply_total_sec s u HI Hu) as [s1 E1]. rewrite E1. cbn [itg_bind].
    destruct (itg2_apply_main s u s1 HI Hu E1) as [I1 _]. apply (IH s1 I1 Hr).
  Qed.

  (* item 1 with totality: the deliveries stay inside the domain of the model (no panic of BlockSet::exclude /
     BlockStore::push, no fuel exhaustion) and end as wanted *)
  Theorem itg2_eventually_empty_total_sec : forall us, Forall (itg2_deliverable H rho W) us ->
    (forall i, itg2_cov H i = true -> itg2_cov_us us i = true) ->
    exists s, itg2_run_with mrg itg_empty us = itg_ok s /\
      itg_obs_has_pending s = false /\ itg_obs_missing s = [] /\ itg_obs_pending s = [] /\
      itg_obs_holes s = [] /\
      (forall i, itg_has (itg_blocks s) i = itg2_cov H i) /\
      (forall e, In e (itg_obs_ranges s) ->
         exists n, snd e = [(0, n)] /\ 0 < n /\ forall j, itg2_cov H (mkid (fst e) j) = (j <? n)).
  Proof.
    intros us Hall Hcov. destruct (itg2_run_total_sec us itg_empty itg2_I_empty Hall) as [s Hs].
    exists s. split; [exact Hs|]. apply (itg2_eventually_empty_sec us s Hall Hcov Hs).
  Qed.
End Itg2Main.

(* ================================================================================================ *)
(* 5. the boolean forms of the hypotheses are sound                                                 *)
(* ================================================================================================ *)
Lemma itg2_range_in : forall a n j, In j (itg2_range a n) <-> a <= j < a + n.
Proof.
  intros a n j. unfold itg2_range. rewrite in_map_iff. split.
  - intros [k [<- Hk]]. apply in_seq in Hk. lia.
  - intros Hj. exists (N.to_nat (j - a)). split; [lia|]. apply in_seq. lia.
Qed.

Lemma itg2_okb_b_ok : forall H rho W y, itg2_okb_b H rho W y = true -> itg2_okb H rho W y.
Proof.
  intros H rho W y Hb. unfold itg2_okb_b in Hb. repeat (apply andb_prop in Hb; destruct Hb as [Hb ?]).
  unfold itg2_okb. split; [exact Hb|]. split; [lia|]. split; [|split].
  - intros x Hx. rewrite forallb_forall in H2. specialize (H2 x Hx). apply existsb_exists in H2.
    destruct H2 as [w [Hw E]]. apply mrg_xop_eqb_eq in E. subst w. exact Hw.
  - intros j Hj. rewrite forallb_forall in H1. apply H1. apply itg2_range_in. unfold itg_end in Hj. exact Hj.
  - intros dep Hd. rewrite forallb_forall in H0. specialize (H0 dep Hd). apply andb_prop in H0. destruct H0 as [A B].
    split; [exact A|]. apply Nat.ltb_lt. exact B.
Qed.

Lemma itg2_deliverable_b_ok : forall H rho W u, itg2_deliverable_b H rho W u = true -> itg2_deliverable H rho W u.
Proof.
  intros H rho W u Hb. unfold itg2_deliverable_b in Hb. apply andb_prop in Hb. destruct Hb as [Hwf Hb].
  split; [exact Hwf|]. intros y [c [d [He [Hy Hs]]]]. rewrite forallb_forall in Hb. specialize (Hb _ He). cbn [snd] in Hb.
  rewrite forallb_forall in Hb. specialize (Hb y Hy). rewrite Hs in Hb. cbn [orb] in Hb. apply itg2_okb_b_ok. exact Hb.
Qed.

Lemma itg2_cov_ids : forall H i, itg2_cov H i = true -> In i (itg2_ids H).
Proof.
  intros H i Hi. destruct (itg2_cov_in _ _ Hi) as [d [y [He [Hy [Hs Hr]]]]].
  unfold itg2_ids. apply in_flat_map. exists (cl i, d). split; [exact He|]. cbn [fst snd].
  apply in_flat_map. exists y. split; [exact Hy|]. rewrite Hs. apply in_map_iff. exists (ck i).
  split; [apply itg_id_eta|]. apply itg2_range_in. unfold itg_end in Hr. exact Hr.
Qed.

Lemma itg2_history_b_ok : forall H rho, itg2_history_b H rho = true -> itg2_history H rho.
Proof.
  intros H rho Hb. unfold itg2_history_b in Hb. apply andb_prop in Hb. destruct Hb as [Ho Hp]. split.
  - intros c j1 j2 A B Hlt. rewrite forallb_forall in Ho. specialize (Ho _ (itg2_cov_ids _ _ A)).
    rewrite forallb_forall in Ho. specialize (Ho _ (itg2_cov_ids _ _ B)). cbn [cl ck] in Ho.
    rewrite N.eqb_refl in Ho. destruct (j1 <? j2) eqn:E; [|lia]. cbn [andb negb orb] in Ho. apply Nat.ltb_lt. exact Ho.
  - intros c j1 j2 A Hlt. rewrite forallb_forall in Hp. specialize (Hp _ (itg2_cov_ids _ _ A)). cbn [cl ck] in Hp.
    rewrite forallb_forall in Hp. apply Hp. apply itg2_range_in. lia.
Qed.

Lemma itg2_nodup_ids_b_ok : forall W, itg2_nodup_ids_b W = true -> NoDup (map xid W).
Proof.
  intros W. unfold itg2_nodup_ids_b. induction (map xid W) as [|x r IH]; intros Hb; [constructor|].
  apply andb_prop in Hb. destruct Hb as [Hx Hr]. constructor; [|apply IH; exact Hr].
  intros Hin. apply negb_true_iff in Hx.
  assert (Ht : existsb (id_eqb x) r = true).
  { apply existsb_exists. exists x. split; [exact Hin|]. unfold id_eqb. rewrite !N.eqb_refl. reflexivity. }
  rewrite Ht in Hx. discriminate.
Qed.

(* ================================================================================================ *)
(* 4. the theorems for the transcribed apply_update (merge function = Update::merge_updates)        *)
(* ================================================================================================ *)
(* W lists the unit operations of the history (Crdt/Doc.v), one per id: [NoDup (map xid W)].  It is what makes two
   deliveries of the same id agree, which Update::merge_updates needs (itg2_mrg_real: on two stashes made of
   blocks of the history the transcribed merge_updates returns a well-formed, content-free update that covers
   the union and is made of blocks of the history).  The *_sec theorems above hold for any merge function with
   that specification. *)

(* 1. Once every id of a causally closed history has been delivered - in any order, cut and merged in any way, with
   any duplicates - nothing is pending, the store has no hole, and the integrated ids are exactly the ids of the
   history: one range [0, n) per client. *)
Theorem itg2_eventually_empty : forall H rho W us s,
  itg2_history H rho -> NoDup (map xid W) ->
  Forall (itg2_deliverable H rho W) us ->
  (forall i, itg2_cov H i = true -> itg2_cov_us us i = true) ->
  itg2_run itg_empty us = itg_ok s ->
  itg_obs_has_pending s = false /\ itg_obs_missing s = [] /\ itg_obs_pending s = [] /\
  itg_obs_holes s = [] /\
  (forall i, itg_has (itg_blocks s) i = itg2_cov H i) /\
  (forall e, In e (itg_obs_ranges s) ->
     exists n, snd e = [(0, n)] /\ 0 < n /\ forall j, itg2_cov H (mkid (fst e) j) = (j <? n)).
Proof. intros H rho W us s HH Hm. apply (itg2_eventually_empty_sec H rho W itg_mrg HH (itg2_mrg_real H rho W HH Hm)). Qed.

(* 3. Nothing is dropped: at every moment every delivered id is integrated or in the stash (and nothing but ids of
   the history is ever integrated). *)
Theorem itg2_no_loss : forall H rho W us s,
  itg2_history H rho -> NoDup (map xid W) ->
  Forall (itg2_deliverable H rho W) us -> itg2_run itg_empty us = itg_ok s ->
  (forall i, itg2_cov_us us i = true -> itg_has (itg_blocks s) i = true \/ itg2_cov_pend (itg_pend s) i = true) /\
  (forall i, itg_has (itg_blocks s) i = true -> itg2_cov H i = true).
Proof. intros H rho W us s HH Hm. apply (itg2_no_loss_sec H rho W itg_mrg HH (itg2_mrg_real H rho W HH Hm)). Qed.

(* the states reached by deliveries satisfy the invariant *)
Theorem itg2_reach_I : forall H rho W us s,
  itg2_history H rho -> NoDup (map xid W) ->
  Forall (itg2_deliverable H rho W) us -> itg2_run itg_empty us = itg_ok s ->
  itg2_I H rho W s /\ itg2_pend_blocked H rho s.
Proof.
  intros H rho W us s HH Hm Hall Hrun.
  destruct (itg2_run_main H rho W itg_mrg HH (itg2_mrg_real H rho W HH Hm) us itg_empty s (itg2_I_empty H rho W) I Hall Hrun) as [A [B _]].
  split; assumption.
Qed.

(* 3, one step *)
Theorem itg2_no_loss_step : forall H rho W s u s',
  itg2_history H rho -> NoDup (map xid W) ->
  itg2_I H rho W s -> itg2_deliverable H rho W u -> itg_apply_update_res s u = itg_ok s' ->
  itg2_I H rho W s' /\
  forall i, itg_has (itg_blocks s) i = true \/ itg2_cov_pend (itg_pend s) i = true \/
            itg2_cov (u_blocks (itg_abs_update u)) i = true ->
    itg_has (itg_blocks s') i = true \/ itg2_cov_pend (itg_pend s') i = true.
Proof. intros H rho W s u s' HH Hm. apply (itg2_no_loss_step_sec H rho W itg_mrg HH (itg2_mrg_real H rho W HH Hm)). Qed.

(* 4. THE ONE-STEP LEMMA.  After ANY apply_update (of any deliverable update: a new one, a duplicate, the empty
   update), every id i that is still in the stash is ranked above an id j of the history that is not integrated.
   Read backwards: an id whose causal past (everything ranked below it) is integrated is never in the stash when
   apply_update returns - it has been integrated, by this call at the latest.  The retry test of apply_update is
   run by every call (also for an update without blocks), and by itg2_headed_blocked its failure means exactly
   that every stashed id is still held back. *)
Theorem itg2_progress_step : forall H rho W s u s',
  itg2_history H rho -> NoDup (map xid W) ->
  itg2_I H rho W s -> itg2_deliverable H rho W u -> itg_apply_update_res s u = itg_ok s' ->
  itg2_I H rho W s' /\
  forall i, itg2_cov_pend (itg_pend s') i = true ->
    exists j, itg2_cov H j = true /\ (rho j < rho i)%nat /\ itg_has (itg_blocks s') j = false.
Proof.
  intros H rho W s u s' HH Hm HI Hd Ha.
  destruct (itg2_progress_step_sec H rho W itg_mrg HH (itg2_mrg_real H rho W HH Hm) s u s' HI Hd Ha) as [A B]. split; [exact A|].
  intros i Hi. unfold itg2_pend_blocked in B. destruct (itg_pend s') as [p|]; [|discriminate]. apply (B i Hi).
Qed.

(* 4, for the empty update: `apply_update(Update::new())` is enough to flush whatever can be integrated *)
Corollary itg2_progress_empty : forall H rho W s s',
  itg2_history H rho -> NoDup (map xid W) ->
  itg2_I H rho W s -> itg_apply_update_res s itg_empty_update = itg_ok s' ->
  forall i, itg2_cov_pend (itg_pend s') i = true ->
    exists j, itg2_cov H j = true /\ (rho j < rho i)%nat /\ itg_has (itg_blocks s') j = false.
Proof.
  intros H rho W s s' HH Hm HI Ha.
  apply (itg2_progress_step H rho W s itg_empty_update s' HH Hm HI (itg2_empty_deliverable H rho W) Ha).
Qed.

(* the classical formulation of "made of pieces of a causally closed list of blocks" gives deliverable updates *)
Theorem itg2_pieces_deliverable : forall H rho W u,
  itg2_history H rho -> itg2_closed H rho ->
  itg_update_wf (u_blocks (itg_abs_update u)) = true ->
  (forall y, itg2_in (u_blocks (itg_abs_update u)) y ->
     incl (units_of_block y) W /\ exists b, itg2_in H b /\ itg2_piece y b) ->
  itg2_deliverable H rho W u.
Proof.
  intros H rho W u HH HC Hwf Hp. split; [exact Hwf|]. intros y Hy. destruct (Hp y Hy) as [HW [b [Hb P]]].
  apply (itg2_piece_okb H rho W y b HH HC Hb P HW).
Qed.

(* TOTALITY: deliveries of deliverable updates never leave the domain of the model, and 1. holds at the end *)
Theorem itg2_apply_total : forall H rho W s u, itg2_history H rho -> NoDup (map xid W) ->
  itg2_I H rho W s -> itg2_deliverable H rho W u -> exists s', itg_apply_update_res s u = itg_ok s'.
Proof.
  intros H rho W s u HH Hm. apply (itg2_apply_total_sec H rho W itg_mrg HH (itg2_mrg_real H rho W HH Hm)).
Qed.

Theorem itg2_eventually_empty_total : forall H rho W us,
  itg2_history H rho -> NoDup (map xid W) ->
  Forall (itg2_deliverable H rho W) us ->
  (forall i, itg2_cov H i = true -> itg2_cov_us us i = true) ->
  exists s, itg2_run itg_empty us = itg_ok s /\
    itg_obs_has_pending s = false /\ itg_obs_missing s = [] /\ itg_obs_pending s = [] /\
    itg_obs_holes s = [] /\
    (forall i, itg_has (itg_blocks s) i = itg2_cov H i) /\
    (forall e, In e (itg_obs_ranges s) ->
       exists n, snd e = [(0, n)] /\ 0 < n /\ forall j, itg2_cov H (mkid (fst e) j) = (j <? n)).
Proof.
  intros H rho W us HH Hm. apply (itg2_eventually_empty_total_sec H rho W itg_mrg HH (itg2_mrg_real H rho W HH Hm)).
Qed.

(* ================================================================================================ *)
(* Summary                                                                                          *)
(* ================================================================================================ *)
(* For a history seen as an id set with a ranking (itg2_history), unit operations W with one unit per id, and
   deliveries that are well-formed updates made of blocks of the history (itg2_deliverable: every dependency id of a
   block is an id of the history ranked below the block) - in any order, cut and merged in any way, duplicated:
     itg2_eventually_empty_total   the deliveries stay in the domain of the model; once every id has been delivered
                                   nothing is pending, no hole, integrated ids = ids of the history, one range per client
     itg2_eventually_empty         the same for a run that is known to have returned itg_ok
     itg2_no_loss, itg2_no_loss_step   every delivered id is in the store or in the stash, at every moment
     itg2_progress_step, itg2_progress_empty   whenever apply_update returns (also for the empty update) every id still in
                                   the stash is ranked above an id of the history that is not integrated
     itg2_apply_total              apply_update of a deliverable update on a reachable state returns itg_ok
   Ingredients: itg2_run_heads (BlockPicker: the head of every stashed client list has a recorded dependency that
   is not integrated when the run ends), itg2_headed_blocked (the retry test), itg2_mrg_real and itg2_mrg_update_wf
   (merge_updates on two stashes), itg2_shape_integrate / itg2_shape_no_holes / itg2_nodup_integrate (store shape),
   itg2_integrate_total (BlockStore::push never leaves its domain on a trimmed well-formed update), itg2_final (rank
   induction).  The *_sec theorems hold for any merge function with the specification itg2_mrg_ok.
   Refuted (StashCases.v): itg2_progress_naive_refuted - "a stashed block whose dependencies and predecessors are
   integrated is integrated by the next apply_update" is false: the retry looks at the minimum clock recorded per
   client (finding F1, replayed against the Rust code: yrs/tests/itg2_stash.rs). *)

Print Assumptions itg2_eventually_empty.
Print Assumptions itg2_eventually_empty_total.
Print Assumptions itg2_apply_total.
Print Assumptions itg2_integrate_total.
Print Assumptions itg2_no_loss.
Print Assumptions itg2_no_loss_step.
Print Assumptions itg2_progress_step.
Print Assumptions itg2_progress_empty.
Print Assumptions itg2_reach_I.
Print Assumptions itg2_pieces_deliverable.
Print Assumptions itg2_mrg_real.
Print Assumptions itg2_run_heads.
Print Assumptions itg2_shape_integrate.
Print Assumptions itg2_shape_no_holes.
Print Assumptions itg2_headed_blocked.
