(* Theorems about Branch::index_to_ptr / insert_at / remove_at (XML child lists), Array::insert against XmlFragment::insert,
   preservation of bit_ok and programs.  M1 index_to_ptr; M2 insert_at; M3 remove_at (names bit_rat_..); M4 the difference
   theorem; M5 preservation of bit_ok by Array::insert and programs (names bit_okp_..). *)
From Coq Require Import List NArith Bool Lia PeanoNat.
From YV Require Import Codec.UpdateV1 Crdt.Doc Crdt.YataProofs Crdt.Blocks Crdt.BlocksProofs Crdt.YataBlocks Crdt.YataBlocksProofs
  Crdt.Local Crdt.LocalProofs Crdt.BlockIter Crdt.BlockIterProofs.
From YV.Crdt Require Import BlockIterMore.
Import ListNotations.
Open Scope N_scope.


(* ================================================================================================ *)
(* M1. Branch::index_to_ptr                                                                          *)
(* ================================================================================================ *)
Lemma bit_ncd_app : forall a b, bit_noncountable_deleted (a ++ b) = bit_noncountable_deleted a && bit_noncountable_deleted b.
Proof. intros. unfold bit_noncountable_deleted. apply forallb_app. Qed.

Lemma bit_index_to_ptr_spec : forall suf pre i, bit_inv (pre ++ suf) -> 0 < i -> i <= bit_vlen suf ->
  exists L R, bit_index_to_ptr pre suf i = yib_ok (bit_last_ptr L, yib_head_ptr R, L ++ R) /\
    bit_inv (L ++ R) /\ yib_expand (L ++ R) = yib_expand (pre ++ suf) /\ bit_vlen (L ++ R) = bit_vlen (pre ++ suf) /\
    (exists L' lb, L = pre ++ L' ++ [lb] /\ bit_live lb = true /\ bit_vlen (L' ++ [lb]) = i) /\
    (length (L ++ R) <= length (pre ++ suf) + 1)%nat /\
    (bit_noncountable_deleted (pre ++ suf) = true -> bit_noncountable_deleted (L ++ R) = true).
Proof.
  induction suf as [|b r IH]; intros pre i Hinv H0 Hi.
  - cbn [bit_vlen] in Hi. lia.
  - assert (Eassoc : pre ++ b :: r = (pre ++ [b]) ++ r) by (rewrite <- app_assoc; reflexivity).
    cbn [bit_index_to_ptr]. change (negb (yib_del b) && bit_countable b) with (bit_live b).
    cbn [bit_vlen] in Hi. destruct (bit_live b) eqn:Lb.
    + destruct (i =? bit_len b) eqn:E1.
      * apply N.eqb_eq in E1. exists (pre ++ [b]), r. rewrite bit_last_ptr_snoc, <- Eassoc.
        split; [reflexivity|]. split; [exact Hinv|]. split; [reflexivity|]. split; [reflexivity|].
        split; [exists [], b; cbn [app bit_vlen]; rewrite Lb; repeat split; lia|]. split; [lia|auto].
      * apply N.eqb_neq in E1. destruct (i <? bit_len b) eqn:E2.
        -- apply N.ltb_lt in E2. replace (i =? 0) with false by (symmetry; apply N.eqb_neq; lia).
           destruct (bit_clean_start_at pre b r i Hinv H0 E2) as (l & rr & Es & _ & Hinv' & Hex & Hvl).
           assert (Hokb : yib_blk_ok b = true).
           { apply (bit_inv_blk _ b Hinv). apply in_or_app. right. left. reflexivity. }
           destruct (bit_split_halves b i l rr Hokb Es) as (Hidl & Hlenl & Hidr & Hlenr & _ & _ & Hcl & Hcr & _).
           destruct (bit_ids_distinct pre b r (proj1 Hinv)) as [Hd _].
           rewrite yib_split_at_app_r by exact Hd. cbn [yib_split_at]. rewrite id_eqb_refl, Es. cbn [yib_bind].
           set (bl := yib_mk l (yib_del b)) in *. set (brr := yib_mk rr (yib_del b)) in *.
           assert (Ea2 : pre ++ bl :: brr :: r = (pre ++ [bl]) ++ brr :: r) by (rewrite <- app_assoc; reflexivity).
           exists (pre ++ [bl]), (brr :: r). rewrite bit_last_ptr_snoc, <- Ea2. cbn [yib_head_ptr]. rewrite Hidl, Hidr.
           split; [reflexivity|]. split; [exact Hinv'|]. split; [exact Hex|]. split; [exact Hvl|].
           split.
           ++ exists [], bl. cbn [app bit_vlen]. unfold bit_live, bit_len in *. cbn [yib_del bl]. fold bl.
              rewrite Hcl, Hlenl, Lb. repeat split; lia.
           ++ split; [rewrite !app_length; cbn [length]; lia|].
              intros Hn. rewrite bit_ncd_app in *. apply andb_prop in Hn. destruct Hn as [N1 N2].
              unfold bit_noncountable_deleted in *. cbn [forallb] in *. apply andb_prop in N2. destruct N2 as [N2 N3].
              rewrite N1, N3. cbn [yib_del bl brr]. fold bl. fold brr. rewrite Hcl, Hcr, N2. reflexivity.
        -- apply N.ltb_ge in E2. rewrite Eassoc in Hinv.
           destruct (IH (pre ++ [b]) (i - bit_len b) Hinv) as (L & R & Hrun & Hinv' & Hex & Hvl & (L' & lb & EL & Ll & Vl) & Hlen & Hn); [lia|lia|].
           exists L, R. rewrite Eassoc. split; [exact Hrun|]. split; [exact Hinv'|]. split; [exact Hex|]. split; [exact Hvl|].
           split; [|split; [exact Hlen|exact Hn]].
           exists (b :: L'), lb. split; [rewrite EL, <- app_assoc; reflexivity|]. split; [exact Ll|].
           cbn [app bit_vlen]. rewrite Lb. lia.
    + rewrite Eassoc in Hinv.
      destruct (IH (pre ++ [b]) i Hinv) as (L & R & Hrun & Hinv' & Hex & Hvl & (L' & lb & EL & Ll & Vl) & Hlen & Hn); [lia|lia|].
      exists L, R. rewrite Eassoc. split; [exact Hrun|]. split; [exact Hinv'|]. split; [exact Hex|]. split; [exact Hvl|].
      split; [|split; [exact Hlen|exact Hn]].
      exists (b :: L'), lb. split; [rewrite EL, <- app_assoc; reflexivity|]. split; [exact Ll|].
      cbn [app bit_vlen]. rewrite Lb. lia.
Qed.

Lemma bit_index_to_ptr_beyond : forall suf pre i, bit_vlen suf < i -> bit_index_to_ptr pre suf i = yib_ok (None, None, pre ++ suf).
Proof.
  induction suf as [|b r IH]; intros pre i Hi; cbn [bit_index_to_ptr].
  - rewrite app_nil_r. reflexivity.
  - change (negb (yib_del b) && bit_countable b) with (bit_live b). cbn [bit_vlen] in Hi.
    assert (Eassoc : pre ++ b :: r = (pre ++ [b]) ++ r) by (rewrite <- app_assoc; reflexivity).
    destruct (bit_live b).
    + replace (i =? bit_len b) with false by (symmetry; apply N.eqb_neq; lia).
      replace (i <? bit_len b) with false by (symmetry; apply N.ltb_ge; lia).
      rewrite IH by lia. rewrite Eassoc. reflexivity.
    + rewrite IH by lia. rewrite Eassoc. reflexivity.
Qed.


(* ================================================================================================ *)
(* M2. Branch::insert_at (XmlFragment::insert)                                                       *)
(* ================================================================================================ *)
Theorem bit_insert_at_shape : forall br i newid par c,
  bit_ok br = true -> i <= bit_clen br -> bit_content_ok c = true -> content_len c <> 0 ->
  exists L R,
    bit_insert_at br i newid par c
    = yib_ok (bit_mkbranch (L ++ bit_new_blk L R newid par c :: R) (bit_clen br + content_len c)) /\
    bit_inv (L ++ R) /\ yib_expand (L ++ R) = yib_expand (bit_seq br) /\ bit_vlen L = i /\
    (i = 0 -> L = []) /\ (forall L' lb, L = L' ++ [lb] -> bit_live lb = true) /\
    (length (L ++ R) <= length (bit_seq br) + 1)%nat.
Proof.
  intros [s clen] i newid par c Hok Hi Hcok Hc. destruct (bit_ok_inv _ Hok) as [Hinv Hclen]. cbn [bit_seq bit_clen] in *.
  unfold bit_insert_at. cbn [bit_seq bit_clen].
  replace (clen <? i) with false by (symmetry; apply N.ltb_ge; exact Hi).
  assert (Hfin : forall L R, bit_inv (L ++ R) ->
    yib_bind (bit_new_item (L ++ R) newid par c (bit_last_ptr L) (yib_head_ptr R)) (fun x =>
      bit_integrate (bit_mkbranch (L ++ R) clen) x (bit_last_ptr L) (yib_head_ptr R))
    = yib_ok (bit_mkbranch (L ++ bit_new_blk L R newid par c :: R) (clen + content_len c))).
  { intros L R HinvLR. rewrite (bit_new_item_at L R newid par c (proj1 HinvLR) Hc). cbn [yib_bind].
    unfold bit_integrate. cbn [bit_seq bit_clen].
    rewrite (bit_integrate_at L R (bit_new_blk L R newid par c) (proj1 HinvLR) eq_refl). cbn [yib_bind].
    unfold bit_content_ok in Hcok. apply andb_prop in Hcok. destruct Hcok as [_ Hk].
    unfold bit_new_blk, bit_countable, yib_is_deleted_content, yib_set_del, bit_len, yib_len. cbn [yib_b yib_del block_len].
    destruct c; try discriminate; reflexivity. }
  destruct (i =? 0) eqn:E0.
  - apply N.eqb_eq in E0. subst i. cbn [yib_bind fst snd negb andb].
    pose proof (Hfin [] s Hinv) as H. cbn [app bit_last_ptr rev yib_head_ptr] in H. unfold bit_last_ptr in H. cbn [rev yib_head_ptr] in H.
    rewrite H. exists [], s. cbn [app]. split; [reflexivity|]. split; [exact Hinv|]. split; [reflexivity|].
    split; [reflexivity|]. split; [reflexivity|]. split; [|lia].
    intros L' lb E. destruct L'; discriminate.
  - apply N.eqb_neq in E0.
    destruct (bit_index_to_ptr_spec s [] i Hinv) as (L & R & Hrun & Hinv' & Hex & Hvl & (L' & lb & EL & Ll & Vl) & Hlen & _); [lia|lia|].
    rewrite Hrun. cbn [yib_bind fst snd negb andb].
    assert (Elp : bit_last_ptr L = Some (yib_id lb)).
    { rewrite EL. cbn [app]. apply bit_last_ptr_snoc. }
    rewrite Elp. rewrite <- Elp. rewrite (Hfin L R Hinv').
    exists L, R. split; [reflexivity|]. split; [exact Hinv'|]. split; [exact Hex|].
    split; [rewrite EL; cbn [app]; exact Vl|]. split; [intros; lia|]. split; [|exact Hlen].
    intros L'' lb' E. rewrite EL in E. cbn [app] in E. apply app_inj_tail in E. destruct E as [_ <-]. exact Ll.
Qed.
Print Assumptions bit_insert_at_shape.

Theorem bit_insert_at_refines_list : forall br i newid par c,
  bit_ok br = true -> bit_content_ok c = true -> content_len c <> 0 ->
  let vis := contents (yib_expand (bit_seq br)) in
  (i <= bit_clen br ->
   exists br', bit_insert_at br i newid par c = yib_ok br' /\
     contents (yib_expand (bit_seq br')) = firstn (N.to_nat i) vis ++ content_units c ++ skipn (N.to_nat i) vis /\
     bit_clen br' = bit_clen br + content_len c /\
     (length (bit_seq br') <= length (bit_seq br) + 2)%nat) /\
  (bit_clen br < i -> bit_insert_at br i newid par c = yib_fail 17).
Proof.
  intros br i newid par c Hok Hcok Hc vis. split.
  - intros Hi. destruct (bit_insert_at_shape br i newid par c Hok Hi Hcok Hc) as (L & R & Hrun & Hinv & Hex & Hv & _ & _ & Hlen).
    eexists. split; [exact Hrun|]. cbn [bit_seq bit_clen]. split; [|split; [reflexivity|]].
    + destruct (bit_new_blk_ok L R newid par c Hcok Hc) as (Hokx & Hlx & Hux).
      destruct (bit_inv_app_ok L R Hinv) as [HokL HokR].
      rewrite yib_expand_app, yib_expand_cons, !contents_app, (bit_contents_ditems _ Hokx), Hlx, Hux.
      unfold vis. rewrite <- Hex, yib_expand_app, contents_app.
      destruct (firstn_skipn_at _ (contents (yib_expand L)) (contents (yib_expand R)) (N.to_nat i)) as [Ef Es].
      { rewrite contents_length, (bit_live_count L HokL), Hv. reflexivity. }
      rewrite Ef, Es. reflexivity.
    + rewrite app_length in *. cbn [length]. lia.
  - intros Hi. unfold bit_insert_at. replace (bit_clen br <? i) with true by (symmetry; apply N.ltb_lt; exact Hi). reflexivity.
Qed.
Print Assumptions bit_insert_at_refines_list.

Lemma bit_expand_last_live : forall L, forallb yib_blk_ok L = true ->
  (forall L' lb, L = L' ++ [lb] -> bit_live lb = true) ->
  forall a' y, yib_expand L = a' ++ [y] -> live y = true.
Proof.
  intros L Hok Hl a' y E. destruct (bit_list_rev_cases _ L) as [->|(P & lb & ->)].
  - destruct a'; discriminate.
  - specialize (Hl P lb eq_refl). rewrite forallb_app in Hok. apply andb_prop in Hok. destruct Hok as [_ Hlb].
    cbn [forallb] in Hlb. rewrite andb_true_r in Hlb. destruct (yib_ditems_last lb Hlb) as (init & ul & Ed & _).
    rewrite yib_expand_app in E. cbn [yib_expand flat_map] in E. rewrite app_nil_r, Ed, app_assoc in E.
    apply app_inj_tail in E. destruct E as [_ <-].
    destruct (bit_ditems_units lb Hlb) as (_ & Hall & _). destruct (Hall ul) as [_ Hlive].
    + rewrite Ed. apply in_or_app. right. left. reflexivity.
    + rewrite Hlive. exact Hl.
Qed.

Theorem bit_insert_at_refines_units : forall br i newid par c,
  bit_ok br = true -> bit_content_ok c = true -> content_len c <> 0 -> bit_fresh (bit_seq br) newid c = true ->
  i <= bit_clen br ->
  exists br', bit_insert_at br i newid par c = yib_ok br' /\
    yib_expand (bit_seq br')
    = bit_local_insert_direct_units (par, None) (yib_expand (bit_seq br)) (N.to_nat i) (cl newid) (ck newid) (content_units c).
Proof.
  intros br i newid par c Hok Hcok Hc Hfr Hi.
  destruct (bit_insert_at_shape br i newid par c Hok Hi Hcok Hc) as (L & R & Hrun & Hinv & Hex & Hv & H0 & Hlast & _).
  eexists. split; [exact Hrun|]. cbn [bit_seq].
  destruct (bit_ok_inv br Hok) as [[(Hok0 & Hnd0 & _) _] _].
  destruct (bit_inv_app_ok L R Hinv) as [HokL HokR].
  destruct (bit_new_blk_ok L R newid par c Hcok Hc) as (Hokx & _ & _).
  rewrite <- Hex. rewrite (yib_expand_app L R).
  rewrite (bit_local_insert_direct_units_at (par, None) (content_units c) (yib_expand L) (yib_expand R) (N.to_nat i)).
  - rewrite yib_expand_app, yib_expand_cons. f_equal. f_equal.
    unfold bit_new_blk. rewrite yib_ditems_item. cbn [fst snd].
    rewrite (bit_last_id_expand L HokL), (bit_head_id_expand R HokR). destruct newid. reflexivity.
  - rewrite <- yib_expand_app, Hex. apply bit_nodupb_NoDup. exact Hnd0.
  - rewrite (bit_live_count L HokL), Hv. reflexivity.
  - intros Ez. assert (i = 0) by lia. rewrite (H0 H). reflexivity.
  - apply (bit_expand_last_live L HokL Hlast).
  - intros j H1 H2 Hin. rewrite <- yib_expand_app, Hex in Hin. apply in_map_iff in Hin. destruct Hin as (u & Eu & Hu).
    unfold bit_fresh in Hfr. rewrite forallb_forall in Hfr. specialize (Hfr u Hu). cbv zeta in Hfr.
    rewrite !andb_true_iff in Hfr. destruct Hfr as [[Hf _] _]. apply negb_true_iff in Hf. rewrite Eu in Hf. cbn [cl ck] in Hf.
    destruct (yib_blk_ok_inv _ Hokx) as (i0 & o0 & ro0 & p0 & ps0 & c0 & Eb & _ & Hlen & _).
    unfold bit_new_blk in Eb. injection Eb as _ _ _ _ _ Ec. subst c0. rewrite <- Hlen in Hf.
    rewrite N.eqb_refl in Hf. cbn [andb] in Hf. apply andb_false_iff in Hf.
    destruct Hf as [Hf|Hf]; [apply N.leb_gt in Hf; lia|apply N.ltb_ge in Hf; lia].
  - apply bit_units_countable. exact Hcok.
Qed.
Print Assumptions bit_insert_at_refines_units.

(* ================================================================================================ *)
(* M3. Branch::remove_at *)


(* local_delete with a count that exceeds what is live right of i = local_delete with the clipped count *)
Lemma bit_rat_ld_clip : forall l i n,
  local_delete i n l = local_delete i (Nat.min n (length (filter live l) - i)) l.
Proof.
  induction l as [|x l IH]; intros i n; cbn [local_delete filter]; [reflexivity|].
  destruct (live x) eqn:E.
  - cbn [length]. destruct i as [|j].
    + rewrite Nat.sub_0_r. destruct n as [|m]; [reflexivity|]. cbn [Nat.min].
      rewrite (IH O m), Nat.sub_0_r. reflexivity.
    + cbn [Nat.sub]. rewrite (IH j n). reflexivity.
  - rewrite (IH i n). reflexivity.
Qed.

(* the loop of remove_at computes bit_del_spec with the clipped length *)
Lemma bit_rat_loop_eq : forall suf pre clen rem,
  forallb yib_blk_ok suf = true -> bit_nostr suf = true -> bit_noncountable_deleted suf = true ->
  bit_vlen suf <= clen ->
  bit_remove_at_loop pre suf clen rem
  = yib_ok (pre ++ bit_del_spec suf (N.min rem (bit_vlen suf)),
            clen - N.min rem (bit_vlen suf), rem - N.min rem (bit_vlen suf)).
Proof.
  induction suf as [|b r IH]; intros pre clen rem Hok Hns Hnc Hc.
  - cbn [bit_remove_at_loop bit_vlen bit_del_spec]. rewrite app_nil_r, N.min_0_r, !N.sub_0_r. reflexivity.
  - cbn [forallb] in Hok. apply andb_prop in Hok. destruct Hok as [Hb Hr].
    unfold bit_nostr in Hns. cbn [forallb] in Hns. apply andb_prop in Hns. destruct Hns as [Hnb Hnr].
    unfold bit_noncountable_deleted in Hnc. cbn [forallb] in Hnc. apply andb_prop in Hnc. destruct Hnc as [Nb Nr].
    pose proof (bit_blk_len_pos b Hb) as Hpos. fold (bit_len b) in Hpos.
    cbn [bit_remove_at_loop]. destruct (rem =? 0) eqn:E0.
    { apply N.eqb_eq in E0. subst rem. rewrite N.min_0_l, bit_del_spec_zero, !N.sub_0_r. reflexivity. }
    apply N.eqb_neq in E0. cbn [bit_vlen] in Hc |- *. unfold bit_live at 1 2 3. unfold bit_live in Hc.
    destruct (yib_del b) eqn:Ed; cbn [negb andb] in *.
    + (* deleted: stepped over *)
      rewrite N.add_0_l in *. rewrite (IH (pre ++ [b]) clen rem Hr Hnr Nr Hc). rewrite <- app_assoc. cbn [app].
      cbn [bit_del_spec]. unfold bit_live. rewrite Ed. cbn [negb andb].
      destruct (N.min rem (bit_vlen r) =? 0) eqn:Em.
      * apply N.eqb_eq in Em. rewrite Em, bit_del_spec_zero. reflexivity.
      * reflexivity.
    + rewrite orb_false_r in Nb. rewrite Nb in *.
      destruct (rem <? bit_len b) eqn:E1.
      * apply N.ltb_lt in E1.
        destruct (bit_split_some b rem Hb Hnb) as (l & rr & Es); [lia|exact E1|]. rewrite Es.
        destruct (bit_split_halves b rem l rr Hb Es) as (_ & Hll & _ & _ & _ & _ & Hcl & _).
        rewrite Ed in Hll, Hcl. rewrite Hcl, Nb. unfold bit_len at 1 2. rewrite Hll.
        replace (clen <? rem) with false by (symmetry; apply N.ltb_ge; lia).
        cbn [yib_bind]. replace (N.min rem (bit_len b + bit_vlen r)) with rem by lia.
        cbn [bit_del_spec]. replace (rem =? 0) with false by (symmetry; apply N.eqb_neq; exact E0).
        unfold bit_live. rewrite Ed, Nb. cbn [negb andb].
        replace (rem <? bit_len b) with true by (symmetry; apply N.ltb_lt; exact E1). rewrite Es.
        rewrite N.sub_diag. reflexivity.
      * apply N.ltb_ge in E1.
        replace (clen <? bit_len b) with false by (symmetry; apply N.ltb_ge; lia).
        cbn [yib_bind].
        rewrite (IH (pre ++ [yib_set_del b true]) (clen - bit_len b) (rem - bit_len b) Hr Hnr Nr) by lia.
        rewrite <- app_assoc. cbn [app].
        replace (N.min rem (bit_len b + bit_vlen r)) with (bit_len b + N.min (rem - bit_len b) (bit_vlen r)) by lia.
        cbn [bit_del_spec].
        replace (bit_len b + N.min (rem - bit_len b) (bit_vlen r) =? 0) with false by (symmetry; apply N.eqb_neq; lia).
        unfold bit_live. rewrite Ed, Nb. cbn [negb andb].
        replace (bit_len b + N.min (rem - bit_len b) (bit_vlen r) <? bit_len b) with false
          by (symmetry; apply N.ltb_ge; lia).
        replace (bit_len b + N.min (rem - bit_len b) (bit_vlen r) - bit_len b) with (N.min (rem - bit_len b) (bit_vlen r)) by lia.
        f_equal. f_equal; [f_equal|]; lia.
Qed.

Lemma bit_rat_loop_spec : forall suf pre clen rem, bit_inv (pre ++ suf) -> bit_noncountable_deleted suf = true ->
  bit_vlen suf <= clen ->
  exists suf', bit_remove_at_loop pre suf clen rem
               = yib_ok (pre ++ suf', clen - N.min rem (bit_vlen suf), rem - N.min rem (bit_vlen suf)) /\
    yib_expand suf' = local_delete 0 (N.to_nat rem) (yib_expand suf) /\
    bit_vlen suf' = bit_vlen suf - N.min rem (bit_vlen suf) /\
    bit_inv (pre ++ suf') /\ bit_noncountable_deleted suf' = true /\ (length suf' <= length suf + 1)%nat.
Proof.
  intros suf pre clen rem Hinv Hnc Hc.
  destruct (bit_del_inv_parts pre suf Hinv) as (Hoks & Hnss & Hokp).
  exists (bit_del_spec suf (N.min rem (bit_vlen suf))). split; [|split; [|split; [|split; [|split]]]].
  - apply bit_rat_loop_eq; assumption.
  - rewrite bit_del_spec_expand by (try assumption; lia).
    rewrite (bit_rat_ld_clip (yib_expand suf) 0 (N.to_nat rem)), bit_live_count by exact Hoks.
    f_equal. lia.
  - apply bit_del_spec_vlen; try assumption. lia.
  - apply bit_del_spec_inv. exact Hinv.
  - apply bit_del_spec_ncd; assumption.
  - apply bit_del_spec_length.
Qed.

(* what remove_at does once index_to_ptr has returned: s1 = L ++ R, ptr = head of R *)
Lemma bit_rat_tail : forall s0 c L R n,
  bit_inv (L ++ R) -> yib_expand (L ++ R) = yib_expand s0 -> bit_vlen (L ++ R) = c ->
  bit_noncountable_deleted (L ++ R) = true -> (length (L ++ R) <= length s0 + 1)%nat ->
  exists br',
    match yib_head_ptr R with
    | None => yib_ok (bit_mkbranch (L ++ R) c, 0)
    | Some p =>
      match bit_cut_at p [] (L ++ R) with
      | None => yib_fail 10
      | Some (pre, suf) =>
        yib_bind (bit_remove_at_loop pre suf c n) (fun r =>
          yib_ok (bit_mkbranch (fst (fst r)) (snd (fst r)), n - snd r))
      end
    end = yib_ok (br', N.min n (c - bit_vlen L)) /\
    bit_ok br' = true /\ bit_clen br' = c - N.min n (c - bit_vlen L) /\
    yib_expand (bit_seq br') = local_delete (N.to_nat (bit_vlen L)) (N.to_nat n) (yib_expand s0) /\
    (length (bit_seq br') <= length s0 + 2)%nat.
Proof.
  intros s0 c L R n Hinv Hex Hv Hnc Hlen.
  destruct (bit_del_inv_parts L R Hinv) as (HokR & HnsR & HokL).
  assert (Hcnt : length (filter live (yib_expand L)) = N.to_nat (bit_vlen L)) by (apply bit_live_count; exact HokL).
  rewrite bit_vlen_app in Hv. rewrite bit_ncd_app in Hnc. apply andb_prop in Hnc. destruct Hnc as [HncL HncR].
  destruct R as [|b S].
  - cbn [yib_head_ptr]. exists (bit_mkbranch (L ++ []) c). cbn [bit_vlen] in Hv.
    replace (N.min n (c - bit_vlen L)) with 0 by lia. split; [reflexivity|]. split; [|split; [|split]].
    + apply bit_inv_ok; [exact Hinv|]. rewrite bit_vlen_app. cbn [bit_vlen]. lia.
    + cbn [bit_clen]. lia.
    + cbn [bit_seq]. rewrite <- Hex. rewrite app_nil_r.
      rewrite (bit_rat_ld_clip (yib_expand L)), Hcnt, Nat.sub_diag, Nat.min_0_r, bit_del_ld_zero. reflexivity.
    + cbn [bit_seq]. lia.
  - cbn [yib_head_ptr]. destruct (bit_ids_distinct L b S (proj1 Hinv)) as [Hd _].
    rewrite (bit_cut_at_at L [] b S Hd). cbn [app].
    destruct (bit_rat_loop_spec (b :: S) L c n Hinv HncR) as (suf' & Hrun & Hex' & Hv' & Hinv' & Hnc' & Hlen'); [lia|].
    rewrite Hrun. cbn [yib_bind fst snd].
    set (v := bit_vlen (b :: S)) in *.
    exists (bit_mkbranch (L ++ suf') (c - N.min n v)).
    replace (c - bit_vlen L) with v by lia. split; [|split; [|split; [|split]]].
    + f_equal. f_equal. lia.
    + apply bit_inv_ok; [exact Hinv'|]. rewrite bit_vlen_app, Hv'. lia.
    + reflexivity.
    + cbn [bit_seq]. rewrite <- Hex, !yib_expand_app, Hex'. symmetry. apply bit_del_ld_skip. exact Hcnt.
    + cbn [bit_seq]. rewrite app_length in *. lia.
Qed.

Theorem bit_remove_at_refines_units : forall br i n, bit_ok br = true -> bit_noncountable_deleted (bit_seq br) = true ->
  exists br', bit_remove_at br i n = yib_ok (br', N.min n (bit_clen br - i)) /\ bit_ok br' = true /\
    bit_clen br' = bit_clen br - N.min n (bit_clen br - i) /\
    yib_expand (bit_seq br') = local_delete (N.to_nat i) (N.to_nat n) (yib_expand (bit_seq br)) /\
    (length (bit_seq br') <= length (bit_seq br) + 2)%nat.
Proof.
  intros br i n Hok Hnc. destruct (bit_ok_inv br Hok) as [Hinv Hclen]. unfold bit_remove_at.
  destruct (i =? 0) eqn:E0.
  - apply N.eqb_eq in E0. subst i. cbn [yib_bind fst snd].
    destruct (bit_rat_tail (bit_seq br) (bit_clen br) [] (bit_seq br) n) as (br' & Hrun & H1 & H2 & H3 & H4);
      cbn [app]; try assumption; try reflexivity; try (symmetry; assumption); try lia.
    exists br'. cbn [app bit_vlen] in Hrun, H2, H3. split; [exact Hrun|]. split; [exact H1|]. split; [exact H2|].
    split; [exact H3|exact H4].
  - apply N.eqb_neq in E0. destruct (N.le_gt_cases i (bit_clen br)) as [Hi|Hi].
    + destruct (bit_index_to_ptr_spec (bit_seq br) [] i) as
        (L & R & Hrun & HinvLR & Hex & Hv & (L' & lb & EL & _ & HvL) & Hlen & HncLR);
        cbn [app]; try assumption; try lia.
      rewrite Hrun. cbn [yib_bind fst snd]. cbn [app] in *.
      assert (HL : bit_vlen L = i) by (rewrite EL; exact HvL).
      destruct (bit_rat_tail (bit_seq br) (bit_clen br) L R n) as (br' & Hrun' & H1 & H2 & H3 & H4);
        try assumption; try (apply HncLR; assumption); try lia.
      rewrite HL in *. exists br'. split; [exact Hrun'|]. split; [exact H1|]. split; [exact H2|].
      split; [exact H3|exact H4].
    + rewrite bit_index_to_ptr_beyond by lia. cbn [yib_bind fst snd app].
      exists (bit_mkbranch (bit_seq br) (bit_clen br)).
      replace (bit_clen br - i) with 0 by lia. rewrite N.min_0_r, N.sub_0_r.
      split; [reflexivity|]. split; [destruct br; exact Hok|]. split; [reflexivity|]. split; [|cbn [bit_seq]; lia].
      cbn [bit_seq]. rewrite bit_rat_ld_clip, bit_live_count by (apply (bit_del_inv_parts [] (bit_seq br)); exact Hinv).
      replace (Nat.min (N.to_nat n) (N.to_nat (bit_vlen (bit_seq br)) - N.to_nat i)) with 0%nat by lia.
      rewrite bit_del_ld_zero. reflexivity.
Qed.
Print Assumptions bit_remove_at_refines_units.


(* ================================================================================================ *)
(* M4. Array::insert against XmlFragment::insert: same visible result, positions differ by the run of *)
(*     tombstones that directly follows the index                                                    *)
(* ================================================================================================ *)
Lemma bit_fresh_ids : forall s newid c, bit_fresh s newid c = true -> bit_content_ok c = true ->
  forall j, ck newid <= j -> j < ck newid + N.of_nat (length (content_units c)) ->
  ~ In (mkid (cl newid) j) (map did (yib_expand s)).
Proof.
  intros s newid c Hfr Hcok j H1 H2 Hin. apply in_map_iff in Hin. destruct Hin as (u & Eu & Hu).
  unfold bit_fresh in Hfr. rewrite forallb_forall in Hfr. specialize (Hfr u Hu). cbv zeta in Hfr.
  rewrite !andb_true_iff in Hfr. destruct Hfr as [[Hf _] _]. apply negb_true_iff in Hf. rewrite Eu in Hf. cbn [cl ck] in Hf.
  assert (Hlen : N.of_nat (length (content_units c)) <= content_len c).
  { destruct (N.eq_dec (content_len c) 0) as [E|E].
    - unfold bit_content_ok in Hcok. apply andb_prop in Hcok. destruct Hcok as [_ Hk].
      destruct c; try discriminate; cbn [content_len content_units] in *; rewrite ?map_length; cbn [length]; try lia.
    - destruct (bit_new_blk_ok [] [] newid PUnknown c Hcok E) as (Hokx & _ & _).
      destruct (yib_blk_ok_inv _ Hokx) as (i0 & o0 & ro0 & p0 & ps0 & c0 & Eb & _ & Hl & _).
      unfold bit_new_blk in Eb. injection Eb as _ _ _ _ _ Ec. subst c0. lia. }
  rewrite N.eqb_refl in Hf. cbn [andb] in Hf. apply andb_false_iff in Hf.
  destruct Hf as [Hf|Hf]; [apply N.leb_gt in Hf; lia|apply N.ltb_ge in Hf; lia].
Qed.

Theorem bit_array_vs_xml_insert : forall br i newid par c,
  bit_ok br = true -> bit_noncountable_deleted (bit_seq br) = true ->
  bit_content_ok c = true -> content_len c <> 0 -> bit_fresh (bit_seq br) newid c = true -> i <= bit_clen br ->
  exists bra brx a0 d b,
    bit_array_insert br i newid par c = yib_ok bra /\ bit_insert_at br i newid par c = yib_ok brx /\
    (* the units: a0 ends with the i-th live unit, d = the tombstones that directly follow it *)
    split_live (N.to_nat i) (yib_expand (bit_seq br)) = (a0, d ++ b) /\
    (forall z, In z d -> d_del z = true) /\ match b with x :: _ => d_del x = false | [] => True end /\
    yib_expand (bit_seq bra)
    = a0 ++ d ++ yib_dunits (cl newid) (ck newid) (last_id (a0 ++ d)) (head_id b) par None false (content_units c) ++ b /\
    yib_expand (bit_seq brx)
    = a0 ++ yib_dunits (cl newid) (ck newid) (last_id a0) (head_id (d ++ b)) par None false (content_units c) ++ d ++ b /\
    contents (yib_expand (bit_seq bra)) = contents (yib_expand (bit_seq brx)) /\
    (yib_expand (bit_seq bra) = yib_expand (bit_seq brx) <-> d = []).
Proof.
  intros br i newid par c Hok Hnc Hcok Hc Hfr Hi.
  destruct (bit_insert_refines_units br i newid par c Hok Hnc Hcok Hc Hfr Hi) as (bra & Hra & Hea).
  destruct (bit_insert_at_refines_units br i newid par c Hok Hcok Hc Hfr Hi) as (brx & Hrx & Hex).
  destruct (bit_insert_refines_list br i newid par c Hok Hcok Hc) as [Hla _]. destruct (Hla Hi) as (bra' & Hra' & Hca & _).
  destruct (bit_insert_at_refines_list br i newid par c Hok Hcok Hc) as [Hlx _]. destruct (Hlx Hi) as (brx' & Hrx' & Hcx & _).
  assert (bra' = bra) by congruence. assert (brx' = brx) by congruence. subst bra' brx'.
  destruct (bit_ok_inv br Hok) as [[(Hok0 & Hnd0 & _) _] Hclen].
  set (l := yib_expand (bit_seq br)) in *.
  assert (Hcount : (N.to_nat i <= length (filter live l))%nat).
  { unfold l. rewrite (bit_live_count _ Hok0). lia. }
  destruct (split_gap (N.to_nat i) l) as [a b] eqn:Hg.
  destruct (split_gap_decompose _ _ _ _ Hg) as (a0 & d & Hs & Ea & Hd & Hb). subst a.
  pose proof (split_live_app _ _ _ _ Hs) as El.
  assert (Hndl : NoDup (map did l)) by (apply bit_nodupb_NoDup; exact Hnd0).
  assert (Hfresh : forall j, ck newid <= j -> j < ck newid + N.of_nat (length (content_units c)) ->
                   ~ In (mkid (cl newid) j) (map did l)) by (apply bit_fresh_ids; assumption).
  pose proof (bit_units_countable c Hcok) as Hcnt.
  exists bra, brx, a0, d, b. split; [exact Hra|]. split; [exact Hrx|]. split; [exact Hs|]. split; [exact Hd|]. split; [exact Hb|].
  assert (EA : yib_expand (bit_seq bra)
    = a0 ++ d ++ yib_dunits (cl newid) (ck newid) (last_id (a0 ++ d)) (head_id b) par None false (content_units c) ++ b).
  { rewrite Hea. replace l with ((a0 ++ d) ++ b) by (rewrite El, app_assoc; reflexivity).
    rewrite (bit_local_insert_units_at_gap (par, None) (content_units c) (a0 ++ d) b (N.to_nat i)).
    - rewrite <- app_assoc. reflexivity.
    - rewrite <- app_assoc, <- El. exact Hndl.
    - eapply split_gap_count; eassumption.
    - intros u Hu. apply (bit_nonlive_deleted (bit_seq br) Hok0 Hnc). fold l. rewrite El, app_assoc. apply in_or_app. left. exact Hu.
    - exact Hb.
    - intros j H1 H2. rewrite <- app_assoc, <- El. apply Hfresh; assumption.
    - exact Hcnt. }
  assert (EX : yib_expand (bit_seq brx)
    = a0 ++ yib_dunits (cl newid) (ck newid) (last_id a0) (head_id (d ++ b)) par None false (content_units c) ++ d ++ b).
  { rewrite Hex. fold l. rewrite El at 1.
    rewrite (bit_local_insert_direct_units_at (par, None) (content_units c) a0 (d ++ b) (N.to_nat i)).
    - reflexivity.
    - rewrite <- El. exact Hndl.
    - eapply split_live_count; eassumption.
    - intros Ez. rewrite Ez, split_live_zero in Hs. injection Hs as <- _. reflexivity.
    - intros a' y Ey. destruct (N.to_nat i) as [|k] eqn:Ek.
      + rewrite split_live_zero in Hs. injection Hs as <- _. destruct a'; discriminate.
      + destruct (split_live_last _ _ _ _ Hs) as (a'' & y' & Ea & Ly); [lia|exact Hcount|].
        rewrite Ea in Ey. apply app_inj_tail in Ey. destruct Ey as [_ <-]. exact Ly.
    - intros j H1 H2. rewrite <- El. apply Hfresh; assumption.
    - exact Hcnt. }
  split; [exact EA|]. split; [exact EX|]. split; [rewrite Hca, Hcx; reflexivity|].
  rewrite EA, EX. split.
  - intros E. apply app_inv_head in E. destruct d as [|z d']; [reflexivity|exfalso].
    destruct (content_units c) as [|u us] eqn:Eu.
    + destruct (bit_new_blk_ok [] [] newid par c Hcok Hc) as (Hokx & _ & _).
      destruct (yib_blk_ok_inv _ Hokx) as (i0 & o0 & ro0 & p0 & ps0 & c0 & Eb & _ & Hl & Hp).
      unfold bit_new_blk in Eb. injection Eb as _ _ _ _ _ Ec. subst c0. rewrite Eu in Hl. cbn [length] in Hl. lia.
    + cbn [yib_dunits app] in E. injection E as Ez _. specialize (Hd z (or_introl eq_refl)). rewrite Ez in Hd. discriminate.
  - intros ->. cbn [app]. rewrite app_nil_r. reflexivity.
Qed.
Print Assumptions bit_array_vs_xml_insert.

(* ================================================================================================ *)
(* M5. preservation of bit_ok, programs *)


(* ---------- helpers ---------- *)
Lemma bit_okp_NoDup_nodupb : forall l, NoDup l -> yib_nodupb l = true.
Proof.
  induction l as [|i r IH]; intros H; [reflexivity|]. inversion H; subst. cbn [yib_nodupb].
  rewrite IH by assumption. rewrite andb_true_r. apply negb_true_iff. apply yib_mem_false. assumption.
Qed.

Lemma bit_okp_nodup_app2 : forall (x b : list id), NoDup x -> NoDup b -> (forall i, In i x -> ~ In i b) -> NoDup (x ++ b).
Proof.
  induction x as [|i x IH]; intros b Hx Hb Hd; [exact Hb|]. inversion Hx; subst. cbn [app]. constructor.
  - intros Hin. apply in_app_or in Hin. destruct Hin as [Hin|Hin]; [contradiction|]. apply (Hd i); [left; reflexivity|exact Hin].
  - apply IH; try assumption. intros j Hj. apply Hd. right. exact Hj.
Qed.

Lemma bit_okp_nodup_ins : forall (a x b : list id), NoDup (a ++ b) -> NoDup x ->
  (forall i, In i x -> ~ In i (a ++ b)) -> NoDup (a ++ x ++ b).
Proof.
  induction a as [|i a IH]; intros x b Hab Hx Hd; cbn [app] in *.
  - apply bit_okp_nodup_app2; try assumption.
  - inversion Hab; subst. constructor.
    + intros Hin. apply in_app_or in Hin. destruct Hin as [Hin|Hin].
      * apply H1. apply in_or_app. left. exact Hin.
      * apply in_app_or in Hin. destruct Hin as [Hin|Hin].
        -- apply (Hd i Hin). left. reflexivity.
        -- apply H1. apply in_or_app. right. exact Hin.
    + apply IH; try assumption. intros j Hj Hin. apply (Hd j Hj). right. exact Hin.
Qed.

Lemma bit_okp_dunits_nodup : forall us c k o ro p ps del, NoDup (map did (yib_dunits c k o ro p ps del us)).
Proof.
  induction us as [|u r IH]; intros c k o ro p ps del; cbn [yib_dunits map]; [constructor|].
  constructor; [|apply IH]. intros Hin. apply yib_dunits_ids in Hin. unfold did in Hin. cbn [d_op oid cl ck] in Hin. lia.
Qed.

Lemma bit_okp_ol_ins : forall A X B, yib_origins_left (A ++ B) = true -> yib_origins_left (X ++ B) = true ->
  (forall u o, In u A -> oorigin (d_op u) = Some o -> ~ In o (yib_ids X)) ->
  yib_origins_left (A ++ X ++ B) = true.
Proof.
  induction A as [|u A IH]; intros X B HAB HXB Hd; cbn [app] in *; [exact HXB|].
  cbn [yib_origins_left] in *. apply andb_prop in HAB. destruct HAB as [Hu HAB].
  rewrite (IH X B HAB HXB) by (intros u' o' Hin; apply Hd; right; exact Hin). rewrite andb_true_r.
  destruct (oorigin (d_op u)) as [o|] eqn:Eo; [|reflexivity].
  apply negb_true_iff in Hu. apply yib_mem_false in Hu. apply negb_true_iff. apply yib_mem_false.
  intros Hin. unfold yib_ids in *. cbn [map] in *. destruct Hin as [Hin|Hin]; [apply Hu; left; exact Hin|].
  rewrite !map_app in Hin. apply in_app_or in Hin. destruct Hin as [Hin|Hin].
  - apply Hu. right. rewrite map_app. apply in_or_app. left. exact Hin.
  - apply in_app_or in Hin. destruct Hin as [Hin|Hin].
    + apply (Hd u o (or_introl eq_refl) Eo). exact Hin.
    + apply Hu. right. rewrite map_app. apply in_or_app. right. exact Hin.
Qed.

Lemma bit_okp_ol_dunits : forall us c k o ro p ps del B, yib_origins_left B = true ->
  (forall oo, o = Some oo -> ~ (cl oo = c /\ k <= ck oo /\ ck oo < k + N.of_nat (length us)) /\ ~ In oo (yib_ids B)) ->
  (forall i, cl i = c -> k <= ck i -> ck i < k + N.of_nat (length us) -> ~ In i (yib_ids B)) ->
  yib_origins_left (yib_dunits c k o ro p ps del us ++ B) = true.
Proof.
  induction us as [|u r IH]; intros c k o ro p ps del B HB Ho Hr; cbn [yib_dunits app]; [exact HB|].
  cbn [yib_origins_left d_op oorigin]. apply andb_true_intro. split.
  - destruct o as [oo|]; [|reflexivity]. destruct (Ho oo eq_refl) as [H1 H2].
    apply negb_true_iff. apply yib_mem_false. intros Hin.
    change (mkditem (mkop (mkid c k) (Some oo) ro p ps u) del :: yib_dunits c (k + 1) (Some (mkid c k)) ro p ps del r ++ B)
      with (yib_dunits c k (Some oo) ro p ps del (u :: r) ++ B) in Hin.
    unfold yib_ids in Hin. rewrite map_app in Hin. apply in_app_or in Hin. destruct Hin as [Hin|Hin].
    + apply yib_dunits_ids in Hin. apply H1. exact Hin.
    + apply H2. exact Hin.
  - apply IH; [exact HB| |].
    + intros oo E. injection E as <-. cbn [cl ck]. split; [lia|]. apply Hr; cbn [cl ck length]; lia.
    + intros i Hc H1 H2. apply Hr; [exact Hc|lia|cbn [length]; lia].
Qed.

Definition bit_okp_inr (newid : id) (c : bcontent) (i : id) : Prop :=
  cl i = cl newid /\ ck newid <= ck i /\ ck i < ck newid + content_len c.

Lemma bit_okp_inr_b : forall newid c i,
  negb ((cl newid =? cl i) && (ck newid <=? ck i) && (ck i <? ck newid + content_len c)) = true ->
  ~ bit_okp_inr newid c i.
Proof.
  intros newid c i H (H1 & H2 & H3). apply negb_true_iff in H.
  rewrite H1, N.eqb_refl in H. apply N.leb_le in H2. apply N.ltb_lt in H3. rewrite H2, H3 in H. discriminate.
Qed.

Lemma bit_okp_fresh_inv : forall s newid c, bit_fresh s newid c = true ->
  forall u, In u (yib_expand s) ->
    ~ bit_okp_inr newid c (did u) /\ forall o, oorigin (d_op u) = Some o -> ~ bit_okp_inr newid c o.
Proof.
  intros s newid c H u Hu. unfold bit_fresh in H. rewrite forallb_forall in H. specialize (H u Hu). cbv zeta in H.
  rewrite !andb_true_iff in H. destruct H as [[H1 H2] _]. split.
  - apply bit_okp_inr_b. exact H1.
  - intros o Eo. rewrite Eo in H2. apply bit_okp_inr_b. exact H2.
Qed.

Lemma bit_okp_vlen_expand : forall s1 s2, forallb yib_blk_ok s1 = true -> forallb yib_blk_ok s2 = true ->
  yib_expand s1 = yib_expand s2 -> bit_vlen s1 = bit_vlen s2.
Proof.
  intros s1 s2 H1 H2 E. apply N2Nat.inj. rewrite <- (bit_live_count s1 H1), <- (bit_live_count s2 H2), E. reflexivity.
Qed.

(* ---------- (A) ---------- *)
Theorem bit_array_insert_preserves_ok : forall br i newid par c br',
  bit_ok br = true -> bit_content_ok c = true -> content_len c <> 0 -> bit_fresh (bit_seq br) newid c = true ->
  bit_array_insert br i newid par c = yib_ok br' -> bit_ok br' = true.
Proof.
  intros br i newid par c br' Hok Hcok Hc Hfr Hrun.
  destruct (N.lt_ge_cases (bit_clen br) i) as [Hi|Hi].
  { destruct (bit_insert_refines_list br i newid par c Hok Hcok Hc) as [_ Hf]. rewrite (Hf Hi) in Hrun. discriminate. }
  destruct (bit_array_insert_shape br i newid par c Hok Hi Hcok Hc) as (L & R & Hrun' & Hinv & Hex & Hv & _ & _).
  rewrite Hrun' in Hrun. injection Hrun as <-.
  destruct (bit_ok_inv br Hok) as [[(Hok0 & Hnd0 & Hol0) Hns0] Hcl0].
  destruct (bit_inv_app_ok L R Hinv) as [HokL HokR].
  destruct (bit_new_blk_ok L R newid par c Hcok Hc) as (Hokx & Hlx & _).
  destruct Hinv as [(HokLR & HndLR & HolLR) HnsLR].
  pose proof (bit_okp_fresh_inv _ _ _ Hfr) as Hfi. rewrite <- Hex in Hfi.
  assert (Hlenc : N.of_nat (length (content_units c)) = content_len c).
  { destruct (yib_blk_ok_inv _ Hokx) as (i0 & o0 & ro0 & p0 & ps0 & c0 & Eb & _ & Hlen & _).
    unfold bit_new_blk in Eb. injection Eb as _ _ _ _ _ Ec. subst c0. exact Hlen. }
  set (x := bit_new_blk L R newid par c) in *.
  assert (Ex : yib_ditems x = yib_dunits (cl newid) (ck newid)
                 (match rev L with lb :: _ => Some (yib_last_id lb) | [] => None end) (yib_head_ptr R) par None false (content_units c)).
  { unfold x, bit_new_blk. apply yib_ditems_item. }
  assert (Hxr : forall j, In j (yib_ids (yib_ditems x)) -> bit_okp_inr newid c j).
  { intros j Hj. rewrite Ex in Hj. apply yib_dunits_ids in Hj. rewrite Hlenc in Hj. exact Hj. }
  apply bit_inv_ok.
  - split; [split; [|split]|].
    + rewrite forallb_app. cbn [forallb]. rewrite HokL, Hokx, HokR. reflexivity.
    + rewrite yib_expand_app, yib_expand_cons. unfold yib_ids. rewrite !map_app.
      apply bit_okp_NoDup_nodupb. apply bit_okp_nodup_ins.
      * rewrite <- map_app, <- yib_expand_app. apply bit_nodupb_NoDup. exact HndLR.
      * rewrite Ex. apply bit_okp_dunits_nodup.
      * intros j Hj Hin. rewrite <- map_app, <- yib_expand_app in Hin. apply in_map_iff in Hin. destruct Hin as (u & Eu & Hu).
        destruct (Hfi u Hu) as [Hn _]. apply Hn. rewrite Eu. apply Hxr. exact Hj.
    + rewrite yib_expand_app, yib_expand_cons. apply bit_okp_ol_ins.
      * rewrite <- yib_expand_app. exact HolLR.
      * rewrite Ex. apply bit_okp_ol_dunits.
        -- rewrite yib_expand_app in HolLR. apply (yib_origins_left_app_r _ _ HolLR).
        -- intros oo Eo. rewrite <- (bit_last_id_expand L HokL) in Eo.
           assert (Hin : In oo (yib_ids (yib_expand L))).
           { clear - Eo. destruct (bit_list_rev_cases _ (yib_expand L)) as [E|(P & lb & E)]; rewrite E in *.
             - discriminate.
             - rewrite last_id_snoc in Eo. injection Eo as <-. unfold yib_ids. rewrite map_app. apply in_or_app. right. left. reflexivity. }
           split.
           ++ rewrite Hlenc. intros Hr. unfold yib_ids in Hin. apply in_map_iff in Hin. destruct Hin as (u & Eu & Hu).
              destruct (Hfi u) as [Hn _]; [rewrite yib_expand_app; apply in_or_app; left; exact Hu|].
              apply Hn. rewrite Eu. exact Hr.
           ++ intros Hin2. rewrite yib_expand_app, yib_ids_app in HndLR. apply (yib_nodupb_app _ _ oo HndLR Hin Hin2).
        -- intros j H1 H2 H3 Hin. rewrite Hlenc in H3. unfold yib_ids in Hin. apply in_map_iff in Hin. destruct Hin as (u & Eu & Hu).
           destruct (Hfi u) as [Hn _]; [rewrite yib_expand_app; apply in_or_app; right; exact Hu|].
           apply Hn. rewrite Eu. split; [exact H1|split; assumption].
      * intros u o Hu Eo Hin. destruct (Hfi u) as [_ Hn]; [rewrite yib_expand_app; apply in_or_app; left; exact Hu|].
        apply (Hn o Eo). apply Hxr. exact Hin.
    + unfold bit_nostr in *. rewrite forallb_app in *. cbn [forallb]. apply andb_prop in HnsLR. destruct HnsLR as [-> ->].
      rewrite andb_true_r. cbn [andb]. unfold x, bit_new_blk, bit_nostr_blk. cbn [yib_b].
      unfold bit_content_ok in Hcok. apply andb_prop in Hcok. destruct Hcok as [_ Hk]. destruct c; try discriminate; reflexivity.
  - rewrite bit_vlen_app. cbn [bit_vlen]. rewrite Hlx.
    assert (Hlen : bit_len x = content_len c) by reflexivity. rewrite Hlen.
    rewrite Hcl0, <- (bit_okp_vlen_expand (L ++ R) (bit_seq br) HokLR Hok0 Hex), bit_vlen_app. lia.
Qed.
Print Assumptions bit_array_insert_preserves_ok.

(* ---------- (B) ---------- *)
Lemma bit_okp_len : forall br, bit_ok br = true ->
  N.of_nat (length (contents (yib_expand (bit_seq br)))) = bit_clen br.
Proof.
  intros br Hok. destruct (bit_ok_inv br Hok) as [[(Hok0 & _) _] Hcl]. rewrite contents_length, (bit_live_count _ Hok0), Hcl.
  apply N2Nat.id.
Qed.

Theorem bit_program_refines_list : forall p br, bit_ok br = true -> bit_prog_ok p br ->
  match bit_run_list p (contents (yib_expand (bit_seq br))) with
  | Some l => exists br', bit_run p br = yib_ok br' /\ bit_ok br' = true /\ contents (yib_expand (bit_seq br')) = l
  | None => exists t, bit_run p br = yib_fail t
  end.
Proof.
  induction p as [|o r IH]; intros br Hok Hp.
  - cbn [bit_run_list bit_run]. exists br. split; [reflexivity|]. split; [exact Hok|reflexivity].
  - destruct o as [i nid par c|i n]; cbn [bit_run_list bit_run bit_prog_ok] in *; rewrite (bit_okp_len br Hok).
    + destruct Hp as (Hcok & Hc & Hfr & Hnext).
      destruct (bit_insert_refines_list br i nid par c Hok Hcok Hc) as [Hs Hf].
      destruct (bit_clen br <? i) eqn:E.
      * apply N.ltb_lt in E. exists 13. rewrite (Hf E). reflexivity.
      * apply N.ltb_ge in E. destruct (Hs E) as (br' & Hrun & Hcont & _).
        pose proof (bit_array_insert_preserves_ok br i nid par c br' Hok Hcok Hc Hfr Hrun) as Hok'.
        specialize (IH br' Hok' (Hnext br' Hrun)). rewrite Hcont in IH. rewrite Hrun. cbn [yib_bind]. exact IH.
    + destruct (bit_remove_refines_units br i n Hok) as (Hs & Hf13 & Hf14).
      destruct (bit_clen br <? i + n) eqn:E.
      * apply N.ltb_lt in E. destruct (N.lt_ge_cases (bit_clen br) i) as [Hi|Hi].
        -- exists 13. rewrite (Hf13 Hi). reflexivity.
        -- exists 14. rewrite (Hf14 Hi E). reflexivity.
      * apply N.ltb_ge in E. destruct (Hs E) as (br' & Hrun & Hok' & _).
        destruct (bit_remove_refines_list br i n Hok E) as (br'' & Hrun2 & Hcont).
        rewrite Hrun in Hrun2. injection Hrun2 as <-.
        specialize (IH br' Hok' (Hp br' Hrun)). rewrite Hcont in IH. rewrite Hrun. cbn [yib_bind]. exact IH.
Qed.
Print Assumptions bit_program_refines_list.
Print Assumptions bit_index_to_ptr_spec.
Print Assumptions bit_index_to_ptr_beyond.
