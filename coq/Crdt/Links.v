(* Registration of sequence units for a quotation (weak link) at unit level.

   Rust: yrs/src/types/weak.rs  LinkSource::materialize   (registers every block of the range, tombstones included:
                                                            RangeIter does not look at the deleted flag)
         yrs/src/types/weak.rs  join_linked_range         (called from Item::integrate, block.rs, for a new element
                                                            that is not deleted, when its left or right neighbour
                                                            has the linked flag; looks at the DIRECT neighbours only)
         yrs/src/transaction.rs TransactionMut::delete    (store.linked_by.remove(&item); only when the item was
                                                            not deleted before)
         yrs/src/iter.rs        RangeIter                 (what dereference iterates; Values skips tombstones)

   ONE sequence, ONE quotation.  Bounds are `Some (id, inclusive?)` or `None` (no bound on that side), as in
   `quoted` of Crdt/Local.v:
      start  Some (a, true)  = StickyIndex(a, Assoc::Before)     Some (a, false) = StickyIndex(a, Assoc::After)
      end    Some (b, true)  = StickyIndex(b, Assoc::After)      Some (b, false) = StickyIndex(b, Assoc::Before)
      None   = scope of the branch (no id); `Quotable::quote` gives it Assoc::Before at the start and
               Assoc::After at the end, which is what the rule below assumes. *)
From Coq Require Import List NArith Bool Arith.
From YV Require Import Codec.UpdateV1.
Import ListNotations.
Open Scope nat_scope.

Definition lk_unit : Type := (id * bool)%type.           (* id, live? *)
Definition lk_bound : Type := option (id * bool).        (* Some (id, inclusive?) | None *)

Record lk_state := lk_mk {
  lk_units : list lk_unit;      (* document order, tombstones included *)
  lk_start : lk_bound;
  lk_end   : lk_bound;
  lk_reg   : list id            (* store.linked_by restricted to the one quotation *)
}.

Definition lk_ids (l : list lk_unit) : list id := map fst l.
Definition lk_mem (a : id) (l : list id) : bool := existsb (id_eqb a) l.

Fixpoint lk_index (a : id) (l : list id) : option nat :=
  match l with
  | [] => None
  | x :: r => if id_eqb x a then Some 0 else option_map S (lk_index a r)
  end.

(* ---------- the declarative range: positions between the boundary units ---------- *)
Definition lk_after_start (ids : list id) (s : lk_bound) (i : nat) : bool :=
  match s with
  | None => true
  | Some (b, incl) => match lk_index b ids with
                      | Some j => if incl then j <=? i else j <? i
                      | None => false
                      end
  end.
Definition lk_before_end (ids : list id) (e : lk_bound) (i : nat) : bool :=
  match e with
  | None => true
  | Some (b, incl) => match lk_index b ids with
                      | Some j => if incl then i <=? j else i <? j
                      | None => false
                      end
  end.
Definition lk_id_in_range (ids : list id) (s e : lk_bound) (a : id) : bool :=
  match lk_index a ids with
  | Some i => lk_after_start ids s i && lk_before_end ids e i
  | None => false
  end.
Definition lk_in_range (st : lk_state) (a : id) : bool :=
  lk_id_in_range (lk_ids (lk_units st)) (lk_start st) (lk_end st) a.

(* what dereference shows / what the store has registered *)
Definition lk_shown (st : lk_state) : list id :=
  map fst (filter (fun u => snd u && lk_in_range st (fst u)) (lk_units st)).
Definition lk_registered (st : lk_state) : list id := lk_reg st.

(* the same range as `quoted` of Crdt/Local.v computes it (LinksProofs: lk_shown_quoted, lk_quoted_local) *)
Fixpoint lk_drop_until (a : id) (incl : bool) (l : list lk_unit) : list lk_unit :=
  match l with
  | [] => []
  | x :: r => if id_eqb (fst x) a then (if incl then l else r) else lk_drop_until a incl r
  end.
Fixpoint lk_take_until (a : id) (incl : bool) (l : list lk_unit) : list lk_unit :=
  match l with
  | [] => []
  | x :: r => if id_eqb (fst x) a then (if incl then [x] else []) else x :: lk_take_until a incl r
  end.
Definition lk_segment (l : list lk_unit) (s e : lk_bound) : list lk_unit :=
  let l1 := match s with Some (a, incl) => lk_drop_until a incl l | None => l end in
  match e with Some (a, incl) => lk_take_until a incl l1 | None => l1 end.
Definition lk_quoted (l : list lk_unit) (s e : lk_bound) : list lk_unit :=
  filter (fun u => snd u) (lk_segment l s e).

(* ---------- well-formedness ---------- *)
Fixpoint lk_nodup (l : list id) : bool :=
  match l with [] => true | a :: r => negb (lk_mem a r) && lk_nodup r end.
Definition lk_bound_present (ids : list id) (b : lk_bound) : bool :=
  match b with Some (a, _) => lk_mem a ids | None => true end.
(* start boundary not after the end boundary; on the same unit the start has to be inclusive
   ((a, a] and (a, a) make RangeIter run past the end boundary) *)
Definition lk_bounds_ordered (ids : list id) (s e : lk_bound) : bool :=
  match s, e with
  | Some (a, ia), Some (b, _) =>
      match lk_index a ids, lk_index b ids with
      | Some i, Some j => (i <? j) || ((i =? j) && ia)
      | _, _ => false
      end
  | _, _ => true
  end.
Definition lk_wf (st : lk_state) : bool :=
  let ids := lk_ids (lk_units st) in
  lk_nodup ids && lk_bound_present ids (lk_start st) && lk_bound_present ids (lk_end st)
  && lk_bounds_ordered ids (lk_start st) (lk_end st).

(* at least one unit (live or tombstone) lies in the range *)
Definition lk_nonempty (st : lk_state) : bool := existsb (lk_in_range st) (lk_ids (lk_units st)).
(* no tombstone lies in the range *)
Definition lk_no_tombstone_in_range (st : lk_state) : bool :=
  forallb (fun u => snd u || negb (lk_in_range st (fst u))) (lk_units st).

(* ---------- operations ---------- *)
(* LinkSource::materialize: every unit of the range, tombstones included *)
Definition lk_materialize (st : lk_state) : lk_state :=
  lk_mk (lk_units st) (lk_start st) (lk_end st) (filter (lk_in_range st) (lk_ids (lk_units st))).

(* join_linked_range for one quotation: L, R = direct neighbours (None at the ends of the sequence) *)
Definition lk_links (s e : lk_bound) (reg : list id) (L R : option id) : bool :=
  let lreg := match L with Some a => lk_mem a reg | None => false end in
  let rreg := match R with Some a => lk_mem a reg | None => false end in
  let end_excl := match e with Some (_, false) => true | _ => false end in
  let end_open := match e, R with None, None => true | _, _ => false end in
  let at_start := match s with
                  | Some (a, false) => match L with Some x => id_eqb x a | None => false end
                  | Some (_, true) => false
                  | None => match L with None => true | Some _ => false end
                  end in
  (lreg && rreg)                                   (* r1 *)
  || (lreg && negb rreg && (end_excl || end_open)) (* r2 (R not registered or absent), r4 *)
  || (rreg && negb lreg && at_start).              (* r3, r5 *)

Fixpoint lk_insert_at {A : Type} (p : nat) (x : A) (l : list A) : list A :=
  match p, l with
  | 0, _ => x :: l
  | S p', y :: r => y :: lk_insert_at p' x r
  | S _, [] => [x]
  end.
Definition lk_nbr (l : list lk_unit) (k : nat) : option id := option_map fst (nth_error l k).
Definition lk_left (l : list lk_unit) (p : nat) : option id :=
  match p with 0 => None | S k => lk_nbr l k end.

(* integrate a new live unit at list position pos (no-op when the id exists or pos is out of bounds) *)
Definition lk_insert (st : lk_state) (pos : nat) (n : id) : lk_state :=
  let l := lk_units st in
  if lk_mem n (lk_ids l) || (length l <? pos) then st else
  lk_mk (lk_insert_at pos (n, true) l) (lk_start st) (lk_end st)
        (if lk_links (lk_start st) (lk_end st) (lk_reg st) (lk_left l pos) (lk_nbr l pos)
         then n :: lk_reg st else lk_reg st).

Definition lk_is_live (l : list lk_unit) (a : id) : bool :=
  existsb (fun u => id_eqb (fst u) a && snd u) l.
Definition lk_mark (a : id) (l : list lk_unit) : list lk_unit :=
  map (fun u => if id_eqb (fst u) a then (fst u, false) else u) l.
Definition lk_remove (a : id) (l : list id) : list id := filter (fun b => negb (id_eqb b a)) l.

(* TransactionMut::delete: nothing happens for a unit that is deleted already (or unknown) *)
Definition lk_delete (st : lk_state) (a : id) : lk_state :=
  if lk_is_live (lk_units st) a
  then lk_mk (lk_mark a (lk_units st)) (lk_start st) (lk_end st) (lk_remove a (lk_reg st))
  else st.

Inductive lk_op := lk_ins (pos : nat) (n : id) | lk_del (a : id).
Definition lk_step (st : lk_state) (o : lk_op) : lk_state :=
  match o with lk_ins p n => lk_insert st p n | lk_del a => lk_delete st a end.
Definition lk_run (st : lk_state) (ops : list lk_op) : lk_state := fold_left lk_step ops st.

(* no operation of the run deletes a unit of the range *)
Fixpoint lk_safe_run (st : lk_state) (ops : list lk_op) : bool :=
  match ops with
  | [] => true
  | o :: r => match o with lk_del a => negb (lk_in_range st a) | lk_ins _ _ => true end
              && lk_safe_run (lk_step st o) r
  end.

(* does the step change the registered set (= are the observers of the quotation notified)? *)
Definition lk_step_notifies (st : lk_state) (o : lk_op) : bool :=
  match o with
  | lk_ins p n =>
      negb (lk_mem n (lk_ids (lk_units st)) || (length (lk_units st) <? p))
      && lk_links (lk_start st) (lk_end st) (lk_reg st) (lk_left (lk_units st) p) (lk_nbr (lk_units st) p)
  | lk_del a => lk_mem a (lk_reg st) && lk_is_live (lk_units st) a
  end.
Fixpoint lk_run_notifies (st : lk_state) (ops : list lk_op) : bool :=
  match ops with
  | [] => false
  | o :: r => lk_step_notifies st o || lk_run_notifies (lk_step st o) r
  end.

(* shown ⊆ registered, as a boolean *)
Definition lk_complete (st : lk_state) : bool :=
  forallb (fun a => lk_mem a (lk_registered st)) (lk_shown st).
(* registered ⊆ shown *)
Definition lk_sound (st : lk_state) : bool :=
  forallb (fun a => lk_mem a (lk_shown st)) (lk_registered st).

(* ---------- the oracle for a step of a real execution ---------- *)
(* before / after: the units of the sequence in document order (tombstones included) before and after the
   step; reg: the registered ids before the step.  A unit of `after` whose id is not in `before` is new; its
   neighbours for the rule are the nearest units of `after` on either side that existed before. *)
Fixpoint lk_next_old (old : list id) (l : list lk_unit) : option id :=
  match l with
  | [] => None
  | u :: r => if lk_mem (fst u) old then Some (fst u) else lk_next_old old r
  end.
(* ids of the new units the rule registers *)
Fixpoint lk_added (s e : lk_bound) (reg old : list id) (prev : option id) (l : list lk_unit) : list id :=
  match l with
  | [] => []
  | u :: r => if lk_mem (fst u) old then lk_added s e reg old (Some (fst u)) r
              else (if lk_links s e reg prev (lk_next_old old r) then [fst u] else [])
                   ++ lk_added s e reg old prev r
  end.
(* registered units that were live before and are not live after *)
Definition lk_removed (before after : list lk_unit) (reg : list id) : list id :=
  filter (fun a => lk_is_live before a && negb (lk_is_live after a)) reg.

Definition lk_notify_units (before after : list lk_unit) (reg : list id) (s e : lk_bound) : bool :=
  negb (match lk_removed before after reg with [] => true | _ => false end)
  || negb (match lk_added s e reg (lk_ids before) None after with [] => true | _ => false end).
Definition lk_next_reg_units (before after : list lk_unit) (reg : list id) (s e : lk_bound) : list id :=
  filter (lk_is_live after) (lk_added s e reg (lk_ids before) None after)
  ++ filter (fun a => negb (lk_mem a (lk_removed before after reg))) reg.

(* simple argument types: ids are (client, clock) pairs *)
Definition lk_of_pair (p : N * N) : id := mkid (fst p) (snd p).
Definition lk_to_pair (a : id) : N * N := (cl a, ck a).
Definition lk_of_units (l : list ((N * N) * bool)) : list lk_unit := map (fun u => (lk_of_pair (fst u), snd u)) l.
Definition lk_of_bound (b : option ((N * N) * bool)) : lk_bound :=
  match b with Some (p, incl) => Some (lk_of_pair p, incl) | None => None end.

Definition lk_should_notify (before : list ((N * N) * bool)) (reg : list (N * N))
    (after : list ((N * N) * bool)) (s e : option ((N * N) * bool)) : bool :=
  lk_notify_units (lk_of_units before) (lk_of_units after) (map lk_of_pair reg) (lk_of_bound s) (lk_of_bound e).
(* the registered ids after the step (exact for a step that is one insertion or deletions only) *)
Definition lk_next_registered (before : list ((N * N) * bool)) (reg : list (N * N))
    (after : list ((N * N) * bool)) (s e : option ((N * N) * bool)) : list (N * N) :=
  map lk_to_pair (lk_next_reg_units (lk_of_units before) (lk_of_units after) (map lk_of_pair reg)
                    (lk_of_bound s) (lk_of_bound e)).
(* the registered ids right after the quotation is created (LinkSource::materialize) *)
Definition lk_initial_registered (units : list ((N * N) * bool)) (s e : option ((N * N) * bool)) : list (N * N) :=
  map lk_to_pair (lk_registered (lk_materialize (lk_mk (lk_of_units units) (lk_of_bound s) (lk_of_bound e) []))).
