(* Theorems about the transcription of TransactionMut::apply_delete (ApplyDelete.v).
   Stdlib only; no axioms. *)
From Coq Require Import List NArith ZArith Bool Lia ZifyBool ZifyN ZifyNat Sorted Permutation.
From YV Require Import Lib.Bytes Codec.UpdateV1 Ids.Ranges Ids.RangesProofs Crdt.Doc Crdt.Merge Crdt.MergeProofs
  Crdt.YataProofs Crdt.MapProofs.
From YV Require Import Crdt.ApplyDelete.
Import ListNotations.
Open Scope N_scope.

Arguments N.add : simpl never.
Arguments N.sub : simpl never.
Arguments N.mul : simpl never.
Arguments N.div : simpl never.
Arguments N.modulo : simpl never.
Arguments N.eqb : simpl never.
Arguments N.ltb : simpl never.
Arguments N.leb : simpl never.
Arguments N.max : simpl never.
Arguments N.min : simpl never.
Arguments Nat.div : simpl never.
Arguments N.of_nat : simpl never.
Arguments N.to_nat : simpl never.

Definition adl_inr (s e k : N) : bool := (s <=? k) && (k <? e).

(* ====================================================================== *)
(* A. the result monad, u32                                                *)
(* ====================================================================== *)
Lemma adl_add32_ok a b : a + b <= adl_u32_max -> adl_add32 a b = adl_ok (a + b).
Proof. intros H. unfold adl_add32. destruct (N.leb_spec (a + b) adl_u32_max); [reflexivity|lia]. Qed.
Lemma adl_sub32_ok a b : b <= a -> adl_sub32 a b = adl_ok (a - b).
Proof. intros H. unfold adl_sub32. destruct (N.leb_spec b a); [reflexivity|lia]. Qed.

Ltac adl_blk b := let c := fresh "c" in let l := fresh "l" in let kd := fresh "kd" in destruct b as [[c l] kd].
Ltac adl_simp := cbn [adl_bclock adl_blen adl_bkind fst snd] in *.

(* ====================================================================== *)
(* B. lists, contiguous block lists                                        *)
(* ====================================================================== *)
Lemma adl_firstn_len {A} (a b : list A) : firstn (length a) (a ++ b) = a.
Proof. induction a as [|x a IH]; [destruct b; reflexivity|cbn; now rewrite IH]. Qed.
Lemma adl_skipn_len {A} (a b : list A) : skipn (length a) (a ++ b) = b.
Proof. induction a as [|x a IH]; [reflexivity|exact IH]. Qed.
Lemma adl_nth_len {A} (a : list A) x b : nth_error (a ++ x :: b) (length a) = Some x.
Proof. induction a as [|y a IH]; [reflexivity|exact IH]. Qed.
Lemma adl_app_cons {A} (p : list A) x r : p ++ x :: r = (p ++ [x]) ++ r.
Proof. now rewrite <- app_assoc. Qed.
Lemma adl_len_snoc {A} (p : list A) x : length (p ++ [x]) = S (length p).
Proof. rewrite app_length. cbn. lia. Qed.

Lemma adl_set_nth_len {A} (a : list A) x y b : adl_set_nth (a ++ x :: b) (length a) y = a ++ y :: b.
Proof.
  unfold adl_set_nth. rewrite adl_firstn_len. f_equal. f_equal.
  rewrite (adl_app_cons a x b), <- (adl_len_snoc a x). apply adl_skipn_len.
Qed.
Lemma adl_insert_at_len {A} (a : list A) x y b :
  adl_insert_at (a ++ x :: b) (S (length a)) y = a ++ x :: y :: b.
Proof.
  unfold adl_insert_at. rewrite (adl_app_cons a x b), <- (adl_len_snoc a x), adl_firstn_len, adl_skipn_len.
  now rewrite <- app_assoc.
Qed.

Lemma adl_contig_cons a b r : adl_contig a (b :: r) = true <->
  adl_bclock b = a /\ 0 < adl_blen b /\ adl_contig (a + adl_blen b) r = true.
Proof. cbn [adl_contig]. rewrite !andb_true_iff. intuition lia. Qed.

Lemma adl_contig_app a x y : adl_contig a (x ++ y) = adl_contig a x && adl_contig (adl_end a x) y.
Proof.
  revert a. induction x as [|b x IH]; intros a; cbn [app adl_contig adl_end]; [reflexivity|].
  rewrite IH. now rewrite andb_assoc.
Qed.
Lemma adl_end_app a x y : adl_end a (x ++ y) = adl_end (adl_end a x) y.
Proof. revert a. induction x as [|b x IH]; intros a; cbn [app adl_end]; [reflexivity|apply IH]. Qed.
Lemma adl_end_ge bl : forall a, a <= adl_end a bl.
Proof. induction bl as [|b bl IH]; intros a; cbn [adl_end]; [lia|]. specialize (IH (a + adl_blen b)). lia. Qed.

Lemma adl_contig_mid a (pre : adl_blist) b (r : adl_blist) : adl_contig a (pre ++ b :: r) = true ->
  adl_contig a pre = true /\ adl_bclock b = adl_end a pre /\ 0 < adl_blen b /\
  adl_contig (adl_end a pre + adl_blen b) r = true.
Proof.
  rewrite adl_contig_app. cbn [adl_contig]. rewrite !andb_true_iff. intros (H1 & (H2 & H3) & H4).
  repeat split; try assumption; lia.
Qed.

Lemma adl_end_mid a (pre : adl_blist) b (r : adl_blist) : adl_end a (pre ++ b :: r) = adl_end (adl_end a pre + adl_blen b) r.
Proof. rewrite adl_end_app. reflexivity. Qed.

(* every block lies inside [a, end) *)
Lemma adl_contig_in bl : forall a b, adl_contig a bl = true -> In b bl ->
  a <= adl_bclock b /\ adl_bclock b + adl_blen b <= adl_end a bl /\ 0 < adl_blen b.
Proof.
  induction bl as [|x bl IH]; intros a b Hc Hin; [destruct Hin|].
  apply adl_contig_cons in Hc. destruct Hc as (Hc1 & Hc2 & Hc3). cbn [adl_end]. destruct Hin as [->|Hin].
  - pose proof (adl_end_ge bl (a + adl_blen b)). lia.
  - destruct (IH (a + adl_blen x) b) as (H1 & H2 & H3); [exact Hc3|exact Hin|]. lia.
Qed.

(* blocks are in ascending order *)
Lemma adl_contig_mono bl : forall a i j bi bj, adl_contig a bl = true ->
  nth_error bl i = Some bi -> nth_error bl j = Some bj -> (i < j)%nat ->
  adl_bclock bi + adl_blen bi <= adl_bclock bj.
Proof.
  induction bl as [|x bl IH]; intros a i j bi bj Hc Hi Hj Hij; [destruct i; discriminate|].
  apply adl_contig_cons in Hc. destruct Hc as (Hc1 & Hc2 & Hc3).
  destruct j as [|j]; [lia|]. cbn [nth_error] in Hj. destruct i as [|i].
  - cbn [nth_error] in Hi. injection Hi as <-. apply nth_error_In in Hj.
    destruct (adl_contig_in bl (a + adl_blen x) bj) as (H1 & _); [exact Hc3|exact Hj|]. lia.
  - cbn [nth_error] in Hi. apply (IH (a + adl_blen x) i j); [exact Hc3|assumption|assumption|lia].
Qed.

(* every clock inside [a, end) is covered *)
Lemma adl_contig_cover bl : forall a k, adl_contig a bl = true -> a <= k < adl_end a bl ->
  exists pre b r, bl = pre ++ b :: r /\ adl_bclock b <= k < adl_bclock b + adl_blen b.
Proof.
  induction bl as [|x bl IH]; intros a k Hc Hk; [cbn [adl_end] in Hk; lia|].
  apply adl_contig_cons in Hc. destruct Hc as (Hc1 & Hc2 & Hc3). cbn [adl_end] in Hk.
  destruct (N.ltb_spec k (a + adl_blen x)).
  - exists [], x, bl. split; [reflexivity|lia].
  - destruct (IH (a + adl_blen x) k) as (pre & b & r & -> & Hb); [exact Hc3|lia|].
    exists (x :: pre), b, r. split; [reflexivity|exact Hb].
Qed.

(* ====================================================================== *)
(* C. find_index                                                           *)
(* ====================================================================== *)
Lemma adl_half_between a b : (a <= b -> a <= Nat.div (a + b) 2 <= b)%nat.
Proof.
  intros H. pose proof (Nat.div_mod (a + b) 2 ltac:(lia)) as E.
  pose proof (Nat.mod_upper_bound (a + b) 2 ltac:(lia)). lia.
Qed.

Lemma adl_clock_range_ok bl a b : adl_contig a bl = true -> adl_end a bl <= adl_u32_max -> In b bl ->
  adl_clock_range b = adl_ok (adl_bclock b, adl_bclock b + adl_blen b - 1).
Proof.
  intros Hc He Hin. destruct (adl_contig_in bl a b Hc Hin) as (H1 & H2 & H3).
  unfold adl_clock_range. rewrite adl_add32_ok by lia. cbn [adl_bind]. rewrite adl_sub32_ok by lia. reflexivity.
Qed.

Lemma adl_fi_loop_ok bl k t b : adl_contig 0 bl = true -> adl_end 0 bl <= adl_u32_max ->
  nth_error bl t = Some b -> adl_bclock b <= k < adl_bclock b + adl_blen b ->
  forall fuel lft rgt mid, (lft <= t <= rgt)%nat -> (lft <= mid <= rgt)%nat -> (rgt < length bl)%nat ->
  (rgt - lft < fuel)%nat -> adl_fi_loop fuel bl k lft rgt mid = adl_ok (Some t).
Proof.
  intros Hc He Ht Hk. induction fuel as [|f IH]; intros lft rgt mid H1 H2 H3 H4; [lia|].
  cbn [adl_fi_loop]. replace (Nat.leb lft rgt) with true by (symmetry; apply Nat.leb_le; lia).
  destruct (nth_error bl mid) as [bm|] eqn:Em; [|apply nth_error_None in Em; lia].
  rewrite (adl_clock_range_ok bl 0 bm Hc He (nth_error_In _ _ Em)). cbn [adl_bind fst snd].
  destruct (adl_contig_in bl 0 bm Hc (nth_error_In _ _ Em)) as (_ & _ & Hlm).
  destruct (lt_eq_lt_dec mid t) as [[Hlt|Heq]|Hgt].
  - pose proof (adl_contig_mono bl 0 mid t bm b Hc Em Ht Hlt).
    replace (adl_bclock bm <=? k) with true by lia.
    replace (k <=? adl_bclock bm + adl_blen bm - 1) with false by lia.
    apply IH; lia.
  - subst mid. rewrite Ht in Em. injection Em as <-.
    replace (adl_bclock b <=? k) with true by lia.
    replace (k <=? adl_bclock b + adl_blen b - 1) with true by lia. reflexivity.
  - pose proof (adl_contig_mono bl 0 t mid b bm Hc Ht Em Hgt).
    replace (adl_bclock bm <=? k) with false by lia.
    destruct mid as [|m]; [lia|]. apply IH; lia.
Qed.

Theorem adl_find_index_ok (bl : adl_blist) k (pre : adl_blist) b (r : adl_blist) : adl_contig 0 bl = true -> adl_end 0 bl <= adl_u32_max ->
  bl = pre ++ b :: r -> adl_bclock b <= k < adl_bclock b + adl_blen b ->
  adl_find_index bl k = adl_ok (Some (length pre)).
Proof.
  intros Hc He Hbl Hk.
  assert (Ht : nth_error bl (length pre) = Some b) by (subst bl; apply adl_nth_len).
  assert (Hlen : (length pre < length bl)%nat) by (apply nth_error_Some; congruence).
  unfold adl_find_index. destruct (length bl) as [|rgt] eqn:El; [lia|].
  destruct (nth_error bl rgt) as [bz|] eqn:Ez; [|apply nth_error_None in Ez; lia].
  rewrite (adl_clock_range_ok bl 0 bz Hc He (nth_error_In _ _ Ez)). cbn [adl_bind fst snd].
  (* the last block ends where the list ends *)
  assert (Hz : adl_bclock bz + adl_blen bz = adl_end 0 bl /\ 0 < adl_blen bz).
  { destruct (nth_error_split bl rgt Ez) as (p & q & Ebl & Ep).
    assert (q = []) as -> by (destruct q; [reflexivity|rewrite Ebl, app_length in El; cbn in El; lia]).
    rewrite Ebl in Hc |- *. destruct (adl_contig_mid 0 p bz [] Hc) as (_ & Hb & Hl & _).
    rewrite adl_end_mid. cbn [adl_end]. lia. }
  destruct (adl_contig_in bl 0 b Hc (nth_error_In _ _ Ht)) as (_ & Hbe & _).
  destruct (N.eqb_spec (adl_bclock bz) k) as [Eq|Ne].
  - destruct (Nat.eq_dec (length pre) rgt) as [->|Hne]; [reflexivity|].
    pose proof (adl_contig_mono bl 0 (length pre) rgt b bz Hc Ht Ez ltac:(lia)). lia.
  - set (e := adl_bclock bz + adl_blen bz - 1).
    assert (He0 : e <> 0).
    { intros E0. unfold e in E0.
      destruct (adl_contig_in bl 0 bz Hc (nth_error_In _ _ Ez)) as (_ & _ & _). lia. }
    unfold adl_div32. replace (e =? 0) with false by lia. cbn [adl_bind].
    assert (Hq : k / e <= 1) by (apply N.div_le_upper_bound; [exact He0|unfold e; lia]).
    generalize dependent (k / e). intros q Hq.
    pose proof (N.mod_upper_bound (N.of_nat rgt) 4294967296 ltac:(lia)) as Hm.
    pose proof (N.mod_le (N.of_nat rgt) 4294967296 ltac:(lia)) as Hm2.
    generalize dependent (N.of_nat rgt mod 4294967296). intros m Hm Hm2.
    assert (Hmul : q * m <= m).
    { assert (q = 0 \/ q = 1) as [->| ->] by lia; lia. }
    unfold adl_mul32. replace (q * m <=? adl_u32_max) with true by (unfold adl_u32_max; lia).
    cbn [adl_bind].
    apply (adl_fi_loop_ok bl k (length pre) b Hc He Ht Hk); lia.
Qed.

(* ====================================================================== *)
(* D. split_block, delete                                                  *)
(* ====================================================================== *)
Lemma adl_split_block_ok (pre : adl_blist) c l kd (r : adl_blist) off :
  adl_contig 0 (pre ++ (c, l, kd) :: r) = true -> adl_end 0 (pre ++ (c, l, kd) :: r) <= adl_u32_max ->
  0 < off < l ->
  adl_split_block (pre ++ (c, l, kd) :: r) (length pre) off
  = adl_ok (Some (pre ++ (c, off, kd) :: (c + off, l - off, kd) :: r)).
Proof.
  intros Hc He Hoff. unfold adl_split_block. rewrite adl_nth_len. adl_simp.
  rewrite (adl_find_index_ok _ c pre (c, l, kd) r Hc He eq_refl) by (adl_simp; lia).
  cbn [adl_bind]. replace (off =? 0) with false by lia.
  assert (Hin : In (c, l, kd) (pre ++ (c, l, kd) :: r)) by (apply in_or_app; right; now left).
  destruct (adl_contig_in _ 0 _ Hc Hin) as (_ & H2 & _). adl_simp.
  rewrite adl_add32_ok by lia. cbn [adl_bind]. rewrite adl_sub32_ok by lia. cbn [adl_bind].
  rewrite adl_sub32_ok by lia. cbn [adl_bind].
  rewrite adl_set_nth_len.
  match goal with |- context [Nat.leb ?a ?b] => replace (Nat.leb a b) with true
    by (symmetry; apply Nat.leb_le; rewrite app_length; cbn; lia) end.
  rewrite adl_insert_at_len. reflexivity.
Qed.

Lemma adl_delete_live (pre : adl_blist) c l (r : adl_blist) :
  adl_delete (pre ++ (c, l, adl_live) :: r) (length pre) = pre ++ (c, l, adl_dead) :: r.
Proof. unfold adl_delete. rewrite adl_nth_len. adl_simp. apply adl_set_nth_len. Qed.

Lemma adl_contig_kind a (pre : adl_blist) c l k1 k2 (r : adl_blist) :
  adl_contig a (pre ++ (c, l, k1) :: r) = adl_contig a (pre ++ (c, l, k2) :: r).
Proof. rewrite !adl_contig_app. reflexivity. Qed.
Lemma adl_end_kind a (pre : adl_blist) c l k1 k2 (r : adl_blist) :
  adl_end a (pre ++ (c, l, k1) :: r) = adl_end a (pre ++ (c, l, k2) :: r).
Proof. rewrite !adl_end_app. reflexivity. Qed.

(* ====================================================================== *)
(* E. units and marks                                                      *)
(* ====================================================================== *)
Lemma adl_units_app x y : adl_units (x ++ y) = adl_units x ++ adl_units y.
Proof. apply flat_map_app. Qed.
Lemma adl_units_cons b r : adl_units (b :: r) = adl_block_units b ++ adl_units r.
Proof. reflexivity. Qed.

Lemma adl_block_units_in b k kd : In (k, kd) (adl_block_units b) <->
  kd = adl_bkind b /\ adl_bclock b <= k < adl_bclock b + adl_blen b.
Proof.
  unfold adl_block_units. rewrite in_map_iff. split.
  - intros (i & E & Hi). apply in_seq in Hi. injection E as <- <-. split; [reflexivity|lia].
  - intros (-> & Hk). exists (N.to_nat (k - adl_bclock b)). split; [f_equal; lia|]. apply in_seq. lia.
Qed.

Lemma adl_units_in bl k kd : In (k, kd) (adl_units bl) <->
  exists b, In b bl /\ kd = adl_bkind b /\ adl_bclock b <= k < adl_bclock b + adl_blen b.
Proof.
  unfold adl_units. rewrite in_flat_map. split; intros (b & Hb & H); exists b; (split; [exact Hb|]);
    apply adl_block_units_in; exact H.
Qed.

Lemma adl_units_bounds a bl k kd : adl_contig a bl = true -> In (k, kd) (adl_units bl) -> a <= k < adl_end a bl.
Proof.
  intros Hc Hin. apply adl_units_in in Hin. destruct Hin as (b & Hb & _ & Hk).
  destruct (adl_contig_in bl a b Hc Hb) as (H1 & H2 & _). lia.
Qed.

Lemma adl_mark_units_ext f g us :
  (forall k kd, In (k, kd) us -> adl_mark (f k) kd = adl_mark (g k) kd) ->
  adl_mark_units f us = adl_mark_units g us.
Proof.
  intros H. unfold adl_mark_units. apply map_ext_in. intros [k kd] Hin. cbn [fst snd]. f_equal. apply H. exact Hin.
Qed.
Lemma adl_mark_units_false us : adl_mark_units (fun _ => false) us = us.
Proof.
  unfold adl_mark_units. rewrite <- (map_id us) at 2. apply map_ext. intros [k kd]. cbn [fst snd].
  destruct kd; reflexivity.
Qed.
Lemma adl_mark_units_id f us : (forall k kd, In (k, kd) us -> adl_mark (f k) kd = kd) -> adl_mark_units f us = us.
Proof.
  intros H. rewrite <- (adl_mark_units_false us) at 2. apply adl_mark_units_ext. intros k kd Hin.
  rewrite (H k kd Hin). destruct kd; reflexivity.
Qed.
Lemma adl_mark_units_app f x y : adl_mark_units f (x ++ y) = adl_mark_units f x ++ adl_mark_units f y.
Proof. apply map_app. Qed.
Lemma adl_mark_mark a b kd : adl_mark b (adl_mark a kd) = adl_mark (a || b) kd.
Proof. destruct kd, a, b; reflexivity. Qed.
Lemma adl_mark_units_comp f g us :
  adl_mark_units g (adl_mark_units f us) = adl_mark_units (fun k => f k || g k) us.
Proof.
  unfold adl_mark_units. rewrite map_map. apply map_ext. intros [k kd]. cbn [fst snd]. now rewrite adl_mark_mark.
Qed.
Lemma adl_mark_block f c l kd kd' : (forall k, c <= k < c + l -> adl_mark (f k) kd = kd') ->
  adl_mark_units f (adl_block_units (c, l, kd)) = adl_block_units (c, l, kd').
Proof.
  intros H. unfold adl_mark_units, adl_block_units. rewrite map_map. apply map_ext_in. intros i Hi.
  apply in_seq in Hi. adl_simp. f_equal. apply H. lia.
Qed.
Lemma adl_mark_units_keys f us : map fst (adl_mark_units f us) = map fst us.
Proof. unfold adl_mark_units. rewrite map_map. reflexivity. Qed.

Lemma adl_seq_add m : forall n, seq n m = map (Nat.add n) (seq 0 m).
Proof.
  induction m as [|m IH]; intros n; [reflexivity|]. cbn [seq map]. f_equal; [lia|].
  rewrite (IH (S n)), (IH 1%nat), map_map. apply map_ext. intros i. lia.
Qed.

Lemma adl_block_units_split c l kd off : 0 < off < l ->
  adl_block_units (c, l, kd) = adl_block_units (c, off, kd) ++ adl_block_units (c + off, l - off, kd).
Proof.
  intros H. unfold adl_block_units. adl_simp.
  replace (N.to_nat l) with (N.to_nat off + N.to_nat (l - off))%nat by lia.
  rewrite seq_app, map_app. f_equal. rewrite (adl_seq_add _ (0 + N.to_nat off)), map_map.
  apply map_ext. intros i. f_equal. lia.
Qed.

(* ====================================================================== *)
(* F. the unapplied set                                                    *)
(* ====================================================================== *)
Lemma adl_un_insert_ok un client lo len : mrg_ds_ok un -> 0 < len -> lo + len <= adl_u32_max ->
  exists un', adl_un_insert un client lo len = adl_ok un' /\ mrg_ds_ok un' /\
  forall c' k, mrg_ds_mem un' c' k = mrg_ds_mem un c' k || ((c' =? client) && adl_inr lo (lo + len) k).
Proof.
  intros [Hs Hcn] Hl Hb. unfold adl_un_insert. replace (len =? 0) with false by lia.
  rewrite adl_add32_ok by exact Hb. cbn [adl_bind]. unfold im_insert_range.
  set (r := match im_get un client with Some r => r | None => [] end).
  assert (Hr : canon r).
  { unfold r. destruct (im_get un client) as [r0|] eqn:G; [|exact I].
    apply (Hcn client r0). apply mrg_im_get_in. exact G. }
  destruct (insert_with_spec r lo (lo + len) Hr ltac:(lia)) as (r' & E & Hr' & Hd).
  rewrite E. exists (im_set un client r'). split; [reflexivity|].
  destruct (mrg_im_set_spec un client r' Hs) as [S1 S2]. split.
  - split; [exact S1|]. intros c0 r0 Hin. apply S2 in Hin. destruct Hin as [[_ ->]|[_ Hin]]; [exact Hr'|].
    apply (Hcn c0 r0 Hin).
  - intros c' k. rewrite !mrg_ds_mem_den, mrg_im_get_set by exact Hs.
    destruct (N.eqb_spec c' client) as [->|Hne]; cbn [andb].
    + rewrite Hd. unfold r, adl_inr. destruct (im_get un client); reflexivity.
    + now rewrite orb_false_r.
Qed.

(* ====================================================================== *)
(* G. the loop                                                             *)
(* ====================================================================== *)
(* what the loop does to the blocks from [index] on *)
Fixpoint adl_loop_spec (e : N) (rest : adl_blist) : adl_blist :=
  match rest with
  | [] => []
  | (c, l, kd) :: r =>
    if c <? e then
      match kd with
      | adl_live => if e <? c + l
                    then (c, e - c, adl_dead) :: (c + (e - c), l - (e - c), adl_live) :: r
                    else (c, l, adl_dead) :: adl_loop_spec e r
      | _ => (c, l, kd) :: adl_loop_spec e r
      end
    else rest
  end.
(* the clocks it hands to the unapplied set *)
Fixpoint adl_loop_insb (s e : N) (rest : adl_blist) (k : N) : bool :=
  match rest with
  | [] => false
  | (c, l, kd) :: r =>
    if c <? e then
      match kd with
      | adl_live => if e <? c + l then false else adl_loop_insb s e r k
      | adl_skip => adl_inr (N.max c s) (N.max c s + N.min l (e - N.max c s)) k || adl_loop_insb s e r k
      | _ => adl_loop_insb s e r k
      end
    else false
  end.

Lemma adl_ltb_len {A} (p : list A) x r : Nat.ltb (length p) (length (p ++ x :: r)) = true.
Proof. apply Nat.ltb_lt. rewrite app_length. cbn. lia. Qed.

Lemma adl_loop_ok client s e : s < e -> e <= adl_u32_max ->
  forall rest fuel pre un,
  adl_contig 0 (pre ++ rest) = true -> adl_end 0 (pre ++ rest) <= adl_u32_max ->
  mrg_ds_ok un -> (length rest + 2 <= fuel)%nat ->
  exists un', adl_loop fuel client s e (pre ++ rest) (length pre) un
              = adl_ok (pre ++ adl_loop_spec e rest, un')
    /\ mrg_ds_ok un'
    /\ forall c' k, mrg_ds_mem un' c' k = mrg_ds_mem un c' k || ((c' =? client) && adl_loop_insb s e rest k).
Proof.
  intros Hse He. induction rest as [|b rest IH]; intros fuel pre un Hc Hb Hun Hf.
  - destruct fuel as [|f]; [lia|]. cbn [adl_loop adl_loop_spec adl_loop_insb]. rewrite app_nil_r, Nat.ltb_irrefl.
    exists un. split; [reflexivity|]. split; [exact Hun|]. intros c' k. now rewrite andb_false_r, orb_false_r.
  - destruct fuel as [|f]; [cbn [length] in Hf; lia|]. cbn [adl_loop]. rewrite adl_ltb_len, adl_nth_len.
    assert (Hin : In b (pre ++ b :: rest)) by (apply in_or_app; right; now left).
    destruct (adl_contig_in _ 0 _ Hc Hin) as (_ & Hbe & Hbl).
    destruct b as [[c l] kd]. adl_simp. cbn [adl_loop_spec adl_loop_insb].
    (* the next iteration starts from pre ++ [b'] *)
    assert (Hnext : forall b' un1, adl_contig 0 (pre ++ b' :: rest) = true ->
              adl_end 0 (pre ++ b' :: rest) <= adl_u32_max -> mrg_ds_ok un1 ->
              exists un', adl_loop f client s e (pre ++ b' :: rest) (S (length pre)) un1
                          = adl_ok (pre ++ b' :: adl_loop_spec e rest, un')
              /\ mrg_ds_ok un'
              /\ forall c' k, mrg_ds_mem un' c' k
                              = mrg_ds_mem un1 c' k || ((c' =? client) && adl_loop_insb s e rest k)).
    { intros b' un1 Hc' Hb' Hun1. rewrite <- (adl_len_snoc pre b'), (adl_app_cons pre b' rest),
        (adl_app_cons pre b' (adl_loop_spec e rest)).
      apply IH; [rewrite <- adl_app_cons; exact Hc'|rewrite <- adl_app_cons; exact Hb'|exact Hun1|].
      cbn [length] in Hf. lia. }
    destruct (N.ltb_spec c e) as [Hce|Hce].
    2:{ exists un. split; [reflexivity|]. split; [exact Hun|]. intros c' k.
        now rewrite andb_false_r, orb_false_r. }
    destruct kd; cbn [adl_is_deleted adl_is_item adl_bkind negb snd].
    + (* a live item *)
      rewrite adl_add32_ok by lia. cbn [adl_bind]. destruct (N.ltb_spec e (c + l)) as [Hel|Hel].
      * rewrite adl_sub32_ok by lia. cbn [adl_bind].
        rewrite (adl_split_block_ok pre c l adl_live rest (e - c) Hc Hb) by lia. cbn [adl_bind].
        rewrite adl_delete_live.
        destruct f as [|f']; [cbn [length] in Hf; lia|]. cbn [adl_loop].
        rewrite (adl_app_cons pre (c, e - c, adl_dead) ((c + (e - c), l - (e - c), adl_live) :: rest)).
        rewrite <- (adl_len_snoc pre (c, e - c, adl_dead)).
        rewrite adl_ltb_len, adl_nth_len. adl_simp. replace (c + (e - c) <? e) with false by lia.
        exists un. split; [reflexivity|]. split; [exact Hun|]. intros c' k.
        now rewrite andb_false_r, orb_false_r.
      * cbn [adl_bind]. rewrite adl_delete_live.
        apply Hnext; [rewrite (adl_contig_kind _ _ _ _ _ adl_live); exact Hc
                     |rewrite (adl_end_kind _ _ _ _ _ adl_live); exact Hb|exact Hun].
    + apply Hnext; assumption.
    + apply Hnext; assumption.
    + (* a Skip *)
      rewrite adl_sub32_ok by lia. cbn [adl_bind].
      destruct (adl_un_insert_ok un client (N.max c s) (N.min l (e - N.max c s)) Hun ltac:(lia) ltac:(lia))
        as (un1 & E1 & Hun1 & Hm1).
      rewrite E1. cbn [adl_bind].
      destruct (Hnext (c, l, adl_skip) un1 Hc Hb Hun1) as (un' & E' & Hun' & Hm').
      exists un'. split; [exact E'|]. split; [exact Hun'|]. intros c' k. rewrite Hm', Hm1.
      destruct (c' =? client); cbn [andb]; [|now rewrite !orb_false_r]. now rewrite orb_assoc.
Qed.

(* ====================================================================== *)
(* H. what the loop computes                                               *)
(* ====================================================================== *)
Definition adl_skips (bl : adl_blist) : adl_blist := filter adl_is_skip bl.
(* k lies in a Skip block *)
Definition adl_skip_at (bl : adl_blist) (k : N) : bool :=
  existsb (fun b => adl_is_skip b && adl_inr (adl_bclock b) (adl_bclock b + adl_blen b) k) bl.
(* the clocks behind a Skip block that a range starting at s strictly inside that block drags along:
   the code inserts min(block.len, clock_end - clock) clocks from clock on, not block.end - clock *)
Definition adl_over (bl : adl_blist) (s k : N) : bool :=
  existsb (fun b => adl_is_skip b && ((adl_bclock b <? s) && (s <? adl_bclock b + adl_blen b)
                    && adl_inr (adl_bclock b + adl_blen b) (s + adl_blen b) k)) bl.

Lemma adl_existsb_filter {A} (p q : A -> bool) l :
  existsb (fun x => p x && q x) l = existsb q (filter p l).
Proof.
  induction l as [|x l IH]; [reflexivity|]. cbn [existsb filter]. destruct (p x); cbn [existsb andb orb]; now rewrite IH.
Qed.
Lemma adl_skip_at_skips bl bl' k : adl_skips bl' = adl_skips bl -> adl_skip_at bl' k = adl_skip_at bl k.
Proof. intros H. unfold adl_skip_at. rewrite !adl_existsb_filter. unfold adl_skips in H. now rewrite H. Qed.
Lemma adl_over_skips bl bl' s k : adl_skips bl' = adl_skips bl -> adl_over bl' s k = adl_over bl s k.
Proof. intros H. unfold adl_over. rewrite !adl_existsb_filter. unfold adl_skips in H. now rewrite H. Qed.
Lemma adl_skips_app x y : adl_skips (x ++ y) = adl_skips x ++ adl_skips y.
Proof. apply filter_app. Qed.
Lemma adl_skip_at_app x y k : adl_skip_at (x ++ y) k = adl_skip_at x k || adl_skip_at y k.
Proof. apply existsb_app. Qed.
Lemma adl_over_app x y s k : adl_over (x ++ y) s k = adl_over x s k || adl_over y s k.
Proof. apply existsb_app. Qed.

Lemma adl_skip_at_bounds a bl k : adl_contig a bl = true -> adl_skip_at bl k = true -> a <= k < adl_end a bl.
Proof.
  intros Hc H. apply existsb_exists in H. destruct H as (b & Hb & H).
  destruct (adl_contig_in bl a b Hc Hb) as (H1 & H2 & _). unfold adl_inr in H. lia.
Qed.
Lemma adl_skip_at_out a bl k : adl_contig a bl = true -> k < a \/ adl_end a bl <= k -> adl_skip_at bl k = false.
Proof.
  intros Hc Hk. destruct (adl_skip_at bl k) eqn:E; [|reflexivity].
  pose proof (adl_skip_at_bounds a bl k Hc E). lia.
Qed.
Lemma adl_over_none bl s k :
  (forall b, In b bl -> s <= adl_bclock b \/ adl_bclock b + adl_blen b <= s) -> adl_over bl s k = false.
Proof.
  intros H. destruct (adl_over bl s k) eqn:E; [|reflexivity]. apply existsb_exists in E.
  destruct E as (b & Hb & E). specialize (H b Hb). lia.
Qed.
Lemma adl_over_ge a bl s k : adl_contig a bl = true -> s <= a -> adl_over bl s k = false.
Proof. intros Hc Hs. apply adl_over_none. intros b Hb. destruct (adl_contig_in bl a b Hc Hb) as (H1 & _). lia. Qed.
Lemma adl_over_le a bl s k : adl_contig a bl = true -> adl_end a bl <= s -> adl_over bl s k = false.
Proof. intros Hc Hs. apply adl_over_none. intros b Hb. destruct (adl_contig_in bl a b Hc Hb) as (_ & H2 & _). lia. Qed.

Lemma adl_loop_spec_shape e rest : forall a, adl_contig a rest = true ->
  adl_contig a (adl_loop_spec e rest) = true /\ adl_end a (adl_loop_spec e rest) = adl_end a rest
  /\ adl_skips (adl_loop_spec e rest) = adl_skips rest.
Proof.
  induction rest as [|[[c l] kd] r IH]; intros a Hc; [repeat split; assumption|].
  apply adl_contig_cons in Hc. adl_simp. destruct Hc as (-> & Hl & Hc). cbn [adl_loop_spec].
  destruct (N.ltb_spec a e); [|repeat split; try reflexivity; apply adl_contig_cons; adl_simp; auto].
  destruct (IH _ Hc) as (I1 & I2 & I3).
  assert (Hgen : forall kd', kd' = kd \/ (adl_is_skip (a, l, kd') = false /\ adl_is_skip (a, l, kd) = false) ->
            adl_contig a ((a, l, kd') :: adl_loop_spec e r) = true
            /\ adl_end a ((a, l, kd') :: adl_loop_spec e r) = adl_end a ((a, l, kd) :: r)
            /\ adl_skips ((a, l, kd') :: adl_loop_spec e r) = adl_skips ((a, l, kd) :: r)).
  { intros kd' Hk. split; [apply adl_contig_cons; adl_simp; auto|]. split; [cbn [adl_end]; adl_simp; exact I2|].
    unfold adl_skips in *. cbn [filter]. destruct Hk as [->|[-> ->]]; [|exact I3].
    destruct (adl_is_skip (a, l, kd)); now rewrite I3. }
  destruct kd; try (apply Hgen; left; reflexivity).
  destruct (N.ltb_spec e (a + l)); [|apply Hgen; right; split; reflexivity].
  split; [|split].
  - apply adl_contig_cons. adl_simp. split; [reflexivity|]. split; [lia|].
    apply adl_contig_cons. adl_simp. split; [reflexivity|]. split; [lia|].
    replace (a + (e - a) + (l - (e - a))) with (a + l) by lia. exact Hc.
  - cbn [adl_end]. adl_simp. f_equal. lia.
  - reflexivity.
Qed.

Lemma adl_loop_spec_units e rest : forall a, adl_contig a rest = true ->
  adl_units (adl_loop_spec e rest) = adl_mark_units (fun k => k <? e) (adl_units rest).
Proof.
  induction rest as [|[[c l] kd] r IH]; intros a Hc; [reflexivity|].
  pose proof Hc as Hc0. apply adl_contig_cons in Hc. adl_simp. destruct Hc as (-> & Hl & Hc). cbn [adl_loop_spec].
  destruct (N.ltb_spec a e).
  2:{ symmetry. apply adl_mark_units_id. intros k kd' Hin.
      pose proof (adl_units_bounds _ _ _ _ Hc0 Hin). replace (k <? e) with false by lia. destruct kd'; reflexivity. }
  assert (Hgen : forall kd', (forall k, a <= k < a + l -> adl_mark (k <? e) kd = kd') ->
            adl_units ((a, l, kd') :: adl_loop_spec e r)
            = adl_mark_units (fun k => k <? e) (adl_units ((a, l, kd) :: r))).
  { intros kd' Hk. rewrite !adl_units_cons, adl_mark_units_app, (IH _ Hc). f_equal. symmetry.
    apply adl_mark_block. exact Hk. }
  destruct kd; try (apply Hgen; reflexivity).
  destruct (N.ltb_spec e (a + l)).
  - rewrite !adl_units_cons, adl_mark_units_app, app_assoc. f_equal.
    + rewrite (adl_block_units_split a l adl_live (e - a)) by lia. rewrite adl_mark_units_app. f_equal; symmetry.
      * apply adl_mark_block. intros k Hk. replace (k <? e) with true by lia. reflexivity.
      * apply adl_mark_block. intros k Hk. replace (k <? e) with false by lia. reflexivity.
    + symmetry. apply adl_mark_units_id. intros k kd' Hin.
      pose proof (adl_units_bounds _ _ _ _ Hc Hin). replace (k <? e) with false by lia. destruct kd'; reflexivity.
  - apply Hgen. intros k Hk. replace (k <? e) with true by lia. reflexivity.
Qed.

(* behind the start of the range the loop reports exactly the Skip clocks of the range *)
Lemma adl_loop_insb_tail s e k rest : forall a, adl_contig a rest = true -> s <= a ->
  adl_loop_insb s e rest k = adl_inr s e k && adl_skip_at rest k.
Proof.
  induction rest as [|[[c l] kd] r IH]; intros a Hc Hs; [now rewrite andb_false_r|].
  apply adl_contig_cons in Hc. adl_simp. destruct Hc as (-> & Hl & Hc).
  cbn [adl_loop_insb]. unfold adl_skip_at. cbn [existsb]. fold (adl_skip_at r k). adl_simp.
  specialize (IH _ Hc ltac:(lia)).
  pose proof (adl_skip_at_bounds _ r k Hc) as Hb.
  destruct (adl_skip_at r k) eqn:Esk; [specialize (Hb eq_refl)|clear Hb];
    (destruct (N.ltb_spec a e); [|unfold adl_inr in *; lia]);
    destruct kd; cbn [adl_is_skip adl_bkind snd andb orb]; rewrite ?IH;
    try (destruct (N.ltb_spec e (a + l))); unfold adl_inr in *; lia.
Qed.

(* the block that holds the start of the range *)
Lemma adl_loop_insb_head s e k c l kd r : adl_contig c ((c, l, kd) :: r) = true ->
  c <= s < c + l -> (kd = adl_live -> c = s) -> s < e ->
  adl_loop_insb s e ((c, l, kd) :: r) k
  = adl_inr s e k && (adl_skip_at ((c, l, kd) :: r) k || adl_over ((c, l, kd) :: r) s k).
Proof.
  intros Hc Hcs Hlive Hse. apply adl_contig_cons in Hc. adl_simp. destruct Hc as (_ & Hl & Hc).
  cbn [adl_loop_insb]. unfold adl_skip_at, adl_over. cbn [existsb]. fold (adl_skip_at r k) (adl_over r s k). adl_simp.
  rewrite (adl_over_ge _ r s k Hc) by lia. rewrite (adl_loop_insb_tail s e k r _ Hc) by lia.
  pose proof (adl_skip_at_bounds _ r k Hc) as Hb.
  replace (c <? e) with true by lia.
  destruct (adl_skip_at r k) eqn:Esk; [specialize (Hb eq_refl)|clear Hb];
    destruct kd; cbn [adl_is_skip adl_bkind snd andb orb];
    try (specialize (Hlive eq_refl)); try (destruct (N.ltb_spec e (c + l))); unfold adl_inr in *; lia.
Qed.

(* the list after the loop, for a list cut at the start of the range *)
Lemma adl_after_loop s e (pre rest : adl_blist) : adl_contig 0 (pre ++ rest) = true -> s < e ->
  adl_end 0 pre <= s ->
  (forall k kd, In (k, kd) (adl_units rest) -> kd = adl_live -> s <= k) ->
  adl_contig 0 (pre ++ adl_loop_spec e rest) = true
  /\ adl_end 0 (pre ++ adl_loop_spec e rest) = adl_end 0 (pre ++ rest)
  /\ adl_units (pre ++ adl_loop_spec e rest) = adl_mark_units (adl_inr s e) (adl_units (pre ++ rest))
  /\ adl_skips (pre ++ adl_loop_spec e rest) = adl_skips (pre ++ rest).
Proof.
  intros Hc Hse Hpre Hrest. rewrite adl_contig_app in Hc. apply andb_true_iff in Hc. destruct Hc as [Hc1 Hc2].
  destruct (adl_loop_spec_shape e rest _ Hc2) as (S1 & S2 & S3).
  split; [rewrite adl_contig_app, Hc1, S1; reflexivity|].
  split; [rewrite !adl_end_app; exact S2|].
  split; [|rewrite !adl_skips_app, S3; reflexivity].
  rewrite !adl_units_app, adl_mark_units_app, (adl_loop_spec_units e rest _ Hc2). f_equal.
  - symmetry. apply adl_mark_units_id. intros k kd Hin.
    pose proof (adl_units_bounds _ _ _ _ Hc1 Hin). unfold adl_inr. replace (k <? e) with (k <? e) by reflexivity.
    replace (s <=? k) with false by lia. destruct kd; reflexivity.
  - apply adl_mark_units_ext. intros k kd Hin. destruct kd; try reflexivity.
    specialize (Hrest k adl_live Hin eq_refl). unfold adl_inr. replace (s <=? k) with true by lia. reflexivity.
Qed.

(* ====================================================================== *)
(* I. one range                                                            *)
(* ====================================================================== *)
Lemma adl_split_shape a (pre : adl_blist) c l kd (r : adl_blist) off : 0 < off < l ->
  adl_contig a (pre ++ (c, l, kd) :: r) = true ->
  adl_contig a (pre ++ (c, off, kd) :: (c + off, l - off, kd) :: r) = true
  /\ adl_end a (pre ++ (c, off, kd) :: (c + off, l - off, kd) :: r) = adl_end a (pre ++ (c, l, kd) :: r)
  /\ adl_units (pre ++ (c, off, kd) :: (c + off, l - off, kd) :: r) = adl_units (pre ++ (c, l, kd) :: r)
  /\ (kd <> adl_skip ->
      adl_skips (pre ++ (c, off, kd) :: (c + off, l - off, kd) :: r) = adl_skips (pre ++ (c, l, kd) :: r)).
Proof.
  intros Hoff Hc. rewrite adl_contig_app in Hc. apply andb_true_iff in Hc. destruct Hc as [Hc1 Hc2].
  apply adl_contig_cons in Hc2. adl_simp. destruct Hc2 as (Hcc & Hl & Hc2). split; [|split; [|split]].
  - rewrite adl_contig_app, Hc1. cbn [andb]. apply adl_contig_cons. adl_simp. split; [exact Hcc|]. split; [lia|].
    apply adl_contig_cons. adl_simp. split; [lia|]. split; [lia|].
    replace (adl_end a pre + off + (l - off)) with (adl_end a pre + l) by lia. exact Hc2.
  - rewrite !adl_end_app. cbn [adl_end]. adl_simp. f_equal. lia.
  - rewrite !adl_units_app, !adl_units_cons, (adl_block_units_split c l kd off Hoff), <- app_assoc. reflexivity.
  - intros Hk. rewrite !adl_skips_app. f_equal. unfold adl_skips. cbn [filter]. unfold adl_is_skip. adl_simp.
    destruct kd; try reflexivity. congruence.
Qed.

Definition adl_range_rest (bl : adl_blist) (s e k : N) : bool :=
  adl_inr s e k && ((adl_end 0 bl <=? k) || adl_skip_at bl k || adl_over bl s k).

Lemma adl_range_finish client s e (pre : adl_blist) c l kd (r : adl_blist) un1 :
  adl_contig 0 (pre ++ (c, l, kd) :: r) = true -> adl_end 0 (pre ++ (c, l, kd) :: r) <= adl_u32_max ->
  s < e -> e <= adl_u32_max -> mrg_ds_ok un1 ->
  c <= s < c + l -> (kd = adl_live -> c = s) ->
  exists bl' un', adl_loop (S (S (length (pre ++ (c, l, kd) :: r)))) client s e (pre ++ (c, l, kd) :: r)
                    (length pre) un1 = adl_ok (bl', un')
   /\ adl_contig 0 bl' = true /\ adl_end 0 bl' = adl_end 0 (pre ++ (c, l, kd) :: r)
   /\ adl_units bl' = adl_mark_units (adl_inr s e) (adl_units (pre ++ (c, l, kd) :: r))
   /\ adl_skips bl' = adl_skips (pre ++ (c, l, kd) :: r)
   /\ mrg_ds_ok un'
   /\ forall c' k, mrg_ds_mem un' c' k = mrg_ds_mem un1 c' k
        || ((c' =? client) && (adl_inr s e k && (adl_skip_at (pre ++ (c, l, kd) :: r) k
                                               || adl_over (pre ++ (c, l, kd) :: r) s k))).
Proof.
  intros Hc Hb Hse He Hun Hcs Hlive.
  destruct (adl_loop_ok client s e Hse He ((c, l, kd) :: r) (S (S (length (pre ++ (c, l, kd) :: r)))) pre un1
              Hc Hb Hun) as (un' & E & Hun' & Hm).
  { rewrite app_length. lia. }
  pose proof Hc as Hc0. rewrite adl_contig_app in Hc0. apply andb_true_iff in Hc0. destruct Hc0 as [Hc1 Hc2].
  pose proof Hc2 as Hc3. apply adl_contig_cons in Hc3. adl_simp. destruct Hc3 as (Hcc & Hl & Hc3).
  destruct (adl_after_loop s e pre ((c, l, kd) :: r) Hc Hse) as (A1 & A2 & A3 & A4).
  { lia. }
  { intros k kd' Hin Hk. rewrite adl_units_cons in Hin. apply in_app_or in Hin. destruct Hin as [Hin|Hin].
    - apply adl_block_units_in in Hin. adl_simp. destruct Hin as [-> Hin]. specialize (Hlive Hk). lia.
    - pose proof (adl_units_bounds _ _ _ _ Hc3 Hin). lia. }
  exists (pre ++ adl_loop_spec e ((c, l, kd) :: r)), un'. split; [exact E|].
  split; [exact A1|]. split; [exact A2|]. split; [exact A3|]. split; [exact A4|]. split; [exact Hun'|].
  intros c' k. rewrite Hm. f_equal. f_equal.
  assert (Hc2' : adl_contig c ((c, l, kd) :: r) = true) by (rewrite <- Hcc in Hc2; exact Hc2).
  rewrite (adl_loop_insb_head s e k c l kd r Hc2' Hcs Hlive Hse).
  rewrite adl_skip_at_app, adl_over_app, (adl_over_le 0 pre s k Hc1) by lia. cbn [orb].
  destruct (adl_inr s e k) eqn:Ei; [|reflexivity]. cbn [andb].
  rewrite (adl_skip_at_out 0 pre k Hc1) by (unfold adl_inr in Ei; lia). reflexivity.
Qed.

Lemma adl_range_ok client (bl : adl_blist) un s e :
  adl_contig 0 bl = true -> adl_end 0 bl <= adl_u32_max -> s < e -> e <= adl_u32_max -> mrg_ds_ok un ->
  exists bl' un', adl_range client (adl_end 0 bl) (bl, un) (s, e, tt) = adl_ok (bl', un')
   /\ adl_contig 0 bl' = true /\ adl_end 0 bl' = adl_end 0 bl
   /\ adl_units bl' = adl_mark_units (adl_inr s e) (adl_units bl)
   /\ adl_skips bl' = adl_skips bl
   /\ mrg_ds_ok un'
   /\ forall c' k, mrg_ds_mem un' c' k = mrg_ds_mem un c' k || ((c' =? client) && adl_range_rest bl s e k).
Proof.
  intros Hc Hb Hse He Hun. unfold adl_range. cbn [fst snd e_start e_end].
  destruct (N.ltb_spec s (adl_end 0 bl)) as [Hs|Hs].
  - (* the part beyond the clock *)
    assert (H1 : exists un1,
              (if adl_end 0 bl <? e
               then adl_bind (adl_sub32 e (adl_end 0 bl)) (fun d => adl_un_insert un client (adl_end 0 bl) d)
               else adl_ok un) = adl_ok un1 /\ mrg_ds_ok un1 /\
              forall c' k, mrg_ds_mem un1 c' k
                = mrg_ds_mem un c' k || ((c' =? client) && (adl_inr s e k && (adl_end 0 bl <=? k)))).
    { destruct (N.ltb_spec (adl_end 0 bl) e) as [Hst|Hst].
      - rewrite adl_sub32_ok by lia. cbn [adl_bind].
        destruct (adl_un_insert_ok un client (adl_end 0 bl) (e - adl_end 0 bl) Hun ltac:(lia) ltac:(lia))
          as (un1 & E1 & Hun1 & Hm1).
        exists un1. split; [exact E1|]. split; [exact Hun1|]. intros c' k. rewrite Hm1. f_equal. f_equal.
        unfold adl_inr. lia.
      - exists un. split; [reflexivity|]. split; [exact Hun|]. intros c' k.
        replace (adl_inr s e k && (adl_end 0 bl <=? k)) with false by (unfold adl_inr; lia).
        now rewrite andb_false_r, orb_false_r. }
    destruct H1 as (un1 & E1 & Hun1 & Hm1). rewrite E1. cbn [adl_bind].
    destruct (adl_contig_cover bl 0 s Hc ltac:(lia)) as (pre & [[c l] kd] & r & -> & Hcs). adl_simp.
    rewrite (adl_find_index_ok _ s pre (c, l, kd) r Hc Hb eq_refl) by (adl_simp; lia). cbn [adl_bind].
    rewrite adl_nth_len. adl_simp.
    (* the common end *)
    assert (Hfin : forall (bl1 : adl_blist) (pre1 : adl_blist) c1 l1 kd1,
              bl1 = pre1 ++ (c1, l1, kd1) :: r ->
              adl_contig 0 bl1 = true -> adl_end 0 bl1 = adl_end 0 (pre ++ (c, l, kd) :: r) ->
              adl_units bl1 = adl_units (pre ++ (c, l, kd) :: r) ->
              adl_skips bl1 = adl_skips (pre ++ (c, l, kd) :: r) ->
              c1 <= s < c1 + l1 -> (kd1 = adl_live -> c1 = s) ->
              exists bl' un', adl_loop (S (S (length bl1))) client s e bl1 (length pre1) un1 = adl_ok (bl', un')
               /\ adl_contig 0 bl' = true /\ adl_end 0 bl' = adl_end 0 (pre ++ (c, l, kd) :: r)
               /\ adl_units bl' = adl_mark_units (adl_inr s e) (adl_units (pre ++ (c, l, kd) :: r))
               /\ adl_skips bl' = adl_skips (pre ++ (c, l, kd) :: r)
               /\ mrg_ds_ok un'
               /\ forall c' k, mrg_ds_mem un' c' k = mrg_ds_mem un c' k
                    || ((c' =? client) && adl_range_rest (pre ++ (c, l, kd) :: r) s e k)).
    { intros bl1 pre1 c1 l1 kd1 -> Hc1 He1 Hu1 Hs1 Hcs1 Hl1.
      destruct (adl_range_finish client s e pre1 c1 l1 kd1 r un1 Hc1 ltac:(lia) Hse He Hun1 Hcs1 Hl1)
        as (bl' & un' & E & F1 & F2 & F3 & F4 & F5 & F6).
      exists bl', un'. split; [exact E|]. split; [exact F1|]. split; [lia|].
      split; [rewrite F3, Hu1; reflexivity|]. split; [rewrite F4, Hs1; reflexivity|]. split; [exact F5|].
      intros c' k. rewrite F6, Hm1, (adl_skip_at_skips _ _ k Hs1), (adl_over_skips _ _ s k Hs1).
      unfold adl_range_rest. destruct (c' =? client); cbn [andb]; [|now rewrite !orb_false_r].
      rewrite <- orb_assoc. f_equal. destruct (adl_inr s e k); cbn [andb]; [|reflexivity].
      now rewrite orb_assoc. }
    destruct kd; cbn [adl_is_deleted adl_is_item adl_bkind negb andb snd].
    + (* live *)
      destruct (N.ltb_spec c s) as [Hlt|Hge].
      * rewrite adl_sub32_ok by lia. cbn [adl_bind].
        rewrite (adl_split_block_ok pre c l adl_live r (s - c) Hc Hb) by lia. cbn [adl_bind fst snd].
        destruct (adl_split_shape 0 pre c l adl_live r (s - c) ltac:(lia) Hc) as (S1 & S2 & S3 & S4).
        specialize (S4 ltac:(discriminate)).
        rewrite (adl_app_cons pre (c, s - c, adl_live) ((c + (s - c), l - (s - c), adl_live) :: r)) in *.
        rewrite <- (adl_len_snoc pre (c, s - c, adl_live)).
        apply (Hfin _ (pre ++ [(c, s - c, adl_live)]) (c + (s - c)) (l - (s - c)) adl_live eq_refl S1 S2 S3 S4);
          lia.
      * cbn [adl_bind fst snd]. apply (Hfin _ pre c l adl_live eq_refl Hc eq_refl eq_refl eq_refl); lia.
    + cbn [adl_bind fst snd]. apply (Hfin _ pre c l adl_dead eq_refl Hc eq_refl eq_refl eq_refl);
        [lia|discriminate].
    + cbn [adl_bind fst snd]. apply (Hfin _ pre c l adl_gc eq_refl Hc eq_refl eq_refl eq_refl);
        [lia|discriminate].
    + destruct (c <? s); cbn [adl_bind fst snd];
        apply (Hfin _ pre c l adl_skip eq_refl Hc eq_refl eq_refl eq_refl); (lia || discriminate).
  - (* the whole range lies beyond the clock *)
    rewrite adl_sub32_ok by lia. cbn [adl_bind].
    destruct (adl_un_insert_ok un client s (e - s) Hun ltac:(lia) ltac:(lia)) as (un1 & E1 & Hun1 & Hm1).
    rewrite E1. cbn [adl_bind]. exists bl, un1. split; [reflexivity|]. split; [exact Hc|]. split; [reflexivity|].
    split.
    { symmetry. apply adl_mark_units_id. intros k kd Hin. pose proof (adl_units_bounds _ _ _ _ Hc Hin).
      unfold adl_inr. replace (s <=? k) with false by lia. destruct kd; reflexivity. }
    split; [reflexivity|]. split; [exact Hun1|]. intros c' k. rewrite Hm1. f_equal. f_equal.
    unfold adl_range_rest, adl_inr. replace (s + (e - s)) with e by lia.
    destruct (adl_skip_at bl k), (adl_over bl s k); lia.
Qed.

(* ====================================================================== *)
(* J. all ranges of one client                                             *)
(* ====================================================================== *)
Definition adl_client_rest (bl : adl_blist) (r : ranges unit) (k : N) : bool :=
  existsb (fun x => adl_range_rest bl (e_start x) (e_end x) k) r.

Lemma adl_existsb_ext {A} (p q : A -> bool) l : (forall x, In x l -> p x = q x) -> existsb p l = existsb q l.
Proof.
  induction l as [|x l IH]; intros H; [reflexivity|]. cbn [existsb].
  rewrite (H x (or_introl eq_refl)), IH; [reflexivity|]. intros y Hy. apply H. now right.
Qed.

Lemma adl_range_rest_skips bl bl' s e k : adl_skips bl' = adl_skips bl -> adl_end 0 bl' = adl_end 0 bl ->
  adl_range_rest bl' s e k = adl_range_rest bl s e k.
Proof.
  intros H1 H2. unfold adl_range_rest. now rewrite H2, (adl_skip_at_skips _ _ k H1), (adl_over_skips _ _ s k H1).
Qed.

Definition adl_ranges_bounded (r : ranges unit) : Prop :=
  Forall (fun x => e_start x < e_end x /\ e_end x <= adl_u32_max) r.

Lemma adl_ranges_fold client : forall (r : ranges unit) (bl : adl_blist) un,
  adl_ranges_bounded r -> adl_contig 0 bl = true -> adl_end 0 bl <= adl_u32_max -> mrg_ds_ok un ->
  exists bl' un', adl_fold (adl_range client (adl_end 0 bl)) r (bl, un) = adl_ok (bl', un')
   /\ adl_contig 0 bl' = true /\ adl_end 0 bl' = adl_end 0 bl
   /\ adl_units bl' = adl_mark_units (den r) (adl_units bl)
   /\ adl_skips bl' = adl_skips bl
   /\ mrg_ds_ok un'
   /\ forall c' k, mrg_ds_mem un' c' k = mrg_ds_mem un c' k || ((c' =? client) && adl_client_rest bl r k).
Proof.
  induction r as [|[[s e] []] r IH]; intros bl un Hr Hc Hb Hun.
  - exists bl, un. split; [reflexivity|]. split; [exact Hc|]. split; [reflexivity|].
    split; [symmetry; apply adl_mark_units_false|]. split; [reflexivity|]. split; [exact Hun|].
    intros c' k. cbn [adl_client_rest existsb]. now rewrite andb_false_r, orb_false_r.
  - inversion Hr as [|? ? [Hse He] Hr']; subst. cbn [e_start e_end fst snd] in Hse, He. cbn [adl_fold].
    destruct (adl_range_ok client bl un s e Hc Hb Hse He Hun) as (bl1 & un1 & E1 & C1 & B1 & U1 & S1 & O1 & M1).
    rewrite E1. cbn [adl_bind].
    destruct (IH bl1 un1 Hr' C1 ltac:(lia) O1) as (bl2 & un2 & E2 & C2 & B2 & U2 & S2 & O2 & M2).
    rewrite B1 in E2. exists bl2, un2. split; [exact E2|]. split; [exact C2|]. split; [lia|].
    split; [|split; [congruence|split; [exact O2|]]].
    + rewrite U2, U1, adl_mark_units_comp. apply adl_mark_units_ext. intros k kd _. rewrite den_cons3. reflexivity.
    + intros c' k. rewrite M2, M1. cbn [adl_client_rest existsb e_start e_end fst snd].
      fold (adl_client_rest bl r k).
      replace (adl_client_rest bl1 r k) with (adl_client_rest bl r k).
      2:{ unfold adl_client_rest. apply adl_existsb_ext. intros x _. symmetry.
          apply adl_range_rest_skips; assumption. }
      destruct (c' =? client); cbn [andb]; [|now rewrite !orb_false_r]. now rewrite orb_assoc.
Qed.

(* an unknown client: every range is unapplied *)
Lemma adl_unknown_fold client : forall (r : ranges unit) un, adl_ranges_bounded r -> mrg_ds_ok un ->
  exists un', adl_fold (fun un x => adl_bind (adl_sub32 (e_end x) (e_start x))
                                    (fun d => adl_un_insert un client (e_start x) d)) r un = adl_ok un'
   /\ mrg_ds_ok un'
   /\ forall c' k, mrg_ds_mem un' c' k = mrg_ds_mem un c' k || ((c' =? client) && den r k).
Proof.
  induction r as [|[[s e] []] r IH]; intros un Hr Hun.
  - exists un. split; [reflexivity|]. split; [exact Hun|]. intros c' k. rewrite den_nil.
    now rewrite andb_false_r, orb_false_r.
  - inversion Hr as [|? ? [Hse He] Hr']; subst. cbn [e_start e_end fst snd] in Hse, He.
    cbn [adl_fold e_start e_end fst snd]. rewrite adl_sub32_ok by lia. cbn [adl_bind].
    destruct (adl_un_insert_ok un client s (e - s) Hun ltac:(lia) ltac:(lia)) as (un1 & E1 & O1 & M1).
    rewrite E1. cbn [adl_bind]. destruct (IH un1 Hr' O1) as (un2 & E2 & O2 & M2).
    exists un2. split; [exact E2|]. split; [exact O2|]. intros c' k. rewrite M2, M1, den_cons3.
    replace (s + (e - s)) with e by lia. unfold adl_inr.
    destruct (c' =? client); cbn [andb]; [|now rewrite !orb_false_r]. now rewrite orb_assoc.
Qed.

(* ====================================================================== *)
(* K. the store                                                            *)
(* ====================================================================== *)
Lemma adl_last_end bl : forall a, adl_contig a bl = true -> bl <> [] ->
  exists b, adl_last bl = Some b /\ adl_bclock b + adl_blen b = adl_end a bl.
Proof.
  induction bl as [|x bl IH]; intros a Hc Hne; [congruence|].
  apply adl_contig_cons in Hc. destruct Hc as (H1 & H2 & H3). cbn [adl_last adl_end].
  destruct bl as [|y bl'].
  - exists x. split; [reflexivity|]. cbn [adl_end]. lia.
  - apply (IH _ H3). discriminate.
Qed.

Lemma adl_list_clock_ok bl : adl_contig 0 bl = true -> adl_end 0 bl <= adl_u32_max ->
  adl_list_clock bl = adl_ok (adl_end 0 bl).
Proof.
  intros Hc Hb. unfold adl_list_clock. destruct bl as [|x bl]; [reflexivity|].
  destruct (adl_last_end (x :: bl) 0 Hc ltac:(discriminate)) as (b & -> & E).
  unfold adl_next_clock. rewrite adl_add32_ok by lia. now rewrite E.
Qed.

Lemma adl_get_in st c bl : adl_get st c = Some bl -> In (c, bl) st.
Proof.
  induction st as [|[c0 bl0] st IH]; cbn [adl_get]; [discriminate|].
  destruct (N.eqb_spec c0 c) as [->|Hne]; [intros E; injection E as <-; now left|intros E; right; now apply IH].
Qed.

Lemma adl_wf_store_get st c bl : adl_wf_store st = true -> adl_get st c = Some bl ->
  adl_contig 0 bl = true /\ adl_end 0 bl <= adl_u32_max.
Proof.
  unfold adl_wf_store. rewrite andb_true_iff, forallb_forall. intros [_ H] G.
  specialize (H _ (adl_get_in _ _ _ G)). cbn [snd] in H. unfold adl_wf_blist in H.
  apply andb_true_iff in H. destruct H as [H1 H2]. split; [exact H1|lia].
Qed.

Lemma adl_set_keys st c bl : map fst (adl_set st c bl) = map fst st.
Proof.
  induction st as [|[c0 bl0] st IH]; [reflexivity|]. cbn [adl_set].
  destruct (N.eqb_spec c0 c) as [->|Hne]; cbn [map fst]; [reflexivity|now rewrite IH].
Qed.

Lemma adl_wf_store_set st c bl : adl_wf_store st = true -> adl_contig 0 bl = true ->
  adl_end 0 bl <= adl_u32_max -> adl_wf_store (adl_set st c bl) = true.
Proof.
  unfold adl_wf_store. rewrite !andb_true_iff, adl_set_keys. intros [H1 H2] Hc Hb. split; [exact H1|].
  clear H1. induction st as [|[c0 bl0] st IH]; [reflexivity|]. cbn [forallb adl_set snd] in *.
  apply andb_true_iff in H2. destruct H2 as [H2 H3].
  destruct (c0 =? c); cbn [forallb snd]; apply andb_true_iff; split; auto.
  unfold adl_wf_blist. rewrite Hc. cbn [andb]. lia.
Qed.

Lemma adl_get_set_other st c bl c' : c' <> c -> adl_get (adl_set st c bl) c' = adl_get st c'.
Proof.
  intros Hne. induction st as [|[c0 bl0] st IH]; [reflexivity|]. cbn [adl_set adl_get].
  destruct (N.eqb_spec c0 c) as [->|H0]; cbn [adl_get].
  - replace (c =? c') with false by lia. reflexivity.
  - now rewrite IH.
Qed.

Lemma adl_get_none_keys st c : adl_get st c = None -> forall cb, In cb st -> fst cb <> c.
Proof.
  induction st as [|[c0 bl0] st IH]; cbn [adl_get]; intros G cb Hin; [destruct Hin|].
  destruct (N.eqb_spec c0 c) as [->|Hne]; [discriminate|]. destruct Hin as [<-|Hin]; [exact Hne|now apply IH].
Qed.

Lemma adl_nodup_notin c l : existsb (N.eqb c) l = false -> forall x, In x l -> x <> c.
Proof.
  intros H x Hin ->. assert (existsb (N.eqb c) l = true); [|congruence].
  apply existsb_exists. exists c. split; [exact Hin|apply N.eqb_refl].
Qed.

(* writing back the list of client c: the units of that client change, nothing else *)
Lemma adl_set_units st c bl bl' f : adl_nodup (map fst st) = true -> adl_get st c = Some bl ->
  adl_units bl' = adl_mark_units f (adl_units bl) ->
  adl_store_units (adl_set st c bl')
  = map (fun cu => (fst cu, adl_mark_units (fun k => (fst cu =? c) && f k) (snd cu))) (adl_store_units st).
Proof.
  intros Hnd G Hu. induction st as [|[c0 bl0] st IH]; [discriminate|].
  cbn [map fst adl_nodup] in Hnd. apply andb_true_iff in Hnd. destruct Hnd as [Hn1 Hn2].
  apply negb_true_iff in Hn1. cbn [adl_get] in G. cbn [adl_set].
  destruct (N.eqb_spec c0 c) as [->|Hne].
  - injection G as ->. unfold adl_store_units. cbn [map fst snd]. rewrite N.eqb_refl. f_equal.
    + f_equal. rewrite Hu. apply adl_mark_units_ext. intros k kd _. reflexivity.
    + rewrite map_map. apply map_ext_in. intros [c1 bl1] Hin. cbn [fst snd].
      assert (c1 <> c) by (apply (adl_nodup_notin c (map fst st) Hn1); apply (in_map fst _ _ Hin)).
      replace (c1 =? c) with false by lia. cbn [andb]. now rewrite adl_mark_units_false.
  - unfold adl_store_units in *. cbn [map fst snd]. replace (c0 =? c) with false by lia. cbn [andb].
    rewrite adl_mark_units_false. f_equal. apply IH; assumption.
Qed.

Definition adl_client_rest_opt (obl : option adl_blist) (r : ranges unit) (k : N) : bool :=
  match obl with Some bl => adl_client_rest bl r k | None => den r k end.

(* what the rest depends on: the Skip blocks of the list and the clock it has reached *)
Definition adl_sig (obl : option adl_blist) : option (adl_blist * N) :=
  match obl with Some bl => Some (adl_skips bl, adl_end 0 bl) | None => None end.

Lemma adl_client_rest_sig o1 o2 r k : adl_sig o1 = adl_sig o2 ->
  adl_client_rest_opt o1 r k = adl_client_rest_opt o2 r k.
Proof.
  destruct o1 as [b1|], o2 as [b2|]; cbn [adl_sig adl_client_rest_opt]; intros E; try discriminate; [|reflexivity].
  injection E as E1 E2. unfold adl_client_rest. apply adl_existsb_ext. intros x _.
  apply adl_range_rest_skips; assumption.
Qed.

Lemma adl_get_set_same st c bl bl' : adl_get st c = Some bl -> adl_get (adl_set st c bl') c = Some bl'.
Proof.
  induction st as [|[c0 bl0] st IH]; cbn [adl_get adl_set]; [discriminate|].
  destruct (N.eqb_spec c0 c) as [->|Hne]; cbn [adl_get].
  - intros _. now rewrite N.eqb_refl.
  - replace (c0 =? c) with false by lia. exact IH.
Qed.

Lemma adl_client_ok st un c (r : ranges unit) : adl_wf_store st = true -> adl_ranges_bounded r -> mrg_ds_ok un ->
  exists st' un', adl_client (st, un) (c, r) = adl_ok (st', un')
   /\ adl_wf_store st' = true /\ map fst st' = map fst st
   /\ adl_store_units st'
      = map (fun cu => (fst cu, adl_mark_units (fun k => (fst cu =? c) && den r k) (snd cu))) (adl_store_units st)
   /\ (forall c', c' <> c -> adl_get st' c' = adl_get st c')
   /\ (forall c', adl_sig (adl_get st' c') = adl_sig (adl_get st c'))
   /\ mrg_ds_ok un'
   /\ forall c' k, mrg_ds_mem un' c' k
        = mrg_ds_mem un c' k || ((c' =? c) && adl_client_rest_opt (adl_get st c) r k).
Proof.
  intros Hwf Hr Hun. unfold adl_client. cbn [fst snd]. destruct (adl_get st c) as [bl|] eqn:G.
  - destruct (adl_wf_store_get st c bl Hwf G) as [Hc Hb].
    rewrite (adl_list_clock_ok bl Hc Hb). cbn [adl_bind].
    destruct (adl_ranges_fold c r bl un Hr Hc Hb Hun) as (bl' & un' & E & C1 & B1 & U1 & S1 & O1 & M1).
    rewrite E. cbn [adl_bind fst snd]. exists (adl_set st c bl'), un'. split; [reflexivity|].
    split; [apply adl_wf_store_set; [exact Hwf|exact C1|lia]|]. split; [apply adl_set_keys|].
    split; [|split; [intros c' Hne; now apply adl_get_set_other|split; [|split; [exact O1|exact M1]]]].
    + apply (adl_set_units st c bl bl' (den r)); [|exact G|exact U1].
      unfold adl_wf_store in Hwf. apply andb_true_iff in Hwf. apply Hwf.
    + intros c'. destruct (N.eq_dec c' c) as [->|Hne].
      * rewrite (adl_get_set_same st c bl bl' G), G. cbn [adl_sig]. now rewrite S1, B1.
      * now rewrite adl_get_set_other.
  - destruct (adl_unknown_fold c r un Hr Hun) as (un' & E & O1 & M1). rewrite E. cbn [adl_bind].
    exists st, un'. split; [reflexivity|]. split; [exact Hwf|]. split; [reflexivity|].
    split; [|split; [reflexivity|split; [reflexivity|split; [exact O1|exact M1]]]].
    unfold adl_store_units. rewrite map_map. apply map_ext_in. intros [c1 bl1] Hin. cbn [fst snd].
    pose proof (adl_get_none_keys st c G _ Hin) as Hne. cbn [fst] in Hne.
    replace (c1 =? c) with false by lia. cbn [andb]. now rewrite adl_mark_units_false.
Qed.

(* ====================================================================== *)
(* L. the whole delete set                                                 *)
(* ====================================================================== *)
(* a delete set as IdSet keeps it, with clocks inside u32 *)
Definition adl_dsP (ds : idset) : Prop :=
  mrg_ds_ok ds /\ forall c r, In (c, r) ds -> adl_ranges_bounded r.

(* the ids of [ds] that come back unapplied *)
Definition adl_rest_spec (st : adl_store) (ds : idset) (c k : N) : bool :=
  existsb (fun cr => (fst cr =? c) && adl_client_rest_opt (adl_get st (fst cr)) (snd cr) k) ds.

Lemma adl_sorted_nodup (ds : idset) :
  StronglySorted (fun a b : N * idrange => fst a < fst b) ds -> NoDup (map fst ds).
Proof.
  induction 1 as [|x l Hs IH Hf]; [constructor|]. cbn [map]. constructor; [|exact IH].
  intros Hin. apply in_map_iff in Hin. destruct Hin as (y & E & Hy). rewrite Forall_forall in Hf.
  specialize (Hf y Hy). destruct x as [cx rx], y as [cy ry]. cbn [fst] in *. lia.
Qed.

Lemma adl_fold_ok : forall (ds : idset) st un,
  NoDup (map fst ds) -> (forall c r, In (c, r) ds -> adl_ranges_bounded r) ->
  adl_wf_store st = true -> mrg_ds_ok un ->
  exists st' un', adl_fold adl_client ds (st, un) = adl_ok (st', un')
   /\ adl_wf_store st' = true /\ map fst st' = map fst st
   /\ adl_store_units st' = adl_mark_store ds (adl_store_units st)
   /\ (forall c', adl_sig (adl_get st' c') = adl_sig (adl_get st c'))
   /\ mrg_ds_ok un'
   /\ forall c k, mrg_ds_mem un' c k = mrg_ds_mem un c k || adl_rest_spec st ds c k.
Proof.
  induction ds as [|[c r] ds IH]; intros st un Hnd Hr Hwf Hun.
  - exists st, un. split; [reflexivity|]. split; [exact Hwf|]. split; [reflexivity|].
    split.
    { unfold adl_mark_store. rewrite <- (map_id (adl_store_units st)) at 1. apply map_ext. intros [c1 us].
      cbn [fst snd adl_mem existsb]. now rewrite adl_mark_units_false. }
    split; [reflexivity|]. split; [exact Hun|]. intros c k. cbn [adl_rest_spec existsb]. now rewrite orb_false_r.
  - cbn [map fst] in Hnd. inversion Hnd as [|? ? Hnotin Hnd']; subst. cbn [adl_fold].
    destruct (adl_client_ok st un c r Hwf (Hr c r (or_introl eq_refl)) Hun)
      as (st1 & un1 & E1 & W1 & K1 & U1 & G1 & Sg1 & O1 & M1).
    rewrite E1. cbn [adl_bind].
    destruct (IH st1 un1 Hnd' (fun c0 r0 H => Hr c0 r0 (or_intror H)) W1 O1)
      as (st2 & un2 & E2 & W2 & K2 & U2 & Sg2 & O2 & M2).
    exists st2, un2. split; [exact E2|]. split; [exact W2|]. split; [congruence|].
    split; [|split; [intros c'; now rewrite Sg2, Sg1|split; [exact O2|]]].
    + rewrite U2, U1. unfold adl_mark_store. rewrite map_map. apply map_ext. intros [c1 us]. cbn [fst snd].
      f_equal. rewrite adl_mark_units_comp. apply adl_mark_units_ext. intros k kd _. cbn [adl_mem existsb fst snd].
      rewrite (N.eqb_sym c c1). reflexivity.
    + intros c0 k. rewrite M2, M1. cbn [adl_rest_spec existsb fst snd]. rewrite <- orb_assoc. f_equal.
      rewrite (N.eqb_sym c c0). f_equal. unfold adl_rest_spec. apply adl_existsb_ext. intros [c1 r1] Hin.
      cbn [fst snd]. f_equal. apply adl_client_rest_sig. apply Sg1.
Qed.

Lemma adl_dsP_pre ds : adl_dsP ds ->
  NoDup (map fst ds) /\ forall c r, In (c, r) ds -> adl_ranges_bounded r.
Proof. intros [[Hs _] Hb]. split; [apply adl_sorted_nodup; exact Hs|exact Hb]. Qed.

Lemma adl_mem_nil c k : mrg_ds_mem [] c k = false.
Proof. reflexivity. Qed.

(* the boolean predicate on delete sets implies the propositional one *)
Lemma adl_canonb_canon l : adl_canonb l = true -> canon l.
Proof.
  induction l as [|x l IH]; [intros _; exact I|]. cbn [adl_canonb canon]. rewrite !andb_true_iff.
  intros [[H1 H2] H3]. split; [lia|]. split; [|apply IH; exact H3]. destruct l as [|y l']; cbn [lb_ok]; [exact I|lia].
Qed.
Lemma adl_canon_pos l : canon l -> Forall (fun x => e_start x < e_end x) l.
Proof.
  induction l as [|x l IH]; intros H; [constructor|]. cbn [canon] in H. destruct H as (H1 & _ & H3).
  constructor; [exact H1|apply IH; exact H3].
Qed.
Lemma adl_asc_above_sorted (ds : idset) : forall lo, adl_asc_above lo (map fst ds) = true ->
  StronglySorted (fun a b : N * idrange => fst a < fst b) ds /\ Forall (fun x => lo < fst x) ds.
Proof.
  induction ds as [|[c r] ds IH]; intros lo H; [split; constructor|].
  cbn [map fst adl_asc_above] in H. apply andb_true_iff in H. destruct H as [H1 H2].
  destruct (IH c H2) as [I1 I2]. split.
  - constructor; [exact I1|]. exact I2.
  - constructor; [cbn [fst]; lia|]. eapply Forall_impl; [|exact I2]. intros x Hx. cbn beta in Hx. lia.
Qed.
Lemma adl_ds_ok_P ds : adl_ds_ok ds = true -> adl_dsP ds.
Proof.
  unfold adl_ds_ok. rewrite andb_true_iff, forallb_forall. intros [H1 H2]. split; [split|].
  - destruct ds as [|[c r] ds]; [constructor|]. cbn [map fst adl_asc] in H1.
    destruct (adl_asc_above_sorted ds c H1) as [I1 I2]. constructor; assumption.
  - intros c r Hin. specialize (H2 _ Hin). cbn [snd] in H2. apply andb_true_iff in H2.
    apply adl_canonb_canon. apply H2.
  - intros c r Hin. specialize (H2 _ Hin). cbn [snd] in H2. apply andb_true_iff in H2. destruct H2 as [H2 H3].
    pose proof (adl_canon_pos r (adl_canonb_canon r H2)) as Hp. rewrite forallb_forall in H3.
    unfold adl_ranges_bounded. rewrite Forall_forall in *. intros x Hx. split; [apply Hp; exact Hx|].
    specialize (H3 x Hx). lia.
Qed.

(* ---------- the specification of apply_delete, and totality ---------- *)
Theorem adl_apply_delete_spec st ds : adl_wf_store st = true -> adl_dsP ds ->
  exists st' rest, adl_apply_delete_chk st ds = adl_ok (st', rest)
   /\ adl_wf_store st' = true /\ map fst st' = map fst st
   /\ adl_store_units st' = adl_mark_store ds (adl_store_units st)
   /\ (forall c, adl_sig (adl_get st' c) = adl_sig (adl_get st c))
   /\ mrg_ds_ok rest
   /\ forall c k, mrg_ds_mem rest c k = adl_rest_spec st ds c k.
Proof.
  intros Hwf Hds. destruct (adl_dsP_pre ds Hds) as [Hnd Hb].
  destruct (adl_fold_ok ds st [] Hnd Hb Hwf) as (st' & un' & E & W & K & U & Sg & O & M).
  { split; [constructor|intros c r []]. }
  exists st', un'. repeat (split; [assumption|]). intros c k. rewrite M, adl_mem_nil. reflexivity.
Qed.

(* no arithmetic overflow, no index out of range, no exhausted fuel *)
Theorem adl_apply_delete_no_panic st ds : adl_wf_store st = true -> adl_ds_ok ds = true ->
  adl_apply_delete_chk st ds = adl_ok (adl_apply_delete st ds).
Proof.
  intros Hwf Hds. destruct (adl_apply_delete_spec st ds Hwf (adl_ds_ok_P ds Hds)) as (st' & rest & E & _).
  unfold adl_apply_delete. now rewrite E.
Qed.

(* ====================================================================== *)
(* M. lookups                                                              *)
(* ====================================================================== *)
Fixpoint adl_uget (sus : list (N * list (N * adl_kind))) (c : N) : option (list (N * adl_kind)) :=
  match sus with
  | [] => None
  | (c', us) :: r => if c' =? c then Some us else adl_uget r c
  end.

Lemma adl_uget_store st c :
  adl_uget (adl_store_units st) c = match adl_get st c with Some bl => Some (adl_units bl) | None => None end.
Proof.
  induction st as [|[c0 bl0] st IH]; [reflexivity|]. cbn [adl_store_units map fst snd adl_uget adl_get].
  destruct (c0 =? c); [reflexivity|exact IH].
Qed.
Lemma adl_kind_at_uget st c k :
  adl_kind_at st c k = match adl_uget (adl_store_units st) c with Some us => adl_ulookup us k | None => None end.
Proof. unfold adl_kind_at. rewrite adl_uget_store. destruct (adl_get st c); reflexivity. Qed.
Lemma adl_uget_mark ds sus c :
  adl_uget (adl_mark_store ds sus) c
  = match adl_uget sus c with Some us => Some (adl_mark_units (adl_mem ds c) us) | None => None end.
Proof.
  induction sus as [|[c0 us0] sus IH]; [reflexivity|]. cbn [adl_mark_store map fst snd adl_uget].
  destruct (N.eqb_spec c0 c) as [->|Hne]; [reflexivity|exact IH].
Qed.
Lemma adl_ulookup_mark f us k : adl_ulookup (adl_mark_units f us) k
  = match adl_ulookup us k with Some kd => Some (adl_mark (f k) kd) | None => None end.
Proof.
  induction us as [|[k0 kd0] us IH]; [reflexivity|]. cbn [adl_mark_units map fst snd adl_ulookup].
  destruct (N.eqb_spec k0 k) as [->|Hne]; [reflexivity|exact IH].
Qed.

(* the kind of the block that covers k *)
Fixpoint adl_bfind (bl : adl_blist) (k : N) : option adl_kind :=
  match bl with
  | [] => None
  | b :: r => if adl_inr (adl_bclock b) (adl_bclock b + adl_blen b) k then Some (adl_bkind b) else adl_bfind r k
  end.

Lemma adl_ulookup_seq c kd rest k m : forall n,
  adl_ulookup (map (fun i => (c + N.of_nat i, kd)) (seq n m) ++ rest) k
  = if adl_inr (c + N.of_nat n) (c + N.of_nat n + N.of_nat m) k then Some kd else adl_ulookup rest k.
Proof.
  induction m as [|m IH]; intros n.
  - cbn [seq map app]. replace (adl_inr _ _ k) with false by (unfold adl_inr; lia). reflexivity.
  - cbn [seq map app adl_ulookup]. rewrite IH. unfold adl_inr.
    destruct (N.eqb_spec (c + N.of_nat n) k) as [<-|Hne].
    + replace ((c + N.of_nat n <=? c + N.of_nat n) && (c + N.of_nat n <? c + N.of_nat n + N.of_nat (S m)))
        with true by lia. reflexivity.
    + destruct ((c + N.of_nat (S n) <=? k) && (k <? c + N.of_nat (S n) + N.of_nat m)) eqn:E1;
      destruct ((c + N.of_nat n <=? k) && (k <? c + N.of_nat n + N.of_nat (S m))) eqn:E2; try reflexivity; lia.
Qed.

Lemma adl_ulookup_units bl k : adl_ulookup (adl_units bl) k = adl_bfind bl k.
Proof.
  induction bl as [|[[c l] kd] bl IH]; [reflexivity|]. rewrite adl_units_cons. unfold adl_block_units. adl_simp.
  rewrite adl_ulookup_seq, IH. cbn [adl_bfind]. adl_simp.
  replace (c + N.of_nat 0 + N.of_nat (N.to_nat l)) with (c + l) by lia.
  replace (c + N.of_nat 0) with c by lia. reflexivity.
Qed.

Lemma adl_bfind_none bl k : forall a, adl_contig a bl = true ->
  match adl_bfind bl k with None => true | Some _ => false end = negb (adl_inr a (adl_end a bl) k).
Proof.
  induction bl as [|[[c l] kd] bl IH]; intros a Hc.
  - cbn [adl_bfind adl_end]. unfold adl_inr. lia.
  - apply adl_contig_cons in Hc. adl_simp. destruct Hc as (-> & Hl & Hc). cbn [adl_bfind adl_end]. adl_simp.
    pose proof (adl_end_ge bl (a + l)). destruct (adl_inr a (a + l) k) eqn:E.
    + unfold adl_inr in *. lia.
    + rewrite (IH _ Hc). unfold adl_inr in *. lia.
Qed.
Lemma adl_bfind_skip bl k : forall a, adl_contig a bl = true ->
  match adl_bfind bl k with Some adl_skip => true | _ => false end = adl_skip_at bl k.
Proof.
  induction bl as [|[[c l] kd] bl IH]; intros a Hc; [reflexivity|].
  apply adl_contig_cons in Hc. adl_simp. destruct Hc as (-> & Hl & Hc).
  cbn [adl_bfind]. unfold adl_skip_at. cbn [existsb]. fold (adl_skip_at bl k). adl_simp.
  destruct (adl_inr a (a + l) k) eqn:E.
  - rewrite (adl_skip_at_out _ bl k Hc) by (unfold adl_inr in E; lia). destruct kd; reflexivity.
  - rewrite andb_false_r. cbn [orb]. apply (IH _ Hc).
Qed.

(* an id is missing (in a Skip block / not covered): in terms of the block list *)
Lemma adl_missing_known st c k bl : adl_wf_store st = true -> adl_get st c = Some bl ->
  adl_in_skip st c k || adl_unknown st c k = adl_skip_at bl k || (adl_end 0 bl <=? k).
Proof.
  intros Hwf G. destruct (adl_wf_store_get st c bl Hwf G) as [Hc _].
  unfold adl_in_skip, adl_unknown, adl_kind_at. rewrite G, adl_ulookup_units.
  rewrite <- (adl_bfind_skip bl k 0 Hc). pose proof (adl_bfind_none bl k 0 Hc) as Hn.
  destruct (adl_bfind bl k) as [[]|]; unfold adl_inr in Hn; cbn [orb]; lia.
Qed.
Lemma adl_missing_unknown st c k : adl_get st c = None -> adl_in_skip st c k || adl_unknown st c k = true.
Proof. intros G. unfold adl_in_skip, adl_unknown, adl_kind_at. rewrite G. reflexivity. Qed.

(* ---------- membership ---------- *)
Lemma adl_mem_above (ds : idset) lo c k : Forall (fun x => lo < fst x) ds -> c <= lo -> adl_mem ds c k = false.
Proof.
  intros Hf Hc. destruct (adl_mem ds c k) eqn:E; [|reflexivity]. apply existsb_exists in E.
  destruct E as ([c0 r0] & Hin & E). rewrite Forall_forall in Hf. specialize (Hf _ Hin). cbn [fst] in *. lia.
Qed.
Lemma adl_mem_mrg ds c k : mrg_ds_ok ds -> adl_mem ds c k = mrg_ds_mem ds c k.
Proof.
  intros [Hs _]. rewrite mrg_ds_mem_den. induction Hs as [|[c0 r0] ds Hs IH Hf]; [reflexivity|].
  cbn [adl_mem existsb im_get fst snd]. fold (adl_mem ds c k).
  destruct (N.eqb_spec c0 c) as [->|Hne]; cbn [andb orb].
  - rewrite (adl_mem_above ds c c k) by (try exact Hf; lia). now rewrite orb_false_r.
  - destruct (N.ltb_spec c c0); [|exact IH]. apply (adl_mem_above ds c0 c k); [exact Hf|lia].
Qed.

Lemma adl_mem_iff ds c k : adl_mem ds c k = true <->
  exists r x, In (c, r) ds /\ In x r /\ e_start x <= k < e_end x.
Proof.
  unfold adl_mem, adl_range_mem. rewrite existsb_exists. split.
  - intros ([c0 r0] & Hin & E). cbn [fst snd] in E. apply andb_true_iff in E. destruct E as [E1 E2].
    apply N.eqb_eq in E1. subst c0. apply existsb_exists in E2. destruct E2 as (x & Hx & E2).
    exists r0, x. split; [exact Hin|]. split; [exact Hx|lia].
  - intros (r & x & Hin & Hx & Hk). exists (c, r). split; [exact Hin|]. cbn [fst snd].
    rewrite N.eqb_refl. cbn [andb]. apply existsb_exists. exists x. split; [exact Hx|lia].
Qed.

(* ====================================================================== *)
(* N. the theorems                                                         *)
(* ====================================================================== *)
(* adl_apply_delete on well-formed arguments, with everything the spec says *)
Lemma adl_apply_delete_eq st ds : adl_wf_store st = true -> adl_dsP ds ->
  exists st' rest, adl_apply_delete st ds = (st', rest)
   /\ adl_wf_store st' = true /\ map fst st' = map fst st
   /\ adl_store_units st' = adl_mark_store ds (adl_store_units st)
   /\ (forall c, adl_sig (adl_get st' c) = adl_sig (adl_get st c))
   /\ mrg_ds_ok rest
   /\ forall c k, mrg_ds_mem rest c k = adl_rest_spec st ds c k.
Proof.
  intros Hwf Hds. destruct (adl_apply_delete_spec st ds Hwf Hds) as (st' & rest & E & H).
  exists st', rest. split; [unfold adl_apply_delete; now rewrite E|exact H].
Qed.

(* ---------- (a) EXACTNESS ---------- *)
(* the store after apply_delete has the same units per client (the same ids in the same order: blocks are
   only split), and the kind of a unit changes exactly from live to deleted where the delete set has it *)
Theorem adl_exactness_units st ds : adl_wf_store st = true -> adl_dsP ds ->
  adl_store_units (fst (adl_apply_delete st ds)) = adl_mark_store ds (adl_store_units st).
Proof.
  intros Hwf Hds. destruct (adl_apply_delete_eq st ds Hwf Hds) as (st' & rest & E & _ & _ & U & _).
  rewrite E. exact U.
Qed.

Theorem adl_unit_ids_unchanged st ds : adl_wf_store st = true -> adl_dsP ds ->
  map (fun cu => (fst cu, map fst (snd cu))) (adl_store_units (fst (adl_apply_delete st ds)))
  = map (fun cu => (fst cu, map fst (snd cu))) (adl_store_units st).
Proof.
  intros Hwf Hds. rewrite (adl_exactness_units st ds Hwf Hds). unfold adl_mark_store. rewrite map_map.
  apply map_ext. intros [c us]. cbn [fst snd]. now rewrite adl_mark_units_keys.
Qed.

Theorem adl_exactness st ds c k : adl_wf_store st = true -> adl_dsP ds ->
  adl_kind_at (fst (adl_apply_delete st ds)) c k
  = match adl_kind_at st c k with Some kd => Some (adl_mark (adl_mem ds c k) kd) | None => None end.
Proof.
  intros Hwf Hds. rewrite !adl_kind_at_uget, (adl_exactness_units st ds Hwf Hds), adl_uget_mark.
  destruct (adl_uget (adl_store_units st) c) as [us|]; [|reflexivity]. apply adl_ulookup_mark.
Qed.

(* spelled out: an integrated item is deleted afterwards iff it was deleted before or the set contains it;
   GC and Skip units and what the store does not cover stay as they are *)
Theorem adl_exactness_cases st ds c k : adl_wf_store st = true -> adl_dsP ds ->
  let st' := fst (adl_apply_delete st ds) in
  (adl_kind_at st' c k = Some adl_dead <->
     adl_kind_at st c k = Some adl_dead \/ (adl_kind_at st c k = Some adl_live /\ adl_mem ds c k = true))
  /\ (adl_kind_at st' c k = Some adl_live <-> adl_kind_at st c k = Some adl_live /\ adl_mem ds c k = false)
  /\ (adl_kind_at st' c k = Some adl_gc <-> adl_kind_at st c k = Some adl_gc)
  /\ (adl_kind_at st' c k = Some adl_skip <-> adl_kind_at st c k = Some adl_skip)
  /\ (adl_kind_at st' c k = None <-> adl_kind_at st c k = None).
Proof.
  intros Hwf Hds st'. unfold st'. rewrite (adl_exactness st ds c k Hwf Hds).
  destruct (adl_kind_at st c k) as [[]|]; destruct (adl_mem ds c k); cbn [adl_mark];
    repeat split; intros; try discriminate; try tauto; try (intuition discriminate).
Qed.

(* ---------- (b) REST ---------- *)
Lemma adl_range_rest_inr bl s e k : adl_range_rest bl s e k = true -> e_start (s, e, tt) <= k < e_end (s, e, tt).
Proof. unfold adl_range_rest, adl_inr. cbn [e_start e_end fst snd]. lia. Qed.

(* the rest is a subset of the delete set and holds every id of it that is not integrated *)
Theorem adl_rest_sandwich st ds c k : adl_wf_store st = true -> adl_dsP ds ->
  let rest := snd (adl_apply_delete st ds) in
  (mrg_ds_mem rest c k = true -> adl_mem ds c k = true)
  /\ (adl_mem ds c k = true -> adl_in_skip st c k || adl_unknown st c k = true -> mrg_ds_mem rest c k = true).
Proof.
  intros Hwf Hds rest. unfold rest. destruct (adl_apply_delete_eq st ds Hwf Hds) as (st' & rs & E & _ & _ & _ & _ & _ & M).
  rewrite E. cbn [snd]. rewrite M. unfold adl_rest_spec. split.
  - intros H. apply existsb_exists in H. destruct H as ([c0 r0] & Hin & H). cbn [fst snd] in H.
    apply andb_true_iff in H. destruct H as [H1 H2]. apply N.eqb_eq in H1. subst c0.
    apply adl_mem_iff. destruct (adl_get st c) as [bl|]; cbn [adl_client_rest_opt] in H2.
    + unfold adl_client_rest in H2. apply existsb_exists in H2. destruct H2 as ([[s e] []] & Hx & H2).
      cbn [e_start e_end fst snd] in H2. exists r0, (s, e, tt). split; [exact Hin|]. split; [exact Hx|].
      apply (adl_range_rest_inr bl s e k H2).
    + apply den_true_in in H2. destruct H2 as (x & Hx & H2). exists r0, x. split; [exact Hin|]. split; [exact Hx|lia].
  - intros H Hmiss. apply adl_mem_iff in H. destruct H as (r & x & Hin & Hx & Hk).
    apply existsb_exists. exists (c, r). split; [exact Hin|]. cbn [fst snd]. rewrite N.eqb_refl. cbn [andb].
    destruct (adl_get st c) as [bl|] eqn:G; cbn [adl_client_rest_opt].
    + rewrite (adl_missing_known st c k bl Hwf G) in Hmiss. unfold adl_client_rest. apply existsb_exists.
      exists x. split; [exact Hx|]. unfold adl_range_rest, adl_inr.
      destruct (adl_skip_at bl k), (adl_over bl (e_start x) k); cbn [orb] in *; lia.
    + apply den_true_in. exists x. split; [exact Hx|lia].
Qed.

(* ... exactly those, when no range of the delete set starts strictly inside a Skip block *)
Theorem adl_rest_exact st ds c k : adl_wf_store st = true -> adl_dsP ds ->
  adl_starts_in_skip st ds = false ->
  mrg_ds_mem (snd (adl_apply_delete st ds)) c k
  = adl_mem ds c k && (adl_in_skip st c k || adl_unknown st c k).
Proof.
  intros Hwf Hds Hclean. apply bool_eq_iff. split.
  - intros H. apply andb_true_iff. split; [apply (adl_rest_sandwich st ds c k Hwf Hds); exact H|].
    destruct (adl_apply_delete_eq st ds Hwf Hds) as (st' & rs & E & _ & _ & _ & _ & _ & M).
    rewrite E in H. cbn [snd] in H. rewrite M in H. unfold adl_rest_spec in H.
    apply existsb_exists in H. destruct H as ([c0 r0] & Hin & H). cbn [fst snd] in H.
    apply andb_true_iff in H. destruct H as [H1 H2]. apply N.eqb_eq in H1. subst c0.
    destruct (adl_get st c) as [bl|] eqn:G; [|apply adl_missing_unknown; exact G].
    rewrite (adl_missing_known st c k bl Hwf G). cbn [adl_client_rest_opt] in H2.
    unfold adl_client_rest in H2. apply existsb_exists in H2. destruct H2 as (x & Hx & H2).
    unfold adl_range_rest in H2. destruct (adl_over bl (e_start x) k) eqn:Eo;
      [|destruct (adl_skip_at bl k); cbn [orb] in *; lia].
    (* an overshoot needs a range that starts strictly inside a Skip block *)
    exfalso. assert (adl_starts_in_skip st ds = true); [|congruence].
    unfold adl_starts_in_skip. apply existsb_exists. exists (c, r0). split; [exact Hin|]. cbn [fst snd].
    apply existsb_exists. exists x. split; [exact Hx|]. rewrite G. unfold adl_over in Eo.
    apply existsb_exists in Eo. destruct Eo as (b & Hb & Eo). apply existsb_exists. exists b.
    split; [exact Hb|]. destruct (adl_is_skip b); cbn [andb] in *; [lia|discriminate].
  - intros H. apply andb_true_iff in H. destruct H as [H1 H2].
    apply (adl_rest_sandwich st ds c k Hwf Hds); assumption.
Qed.

(* the precise content of the rest in every case: per range of the set, the clocks beyond the known clock,
   the clocks in Skip blocks, and - for a range that starts strictly inside a Skip block of length len -
   the clocks from the end of that block up to start + len (see adl_over) *)
Theorem adl_rest_content st ds c k : adl_wf_store st = true -> adl_dsP ds ->
  mrg_ds_mem (snd (adl_apply_delete st ds)) c k = adl_rest_spec st ds c k.
Proof.
  intros Hwf Hds. destruct (adl_apply_delete_eq st ds Hwf Hds) as (st' & rs & E & _ & _ & _ & _ & _ & M).
  rewrite E. apply M.
Qed.

(* "the rest contains exactly the ids that are not integrated" is false: the witness of scenario s10 *)
Definition adl_cex_st : adl_store := [(1, [(0, 1, adl_live); (1, 4, adl_live); (5, 2, adl_skip); (7, 3, adl_live)])].
Definition adl_cex_ds : idset := [(1, [(6, 9, tt)])].
Theorem adl_rest_exact_refuted :
  adl_wf_store adl_cex_st = true /\ adl_ds_ok adl_cex_ds = true /\
  adl_apply_delete_chk adl_cex_st adl_cex_ds
  = adl_ok ([(1, [(0, 1, adl_live); (1, 4, adl_live); (5, 2, adl_skip); (7, 2, adl_dead); (9, 1, adl_live)])],
            [(1, [(6, 8, tt)])]) /\
  (* the id (1, 7) is an integrated item, apply_delete deletes it, and still hands it back as unapplied *)
  adl_kind_at adl_cex_st 1 7 = Some adl_live /\
  adl_kind_at (fst (adl_apply_delete adl_cex_st adl_cex_ds)) 1 7 = Some adl_dead /\
  mrg_ds_mem (snd (adl_apply_delete adl_cex_st adl_cex_ds)) 1 7 = true /\
  ~ (forall c k, mrg_ds_mem (snd (adl_apply_delete adl_cex_st adl_cex_ds)) c k
                 = adl_mem adl_cex_ds c k && (adl_in_skip adl_cex_st c k || adl_unknown adl_cex_st c k)).
Proof.
  repeat split; try (vm_compute; reflexivity). intros H. specialize (H 1 7). vm_compute in H. discriminate.
Qed.

(* ---------- delete sets built from delete sets ---------- *)
Lemma adl_bounded_mem (r : ranges unit) k : adl_ranges_bounded r -> den r k = true -> k < adl_u32_max.
Proof.
  intros Hb H. apply den_true_in in H. destruct H as (x & Hx & H). unfold adl_ranges_bounded in Hb.
  rewrite Forall_forall in Hb. specialize (Hb x Hx). lia.
Qed.
Lemma adl_dsP_mem_bound ds c k : adl_dsP ds -> adl_mem ds c k = true -> k < adl_u32_max.
Proof.
  intros [_ Hb] H. apply adl_mem_iff in H. destruct H as (r & x & Hin & Hx & Hk).
  specialize (Hb c r Hin). unfold adl_ranges_bounded in Hb. rewrite Forall_forall in Hb. specialize (Hb x Hx). lia.
Qed.
(* a set in IdSet form all of whose members are below u32::MAX is bounded *)
Lemma adl_dsP_of_mem (rs : idset) : mrg_ds_ok rs ->
  (forall c k, mrg_ds_mem rs c k = true -> k < adl_u32_max) -> adl_dsP rs.
Proof.
  intros Hok Hm. split; [exact Hok|]. destruct Hok as [Hs Hc]. intros c r Hin.
  pose proof (Hc c r Hin) as Hcr. pose proof (adl_canon_pos r Hcr) as Hp.
  unfold adl_ranges_bounded. rewrite Forall_forall in *. intros x Hx. specialize (Hp x Hx). split; [exact Hp|].
  assert (Hd : den r (e_end x - 1) = true) by (apply den_true_in; exists x; split; [exact Hx|lia]).
  specialize (Hm c (e_end x - 1)). rewrite mrg_ds_mem_den, (mrg_im_in_get rs c r Hs Hin) in Hm.
  specialize (Hm Hd). lia.
Qed.

Lemma adl_rest_dsP st ds : adl_wf_store st = true -> adl_dsP ds -> adl_dsP (snd (adl_apply_delete st ds)).
Proof.
  intros Hwf Hds. apply adl_dsP_of_mem.
  - destruct (adl_apply_delete_eq st ds Hwf Hds) as (st' & rs & E & _ & _ & _ & _ & O & _). rewrite E. exact O.
  - intros c k H. apply (adl_dsP_mem_bound ds c k Hds). apply (adl_rest_sandwich st ds c k Hwf Hds). exact H.
Qed.

Lemma adl_merge_dsP d1 d2 : adl_dsP d1 -> adl_dsP d2 ->
  adl_dsP (im_merge_with ueq umerge d1 d2)
  /\ forall c k, adl_mem (im_merge_with ueq umerge d1 d2) c k = adl_mem d1 c k || adl_mem d2 c k.
Proof.
  intros H1 H2. destruct (mrg_im_merge_with_spec d2 d1 (proj1 H1) (proj1 H2)) as [M1 M2].
  assert (Hm : forall c k, adl_mem (im_merge_with ueq umerge d1 d2) c k = adl_mem d1 c k || adl_mem d2 c k).
  { intros c k. rewrite !adl_mem_mrg by (try exact M1; try apply H1; apply H2). apply M2. }
  split; [|exact Hm]. apply adl_dsP_of_mem; [exact M1|]. intros c k H. rewrite <- adl_mem_mrg in H by exact M1.
  rewrite Hm in H. apply orb_true_iff in H. destruct H as [H|H];
    [apply (adl_dsP_mem_bound d1 c k H1 H)|apply (adl_dsP_mem_bound d2 c k H2 H)].
Qed.

Lemma adl_mark_store_comp d1 d2 sus : adl_mark_store d2 (adl_mark_store d1 sus)
  = map (fun cu => (fst cu, adl_mark_units (fun k => adl_mem d1 (fst cu) k || adl_mem d2 (fst cu) k) (snd cu))) sus.
Proof.
  unfold adl_mark_store. rewrite map_map. apply map_ext. intros [c us]. cbn [fst snd].
  now rewrite adl_mark_units_comp.
Qed.
Lemma adl_mark_store_ext (f g : N -> N -> bool) sus : (forall c k, f c k = g c k) ->
  map (fun cu => (fst cu, adl_mark_units (f (fst cu)) (snd cu))) sus
  = map (fun cu : N * list (N * adl_kind) => (fst cu, adl_mark_units (g (fst cu)) (snd cu))) sus.
Proof.
  intros H. apply map_ext. intros [c us]. cbn [fst snd]. f_equal. apply adl_mark_units_ext. intros k kd _.
  now rewrite H.
Qed.

Lemma adl_rest_spec_sig st st' ds c k : (forall c, adl_sig (adl_get st' c) = adl_sig (adl_get st c)) ->
  adl_rest_spec st' ds c k = adl_rest_spec st ds c k.
Proof.
  intros H. unfold adl_rest_spec. apply adl_existsb_ext. intros [c0 r0] _. cbn [fst snd]. f_equal.
  apply adl_client_rest_sig. apply H.
Qed.

(* ---------- (c) idempotent ---------- *)
Theorem adl_idempotent st ds : adl_wf_store st = true -> adl_dsP ds ->
  let r1 := adl_apply_delete st ds in
  let r2 := adl_apply_delete (fst r1) ds in
  adl_store_units (fst r2) = adl_store_units (fst r1)
  /\ forall c k, mrg_ds_mem (snd r2) c k = mrg_ds_mem (snd r1) c k.
Proof.
  intros Hwf Hds. cbn zeta.
  destruct (adl_apply_delete_eq st ds Hwf Hds) as (st1 & rs1 & E1 & W1 & _ & U1 & Sg1 & _ & M1).
  rewrite E1. cbn [fst snd].
  destruct (adl_apply_delete_eq st1 ds W1 Hds) as (st2 & rs2 & E2 & _ & _ & U2 & _ & _ & M2).
  rewrite E2. cbn [fst snd]. split.
  - rewrite U2, U1, adl_mark_store_comp. unfold adl_mark_store. apply map_ext. intros [c us]. cbn [fst snd].
    f_equal. apply adl_mark_units_ext. intros k kd _. now rewrite orb_diag.
  - intros c k. rewrite M2, M1. apply adl_rest_spec_sig. exact Sg1.
Qed.

(* ---------- (d) order-insensitive ---------- *)
(* ds1 then ds2 = ds2 then ds1 = the merged set (IdSet::merge_with), as stores up to block splits:
   the same units with the same flags *)
Theorem adl_order_insensitive st ds1 ds2 : adl_wf_store st = true -> adl_dsP ds1 -> adl_dsP ds2 ->
  let a := fst (adl_apply_delete (fst (adl_apply_delete st ds1)) ds2) in
  let b := fst (adl_apply_delete (fst (adl_apply_delete st ds2)) ds1) in
  let m := fst (adl_apply_delete st (im_merge_with ueq umerge ds1 ds2)) in
  adl_store_units a = adl_store_units b /\ adl_store_units a = adl_store_units m.
Proof.
  intros Hwf H1 H2. cbn zeta.
  destruct (adl_apply_delete_eq st ds1 Hwf H1) as (s1 & r1 & E1 & W1 & _ & U1 & _).
  destruct (adl_apply_delete_eq st ds2 Hwf H2) as (s2 & r2 & E2 & W2 & _ & U2 & _).
  rewrite E1, E2. cbn [fst].
  rewrite (adl_exactness_units s1 ds2 W1 H2), (adl_exactness_units s2 ds1 W2 H1), U1, U2, !adl_mark_store_comp.
  destruct (adl_merge_dsP ds1 ds2 H1 H2) as [Hm1 Hm2].
  rewrite (adl_exactness_units st _ Hwf Hm1). unfold adl_mark_store. split.
  - apply (adl_mark_store_ext (fun c k => adl_mem ds1 c k || adl_mem ds2 c k)
                              (fun c k => adl_mem ds2 c k || adl_mem ds1 c k)).
    intros c k. apply orb_comm.
  - apply (adl_mark_store_ext (fun c k => adl_mem ds1 c k || adl_mem ds2 c k)
                              (adl_mem (im_merge_with ueq umerge ds1 ds2))).
    intros c k. now rewrite Hm2.
Qed.

(* ---------- (e) the rest applied later ---------- *)
(* [st0] and [st2]: the store before / after apply_delete, each with the same further material integrated:
   what was an item or GC stays what it is (H1), where the store had a Skip block or nothing both hold the
   same new units (H2).  Applying the rest to [st2] gives the units that applying the whole delete set to
   [st0] gives. *)
Theorem adl_rest_later st ds st0 st2 : adl_wf_store st = true -> adl_dsP ds ->
  adl_wf_store st0 = true -> adl_wf_store st2 = true ->
  let st1 := fst (adl_apply_delete st ds) in
  let rest := snd (adl_apply_delete st ds) in
  (forall c k kd, adl_kind_at st c k = Some kd -> kd <> adl_skip ->
                  adl_kind_at st0 c k = Some kd /\ adl_kind_at st2 c k = adl_kind_at st1 c k) ->
  (forall c k, adl_kind_at st c k = None \/ adl_kind_at st c k = Some adl_skip ->
               adl_kind_at st2 c k = adl_kind_at st0 c k) ->
  forall c k, adl_kind_at (fst (adl_apply_delete st2 rest)) c k
              = adl_kind_at (fst (adl_apply_delete st0 ds)) c k.
Proof.
  intros Hwf Hds W0 W2 st1 rest H1 H2 c k.
  pose proof (adl_rest_dsP st ds Hwf Hds) as Hr. fold rest in Hr.
  rewrite (adl_exactness st2 rest c k W2 Hr), (adl_exactness st0 ds c k W0 Hds).
  destruct (adl_rest_sandwich st ds c k Hwf Hds) as [S1 S2]. fold rest in S1, S2.
  rewrite (adl_mem_mrg rest c k (proj1 Hr)).
  destruct (adl_kind_at st c k) as [kd|] eqn:Ek.
  - destruct kd.
    + destruct (H1 c k adl_live Ek ltac:(discriminate)) as [A B]. rewrite A, B. unfold st1.
      rewrite (adl_exactness st ds c k Hwf Hds), Ek. cbn [adl_mark].
      destruct (adl_mem ds c k) eqn:Em; [reflexivity|].
      destruct (mrg_ds_mem rest c k) eqn:Er; [specialize (S1 eq_refl); congruence|reflexivity].
    + destruct (H1 c k adl_dead Ek ltac:(discriminate)) as [A B]. rewrite A, B. unfold st1.
      rewrite (adl_exactness st ds c k Hwf Hds), Ek. reflexivity.
    + destruct (H1 c k adl_gc Ek ltac:(discriminate)) as [A B]. rewrite A, B. unfold st1.
      rewrite (adl_exactness st ds c k Hwf Hds), Ek. reflexivity.
    + rewrite (H2 c k (or_intror Ek)).
      assert (Hmiss : adl_in_skip st c k || adl_unknown st c k = true)
        by (unfold adl_in_skip, adl_unknown; rewrite Ek; reflexivity).
      destruct (adl_mem ds c k) eqn:Em.
      * rewrite (S2 eq_refl Hmiss). reflexivity.
      * destruct (mrg_ds_mem rest c k) eqn:Er; [specialize (S1 eq_refl); congruence|reflexivity].
  - rewrite (H2 c k (or_introl Ek)).
    assert (Hmiss : adl_in_skip st c k || adl_unknown st c k = true)
      by (unfold adl_in_skip, adl_unknown; rewrite Ek; reflexivity).
    destruct (adl_mem ds c k) eqn:Em.
    + rewrite (S2 eq_refl Hmiss). reflexivity.
    + destruct (mrg_ds_mem rest c k) eqn:Er; [specialize (S1 eq_refl); congruence|reflexivity].
Qed.

(* ====================================================================== *)
(* O. (f) the link to the unit-level model of Crdt/Doc.v                   *)
(* ====================================================================== *)
(* the store is the block-level view of the document [d]:
     live item  <-> an item of d that is not deleted,   deleted item <-> a deleted item of d,
     GC         <-> an id in d_gc,                      Skip / not covered <-> not integrated *)
Definition adl_rep (st : adl_store) (d : doc) : Prop :=
  forall c k,
    match adl_kind_at st c k with
    | Some adl_live => exists key x, find_item (mkid c k) (d_lists d) = Some (key, x) /\ d_del x = false
    | Some adl_dead => exists key x, find_item (mkid c k) (d_lists d) = Some (key, x) /\ d_del x = true
    | Some adl_gc => find_item (mkid c k) (d_lists d) = None /\ mem_id (mkid c k) (d_gc d) = true
    | Some adl_skip | None => integrated d (mkid c k) = false
    end.
(* no nested types: [delete_item] of Doc.v recurses into the children of a deleted type item, the
   transcription of apply_delete does not (ApplyDelete.v, header) *)
Definition adl_flat (d : doc) : Prop := forall i, typb (d_lists d) i = false.

Lemma adl_typb_tle ls1 ls2 i : tle ls1 ls2 -> typb ls1 i = typb ls2 i.
Proof.
  intros H. unfold typb. destruct (find_item i ls1) as [[k x]|] eqn:E.
  - destruct (tle_find_fwd i ls1 ls2 k x H E) as (x' & -> & [Hop _]). apply is_type_op. exact Hop.
  - apply (tle_find_none i ls1 ls2 H) in E. now rewrite E.
Qed.

Lemma adl_delete_all_gc js : forall d, d_gc (delete_all js d) = d_gc d.
Proof.
  induction js as [|j js IH]; intros d; [reflexivity|]. cbn [delete_all fold_left].
  fold (delete_all js (delete_item j d)). now rewrite IH, delete_item_gc.
Qed.
Lemma adl_delete_all_tle js : forall d, tle (d_lists d) (d_lists (delete_all js d)).
Proof.
  induction js as [|j js IH]; intros d; [apply tle_refl|]. cbn [delete_all fold_left].
  fold (delete_all js (delete_item j d)). eapply tle_trans; [apply delete_item_tle|apply IH].
Qed.

(* in a document without nested types a batch of deletions deletes exactly the named items *)
Lemma adl_delete_all_deadb js : forall d i, NoDupKeys d -> NoDupIds d -> adl_flat d ->
  (deadb (d_lists (delete_all js d)) i = true <->
   deadb (d_lists d) i = true \/ (liveb (d_lists d) i = true /\ In i js)).
Proof.
  induction js as [|j js IH]; intros d i Hk Hi Hf.
  - cbn [delete_all fold_left In]. tauto.
  - cbn [delete_all fold_left]. fold (delete_all js (delete_item j d)).
    assert (Hf' : adl_flat (delete_item j d)).
    { intros q. rewrite <- (adl_typb_tle _ _ q (delete_item_tle j d)). apply Hf. }
    rewrite (IH (delete_item j d) i (delete_item_NoDupKeys j d Hk) (delete_item_NoDupIds j d Hi) Hf').
    rewrite (delete_item_spec j d i Hk Hi).
    assert (Hlive : liveb (d_lists (delete_item j d)) i = true ->
                    liveb (d_lists d) i = true).
    { unfold liveb. destruct (find_item i (d_lists (delete_item j d))) as [[k x']|] eqn:E; [|discriminate].
      destruct (tle_find_bwd i _ _ k x' (delete_item_tle j d) E) as (x & -> & [_ Hfl]).
      intros H. apply negb_true_iff in H. apply negb_true_iff. destruct (d_del x); [|reflexivity].
      rewrite Hfl in H by reflexivity. discriminate. }
    split.
    + intros [[H|[H1 H2]]|[H1 H2]].
      * now left.
      * apply (below_nontype _ _ _ (Hf j)) in H2. subst i. right. split; [exact H1|now left].
      * right. split; [apply Hlive; exact H1|now right].
    + intros [H|[H1 [->|H2]]].
      * left. now left.
      * left. right. split; [exact H1|apply below_self].
      * destruct (deadb (d_lists (delete_item j d)) i) eqn:Ed; [left|].
        -- apply (delete_item_spec j d i Hk Hi). exact Ed.
        -- right. split; [|exact H2]. unfold liveb, deadb in *.
           destruct (find_item i (d_lists d)) as [[k x]|] eqn:E; [|discriminate].
           destruct (tle_find_fwd i _ _ k x (delete_item_tle j d) E) as (x' & E' & _). rewrite E' in *.
           now rewrite Ed.
Qed.

Lemma adl_ds_points_mem (s : idset) c k : In (mkid c k) (ds_points s) <-> adl_mem s c k = true.
Proof.
  rewrite adl_mem_iff. unfold ds_points. rewrite in_flat_map. split.
  - intros ([c0 r0] & Hin & H). apply in_flat_map in H. destruct H as (x & Hx & H).
    apply in_map_iff in H. destruct H as (j & E & Hj). apply in_seq in Hj. cbn [fst snd] in *.
    injection E as <- <-. exists r0, x. split; [exact Hin|]. split; [exact Hx|lia].
  - intros (r & x & Hin & Hx & Hk). exists (c, r). split; [exact Hin|]. apply in_flat_map. exists x.
    split; [exact Hx|]. apply in_map_iff. exists (N.to_nat (k - e_start x)). cbn [fst].
    split; [f_equal; lia|]. apply in_seq. lia.
Qed.

(* (f) the units view commutes with apply_ds of Crdt/Doc.v on the integrated part *)
Theorem adl_units_commute st ds d : adl_wf_store st = true -> adl_dsP ds ->
  NoDupKeys d -> NoDupIds d -> adl_flat d ->
  adl_rep st d -> adl_rep (fst (adl_apply_delete st ds)) (apply_ds d ds).
Proof.
  intros Hwf Hds Hk Hi Hf Hrep c k. specialize (Hrep c k).
  rewrite (adl_exactness st ds c k Hwf Hds). rewrite apply_ds_delete_all.
  set (i := mkid c k) in *. set (js := ds_points ds).
  pose proof (adl_delete_all_tle js d) as Htle.
  pose proof (adl_delete_all_deadb js d i Hk Hi Hf) as Hdead.
  assert (Hint : integrated d i = false -> integrated (delete_all js d) i = false).
  { unfold integrated. rewrite adl_delete_all_gc. destruct (find_item i (d_lists d)) eqn:E; [discriminate|].
    apply (tle_find_none i _ _ Htle) in E. now rewrite E. }
  destruct (adl_kind_at st c k) as [[]|]; cbn [adl_mark].
  - (* live *)
    destruct Hrep as (key & x & E & Hx). destruct (tle_find_fwd i _ _ key x Htle E) as (x' & E' & _).
    assert (Hl : liveb (d_lists d) i = true) by (unfold liveb; rewrite E, Hx; reflexivity).
    assert (Hd : deadb (d_lists d) i = false) by (unfold deadb; rewrite E; exact Hx).
    unfold deadb in Hdead at 1. rewrite E' in Hdead.
    destruct (adl_mem ds c k) eqn:Em.
    + exists key, x'. split; [exact E'|]. apply Hdead. right. split; [exact Hl|].
      apply adl_ds_points_mem. exact Em.
    + exists key, x'. split; [exact E'|]. destruct (d_del x') eqn:Ex; [|reflexivity].
      destruct (proj1 Hdead eq_refl) as [Ex2|[_ Ex2]]; [congruence|].
      apply adl_ds_points_mem in Ex2. congruence.
  - destruct Hrep as (key & x & E & Hx). destruct (tle_find_fwd i _ _ key x Htle E) as (x' & E' & [_ Hfl]).
    exists key, x'. split; [exact E'|apply Hfl; exact Hx].
  - destruct Hrep as [E Hg]. split; [apply (tle_find_none i _ _ Htle); exact E|].
    now rewrite adl_delete_all_gc.
  - apply Hint. exact Hrep.
  - apply Hint. exact Hrep.
Qed.

(* ... and the rest against pending_ds of Doc.v: no id that Doc.v keeps pending is missing from the rest;
   the rest is exactly pending_ds when no range starts strictly inside a Skip block *)
Theorem adl_rest_pending st ds d : adl_wf_store st = true -> adl_dsP ds -> adl_rep st d ->
  (forall i, In i (pending_ds d ds) -> mrg_ds_mem (snd (adl_apply_delete st ds)) (cl i) (ck i) = true)
  /\ (adl_starts_in_skip st ds = false ->
      forall i, In i (pending_ds d ds) <-> mrg_ds_mem (snd (adl_apply_delete st ds)) (cl i) (ck i) = true).
Proof.
  intros Hwf Hds Hrep.
  assert (Hmiss : forall c k, integrated d (mkid c k) = false <-> adl_in_skip st c k || adl_unknown st c k = true).
  { intros c k. specialize (Hrep c k). unfold adl_in_skip, adl_unknown.
    destruct (adl_kind_at st c k) as [[]|]; cbn [orb]; unfold integrated in *.
    - destruct Hrep as (key & x & -> & _). split; discriminate.
    - destruct Hrep as (key & x & -> & _). split; discriminate.
    - destruct Hrep as [-> ->]. split; discriminate.
    - tauto.
    - tauto. }
  assert (Hp : forall i, In i (pending_ds d ds) <->
                 adl_mem ds (cl i) (ck i) = true /\ adl_in_skip st (cl i) (ck i) || adl_unknown st (cl i) (ck i) = true).
  { intros [c k]. cbn [cl ck]. unfold pending_ds. rewrite filter_In, negb_true_iff, adl_ds_points_mem, Hmiss.
    tauto. }
  split.
  - intros i Hin. apply Hp in Hin. apply (adl_rest_sandwich st ds _ _ Hwf Hds); tauto.
  - intros Hclean i. rewrite (adl_rest_exact st ds _ _ Hwf Hds Hclean), andb_true_iff. apply Hp.
Qed.

(* ====================================================================== *)
(* P. (e) for the concrete integration step adl_push                       *)
(* ====================================================================== *)
(* the block finds its place: at the end of the list or inside a Skip block *)
Definition adl_fits (bl : adl_blist) (a : N) (nb : N * N * adl_kind) : bool :=
  (adl_bclock nb =? adl_end a bl)
  || existsb (fun b => adl_is_skip b && ((adl_bclock b <=? adl_bclock nb)
                       && (adl_bclock nb + adl_blen nb <=? adl_bclock b + adl_blen b))) bl.

Lemma adl_bfind_app x y k :
  adl_bfind (x ++ y) k = match adl_bfind x k with Some v => Some v | None => adl_bfind y k end.
Proof.
  induction x as [|b x IH]; [reflexivity|]. cbn [app adl_bfind]. destruct (adl_inr _ _ k); [reflexivity|exact IH].
Qed.

Lemma adl_fits_ge bl a nb : adl_contig a bl = true -> adl_fits bl a nb = true -> a <= adl_bclock nb.
Proof.
  intros Hc H. unfold adl_fits in H. apply orb_true_iff in H. destruct H as [H|H].
  - pose proof (adl_end_ge bl a). lia.
  - apply existsb_exists in H. destruct H as (b & Hb & H). destruct (adl_contig_in bl a b Hc Hb) as (H1 & _). lia.
Qed.

Ltac adl_ifs := repeat match goal with
  | |- context [if ?c then _ else _] => let E := fresh "E" in destruct c eqn:E
  end.

Lemma adl_push_blist_spec nb k : 0 < adl_blen nb -> forall bl a, adl_contig a bl = true ->
  adl_contig a (adl_push_blist bl a nb) = true
  /\ adl_end a (adl_push_blist bl a nb)
     = (if adl_bclock nb =? adl_end a bl then adl_end a bl + adl_blen nb else adl_end a bl)
  /\ adl_bfind (adl_push_blist bl a nb) k
     = if adl_fits bl a nb && adl_inr (adl_bclock nb) (adl_bclock nb + adl_blen nb) k
       then Some (adl_bkind nb) else adl_bfind bl k.
Proof.
  destruct nb as [[cn ln] kn]. adl_simp. intros Hln. induction bl as [|[[cb lb] kb] r IH]; intros a Hc.
  - unfold adl_fits. cbn [adl_push_blist adl_end existsb adl_bfind]. adl_simp. rewrite orb_false_r.
    destruct (N.eqb_spec cn a) as [->|Hne]; cbn [adl_contig adl_end adl_bfind andb]; adl_simp.
    + split; [apply andb_true_iff; split; [|reflexivity]; lia|]. split; [reflexivity|].
      destruct (adl_inr a (a + ln) k); reflexivity.
    + repeat split.
  - pose proof Hc as Hc0. apply adl_contig_cons in Hc. adl_simp. destruct Hc as (-> & Hlb & Hc).
    cbn [adl_push_blist]. adl_simp. cbn [adl_end]. adl_simp.
    pose proof (adl_end_ge r (a + lb)) as Hge.
    destruct (adl_is_skip (a, lb, kb) && (a <=? cn) && (cn + ln <=? a + lb)) eqn:EC.
    + (* the block goes into this Skip block *)
      assert (Hk : kb = adl_skip) by (destruct kb; cbn in EC; congruence). subst kb.
      assert (Hfit : adl_fits ((a, lb, adl_skip) :: r) a (cn, ln, kn) = true).
      { unfold adl_fits. cbn [existsb]. adl_simp. cbn [adl_is_skip adl_bkind snd]. lia. }
      rewrite Hfit. replace (cn =? adl_end (a + lb) r) with false by lia.
      split; [|split].
      * rewrite adl_contig_app. destruct (N.ltb_spec a cn); cbn [adl_contig adl_end app]; adl_simp;
          (destruct (N.ltb_spec (cn + ln) (a + lb)); cbn [adl_contig adl_end app]; adl_simp;
           repeat (apply andb_true_iff; split); try lia;
           match goal with |- adl_contig ?x r = true => replace x with (a + lb) by lia; exact Hc end).
      * rewrite adl_end_app. destruct (N.ltb_spec a cn); cbn [adl_end app]; adl_simp;
          (destruct (N.ltb_spec (cn + ln) (a + lb)); cbn [adl_end app]; adl_simp; f_equal; lia).
      * rewrite adl_bfind_app. cbn [adl_bfind andb]. adl_simp.
        destruct (N.ltb_spec a cn); destruct (N.ltb_spec (cn + ln) (a + lb));
          cbn [adl_bfind app]; adl_simp; unfold adl_inr; adl_ifs; try reflexivity; lia.
    + (* further on *)
      destruct (IH (a + lb) Hc) as (I1 & I2 & I3). cbn [adl_contig adl_end adl_bfind]. adl_simp.
      assert (Hfit : adl_fits ((a, lb, kb) :: r) a (cn, ln, kn) = adl_fits r (a + lb) (cn, ln, kn)).
      { unfold adl_fits. cbn [existsb adl_end]. adl_simp. rewrite <- andb_assoc in EC. rewrite EC. reflexivity. }
      rewrite Hfit. split; [|split].
      * rewrite I1. apply andb_true_iff. split; [lia|reflexivity].
      * exact I2.
      * rewrite I3. destruct (adl_fits r (a + lb) (cn, ln, kn)) eqn:Ef; cbn [andb]; [|reflexivity].
        pose proof (adl_fits_ge r (a + lb) (cn, ln, kn) Hc Ef) as Hg. adl_simp.
        unfold adl_inr. adl_ifs; try reflexivity; lia.
Qed.

Definition adl_fits_st (st : adl_store) (c : N) (nb : N * N * adl_kind) : bool :=
  match adl_get st c with Some bl => adl_fits bl 0 nb | None => adl_bclock nb =? 0 end.

Lemma adl_get_app st c bl c' :
  adl_get (st ++ [(c, bl)]) c'
  = match adl_get st c' with Some b => Some b | None => if c =? c' then Some bl else None end.
Proof.
  induction st as [|[c0 b0] st IH]; cbn [app adl_get]; [reflexivity|]. destruct (c0 =? c'); [reflexivity|exact IH].
Qed.

Lemma adl_nodup_snoc l c : adl_nodup l = true -> existsb (N.eqb c) l = false -> adl_nodup (l ++ [c]) = true.
Proof.
  induction l as [|x l IH]; intros H1 H2; [reflexivity|]. cbn [app adl_nodup existsb] in *.
  apply andb_true_iff in H1. destruct H1 as [H1 H3]. apply orb_false_iff in H2. destruct H2 as [H2 H4].
  rewrite (IH H3 H4), existsb_app. cbn [existsb]. apply negb_true_iff in H1. rewrite H1. cbn [orb].
  rewrite N.eqb_sym in H2. rewrite H2. reflexivity.
Qed.

Lemma adl_get_none_notin st c : adl_get st c = None -> existsb (N.eqb c) (map fst st) = false.
Proof.
  induction st as [|[c0 b0] st IH]; cbn [adl_get map fst existsb]; [reflexivity|].
  destruct (N.eqb_spec c0 c) as [->|Hne]; [discriminate|]. intros G. rewrite (IH G).
  replace (c =? c0) with false by lia. reflexivity.
Qed.

Lemma adl_push_ok st c nb : adl_wf_store st = true -> 0 < adl_blen nb ->
  adl_bclock nb + adl_blen nb <= adl_u32_max ->
  adl_wf_store (adl_push st c nb) = true
  /\ forall c' k, adl_kind_at (adl_push st c nb) c' k
       = if (c' =? c) && adl_fits_st st c nb && adl_inr (adl_bclock nb) (adl_bclock nb + adl_blen nb) k
         then Some (adl_bkind nb) else adl_kind_at st c' k.
Proof.
  intros Hwf Hl Hb. unfold adl_push, adl_fits_st. destruct (adl_get st c) as [bl|] eqn:G.
  - destruct (adl_wf_store_get st c bl Hwf G) as [Hc He]. split.
    + destruct (adl_push_blist_spec nb 0 Hl bl 0 Hc) as (P1 & P2 & _).
      apply adl_wf_store_set; [exact Hwf|exact P1|]. rewrite P2. destruct (N.eqb_spec (adl_bclock nb) (adl_end 0 bl)); lia.
    + intros c' k. unfold adl_kind_at. destruct (N.eqb_spec c' c) as [->|Hne]; cbn [andb].
      * rewrite (adl_get_set_same st c bl _ G), G, !adl_ulookup_units.
        destruct (adl_push_blist_spec nb k Hl bl 0 Hc) as (_ & _ & P3). exact P3.
      * now rewrite adl_get_set_other.
  - destruct (N.eqb_spec (adl_bclock nb) 0) as [E0|Hne].
    + split.
      * unfold adl_wf_store in *. apply andb_true_iff in Hwf. destruct Hwf as [W1 W2].
        rewrite map_app, forallb_app. cbn [map fst snd forallb]. apply andb_true_iff. split.
        -- apply adl_nodup_snoc; [exact W1|apply adl_get_none_notin; exact G].
        -- rewrite W2. cbn [andb]. unfold adl_wf_blist. cbn [adl_contig adl_end].
           repeat (apply andb_true_iff; split); try reflexivity; lia.
      * intros c' k. unfold adl_kind_at. rewrite adl_get_app.
        destruct (N.eqb_spec c' c) as [->|Hn2]; cbn [andb].
        -- rewrite G, N.eqb_refl. rewrite adl_ulookup_units. cbn [adl_bfind].
           destruct (adl_inr _ _ k); reflexivity.
        -- destruct (adl_get st c') as [b|]; [reflexivity|]. replace (c =? c') with false by lia. reflexivity.
    + split; [exact Hwf|]. intros c' k. now rewrite andb_false_r.
Qed.

Lemma adl_fits_sig st st' c nb : adl_sig (adl_get st' c) = adl_sig (adl_get st c) ->
  adl_fits_st st' c nb = adl_fits_st st c nb.
Proof.
  unfold adl_fits_st. destruct (adl_get st' c) as [b1|], (adl_get st c) as [b2|]; cbn [adl_sig]; intros E;
    try discriminate; [|reflexivity].
  injection E as E1 E2. unfold adl_fits. rewrite E2, !adl_existsb_filter. unfold adl_skips in E1. now rewrite E1.
Qed.

(* where the new block lands the store had a Skip block or nothing *)
Lemma adl_fits_missing st c nb k : adl_wf_store st = true -> adl_fits_st st c nb = true ->
  adl_inr (adl_bclock nb) (adl_bclock nb + adl_blen nb) k = true ->
  adl_kind_at st c k = None \/ adl_kind_at st c k = Some adl_skip.
Proof.
  intros Hwf Hf Hk. unfold adl_fits_st in Hf. unfold adl_kind_at. destruct (adl_get st c) as [bl|] eqn:G; [|now left].
  destruct (adl_wf_store_get st c bl Hwf G) as [Hc _]. rewrite adl_ulookup_units.
  pose proof (adl_bfind_none bl k 0 Hc) as Hn. pose proof (adl_bfind_skip bl k 0 Hc) as Hs.
  unfold adl_fits in Hf. apply orb_true_iff in Hf. destruct Hf as [Hf|Hf].
  - left. destruct (adl_bfind bl k); [|reflexivity]. unfold adl_inr in *. lia.
  - right. assert (adl_skip_at bl k = true).
    { apply existsb_exists in Hf. destruct Hf as (b & Hb & Hf). apply existsb_exists. exists b.
      split; [exact Hb|]. unfold adl_inr in *. destruct (adl_is_skip b); cbn [andb] in *; [lia|discriminate]. }
    rewrite H in Hs. destruct (adl_bfind bl k) as [[]|]; try discriminate. reflexivity.
Qed.

(* (e), concretely: a block arrives later (appended, or into a Skip hole as BlockStore::push places it);
   applying the rest afterwards yields the units that applying the whole delete set would have yielded had the
   block been there from the start.  For several blocks: adl_rest_later. *)
Theorem adl_rest_later_push st ds c nb : adl_wf_store st = true -> adl_dsP ds ->
  0 < adl_blen nb -> adl_bclock nb + adl_blen nb <= adl_u32_max ->
  let st1 := fst (adl_apply_delete st ds) in
  let rest := snd (adl_apply_delete st ds) in
  forall c' k, adl_kind_at (fst (adl_apply_delete (adl_push st1 c nb) rest)) c' k
               = adl_kind_at (fst (adl_apply_delete (adl_push st c nb) ds)) c' k.
Proof.
  intros Hwf Hds Hl Hb st1 rest.
  destruct (adl_apply_delete_eq st ds Hwf Hds) as (s1 & rs & E & W1 & _ & _ & Sg & _ & _).
  assert (Es1 : st1 = s1) by (unfold st1; now rewrite E). 
  destruct (adl_push_ok st c nb Hwf Hl Hb) as [P0 K0].
  destruct (adl_push_ok s1 c nb W1 Hl Hb) as [P1 K1]. rewrite <- Es1 in P1, K1.
  assert (Hfs : adl_fits_st st1 c nb = adl_fits_st st c nb) by (rewrite Es1; apply adl_fits_sig; apply Sg).
  apply (adl_rest_later st ds (adl_push st c nb) (adl_push st1 c nb) Hwf Hds P0 P1).
  - intros c0 k kd Ek Hkd. rewrite K0, K1, Hfs.
    destruct ((c0 =? c) && adl_fits_st st c nb && adl_inr (adl_bclock nb) (adl_bclock nb + adl_blen nb) k) eqn:Ec;
      [|split; [exact Ek|reflexivity]].
    apply andb_true_iff in Ec. destruct Ec as [Ec Ei]. apply andb_true_iff in Ec. destruct Ec as [Ec Ef].
    apply N.eqb_eq in Ec. subst c0. destruct (adl_fits_missing st c nb k Hwf Ef Ei); congruence.
  - intros c0 k Ek. rewrite K0, K1, Hfs.
    destruct ((c0 =? c) && adl_fits_st st c nb && adl_inr (adl_bclock nb) (adl_bclock nb + adl_blen nb) k);
      [reflexivity|].
    unfold st1. rewrite (adl_exactness st ds c0 k Hwf Hds). destruct Ek as [-> | ->]; reflexivity.
Qed.

(* ====================================================================== *)
Print Assumptions adl_find_index_ok.
Print Assumptions adl_apply_delete_spec.
Print Assumptions adl_apply_delete_no_panic.
Print Assumptions adl_exactness_units.
Print Assumptions adl_unit_ids_unchanged.
Print Assumptions adl_exactness.
Print Assumptions adl_exactness_cases.
Print Assumptions adl_rest_sandwich.
Print Assumptions adl_rest_exact.
Print Assumptions adl_rest_content.
Print Assumptions adl_rest_exact_refuted.
Print Assumptions adl_idempotent.
Print Assumptions adl_order_insensitive.
Print Assumptions adl_rest_later.
Print Assumptions adl_rest_later_push.
Print Assumptions adl_units_commute.
Print Assumptions adl_rest_pending.
