(* YataUnbounded.v - convergence of the unit-level YATA integration of Crdt/Doc.v WITHOUT a bound.

   STATUS: the full theorem is proved; there is no remaining gap.  No axioms (every theorem below is
   "Closed under the global context"), standard library + the YV library only.

   MAIN RESULT (Part 6)
     Theorem yata_convergence_unbounded : forall h, wf_history h ->
       forall l1 l2, run [] h [] l1 -> run [] h [] l2 -> map did l1 = map did l2.
   and, in Part 8, the stronger / derived forms
     yata_convergence_unbounded_eq : ... -> l1 = l2                       (equal item lists)
     yata_canonical_result         : wf_history h -> run [] h [] l -> l = exec h
     yata_states_agree             : two reachable states of sub-histories order common ids alike
     yata_states_are_forests       : every reachable state is the pre-order of its origin forest
     gen_wf                        : forall n clients h, In h (gen n clients [] []) -> wf_history h
     yata_convergence_gen          : convergence for every generated history, any n, any clients
     h_conc_wf, h_ex_wf, h_ex_result, h_ex_two_orders : concrete examples.

   [run] is the relation of YataFinite.v: integrate the ops in SOME order, each op only when its
   origin and right origin are present ([dep_ok]); per-client FIFO is NOT assumed.

   WELL-FORMED HISTORIES (Part 0).  [wf_history h]: h lists the ops in creation order;
     wf_nil  : wf_history []
     wf_snoc : wf_history h ->
               (forall y, In y h -> cl (oid y) = cl (oid x) -> ck (oid y) < ck (oid x)) ->   clocks of a client
                                                                   increase, hence ids are fresh
               (forall y, In y s -> In y h) -> NoDup s ->           the creator knows a set s of earlier ops
               (forall y, In y h -> cl (oid y) = cl (oid x) -> In y s) ->   containing all its own earlier ops
               adm [] s ->                                          s is an admissible integration order
               exec s = a ++ b ->                                   the creator's state, cut at the gap
               oorigin x = lastid a -> ororigin x = headid b ->     origin / right origin = the two neighbours
               wf_history (h ++ [x]).
   [exec s] = fold_left integ s [] and [adm [] s] says that every op of s finds its origin and right
   origin among the ops before it, so "exec s with adm [] s" is exactly "a list l with run [] V [] l"
   for a permutation V of s (lemmas run_exec / exec_run; wf_snoc_run and wf_snoc_inv_run restate the
   constructor with [run]).  The view s is automatically closed under explicit dependencies (else
   no admissible order exists) but it is NOT required to be causally closed (transitively closed
   under views), so wf_history is strictly weaker than what [gen] produces; gen_wf shows that
   every history of gen n clients [] [] is well formed, for every n and every client list.
   The requirement "own earlier ops are in the view" cannot be dropped: two ops of one client with
   the same origin and right origin, neither knowing the other, are ordered by arrival.

   PROOF ARCHITECTURE
     Part 1  executions as explicit lists; run -> exec; order of ids in a list (ltl / lt_in).
     Part 2  (module Sib) the "sibling machine": [idx x cs] is the index at which the scan puts x
             among the children cs of its origin (stop at the right origin or at a sibling with
             client >= and equal right origin; go behind the LAST smaller client seen before the
             stop).  sib_diamond: two insertions into the same sibling list commute, for ANY list
             cs, when the clients differ - or when the right origin of one op occurs left of the
             landing place of the other (used for two ops of one client).
     Part 3  origin trees ([tree], [wft]), pre-order [flatF]; the conflict scan of Doc.v run on the
             flattened children of the origin computes the sibling machine (scan_kids, cpos_idx):
             a sibling with smaller client moves `left` through its whole subtree, a sibling with
             larger client puts its whole subtree into `conflicting`.
     Part 4  [sim]: on the pre-order of a well-formed forest, yata_insert = inserting a leaf below
             the origin at index idx (hypothesis condr: the right origin is a sibling, or has no
             origin, or its origin lies left of x's origin); forest_step: the invariant is kept.
     Part 5  [diamond]: integ (integ l x) y = integ (integ l y) x on forests; different origins
             commute on trees, equal origins by sib_diamond.
     Part 6  induction on the history.  For h ++ [x] with h convergent: every admissible order of
             h ++ [x] can be rewritten, by moving x to the end with the diamond lemma, into an
             admissible order of h followed by x ([push], [conv_step]).  The side conditions of the
             diamond lemma at a reachable state come from the state of the creating client and from
             convergence of h: any two reachable states of sub-histories of h order common items
             alike ([transfer], via [complete]: every state extends to a full execution), which
             transports "origin left of right origin", "origin of the right origin is not right of
             the origin" ([pending_cond]) and, for two ops of one client with equal origin, "the
             right origin of the later op is left of the earlier op" ([x_sibhyp]) from the creator's
             state to the current state.
     Part 7  (module GenWf) gen_wf.   Part 8  summary theorems and examples.

   Exhaustive / random testing done before proving (python transcription of yata_scan, all
   admissible orders with memoisation): no divergence for random gen-style histories up to 11 ops
   x 5 clients (about 200 000 histories), nor with views closed only under explicit dependencies;
   the sibling machine diamond was checked exhaustively for all sibling lists of length <= 3.

   Compile: coqc -Q /verif/coq YV YataUnbounded.v   (about 6 s). *)

From Coq Require Import List NArith ZArith Bool Lia Permutation.
From YV Require Import Lib.Bytes Codec.UpdateV1 Ids.Ranges Crdt.Doc Crdt.YataProofs Crdt.YataFinite.
Import ListNotations.


(* ====================================================================== *)
(* PART 0: definitions                                                     *)
(* ====================================================================== *)
(* Y0: shared definitions for the unbounded YATA convergence development *)
Open Scope N_scope.

(* ---------- executions: explicit integration orders ---------- *)
Definition exec_from (l : list ditem) (s : list op) : list ditem := fold_left integ s l.
Definition exec (s : list op) : list ditem := exec_from [] s.

(* every op of [s] is integrated only when its origin and right origin are present *)
Fixpoint adm (have : list id) (s : list op) : Prop :=
  match s with
  | [] => True
  | x :: s' => dep_ok have x = true /\ adm (oid x :: have) s'
  end.

Definition lastid (a : list ditem) : option id :=
  match rev a with [] => None | z :: _ => Some (did z) end.
Definition headid (b : list ditem) : option id :=
  match b with [] => None | z :: _ => Some (did z) end.

(* ---------- well-formed histories ----------
   [h] lists the ops in creation order.  The op [x] appended last was created by a client whose
   state [exec s] was obtained by integrating, in an admissible order [s], a duplicate-free set of
   earlier ops that contains all earlier ops of the same client; [x] was inserted into the gap
   between [a] and [b]: its origin is the item immediately left of the gap, its right origin the
   item immediately right of it.  Clocks of one client increase (hence ids are fresh). *)
Inductive wf_history : list op -> Prop :=
| wf_nil : wf_history []
| wf_snoc : forall h x s a b,
    wf_history h ->
    (forall y, In y h -> cl (oid y) = cl (oid x) -> ck (oid y) < ck (oid x)) ->
    (forall y, In y s -> In y h) -> NoDup s ->
    (forall y, In y h -> cl (oid y) = cl (oid x) -> In y s) ->
    adm [] s ->
    exec s = a ++ b ->
    oorigin x = lastid a -> ororigin x = headid b ->
    wf_history (h ++ [x]).

(* ---------- the sibling machine: what the conflict scan computes on the children of the origin ---- *)
Definition stopb (x : op) (c : ditem) : bool :=
  oid_eqb (Some (did c)) (ororigin x)
  || (negb (cl (did c) <? cl (oid x)) && oid_eqb (ororigin x) (ororigin (d_op c))).
Definition smb (x : op) (c : ditem) : bool := cl (did c) <? cl (oid x).
Definition bump (n : nat) : nat := match n with O => O | S _ => S n end.
Fixpoint idx (x : op) (cs : list ditem) : nat :=
  match cs with
  | [] => O
  | c :: r => if stopb x c then O else if smb x c then S (idx x r) else bump (idx x r)
  end.
Definition ins {A : Type} (i : nat) (e : A) (l : list A) : list A := firstn i l ++ e :: skipn i l.
Close Scope N_scope.


(* ====================================================================== *)
(* PART 1: executions, admissibility, order of ids                         *)
(* ====================================================================== *)
(* Y1: executions, admissibility, order of ids in a list *)

(* ---------- ids ---------- *)
Lemma oid_eqb_eq : forall a b, oid_eqb a b = true <-> a = b.
Proof.
  intros [a|] [b|]; cbn; split; intros H; try discriminate; try reflexivity.
  - apply id_eqb_eq in H. congruence.
  - inversion H. apply id_eqb_refl.
Qed.
Lemma oid_eqb_refl : forall a, oid_eqb a a = true.
Proof. intros a. apply oid_eqb_eq. reflexivity. Qed.
Lemma oid_eqb_neq : forall a b, oid_eqb a b = false <-> a <> b.
Proof.
  intros a b. split.
  - intros H E. apply oid_eqb_eq in E. congruence.
  - intros H. destruct (oid_eqb a b) eqn:E; [|reflexivity]. apply oid_eqb_eq in E. contradiction.
Qed.

Lemma mem_id_In : forall i l, mem_id i l = true <-> In i l.
Proof.
  intros i l. unfold mem_id. rewrite existsb_exists. split.
  - intros (x & Hx & E). apply id_eqb_eq in E. subst. exact Hx.
  - intros H. exists i. split; [exact H|apply id_eqb_refl].
Qed.
Lemma mem_id_false : forall i l, mem_id i l = false <-> ~ In i l.
Proof.
  intros i l. split.
  - intros H Hin. apply mem_id_In in Hin. congruence.
  - intros H. destruct (mem_id i l) eqn:E; [|reflexivity]. apply mem_id_In in E. contradiction.
Qed.

Lemma NoDup_app_l : forall (A : Type) (a b : list A), NoDup (a ++ b) -> NoDup a.
Proof.
  intros A a. induction a as [|x a IH]; intros b H; [constructor|].
  cbn [app] in H. apply NoDup_cons_iff in H. destruct H as [H1 H2]. constructor.
  - intros Hin. apply H1. apply in_or_app. left. exact Hin.
  - eapply IH. exact H2.
Qed.
Lemma NoDup_app_r : forall (A : Type) (a b : list A), NoDup (a ++ b) -> NoDup b.
Proof.
  intros A a. induction a as [|x a IH]; intros b H; [exact H|].
  cbn [app] in H. apply NoDup_cons_iff in H. apply IH. apply H.
Qed.
Lemma NoDup_app_disj : forall (A : Type) (a b : list A) x, NoDup (a ++ b) -> In x a -> In x b -> False.
Proof.
  intros A a. induction a as [|y a IH]; intros b x H Ha Hb; [destruct Ha|].
  cbn [app] in H. apply NoDup_cons_iff in H. destruct H as [H1 H2]. destruct Ha as [Ha|Ha].
  - subst y. apply H1. apply in_or_app. right. exact Hb.
  - eapply IH; eassumption.
Qed.

Definition it (o : op) : ditem := mkditem o false.
Definition ids (l : list ditem) : list id := map did l.

Lemma did_it : forall o, did (it o) = oid o.
Proof. reflexivity. Qed.

Lemma in_ids_split : forall w l, In w (ids l) ->
  exists pre yo post, l = pre ++ yo :: post /\ did yo = w.
Proof.
  intros w l H. unfold ids in H. apply in_map_iff in H. destruct H as (yo & E & Hin).
  apply in_split in Hin. destruct Hin as (pre & post & Hl). exists pre, yo, post. split; assumption.
Qed.

(* ---------- exec ---------- *)
Lemma exec_from_app : forall l s t, exec_from l (s ++ t) = exec_from (exec_from l s) t.
Proof. intros. unfold exec_from. apply fold_left_app. Qed.
Lemma exec_from_cons : forall l x s, exec_from l (x :: s) = exec_from (integ l x) s.
Proof. reflexivity. Qed.
Lemma exec_snoc : forall s x, exec (s ++ [x]) = integ (exec s) x.
Proof. intros. unfold exec. rewrite exec_from_app. reflexivity. Qed.
Lemma exec_app : forall s t, exec (s ++ t) = exec_from (exec s) t.
Proof. intros. unfold exec. apply exec_from_app. Qed.

Lemma integ_mem : forall l x z, In z (integ l x) <-> z = it x \/ In z l.
Proof. intros. unfold integ. apply yata_insert_mem. Qed.

Lemma integ_split : forall l x, exists l1 l2, l = l1 ++ l2 /\ integ l x = l1 ++ it x :: l2.
Proof. intros. unfold integ. apply yata_insert_inserts_once. Qed.

Lemma integ_ids_perm : forall l x, Permutation (oid x :: ids l) (ids (integ l x)).
Proof.
  intros l x. unfold integ, ids.
  change (oid x :: map did l) with (map did (it x :: l)).
  apply Permutation_map. apply yata_insert_perm.
Qed.

Lemma exec_from_mem : forall s l z, In z (exec_from l s) <-> In z l \/ exists o, In o s /\ z = it o.
Proof.
  induction s as [|x s IH]; intros l z.
  - cbn. split; [auto|]. intros [H|(o & [] & _)]. exact H.
  - rewrite exec_from_cons, IH, integ_mem. split.
    + intros [[H|H]|(o & Ho & E)].
      * right. exists x. split; [left; reflexivity|exact H].
      * left. exact H.
      * right. exists o. split; [right; exact Ho|exact E].
    + intros [H|(o & [Ho|Ho] & E)].
      * left. right. exact H.
      * subst o. left. left. exact E.
      * right. exists o. split; assumption.
Qed.

Lemma exec_mem : forall s z, In z (exec s) <-> exists o, In o s /\ z = it o.
Proof.
  intros s z. unfold exec. rewrite exec_from_mem. split.
  - intros [[]|H]. exact H.
  - intros H. right. exact H.
Qed.

Lemma exec_from_ids_perm : forall s l, Permutation (ids (exec_from l s)) (map oid s ++ ids l).
Proof.
  induction s as [|x s IH]; intros l.
  - apply Permutation_refl.
  - rewrite exec_from_cons. eapply Permutation_trans; [apply IH|].
    cbn [map app]. eapply Permutation_trans.
    + apply Permutation_app_head. apply Permutation_sym. apply integ_ids_perm.
    + apply Permutation_sym. apply Permutation_middle.
Qed.

Lemma exec_ids_perm : forall s, Permutation (ids (exec s)) (map oid s).
Proof.
  intros s. unfold exec. eapply Permutation_trans; [apply exec_from_ids_perm|].
  cbn. rewrite app_nil_r. apply Permutation_refl.
Qed.

Lemma exec_ids_in : forall s i, In i (ids (exec s)) <-> In i (map oid s).
Proof.
  intros s i. split; apply Permutation_in; [|apply Permutation_sym]; apply exec_ids_perm.
Qed.

Lemma exec_ids_nodup : forall s, NoDup (map oid s) -> NoDup (ids (exec s)).
Proof.
  intros s H. eapply Permutation_NoDup; [|exact H]. apply Permutation_sym. apply exec_ids_perm.
Qed.

(* ---------- admissibility ---------- *)
Lemma dep_ok_iff : forall have x, dep_ok have x = true <->
  (forall o, oorigin x = Some o -> In o have) /\ (forall r, ororigin x = Some r -> In r have).
Proof.
  intros have x. unfold dep_ok. rewrite andb_true_iff. split.
  - intros [H1 H2]. split.
    + intros o E. rewrite E in H1. apply mem_id_In. exact H1.
    + intros r E. rewrite E in H2. apply mem_id_In. exact H2.
  - intros [H1 H2]. split.
    + destruct (oorigin x) as [o|]; [|reflexivity]. apply mem_id_In. apply H1. reflexivity.
    + destruct (ororigin x) as [r|]; [|reflexivity]. apply mem_id_In. apply H2. reflexivity.
Qed.

Lemma dep_ok_mono : forall h1 h2 x, (forall i, In i h1 -> In i h2) ->
  dep_ok h1 x = true -> dep_ok h2 x = true.
Proof.
  intros h1 h2 x Hs H. apply dep_ok_iff in H. destruct H as [H1 H2]. apply dep_ok_iff. split.
  - intros o E. apply Hs. apply H1. exact E.
  - intros r E. apply Hs. apply H2. exact E.
Qed.

Lemma adm_mono : forall s h1 h2, (forall i, In i h1 -> In i h2) -> adm h1 s -> adm h2 s.
Proof.
  induction s as [|x s IH]; intros h1 h2 Hs H; cbn in *; [exact I|].
  destruct H as [H1 H2]. split.
  - eapply dep_ok_mono; eassumption.
  - eapply IH; [|exact H2]. intros i [Hi|Hi]; [left; exact Hi|right; apply Hs; exact Hi].
Qed.

Lemma adm_app : forall s t have, adm have (s ++ t) <-> adm have s /\ adm (rev (map oid s) ++ have) t.
Proof.
  induction s as [|x s IH]; intros t have; cbn [app adm map rev].
  - cbn. tauto.
  - rewrite IH. rewrite <- app_assoc. cbn [app]. tauto.
Qed.

Lemma adm_app_set : forall s t have hv,
  (forall i, In i hv <-> In i (map oid s) \/ In i have) ->
  (adm have (s ++ t) <-> adm have s /\ adm hv t).
Proof.
  intros s t have hv H. rewrite adm_app. split; intros [H1 H2]; split; try exact H1.
  - eapply adm_mono; [|exact H2]. intros i Hi. apply H. apply in_app_or in Hi.
    destruct Hi as [Hi|Hi]; [left; apply in_rev; exact Hi|right; exact Hi].
  - eapply adm_mono; [|exact H2]. intros i Hi. apply H in Hi. apply in_or_app.
    destruct Hi as [Hi|Hi]; [left; apply -> in_rev; exact Hi|right; exact Hi].
Qed.

(* admissible at the end of an execution from the empty state *)
Lemma adm_snoc : forall s x, adm [] (s ++ [x]) <-> adm [] s /\ dep_ok (ids (exec s)) x = true.
Proof.
  intros s x. rewrite (adm_app_set s [x] [] (ids (exec s))).
  - cbn. tauto.
  - intros i. rewrite exec_ids_in. cbn. tauto.
Qed.

Lemma adm_app_exec : forall s t, adm [] (s ++ t) <-> adm [] s /\ adm (ids (exec s)) t.
Proof.
  intros s t. apply adm_app_set. intros i. rewrite exec_ids_in. cbn. tauto.
Qed.

(* ---------- run versus exec ---------- *)
Lemma remove_nth_perm : forall (A : Type) k (l : list A) x,
  nth_error l k = Some x -> Permutation (x :: remove_nth k l) l.
Proof.
  intros A. induction k as [|k IH]; intros [|a l] x H; cbn in H; try discriminate.
  - inversion H. apply Permutation_refl.
  - cbn. eapply Permutation_trans; [apply perm_swap|]. apply perm_skip. apply IH. exact H.
Qed.

Lemma run_exec : forall have rem lst l', run have rem lst l' ->
  exists s, Permutation s rem /\ adm have s /\ l' = exec_from lst s.
Proof.
  induction 1 as [have lst|have rem lst k x l' Hn Hd Hr IH].
  - exists []. repeat split. constructor.
  - destruct IH as (s & Hp & Ha & E). exists (x :: s). split; [|split].
    + eapply Permutation_trans; [apply perm_skip; exact Hp|]. apply remove_nth_perm. exact Hn.
    + cbn. split; assumption.
    + rewrite exec_from_cons. exact E.
Qed.

Lemma exec_run : forall s have lst, adm have s -> run have s lst (exec_from lst s).
Proof.
  induction s as [|x s IH]; intros have lst H.
  - apply run_done.
  - destruct H as [H1 H2]. eapply (run_step _ _ _ 0%nat); [reflexivity|exact H1|].
    cbn [remove_nth]. rewrite exec_from_cons. apply IH. exact H2.
Qed.

(* ---------- order of ids ---------- *)
Definition ltl (i j : id) (L : list id) : Prop := exists p q r, L = p ++ i :: q ++ j :: r.
Definition lt_in (i j : id) (l : list ditem) : Prop := ltl i j (ids l).

Lemma ltl_in_l : forall i j L, ltl i j L -> In i L.
Proof. intros i j L (p & q & r & E). subst. apply in_or_app. right. left. reflexivity. Qed.
Lemma ltl_in_r : forall i j L, ltl i j L -> In j L.
Proof.
  intros i j L (p & q & r & E). subst. apply in_or_app. right. right.
  apply in_or_app. right. left. reflexivity.
Qed.

Lemma ltl_insert : forall i j L1 L2 e, ltl i j (L1 ++ L2) -> ltl i j (L1 ++ e :: L2).
Proof.
  intros i j L1 L2 e (p & q & r & E).
  destruct (insert_keeps_two id e L1 L2 p i q j r E) as (m1 & m2 & m3 & E').
  exists m1, m2, m3. exact E'.
Qed.

Lemma ltl_asym : forall i j L, NoDup L -> ltl i j L -> ltl j i L -> False.
Proof.
  intros i j L Hnd (p & q & r & E) (p' & q' & r' & E').
  subst L.
  (* position argument: i occurs once, j occurs once *)
  assert (Hi : forall a b c d : list id, a ++ i :: b = c ++ i :: d -> NoDup (a ++ i :: b) -> a = c).
  { clear. induction a as [|x a IH]; intros b c d E Hnd.
    - destruct c as [|y c]; [reflexivity|]. cbn [app] in E. injection E as E1 E2.
      exfalso. cbn [app] in Hnd. apply NoDup_cons_iff in Hnd. destruct Hnd as [Hn _]. apply Hn.
      rewrite E2. apply in_or_app. right. left. reflexivity.
    - destruct c as [|y c].
      + cbn [app] in E. injection E as E1 E2. exfalso. cbn [app] in Hnd.
        apply NoDup_cons_iff in Hnd. destruct Hnd as [Hn _]. apply Hn. subst x.
        apply in_or_app. right. left. reflexivity.
      + cbn [app] in E. injection E as E1 E2. f_equal; [exact E1|]. eapply IH; [exact E2|].
        cbn [app] in Hnd. apply NoDup_cons_iff in Hnd. apply Hnd. }
  assert (E1 : p = p' ++ j :: q').
  { eapply Hi; [|exact Hnd]. rewrite E'. rewrite <- app_assoc. reflexivity. }
  subst p. rewrite <- app_assoc in Hnd. cbn [app] in Hnd.
  apply NoDup_remove_2 in Hnd. apply Hnd.
  apply in_or_app. right. apply in_or_app. right. right. apply in_or_app. right. left. reflexivity.
Qed.

Lemma ltl_total : forall i j L, In i L -> In j L -> i <> j -> ltl i j L \/ ltl j i L.
Proof.
  intros i j L Hi Hj Hne. apply in_split in Hi. destruct Hi as (p & s & E). subst L.
  apply in_app_or in Hj. destruct Hj as [Hj|[Hj|Hj]].
  - right. apply in_split in Hj. destruct Hj as (p1 & p2 & E). subst p.
    exists p1, p2, s. rewrite <- app_assoc. reflexivity.
  - congruence.
  - left. apply in_split in Hj. destruct Hj as (s1 & s2 & E). subst s.
    exists p, s1, s2. reflexivity.
Qed.

Lemma ltl_neq : forall i j L, NoDup L -> ltl i j L -> i <> j.
Proof.
  intros i j L Hnd (p & q & r & E) Heq. subst L j.
  apply NoDup_remove_2 in Hnd. apply Hnd. apply in_or_app. right.
  apply in_or_app. right. left. reflexivity.
Qed.

Lemma lt_in_integ : forall i j l x, lt_in i j l -> lt_in i j (integ l x).
Proof.
  intros i j l x H. destruct (integ_split l x) as (l1 & l2 & E1 & E2).
  unfold lt_in, ids in *. rewrite E2. rewrite E1 in H. rewrite map_app in *. cbn [map].
  apply ltl_insert. exact H.
Qed.

Lemma lt_in_exec_from : forall s l i j, lt_in i j l -> lt_in i j (exec_from l s).
Proof.
  induction s as [|x s IH]; intros l i j H; [exact H|].
  rewrite exec_from_cons. apply IH. apply lt_in_integ. exact H.
Qed.

(* an item lands right of its origin *)
Lemma integ_right_of_origin : forall l x o, NoDup (ids l) -> oorigin x = Some o -> In o (ids l) ->
  lt_in o (oid x) (integ l x).
Proof.
  intros l x o Hnd Ho Hin. destruct (in_ids_split o l Hin) as (pre & yo & post & El & Ey).
  destruct (yata_insert_right_of_origin l (it x) o pre yo post Ho Hnd El Ey) as (m1 & m2 & _ & E).
  unfold lt_in, ids. change (integ l x) with (yata_insert l (it x)). rewrite E. exists (map did pre), (map did m1), (map did m2).
  rewrite map_app. cbn [map]. rewrite map_app. cbn [map]. rewrite Ey. reflexivity.
Qed.

Definition origin_left (l : list ditem) : Prop :=
  forall z w, In z l -> oorigin (d_op z) = Some w -> lt_in w (did z) l.

Lemma integ_origin_left : forall l x, NoDup (ids l) -> origin_left l ->
  (forall o, oorigin x = Some o -> In o (ids l)) -> origin_left (integ l x).
Proof.
  intros l x Hnd Hol Hx z w Hz Hw. apply integ_mem in Hz. destruct Hz as [Hz|Hz].
  - subst z. cbn in Hw. apply integ_right_of_origin; [exact Hnd|exact Hw|]. apply Hx. exact Hw.
  - apply lt_in_integ. apply Hol; assumption.
Qed.

Lemma exec_origin_left : forall s, NoDup (map oid s) -> adm [] s -> origin_left (exec s).
Proof.
  intros s. induction s as [|x s IH] using rev_ind; intros Hnd Ha.
  - intros z w [].
  - rewrite exec_snoc. apply adm_snoc in Ha. destruct Ha as [Ha Hd].
    rewrite map_app in Hnd. apply NoDup_app_l in Hnd.
    apply integ_origin_left.
    + apply exec_ids_nodup. exact Hnd.
    + apply IH; assumption.
    + intros o Ho. apply dep_ok_iff in Hd. destruct Hd as [Hd _]. apply Hd. exact Ho.
Qed.


(* ====================================================================== *)
(* PART 2: the sibling machine commutes                                    *)
(* ====================================================================== *)
Module Sib.
(* ---------- small helpers ---------- *)
Lemma oid_eqb_true : forall a b, oid_eqb a b = true -> a = b.
Proof.
  intros [a|] [b|]; cbn; intros H; try discriminate; auto.
  apply id_eqb_eq in H. congruence.
Qed.

Lemma oid_eqb_rfl : forall a, oid_eqb a a = true.
Proof. intros [a|]; cbn; auto. apply id_eqb_refl. Qed.

Lemma app_split_le : forall (T : Type) (A1 B1 A2 B2 : list T),
  A1 ++ B1 = A2 ++ B2 -> (length A1 <= length A2)%nat ->
  exists M, A2 = A1 ++ M /\ B1 = M ++ B2.
Proof.
  induction A1 as [|a A1 IH]; intros B1 A2 B2 E L.
  - exists A2. cbn in *. auto.
  - destruct A2 as [|a2 A2]; cbn in L; [lia|].
    cbn in E. injection E as -> E.
    destruct (IH _ _ _ E) as (M & -> & ->); [lia|].
    exists M; auto.
Qed.

Lemma firstn_len_app : forall (T : Type) (A B : list T), firstn (length A) (A ++ B) = A.
Proof. induction A; intros; cbn; congruence. Qed.

Lemma skipn_len_app : forall (T : Type) (A B : list T), skipn (length A) (A ++ B) = B.
Proof. induction A; intros; cbn; auto. Qed.

(* ---------- declarative specification of idx ---------- *)
Definition nonstop (x : op) (A : list ditem) : Prop := forall c, In c A -> stopb x c = false.
Definition lastsm (x : op) (A : list ditem) : Prop :=
  A = [] \/ exists A' a, A = A' ++ [a] /\ smb x a = true.

Lemma idx_snoc_spec : forall x B, idx x B = O -> forall A a,
  nonstop x (A ++ [a]) -> smb x a = true -> idx x ((A ++ [a]) ++ B) = S (length A).
Proof.
  intros x B HB A. induction A as [|c A IH]; intros a Hn Ha.
  - cbn [app idx length]. rewrite (Hn a) by (left; reflexivity). rewrite Ha, HB. reflexivity.
  - cbn [app idx length]. rewrite (Hn c) by (left; reflexivity).
    rewrite IH; auto.
    + destruct (smb x c); reflexivity.
    + intros d Hd. apply Hn. right. exact Hd.
Qed.

Lemma idx_app_spec : forall x A B,
  nonstop x A -> lastsm x A -> idx x B = O -> idx x (A ++ B) = length A.
Proof.
  intros x A B Hn [->|(A' & a & -> & Ha)] HB.
  - exact HB.
  - rewrite idx_snoc_spec; auto. rewrite app_length. cbn. lia.
Qed.

Lemma idx_decomp : forall x cs, exists A B,
  cs = A ++ B /\ length A = idx x cs /\ nonstop x A /\ lastsm x A /\ idx x B = O.
Proof.
  intros x cs. induction cs as [|c r IH].
  - exists [], []. cbn. split; [|split; [|split; [|split]]]; auto.
    + intros c [].
    + left; auto.
  - destruct IH as (A & B & E & HL & Hn & Hl & HB). cbn [idx].
    destruct (stopb x c) eqn:Es.
    + exists [], (c :: r). split; [|split; [|split; [|split]]]; auto.
      * intros d [].
      * left; auto.
      * cbn [idx]. rewrite Es. reflexivity.
    + destruct (smb x c) eqn:Em.
      * exists (c :: A), B. subst r. split; [|split; [|split; [|split]]]; auto.
        -- cbn. congruence.
        -- intros d [<-|Hd]; auto.
        -- right. destruct Hl as [->|(A' & a & -> & Ha)].
           ++ exists [], c. auto.
           ++ exists (c :: A'), a. auto.
      * destruct (idx x r) eqn:Ei.
        -- exists [], (c :: r). cbn [bump]. split; [|split; [|split; [|split]]]; auto.
           ++ intros d [].
           ++ left; auto.
           ++ cbn [idx]. rewrite Es, Em, Ei. reflexivity.
        -- exists (c :: A), B. subst r. split; [|split; [|split; [|split]]]; auto.
           ++ cbn. congruence.
           ++ intros d [<-|Hd]; auto.
           ++ right. destruct Hl as [->|(A' & a & -> & Ha)].
              ** cbn in HL. discriminate.
              ** exists (c :: A'), a. auto.
Qed.

(* ---------- facts about idx = 0 ---------- *)
Lemma idx0_insert : forall x e B M, idx x (M ++ B) = O ->
  ((forall c, In c M -> smb x c = false) -> idx x B = O -> idx x (e :: B) = O) ->
  idx x (M ++ e :: B) = O.
Proof.
  intros x e B M. induction M as [|c M IH]; intros H K.
  - cbn [app] in *. apply K; auto. intros c [].
  - cbn [app idx] in *. destruct (stopb x c) eqn:Es; auto.
    destruct (smb x c) eqn:Em; [discriminate|].
    destruct (idx x (M ++ B)) eqn:Ei; [|cbn in H; discriminate].
    rewrite IH; auto.
    intros K1 K2. apply K; auto. intros d [<-|Hd]; auto.
Qed.

Lemma idx0_cases : forall x M B, idx x (M ++ B) = O ->
  (exists s, In s M /\ stopb x s = true) \/ (forall c, In c M -> smb x c = false).
Proof.
  intros x M B. induction M as [|c M IH]; intros H.
  - right. intros c [].
  - cbn [app idx] in H. destruct (stopb x c) eqn:Es.
    + left. exists c. split; auto. left; auto.
    + destruct (smb x c) eqn:Em; [discriminate|].
      destruct (idx x (M ++ B)) eqn:Ei; [|cbn in H; discriminate].
      destruct (IH eq_refl) as [(s & Hs & Ht)|Hr].
      * left. exists s. split; auto. right; auto.
      * right. intros d [<-|Hd]; auto.
Qed.

(* ---------- the strict case: x is placed strictly left of y ---------- *)
Lemma case_lt : forall (xi yi : ditem) (A M B : list ditem),
  M <> [] ->
  oid_eqb (Some (did xi)) (ororigin (d_op yi)) = false ->
  nonstop (d_op xi) A -> lastsm (d_op xi) A -> idx (d_op xi) (M ++ B) = O ->
  nonstop (d_op yi) (A ++ M) -> lastsm (d_op yi) (A ++ M) -> idx (d_op yi) B = O ->
  idx (d_op xi) (A ++ M ++ yi :: B) = length A /\
  idx (d_op yi) (A ++ xi :: M ++ B) = S (length (A ++ M)).
Proof.
  intros xi yi A M B HM H1 Nx Sx Zx Ny Sy Zy.
  destruct (exists_last HM) as (M' & m & ->).
  assert (Hm : smb (d_op yi) m = true).
  { destruct Sy as [E|(A' & a & E & Ha)].
    - destruct A; destruct M'; discriminate.
    - rewrite app_assoc in E. apply app_inj_tail in E. destruct E as [_ ->]. exact Ha. }
  split.
  - apply idx_app_spec; auto. apply idx0_insert; auto.
    intros K1 K2. cbn [idx]. destruct (stopb (d_op xi) yi); auto.
    destruct (smb (d_op xi) yi) eqn:E.
    + exfalso. assert (Km : smb (d_op xi) m = false).
      { apply K1. apply in_or_app. right. left. reflexivity. }
      unfold smb, did in *.
      apply N.ltb_lt in E. apply N.ltb_lt in Hm. apply N.ltb_ge in Km. lia.
    + rewrite K2. reflexivity.
  - assert (Sxy : stopb (d_op yi) xi = false).
    { unfold stopb. rewrite H1. cbn [orb].
      destruct (cl (did xi) <? cl (oid (d_op yi)))%N eqn:El; [reflexivity|].
      cbn [negb andb].
      destruct (oid_eqb (ororigin (d_op yi)) (ororigin (d_op xi))) eqn:Eo; [|reflexivity].
      exfalso. apply oid_eqb_true in Eo. apply N.ltb_ge in El. unfold did in El.
      destruct (idx0_cases _ _ _ Zx) as [(s & Hs & Ht)|Hr].
      - assert (Hf : stopb (d_op yi) s = false).
        { apply Ny. apply in_or_app. right. exact Hs. }
        unfold stopb in Ht, Hf. rewrite Eo in Hf.
        apply orb_false_iff in Hf. destruct Hf as [Hf1 Hf2].
        rewrite Hf1 in Ht. cbn [orb] in Ht.
        apply andb_true_iff in Ht. destruct Ht as [Ht1 Ht2].
        rewrite Ht2 in Hf2. rewrite andb_true_r in Hf2.
        apply negb_true_iff in Ht1. apply negb_false_iff in Hf2.
        apply N.ltb_ge in Ht1. apply N.ltb_lt in Hf2. lia.
      - assert (Km : smb (d_op xi) m = false).
        { apply Hr. apply in_or_app. right. left. reflexivity. }
        unfold smb, did in *. apply N.ltb_lt in Hm. apply N.ltb_ge in Km. lia. }
    replace (A ++ xi :: (M' ++ [m]) ++ B) with (((A ++ xi :: M') ++ [m]) ++ B).
    2:{ repeat rewrite <- app_assoc. cbn [app]. repeat rewrite <- app_assoc. reflexivity. }
    rewrite idx_snoc_spec; auto.
    + repeat rewrite app_length. cbn [length]. repeat rewrite app_length. cbn [length]. lia.
    + intros d Hd. apply in_app_or in Hd. destruct Hd as [Hd|Hd].
      * apply in_app_or in Hd. destruct Hd as [Hd|[<-|Hd]]; auto.
        -- apply Ny. apply in_or_app. left. exact Hd.
        -- apply Ny. apply in_or_app. right. apply in_or_app. left. exact Hd.
      * apply Ny. apply in_or_app. right. apply in_or_app. right. exact Hd.
Qed.

(* ---------- the tie case: same gap, different clients ---------- *)
Lemma case_eq : forall (xi yi : ditem) (A B : list ditem),
  (cl (did yi) <? cl (did xi))%N = true ->
  oid_eqb (Some (did yi)) (ororigin (d_op xi)) = false ->
  nonstop (d_op xi) A -> idx (d_op xi) B = O ->
  nonstop (d_op yi) A -> lastsm (d_op yi) A -> idx (d_op yi) B = O ->
  idx (d_op yi) (A ++ xi :: B) = length A /\
  idx (d_op xi) (A ++ yi :: B) = S (length A).
Proof.
  intros xi yi A B E H2 Nx Zx Ny Sy Zy. split.
  - apply idx_app_spec; auto. cbn [idx]. destruct (stopb (d_op yi) xi); auto.
    assert (Es : smb (d_op yi) xi = false).
    { unfold smb, did in *. apply N.ltb_lt in E. apply N.ltb_ge. lia. }
    rewrite Es, Zy. reflexivity.
  - replace (A ++ yi :: B) with ((A ++ [yi]) ++ B) by (rewrite <- app_assoc; reflexivity).
    apply idx_snoc_spec; auto.
    intros d Hd. apply in_app_or in Hd. destruct Hd as [Hd|[<-|[]]]; auto.
    unfold stopb. rewrite H2. unfold did in *. rewrite E. reflexivity.
Qed.

(* ---------- main theorem ---------- *)
Theorem sib_diamond : forall (xi yi : ditem) (cs : list ditem),
  oid_eqb (Some (did xi)) (ororigin (d_op yi)) = false ->
  oid_eqb (Some (did yi)) (ororigin (d_op xi)) = false ->
  (cl (did xi) <> cl (did yi)
   \/ (exists c, In c (firstn (idx (d_op yi) cs) cs) /\ ororigin (d_op xi) = Some (did c))
   \/ (exists c, In c (firstn (idx (d_op xi) cs) cs) /\ ororigin (d_op yi) = Some (did c))) ->
  let i := idx (d_op xi) cs in let j := idx (d_op yi) cs in
  let i' := idx (d_op xi) (ins j yi cs) in let j' := idx (d_op yi) (ins i xi cs) in
  ((i < j)%nat /\ i' = i /\ j' = S j) \/ ((j < i)%nat /\ j' = j /\ i' = S i) \/
  (i = j /\ ((i' = i /\ j' = S j) \/ (j' = j /\ i' = S i))).
Proof.
  intros xi yi cs H1 H2 H3. cbv zeta.
  destruct (idx_decomp (d_op xi) cs) as (Ax & Bx & Ex & Lx & Nx & Sx & Zx).
  destruct (idx_decomp (d_op yi) cs) as (Ay & By & Ey & Ly & Ny & Sy & Zy).
  assert (Fx : firstn (length Ax) cs = Ax) by (rewrite Ex; apply firstn_len_app).
  assert (Fy : firstn (length Ay) cs = Ay) by (rewrite Ey; apply firstn_len_app).
  assert (Kx : skipn (length Ax) cs = Bx) by (rewrite Ex; apply skipn_len_app).
  assert (Ky : skipn (length Ay) cs = By) by (rewrite Ey; apply skipn_len_app).
  rewrite <- Lx, <- Ly in *. unfold ins. rewrite Fx, Fy, Kx, Ky in *.
  clear Fx Fy Kx Ky Lx Ly.
  rewrite Ex in Ey. clear Ex cs.
  destruct (lt_eq_lt_dec (length Ax) (length Ay)) as [[L|L]|L].
  - left.
    destruct (app_split_le _ _ _ _ _ Ey) as (M & -> & ->); [lia|].
    assert (HM : M <> []).
    { intros ->. rewrite app_nil_r in L. lia. }
    destruct (case_lt xi yi Ax M By HM H1 Nx Sx Zx Ny Sy Zy) as [R1 R2].
    rewrite <- app_assoc. auto.
  - right. right. split; [exact L|].
    destruct (app_split_le _ _ _ _ _ Ey) as (M & -> & ->); [lia|].
    assert (HM : M = []).
    { destruct M; auto. rewrite app_length in L. cbn in L. lia. }
    subst M. rewrite app_nil_r in *. cbn [app] in *. clear L Ey.
    assert (Hne : cl (did xi) <> cl (did yi)).
    { destruct H3 as [H3|[(c & Hc & Ho)|(c & Hc & Ho)]]; auto; exfalso.
      - apply Nx in Hc. unfold stopb in Hc. rewrite Ho, oid_eqb_rfl in Hc. discriminate.
      - apply Ny in Hc. unfold stopb in Hc. rewrite Ho, oid_eqb_rfl in Hc. discriminate. }
    destruct (cl (did yi) <? cl (did xi))%N eqn:E.
    + right. apply (case_eq xi yi Ax By); auto.
    + left.
      assert (E' : (cl (did xi) <? cl (did yi))%N = true).
      { apply N.ltb_ge in E. apply N.ltb_lt. lia. }
      destruct (case_eq yi xi Ax By E' H1 Ny Zy Nx Sx Zx) as [R1 R2]. auto.
  - right. left.
    symmetry in Ey.
    destruct (app_split_le _ _ _ _ _ Ey) as (M & -> & ->); [lia|].
    assert (HM : M <> []).
    { intros ->. rewrite app_nil_r in L. lia. }
    destruct (case_lt yi xi Ay M Bx HM H2 Ny Sy Zy Nx Sx Zx) as [R1 R2].
    rewrite <- app_assoc. auto.
Qed.
End Sib.


(* ====================================================================== *)
(* PART 3: origin trees and the conflict scan                              *)
(* ====================================================================== *)
(* Y2: origin trees; the conflict scan computes the sibling machine [idx] on the children of the origin *)

Inductive tree := Node : ditem -> list tree -> tree.
Definition root (t : tree) : ditem := match t with Node i _ => i end.
Definition kids (t : tree) : list tree := match t with Node _ c => c end.
Fixpoint flat (t : tree) : list ditem := match t with Node i c => i :: flat_map flat c end.
Definition flatF (F : list tree) : list ditem := flat_map flat F.

Section TreeInd.
  Variable P : tree -> Prop.
  Hypothesis H : forall i c, Forall P c -> P (Node i c).
  Fixpoint tree_ind2 (t : tree) : P t :=
    match t with
    | Node i c => H i c ((fix go (c : list tree) : Forall P c :=
                            match c with
                            | [] => Forall_nil P
                            | t :: r => Forall_cons t (tree_ind2 t) (go r)
                            end) c)
    end.
End TreeInd.

Lemma flatF_cons : forall t F, flatF (t :: F) = flat t ++ flatF F.
Proof. reflexivity. Qed.
Lemma flatF_app : forall F G, flatF (F ++ G) = flatF F ++ flatF G.
Proof. intros. unfold flatF. apply flat_map_app. Qed.
Lemma flat_node : forall i c, flat (Node i c) = i :: flatF c.
Proof. reflexivity. Qed.
Lemma flat_root_kids : forall t, flat t = root t :: flatF (kids t).
Proof. intros [i c]. reflexivity. Qed.

Lemma ids_app : forall a b, ids (a ++ b) = ids a ++ ids b.
Proof. intros. unfold ids. apply map_app. Qed.
Lemma ids_cons : forall a b, ids (a :: b) = did a :: ids b.
Proof. reflexivity. Qed.

Lemma in_flatF : forall z F, In z (flatF F) <-> exists t, In t F /\ In z (flat t).
Proof. intros. unfold flatF. apply in_flat_map. Qed.

(* well-formed trees: the origin of every child is its parent *)
Inductive wft : option id -> tree -> Prop :=
| wft_node : forall p i c, oorigin (d_op i) = p -> Forall (wft (Some (did i))) c -> wft p (Node i c).

Lemma wft_inv : forall p i c, wft p (Node i c) ->
  oorigin (d_op i) = p /\ Forall (wft (Some (did i))) c.
Proof. intros p i c H. inversion H; subst. split; [reflexivity|assumption]. Qed.

Lemma wft_root : forall p t, wft p t -> oorigin (d_op (root t)) = p.
Proof. intros p [i c] H. apply wft_inv in H. apply H. Qed.
Lemma wft_kids : forall p t, wft p t -> Forall (wft (Some (did (root t)))) (kids t).
Proof. intros p [i c] H. apply wft_inv in H. apply H. Qed.

(* every strict descendant has its origin inside the tree *)
Lemma desc_origin_in : forall t p, wft p t ->
  forall z, In z (flatF (kids t)) -> exists w, oorigin (d_op z) = Some w /\ In w (ids (flat t)).
Proof.
  intros t. induction t as [i c IH] using tree_ind2. intros p Hw z Hz.
  apply wft_inv in Hw. destruct Hw as [_ Hc]. cbn [kids] in Hz.
  apply in_flatF in Hz. destruct Hz as (t & Ht & Hz).
  rewrite Forall_forall in IH, Hc. specialize (IH t Ht _ (Hc t Ht)).
  rewrite flat_root_kids in Hz. destruct Hz as [Hz|Hz].
  - subst z. exists (did i). split.
    + apply (wft_root _ _ (Hc t Ht)).
    + rewrite flat_node, ids_cons. left. reflexivity.
  - destruct (IH z Hz) as (w & Hw1 & Hw2). exists w. split; [exact Hw1|].
    rewrite flat_node, ids_cons. right. unfold ids. apply in_map_iff.
    unfold ids in Hw2. apply in_map_iff in Hw2. destruct Hw2 as (u & Eu & Hu).
    exists u. split; [exact Eu|]. apply in_flatF. exists t. split; assumption.
Qed.

(* ---------- replacing the children of the node with id [o] ---------- *)
Fixpoint repl (o : id) (f : list tree -> list tree) (t : tree) : tree :=
  match t with
  | Node i c => if id_eqb (did i) o then Node i (f c) else Node i (map (repl o f) c)
  end.

Lemma repl_notin : forall o f t, ~ In o (ids (flat t)) -> repl o f t = t.
Proof.
  intros o f t. induction t as [i c IH] using tree_ind2. intros Hn. cbn [repl].
  destruct (id_eqb (did i) o) eqn:E.
  - exfalso. apply Hn. apply id_eqb_eq in E. rewrite flat_node, ids_cons. left. exact E.
  - f_equal. rewrite <- (map_id c) at 2. apply map_ext_in. intros t Ht.
    rewrite Forall_forall in IH. apply IH; [exact Ht|]. intros Hin. apply Hn.
    rewrite flat_node, ids_cons. right. unfold ids in *. apply in_map_iff in Hin.
    destruct Hin as (u & Eu & Hu). apply in_map_iff. exists u. split; [exact Eu|].
    apply in_flatF. exists t. split; assumption.
Qed.

Lemma repl_notin_F : forall o f F, ~ In o (ids (flatF F)) -> map (repl o f) F = F.
Proof.
  intros o f F Hn. rewrite <- (map_id F) at 2. apply map_ext_in. intros t Ht.
  apply repl_notin. intros Hin. apply Hn. unfold ids in *. apply in_map_iff in Hin.
  destruct Hin as (u & Eu & Hu). apply in_map_iff. exists u. split; [exact Eu|].
  apply in_flatF. exists t. split; assumption.
Qed.

Lemma repl_root : forall o f t, root (repl o f t) = root t.
Proof. intros o f [i c]. cbn [repl]. destruct (id_eqb (did i) o); reflexivity. Qed.

(* what follows the subtree of [o] is an outsider: its origin is not inside the subtree *)
Definition outs (S : list id) (C : list ditem) : Prop :=
  match C with
  | [] => True
  | z :: _ => match oorigin (d_op z) with None => True | Some w => w <> did z /\ ~ In w S end
  end.

Lemma outs_app : forall S C D, outs S C -> outs S D -> outs S (C ++ D).
Proof. intros S [|z C] D H1 H2; [exact H2|exact H1]. Qed.

Lemma outs_incl : forall S S' C, (forall w, In w S' -> In w S) -> outs S C -> outs S' C.
Proof.
  intros S S' [|z C] Hs H; [exact I|]. cbn in *. destruct (oorigin (d_op z)); [|exact I].
  destruct H as [H1 H2]. split; [exact H1|]. intros Hin. apply H2. apply Hs. exact Hin.
Qed.

Definition located (o : id) (T : (list tree -> list tree) -> list ditem) (A : list ditem) (i : ditem)
           (c : list tree) (C : list ditem) : Prop :=
  did i = o /\ ~ In o (ids A) /\ Forall (wft (Some o)) c /\
  (forall f, T f = A ++ i :: flatF (f c) ++ C) /\ outs (ids (i :: flatF c)) C.

Lemma locate_F_aux : forall o F p,
  Forall (fun t => forall p, wft p t -> NoDup (ids (flat t)) -> In o (ids (flat t)) ->
            exists A i c C, located o (fun f => flat (repl o f t)) A i c C) F ->
  Forall (wft p) F -> NoDup (ids (flatF F)) -> In o (ids (flatF F)) ->
  (forall w, p = Some w -> ~ In w (ids (flatF F))) ->
  exists A i c C, located o (fun f => flatF (map (repl o f) F)) A i c C.
Proof.
  intros o F p IH. induction F as [|t F IHF]; intros Hw Hnd Hin Hp.
  - destruct Hin.
  - apply Forall_cons_iff in IH. destruct IH as [IHt IH].
    apply Forall_cons_iff in Hw. destruct Hw as [Hwt Hw].
    rewrite flatF_cons, ids_app in Hnd, Hin.
    apply in_app_or in Hin. destruct Hin as [Hin|Hin].
    + (* o is in the first tree *)
      destruct (IHt p Hwt (NoDup_app_l _ _ _ Hnd) Hin) as (A & i & c & C & H1 & H2 & H3 & H4 & H5).
      assert (HnF : ~ In o (ids (flatF F))).
      { intros HF. eapply NoDup_app_disj; [exact Hnd|exact Hin|exact HF]. }
      exists A, i, c, (C ++ flatF F). split; [exact H1|]. split; [exact H2|]. split; [exact H3|]. split.
      * intros f. cbn [map]. rewrite flatF_cons, H4, (repl_notin_F o f F HnF).
        rewrite <- !app_assoc. cbn [app]. rewrite <- !app_assoc. reflexivity.
      * apply outs_app; [exact H5|].
        destruct F as [|t2 F2]; [exact I|].
        rewrite flatF_cons, flat_root_kids. cbn [app outs].
        apply Forall_cons_iff in Hw. destruct Hw as [Hw2 _]. rewrite (wft_root _ _ Hw2).
        destruct p as [w|]; [|exact I].
        assert (Hsub : forall u, In u (ids (i :: flatF c)) -> In u (ids (flat t))).
        { intros u Hu. specialize (H4 (fun c => c)).
          assert (E : repl o (fun c => c) t = t).
          { clear. induction t as [j d IHd] using tree_ind2. cbn [repl].
            destruct (id_eqb (did j) o); [reflexivity|]. f_equal.
            rewrite <- (map_id d) at 2. apply map_ext_in. intros t Ht.
            rewrite Forall_forall in IHd. apply IHd. exact Ht. }
          rewrite E in H4. rewrite H4, ids_app. apply in_or_app. right.
          change (i :: flatF c ++ C) with ((i :: flatF c) ++ C). rewrite ids_app.
          apply in_or_app. left. exact Hu. }
        split.
        -- intros Ew. apply (Hp w eq_refl). rewrite flatF_cons, ids_app. apply in_or_app. right.
           rewrite flatF_cons, flat_root_kids. rewrite Ew. left. reflexivity.
        -- intros Hu. apply (Hp w eq_refl). rewrite flatF_cons, ids_app. apply in_or_app. left.
           apply Hsub. exact Hu.
    + (* o is further right *)
      assert (Hnt : ~ In o (ids (flat t))).
      { intros Ht. eapply NoDup_app_disj; [exact Hnd|exact Ht|exact Hin]. }
      destruct (IHF IH Hw (NoDup_app_r _ _ _ Hnd) Hin) as (A & i & c & C & H1 & H2 & H3 & H4 & H5).
      { intros w Ew Hu. apply (Hp w Ew). rewrite flatF_cons, ids_app. apply in_or_app. right. exact Hu. }
      exists (flat t ++ A), i, c, C. split; [exact H1|]. split; [|split; [exact H3|split; [|exact H5]]].
      * rewrite ids_app. intros Hu. apply in_app_or in Hu. destruct Hu as [Hu|Hu]; contradiction.
      * intros f. cbn [map]. rewrite flatF_cons, H4, (repl_notin o f t Hnt).
        rewrite <- app_assoc. reflexivity.
Qed.

Lemma locate_t : forall o t p, wft p t -> NoDup (ids (flat t)) -> In o (ids (flat t)) ->
  exists A i c C, located o (fun f => flat (repl o f t)) A i c C.
Proof.
  intros o t. induction t as [i c IH] using tree_ind2. intros p Hw Hnd Hin.
  apply wft_inv in Hw. destruct Hw as [Hp Hc].
  cbn [repl]. destruct (id_eqb (did i) o) eqn:E.
  - apply id_eqb_eq in E. exists [], i, c, []. split; [exact E|]. split; [intros []|]. split.
    + rewrite <- E. exact Hc.
    + split; [|exact I]. intros f. rewrite flat_node, app_nil_r. reflexivity.
  - rewrite flat_node, ids_cons in Hnd, Hin. destruct Hin as [Hin|Hin].
    { apply id_eqb_neq in E. contradiction. }
    apply NoDup_cons_iff in Hnd. destruct Hnd as [Hni Hnd].
    destruct (locate_F_aux o c (Some (did i)) IH Hc Hnd Hin) as (A & j & d & C & H1 & H2 & H3 & H4 & H5).
    { intros w Ew. inversion Ew; subst. exact Hni. }
    exists (i :: A), j, d, C. split; [exact H1|]. split; [|split; [exact H3|split; [|exact H5]]].
    + rewrite ids_cons. intros [Hu|Hu]; [|contradiction]. apply id_eqb_neq in E. contradiction.
    + intros f. rewrite flat_node. fold (flatF (map (repl o f) c)). rewrite H4. reflexivity.
Qed.

Lemma locate_F : forall o F, Forall (wft None) F -> NoDup (ids (flatF F)) -> In o (ids (flatF F)) ->
  exists A i c C, located o (fun f => flatF (map (repl o f) F)) A i c C.
Proof.
  intros o F Hw Hnd Hin. eapply locate_F_aux; try eassumption.
  - apply Forall_forall. intros t _ p. apply locate_t.
  - intros w Ew. discriminate.
Qed.

Lemma repl_id : forall o t, repl o (fun c => c) t = t.
Proof.
  intros o t. induction t as [j d IHd] using tree_ind2. cbn [repl].
  destruct (id_eqb (did j) o); [reflexivity|]. f_equal.
  rewrite <- (map_id d) at 2. apply map_ext_in. intros t Ht.
  rewrite Forall_forall in IHd. apply IHd. exact Ht.
Qed.
Lemma repl_id_F : forall o F, map (repl o (fun c => c)) F = F.
Proof. intros. rewrite <- (map_id F) at 2. apply map_ext. intros. apply repl_id. Qed.

(* ---------- the scan over descendants ---------- *)
Definition dok (x : op) (z : ditem) : Prop :=
  oid_eqb (Some (did z)) (ororigin x) = false /\ oid_eqb (oorigin x) (oorigin (d_op z)) = false.

Lemma mem_id_app_r : forall p a b, mem_id p b = true -> mem_id p (a ++ b) = true.
Proof. intros p a b H. apply mem_id_In. apply in_or_app. right. apply mem_id_In. exact H. Qed.
Lemma mem_id_head : forall p b, mem_id p (p :: b) = true.
Proof. intros. apply mem_id_In. left. reflexivity. Qed.

Definition lft_stmt (x : op) (t : tree) : Prop :=
  forall p, wft (Some p) t -> ~ In p (ids (flat t)) -> Forall (dok x) (flat t) -> NoDup (ids (flat t)) ->
  forall R k lft before, mem_id p before = true ->
  yata_scan x (flat t ++ R) k lft [] before =
  yata_scan x R (k + length (flat t)) (k + length (flat t)) [] (rev (ids (flat t)) ++ before).

Lemma scan_lft_F_aux : forall x F p,
  Forall (lft_stmt x) F ->
  Forall (wft (Some p)) F -> ~ In p (ids (flatF F)) -> Forall (dok x) (flatF F) -> NoDup (ids (flatF F)) ->
  forall R k before, mem_id p before = true ->
  yata_scan x (flatF F ++ R) k k [] before =
  yata_scan x R (k + length (flatF F)) (k + length (flatF F)) [] (rev (ids (flatF F)) ++ before).
Proof.
  intros x F p IH. induction F as [|t F IHF]; intros Hw Hnp Hd Hnd R k before Hm.
  - cbn. rewrite Nat.add_0_r. reflexivity.
  - apply Forall_cons_iff in IH. destruct IH as [IHt IH].
    apply Forall_cons_iff in Hw. destruct Hw as [Hwt Hw].
    rewrite flatF_cons in *. rewrite ids_app in *. apply Forall_app in Hd. destruct Hd as [Hdt Hd].
    rewrite <- app_assoc. rewrite (IHt p Hwt); [| |exact Hdt|exact (NoDup_app_l _ _ _ Hnd)|exact Hm].
    2:{ intros Hu. apply Hnp. apply in_or_app. left. exact Hu. }
    rewrite IHF; [|exact IH|exact Hw| |exact Hd|exact (NoDup_app_r _ _ _ Hnd)|].
    2:{ intros Hu. apply Hnp. apply in_or_app. right. exact Hu. }
    2:{ apply mem_id_app_r. exact Hm. }
    rewrite app_length, rev_app_distr, <- app_assoc, Nat.add_assoc. reflexivity.
Qed.

Lemma scan_lft_t : forall x t, lft_stmt x t.
Proof.
  intros x t. induction t as [i c IH] using tree_ind2.
  intros p Hw Hnp Hd Hnd R k lft before Hm.
  apply wft_inv in Hw. destruct Hw as [Hp Hc].
  rewrite flat_node in *. rewrite ids_cons in *.
  apply Forall_cons_iff in Hd. destruct Hd as [[Hd1 Hd2] Hd].
  apply NoDup_cons_iff in Hnd. destruct Hnd as [Hni Hnd].
  cbn [app yata_scan]. rewrite Hd1, Hd2, Hp.
  assert (E1 : mem_id p (did i :: before) = true).
  { apply mem_id_In. right. apply mem_id_In. exact Hm. }
  assert (E2 : mem_id p [did i] = false).
  { apply mem_id_false. intros [Hu|[]]. apply Hnp. left. exact Hu. }
  rewrite E1, E2. cbn [negb].
  rewrite (scan_lft_F_aux x c (did i) IH Hc Hni Hd Hnd); [|apply mem_id_head].
  cbn [length rev]. rewrite <- app_assoc. cbn [app].
  replace (S k + length (flatF c))%nat with (k + S (length (flatF c)))%nat by lia. reflexivity.
Qed.

Lemma scan_lft_F : forall x F p,
  Forall (wft (Some p)) F -> ~ In p (ids (flatF F)) -> Forall (dok x) (flatF F) -> NoDup (ids (flatF F)) ->
  forall R k before, mem_id p before = true ->
  yata_scan x (flatF F ++ R) k k [] before =
  yata_scan x R (k + length (flatF F)) (k + length (flatF F)) [] (rev (ids (flatF F)) ++ before).
Proof.
  intros x F p. apply scan_lft_F_aux. apply Forall_forall. intros t _. apply scan_lft_t.
Qed.

Definition conf_stmt (x : op) (t : tree) : Prop :=
  forall p, wft (Some p) t -> Forall (dok x) (flat t) ->
  forall R k lft conf before, mem_id p before = true -> mem_id p conf = true ->
  yata_scan x (flat t ++ R) k lft conf before =
  yata_scan x R (k + length (flat t)) lft (rev (ids (flat t)) ++ conf) (rev (ids (flat t)) ++ before).

Lemma scan_conf_F_aux : forall x F p,
  Forall (conf_stmt x) F ->
  Forall (wft (Some p)) F -> Forall (dok x) (flatF F) ->
  forall R k lft conf before, mem_id p before = true -> mem_id p conf = true ->
  yata_scan x (flatF F ++ R) k lft conf before =
  yata_scan x R (k + length (flatF F)) lft (rev (ids (flatF F)) ++ conf) (rev (ids (flatF F)) ++ before).
Proof.
  intros x F p IH. induction F as [|t F IHF]; intros Hw Hd R k lft conf before Hm Hc.
  - cbn. rewrite Nat.add_0_r. reflexivity.
  - apply Forall_cons_iff in IH. destruct IH as [IHt IH].
    apply Forall_cons_iff in Hw. destruct Hw as [Hwt Hw].
    rewrite flatF_cons in *. rewrite ids_app in *. apply Forall_app in Hd. destruct Hd as [Hdt Hd].
    rewrite <- app_assoc. rewrite (IHt p Hwt Hdt); [|exact Hm|exact Hc].
    rewrite IHF; [|exact IH|exact Hw|exact Hd|apply mem_id_app_r; exact Hm|apply mem_id_app_r; exact Hc].
    rewrite app_length, rev_app_distr, <- !app_assoc, Nat.add_assoc. reflexivity.
Qed.

Lemma scan_conf_t : forall x t, conf_stmt x t.
Proof.
  intros x t. induction t as [i c IH] using tree_ind2.
  intros p Hw Hd R k lft conf before Hm Hcf.
  apply wft_inv in Hw. destruct Hw as [Hp Hc].
  rewrite flat_node in *. rewrite ids_cons in *.
  apply Forall_cons_iff in Hd. destruct Hd as [[Hd1 Hd2] Hd].
  cbn [app yata_scan]. rewrite Hd1, Hd2, Hp.
  assert (E1 : mem_id p (did i :: before) = true).
  { apply mem_id_In. right. apply mem_id_In. exact Hm. }
  assert (E2 : mem_id p (did i :: conf) = true).
  { apply mem_id_In. right. apply mem_id_In. exact Hcf. }
  rewrite E1, E2. cbn [negb].
  rewrite (scan_conf_F_aux x c (did i) IH Hc Hd); [|apply mem_id_head|apply mem_id_head].
  cbn [length rev]. rewrite <- !app_assoc. cbn [app].
  replace (S k + length (flatF c))%nat with (k + S (length (flatF c)))%nat by lia. reflexivity.
Qed.

Lemma scan_conf_F : forall x F p,
  Forall (wft (Some p)) F -> Forall (dok x) (flatF F) ->
  forall R k lft conf before, mem_id p before = true -> mem_id p conf = true ->
  yata_scan x (flatF F ++ R) k lft conf before =
  yata_scan x R (k + length (flatF F)) lft (rev (ids (flatF F)) ++ conf) (rev (ids (flatF F)) ++ before).
Proof.
  intros x F p. apply scan_conf_F_aux. apply Forall_forall. intros t _. apply scan_conf_t.
Qed.

(* ---------- the scan over the children of the origin ---------- *)
Fixpoint cpos (x : op) (F : list tree) (k lft : nat) : nat :=
  match F with
  | [] => lft
  | t :: F' =>
    if stopb x (root t) then lft
    else if smb x (root t) then cpos x F' (k + length (flat t)) (k + length (flat t))
    else cpos x F' (k + length (flat t)) lft
  end.

Lemma cpos_idx : forall x F k lft,
  cpos x F k lft = match idx x (map root F) with
                   | O => lft
                   | S _ => (k + length (flatF (firstn (idx x (map root F)) F)))%nat
                   end.
Proof.
  intros x F. induction F as [|t F IH]; intros k lft; cbn [cpos map idx]; [reflexivity|].
  destruct (stopb x (root t)); [reflexivity|].
  destruct (smb x (root t)).
  - rewrite IH. cbn [firstn]. rewrite flatF_cons, app_length.
    destruct (idx x (map root F)) eqn:E.
    + cbn. lia.
    + lia.
  - rewrite IH. destruct (idx x (map root F)) eqn:E; cbn [bump]; [reflexivity|].
    cbn [firstn]. rewrite flatF_cons, app_length. lia.
Qed.

Lemma scan_kids : forall x C SS,
  (forall k lft conf before, (forall w, In w before -> In w SS) -> yata_scan x C k lft conf before = lft) ->
  forall F, Forall (wft (oorigin x)) F -> NoDup (ids (flatF F)) ->
  (forall t, In t F -> Forall (dok x) (flatF (kids t))) ->
  (forall w, In w (ids (flatF F)) -> In w SS) ->
  forall k lft conf before, (forall w, In w before -> In w SS) ->
  yata_scan x (flatF F ++ C) k lft conf before = cpos x F k lft.
Proof.
  intros x C SS HC F. induction F as [|t F IH]; intros Hw Hnd Hd HS k lft conf before Hb.
  - cbn. apply HC. exact Hb.
  - apply Forall_cons_iff in Hw. destruct Hw as [Hwt Hw].
    rewrite flatF_cons in *. rewrite ids_app in *.
    assert (Hdt := Hd t (or_introl eq_refl)).
    destruct t as [c g]. cbn [kids] in Hdt. apply wft_inv in Hwt. destruct Hwt as [Hp Hg].
    rewrite flat_node in *. rewrite ids_cons in *.
    assert (Hndt := NoDup_app_l _ _ _ Hnd). apply NoDup_cons_iff in Hndt. destruct Hndt as [Hnc Hndg].
    cbn [app yata_scan cpos root]. unfold stopb, smb.
    destruct (oid_eqb (Some (did c)) (ororigin x)) eqn:E1; [reflexivity|].
    rewrite Hp, oid_eqb_refl. cbn [orb].
    assert (IH' : forall k lft conf before, (forall w, In w before -> In w SS) ->
                  yata_scan x (flatF F ++ C) k lft conf before = cpos x F k lft).
    { apply IH; [exact Hw|exact (NoDup_app_r _ _ _ Hnd)| |].
      - intros t Ht. apply Hd. right. exact Ht.
      - intros w Hin. apply HS. apply in_or_app. right. exact Hin. }
    assert (HS' : forall before', (forall w, In w before' -> In w SS) ->
                  forall w, In w (rev (ids (flatF g)) ++ did c :: before') -> In w SS).
    { intros before' Hb' w Hin. apply in_app_or in Hin. destruct Hin as [Hin|[Hin|Hin]].
      - apply HS. apply in_or_app. left. right. apply in_rev. exact Hin.
      - apply HS. apply in_or_app. left. left. exact Hin.
      - apply Hb'. exact Hin. }
    destruct (cl (did c) <? cl (oid x))%N eqn:E2.
    + cbn [negb andb]. rewrite <- app_assoc.
      rewrite (scan_lft_F x g (did c) Hg Hnc Hdt Hndg); [|apply mem_id_head].
      rewrite IH'; [|apply HS'; exact Hb].
      rewrite flat_node. cbn [length]. f_equal; lia.
    + cbn [negb andb]. destruct (oid_eqb (ororigin x) (ororigin (d_op c))) eqn:E3; [reflexivity|].
      rewrite <- app_assoc.
      rewrite (scan_conf_F x g (did c) Hg Hdt); [|apply mem_id_head|apply mem_id_head].
      rewrite IH'; [|apply HS'; exact Hb].
      rewrite flat_node. cbn [length]. f_equal; lia.
Qed.

(* ---------- insertion at the sibling index ---------- *)
Definition place (x : op) (F : list tree) : list tree :=
  ins (idx x (map root F)) (Node (it x) []) F.
Definition fins (x : op) (F : list tree) : list tree :=
  match oorigin x with None => place x F | Some o => map (repl o (place x)) F end.

Lemma firstn_len_app : forall (A : Type) (a b : list A), firstn (length a) (a ++ b) = a.
Proof. intros A a b. induction a as [|x a IH]; cbn; [destruct b; reflexivity|rewrite IH; reflexivity]. Qed.
Lemma skipn_len_app : forall (A : Type) (a b : list A), skipn (length a) (a ++ b) = b.
Proof. intros A a b. induction a as [|x a IH]; cbn; [reflexivity|exact IH]. Qed.

Lemma flatF_place : forall x F,
  flatF (place x F) = flatF (firstn (idx x (map root F)) F) ++ it x :: flatF (skipn (idx x (map root F)) F).
Proof. intros x F. unfold place, ins. rewrite flatF_app, flatF_cons. reflexivity. Qed.

Lemma insert_at : forall l x P F C SS,
  yi_split l (it x) = (P, flatF F ++ C) ->
  (forall k lft conf before, (forall w, In w before -> In w SS) -> yata_scan x C k lft conf before = lft) ->
  Forall (wft (oorigin x)) F -> NoDup (ids (flatF F)) ->
  (forall t, In t F -> Forall (dok x) (flatF (kids t))) ->
  (forall w, In w (ids (flatF F)) -> In w SS) ->
  integ l x = P ++ flatF (place x F) ++ C.
Proof.
  intros l x P F C SS Hs HC Hw Hnd Hd HS.
  unfold integ. rewrite yata_insert_unfold. unfold it in Hs. rewrite Hs. cbn [fst snd]. cbv zeta.
  change (d_op (mkditem x false)) with x.
  rewrite (scan_kids x C SS HC F Hw Hnd Hd HS 0 0 [] []); [|intros w []].
  rewrite cpos_idx. set (i := idx x (map root F)).
  assert (En : match i with O => O | S _ => (0 + length (flatF (firstn i F)))%nat end
               = length (flatF (firstn i F))).
  { destruct i; reflexivity. }
  rewrite En. clear En.
  assert (EF : flatF F = flatF (firstn i F) ++ flatF (skipn i F)).
  { rewrite <- flatF_app, firstn_skipn. reflexivity. }
  rewrite EF, <- app_assoc.
  rewrite firstn_len_app, skipn_len_app. rewrite flatF_place. fold i.
  rewrite <- app_assoc. reflexivity.
Qed.


(* ====================================================================== *)
(* PART 4: integration is insertion into the origin forest                 *)
(* ====================================================================== *)
(* Y3: integration = insertion into the origin forest; the diamond lemma on forests *)

(* the right origin of x is a sibling of x, or an item without origin, or an item whose origin lies
   left of the origin of x *)
Definition condr (x : op) (l : list ditem) : Prop :=
  forall r zr, ororigin x = Some r -> In zr l -> did zr = r ->
    oorigin (d_op zr) = oorigin x \/ oorigin (d_op zr) = None \/
    exists w o, oorigin (d_op zr) = Some w /\ oorigin x = Some o /\ lt_in w o l.

(* the origin of x is left of its right origin *)
Definition olr (x : op) (l : list ditem) : Prop :=
  forall o r, oorigin x = Some o -> ororigin x = Some r -> lt_in o r l.

Definition forest (l : list ditem) (F : list tree) : Prop :=
  Forall (wft None) F /\ flatF F = l.

Lemma stop_at : forall x o i c C, oorigin x = Some o -> did i = o ->
  outs (ids (i :: flatF c)) C ->
  forall k lft conf before, (forall w, In w before -> In w (ids (flatF c))) ->
  yata_scan x C k lft conf before = lft.
Proof.
  intros x o i c [|z C] Ho Hi Hout k lft conf before Hb; [reflexivity|].
  cbn [yata_scan]. destruct (oid_eqb (Some (did z)) (ororigin x)); [reflexivity|].
  cbn [outs] in Hout. rewrite Ho. destruct (oorigin (d_op z)) as [w|] eqn:Ew.
  - destruct Hout as [H1 H2].
    assert (E : oid_eqb (Some o) (Some w) = false).
    { apply oid_eqb_neq. intros E. inversion E; subst w. apply H2. rewrite ids_cons. left. exact Hi. }
    rewrite E.
    assert (E2 : mem_id w (did z :: before) = false).
    { apply mem_id_false. intros [Hw|Hw]; [congruence|]. apply H2. rewrite ids_cons. right. apply Hb. exact Hw. }
    rewrite E2. reflexivity.
  - reflexivity.
Qed.

Lemma in_flat_ids : forall z t F, In t F -> In z (flat t) -> In (did z) (ids (flatF F)).
Proof.
  intros z t F Ht Hz. unfold ids. apply in_map. apply in_flatF. exists t. split; assumption.
Qed.

Lemma ltl_of_split : forall (P Q : list id) o w, In w Q -> ltl o w (P ++ o :: Q).
Proof.
  intros P Q o w Hw. apply in_split in Hw. destruct Hw as (q1 & q2 & E). subst Q.
  exists P, q1, q2. reflexivity.
Qed.

(* descendants of the children of the origin are transparent for the scan *)
Lemma dok_some : forall x o l A i c C,
  oorigin x = Some o -> did i = o -> l = A ++ i :: flatF c ++ C -> NoDup (ids l) ->
  Forall (wft (Some o)) c -> condr x l ->
  forall t, In t c -> Forall (dok x) (flatF (kids t)).
Proof.
  intros x o l A i c C Ho Hi El Hnd Hc Hcr t Ht. apply Forall_forall. intros z Hz.
  rewrite Forall_forall in Hc.
  destruct (desc_origin_in t _ (Hc t Ht) z Hz) as (w & Ew & Hw).
  assert (Hwc : In w (ids (flatF c))).
  { unfold ids in Hw. apply in_map_iff in Hw. destruct Hw as (u & Eu & Hu). subst w.
    eapply in_flat_ids; eassumption. }
  assert (Hlt : ltl o w (ids l)).
  { rewrite El, ids_app, ids_cons, ids_app, Hi. apply ltl_of_split. apply in_or_app. left. exact Hwc. }
  assert (Hwo : w <> o) by (apply not_eq_sym; eapply ltl_neq; eassumption).
  split.
  - destruct (oid_eqb (Some (did z)) (ororigin x)) eqn:E; [|reflexivity]. exfalso.
    apply oid_eqb_eq in E. symmetry in E.
    assert (Hzl : In z l).
    { rewrite El. apply in_or_app. right. right. apply in_or_app. left.
      apply in_flatF. exists t. split; [exact Ht|]. rewrite flat_root_kids. right. exact Hz. }
    destruct (Hcr (did z) z E Hzl eq_refl) as [H|[H|(w' & o' & H1 & H2 & H3)]].
    + rewrite Ew, Ho in H. inversion H. contradiction.
    + rewrite Ew in H. discriminate.
    + rewrite Ew in H1. rewrite Ho in H2. inversion H1; inversion H2; subst w' o'.
      eapply ltl_asym; [exact Hnd|exact Hlt|exact H3].
  - rewrite Ho, Ew. apply oid_eqb_neq. intros E. inversion E. congruence.
Qed.

Lemma dok_none : forall x F, oorigin x = None -> Forall (wft None) F -> condr x (flatF F) ->
  forall t, In t F -> Forall (dok x) (flatF (kids t)).
Proof.
  intros x F Ho Hc Hcr t Ht. apply Forall_forall. intros z Hz.
  rewrite Forall_forall in Hc.
  destruct (desc_origin_in t _ (Hc t Ht) z Hz) as (w & Ew & Hw).
  split.
  - destruct (oid_eqb (Some (did z)) (ororigin x)) eqn:E; [|reflexivity]. exfalso.
    apply oid_eqb_eq in E. symmetry in E.
    assert (Hzl : In z (flatF F)).
    { apply in_flatF. exists t. split; [exact Ht|]. rewrite flat_root_kids. right. exact Hz. }
    destruct (Hcr (did z) z E Hzl eq_refl) as [H|[H|(w' & o' & H1 & H2 & H3)]].
    + rewrite Ew, Ho in H. discriminate.
    + rewrite Ew in H. discriminate.
    + rewrite Ho in H2. discriminate.
  - rewrite Ho, Ew. reflexivity.
Qed.

Lemma yi_split_some : forall x o A i R, oorigin x = Some o -> did i = o -> ~ In o (ids A) ->
  yi_split (A ++ i :: R) (it x) = (A ++ [i], R).
Proof.
  intros x o A i R Ho Hi Hn. unfold yi_split. change (d_op (it x)) with x. rewrite Ho.
  rewrite (split_after_first o A i R); [reflexivity| |exact Hi].
  intros z Hz E. apply Hn. rewrite <- E. unfold ids. apply in_map. exact Hz.
Qed.

(* decomposition of a well-formed forest around the node [o] *)
Lemma locate : forall o F, Forall (wft None) F -> NoDup (ids (flatF F)) -> In o (ids (flatF F)) ->
  exists A i c C, did i = o /\ ~ In o (ids A) /\ Forall (wft (Some o)) c /\
    flatF F = A ++ i :: flatF c ++ C /\
    (forall f, flatF (map (repl o f) F) = A ++ i :: flatF (f c) ++ C) /\
    outs (ids (i :: flatF c)) C /\ NoDup (ids (i :: flatF c)).
Proof.
  intros o F Hw Hnd Hin.
  destruct (locate_F o F Hw Hnd Hin) as (A & i & c & C & H1 & H2 & H3 & H4 & H5).
  exists A, i, c, C. split; [exact H1|]. split; [exact H2|]. split; [exact H3|].
  assert (E : flatF F = A ++ i :: flatF c ++ C).
  { rewrite <- (H4 (fun c => c)), repl_id_F. reflexivity. }
  split; [exact E|]. split; [exact H4|]. split; [exact H5|].
  rewrite E in Hnd. rewrite ids_app in Hnd. apply NoDup_app_r in Hnd.
  change (i :: flatF c ++ C) with ((i :: flatF c) ++ C) in Hnd. rewrite ids_app in Hnd.
  apply NoDup_app_l in Hnd. exact Hnd.
Qed.

Theorem sim : forall F x, Forall (wft None) F -> NoDup (ids (flatF F)) ->
  (forall o, oorigin x = Some o -> In o (ids (flatF F))) -> condr x (flatF F) ->
  integ (flatF F) x = flatF (fins x F).
Proof.
  intros F x Hw Hnd Hdep Hcr. unfold fins. destruct (oorigin x) as [o|] eqn:Ho.
  - destruct (locate o F Hw Hnd (Hdep o eq_refl)) as (A & i & c & C & H1 & H2 & H3 & H4 & H5 & H6 & H7).
    rewrite H5.
    rewrite (insert_at (flatF F) x (A ++ [i]) c C (ids (flatF c))).
    + rewrite <- app_assoc. reflexivity.
    + rewrite H4. eapply yi_split_some; eassumption.
    + eapply stop_at; eassumption.
    + rewrite Ho. exact H3.
    + rewrite ids_cons in H7. apply NoDup_cons_iff in H7. apply H7.
    + apply (dok_some x o (flatF F) A i c C Ho H1 H4 Hnd H3 Hcr).
    + auto.
  - rewrite (insert_at (flatF F) x [] F [] (ids (flatF F))).
    + rewrite app_nil_r. reflexivity.
    + rewrite app_nil_r. unfold yi_split. change (d_op (it x)) with x. rewrite Ho. reflexivity.
    + intros. reflexivity.
    + rewrite Ho. exact Hw.
    + exact Hnd.
    + apply dok_none; assumption.
    + auto.
Qed.

(* ---------- the forest stays well formed ---------- *)
Lemma in_ins : forall (A : Type) i (e : A) l z, In z (ins i e l) <-> z = e \/ In z l.
Proof.
  intros A i e l z. unfold ins. rewrite in_app_iff. cbn [In].
  rewrite <- (firstn_skipn i l) at 3. rewrite in_app_iff. intuition congruence.
Qed.

Lemma place_wft : forall x p F, oorigin x = p -> Forall (wft p) F -> Forall (wft p) (place x F).
Proof.
  intros x p F Hp Hw. apply Forall_forall. intros t Ht. unfold place in Ht.
  apply in_ins in Ht. destruct Ht as [Ht|Ht].
  - subst t. constructor; [exact Hp|constructor].
  - rewrite Forall_forall in Hw. apply Hw. exact Ht.
Qed.

Lemma repl_wft : forall o f, (forall c, Forall (wft (Some o)) c -> Forall (wft (Some o)) (f c)) ->
  forall t p, wft p t -> wft p (repl o f t).
Proof.
  intros o f Hf t. induction t as [i c IH] using tree_ind2. intros p Hw.
  apply wft_inv in Hw. destruct Hw as [Hp Hc]. cbn [repl].
  destruct (id_eqb (did i) o) eqn:E.
  - apply id_eqb_eq in E. constructor; [exact Hp|]. rewrite E. apply Hf. rewrite <- E. exact Hc.
  - constructor; [exact Hp|]. apply Forall_forall. intros t Ht. apply in_map_iff in Ht.
    destruct Ht as (u & Eu & Hu). subst t. rewrite Forall_forall in IH, Hc. apply IH; [exact Hu|].
    apply Hc. exact Hu.
Qed.

Lemma fins_wft : forall x F, Forall (wft None) F -> Forall (wft None) (fins x F).
Proof.
  intros x F Hw. unfold fins. destruct (oorigin x) as [o|] eqn:Ho.
  - apply Forall_forall. intros t Ht. apply in_map_iff in Ht. destruct Ht as (u & Eu & Hu). subst t.
    apply repl_wft.
    + intros c Hc. apply place_wft; assumption.
    + rewrite Forall_forall in Hw. apply Hw. exact Hu.
  - apply place_wft; assumption.
Qed.

Theorem forest_step : forall l F x, forest l F -> NoDup (ids l) ->
  (forall o, oorigin x = Some o -> In o (ids l)) -> condr x l ->
  forest (integ l x) (fins x F).
Proof.
  intros l F x [Hw El] Hnd Hdep Hcr. subst l. split.
  - apply fins_wft. exact Hw.
  - symmetry. apply sim; assumption.
Qed.

(* ---------- commuting insertions ---------- *)
Lemma ins_ins : forall (A : Type) (a b : A) i j l, (i <= j)%nat -> (j <= length l)%nat ->
  ins i a (ins j b l) = ins (S j) b (ins i a l).
Proof.
  intros A a b. induction i as [|i IH]; intros j l Hij Hj.
  - reflexivity.
  - destruct j as [|j]; [lia|]. destruct l as [|h l]; [cbn in Hj; lia|].
    cbn in Hj. unfold ins in *. cbn [firstn skipn app].
    f_equal. apply IH; lia.
Qed.

Lemma map_ins : forall (A B : Type) (f : A -> B) i e l, map f (ins i e l) = ins i (f e) (map f l).
Proof.
  intros. unfold ins. rewrite map_app. cbn [map]. rewrite firstn_map, skipn_map. reflexivity.
Qed.

Lemma idx_le : forall x cs, (idx x cs <= length cs)%nat.
Proof.
  intros x cs. induction cs as [|c cs IH]; cbn [idx length]; [lia|].
  destruct (stopb x c); [lia|]. destruct (smb x c); [lia|].
  destruct (idx x cs); cbn [bump]; lia.
Qed.

Lemma roots_place : forall x F, map root (place x F) = ins (idx x (map root F)) (it x) (map root F).
Proof. intros. unfold place. rewrite map_ins. reflexivity. Qed.

Lemma place_comm : forall x y c,
  oid_eqb (Some (oid x)) (ororigin y) = false ->
  oid_eqb (Some (oid y)) (ororigin x) = false ->
  (cl (oid x) <> cl (oid y)
   \/ (exists ci, In ci (firstn (idx y (map root c)) (map root c)) /\ ororigin x = Some (did ci))
   \/ (exists ci, In ci (firstn (idx x (map root c)) (map root c)) /\ ororigin y = Some (did ci))) ->
  place y (place x c) = place x (place y c).
Proof.
  intros x y c Hxy Hyx Hs.
  pose proof (Sib.sib_diamond (it x) (it y) (map root c) Hxy Hyx Hs) as H.
  cbv zeta in H. change (d_op (it x)) with x in H. change (d_op (it y)) with y in H.
  unfold place at 1 3. rewrite !roots_place.
  unfold place.
  pose proof (idx_le x (map root c)) as Lx. pose proof (idx_le y (map root c)) as Ly.
  rewrite map_length in Lx, Ly.
  destruct H as [(H1 & H2 & H3)|[(H1 & H2 & H3)|(H1 & [(H2 & H3)|(H2 & H3)])]].
  - rewrite H2, H3. symmetry. apply ins_ins; lia.
  - rewrite H2, H3. apply ins_ins; lia.
  - rewrite H2, H3. symmetry. apply ins_ins; lia.
  - rewrite H2, H3. apply ins_ins; lia.
Qed.

Lemma repl_repl_same : forall o f g t, repl o g (repl o f t) = repl o (fun c => g (f c)) t.
Proof.
  intros o f g t. induction t as [i c IH] using tree_ind2. cbn [repl].
  destruct (id_eqb (did i) o) eqn:E.
  - cbn [repl]. rewrite E. reflexivity.
  - cbn [repl]. rewrite E. f_equal. rewrite map_map. apply map_ext_in. intros t Ht.
    rewrite Forall_forall in IH. apply IH. exact Ht.
Qed.

(* [place x] commutes with any root preserving map that fixes the new leaf *)
Lemma map_place : forall x (h : tree -> tree) c,
  (forall t, root (h t) = root t) -> h (Node (it x) []) = Node (it x) [] ->
  map h (place x c) = place x (map h c).
Proof.
  intros x h c Hr Hl. unfold place. rewrite map_ins, Hl. rewrite map_map.
  rewrite (map_ext (fun t => root (h t)) root Hr). reflexivity.
Qed.

Lemma repl_leaf : forall o f x, oid x <> o -> repl o f (Node (it x) []) = Node (it x) [].
Proof.
  intros o f x Hn. cbn [repl]. rewrite did_it. apply id_eqb_neq in Hn. rewrite Hn. reflexivity.
Qed.

Lemma repl_repl_diff : forall o o' x y t, o <> o' -> oid x <> o' -> oid y <> o ->
  repl o' (place y) (repl o (place x) t) = repl o (place x) (repl o' (place y) t).
Proof.
  intros o o' x y t Hoo Hx Hy. induction t as [i c IH] using tree_ind2. cbn [repl].
  destruct (id_eqb (did i) o) eqn:E; destruct (id_eqb (did i) o') eqn:E'.
  - apply id_eqb_eq in E. apply id_eqb_eq in E'. congruence.
  - cbn [repl]. rewrite E, E'. f_equal. apply map_place.
    + intros t. apply repl_root.
    + apply repl_leaf. exact Hx.
  - cbn [repl]. rewrite E, E'. f_equal. symmetry. apply map_place.
    + intros t. apply repl_root.
    + apply repl_leaf. exact Hy.
  - cbn [repl]. rewrite E, E'. f_equal. rewrite !map_map. apply map_ext_in. intros t Ht.
    rewrite Forall_forall in IH. apply IH. exact Ht.
Qed.


(* ====================================================================== *)
(* PART 5: the diamond lemma                                               *)
(* ====================================================================== *)
(* Y4: the diamond lemma on item lists that are flattened origin forests *)

Lemma nodup_split_unique : forall (i : id) (a b c d : list id),
  a ++ i :: b = c ++ i :: d -> NoDup (a ++ i :: b) -> a = c.
Proof.
  intros i. induction a as [|x a IH]; intros b c d E Hnd.
  - destruct c as [|y c]; [reflexivity|]. cbn [app] in E. injection E as E1 E2.
    exfalso. cbn [app] in Hnd. apply NoDup_cons_iff in Hnd. destruct Hnd as [Hn _]. apply Hn.
    rewrite E2. apply in_or_app. right. left. reflexivity.
  - destruct c as [|y c].
    + cbn [app] in E. injection E as E1 E2. exfalso. cbn [app] in Hnd.
      apply NoDup_cons_iff in Hnd. destruct Hnd as [Hn _]. apply Hn. subst x.
      apply in_or_app. right. left. reflexivity.
    + cbn [app] in E. injection E as E1 E2. f_equal; [exact E1|]. eapply IH; [exact E2|].
      cbn [app] in Hnd. apply NoDup_cons_iff in Hnd. apply Hnd.
Qed.

Lemma integ_nodup : forall l x, NoDup (ids l) -> ~ In (oid x) (ids l) -> NoDup (ids (integ l x)).
Proof.
  intros l x Hnd Hn. eapply Permutation_NoDup; [apply integ_ids_perm|]. constructor; assumption.
Qed.

Lemma integ_ids_in : forall l x i, In i (ids (integ l x)) <-> i = oid x \/ In i (ids l).
Proof.
  intros l x i. split.
  - intros H. apply (Permutation_in _ (Permutation_sym (integ_ids_perm l x))) in H.
    destruct H as [H|H]; [left; symmetry; exact H|right; exact H].
  - intros H. apply (Permutation_in _ (integ_ids_perm l x)). destruct H as [H|H]; [left; symmetry; exact H|right; exact H].
Qed.

Lemma condr_mono : forall y l x, condr y l -> ororigin y <> Some (oid x) -> condr y (integ l x).
Proof.
  intros y l x Hc Hn r zr Hr Hz Ed. apply integ_mem in Hz. destruct Hz as [Hz|Hz].
  - subst zr. rewrite did_it in Ed. subst r. contradiction.
  - destruct (Hc r zr Hr Hz Ed) as [H|[H|(w & o & H1 & H2 & H3)]].
    + left. exact H.
    + right. left. exact H.
    + right. right. exists w, o. split; [exact H1|]. split; [exact H2|]. apply lt_in_integ. exact H3.
Qed.

Definition sibhyp (x y : op) (l : list ditem) : Prop :=
  cl (oid x) <> cl (oid y)
  \/ (exists r, ororigin x = Some r /\ lt_in r (oid y) (integ l y))
  \/ (exists r, ororigin y = Some r /\ lt_in r (oid x) (integ l x)).

Lemma sib_witness : forall x y c P C r,
  NoDup (ids (P ++ flatF (place y c) ++ C)) -> ororigin x = Some r -> ~ In r (ids P) ->
  lt_in r (oid y) (P ++ flatF (place y c) ++ C) ->
  (forall t, In t c -> Forall (dok x) (flatF (kids t))) ->
  exists ci, In ci (firstn (idx y (map root c)) (map root c)) /\ ororigin x = Some (did ci).
Proof.
  intros x y c P C r Hnd Hr HnP Hlt Hd.
  set (j := idx y (map root c)) in *.
  assert (E : ids (P ++ flatF (place y c) ++ C)
              = (ids P ++ ids (flatF (firstn j c))) ++ oid y :: ids (flatF (skipn j c)) ++ ids C).
  { rewrite flatF_place. fold j. rewrite !ids_app, ids_cons, did_it.
    rewrite <- !app_assoc. reflexivity. }
  destruct Hlt as (p & q & s & E2). unfold lt_in in *.
  rewrite E in E2, Hnd.
  assert (E3 : ids P ++ ids (flatF (firstn j c)) = p ++ r :: q).
  { eapply nodup_split_unique; [|exact Hnd]. rewrite E2. rewrite <- app_assoc. reflexivity. }
  assert (Hin : In r (ids P ++ ids (flatF (firstn j c)))).
  { rewrite E3. apply in_or_app. right. left. reflexivity. }
  apply in_app_or in Hin. destruct Hin as [Hin|Hin]; [contradiction|].
  unfold ids in Hin. apply in_map_iff in Hin. destruct Hin as (z & Ez & Hz).
  apply in_flatF in Hz. destruct Hz as (t & Ht & Hz).
  assert (Htc : In t c).
  { rewrite <- (firstn_skipn j c). apply in_or_app. left. exact Ht. }
  rewrite flat_root_kids in Hz. destruct Hz as [Hz|Hz].
  - exists (root t). split.
    + rewrite firstn_map. apply in_map. exact Ht.
    + rewrite Hz, Ez. exact Hr.
  - exfalso. specialize (Hd t Htc). rewrite Forall_forall in Hd. destruct (Hd z Hz) as [H1 _].
    rewrite Ez, Hr in H1. rewrite oid_eqb_refl in H1. discriminate.
Qed.

Lemma not_in_prefix : forall o r A i R, did i = o -> NoDup (ids (A ++ i :: R)) ->
  ltl o r (ids (A ++ i :: R)) -> ~ In r (ids (A ++ [i])).
Proof.
  intros o r A i R Hi Hnd Hlt Hin. rewrite ids_app in Hin. apply in_app_or in Hin.
  destruct Hin as [Hin|[Hin|[]]].
  - apply in_split in Hin. destruct Hin as (a1 & a2 & Ea).
    apply (ltl_asym o r _ Hnd Hlt). rewrite ids_app, ids_cons, Ea, Hi.
    exists a1, a2, (ids R). rewrite <- app_assoc. reflexivity.
  - cbn in Hin. rewrite Hi in Hin. subst r. eapply ltl_neq; [exact Hnd|exact Hlt|reflexivity].
Qed.

Theorem diamond : forall l F x y,
  forest l F -> NoDup (ids l) ->
  ~ In (oid x) (ids l) -> ~ In (oid y) (ids l) -> oid x <> oid y ->
  dep_ok (ids l) x = true -> dep_ok (ids l) y = true ->
  condr x l -> condr y l -> olr x l -> olr y l ->
  (oorigin x = oorigin y -> sibhyp x y l) ->
  integ (integ l x) y = integ (integ l y) x.
Proof.
  intros l F x y [Hw El] Hnd Hx Hy Hxy Dx Dy Cx Cy Ox Oy Hs. subst l.
  apply dep_ok_iff in Dx. destruct Dx as [Dxo Dxr].
  apply dep_ok_iff in Dy. destruct Dy as [Dyo Dyr].
  assert (Rx : ororigin x <> Some (oid y)).
  { intros E. apply Hy. apply Dxr. exact E. }
  assert (Ry : ororigin y <> Some (oid x)).
  { intros E. apply Hx. apply Dyr. exact E. }
  assert (Sx : integ (flatF F) x = flatF (fins x F)) by (apply sim; assumption).
  assert (Sy : integ (flatF F) y = flatF (fins y F)) by (apply sim; assumption).
  assert (Sxy : integ (integ (flatF F) x) y = flatF (fins y (fins x F))).
  { rewrite Sx. apply sim.
    - apply fins_wft. exact Hw.
    - rewrite <- Sx. apply integ_nodup; assumption.
    - intros o Ho. rewrite <- Sx. apply integ_ids_in. right. apply Dyo. exact Ho.
    - rewrite <- Sx. apply condr_mono; assumption. }
  assert (Syx : integ (integ (flatF F) y) x = flatF (fins x (fins y F))).
  { rewrite Sy. apply sim.
    - apply fins_wft. exact Hw.
    - rewrite <- Sy. apply integ_nodup; assumption.
    - intros o Ho. rewrite <- Sy. apply integ_ids_in. right. apply Dxo. exact Ho.
    - rewrite <- Sy. apply condr_mono; assumption. }
  rewrite Sxy, Syx. clear Sxy Syx.
  assert (Exy : oid_eqb (Some (oid x)) (ororigin y) = false).
  { apply oid_eqb_neq. intros E. apply Ry. symmetry. exact E. }
  assert (Eyx : oid_eqb (Some (oid y)) (ororigin x) = false).
  { apply oid_eqb_neq. intros E. apply Rx. symmetry. exact E. }
  unfold fins at 1 3.
  destruct (oorigin x) as [o|] eqn:Ho; destruct (oorigin y) as [o'|] eqn:Ho'.
  - (* both have an origin *)
    assert (Hxo' : oid x <> o') by (intros E; apply Hx; rewrite E; apply Dyo; reflexivity).
    assert (Hyo : oid y <> o) by (intros E; apply Hy; rewrite E; apply Dxo; reflexivity).
    unfold fins. rewrite Ho, Ho'. rewrite !map_map.
    destruct (id_eqb o o') eqn:Eoo.
    + apply id_eqb_eq in Eoo. subst o'.
      rewrite (map_ext _ _ (repl_repl_same o (place x) (place y))).
      rewrite (map_ext _ _ (repl_repl_same o (place y) (place x))).
      destruct (locate o F Hw Hnd (Dxo o eq_refl)) as (A & i & c & C & H1 & H2 & H3 & H4 & H5 & H6 & H7).
      rewrite !H5. cut (place y (place x c) = place x (place y c)); [intros EE; rewrite EE; reflexivity|].
      assert (Hdx : forall t, In t c -> Forall (dok x) (flatF (kids t))).
      { apply (dok_some x o (flatF F) A i c C Ho H1 H4 Hnd H3 Cx). }
      assert (Hdy : forall t, In t c -> Forall (dok y) (flatF (kids t))).
      { apply (dok_some y o (flatF F) A i c C Ho' H1 H4 Hnd H3 Cy). }
      apply place_comm; [exact Exy|exact Eyx|].
      destruct (Hs eq_refl) as [Hc|[(r & Hr & Hlt)|(r & Hr & Hlt)]].
      * left. exact Hc.
      * right. left.
        assert (Ey : integ (flatF F) y = (A ++ [i]) ++ flatF (place y c) ++ C).
        { rewrite Sy. unfold fins. rewrite Ho', H5, <- app_assoc. reflexivity. }
        apply (sib_witness x y c (A ++ [i]) C r).
        -- rewrite <- Ey. apply integ_nodup; assumption.
        -- exact Hr.
        -- apply (not_in_prefix o r A i (flatF c ++ C) H1); rewrite <- H4; [exact Hnd|].
           apply Ox; [exact Ho|exact Hr].
        -- rewrite <- Ey. exact Hlt.
        -- exact Hdx.
      * right. right.
        assert (Ex : integ (flatF F) x = (A ++ [i]) ++ flatF (place x c) ++ C).
        { rewrite Sx. unfold fins. rewrite Ho, H5, <- app_assoc. reflexivity. }
        apply (sib_witness y x c (A ++ [i]) C r).
        -- rewrite <- Ex. apply integ_nodup; assumption.
        -- exact Hr.
        -- apply (not_in_prefix o r A i (flatF c ++ C) H1); rewrite <- H4; [exact Hnd|].
           apply Oy; [exact Ho'|exact Hr].
        -- rewrite <- Ex. exact Hlt.
        -- exact Hdy.
    + apply id_eqb_neq in Eoo. f_equal. apply map_ext. intros t.
      apply repl_repl_diff; assumption.
  - (* x has an origin, y has none *)
    assert (Hyo : oid y <> o) by (intros E; apply Hy; rewrite E; apply Dxo; reflexivity).
    unfold fins. rewrite Ho, Ho'. f_equal. symmetry. apply map_place.
    + intros t. apply repl_root.
    + apply repl_leaf. exact Hyo.
  - (* y has an origin, x has none *)
    assert (Hxo' : oid x <> o') by (intros E; apply Hx; rewrite E; apply Dyo; reflexivity).
    unfold fins. rewrite Ho, Ho'. f_equal. apply map_place.
    + intros t. apply repl_root.
    + apply repl_leaf. exact Hxo'.
  - (* neither has an origin *)
    unfold fins. rewrite Ho, Ho'. f_equal.
    assert (Hdx : forall t, In t F -> Forall (dok x) (flatF (kids t))).
    { apply dok_none; assumption. }
    assert (Hdy : forall t, In t F -> Forall (dok y) (flatF (kids t))).
    { apply dok_none; assumption. }
    apply place_comm; [exact Exy|exact Eyx|].
    destruct (Hs eq_refl) as [Hc|[(r & Hr & Hlt)|(r & Hr & Hlt)]].
    * left. exact Hc.
    * right. left.
      assert (Ey : integ (flatF F) y = [] ++ flatF (place y F) ++ []).
      { rewrite Sy. unfold fins. rewrite Ho', app_nil_r. reflexivity. }
      apply (sib_witness x y F [] [] r).
      -- rewrite <- Ey. apply integ_nodup; assumption.
      -- exact Hr.
      -- intros [].
      -- rewrite <- Ey. exact Hlt.
      -- exact Hdx.
    * right. right.
      assert (Ex : integ (flatF F) x = [] ++ flatF (place x F) ++ []).
      { rewrite Sx. unfold fins. rewrite Ho, app_nil_r. reflexivity. }
      apply (sib_witness y x F [] [] r).
      -- rewrite <- Ex. apply integ_nodup; assumption.
      -- exact Hr.
      -- intros [].
      -- rewrite <- Ex. exact Hlt.
      -- exact Hdy.
Qed.
Print Assumptions diamond.


(* ====================================================================== *)
(* PART 6: well-formed histories converge                                  *)
(* ====================================================================== *)
(* Y5: well-formed histories converge *)

(* ---------- lastid / headid ---------- *)
Lemma lastid_some : forall a o, lastid a = Some o -> exists a' z, a = a' ++ [z] /\ did z = o.
Proof.
  intros a o H. unfold lastid in H. destruct (rev a) as [|z r] eqn:E; [discriminate|].
  inversion H. exists (rev r), z. split; [|reflexivity].
  rewrite <- (rev_involutive a), E. reflexivity.
Qed.
Lemma lastid_none : forall a, lastid a = None -> a = [].
Proof.
  intros a H. unfold lastid in H. destruct (rev a) as [|z r] eqn:E; [|discriminate].
  rewrite <- (rev_involutive a), E. reflexivity.
Qed.
Lemma headid_some : forall b r, headid b = Some r -> exists z b', b = z :: b' /\ did z = r.
Proof.
  intros [|z b'] r H; [discriminate|]. inversion H. exists z, b'. split; reflexivity.
Qed.

(* ---------- what a well-formed history says about each of its ops ---------- *)
Definition fresh_in (p : list op) (z : op) : Prop :=
  forall y, In y p -> cl (oid y) = cl (oid z) -> (ck (oid y) < ck (oid z))%N.

Definition viewof (p : list op) (z : op) : Prop :=
  exists s a b, (forall y, In y s -> In y p) /\ NoDup s /\
    (forall y, In y p -> cl (oid y) = cl (oid z) -> In y s) /\
    adm [] s /\ exec s = a ++ b /\ oorigin z = lastid a /\ ororigin z = headid b.

Lemma snoc_split : forall (A : Type) (h : list A) x p z s,
  h ++ [x] = p ++ z :: s -> (s = [] /\ p = h /\ z = x) \/ (exists s', s = s' ++ [x] /\ h = p ++ z :: s').
Proof.
  intros A h x p z s. induction s as [|a s _] using rev_ind; intros E.
  - left. change (p ++ [z]) with (p ++ [z]) in E. apply app_inj_tail in E. destruct E as [E1 E2].
    subst. auto.
  - right. change (p ++ z :: s ++ [a]) with (p ++ (z :: s) ++ [a]) in E. rewrite app_assoc in E.
    apply app_inj_tail in E. destruct E as [E1 E2]. subst. exists s. split; reflexivity.
Qed.

Lemma wf_split : forall h, wf_history h -> forall p z s, h = p ++ z :: s ->
  wf_history p /\ fresh_in p z /\ viewof p z.
Proof.
  induction 1 as [|h x s0 a b Hwf IH Hfr Hin Hnd Hown Hadm Hex Ho Hr]; intros p z s E.
  - destruct p; discriminate.
  - apply snoc_split in E. destruct E as [(E1 & E2 & E3)|(s' & E1 & E2)].
    + subst. split; [exact Hwf|]. split; [exact Hfr|]. exists s0, a, b. repeat split; assumption.
    + eapply IH. exact E2.
Qed.

Lemma fresh_neq : forall p z y, fresh_in p z -> In y p -> oid y <> oid z.
Proof.
  intros p z y Hf Hy E. specialize (Hf y Hy). rewrite E in Hf. specialize (Hf eq_refl).
  apply N.lt_irrefl in Hf. exact Hf.
Qed.

Lemma wf_nodup_ids : forall h, wf_history h -> NoDup (map oid h).
Proof.
  induction 1 as [|h x s0 a b Hwf IH Hfr Hin Hnd Hown Hadm Hex Ho Hr].
  - constructor.
  - rewrite map_app. cbn [map].
    apply (Permutation_NoDup (l := oid x :: map oid h)).
    + apply Permutation_cons_append.
    + constructor; [|exact IH]. intros Hi. apply in_map_iff in Hi. destruct Hi as (y & E & Hy).
      eapply fresh_neq; [exact Hfr|exact Hy|exact E].
Qed.

Lemma nodup_map_inj : forall (A B : Type) (f : A -> B) l a b,
  NoDup (map f l) -> In a l -> In b l -> f a = f b -> a = b.
Proof.
  intros A B f l. induction l as [|x l IH]; intros a b Hnd Ha Hb E; [destruct Ha|].
  cbn [map] in Hnd. apply NoDup_cons_iff in Hnd. destruct Hnd as [Hn Hnd].
  destruct Ha as [Ha|Ha]; destruct Hb as [Hb|Hb].
  - congruence.
  - subst x. exfalso. apply Hn. rewrite E. apply in_map. exact Hb.
  - subst x. exfalso. apply Hn. rewrite <- E. apply in_map. exact Ha.
  - apply IH; assumption.
Qed.

Lemma nodup_of_map : forall (A B : Type) (f : A -> B) l, NoDup (map f l) -> NoDup l.
Proof.
  intros A B f l. induction l as [|x l IH]; intros H; [constructor|].
  cbn [map] in H. apply NoDup_cons_iff in H. destruct H as [H1 H2]. constructor.
  - intros Hin. apply H1. apply in_map. exact Hin.
  - apply IH. exact H2.
Qed.

Lemma lastid_in : forall a o, lastid a = Some o -> In o (ids a).
Proof.
  intros a o H. apply lastid_some in H. destruct H as (a' & z & E1 & E2). subst.
  rewrite ids_app. apply in_or_app. right. left. reflexivity.
Qed.
Lemma headid_in : forall b r, headid b = Some r -> In r (ids b).
Proof.
  intros b r H. apply headid_some in H. destruct H as (z & b' & E1 & E2). subst. left. reflexivity.
Qed.

(* the explicit dependencies of an op are ids of earlier ops *)
Lemma view_deps : forall p z, viewof p z -> dep_ok (map oid p) z = true.
Proof.
  intros p z (s & a & b & Hin & Hnd & Hown & Hadm & Hex & Ho & Hr).
  assert (Hs : forall i, In i (ids (a ++ b)) -> In i (map oid p)).
  { intros i Hi. rewrite <- Hex in Hi. apply exec_ids_in in Hi. apply in_map_iff in Hi.
    destruct Hi as (y & E & Hy). subst i. apply in_map. apply Hin. exact Hy. }
  apply dep_ok_iff. split.
  - intros o E. apply Hs. rewrite ids_app. apply in_or_app. left. apply lastid_in. congruence.
  - intros r E. apply Hs. rewrite ids_app. apply in_or_app. right. apply headid_in. congruence.
Qed.

(* ---------- states of a history ---------- *)
Definition state_of (h s : list op) : Prop := (forall y, In y s -> In y h) /\ NoDup s /\ adm [] s.

Lemma state_ids_nodup : forall h s, wf_history h -> state_of h s -> NoDup (map oid s).
Proof.
  intros h s Hwf (Hin & Hnd & _). pose proof (wf_nodup_ids h Hwf) as Hh.
  clear -Hin Hnd Hh. induction s as [|x s IH]; [constructor|].
  cbn [map]. apply NoDup_cons_iff in Hnd. destruct Hnd as [Hn Hnd]. constructor.
  - intros Hi. apply in_map_iff in Hi. destruct Hi as (y & E & Hy). apply Hn.
    assert (y = x).
    { eapply (nodup_map_inj _ _ oid h); [exact Hh| | |exact E].
      - apply Hin. right. exact Hy.
      - apply Hin. left. reflexivity. }
    subst y. exact Hy.
  - apply IH; [|exact Hnd]. intros y Hy. apply Hin. right. exact Hy.
Qed.

Lemma state_snoc : forall h s y, wf_history h -> state_of h s -> In y h -> ~ In y s ->
  dep_ok (ids (exec s)) y = true -> state_of h (s ++ [y]).
Proof.
  intros h s y Hwf (Hin & Hnd & Ha) Hy Hn Hd. split; [|split].
  - intros z Hz. apply in_app_or in Hz. destruct Hz as [Hz|[Hz|[]]]; [apply Hin; exact Hz|subst; exact Hy].
  - apply (Permutation_NoDup (l := y :: s)); [apply Permutation_cons_append|]. constructor; assumption.
  - apply adm_snoc. split; assumption.
Qed.

Lemma nodup_app_intro : forall (A : Type) (a b : list A), NoDup a -> NoDup b ->
  (forall z, In z a -> In z b -> False) -> NoDup (a ++ b).
Proof.
  intros A a b Ha Hb Hd. induction a as [|x a IH]; [exact Hb|].
  cbn [app]. apply NoDup_cons_iff in Ha. destruct Ha as [Hn Ha]. constructor.
  - intros Hi. apply in_app_or in Hi. destruct Hi as [Hi|Hi]; [contradiction|].
    apply (Hd x); [left; reflexivity|exact Hi].
  - apply IH; [exact Ha|]. intros z Hz. apply Hd. right. exact Hz.
Qed.

(* every state can be completed to an execution of the whole history *)
Lemma fill_adm : forall h sigma, wf_history h ->
  forall s p acc, h = p ++ s -> (forall z, In z p -> In (oid z) acc) ->
  (forall i, In i (map oid sigma) -> In i acc) ->
  adm acc (filter (fun z => negb (mem_id (oid z) (map oid sigma))) s).
Proof.
  intros h sigma Hwf s. induction s as [|z s IH]; intros p acc E Hp Hsig; [exact I|].
  cbn [filter]. destruct (mem_id (oid z) (map oid sigma)) eqn:Em; cbn [negb].
  - apply (IH (p ++ [z])).
    + rewrite <- app_assoc. exact E.
    + intros y Hy. apply in_app_or in Hy. destruct Hy as [Hy|[Hy|[]]]; [apply Hp; exact Hy|].
      subst y. apply Hsig. apply mem_id_In. exact Em.
    + exact Hsig.
  - cbn [adm]. split.
    + destruct (wf_split h Hwf p z s E) as (_ & _ & Hv). apply view_deps in Hv.
      eapply dep_ok_mono; [|exact Hv]. intros i Hi. apply in_map_iff in Hi.
      destruct Hi as (y & Ey & Hy). subst i. apply Hp. exact Hy.
    + apply (IH (p ++ [z])).
      * rewrite <- app_assoc. exact E.
      * intros y Hy. apply in_app_or in Hy. destruct Hy as [Hy|[Hy|[]]].
        -- right. apply Hp. exact Hy.
        -- subst y. left. reflexivity.
      * intros i Hi. right. apply Hsig. exact Hi.
Qed.

Lemma complete : forall h s, wf_history h -> state_of h s ->
  exists t, Permutation (s ++ t) h /\ adm [] (s ++ t).
Proof.
  intros h s Hwf Hst. pose proof Hst as (Hin & Hnd & Ha).
  set (t := filter (fun z => negb (mem_id (oid z) (map oid s))) h).
  pose proof (wf_nodup_ids h Hwf) as Hh.
  exists t. split.
  - apply NoDup_Permutation.
    + (* NoDup (s ++ t) *)
      assert (Hdisj : forall z, In z s -> In z t -> False).
      { intros z Hz Ht. unfold t in Ht. apply filter_In in Ht. destruct Ht as [_ Ht].
        apply negb_true_iff in Ht. apply mem_id_false in Ht. apply Ht. apply in_map. exact Hz. }
      assert (Hndt : NoDup t).
      { unfold t. apply NoDup_filter. eapply nodup_of_map. exact Hh. }
      apply nodup_app_intro; assumption.
    + eapply nodup_of_map. exact Hh.
    + intros z. split.
      * intros Hz. apply in_app_or in Hz. destruct Hz as [Hz|Hz]; [apply Hin; exact Hz|].
        unfold t in Hz. apply filter_In in Hz. apply Hz.
      * intros Hz. apply in_or_app. destruct (mem_id (oid z) (map oid s)) eqn:Em.
        -- left. apply mem_id_In in Em. apply in_map_iff in Em. destruct Em as (y & Ey & Hy).
           assert (y = z).
           { eapply (nodup_map_inj _ _ oid h); [exact Hh|apply Hin; exact Hy|exact Hz|exact Ey]. }
           subst y. exact Hy.
        -- right. unfold t. apply filter_In. split; [exact Hz|]. rewrite Em. reflexivity.
  - apply adm_app_exec. split; [exact Ha|].
    apply (fill_adm h s Hwf h [] (ids (exec s))).
    + reflexivity.
    + intros z [].
    + intros i Hi. apply exec_ids_in. exact Hi.
Qed.

(* ---------- convergence and its consequences ---------- *)
Definition conv (h : list op) : Prop :=
  forall s1 s2, Permutation s1 h -> Permutation s2 h -> adm [] s1 -> adm [] s2 -> exec s1 = exec s2.

Lemma transfer : forall h s1 s2 i j, wf_history h -> conv h -> state_of h s1 -> state_of h s2 ->
  lt_in i j (exec s1) -> In i (ids (exec s2)) -> In j (ids (exec s2)) -> lt_in i j (exec s2).
Proof.
  intros h s1 s2 i j Hwf Hc H1 H2 Hlt Hi Hj.
  destruct (complete h s1 Hwf H1) as (t1 & P1 & A1).
  destruct (complete h s2 Hwf H2) as (t2 & P2 & A2).
  pose proof (Hc _ _ P1 P2 A1 A2) as E.
  assert (HndL : NoDup (ids (exec (s2 ++ t2)))).
  { apply exec_ids_nodup. eapply Permutation_NoDup; [|apply (wf_nodup_ids h Hwf)].
    apply Permutation_map. apply Permutation_sym. exact P2. }
  assert (L1 : lt_in i j (exec (s2 ++ t2))).
  { rewrite <- E, exec_app. apply lt_in_exec_from. exact Hlt. }
  assert (Hne : i <> j) by (eapply ltl_neq; [exact HndL|exact L1]).
  destruct (ltl_total i j (ids (exec s2)) Hi Hj Hne) as [H|H]; [exact H|].
  exfalso. eapply ltl_asym; [exact HndL|exact L1|].
  rewrite exec_app. apply lt_in_exec_from. exact H.
Qed.

Lemma exec_item_unique : forall h s1 s2 z1 z2, wf_history h ->
  (forall y, In y s1 -> In y h) -> (forall y, In y s2 -> In y h) ->
  In z1 (exec s1) -> In z2 (exec s2) -> did z1 = did z2 -> z1 = z2.
Proof.
  intros h s1 s2 z1 z2 Hwf H1 H2 Hz1 Hz2 E.
  apply exec_mem in Hz1. destruct Hz1 as (o1 & Ho1 & E1).
  apply exec_mem in Hz2. destruct Hz2 as (o2 & Ho2 & E2). subst z1 z2.
  rewrite !did_it in E. f_equal.
  eapply (nodup_map_inj _ _ oid h); [apply wf_nodup_ids; exact Hwf|apply H1; exact Ho1|apply H2; exact Ho2|exact E].
Qed.

(* conditions on a pending op, from the state of its creator *)
Lemma pending_cond : forall h s p z, wf_history h -> conv h -> state_of h s ->
  (forall y, In y p -> In y h) -> viewof p z -> dep_ok (ids (exec s)) z = true ->
  condr z (exec s) /\ olr z (exec s).
Proof.
  intros h s p z Hwf Hc Hst Hp (sz & a & b & Hin & Hnd & Hown & Hadm & Hex & Ho & Hr) Hd.
  assert (Hstz : state_of h sz).
  { split; [|split; assumption]. intros y Hy. apply Hp. apply Hin. exact Hy. }
  pose proof (state_ids_nodup h sz Hwf Hstz) as Hndz.
  pose proof (exec_ids_nodup sz Hndz) as HndE.
  pose proof (exec_origin_left sz Hndz Hadm) as Holz.
  pose proof (state_ids_nodup h s Hwf Hst) as Hnds.
  pose proof (exec_origin_left s Hnds (proj2 (proj2 Hst))) as Hols.
  apply dep_ok_iff in Hd. destruct Hd as [Hdo Hdr].
  split.
  - (* condr *)
    intros r zr Er Hzr Edr.
    rewrite Hr in Er. apply headid_some in Er. destruct Er as (ir & b' & Eb & Eir). subst b.
    assert (Hir : In ir (exec sz)).
    { rewrite Hex. apply in_or_app. right. left. reflexivity. }
    assert (zr = ir).
    { eapply (exec_item_unique h s sz); try eassumption.
      - apply Hst.
      - apply Hstz.
      - congruence. }
    subst zr.
    destruct (oorigin (d_op ir)) as [w|] eqn:Ew; [|right; left; reflexivity].
    pose proof (Holz ir w Hir Ew) as Hlt. unfold lt_in in Hlt. rewrite Hex in Hlt.
    rewrite ids_app, ids_cons in Hlt. destruct Hlt as (p1 & q1 & r1 & E1).
    assert (Ea : ids a = p1 ++ w :: q1).
    { eapply nodup_split_unique; [|rewrite <- ids_cons, <- ids_app, <- Hex; exact HndE].
      rewrite E1. rewrite <- app_assoc. reflexivity. }
    destruct (oorigin z) as [o|] eqn:Eo.
    + symmetry in Ho. apply lastid_some in Ho. destruct Ho as (a' & io & Ea' & Eio). subst a.
      rewrite ids_app in Ea. cbn [ids map] in Ea.
      destruct (rev q1) as [|lastq q1r] eqn:Eq.
      * assert (q1 = []) by (rewrite <- (rev_involutive q1), Eq; reflexivity). subst q1.
        apply app_inj_tail in Ea. destruct Ea as [_ Ea]. left. congruence.
      * assert (Eq1 : q1 = rev q1r ++ [lastq]) by (rewrite <- (rev_involutive q1), Eq; reflexivity).
        rewrite Eq1 in Ea.
        change (p1 ++ w :: rev q1r ++ [lastq]) with (p1 ++ (w :: rev q1r) ++ [lastq]) in Ea.
        rewrite app_assoc in Ea. apply app_inj_tail in Ea. destruct Ea as [Ea _].
        right. right. exists w, o. split; [reflexivity|]. split; [reflexivity|].
        apply (transfer h sz s w o Hwf Hc Hstz Hst).
        -- unfold lt_in. rewrite Hex. rewrite !ids_app. cbn [ids map]. rewrite Ea, Eio.
           exists p1, (rev q1r), (ids (ir :: b')). rewrite <- !app_assoc. reflexivity.
        -- eapply ltl_in_l. apply (Hols ir w Hzr Ew).
        -- apply Hdo. reflexivity.
    + symmetry in Ho. apply lastid_none in Ho. subst a. exfalso. destruct p1; discriminate.
  - (* olr *)
    intros o r Eo Er.
    rewrite Ho in Eo. apply lastid_some in Eo. destruct Eo as (a' & io & Ea & Eio).
    rewrite Hr in Er. apply headid_some in Er. destruct Er as (ir & b' & Eb & Eir). subst a b.
    apply (transfer h sz s o r Hwf Hc Hstz Hst).
    + unfold lt_in. rewrite Hex. rewrite !ids_app. cbn [ids map]. rewrite Eio, Eir.
      exists (map did a'), [], (map did b'). rewrite <- app_assoc. reflexivity.
    + apply Hdo. rewrite Ho. unfold lastid. rewrite rev_unit. rewrite Eio. reflexivity.
    + apply Hdr. rewrite Hr. cbn. rewrite Eir. reflexivity.
Qed.

(* every state is a flattened origin forest *)
Lemma state_forest : forall h, wf_history h -> conv h -> forall s, state_of h s -> exists F, forest (exec s) F.
Proof.
  intros h Hwf Hc s. induction s as [|y s IH] using rev_ind; intros Hst.
  - exists []. split; [constructor|reflexivity].
  - destruct Hst as (Hin & Hnd & Ha). apply adm_snoc in Ha. destruct Ha as [Ha Hd].
    assert (Hnd' : NoDup s /\ ~ In y s).
    { apply (Permutation_NoDup (Permutation_sym (Permutation_cons_append s y))) in Hnd.
      apply NoDup_cons_iff in Hnd. tauto. }
    assert (Hst' : state_of h s).
    { split; [|split; [apply Hnd'|exact Ha]]. intros z Hz. apply Hin. apply in_or_app. left. exact Hz. }
    destruct (IH Hst') as (F & HF).
    assert (Hy : In y h) by (apply Hin; apply in_or_app; right; left; reflexivity).
    destruct (in_split y h Hy) as (p & q & Eh).
    destruct (wf_split h Hwf p y q Eh) as (_ & _ & Hv).
    destruct (pending_cond h s p y Hwf Hc Hst') as [Hcr _]; [|exact Hv|exact Hd|].
    { intros z Hz. rewrite Eh. apply in_or_app. left. exact Hz. }
    exists (fins y F). rewrite exec_snoc. apply forest_step.
    + exact HF.
    + apply exec_ids_nodup. eapply state_ids_nodup; eassumption.
    + apply dep_ok_iff in Hd. apply Hd.
    + exact Hcr.
Qed.

Lemma notin_state : forall h s y, wf_history h -> state_of h s -> In y h -> ~ In y s ->
  ~ In (oid y) (ids (exec s)).
Proof.
  intros h s y Hwf Hst Hy Hn Hi. apply exec_ids_in in Hi. apply in_map_iff in Hi.
  destruct Hi as (y' & E & Hy'). apply Hn.
  assert (y' = y).
  { eapply (nodup_map_inj _ _ oid h); [apply wf_nodup_ids; exact Hwf|apply Hst; exact Hy'|exact Hy|exact E]. }
  subst y'. exact Hy'.
Qed.

(* ---------- appending one op to a convergent history ---------- *)
Section Step.
  Variables (h : list op) (x : op).
  Hypothesis Hwf : wf_history h.
  Hypothesis Hc : conv h.
  Hypothesis Hfr : fresh_in h x.
  Hypothesis Hv : viewof h x.

  Lemma x_notin : forall s, state_of h s -> ~ In (oid x) (ids (exec s)).
  Proof.
    intros s Hst Hi. apply exec_ids_in in Hi. apply in_map_iff in Hi. destruct Hi as (y & E & Hy).
    eapply fresh_neq; [exact Hfr|apply Hst; exact Hy|exact E].
  Qed.

  Lemma x_sibhyp : forall s y, state_of h s -> In y h -> ~ In y s ->
    dep_ok (ids (exec s)) y = true -> dep_ok (ids (exec s)) x = true ->
    oorigin x = oorigin y -> sibhyp x y (exec s).
  Proof.
    intros s y Hst Hy Hn Dy Dx Hoo.
    destruct (N.eq_dec (cl (oid x)) (cl (oid y))) as [Ecl|Ecl]; [|left; exact Ecl].
    right. left.
    destruct Hv as (sx & a & b & Hin & Hnd & Hown & Hadm & Hex & Ho & Hr).
    assert (Hstx : state_of h sx) by (split; [exact Hin|split; assumption]).
    pose proof (state_ids_nodup h sx Hwf Hstx) as Hndx.
    pose proof (exec_ids_nodup sx Hndx) as HndE.
    pose proof (exec_origin_left sx Hndx Hadm) as Holx.
    assert (Hysx : In y sx) by (apply Hown; [exact Hy|symmetry; exact Ecl]).
    assert (Hyit : In (it y) (exec sx)) by (apply exec_mem; exists y; split; [exact Hysx|reflexivity]).
    assert (Hyb : In (oid y) (ids b)).
    { destruct (oorigin x) as [o|] eqn:Eo.
      - symmetry in Ho. apply lastid_some in Ho. destruct Ho as (a' & io & Ea & Eio). subst a.
        pose proof (Holx (it y) o Hyit (eq_sym Hoo)) as Hlt. rewrite did_it in Hlt.
        unfold lt_in in Hlt. rewrite Hex in Hlt. rewrite <- app_assoc in Hlt. cbn [app] in Hlt.
        rewrite ids_app, ids_cons, Eio in Hlt. destruct Hlt as (p1 & q1 & r1 & E1).
        assert (HndE' : NoDup (ids a' ++ o :: ids b)).
        { rewrite Hex, <- app_assoc in HndE. cbn [app] in HndE. rewrite ids_app, ids_cons, Eio in HndE. exact HndE. }
        assert (Ep : ids a' = p1) by (eapply nodup_split_unique; [exact E1|exact HndE']).
        subst p1. apply app_inv_head in E1. injection E1 as E1. rewrite E1.
        apply in_or_app. right. left. reflexivity.
      - symmetry in Ho. apply lastid_none in Ho. subst a. cbn [app] in Hex. rewrite <- Hex.
        apply exec_ids_in. apply in_map. exact Hysx. }
    destruct b as [|ir b']; [destruct Hyb|].
    cbn [headid] in Hr. exists (did ir). split; [exact Hr|].
    apply dep_ok_iff in Dx. destruct Dx as [Dxo Dxr].
    pose proof (notin_state h s y Hwf Hst Hy Hn) as Hyn.
    assert (Hne : did ir <> oid y).
    { intros E. apply Hyn. rewrite <- E. apply Dxr. exact Hr. }
    rewrite ids_cons in Hyb. destruct Hyb as [Hyb|Hyb]; [contradiction|].
    assert (Hsty : state_of h (s ++ [y])) by (apply state_snoc; assumption).
    rewrite <- exec_snoc.
    apply (transfer h sx (s ++ [y]) (did ir) (oid y) Hwf Hc Hstx Hsty).
    - unfold lt_in. rewrite Hex, ids_app, ids_cons. apply ltl_of_split. exact Hyb.
    - rewrite exec_snoc. apply integ_ids_in. right. apply Dxr. exact Hr.
    - rewrite exec_snoc. apply integ_ids_in. left. reflexivity.
  Qed.

  Lemma diamond_last : forall s y, state_of h s -> In y h -> ~ In y s ->
    dep_ok (ids (exec s)) y = true -> dep_ok (ids (exec s)) x = true ->
    integ (integ (exec s) x) y = integ (integ (exec s) y) x.
  Proof.
    intros s y Hst Hy Hn Dy Dx.
    destruct (state_forest h Hwf Hc s Hst) as (F & HF).
    destruct (in_split y h Hy) as (p & q & Eh).
    destruct (wf_split h Hwf p y q Eh) as (_ & _ & Hvy).
    assert (Hp : forall z, In z p -> In z h).
    { intros z Hz. rewrite Eh. apply in_or_app. left. exact Hz. }
    destruct (pending_cond h s p y Hwf Hc Hst Hp Hvy Dy) as [Cy Oy].
    destruct (pending_cond h s h x Hwf Hc Hst (fun z H => H) Hv Dx) as [Cx Ox].
    apply (diamond (exec s) F x y HF).
    - apply exec_ids_nodup. eapply state_ids_nodup; eassumption.
    - apply x_notin. exact Hst.
    - apply (notin_state h); assumption.
    - intros E. eapply fresh_neq; [exact Hfr|exact Hy|symmetry; exact E].
    - exact Dx.
    - exact Dy.
    - exact Cx.
    - exact Cy.
    - exact Ox.
    - exact Oy.
    - apply x_sibhyp; assumption.
  Qed.

  (* x can be moved behind everything that follows it *)
  Lemma push : forall t s, state_of h s -> (forall y, In y t -> In y h) -> NoDup (s ++ t) ->
    dep_ok (ids (exec s)) x = true -> adm (oid x :: ids (exec s)) t ->
    adm (ids (exec s)) t /\ exec_from (integ (exec s) x) t = integ (exec_from (exec s) t) x.
  Proof.
    induction t as [|y t IH]; intros s Hst Hin Hnd Dx Ha.
    - split; [exact I|reflexivity].
    - cbn [adm] in Ha. destruct Ha as [Dy' Ha].
      assert (Hy : In y h) by (apply Hin; left; reflexivity).
      assert (Hn : ~ In y s).
      { intros Hys. apply (NoDup_app_disj _ s (y :: t) y Hnd Hys). left. reflexivity. }
      assert (Dy : dep_ok (ids (exec s)) y = true).
      { destruct (in_split y h Hy) as (p & q & Eh).
        destruct (wf_split h Hwf p y q Eh) as (_ & _ & Hvy). apply view_deps in Hvy.
        apply dep_ok_iff in Dy'. apply dep_ok_iff in Hvy. apply dep_ok_iff.
        destruct Dy' as [D1 D2]. destruct Hvy as [V1 V2]. split.
        - intros o Eo. destruct (D1 o Eo) as [E|E]; [|exact E]. exfalso.
          specialize (V1 o Eo). apply in_map_iff in V1. destruct V1 as (z & Ez & Hz).
          eapply fresh_neq; [exact Hfr| |rewrite Ez; symmetry; exact E].
          rewrite Eh. apply in_or_app. left. exact Hz.
        - intros r Er. destruct (D2 r Er) as [E|E]; [|exact E]. exfalso.
          specialize (V2 r Er). apply in_map_iff in V2. destruct V2 as (z & Ez & Hz).
          eapply fresh_neq; [exact Hfr| |rewrite Ez; symmetry; exact E].
          rewrite Eh. apply in_or_app. left. exact Hz. }
      assert (Hsty : state_of h (s ++ [y])) by (apply state_snoc; assumption).
      destruct (IH (s ++ [y]) Hsty) as [A2 E2].
      + intros z Hz. apply Hin. right. exact Hz.
      + rewrite <- app_assoc. exact Hnd.
      + rewrite exec_snoc. eapply dep_ok_mono; [|exact Dx]. intros i Hi. apply integ_ids_in. right. exact Hi.
      + eapply adm_mono; [|exact Ha]. rewrite exec_snoc. intros i [Hi|[Hi|Hi]].
        * right. apply integ_ids_in. left. symmetry. exact Hi.
        * left. exact Hi.
        * right. apply integ_ids_in. right. exact Hi.
      + split.
        * cbn [adm]. split; [exact Dy|]. eapply adm_mono; [|exact A2]. rewrite exec_snoc.
          intros i Hi. apply integ_ids_in in Hi. destruct Hi as [Hi|Hi]; [left; symmetry; exact Hi|right; exact Hi].
        * rewrite !exec_from_cons. rewrite (diamond_last s y Hst Hy Hn Dy Dx).
          rewrite exec_snoc in E2. exact E2.
  Qed.

  Lemma conv_step : conv (h ++ [x]).
  Proof.
    assert (Hnorm : forall s1, Permutation s1 (h ++ [x]) -> adm [] s1 ->
              exists s, Permutation s h /\ adm [] s /\ exec s1 = integ (exec s) x).
    { intros s1 P1 A1.
      assert (Hx : In x s1).
      { apply (Permutation_in _ (Permutation_sym P1)). apply in_or_app. right. left. reflexivity. }
      destruct (in_split x s1 Hx) as (s & t & E). subst s1.
      assert (P : Permutation (s ++ t) h).
      { apply Permutation_sym. eapply Permutation_cons_app_inv.
        eapply Permutation_trans; [apply Permutation_cons_append|]. apply Permutation_sym. exact P1. }
      apply adm_app_exec in A1. destruct A1 as [As A1]. cbn [adm] in A1. destruct A1 as [Dx At].
      assert (Hndst : NoDup (s ++ t)).
      { eapply Permutation_NoDup; [apply Permutation_sym; exact P|].
        eapply nodup_of_map. apply wf_nodup_ids. exact Hwf. }
      assert (Hst : state_of h s).
      { split; [|split; [exact (NoDup_app_l _ _ _ Hndst)|exact As]].
        intros y Hy. apply (Permutation_in _ P). apply in_or_app. left. exact Hy. }
      destruct (push t s Hst) as [At' E]; [|exact Hndst|exact Dx|exact At|].
      { intros y Hy. apply (Permutation_in _ P). apply in_or_app. right. exact Hy. }
      exists (s ++ t). split; [exact P|]. split.
      - apply adm_app_exec. split; assumption.
      - rewrite exec_app, exec_from_cons, E, <- exec_app. reflexivity. }
    intros s1 s2 P1 P2 A1 A2.
    destruct (Hnorm s1 P1 A1) as (t1 & Q1 & B1 & E1).
    destruct (Hnorm s2 P2 A2) as (t2 & Q2 & B2 & E2).
    rewrite E1, E2. rewrite (Hc t1 t2 Q1 Q2 B1 B2). reflexivity.
  Qed.
End Step.

Theorem wf_conv : forall h, wf_history h -> conv h.
Proof.
  induction 1 as [|h x s0 a b Hwf IH Hfr Hin Hnd Hown Hadm Hex Ho Hr].
  - intros s1 s2 P1 P2 _ _. apply Permutation_sym, Permutation_nil in P1.
    apply Permutation_sym, Permutation_nil in P2. subst. reflexivity.
  - apply conv_step; try assumption.
    exists s0, a, b. repeat split; assumption.
Qed.

(* the goal *)
Theorem yata_convergence_unbounded : forall h, wf_history h ->
  forall l1 l2, run [] h [] l1 -> run [] h [] l2 -> map did l1 = map did l2.
Proof.
  intros h Hwf l1 l2 R1 R2.
  apply run_exec in R1. destruct R1 as (s1 & P1 & A1 & E1).
  apply run_exec in R2. destruct R2 as (s2 & P2 & A2 & E2).
  subst l1 l2. fold (exec s1). fold (exec s2).
  rewrite (wf_conv h Hwf s1 s2 P1 P2 A1 A2). reflexivity.
Qed.
Print Assumptions yata_convergence_unbounded.


(* ====================================================================== *)
(* PART 7: every history generated by [gen] is well formed                 *)
(* ====================================================================== *)
Module GenWf.
Local Open Scope nat_scope.

(* GenWf: every history enumerated by [gen] is a well-formed history in the sense of Y0.wf_history.
   Stdlib only, no axioms. *)

(* ====================================================================== *)
(* 0. small facts                                                          *)
(* ====================================================================== *)

Lemma mem_id_In : forall i l, mem_id i l = true <-> In i l.
Proof.
  intros i l. unfold mem_id. rewrite existsb_exists. split.
  - intros [x [Hx He]]. apply id_eqb_eq in He. subst. exact Hx.
  - intros H. exists i. split; [exact H|apply id_eqb_refl].
Qed.

Lemma natmem_In : forall n l, natmem n l = true <-> In n l.
Proof.
  intros n l. unfold natmem. rewrite existsb_exists. split.
  - intros [x [Hx He]]. apply Nat.eqb_eq in He. subst. exact Hx.
  - intros H. exists n. split; [exact H|apply Nat.eqb_refl].
Qed.

Lemma dep_ok_spec : forall have x, dep_ok have x = true <->
  (forall d, oorigin x = Some d \/ ororigin x = Some d -> In d have).
Proof.
  intros have x. unfold dep_ok. rewrite andb_true_iff. split.
  - intros [H1 H2] d [H|H].
    + rewrite H in H1. apply mem_id_In. exact H1.
    + rewrite H in H2. apply mem_id_In. exact H2.
  - intros H. split.
    + destruct (oorigin x) as [d|] eqn:E; [|reflexivity]. apply mem_id_In. apply H. left. reflexivity.
    + destruct (ororigin x) as [d|] eqn:E; [|reflexivity]. apply mem_id_In. apply H. right. reflexivity.
Qed.

Lemma dep_ok_incl : forall h1 h2 x, (forall i, In i h1 -> In i h2) ->
  dep_ok h1 x = true -> dep_ok h2 x = true.
Proof.
  intros h1 h2 x Hi H. apply dep_ok_spec. intros d Hd. apply Hi.
  revert d Hd. apply dep_ok_spec. exact H.
Qed.

Lemma adm_incl : forall s h1 h2, (forall i, In i h1 -> In i h2) -> adm h1 s -> adm h2 s.
Proof.
  induction s as [|x s IH]; intros h1 h2 Hi H.
  - exact I.
  - destruct H as [Hx Hs]. split.
    + eapply dep_ok_incl; eassumption.
    + eapply IH; [|exact Hs]. intros i [->|Hin]; [left; reflexivity|right; apply Hi; exact Hin].
Qed.

Lemma adm_remove : forall k rem have x,
  adm have rem -> nth_error rem k = Some x -> dep_ok have x = true ->
  adm (oid x :: have) (remove_nth k rem).
Proof.
  induction k as [|k IH]; intros [|y r] have x Ha Hn Hd; simpl in Hn; try discriminate.
  - inversion Hn; subst y. destruct Ha as [_ Ha]. exact Ha.
  - destruct Ha as [Hy Ha]. cbn [remove_nth]. split.
    + eapply dep_ok_incl; [|exact Hy]. intros i Hi. right. exact Hi.
    + eapply adm_incl; [|apply (IH r (oid y :: have) x Ha Hn)].
      * intros i [->|[->|Hi]]; [right; left; reflexivity|left; reflexivity|right; right; exact Hi].
      * eapply dep_ok_incl; [|exact Hd]. intros i Hi. right. exact Hi.
Qed.

Lemma adm_snoc : forall l have x,
  adm have l -> dep_ok (map oid l ++ have) x = true -> adm have (l ++ [x]).
Proof.
  induction l as [|y l IH]; intros have x Ha Hx.
  - simpl. split; [exact Hx|exact I].
  - destruct Ha as [Hy Ha]. simpl. split; [exact Hy|].
    apply IH; [exact Ha|]. eapply dep_ok_incl; [|exact Hx].
    intros i Hi. simpl in Hi. rewrite in_app_iff in *. simpl.
    destruct Hi as [->|[Hi|Hi]]; [right; left; reflexivity|left; exact Hi|right; right; exact Hi].
Qed.

(* ====================================================================== *)
(* 1. pick_min / canon: the canonical rendering is an admissible execution *)
(* ====================================================================== *)

Lemma pick_min_spec : forall have r pre best,
  (forall k x, best = Some (k, x) -> nth_error (pre ++ r) k = Some x /\ dep_ok have x = true) ->
  forall k x, pick_min have r best (length pre) = Some (k, x) ->
  nth_error (pre ++ r) k = Some x /\ dep_ok have x = true.
Proof.
  intros have. induction r as [|y r IH]; intros pre best Hb k x H.
  - cbn [pick_min] in H. apply Hb. exact H.
  - cbn [pick_min] in H.
    replace (S (length pre)) with (length (pre ++ [y])) in H by (rewrite app_length; simpl; lia).
    replace (pre ++ y :: r) with ((pre ++ [y]) ++ r) by (rewrite <- app_assoc; reflexivity).
    eapply IH; [|exact H].
    intros k' x' Hb'. rewrite <- app_assoc. simpl app.
    destruct (dep_ok have y) eqn:Hd.
    + destruct best as [[kb b]|].
      * destruct (id_ltb (oid y) (oid b)).
        -- inversion Hb'; subst. split; [|exact Hd].
           rewrite nth_error_app2 by lia. rewrite Nat.sub_diag. reflexivity.
        -- apply Hb. exact Hb'.
      * inversion Hb'; subst. split; [|exact Hd].
        rewrite nth_error_app2 by lia. rewrite Nat.sub_diag. reflexivity.
    + apply Hb. exact Hb'.
Qed.

Lemma pick_min_some : forall have r best k, best <> None -> pick_min have r best k <> None.
Proof.
  intros have. induction r as [|y r IH]; intros best k Hb.
  - exact Hb.
  - cbn [pick_min]. apply IH.
    destruct (dep_ok have y); [|exact Hb].
    destruct best as [[kb b]|]; [|discriminate].
    destruct (id_ltb (oid y) (oid b)); discriminate.
Qed.

Lemma pick_min_first : forall have y r, dep_ok have y = true -> pick_min have (y :: r) None 0 <> None.
Proof.
  intros have y r H. cbn [pick_min]. rewrite H. apply pick_min_some. discriminate.
Qed.

Lemma remove_nth_perm : forall (A : Type) k (l : list A) x,
  nth_error l k = Some x -> Permutation (x :: remove_nth k l) l.
Proof.
  intros A. induction k as [|k IH]; intros [|a l] x H; simpl in H; try discriminate.
  - inversion H; subst. apply Permutation_refl.
  - cbn [remove_nth]. eapply perm_trans; [apply perm_swap|]. apply perm_skip. apply IH. exact H.
Qed.

Lemma canon_exec : forall fuel have rem lst,
  length rem <= fuel -> adm have rem ->
  exists s, Permutation s rem /\ adm have s /\ canon fuel have rem lst = exec_from lst s.
Proof.
  induction fuel as [|f IH]; intros have rem lst Hl Ha.
  - destruct rem as [|y r]; [|simpl in Hl; lia].
    exists []. split; [apply perm_nil|]. split; [exact I|reflexivity].
  - destruct rem as [|y r].
    + exists []. split; [apply perm_nil|]. split; [exact I|reflexivity].
    + cbn [canon]. destruct (pick_min have (y :: r) None 0) as [[k x]|] eqn:Hp.
      * destruct (pick_min_spec have (y :: r) [] None) with (k := k) (x := x) as [Hn Hd].
        { intros; discriminate. }
        { exact Hp. }
        simpl app in Hn.
        destruct (IH (oid x :: have) (remove_nth k (y :: r)) (integ lst x)) as [s [Hs1 [Hs2 Hs3]]].
        { pose proof (remove_nth_length _ _ _ _ Hn) as HL. rewrite HL in Hl. lia. }
        { apply adm_remove; assumption. }
        exists (x :: s). split; [|split].
        -- eapply perm_trans; [apply perm_skip; exact Hs1|apply remove_nth_perm; exact Hn].
        -- simpl. split; assumption.
        -- rewrite Hs3. reflexivity.
      * exfalso. destruct Ha as [Hy _]. eapply pick_min_first; eauto.
Qed.

Lemma exec_from_mem : forall s l z,
  In z (exec_from l s) -> In z l \/ exists o, In o s /\ z = mkditem o false.
Proof.
  induction s as [|x s IH]; intros l z H.
  - left. exact H.
  - change (In z (exec_from (integ l x) s)) in H. apply IH in H.
    destruct H as [H|[o [Ho Hz]]].
    + unfold integ in H. apply yata_insert_mem in H. destruct H as [->|H].
      * right. exists x. split; [left; reflexivity|reflexivity].
      * left. exact H.
    + right. exists o. split; [right; exact Ho|exact Hz].
Qed.

(* ====================================================================== *)
(* 2. gaps                                                                 *)
(* ====================================================================== *)

Lemma firstn_S_nth : forall (A : Type) (l : list A) g z,
  nth_error l g = Some z -> firstn (S g) l = firstn g l ++ [z].
Proof.
  intros A. induction l as [|a l IH]; intros g z H; destruct g; simpl in H; try discriminate.
  - inversion H; reflexivity.
  - change (a :: firstn (S g) l = a :: (firstn g l ++ [z])). f_equal. apply IH. exact H.
Qed.

Lemma lastid_firstn : forall (lst : list ditem) gap, gap <= length lst ->
  lastid (firstn gap lst) =
  match gap with O => None | S g => option_map did (nth_error lst g) end.
Proof.
  intros lst [|g] H.
  - reflexivity.
  - destruct (nth_error lst g) as [z|] eqn:E.
    + rewrite (firstn_S_nth _ _ _ _ E). unfold lastid. rewrite rev_app_distr. reflexivity.
    + apply nth_error_None in E. lia.
Qed.

Lemma headid_skipn : forall gap (lst : list ditem),
  headid (skipn gap lst) = option_map did (nth_error lst gap).
Proof.
  induction gap as [|g IH]; intros [|z l]; try reflexivity.
  simpl. apply IH.
Qed.

(* ====================================================================== *)
(* 3. sublists / closed                                                    *)
(* ====================================================================== *)

Lemma sublists_in : forall (A : Type) (l : list A) s e, In s (sublists l) -> In e s -> In e l.
Proof.
  intros A. induction l as [|x r IH]; intros s e Hs He.
  - simpl in Hs. destruct Hs as [<-|[]]. exact He.
  - cbn [sublists] in Hs. apply in_app_or in Hs. destruct Hs as [Hs|Hs].
    + right. eapply IH; eassumption.
    + apply in_map_iff in Hs. destruct Hs as [s' [<- Hs']].
      destruct He as [<-|He]; [left; reflexivity|right; eapply IH; eassumption].
Qed.

Lemma closed_spec : forall views view, closed views view = true ->
  forall i j, In i view -> In j (nth i views []) -> In j view.
Proof.
  intros views view H i j Hi Hj. unfold closed in H. rewrite forallb_forall in H.
  specialize (H i Hi). rewrite forallb_forall in H. apply natmem_In. apply H. exact Hj.
Qed.

(* ====================================================================== *)
(* 4. names for the pieces of [gen]                                        *)
(* ====================================================================== *)

Definition ownf (c : N) (items : list op) : list nat :=
  filter (fun i => match nth_error items i with
                   | Some it => (cl (oid it) =? c)%N
                   | None => false
                   end) (seq 0 (length items)).

Definition othersf (c : N) (items : list op) : list nat :=
  filter (fun i => negb (natmem i (ownf c items))) (seq 0 (length items)).

Definition seeng (items : list op) (view : list nat) (idx : list nat) : list op :=
  flat_map (fun i => match nth_error items i with
                     | Some it => if natmem i view then [it] else []
                     | None => []
                     end) idx.

Definition seenf (items : list op) (view : list nat) : list op :=
  seeng items view (seq 0 (length items)).

Definition newop (c : N) (items : list op) (view : list nat) (gap : nat) : op :=
  let lst := YataFinite.render (seenf items view) in
  seqop (mkid c (clock_of c items))
        (match gap with O => None | S g => option_map did (nth_error lst g) end)
        (option_map did (nth_error lst gap)).

Lemma gen_S : forall n clients items views,
  gen (S n) clients items views =
  flat_map (fun c =>
    flat_map (fun extra =>
      if closed views (ownf c items ++ extra) then
        flat_map (fun gap =>
          gen n clients (items ++ [newop c items (ownf c items ++ extra) gap])
              (views ++ [ownf c items ++ extra]))
          (seq 0 (S (length (YataFinite.render (seenf items (ownf c items ++ extra))))))
      else []) (sublists (othersf c items))) clients.
Proof. reflexivity. Qed.

Lemma seeng_in : forall items view idx y,
  In y (seeng items view idx) <->
  exists i, In i idx /\ nth_error items i = Some y /\ In i view.
Proof.
  intros items view idx y. unfold seeng. rewrite in_flat_map. split.
  - intros [i [Hi H]]. destruct (nth_error items i) as [it|] eqn:E; [|destruct H].
    destruct (natmem i view) eqn:En; [|destruct H]. destruct H as [<-|[]].
    exists i. split; [exact Hi|]. split; [exact E|]. apply natmem_In. exact En.
  - intros [i [Hi [E Hv]]]. exists i. split; [exact Hi|]. rewrite E.
    apply natmem_In in Hv. rewrite Hv. left. reflexivity.
Qed.

Lemma seeng_snoc : forall items view m,
  seeng items view (seq 0 (S m)) =
  seeng items view (seq 0 m) ++
  match nth_error items m with
  | Some it => if natmem m view then [it] else []
  | None => []
  end.
Proof.
  intros items view m. unfold seeng. rewrite seq_S, flat_map_app. simpl.
  rewrite app_nil_r. reflexivity.
Qed.

Lemma clock_of_app : forall c items x,
  clock_of c (items ++ [x]) = (clock_of c items + (if (cl (oid x) =? c)%N then 1 else 0))%N.
Proof.
  intros c items x. unfold clock_of. rewrite filter_app, app_length. simpl.
  destruct (cl (oid x) =? c)%N; simpl; lia.
Qed.

(* ====================================================================== *)
(* 5. the invariant of gen's recursion                                     *)
(* ====================================================================== *)

Record GI (items : list op) (views : list (list nat)) : Prop := mkGI {
  gi_wf : wf_history items;
  gi_len : length views = length items;
  gi_back : forall i j, i < length items -> In j (nth i views []) -> j < i;
  gi_dep : forall i it d, nth_error items i = Some it ->
             (oorigin it = Some d \/ ororigin it = Some d) ->
             exists j itj, In j (nth i views []) /\ nth_error items j = Some itj /\ oid itj = d;
  gi_clock : forall it, In it items -> (ck (oid it) < clock_of (cl (oid it)) items)%N;
  gi_nodup : NoDup items }.

Lemma GI_init : GI [] [].
Proof.
  constructor.
  - apply wf_nil.
  - reflexivity.
  - intros i j Hi. simpl in Hi. lia.
  - intros i it d H. destruct i; discriminate.
  - intros it [].
  - constructor.
Qed.

Lemma seen_prefix : forall items views view,
  GI items views -> closed views view = true ->
  forall m, m <= length items ->
  adm [] (seeng items view (seq 0 m)) /\ NoDup (seeng items view (seq 0 m)).
Proof.
  intros items views view HG Hcl. induction m as [|m IH]; intros Hm.
  - simpl. split; [exact I|constructor].
  - destruct IH as [IHa IHn]; [lia|].
    rewrite seeng_snoc.
    destruct (nth_error items m) as [it|] eqn:E; [|rewrite app_nil_r; split; assumption].
    destruct (natmem m view) eqn:En; [|rewrite app_nil_r; split; assumption].
    split.
    + apply adm_snoc; [exact IHa|]. apply dep_ok_spec. intros d Hd. rewrite app_nil_r.
      destruct (gi_dep _ _ HG m it d E Hd) as [j [itj [Hj [Ej Ho]]]].
      apply in_map_iff. exists itj. split; [exact Ho|].
      apply seeng_in. exists j. split; [|split; [exact Ej|]].
      * apply in_seq. assert (Hb : j < m) by (apply (gi_back _ _ HG m j); [lia|exact Hj]). lia.
      * eapply closed_spec; [exact Hcl| |exact Hj]. apply natmem_In. exact En.
    + eapply Permutation_NoDup; [apply Permutation_cons_append|].
      constructor; [|exact IHn].
      intros Hin. apply seeng_in in Hin. destruct Hin as [j [Hj [Ej _]]].
      apply in_seq in Hj.
      pose proof (proj1 (NoDup_nth_error items) (gi_nodup _ _ HG) j m) as Hnd.
      assert (j = m); [|lia]. apply Hnd; [lia|]. rewrite Ej, E. reflexivity.
Qed.

Lemma GI_step : forall items views c extra gap,
  GI items views ->
  In extra (sublists (othersf c items)) ->
  closed views (ownf c items ++ extra) = true ->
  gap <= length (YataFinite.render (seenf items (ownf c items ++ extra))) ->
  GI (items ++ [newop c items (ownf c items ++ extra) gap]) (views ++ [ownf c items ++ extra]).
Proof.
  intros items views c extra gap HG Hex Hcl Hgap.
  assert (Hview : forall j, In j (ownf c items ++ extra) -> j < length items).
  { intros j Hj. apply in_app_or in Hj. destruct Hj as [Hj|Hj].
    - unfold ownf in Hj. apply filter_In in Hj. destruct Hj as [Hj _]. apply in_seq in Hj. lia.
    - pose proof (sublists_in _ _ _ _ Hex Hj) as Ho. unfold othersf in Ho.
      apply filter_In in Ho. destruct Ho as [Ho _]. apply in_seq in Ho. lia. }
  assert (Hown : forall y, In y items -> cl (oid y) = c -> In y (seenf items (ownf c items ++ extra))).
  { intros y Hy Hc. apply In_nth_error in Hy. destruct Hy as [i Ei].
    assert (Hi : i < length items) by (apply nth_error_Some; congruence).
    apply seeng_in. exists i. split; [apply in_seq; lia|]. split; [exact Ei|].
    apply in_or_app. left. unfold ownf. apply filter_In. split; [apply in_seq; lia|].
    rewrite Ei. apply N.eqb_eq. exact Hc. }
  set (view := ownf c items ++ extra) in *.
  destruct (seen_prefix items views view HG Hcl (length items) (le_n _)) as [Hadm Hnd].
  change (seeng items view (seq 0 (length items))) with (seenf items view) in Hadm, Hnd.
  assert (Hseen : forall y, In y (seenf items view) ->
             exists i, nth_error items i = Some y /\ In i view).
  { intros y Hy. apply seeng_in in Hy. destruct Hy as [i [_ [Ei Hv]]]. exists i. split; assumption. }
  set (seen := seenf items view) in *.
  destruct (canon_exec (length seen) [] seen [] (le_n _) Hadm) as [s [Hperm [Hsadm Hcan]]].
  change (canon (length seen) [] seen []) with (YataFinite.render seen) in Hcan.
  change (exec_from [] s) with (exec s) in Hcan.
  assert (Hxid : oid (newop c items view gap) = mkid c (clock_of c items)) by reflexivity.
  assert (Hxo : oorigin (newop c items view gap) =
                match gap with O => None | S g => option_map did (nth_error (YataFinite.render seen) g) end)
    by reflexivity.
  assert (Hxr : ororigin (newop c items view gap) =
                option_map did (nth_error (YataFinite.render seen) gap)) by reflexivity.
  set (x := newop c items view gap) in *. clearbody x.
  set (lst := YataFinite.render seen) in *.
  assert (Hlst : forall z, In z lst ->
             exists j itj, In j view /\ nth_error items j = Some itj /\ oid itj = did z).
  { intros z Hz. rewrite Hcan in Hz. apply exec_from_mem in Hz.
    destruct Hz as [[]|[o [Ho ->]]].
    apply (Permutation_in _ Hperm) in Ho. destruct (Hseen o Ho) as [i [Ei Hv]].
    exists i, o. split; [exact Hv|]. split; [exact Ei|reflexivity]. }
  pose proof (gi_len _ _ HG) as Hlen.
  constructor.
  - (* wf_history *)
    apply wf_snoc with (s := s) (a := firstn gap lst) (b := skipn gap lst).
    + exact (gi_wf _ _ HG).
    + intros y Hy Hc. rewrite Hxid in Hc |- *. cbn [cl ck] in Hc |- *.
      pose proof (gi_clock _ _ HG y Hy) as Hk. rewrite Hc in Hk. exact Hk.
    + intros y Hy. apply (Permutation_in _ Hperm) in Hy.
      destruct (Hseen y Hy) as [i [Ei _]]. eapply nth_error_In. exact Ei.
    + eapply Permutation_NoDup; [apply Permutation_sym; exact Hperm|exact Hnd].
    + intros y Hy Hc. apply (Permutation_in _ (Permutation_sym Hperm)).
      apply Hown; [exact Hy|]. rewrite Hc, Hxid. reflexivity.
    + exact Hsadm.
    + rewrite Hcan. symmetry. apply firstn_skipn.
    + rewrite Hxo. symmetry. apply lastid_firstn. exact Hgap.
    + rewrite Hxr. symmetry. apply headid_skipn.
  - rewrite !app_length. simpl. rewrite Hlen. reflexivity.
  - intros i j Hi Hj. rewrite app_length in Hi. simpl in Hi.
    destruct (Nat.eq_dec i (length items)) as [->|Hne].
    + rewrite app_nth2 in Hj by lia. rewrite Hlen, Nat.sub_diag in Hj. simpl in Hj.
      apply Hview. exact Hj.
    + rewrite app_nth1 in Hj by lia. apply (gi_back _ _ HG); [lia|exact Hj].
  - intros i it d Ei Hd.
    assert (Hi : i < length (items ++ [x])) by (apply nth_error_Some; congruence).
    rewrite app_length in Hi. simpl in Hi.
    destruct (Nat.eq_dec i (length items)) as [->|Hne].
    + rewrite nth_error_app2 in Ei by lia. rewrite Nat.sub_diag in Ei. simpl in Ei.
      inversion Ei; subst it.
      rewrite app_nth2 by lia. rewrite Hlen, Nat.sub_diag. simpl nth.
      assert (Hz : exists z, In z lst /\ did z = d).
      { destruct Hd as [Hd|Hd].
        - rewrite Hxo in Hd. destruct gap as [|g]; [discriminate|].
          destruct (nth_error lst g) as [z|] eqn:E; [|discriminate].
          simpl in Hd. inversion Hd. exists z. split; [eapply nth_error_In; exact E|reflexivity].
        - rewrite Hxr in Hd.
          destruct (nth_error lst gap) as [z|] eqn:E; [|discriminate].
          simpl in Hd. inversion Hd. exists z. split; [eapply nth_error_In; exact E|reflexivity]. }
      destruct Hz as [z [Hz Hzd]]. destruct (Hlst z Hz) as [j [itj [Hj [Ej Ho]]]].
      exists j, itj. split; [exact Hj|]. split; [|congruence].
      rewrite nth_error_app1; [exact Ej|]. apply nth_error_Some. congruence.
    + rewrite nth_error_app1 in Ei by lia. rewrite app_nth1 by lia.
      destruct (gi_dep _ _ HG i it d Ei Hd) as [j [itj [Hj [Ej Ho]]]].
      exists j, itj. split; [exact Hj|]. split; [|exact Ho].
      rewrite nth_error_app1; [exact Ej|]. apply nth_error_Some. congruence.
  - intros it Hit. rewrite clock_of_app. apply in_app_or in Hit. destruct Hit as [Hit|[<-|[]]].
    + pose proof (gi_clock _ _ HG it Hit) as Hk.
      destruct (cl (oid x) =? cl (oid it))%N; lia.
    + rewrite N.eqb_refl. rewrite Hxid. cbn [cl ck]. lia.
  - eapply Permutation_NoDup; [apply Permutation_cons_append|].
    constructor; [|exact (gi_nodup _ _ HG)].
    intros Hin. pose proof (gi_clock _ _ HG x Hin) as Hk. rewrite Hxid in Hk. cbn [cl ck] in Hk. lia.
Qed.

(* ====================================================================== *)
(* 6. the theorem                                                          *)
(* ====================================================================== *)

Lemma gen_wf_gen : forall n clients items views h,
  GI items views -> In h (gen n clients items views) -> wf_history h.
Proof.
  induction n as [|n IH]; intros clients items views h HG Hin.
  - simpl in Hin. destruct Hin as [<-|[]]. exact (gi_wf _ _ HG).
  - rewrite gen_S in Hin.
    apply in_flat_map in Hin. destruct Hin as [c [_ Hin]].
    apply in_flat_map in Hin. destruct Hin as [extra [Hex Hin]].
    destruct (closed views (ownf c items ++ extra)) eqn:Hcl; [|destruct Hin].
    apply in_flat_map in Hin. destruct Hin as [gap [Hgap Hin]].
    eapply IH; [|exact Hin]. apply GI_step; [exact HG|exact Hex|exact Hcl|].
    apply in_seq in Hgap. lia.
Qed.

Theorem gen_wf : forall n clients h, In h (gen n clients [] []) -> wf_history h.
Proof.
  intros n clients h H. eapply gen_wf_gen; [apply GI_init|exact H].
Qed.

Example h_conc_wf : wf_history h_conc.
Proof. exact (gen_wf _ _ _ h_conc_generated). Qed.
End GenWf.


(* ====================================================================== *)
(* PART 8: the results; relation to [gen] and [run]; examples             *)
(* ====================================================================== *)

(* the result holds with full equality of the item lists *)
Theorem yata_convergence_unbounded_eq : forall h, wf_history h ->
  forall l1 l2, run [] h [] l1 -> run [] h [] l2 -> l1 = l2.
Proof.
  intros h Hwf l1 l2 R1 R2.
  apply run_exec in R1. destruct R1 as (s1 & P1 & A1 & E1).
  apply run_exec in R2. destruct R2 as (s2 & P2 & A2 & E2).
  subst l1 l2. exact (wf_conv h Hwf s1 s2 P1 P2 A1 A2).
Qed.
Print Assumptions yata_convergence_unbounded_eq.

(* the same for sub-histories: any two admissible integration orders of the same duplicate-free
   set of ops of a well-formed history (closed under explicit dependencies, or else no complete
   run exists) produce the same list, and that list is ordered like the final list of [h] *)
Theorem yata_states_agree : forall h, wf_history h ->
  forall s1 s2 i j, state_of h s1 -> state_of h s2 ->
  lt_in i j (exec s1) -> In i (ids (exec s2)) -> In j (ids (exec s2)) -> lt_in i j (exec s2).
Proof. intros h Hwf s1 s2 i j. apply transfer; [exact Hwf|apply wf_conv; exact Hwf]. Qed.

(* every reachable state is the pre-order traversal of a forest in which the parent of an item is
   its origin *)
Theorem yata_states_are_forests : forall h, wf_history h ->
  forall s, state_of h s -> exists F, Forall (wft None) F /\ flatF F = exec s.
Proof. intros h Hwf s Hs. apply (state_forest h Hwf (wf_conv h Hwf) s Hs). Qed.

(* the creation order itself is admissible, so the common result is [exec h] *)
Lemma wf_adm : forall h, wf_history h -> adm [] h.
Proof.
  induction 1 as [|h x s0 a b Hwf IH Hfr Hin Hnd Hown Hadm Hex Ho Hr]; [exact I|].
  apply adm_snoc. split; [exact IH|].
  assert (Hv : viewof h x) by (exists s0, a, b; repeat split; assumption).
  apply view_deps in Hv. eapply dep_ok_mono; [|exact Hv].
  intros i Hi. apply exec_ids_in. exact Hi.
Qed.

Theorem yata_canonical_result : forall h, wf_history h ->
  forall l, run [] h [] l -> l = exec h.
Proof.
  intros h Hwf l R. eapply yata_convergence_unbounded_eq; [exact Hwf|exact R|].
  apply exec_run. apply wf_adm. exact Hwf.
Qed.

(* ---------- [wf_history] in terms of [run] ---------- *)
(* introduction: the state of the creating client given as the result of a [run] *)
Lemma wf_snoc_run : forall h x V lv a b,
  wf_history h ->
  (forall y, In y h -> cl (oid y) = cl (oid x) -> (ck (oid y) < ck (oid x))%N) ->
  (forall y, In y V -> In y h) -> NoDup V ->
  (forall y, In y h -> cl (oid y) = cl (oid x) -> In y V) ->
  run [] V [] lv -> lv = a ++ b ->
  oorigin x = lastid a -> ororigin x = headid b ->
  wf_history (h ++ [x]).
Proof.
  intros h x V lv a b Hwf Hfr Hin Hnd Hown Hrun El Ho Hr.
  apply run_exec in Hrun. destruct Hrun as (s & P & A & E).
  apply (wf_snoc h x s a b); try assumption.
  - intros y Hy. apply Hin. apply (Permutation_in _ P). exact Hy.
  - eapply Permutation_NoDup; [apply Permutation_sym; exact P|exact Hnd].
  - intros y Hy Hc. apply (Permutation_in _ (Permutation_sym P)). apply Hown; assumption.
  - rewrite <- El. symmetry. exact E.
Qed.

(* elimination: what [wf_history] says about the last op, with [run] *)
Lemma wf_snoc_inv_run : forall h x, wf_history (h ++ [x]) ->
  wf_history h /\
  (forall y, In y h -> cl (oid y) = cl (oid x) -> (ck (oid y) < ck (oid x))%N) /\
  exists V lv a b,
    (forall y, In y V -> In y h) /\ NoDup V /\
    (forall y, In y h -> cl (oid y) = cl (oid x) -> In y V) /\
    run [] V [] lv /\ lv = a ++ b /\ oorigin x = lastid a /\ ororigin x = headid b.
Proof.
  intros h x H. destruct (wf_split _ H h x [] eq_refl) as (Hwf & Hfr & (s & a & b & H1 & H2 & H3 & H4 & H5 & H6 & H7)).
  split; [exact Hwf|]. split; [exact Hfr|].
  exists s, (exec s), a, b. repeat split; try assumption.
  apply (exec_run s [] []). exact H4.
Qed.

(* ---------- relation to the generator of YataFinite.v: the statement is not vacuous ---------- *)
Theorem gen_wf : forall n clients h, In h (gen n clients [] []) -> wf_history h.
Proof. exact GenWf.gen_wf. Qed.
Print Assumptions gen_wf.

(* convergence for every generated history: any number of ops, any list of clients *)
Theorem yata_convergence_gen : forall n clients h, In h (gen n clients [] []) ->
  forall l1 l2, run [] h [] l1 -> run [] h [] l2 -> map did l1 = map did l2.
Proof. intros n clients h Hin. apply yata_convergence_unbounded. eapply gen_wf. exact Hin. Qed.
Print Assumptions yata_convergence_gen.

Example h_conc_wf : wf_history h_conc.
Proof. exact GenWf.h_conc_wf. Qed.

(* ---------- a concrete history with right origins, three clients, built by hand ----------
   A=(1,0) is typed by client 1.  Client 2 sees A and appends B=(2,0).  Client 1, still seeing only
   A, appends C=(1,1): B and C are concurrent with the same origin; every replica orders them A C B.
   Client 3 sees A C B and inserts D=(3,0) between C and B (origin C, right origin B).  Client 2,
   seeing only A B, concurrently inserts E=(2,1) between A and B (origin A, right origin B). *)
Definition opA : op := seqop (mkid 1 0) None None.
Definition opB : op := seqop (mkid 2 0) (Some (mkid 1 0)) None.
Definition opC : op := seqop (mkid 1 1) (Some (mkid 1 0)) None.
Definition opD : op := seqop (mkid 3 0) (Some (mkid 1 1)) (Some (mkid 2 0)).
Definition opE : op := seqop (mkid 2 1) (Some (mkid 1 0)) (Some (mkid 2 0)).
Definition h_ex : list op := [opA; opB; opC; opD; opE].

Ltac ex_in := cbn [In]; tauto.
Ltac ex_all H := cbn [In] in H; repeat (destruct H as [H|H]; [subst|]); try contradiction.

Example h_ex_wf : wf_history h_ex.
Proof.
  assert (W0 : wf_history []) by constructor.
  assert (W1 : wf_history [opA]).
  { apply (wf_snoc [] opA [] [] []); try assumption; try reflexivity.
    - intros y [].
    - intros y [].
    - constructor.
    - intros y []. }
  assert (W2 : wf_history [opA; opB]).
  { apply (wf_snoc [opA] opB [opA] [it opA] []); try assumption; try reflexivity.
    - intros y H Hc. ex_all H. discriminate Hc.
    - intros y H. exact H.
    - repeat constructor; cbn [In]; intros H; ex_all H.
    - intros y H Hc. exact H.
    - cbn [adm]. repeat split; reflexivity. }
  assert (W3 : wf_history [opA; opB; opC]).
  { apply (wf_snoc [opA; opB] opC [opA] [it opA] []); try assumption; try reflexivity.
    - intros y H Hc. ex_all H; [reflexivity|discriminate Hc].
    - intros y H. ex_all H. ex_in.
    - repeat constructor; cbn [In]; intros H; ex_all H.
    - intros y H Hc. ex_all H; [ex_in|discriminate Hc].
    - cbn [adm]. repeat split; reflexivity. }
  assert (W4 : wf_history [opA; opB; opC; opD]).
  { apply (wf_snoc [opA; opB; opC] opD [opA; opB; opC] [it opA; it opC] [it opB]); try assumption; try reflexivity.
    - intros y H Hc. ex_all H; discriminate Hc.
    - intros y H. exact H.
    - repeat constructor; cbn [In]; intros H; ex_all H; discriminate H.
    - intros y H Hc. exact H.
    - cbn [adm]. repeat split; reflexivity. }
  apply (wf_snoc [opA; opB; opC; opD] opE [opA; opB] [it opA] [it opB]); try assumption; try reflexivity.
  - intros y H Hc. ex_all H; try discriminate Hc. reflexivity.
  - intros y H. ex_all H; ex_in.
  - repeat constructor; cbn [In]; intros H; ex_all H; discriminate H.
  - intros y H Hc. ex_all H; try discriminate Hc. ex_in.
  - cbn [adm]. repeat split; reflexivity.
Qed.

(* D and E are concurrent; B and C are concurrent.  Every admissible order of h_ex ends in
   A C D E B (E, a child of A created by client 2, goes behind the whole subtree of its sibling C
   of client 1 and stops at its right origin B). *)
Example h_ex_result : forall l, run [] h_ex [] l ->
  map did l = [mkid 1 0; mkid 1 1; mkid 3 0; mkid 2 1; mkid 2 0].
Proof.
  intros l R. rewrite (yata_canonical_result h_ex h_ex_wf l R). vm_compute. reflexivity.
Qed.

Example h_ex_two_orders :
  run [] h_ex [] (exec [opA; opB; opC; opD; opE]) /\ run [] h_ex [] (exec [opA; opC; opB; opE; opD]).
Proof.
  split.
  - apply exec_run. cbn [adm]. repeat split; reflexivity.
  - eapply (run_step _ _ _ 0%nat); [reflexivity|reflexivity|].
    eapply (run_step _ _ _ 1%nat); [reflexivity|reflexivity|].
    eapply (run_step _ _ _ 0%nat); [reflexivity|reflexivity|].
    eapply (run_step _ _ _ 1%nat); [reflexivity|reflexivity|].
    eapply (run_step _ _ _ 0%nat); [reflexivity|reflexivity|].
    apply run_done.
Qed.
Print Assumptions h_ex_result.
