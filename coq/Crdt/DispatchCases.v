(* Concrete cases for the dispatch model: the replayed histories (yrs/tests/evd_dispatch.rs), non-vacuity of every
   hypothesis used in DispatchProofs.v, the witnesses of the refuted statements, and the bounded sweep that was
   used to test the statement of theorem 2 before proving it (the sweep for theorem 4 - as-written call_observers
   against evd_spec_calls over 24 forests x 65 orders x 16 observer sets x 3 states - is superseded by the proof). Everything by vm_compute. *)
From Coq Require Import List NArith Bool Arith.
From YV Require Import Crdt.Events.
From YV.Crdt Require Import Dispatch DispatchProofs.
Import ListNotations.
Open Scope N_scope.

Definition evd_c_node k s h := {| evd_n_holder := h; evd_n_kind := k; evd_n_seq := s |}.
Definition evd_c_hold i p sub links := Some {| evd_h_item := i; evd_h_parent := p; evd_h_sub := sub; evd_h_links := links |}.

(* ---------------------------------------------------------------------------------------------- *)
(* A. forest of the replay `evd_path_after_sibling_insert`:
      0 = root array "a" : [ "y"(item 6) "x"(item 5) nested(item 1) ]
      1 = nested map, held by item 1 of type 0
      2 = inner array, held by item 2 under key "in"(=9) of type 1 *)
Definition evd_c_fA : evd_forest :=
  [ evd_c_node EvdArray [(6, (1, [60])); (5, (1, [50])); (1, (1, [10]))] None;
    evd_c_node EvdMap [] (evd_c_hold 1 (Some 0) None []);
    evd_c_node EvdArray [(3, (1, [7]))] (evd_c_hold 2 (Some 1) (Some 9) []) ].

Example evd_c_fA_ok : evd_forest_okb evd_c_fA && evd_holders_distinctb evd_c_fA && evd_no_linksb evd_c_fA
                      && evd_parents_knownb evd_c_fA = true.
Proof. vm_compute. reflexivity. Qed.

(* the transaction of the replay: inner.push(7); nested.insert("k"=8, 1); a.insert(0,"x"); a.insert(0,"y") *)
Definition evd_c_txA : list evd_effect :=
  [ EvdInteg 2 None 3 false []; EvdInteg 1 (Some 8) 4 false []; EvdInteg 0 None 5 false []; EvdInteg 0 None 6 false [] ].
Example evd_c_txA_ok : forallb (evd_eff_okb evd_c_fA) evd_c_txA = true.
Proof. vm_compute. reflexivity. Qed.

(* observers: deep on 0 and on 1, shallow on 2. What the replay prints:
     deep(nested) n=2 :: Map path=[]  | Array path=[K(in)]
     deep(a) n=3 :: Array path=[] | Map path=[I(2)] | Array path=[I(2),K(in)]            *)
Example evd_c_txA_calls :
  option_map (fun r => evd_triples (fst (fst r))) (evd_commit evd_c_fA [2] [0; 1] evd_c_txA [] []) =
  Some [ (false, 2, 2, []);
         (true, 1, 1, []); (true, 1, 2, [EvdKey 9]);
         (true, 0, 0, []); (true, 0, 1, [EvdIndex 2]); (true, 0, 2, [EvdIndex 2; EvdKey 9]) ].
Proof. vm_compute. reflexivity. Qed.
(* changed_parent_types: one entry per event and chain member (the code pushes without deduplication) *)
Example evd_c_txA_cpt :
  option_map (fun r => snd (fst r)) (evd_commit evd_c_fA [2] [0; 1] evd_c_txA [] []) = Some [2; 1; 0; 1; 0; 0].
Proof. vm_compute. reflexivity. Qed.

(* ---------------------------------------------------------------------------------------------- *)
(* B. created in this transaction: nothing for the new type, the parent fires (replay evd_created_type_silent) *)
Definition evd_c_fB : evd_forest :=
  [ evd_c_node EvdArray [(1, (1, [10]))] None; evd_c_node EvdMap [] (evd_c_hold 1 (Some 0) None []) ].
Definition evd_c_txB : list evd_effect := [ EvdInteg 0 None 1 false []; EvdInteg 1 (Some 8) 2 false [] ].
Example evd_c_txB_calls :
  option_map (fun r => evd_triples (fst (fst r))) (evd_commit evd_c_fB [0; 1] [0; 1] evd_c_txB [] []) =
  Some [ (false, 0, 0, []); (true, 0, 0, []) ].
Proof. vm_compute. reflexivity. Qed.
(* the hypothesis of evd_created_or_deleted_silent holds here for type 1 *)
Example evd_c_txB_keys : evd_keys (evd_run evd_c_fB evd_c_txB (evd_st0 [])) = [0].
Proof. vm_compute. reflexivity. Qed.

(* C. replay evd_deleted_type_silent: n1 (type 1) touched then deleted; n2 (type 2) deleted then touched.
      The deletion of a holder is followed by the recursive deletion of the live children. *)
Definition evd_c_fC : evd_forest :=
  [ evd_c_node EvdArray [(1, (1, [10])); (2, (1, [20]))] None;
    evd_c_node EvdMap [] (evd_c_hold 1 (Some 0) None []);
    evd_c_node EvdMap [] (evd_c_hold 2 (Some 0) None []) ].
Definition evd_c_txC : list evd_effect :=
  [ EvdInteg 1 (Some 8) 3 false [];                                  (* n1.insert("k") *)
    EvdDel (Some 0) None 1 (Some 1) []; EvdDel (Some 1) (Some 8) 3 None [];   (* a.remove(0): holder, then its entry *)
    EvdDel (Some 0) None 2 (Some 2) [];                              (* a.remove(0): n2's holder *)
    EvdInteg 2 (Some 8) 4 false []; EvdDel (Some 2) (Some 8) 4 None [] ].   (* n2.insert("k"): integrated, needs_deletion *)
Example evd_c_txC_ok : forallb (evd_eff_okb evd_c_fC) evd_c_txC = true.
Proof. vm_compute. reflexivity. Qed.
Example evd_c_txC_calls :
  option_map (fun r => evd_triples (fst (fst r))) (evd_commit evd_c_fC [0; 1; 2] [0] evd_c_txC [] []) =
  Some [ (false, 0, 0, []); (true, 0, 0, []) ].
Proof. vm_compute. reflexivity. Qed.
(* type 1 was a key of `changed` after the first effect and left it when its holder was deleted *)
Example evd_c_txC_mid : evd_keys (evd_run evd_c_fC (firstn 1 evd_c_txC) (evd_st0 [])) = [1]
                        /\ evd_keys (evd_run evd_c_fC (firstn 2 evd_c_txC) (evd_st0 [])) = [0].
Proof. vm_compute. split; reflexivity. Qed.

(* D. touched but unchanged (replay evd_noop_event, evd_losing_map_entry): the witness of
      evd_no_event_when_unchanged_refuted, and a remote map entry integrated to the left of the current one
      (needs_deletion deletes it at once): the chain is [loser (added, deleted by the txn); winner] *)
Definition evd_c_fD : evd_forest := [ evd_c_node EvdArray [(1, (1, [7]))] None ].
Definition evd_c_txD : list evd_effect := [ EvdInteg 0 None 1 false []; EvdDel (Some 0) None 1 None [] ].
Example evd_c_txD_fires :
  option_map (fun r => evd_triples (fst (fst r))) (evd_commit evd_c_fD [0] [0] evd_c_txD [] []) =
  Some [ (false, 0, 0, []); (true, 0, 0, []) ]
  /\ change_set (evd_items_of evd_c_fD (evd_run evd_c_fD evd_c_txD (evd_st0 [])) 0) = []
  /\ existsb evd_cs_emits (evd_items_of evd_c_fD (evd_run evd_c_fD evd_c_txD (evd_st0 [])) 0) = false.
Proof. vm_compute. repeat split; reflexivity. Qed.
Example evd_c_losing_entry :
  let chain := [ {| k_val := 1; k_deleted := true; k_added := true; k_deld := true |};
                 {| k_val := 2; k_deleted := false; k_added := false; k_deld := false |} ] in
  keys_change chain = None /\ evd_key_noopb chain = true /\ kwf chain = true.
Proof. vm_compute. repeat split; reflexivity. Qed.
(* and the content-changed direction is not vacuous: one live insertion *)
Example evd_c_changed_fires :
  let st := evd_run evd_c_fD [EvdInteg 0 None 1 false []] (evd_st0 []) in
  seq_before (evd_items_of evd_c_fD st 0) <> seq_after (evd_items_of evd_c_fD st 0)
  /\ evd_trigger evd_c_fD st 0 = true /\ evd_keys st = [0].
Proof. vm_compute. repeat split; try reflexivity. discriminate. Qed.

(* E. quotation (replay evd_deep_duplicate_through_link): root map 0, nested map 1 under key "a", weak link 2 under
      key "l" quoting the holder of 1. A change in 1 reaches 0 twice. Pinned tree: the event is delivered twice to the
      deep observer of 0, both paths [K(a)]. Repaired tree: once. changed_parent_types keeps the repetition in both. *)
Definition evd_c_fE : evd_forest :=
  [ evd_c_node EvdMap [] None;
    evd_c_node EvdMap [] (evd_c_hold 10 (Some 0) (Some 1) [2]);
    evd_c_node EvdWeak [] (evd_c_hold 11 (Some 0) (Some 2) []) ].
Definition evd_c_stE : evd_st := evd_run evd_c_fE [EvdInteg 1 (Some 5) 20 false []] (evd_st0 []).
Example evd_c_link_duplicate_pre_dedup :
  option_map (fun r => evd_triples (fst r)) (evd_call_observers_pre_dedup evd_c_fE [1] [0; 2] evd_c_stE) =
  Some [ (false, 1, 1, []);
         (true, 2, 1, [EvdKey 1]);                       (* the link's deep observer: path from the ROOT, not from the link *)
         (true, 0, 1, [EvdKey 1]); (true, 0, 1, [EvdKey 1]) ].   (* the same event twice *)
Proof. vm_compute. reflexivity. Qed.
Example evd_c_link_once :
  option_map (fun r => (evd_triples (fst (fst r)), snd (fst r)))
             (evd_commit evd_c_fE [1] [0; 2] [EvdInteg 1 (Some 5) 20 false []] [] []) =
  Some ([ (false, 1, 1, []); (true, 2, 1, [EvdKey 1]); (true, 0, 1, [EvdKey 1]) ],
        [1; 2; 0; 0]).
Proof. vm_compute. reflexivity. Qed.
(* two links quoting each other's holders: the visited set stops the walk, the fuel is enough; the start type is
   walked twice (changed_parent_types), its deep observer gets the event once *)
Definition evd_c_fE2 : evd_forest :=
  [ evd_c_node EvdMap [] None;
    evd_c_node EvdWeak [] (evd_c_hold 10 (Some 0) (Some 1) [2]);
    evd_c_node EvdWeak [] (evd_c_hold 11 (Some 0) (Some 2) [1]) ].
Example evd_c_link_cycle :
  option_map (fun r => (evd_triples (fst (fst r)), snd (fst r)))
             (evd_commit evd_c_fE2 [] [0; 1] [EvdInteg 1 None 20 false []] [] []) =
  Some ([ (true, 1, 1, []); (true, 0, 1, [EvdKey 1]) ], [1; 2; 1; 0; 0; 0]).
Proof. vm_compute. reflexivity. Qed.

(* F. cleanup_fmt (replay evd_cleanup_after_observers): the remote format item 30 is integrated into text 0, the
      observer is called, then cleanup deletes the redundant format item 31; the delete set and `changed` grow after
      the calls, nobody is called again *)
Definition evd_c_fF : evd_forest := [ evd_c_node EvdText [(31, (0, [])); (30, (0, [])); (1, (3, [1; 2; 3]))] None ].
Example evd_c_cleanup :
  match evd_commit evd_c_fF [0] [] [EvdInteg 0 None 30 false []] [EvdDel (Some 0) None 31 None []] [] with
  | Some (calls, _, st') =>
      evd_triples calls = [(false, 0, 0, [])]
      /\ evd_dset (evd_run evd_c_fF [EvdInteg 0 None 30 false []] (evd_st0 [])) = []     (* what the observer can see *)
      /\ evd_dset st' = [31]                                                             (* what after_transaction sees *)
  | None => False
  end.
Proof. vm_compute. repeat split; reflexivity. Qed.

(* G. failure values are reachable only outside the hypotheses: a holder whose parent is not a branch makes
      Branch::path panic (unwrap), reported as None *)
Definition evd_c_fG : evd_forest :=
  [ evd_c_node EvdMap [] None; evd_c_node EvdMap [] (evd_c_hold 1 None None []) ].
Example evd_c_unwrap : evd_parents_knownb evd_c_fG = false /\ evd_path evd_c_fG (evd_st0 []) 0 1 = None.
Proof. vm_compute. split; reflexivity. Qed.
(* types without an event kind: in `changed`, no event, no call *)
Example evd_c_undefined :
  option_map (fun r => fst (fst r))
    (evd_commit [evd_c_node EvdUndefined [] None] [0] [0] [EvdInteg 0 None 1 false []] [] []) = Some [].
Proof. vm_compute. reflexivity. Qed.
(* the sort is stable and nothing more: two events at the same depth come in event_cache order, which is the
   iteration order of `changed` *)
Example evd_c_order_dependent :
  let st := evd_st0 [] in
  let f := [ evd_c_node EvdMap [] None; evd_c_node EvdMap [] (evd_c_hold 1 (Some 0) (Some 1) []);
             evd_c_node EvdMap [] (evd_c_hold 2 (Some 0) (Some 2) []) ] in
  option_map (fun r => evd_triples (fst r)) (evd_call_observers_with f [] [0] st [(1, [None]); (2, [None])] (fun x => x))
    = Some [(true, 0, 1, [EvdKey 1]); (true, 0, 2, [EvdKey 2])] /\
  option_map (fun r => evd_triples (fst r)) (evd_call_observers_with f [] [0] st [(2, [None]); (1, [None])] (fun x => x))
    = Some [(true, 0, 2, [EvdKey 2]); (true, 0, 1, [EvdKey 1])].
Proof. vm_compute. split; reflexivity. Qed.

(* ---------------------------------------------------------------------------------------------- *)
(* bounded sweeps (tests of the statements, not results) *)

Fixpoint evd_c_lists {A} (n : nat) (al : list A) : list (list A) :=
  match n with O => [[]] | S n' => [] :: flat_map (fun l => map (fun a => a :: l) al) (evd_c_lists n' al) end.
Fixpoint evd_c_sublists {A} (l : list A) : list (list A) :=
  match l with [] => [[]] | x :: r => let s := evd_c_sublists r in s ++ map (cons x) s end.

(* theorem 2(a) on all transactions of length <= 2 (3 takes 20 s) over six forests of three types *)
Definition evd_c_spec_changed f effs del0 t : bool :=
  existsb (fun i => match nth_error effs i with
                    | None => false
                    | Some e => let st := evd_run f (firstn i effs) (evd_st0 del0) in
                                evd_effective st e && evd_mem t (evd_targets e) && evd_trigger f (evd_mid st e) t
                    end) (seq 0 (length effs))
  && evd_holder_live f (evd_run f effs (evd_st0 del0)) t.
Definition evd_c_forests3 : list evd_forest :=
  flat_map (fun n1 => map (fun n2 => [evd_c_node EvdMap [] None; n1; n2])
      [evd_c_node EvdMap [] None; evd_c_node EvdMap [] (evd_c_hold 102 (Some 0) None []);
       evd_c_node EvdMap [] (evd_c_hold 102 (Some 1) None []); evd_c_node EvdMap [] (evd_c_hold 102 None None [])])
   [evd_c_node EvdMap [] None; evd_c_node EvdMap [] (evd_c_hold 101 (Some 0) None [])].
Definition evd_c_effects (f : evd_forest) : list evd_effect :=
  filter (evd_eff_okb f)
  (flat_map (fun p => flat_map (fun i => [EvdInteg p None i false []; EvdInteg p None i true []]) [101; 102; 1]) [0; 1; 2] ++
   flat_map (fun p => flat_map (fun i => map (fun inn => EvdDel p None i inn []) [None; Some 0; Some 1; Some 2]) [101; 102; 1])
            [None; Some 0; Some 1; Some 2]).
Example evd_c_sweep_changed :
  forallb (fun f => forallb (fun effs => forallb (fun del0 =>
     forallb (fun t => Bool.eqb (evd_mem t (evd_keys (evd_run f effs (evd_st0 del0)))) (evd_c_spec_changed f effs del0 t)) [0; 1; 2])
     [[]; [101]; [102]; [101; 102]]) (evd_c_lists 2 (evd_c_effects f))) evd_c_forests3 = true.
Proof. vm_compute. reflexivity. Qed.

(* ---------------------------------------------------------------------------------------------- *)
(* the driver of the executable tie, worked example. Document:
     root map "m"            -> type 0
       m["a"] = array        -> type 1, holder item (1,0) interned 10, key "a" interned 1
                  sequence of the array: "xy" (item 30, len 2, DELETED), 5 (item 31, len 1), a nested map (item 12)
       m["l"] = link to m["a"] -> type 2 (WeakLink), holder item interned 11, key "l" interned 2;
                  store.linked_by[holder of type 1] = {type 2}
       array[1] = map        -> type 3, holder item 12 in the sequence of type 1
   Transaction: one push into the array and one insert into the nested map: events created for type 1, then type 3.
   Deep observers on 0, 1 and 2. *)
Definition evd_c_drv_types : list evd_drv_type :=
  [ (None,   None,   0,  1, [], []);
    (Some 0, Some 1, 10, 0, [(30, 2, true); (31, 1, false); (12, 1, false); (32, 1, false)], [2]);
    (Some 0, Some 2, 11, 7, [], []);
    (Some 1, None,   12, 1, [], []) ].
Example evd_c_drv :
  evd_deep_calls evd_c_drv_types [1; 3] [0; 1; 2] =
  Some [ (0, [ (1, [(true, 1)]);  (3, [(true, 1); (false, 1)]) ]);     (* m: the array at ["a"], the map at ["a", 1] - once each *)
         (1, [ (1, []);           (3, [(false, 1)]) ]);                (* the array: itself, the map at [1] (the deleted "xy" does not count) *)
         (2, [ (1, [(true, 1)]);  (3, [(true, 1); (false, 1)]) ]) ].   (* the link: both events, paths from the ROOT *)
Proof. vm_compute. reflexivity. Qed.
(* the pinned tree delivers both events twice to the root *)
Example evd_c_drv_pre_dedup :
  evd_deep_calls_pre_dedup evd_c_drv_types [1; 3] [0; 1; 2] =
  Some [ (0, [ (1, [(true, 1)]); (1, [(true, 1)]); (3, [(true, 1); (false, 1)]); (3, [(true, 1); (false, 1)]) ]);
         (1, [ (1, []);           (3, [(false, 1)]) ]);
         (2, [ (1, [(true, 1)]);  (3, [(true, 1); (false, 1)]) ]) ].
Proof. vm_compute. reflexivity. Qed.
Example evd_c_drv_cpt : evd_changed_parent_types evd_c_drv_types [1; 3] = Some [1; 2; 0; 0; 3; 1; 2; 0; 0].
Proof. vm_compute. reflexivity. Qed.
(* inconsistent inputs are rejected: child before parent; an event for a type without event kind; a repeated event *)
Example evd_c_drv_reject :
  evd_deep_calls [ (Some 1, None, 12, 1, [], []); (None, None, 0, 0, [(12, 1, false)], []) ] [0] [1] = None
  /\ evd_deep_calls [ (None, None, 0, 15, [], []) ] [0] [0] = None
  /\ evd_deep_calls evd_c_drv_types [1; 1] [0] = None.
Proof. vm_compute. repeat split; reflexivity. Qed.
