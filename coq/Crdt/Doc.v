(* L1: the CRDT at unit granularity (one item per clock tick).
   - expansion of decoded blocks into unit operations
   - YATA integration transcribed from block.rs Item::resolve_conflict / TransactionMut::integrate_item
   - deletion (TransactionMut::delete, apply_delete, needs_deletion)
   - dependency-driven delivery (Update::integrate / missing_dependency at unit level), stash = what is not ready
   - canonical dump *)
From Coq Require Import List NArith ZArith Bool.
From YV Require Import Gen.Consts Lib.Bytes Codec.Varint Codec.AnyCodec Codec.IdSetCodec Codec.UpdateV1 Ids.Ranges.
Import ListNotations.
Open Scope N_scope.

(* ---------- unit operations ---------- *)
Inductive ucontent :=
| UDeleted
| UString (u : N)                 (* one UTF-16 code unit *)
| UJson (s : list N)
| UBinary (b : list N)
| UEmbed (j : list N)
| UFormat (k j : list N)
| UType (t : tyref)
| UAny (a : any)
| UDoc (g : list N) (o : any).

Record op := mkop { oid : id; oorigin : option id; ororigin : option id; oparent : parent;
                    osub : option (list N); ocont : ucontent }.
Inductive xop := XItem (o : op) | XGC (i : id).
Definition xid (x : xop) : id := match x with XItem o => oid o | XGC i => i end.

(* UTF-8 bytes -> UTF-16 code units (valid UTF-8 assumed; anything else decodes to some unit list of
   the length [utf16_len] computes) *)
Fixpoint utf16_units_fuel (fuel : nat) (s : list N) : list N :=
  match fuel with
  | O => []
  | S f =>
    match s with
    | [] => []
    | b0 :: r =>
      if b0 <? 128 then b0 :: utf16_units_fuel f r
      else if b0 <? 192 then utf16_units_fuel f r                       (* stray continuation byte: no unit *)
      else if b0 <? 224 then
        match r with
        | b1 :: r' => ((b0 mod 32) * 64 + b1 mod 64) :: utf16_units_fuel f r'
        | [] => [b0 mod 32]
        end
      else if b0 <? 240 then
        match r with
        | b1 :: b2 :: r' => ((b0 mod 16) * 4096 + (b1 mod 64) * 64 + b2 mod 64) :: utf16_units_fuel f r'
        | _ => [b0 mod 16]
        end
      else
        match r with
        | b1 :: b2 :: b3 :: r' =>
          let cp := (b0 mod 8) * 262144 + (b1 mod 64) * 4096 + (b2 mod 64) * 64 + b3 mod 64 in
          let v := cp - 65536 in
          (55296 + v / 1024) :: (56320 + v mod 1024) :: utf16_units_fuel f r'
        | _ => [0; 0]
        end
    end
  end.
Definition utf16_units (s : list N) : list N := utf16_units_fuel (length s) s.

Definition content_units (c : bcontent) : list ucontent :=
  match c with
  | BDeleted n => repeat UDeleted (N.to_nat n)
  | BJson l => map UJson l
  | BBinary b => [UBinary b]
  | BString s => match s with [b] => [UString b] | _ => map UString (utf16_units s) end
  | BEmbed j => [UEmbed j]
  | BFormat k j => [UFormat k j]
  | BType t => [UType t]
  | BAny l => map UAny l
  | BDoc g o => [UDoc g o]
  end.

Fixpoint units_of_item (c : N) (k : N) (o ro : option id) (p : parent) (ps : option (list N)) (us : list ucontent) : list xop :=
  match us with
  | [] => []
  | u :: r =>
    XItem (mkop (mkid c k) o ro p ps u) :: units_of_item c (k + 1) (Some (mkid c k)) ro p ps r
  end.

Fixpoint gc_units (c k : N) (n : nat) : list xop :=
  match n with O => [] | S m => XGC (mkid c k) :: gc_units c (k + 1) m end.

Definition units_of_block (b : block) : list xop :=
  match b with
  | BItem i o ro p ps c => units_of_item (cl i) (ck i) o ro p ps (content_units c)
  | BGC i n => gc_units (cl i) (ck i) (N.to_nat n)
  | BSkip _ _ => []
  end.

Definition units_of_update (u : update) : list xop :=
  flat_map (fun cb => flat_map units_of_block (snd cb)) (u_blocks u).

(* ---------- document state ---------- *)
Definition bytes_eqb (a b : list N) : bool :=
  (fix go (a b : list N) := match a, b with
     | [], [] => true | x :: a', y :: b' => (x =? y) && go a' b' | _, _ => false end) a b.
Definition okey_eqb (a b : option (list N)) : bool :=
  match a, b with None, None => true | Some x, Some y => bytes_eqb x y | _, _ => false end.
Definition parent_eqb (a b : parent) : bool :=
  match a, b with
  | PNamed x, PNamed y => bytes_eqb x y
  | PId x, PId y => id_eqb x y
  | PUnknown, PUnknown => true
  | _, _ => false
  end.
Definition seqkey : Type := (parent * option (list N))%type.
Definition seqkey_eqb (a b : seqkey) : bool := parent_eqb (fst a) (fst b) && okey_eqb (snd a) (snd b).

Record ditem := mkditem { d_op : op; d_del : bool }.
Definition did (x : ditem) : id := oid (d_op x).

Record doc := mkdoc { d_lists : list (seqkey * list ditem); d_gc : list id }.
Definition empty_doc : doc := mkdoc [] [].

Definition mem_id (i : id) (l : list id) : bool := existsb (id_eqb i) l.

Fixpoint find_in_list (i : id) (l : list ditem) : option ditem :=
  match l with
  | [] => None
  | x :: r => if id_eqb (did x) i then Some x else find_in_list i r
  end.
Fixpoint find_item (i : id) (ls : list (seqkey * list ditem)) : option (seqkey * ditem) :=
  match ls with
  | [] => None
  | (k, l) :: r => match find_in_list i l with Some x => Some (k, x) | None => find_item i r end
  end.
Definition integrated (d : doc) (i : id) : bool :=
  match find_item i (d_lists d) with Some _ => true | None => mem_id i (d_gc d) end.

Fixpoint get_list (k : seqkey) (ls : list (seqkey * list ditem)) : list ditem :=
  match ls with
  | [] => []
  | (k', l) :: r => if seqkey_eqb k' k then l else get_list k r
  end.
Fixpoint set_list (k : seqkey) (l : list ditem) (ls : list (seqkey * list ditem)) : list (seqkey * list ditem) :=
  match ls with
  | [] => [(k, l)]
  | (k', l') :: r => if seqkey_eqb k' k then (k, l) :: r else (k', l') :: set_list k l r
  end.

(* ---------- YATA: Item::resolve_conflict at unit level ----------
   [rest] is the list to the right of the resolved left neighbour; the result is the number of
   items to step over.  conflicting_items / items_before_origin are id lists. *)
Definition origin_of (i : id) (ls : list (seqkey * list ditem)) : option id := Some i.

Fixpoint yata_scan (x : op) (rest : list ditem) (k lft : nat) (conf before : list id) : nat :=
  match rest with
  | [] => lft
  | o :: rest' =>
    if oid_eqb (Some (did o)) (ororigin x) then lft else
    let before' := did o :: before in
    let conf' := did o :: conf in
    if oid_eqb (oorigin x) (oorigin (d_op o)) then
      if cl (did o) <? cl (oid x) then yata_scan x rest' (S k) (S k) [] before'
      else if oid_eqb (ororigin x) (ororigin (d_op o)) then lft
      else yata_scan x rest' (S k) lft conf' before'
    else
      match oorigin (d_op o) with
      | Some oo =>
        if mem_id oo before' then
          if negb (mem_id oo conf') then yata_scan x rest' (S k) (S k) [] before'
          else yata_scan x rest' (S k) lft conf' before'
        else lft
      | None => lft
      end
  end.

Fixpoint split_after (i : id) (l : list ditem) : option (list ditem * list ditem) :=
  match l with
  | [] => None
  | y :: r => if id_eqb (did y) i then Some ([y], r)
              else match split_after i r with Some (a, b) => Some (y :: a, b) | None => None end
  end.

(* insert x into its list: left = the item whose id is x's origin (if it is in this list) *)
Definition yata_insert (l : list ditem) (x : ditem) : list ditem :=
  let '(pre, suf) := match oorigin (d_op x) with
                     | None => ([], l)
                     | Some o => match split_after o l with Some p => p | None => ([], l) end
                     end in
  let n := yata_scan (d_op x) suf 0 0 [] [] in
  pre ++ firstn n suf ++ x :: skipn n suf.

(* ---------- deletion ---------- *)
Fixpoint mark_deleted (i : id) (l : list ditem) : list ditem :=
  match l with
  | [] => []
  | x :: r => if id_eqb (did x) i then mkditem (d_op x) true :: r else x :: mark_deleted i r
  end.

(* ids of nested types whose content must be deleted when [x] is deleted *)
Definition is_type (x : ditem) : bool := match ocont (d_op x) with UType _ => true | _ => false end.

(* delete everything below the given parents (worklist, fuel = number of lists + 1 per level) *)
Fixpoint delete_children (fuel : nat) (parents : list id) (ls : list (seqkey * list ditem)) : list (seqkey * list ditem) :=
  match fuel with
  | O => ls
  | S f =>
    match parents with
    | [] => ls
    | _ =>
      let hit (k : seqkey) := match fst k with PId p => mem_id p parents | _ => false end in
      let newly := flat_map (fun kl => if hit (fst kl)
                                       then map did (filter (fun x => negb (d_del x) && is_type x) (snd kl)) else []) ls in
      let ls' := map (fun kl => if hit (fst kl) then (fst kl, map (fun x => mkditem (d_op x) true) (snd kl)) else kl) ls in
      delete_children f newly ls'
    end
  end.

Definition delete_item (i : id) (d : doc) : doc :=
  match find_item i (d_lists d) with
  | None => d
  | Some (k, x) =>
    if d_del x then d else
    let ls := set_list k (mark_deleted i (get_list k (d_lists d))) (d_lists d) in
    let ls' := if is_type x then delete_children (S (length ls)) [i] ls else ls in
    mkdoc ls' (d_gc d)
  end.

(* ---------- integration of one unit ---------- *)
Definition parent_deleted (p : parent) (d : doc) : bool :=
  match p with
  | PId pid => match find_item pid (d_lists d) with Some (_, x) => d_del x | None => false end
  | _ => false
  end.

(* resolved (parent, sub) of a unit, following missing_dependency / integrate_item; None = no parent (-> GC) *)
Definition resolve_parent (o : op) (d : doc) : option seqkey :=
  let left := match oorigin o with Some i => find_item i (d_lists d) | None => None end in
  let right := match ororigin o with Some i => find_item i (d_lists d) | None => None end in
  let sub_of (dflt : option (list N)) :=
      match left with
      | Some (k, _) => match snd k with Some s => Some s | None =>
                         match right with Some (k2, _) => match snd k2 with Some s => Some s | None => dflt end | None => dflt end end
      | None => match right with Some (k2, _) => match snd k2 with Some s => Some s | None => dflt end | None => dflt end
      end in
  match oparent o with
  | PNamed n => Some (PNamed n, sub_of (osub o))
  | PId pid =>
    match find_item pid (d_lists d) with
    | Some (_, px) => if is_type px then Some (PId pid, sub_of (osub o)) else None
    | None => None
    end
  | PUnknown =>
    match left with
    | Some (k, _) => Some (fst k, sub_of (snd k))
    | None => match right with Some (k, _) => Some (fst k, sub_of (snd k)) | None => None end
    end
  end.

Definition integrate_op (d : doc) (o : op) : doc :=
  match resolve_parent o d with
  | None => mkdoc (d_lists d) (oid o :: d_gc d)
  | Some key =>
    let o' := mkop (oid o) (oorigin o) (ororigin o) (fst key) (snd key) (ocont o) in
    let l := get_list key (d_lists d) in
    let x := mkditem o' (match ocont o with UDeleted => true | _ => false end) in
    let l' := yata_insert l x in
    let d1 := mkdoc (set_list key l' (d_lists d)) (d_gc d) in
    (* map entry bookkeeping: the right-most entry wins *)
    let d2 :=
      match snd key with
      | None => d1
      | Some _ =>
        match split_after (oid o) l' with
        | Some (upto, []) =>
            (* x is right-most: delete its left neighbour *)
            match rev upto with
            | _ :: lft :: _ => delete_item (did lft) d1
            | _ => d1
            end
        | _ => delete_item (oid o) d1      (* not right-most: deleted at integration *)
        end
      end in
    if parent_deleted (fst key) d2 then delete_item (oid o) d2 else d2
  end.

Definition integrate_x (d : doc) (x : xop) : doc :=
  match x with
  | XItem o => integrate_op d o
  | XGC i => mkdoc (d_lists d) (i :: d_gc d)
  end.

(* ---------- explicit dependencies (Update::missing_dependency) ---------- *)
Definition scope_dep (s : scope) : list id := match s with SRelative i => [i] | _ => [] end.
Definition deps (x : xop) : list id :=
  match x with
  | XGC _ => []
  | XItem o =>
    (match oorigin o with Some i => [i] | None => [] end) ++
    (match ororigin o with Some i => [i] | None => [] end) ++
    (match oparent o with PId i => [i] | _ => [] end) ++
    (match ocont o with UType (TWeak w) => scope_dep (wl_start w) ++ scope_dep (wl_end w) | _ => [] end)
  end.
Definition ready (d : doc) (x : xop) : bool := forallb (integrated d) (deps x).

(* one pass over the waiting ops in order: integrate what is ready, keep the rest (in order) *)
Fixpoint deliver_pass (d : doc) (waiting : list xop) (kept : list xop) (progress : bool) : doc * list xop * bool :=
  match waiting with
  | [] => (d, rev kept, progress)
  | x :: r =>
    if integrated d (xid x) then deliver_pass d r kept progress              (* duplicate: trimmed *)
    else if ready d x then deliver_pass (integrate_x d x) r kept true
    else deliver_pass d r (x :: kept) progress
  end.

Fixpoint deliver_loop (fuel : nat) (d : doc) (waiting : list xop) : doc * list xop :=
  match fuel with
  | O => (d, waiting)
  | S f =>
    let '(d', w', progress) := deliver_pass d waiting [] false in
    if progress then deliver_loop f d' w' else (d', w')
  end.
Definition deliver (d : doc) (waiting : list xop) : doc * list xop :=
  deliver_loop (S (length waiting)) d waiting.

(* apply a delete set to what is integrated; what is not integrated stays pending *)
Definition ds_points (s : idset) : list id :=
  flat_map (fun cr => flat_map (fun e => map (fun k => mkid (fst cr) (e_start e + N.of_nat k))
                                              (seq 0 (N.to_nat (e_end e - e_start e)))) (snd cr)) s.
Definition apply_ds (d : doc) (s : idset) : doc :=
  fold_left (fun d i => delete_item i d) (ds_points s) d.

Definition pending_ds (d : doc) (s : idset) : list id :=
  filter (fun i => negb (integrated d i)) (ds_points s).

(* ---------- a replica of the model: everything delivered so far ---------- *)
Definition xlt (a b : xop) : bool :=
  (cl (xid a) <? cl (xid b)) || ((cl (xid a) =? cl (xid b)) && (ck (xid a) <? ck (xid b))).
Fixpoint insert_sorted (x : xop) (l : list xop) : list xop :=
  match l with
  | [] => [x]
  | y :: r => if id_eqb (xid x) (xid y) then l          (* first delivered form of an id is kept *)
              else if xlt x y then x :: l else y :: insert_sorted x r
  end.

Record replica := mkrep { r_pool : list xop (* sorted by id, no duplicates *); r_ds : idset }.
Definition empty_replica : replica := mkrep [] [].
Definition replica_apply (r : replica) (u : update) : replica :=
  mkrep (fold_left (fun l x => insert_sorted x l) (units_of_update u) (r_pool r))
        (im_merge_with ueq umerge (r_ds r) (u_ds u)).

(* canonical rendering of a set of operations: integrate in the canonical order, then delete *)
Definition render (pool : list xop) (ds : idset) : doc * list xop :=
  let '(d, stash) := deliver empty_doc pool in (apply_ds d ds, stash).
Definition replica_state (r : replica) : doc * list xop := render (r_pool r) (r_ds r).

(* restrict a pool to the ids an implementation replica has integrated *)
Definition restrict_pool (pool : list xop) (s : idset) : list xop :=
  filter (fun x => match im_contains s (cl (xid x)) (ck (xid x)) with Some true => true | _ => false end) pool.

(* ---------- observations ---------- *)
Definition visible (l : list ditem) : list ditem := filter (fun x => negb (d_del x)) l.
Definition countable (x : ditem) : bool := match ocont (d_op x) with UDeleted | UFormat _ _ => false | _ => true end.
Definition seq_len (l : list ditem) : N := N.of_nat (length (filter countable (visible l))).
Definition map_value (l : list ditem) : option ditem :=
  match rev l with x :: _ => if d_del x then None else Some x | [] => None end.
Definition integrated_ids (d : doc) : list id :=
  flat_map (fun kl => map did (snd kl)) (d_lists d) ++ d_gc d.
