(* Read paths over XML trees (yrs/src/types/xml.rs, branch.rs, block_iter.rs), transcribed as functions on a
   zipper over a rose tree of ITEMS (tombstones included).

   What a node is.  Every child of an XML element / fragment is an item whose content is
   ItemContent::Type(branch); the model identifies the item with the branch it carries:
     xw_id     the id of the item               (a root-level fragment has no item: its id / deleted flag are
                                                  never read; the encoding uses mkid 0 0 / false)
     xw_del    Item::is_deleted
     xw_kind   branch.type_ref: XmlElement(tag) | XmlText | XmlFragment  (the three XmlOut::try_from accepts)
     xw_blen   branch.block_len   (cached; what Branch::len returns)
     xw_clen   branch.content_len (cached; what BlockIter::slice consults)
     xw_kids   the items from branch.start following `right`, tombstones included
   Every item of such a list has len = 1, is countable, has no parent_sub.  The string chunks below an
   XmlText are NOT children in this sense (no XML read path looks at them: try_descend only enters
   XmlElement / XmlFragment, and XmlTextRef does not implement the XmlFragment trait): text nodes have
   no kids in the encoding.  Documents are skip_gc documents: a tombstone keeps its Type content (with gc on,
   a tombstone's content becomes ContentDeleted; every path below tests is_deleted / is_countable before it
   looks at the content, so nothing changes, but it is not modelled).

   Pointers.  A cursor = a position in ONE tree (focus + the frames above it).  It stands for an ItemPtr
   (the item of the focus) and for the BranchPtr of the focus alike.
     xw_start c   branch.start         first item of the child list of the focus
     xw_right c   item.right           xw_left c   item.left
     xw_up c      item.parent (as_branch)          xw_item c   branch.item (None for the top of the tree)
     xw_same a b  pointer equality of two positions of one tree = equality of the paths from the top
   Loops carry fuel; a result of None at the outer option = out of fuel (excluded by XmlWalkProofs.v).   *)
From Coq Require Import List NArith Bool Arith Lia.
From YV Require Import Lib.Bytes Codec.UpdateV1.
Import ListNotations.
Local Open Scope nat_scope.

(* ---------- the tree ---------- *)
Inductive xw_kind := xw_k_elem (tag : list N) | xw_k_text | xw_k_frag.

Inductive xw_node :=
  xw_mk (i : id) (del : bool) (k : xw_kind) (blen clen : nat) (kids : list xw_node).

Definition xw_id (n : xw_node) : id := match n with xw_mk i _ _ _ _ _ => i end.
Definition xw_del (n : xw_node) : bool := match n with xw_mk _ d _ _ _ _ => d end.
Definition xw_kind_of (n : xw_node) : xw_kind := match n with xw_mk _ _ k _ _ _ => k end.
Definition xw_blen (n : xw_node) : nat := match n with xw_mk _ _ _ b _ _ => b end.
Definition xw_clen (n : xw_node) : nat := match n with xw_mk _ _ _ _ c _ => c end.
Definition xw_kids (n : xw_node) : list xw_node := match n with xw_mk _ _ _ _ _ ks => ks end.
Definition xw_live (n : xw_node) : bool := negb (xw_del n).

(* TypeRef::XmlElement(_) | TypeRef::XmlFragment: what TreeWalker::try_descend enters *)
Definition xw_container (k : xw_kind) : bool :=
  match k with xw_k_elem _ => true | xw_k_frag => true | xw_k_text => false end.

Fixpoint xw_size (n : xw_node) : nat :=
  match n with
  | xw_mk _ _ _ _ _ ks => S ((fix go (l : list xw_node) : nat := match l with [] => 0 | x :: r => xw_size x + go r end) ks)
  end.
Fixpoint xw_size_list (l : list xw_node) : nat :=
  match l with [] => 0 | x :: r => xw_size x + xw_size_list r end.

(* ---------- the zipper ---------- *)
Record xw_frame := xw_mkfr {
  xw_f_id : id; xw_f_del : bool; xw_f_kind : xw_kind; xw_f_blen : nat; xw_f_clen : nat;
  xw_f_left : list xw_node;      (* the items left of the focus, nearest first *)
  xw_f_right : list xw_node }.   (* the items right of the focus, nearest first *)

Record xw_cursor := xw_mkcur { xw_focus : xw_node; xw_ctx : list xw_frame }.

Definition xw_plug (n : xw_node) (f : xw_frame) : xw_node :=
  xw_mk (xw_f_id f) (xw_f_del f) (xw_f_kind f) (xw_f_blen f) (xw_f_clen f)
        (rev (xw_f_left f) ++ n :: xw_f_right f).
Fixpoint xw_zipup (n : xw_node) (l : list xw_frame) : xw_node :=
  match l with [] => n | f :: r => xw_zipup (xw_plug n f) r end.

Definition xw_top (n : xw_node) : xw_cursor := xw_mkcur n [].
(* the whole tree a cursor lives in *)
Definition xw_whole (c : xw_cursor) : xw_node := xw_zipup (xw_focus c) (xw_ctx c).

(* branch.start *)
Definition xw_start (c : xw_cursor) : option xw_cursor :=
  match xw_focus c with
  | xw_mk i d k bl cl (x :: r) => Some (xw_mkcur x (xw_mkfr i d k bl cl [] r :: xw_ctx c))
  | xw_mk _ _ _ _ _ [] => None
  end.
(* item.right *)
Definition xw_right (c : xw_cursor) : option xw_cursor :=
  match xw_ctx c with
  | f :: up =>
    match xw_f_right f with
    | r :: rs => Some (xw_mkcur r (xw_mkfr (xw_f_id f) (xw_f_del f) (xw_f_kind f) (xw_f_blen f) (xw_f_clen f)
                                           (xw_focus c :: xw_f_left f) rs :: up))
    | [] => None
    end
  | [] => None
  end.
(* item.left *)
Definition xw_left (c : xw_cursor) : option xw_cursor :=
  match xw_ctx c with
  | f :: up =>
    match xw_f_left f with
    | l :: ls => Some (xw_mkcur l (xw_mkfr (xw_f_id f) (xw_f_del f) (xw_f_kind f) (xw_f_blen f) (xw_f_clen f)
                                           ls (xw_focus c :: xw_f_right f) :: up))
    | [] => None
    end
  | [] => None
  end.
(* item.parent.as_branch() *)
Definition xw_up (c : xw_cursor) : option xw_cursor :=
  match xw_ctx c with
  | f :: up => Some (xw_mkcur (xw_plug (xw_focus c) f) up)
  | [] => None
  end.
(* branch.item: the top of the tree is a root-level type, it has no item *)
Definition xw_item (c : xw_cursor) : option xw_cursor :=
  match xw_ctx c with [] => None | _ :: _ => Some c end.

Definition xw_is_deleted (c : xw_cursor) : bool := xw_del (xw_focus c).
(* Item::is_countable, Item::len, content_len of an item carrying a Type *)
Definition xw_countable (c : xw_cursor) : bool := true.
Definition xw_item_len (c : xw_cursor) : nat := 1.

Definition xw_path (c : xw_cursor) : list nat := map (fun f => length (xw_f_left f)) (xw_ctx c).
Fixpoint xw_path_eqb (a b : list nat) : bool :=
  match a, b with
  | [], [] => true
  | x :: a', y :: b' => (x =? y) && xw_path_eqb a' b'
  | _, _ => false
  end.
(* BranchPtr == BranchPtr (std::ptr::eq) for two positions of the same tree *)
Definition xw_same (a b : xw_cursor) : bool := xw_path_eqb (xw_path a) (xw_path b).

(* XmlOut::try_from(BranchPtr).ok(): every kind of the model converts *)
Definition xw_xml_out (c : xw_cursor) : option xw_cursor :=
  match xw_kind_of (xw_focus c) with
  | xw_k_elem _ => Some c | xw_k_frag => Some c | xw_k_text => Some c
  end.

(* ---------- the structural description of a child list (specification side) ---------- *)
Fixpoint xw_sibs (mk : list xw_node -> list xw_node -> xw_frame) (up : list xw_frame)
         (l rs : list xw_node) : list xw_cursor :=
  match rs with
  | [] => []
  | r :: rs' => xw_mkcur r (mk l rs' :: up) :: xw_sibs mk up (r :: l) rs'
  end.
Fixpoint xw_sibs_l (mk : list xw_node -> list xw_node -> xw_frame) (up : list xw_frame)
         (l rs : list xw_node) : list xw_cursor :=
  match l with
  | [] => []
  | x :: l' => xw_mkcur x (mk l' rs :: up) :: xw_sibs_l mk up l' (x :: rs)
  end.
Definition xw_frame_mk (f : xw_frame) :=
  xw_mkfr (xw_f_id f) (xw_f_del f) (xw_f_kind f) (xw_f_blen f) (xw_f_clen f).

(* all child items of the focus, as cursors, in order (tombstones included) *)
Definition xw_kid_cursors (c : xw_cursor) : list xw_cursor :=
  match xw_focus c with
  | xw_mk i d k bl cl ks => xw_sibs (xw_mkfr i d k bl cl) (xw_ctx c) [] ks
  end.
(* the items right of c, nearest first; the items left of c, nearest first *)
Definition xw_rights (c : xw_cursor) : list xw_cursor :=
  match xw_ctx c with
  | f :: up => xw_sibs (xw_frame_mk f) up (xw_focus c :: xw_f_left f) (xw_f_right f)
  | [] => []
  end.
Definition xw_lefts (c : xw_cursor) : list xw_cursor :=
  match xw_ctx c with
  | f :: up => xw_sibs_l (xw_frame_mk f) up (xw_f_left f) (xw_focus c :: xw_f_right f)
  | [] => []
  end.

Definition xw_clive (c : xw_cursor) : bool := xw_live (xw_focus c).

(* ---------- specification ---------- *)
(* the live children, in order *)
Definition xw_visible_children (n : xw_node) : list xw_node := filter xw_live (xw_kids n).
Definition xw_visible_children_at (c : xw_cursor) : list xw_cursor := filter xw_clive (xw_kid_cursors c).

(* n followed by its visible descendants in depth-first pre-order; nothing if n is deleted.
   A deleted node hides its whole subtree; only elements and fragments have XML children. *)
Fixpoint xw_pre_node (n : xw_node) : list xw_node :=
  match n with
  | xw_mk _ d k _ _ ks =>
    if d then []
    else n :: (if xw_container k
               then (fix go (l : list xw_node) : list xw_node :=
                       match l with [] => [] | x :: r => xw_pre_node x ++ go r end) ks
               else [])
  end.
Fixpoint xw_pre_list (l : list xw_node) : list xw_node :=
  match l with [] => [] | x :: r => xw_pre_node x ++ xw_pre_list r end.
(* depth-first pre-order of the live descendants of n (not n itself; n's own flag and kind are not
   consulted, exactly as TreeWalker::new does not consult them) *)
Definition xw_preorder (n : xw_node) : list xw_node := xw_pre_list (xw_kids n).

(* the same without the kind test: equal on well-formed trees (text nodes have no kids) *)
Fixpoint xw_pre_node_naive (n : xw_node) : list xw_node :=
  match n with
  | xw_mk _ d _ _ _ ks =>
    if d then []
    else n :: (fix go (l : list xw_node) : list xw_node :=
                 match l with [] => [] | x :: r => xw_pre_node_naive x ++ go r end) ks
  end.
Definition xw_preorder_naive (n : xw_node) : list xw_node :=
  flat_map xw_pre_node_naive (xw_kids n).

(* well-formedness: what the write paths of the implementation maintain
   - the cached lengths count the live children (block.rs integrate: += len if !deleted && countable;
     TransactionMut::delete: -= len)
   - everything below a deleted item is deleted (delete recurses into the children; an item integrated
     under a deleted parent is deleted at once: Item::needs_deletion)
   - text nodes have no XML children *)
Fixpoint xw_wfb (n : xw_node) : bool :=
  match n with
  | xw_mk _ d k bl cl ks =>
    (bl =? length (filter xw_live ks)) && (cl =? length (filter xw_live ks))
    && (if d then forallb xw_del ks else true)
    && (match k with xw_k_text => match ks with [] => true | _ => false end | _ => true end)
    && (fix all (l : list xw_node) : bool := match l with [] => true | x :: r => xw_wfb x && all r end) ks
  end.
Definition xw_wf (n : xw_node) : Prop := xw_wfb n = true.
(* the part the read paths depend on: the cached lengths of THIS node *)
Definition xw_cached_ok (n : xw_node) : Prop :=
  xw_blen n = length (xw_visible_children n) /\ xw_clen n = length (xw_visible_children n).

(* ---------- Branch::first, XmlFragment::first_child ---------- *)
(* let mut ptr = self.start; while let Some(item) = ptr { if item.is_deleted() { ptr = item.right } else { return Some(item) } } None *)
Fixpoint xw_branch_first_loop (fuel : nat) (ptr : option xw_cursor) : option (option xw_cursor) :=
  match ptr with
  | None => Some None
  | Some item =>
    match fuel with
    | O => None
    | S f => if xw_is_deleted item then xw_branch_first_loop f (xw_right item) else Some (Some item)
    end
  end.
Definition xw_kids_fuel (c : xw_cursor) : nat := S (length (xw_kids (xw_focus c))).
Definition xw_first_child_fuel (fuel : nat) (c : xw_cursor) : option (option xw_cursor) :=
  match xw_branch_first_loop fuel (xw_start c) with
  | None => None
  | Some None => Some None                    (* first()? *)
  | Some (Some first) => Some (xw_xml_out first)   (* content is Type: XmlOut::try_from(ptr).ok() *)
  end.
Definition xw_unfuel {A} (r : option (option A)) : option A := match r with Some x => x | None => None end.
Definition xw_first_child_at (c : xw_cursor) : option xw_cursor :=
  xw_unfuel (xw_first_child_fuel (xw_kids_fuel c) c).

(* ---------- Branch::len, Branch::get_at, XmlFragment::len / get ---------- *)
Definition xw_len_at (c : xw_cursor) : nat := xw_blen (xw_focus c).

(* while let Some(item) = ptr { let len = item.len(); if !item.is_deleted() && item.is_countable()
     { if index < len { return Some((&item.content, index)) } index -= len; } ptr = item.right } None *)
Fixpoint xw_get_at_loop (fuel : nat) (ptr : option xw_cursor) (index : nat) : option (option (xw_cursor * nat)) :=
  match ptr with
  | None => Some None
  | Some item =>
    match fuel with
    | O => None
    | S f =>
      let len := xw_item_len item in
      if negb (xw_is_deleted item) && xw_countable item then
        if index <? len then Some (Some (item, index))
        else xw_get_at_loop f (xw_right item) (index - len)
      else xw_get_at_loop f (xw_right item) index
    end
  end.
Definition xw_get_fuel (fuel : nat) (c : xw_cursor) (index : nat) : option (option xw_cursor) :=
  match xw_get_at_loop fuel (xw_start c) index with
  | None => None
  | Some None => Some None
  | Some (Some (item, _)) => Some (xw_xml_out item)
  end.
Definition xw_get_at (c : xw_cursor) (index : nat) : option xw_cursor :=
  xw_unfuel (xw_get_fuel (xw_kids_fuel c) c index).

(* ---------- BlockIter (block_iter.rs) as used by XmlNodes ---------- *)
Record xw_biter := xw_mkbi {
  xw_bi_branch : xw_cursor; xw_bi_index : nat; xw_bi_rel : nat;
  xw_bi_next : option xw_cursor; xw_bi_end : bool }.
Definition xw_is_none {A} (o : option A) : bool := match o with None => true | Some _ => false end.

Definition xw_bi_new (branch : xw_cursor) : xw_biter :=
  let next_item := xw_start branch in
  xw_mkbi branch 0 0 next_item (xw_is_none next_item).
Definition xw_bi_set_index (it : xw_biter) (v : nat) :=
  xw_mkbi (xw_bi_branch it) v (xw_bi_rel it) (xw_bi_next it) (xw_bi_end it).
Definition xw_bi_set_rel (it : xw_biter) (v : nat) :=
  xw_mkbi (xw_bi_branch it) (xw_bi_index it) v (xw_bi_next it) (xw_bi_end it).
Definition xw_bi_set_next (it : xw_biter) (v : option xw_cursor) :=
  xw_mkbi (xw_bi_branch it) (xw_bi_index it) (xw_bi_rel it) v (xw_bi_end it).
Definition xw_bi_set_end (it : xw_biter) (v : bool) :=
  xw_mkbi (xw_bi_branch it) (xw_bi_index it) (xw_bi_rel it) (xw_bi_next it) v.
Definition xw_bi_content_len (it : xw_biter) : nat := xw_clen (xw_focus (xw_bi_branch it)).

(* fn can_forward(&self, ptr, len) *)
Definition xw_bi_can_forward (it : xw_biter) (ptr : option xw_cursor) (len : nat) : bool :=
  if negb (xw_bi_end it) then
    if 0 <? len then true
    else match ptr with
         | Some item => negb (xw_countable item) || xw_is_deleted item || xw_bi_end it
         | None => false
         end
  else false.

Inductive xw_flow := xw_fl_done | xw_fl_ret.
(* the `while self.can_forward(item, len)` loop of try_forward; xw_fl_ret = `return false` *)
Fixpoint xw_bi_fwd_loop (fuel : nat) (it : xw_biter) (item : option xw_cursor) (len : nat)
  : option (xw_flow * xw_biter * option xw_cursor * nat) :=
  if xw_bi_can_forward it item len then
    match fuel with
    | O => None
    | S f =>
      match item with
      | None => Some (xw_fl_ret, it, item, len)
      | Some i =>
        let '(brk, it1, len1) :=
          if xw_countable i && negb (xw_is_deleted i) && (0 <? len) then
            let item_len := xw_item_len i in
            if len <? item_len then (true, xw_bi_set_rel it len, 0) else (false, it, len - item_len)
          else (false, it, len) in
        if brk then Some (xw_fl_done, it1, item, len1)
        else if xw_bi_end it1 then Some (xw_fl_ret, it1, item, len1)
        else match xw_right i with
             | Some r => xw_bi_fwd_loop f it1 (Some r) len1
             | None => xw_bi_fwd_loop f (xw_bi_set_end it1 true) item len1
             end
      end
    end
  else Some (xw_fl_done, it, item, len).

(* pub fn try_forward(&mut self, txn, mut len) -> bool *)
Definition xw_bi_try_forward (fuel : nat) (it : xw_biter) (len : nat) : option (bool * xw_biter) :=
  if (len =? 0) && xw_is_none (xw_bi_next it) then Some (true, it)
  else if (xw_bi_content_len it <? xw_bi_index it + len) || xw_is_none (xw_bi_next it) then Some (false, it)
  else
    let item := xw_bi_next it in
    let it := xw_bi_set_index it (xw_bi_index it + len) in
    let '(it, len) := if negb (xw_bi_rel it =? 0) then (xw_bi_set_rel it 0, len + xw_bi_rel it) else (it, len) in
    match xw_bi_fwd_loop fuel it item len with
    | None => None
    | Some (xw_fl_ret, it, _, _) => Some (false, it)
    | Some (xw_fl_done, it, item, len) =>
      Some (true, xw_bi_set_next (xw_bi_set_index it (xw_bi_index it - len)) item)
    end.

(* local state of slice(buf) for a buffer of ONE slot (read_value) *)
Record xw_slice := xw_mksl {
  xw_sl_it : xw_biter; xw_sl_next : option xw_cursor; xw_sl_len : nat; xw_sl_read : nat;
  xw_sl_buf : option xw_cursor }.

(* while let Some(item) = next_item { if item.is_countable() && !self.reached_end && len > 0 { .. } else { break } } *)
Fixpoint xw_bi_slice_inner (fuel : nat) (s : xw_slice) : option xw_slice :=
  match xw_sl_next s with
  | None => Some s
  | Some item =>
    if xw_countable item && negb (xw_bi_end (xw_sl_it s)) && (0 <? xw_sl_len s) then
      match fuel with
      | O => None
      | S f =>
        let '(s1, cont) :=
          if negb (xw_is_deleted item) then
            (* item.content.read(self.rel, &mut buf[read..]): a Type writes one slot (if there is one) *)
            let r := if xw_sl_read s <? 1 then 1 else 0 in
            let buf := if xw_sl_read s <? 1 then Some item else xw_sl_buf s in
            let it := xw_sl_it s in
            if xw_bi_rel it + r =? xw_item_len item
            then (xw_mksl (xw_bi_set_rel it 0) (xw_sl_next s) (xw_sl_len s - r) (xw_sl_read s + r) buf, false)
            else (xw_mksl (xw_bi_set_rel it (xw_bi_rel it + r)) (xw_sl_next s) (xw_sl_len s - r) (xw_sl_read s + r) buf, true)
          else (s, false) in
        if cont then xw_bi_slice_inner f s1
        else match xw_right item with
             | Some r => xw_bi_slice_inner f (xw_mksl (xw_sl_it s1) (Some r) (xw_sl_len s1) (xw_sl_read s1) (xw_sl_buf s1))
             | None => xw_bi_slice_inner f (xw_mksl (xw_bi_set_end (xw_sl_it s1) true) (xw_sl_next s1) (xw_sl_len s1)
                                                    (xw_sl_read s1) (xw_sl_buf s1))
             end
      end
    else Some s
  end.

(* while len > 0 { .. }; true = left by `return read` *)
Fixpoint xw_bi_slice_outer (fuel ifuel : nat) (s : xw_slice) : option (bool * xw_slice) :=
  if 0 <? xw_sl_len s then
    match fuel with
    | O => None
    | S f =>
      if negb (xw_bi_end (xw_sl_it s)) then
        match xw_bi_slice_inner ifuel s with
        | None => None
        | Some s1 =>
          if negb (xw_bi_end (xw_sl_it s1)) && (0 <? xw_sl_len s1) then
            let it1 := xw_bi_set_next (xw_sl_it s1) (xw_sl_next s1) in
            match xw_bi_try_forward ifuel it1 0 with
            | None => None
            | Some (ok, it2) =>
              if negb ok || xw_is_none (xw_bi_next it2)
              then Some (true, xw_mksl it2 (xw_sl_next s1) (xw_sl_len s1) (xw_sl_read s1) (xw_sl_buf s1))
              else xw_bi_slice_outer f ifuel (xw_mksl it2 (xw_bi_next it2) (xw_sl_len s1) (xw_sl_read s1) (xw_sl_buf s1))
            end
          else xw_bi_slice_outer f ifuel s1
        end
      else Some (false, xw_mksl (xw_sl_it s) None (xw_sl_len s) (xw_sl_read s) (xw_sl_buf s))
    end
  else Some (false, s).

(* slice(&mut self, txn, buf: &mut [Out; 1]) -> (read, buf[0], self) *)
Definition xw_bi_slice1 (fuel : nat) (it : xw_biter) : option (nat * option xw_cursor * xw_biter) :=
  let len := 1 in
  if xw_bi_content_len it <? xw_bi_index it + len then Some (0, None, it)
  else
    let it := xw_bi_set_index it (xw_bi_index it + len) in
    match xw_bi_slice_outer fuel fuel (xw_mksl it (xw_bi_next it) len 0 None) with
    | None => None
    | Some (true, s) => Some (xw_sl_read s, xw_sl_buf s, xw_sl_it s)
    | Some (false, s) =>
      let it := xw_bi_set_next (xw_sl_it s) (xw_sl_next s) in
      Some (xw_sl_read s, xw_sl_buf s, xw_bi_set_index it (xw_bi_index it - xw_sl_len s))
    end.

(* read_value: if self.slice(txn, &mut buf) != 0 { Some(buf[0]) } else { None };
   XmlNodes::next: let value = self.iter.read_value(self.txn)?; XmlOut::try_from(value).ok() *)
Definition xw_nodes_next (fuel : nat) (it : xw_biter) : option (option xw_cursor * xw_biter) :=
  match xw_bi_slice1 fuel it with
  | None => None
  | Some (read, buf, it') =>
    if negb (read =? 0)
    then Some (match buf with Some v => xw_xml_out v | None => None end, it')
    else Some (None, it')
  end.
(* for x in f.children(txn): until the first None *)
Fixpoint xw_nodes_collect (fuel ifuel : nat) (it : xw_biter) : option (list xw_cursor) :=
  match fuel with
  | O => None
  | S f =>
    match xw_nodes_next ifuel it with
    | None => None
    | Some (None, _) => Some []
    | Some (Some x, it') =>
      match xw_nodes_collect f ifuel it' with Some l => Some (x :: l) | None => None end
    end
  end.
Definition xw_unfuel_list {A} (r : option (list A)) : list A := match r with Some l => l | None => [] end.
Definition xw_children_fuel (fuel : nat) (c : xw_cursor) : option (list xw_cursor) :=
  xw_nodes_collect fuel fuel (xw_bi_new c).
Definition xw_children_at (c : xw_cursor) : list xw_cursor :=
  xw_unfuel_list (xw_children_fuel (S (xw_kids_fuel c)) c).

(* ---------- Siblings ---------- *)
(* Siblings::new(ptr.item): the state is ONE item pointer, moved by next (right) and next_back (left) *)
Definition xw_siblings_new (c : xw_cursor) : option xw_cursor := xw_item c.

(* while let Some(item) = self.current { self.current = item.right; if let Some(right) = self.current
     { if !right.is_deleted() { if let Type(inner) = &right.content { return XmlOut::try_from(ptr).ok() } } } } None
   result: (returned value, self.current) *)
Fixpoint xw_sib_move (fwd : bool) (fuel : nat) (current : option xw_cursor)
  : option (option xw_cursor * option xw_cursor) :=
  match current with
  | None => Some (None, None)
  | Some item =>
    match fuel with
    | O => None
    | S f =>
      let current' := if fwd then xw_right item else xw_left item in
      match current' with
      | Some nb => if negb (xw_is_deleted nb) then Some (xw_xml_out nb, current')
                   else xw_sib_move fwd f current'
      | None => xw_sib_move fwd f current'
      end
    end
  end.
(* the number of items of the sibling list c is in (0 for the top) *)
Definition xw_row_fuel (c : xw_cursor) : nat :=
  match xw_ctx c with
  | f :: _ => S (length (xw_f_left f) + length (xw_f_right f))
  | [] => 0
  end.
Definition xw_ofuel (o : option xw_cursor) : nat := match o with Some c => xw_row_fuel c | None => 0 end.

(* collect() / rev().collect(): until the first None *)
Fixpoint xw_sib_collect (fwd : bool) (fuel ifuel : nat) (st : option xw_cursor) : option (list xw_cursor) :=
  match fuel with
  | O => None
  | S f =>
    match xw_sib_move fwd ifuel st with
    | None => None
    | Some (None, _) => Some []
    | Some (Some x, st') =>
      match xw_sib_collect fwd f ifuel st' with Some l => Some (x :: l) | None => None end
    end
  end.
Definition xw_siblings_fuel (fwd : bool) (fuel : nat) (c : xw_cursor) : option (list xw_cursor) :=
  xw_sib_collect fwd fuel fuel (xw_siblings_new c).
Definition xw_siblings_fwd (c : xw_cursor) : list xw_cursor :=
  xw_unfuel_list (xw_siblings_fuel true (S (xw_row_fuel c)) c).
Definition xw_siblings_back (c : xw_cursor) : list xw_cursor :=
  xw_unfuel_list (xw_siblings_fuel false (S (xw_row_fuel c)) c).

(* a script of calls on ONE iterator: true = next(), false = next_back() *)
Fixpoint xw_sib_run_fuel (fuel : nat) (script : list bool) (st : option xw_cursor) : option (list (option xw_cursor)) :=
  match script with
  | [] => Some []
  | b :: r =>
    match xw_sib_move b fuel st with
    | None => None
    | Some (v, st') =>
      match xw_sib_run_fuel fuel r st' with Some l => Some (v :: l) | None => None end
    end
  end.
Definition xw_siblings_run (script : list bool) (c : xw_cursor) : list (option xw_cursor) :=
  xw_unfuel_list (xw_sib_run_fuel (xw_row_fuel c) script (xw_siblings_new c)).

(* what such a script does, on the list v of the visible children: a position that moves by one *)
Fixpoint xw_walk_spec {A} (v : list A) (script : list bool) (pos : option nat) : list (option A) :=
  match script with
  | [] => []
  | b :: r =>
    match pos with
    | None => None :: xw_walk_spec v r None
    | Some i =>
      let pos' := if b then (if S i <? length v then Some (S i) else None)
                  else match i with O => None | S j => Some j end in
      match pos' with
      | Some j => nth_error v j :: xw_walk_spec v r pos'
      | None => None :: xw_walk_spec v r None
      end
    end
  end.

(* ---------- Xml::parent / XmlFragmentRef::parent ---------- *)
(* let item = self.item?; let parent = item.parent.as_branch()?; XmlOut::try_from( *parent ).ok() *)
Definition xw_parent (c : xw_cursor) : option xw_cursor :=
  match xw_item c with
  | None => None
  | Some item => match xw_up item with None => None | Some parent => xw_xml_out parent end
  end.

(* ---------- TreeWalker ---------- *)
Record xw_walker := xw_mktw { xw_tw_current : option xw_cursor; xw_tw_root : xw_cursor; xw_tw_first : bool }.
(* TreeWalker::new(root): current = root.start, root = TypePtr::Branch(root), first_call = true *)
Definition xw_tw_new (root : xw_cursor) : xw_walker := xw_mktw (xw_start root) root true.

(* fn try_descend(item): content is a Type; XmlElement | XmlFragment if !item.is_deleted() => inner.start *)
Definition xw_try_descend (item : xw_cursor) : option xw_cursor :=
  match xw_kind_of (xw_focus item) with
  | xw_k_elem _ | xw_k_frag => if negb (xw_is_deleted item) then xw_start item else None
  | xw_k_text => None
  end.

(* // walk right or up in the tree
   while let Some(current) = n {
     if let Some(right) = current.right { n = Some(right); break; }
     else if current.parent == self.root { n = None; }
     else { let ptr = current.parent.as_branch().unwrap(); n = ptr.item.as_deref(); } }
   check = false: the variant without the `current.parent == self.root` test *)
Fixpoint xw_tw_climb (check : bool) (fuel : nat) (root : xw_cursor) (n : option xw_cursor)
  : option (option xw_cursor) :=
  match n with
  | None => Some None
  | Some current =>
    match fuel with
    | O => None
    | S f =>
      match xw_right current with
      | Some rt => Some (Some rt)
      | None =>
        match xw_up current with
        | None => Some None     (* not reachable: `current` is an item, it has a parent branch *)
        | Some parent =>
          if check && xw_same parent root then xw_tw_climb check f root None
          else xw_tw_climb check f root (xw_item parent)
        end
      end
    end
  end.

(* the do { .. } while n is deleted loop; cf = fuel of the inner loop *)
Fixpoint xw_tw_loop (check : bool) (cf fuel : nat) (root : xw_cursor) (n : option xw_cursor)
  : option (option xw_cursor) :=
  match fuel with
  | O => None
  | S f =>
    let body :=
      match n with
      | Some current =>
        match xw_try_descend current with
        | Some ptr => Some (Some ptr)
        | None => xw_tw_climb check cf root n
        end
      | None => Some None
      end in
    match body with
    | None => None
    | Some n' =>
      if match n' with Some current => xw_is_deleted current | None => false end
      then xw_tw_loop check cf f root n'
      else Some n'
    end
  end.

(* TreeWalker::next *)
Definition xw_tw_next (check : bool) (cf lf : nat) (w : xw_walker) : option (option xw_cursor * xw_walker) :=
  match xw_tw_current w with                                  (* let mut n = self.current.take() *)
  | Some current =>
    let n' := if negb (xw_tw_first w) || xw_is_deleted current
              then xw_tw_loop check cf lf (xw_tw_root w) (Some current)
              else Some (Some current) in
    match n' with
    | None => None
    | Some n2 =>
      let w' := xw_mktw n2 (xw_tw_root w) false in            (* first_call = false; self.current = n *)
      Some (match n2 with Some cur => xw_xml_out cur | None => None end, w')
    end
  | None => Some (None, xw_mktw None (xw_tw_root w) (xw_tw_first w))
  end.

(* for node in x.successors(txn): until the first None *)
Fixpoint xw_tw_collect (check : bool) (cf lf fuel : nat) (w : xw_walker) : option (list xw_cursor) :=
  match fuel with
  | O => None
  | S f =>
    match xw_tw_next check cf lf w with
    | None => None
    | Some (None, _) => Some []
    | Some (Some x, w') =>
      match xw_tw_collect check cf lf f w' with Some l => Some (x :: l) | None => None end
    end
  end.
Definition xw_successors_fuel (check : bool) (fuel : nat) (c : xw_cursor) : option (list xw_cursor) :=
  xw_tw_collect check fuel fuel (S fuel) (xw_tw_new c).
(* the walker of the implementation, started at any node *)
Definition xw_successors (c : xw_cursor) : list xw_cursor :=
  xw_unfuel_list (xw_successors_fuel true (xw_size (xw_focus c)) c).
(* the seeded regression: no `current.parent == self.root` test (it stops only at the top of the tree) *)
Definition xw_successors_no_root_check (c : xw_cursor) : list xw_cursor :=
  xw_unfuel_list (xw_successors_fuel false (xw_size (xw_whole c)) c).

(* x is a position strictly below c, in the same tree *)
Definition xw_under (root x : xw_cursor) (local : list xw_frame) : Prop :=
  xw_ctx x = local ++ xw_ctx root /\ xw_zipup (xw_focus x) local = xw_focus root.
Definition xw_below (root x : xw_cursor) : Prop := exists local, local <> [] /\ xw_under root x local.

(* ---------- node-level entry points (a node read on its own = the top of a tree) ---------- *)
Definition xw_len (n : xw_node) : nat := xw_len_at (xw_top n).
Definition xw_get (n : xw_node) (i : nat) : option xw_node := option_map xw_focus (xw_get_at (xw_top n) i).
Definition xw_children (n : xw_node) : list xw_node := map xw_focus (xw_children_at (xw_top n)).
Definition xw_first_child (n : xw_node) : option xw_node := option_map xw_focus (xw_first_child_at (xw_top n)).

(* ---------- the write paths, as far as they maintain xw_wf ---------- *)
(* TransactionMut::delete(item): nothing if already deleted; else mark, and delete every live child, each of
   which takes 1 off the cached lengths of this branch *)
Fixpoint xw_mark_deleted (n : xw_node) : xw_node :=
  match n with
  | xw_mk i d k bl cl ks =>
    if d then n
    else xw_mk i true k (bl - length (filter xw_live ks)) (cl - length (filter xw_live ks))
               ((fix go (l : list xw_node) : list xw_node :=
                   match l with [] => [] | x :: r => xw_mark_deleted x :: go r end) ks)
  end.
Fixpoint xw_map_nth (f : xw_node -> xw_node) (j : nat) (l : list xw_node) : list xw_node :=
  match l with
  | [] => []
  | x :: r => match j with O => f x :: r | S j' => x :: xw_map_nth f j' r end
  end.
(* delete the j-th item of n's child list: the parent's cached lengths go down if it was live *)
Definition xw_delete_child (j : nat) (n : xw_node) : xw_node :=
  match n with
  | xw_mk i d k bl cl ks =>
    let dec := match nth_error ks j with Some x => if xw_live x then 1 else 0 | None => 0 end in
    xw_mk i d k (bl - dec) (cl - dec) (xw_map_nth xw_mark_deleted j ks)
  end.
(* integrate a new item as the j-th item of n's child list: += 1 if it is not deleted; under a deleted
   parent it is deleted at once (needs_deletion), which takes the 1 off again *)
Definition xw_insert_child (j : nat) (new : xw_node) (n : xw_node) : xw_node :=
  match n with
  | xw_mk i d k bl cl ks =>
    if d then xw_mk i d k bl cl (firstn j ks ++ xw_mark_deleted new :: skipn j ks)
    else let inc := if xw_live new then 1 else 0 in
         xw_mk i d k (bl + inc) (cl + inc) (firstn j ks ++ new :: skipn j ks)
  end.
(* apply f to the node at path p (child positions from n downwards) *)
Fixpoint xw_at_path (p : list nat) (f : xw_node -> xw_node) (n : xw_node) : xw_node :=
  match p with
  | [] => f n
  | j :: p' =>
    match n with
    | xw_mk i d k bl cl ks => xw_mk i d k bl cl (xw_map_nth (xw_at_path p' f) j ks)
    end
  end.

(* ---------- lookups and the observation record (cases, OCaml driver) ---------- *)
(* the first position (pre-order, tombstones included) whose node has id a *)
Fixpoint xw_find_fuel (fuel : nat) (a : id) (todo : list xw_cursor) : option xw_cursor :=
  match fuel with
  | O => None
  | S f =>
    match todo with
    | [] => None
    | c :: r => if id_eqb (xw_id (xw_focus c)) a then Some c
                else xw_find_fuel f a (xw_kid_cursors c ++ r)
    end
  end.
Definition xw_find (t : xw_node) (a : id) : option xw_cursor :=
  xw_find_fuel (S (xw_size t)) a [xw_top t].

Definition xw_cid (c : xw_cursor) : id := xw_id (xw_focus c).
(* ids written with nat literals *)
Definition xw_i (c k : nat) : id := mkid (N.of_nat c) (N.of_nat k).
Definition xw_script : list bool := [true; true; false; false; false; true; true; true].

(* one node seen through every read path; ids only
   - fragment part (XmlFragment trait: elements and fragments): len, children, first_child,
     get 0 .. get (len + 1), successors
   - sibling part (Xml trait: elements and texts): siblings forward, siblings backward (rev()),
     the script xw_script on one iterator
   - parent *)
Definition xw_obs : Type :=
  id * option (nat * list id * option id * list (option id) * list id)
     * option (list id * list id * list (option id)) * option id.

Definition xw_obs_frag (c : xw_cursor) : nat * list id * option id * list (option id) * list id :=
  (xw_len_at c, map xw_cid (xw_children_at c), option_map xw_cid (xw_first_child_at c),
   map (fun i => option_map xw_cid (xw_get_at c i)) (seq 0 (xw_len_at c + 2)),
   map xw_cid (xw_successors c)).
Definition xw_obs_sib (c : xw_cursor) : list id * list id * list (option id) :=
  (map xw_cid (xw_siblings_fwd c), map xw_cid (xw_siblings_back c),
   map (option_map xw_cid) (xw_siblings_run xw_script c)).
Definition xw_observe (t : xw_node) (a : id) : option xw_obs :=
  match xw_find t a with
  | None => None
  | Some c =>
    Some (a,
          (if xw_container (xw_kind_of (xw_focus c)) then Some (xw_obs_frag c) else None),
          (match xw_kind_of (xw_focus c) with xw_k_frag => None | _ => Some (xw_obs_sib c) end),
          option_map xw_cid (xw_parent c))
  end.

Definition xw_list_eqb {A} (e : A -> A -> bool) : list A -> list A -> bool :=
  fix go (a b : list A) : bool :=
    match a, b with
    | [], [] => true
    | x :: a', y :: b' => e x y && go a' b'
    | _, _ => false
    end.
Definition xw_opt_eqb {A} (e : A -> A -> bool) (a b : option A) : bool :=
  match a, b with Some x, Some y => e x y | None, None => true | _, _ => false end.
Definition xw_frag_eqb (a b : nat * list id * option id * list (option id) * list id) : bool :=
  let '(l1, c1, f1, g1, s1) := a in
  let '(l2, c2, f2, g2, s2) := b in
  (l1 =? l2) && xw_list_eqb id_eqb c1 c2 && xw_opt_eqb id_eqb f1 f2
  && xw_list_eqb (xw_opt_eqb id_eqb) g1 g2 && xw_list_eqb id_eqb s1 s2.
Definition xw_sib_eqb (a b : list id * list id * list (option id)) : bool :=
  let '(f1, b1, m1) := a in
  let '(f2, b2, m2) := b in
  xw_list_eqb id_eqb f1 f2 && xw_list_eqb id_eqb b1 b2 && xw_list_eqb (xw_opt_eqb id_eqb) m1 m2.
Definition xw_obs_eqb (a b : xw_obs) : bool :=
  let '(i1, f1, s1, p1) := a in
  let '(i2, f2, s2, p2) := b in
  id_eqb i1 i2 && xw_opt_eqb xw_frag_eqb f1 f2 && xw_opt_eqb xw_sib_eqb s1 s2 && xw_opt_eqb id_eqb p1 p2.

(* the observations of the implementation against the model; the tree must be well-formed, and the
   specification functions must give the same answers as the transcriptions *)
Definition xw_check_obs (t : xw_node) (o : xw_obs) : bool :=
  let '(a, _, _, _) := o in
  match xw_observe t a with
  | Some m => xw_obs_eqb m o
  | None => false
  end.
Definition xw_check_spec (c : xw_cursor) : bool :=
  let n := xw_focus c in
  xw_list_eqb id_eqb (map xw_cid (xw_children_at c)) (map xw_id (xw_visible_children n))
  && (xw_len_at c =? length (xw_visible_children n))
  && xw_list_eqb id_eqb (map xw_cid (xw_successors c)) (map xw_id (xw_preorder n)).
Definition xw_check_all (t : xw_node) (obs : list xw_obs) : bool :=
  xw_wfb t && forallb (xw_check_obs t) obs
  && forallb (fun o : xw_obs => let '(a, _, _, _) := o in
                match xw_find t a with Some c => xw_check_spec c | None => false end) obs.

(* ---------- a flat encoding, for a driver ---------- *)
(* one row per node: id, deleted, kind, block_len, content_len, the ids of the child items in order *)
Definition xw_row : Type := id * bool * xw_kind * nat * nat * list id.
Fixpoint xw_lookup_row (a : id) (tbl : list xw_row) : option xw_row :=
  match tbl with
  | [] => None
  | ((i, _, _, _, _, _) as r) :: rest => if id_eqb i a then Some r else xw_lookup_row a rest
  end.
(* None: an id without a row, or deeper than fuel (a cycle) *)
Fixpoint xw_build_fuel (fuel : nat) (tbl : list xw_row) (a : id) : option xw_node :=
  match fuel with
  | O => None
  | S f =>
    match xw_lookup_row a tbl with
    | None => None
    | Some (i, d, k, bl, cl, ks) =>
      let kids := (fix go (l : list id) : option (list xw_node) :=
                     match l with
                     | [] => Some []
                     | x :: r => match xw_build_fuel f tbl x, go r with
                                 | Some n, Some ns => Some (n :: ns)
                                 | _, _ => None
                                 end
                     end) ks in
      match kids with Some ns => Some (xw_mk i d k bl cl ns) | None => None end
    end
  end.
Definition xw_build (tbl : list xw_row) (root : id) : option xw_node :=
  xw_build_fuel (S (length tbl)) tbl root.
(* driver entry point: the table, the id of the root, the id of the node to read *)
Definition xw_drive (tbl : list xw_row) (root a : id) : option xw_obs :=
  match xw_build tbl root with Some t => xw_observe t a | None => None end.
