(* Garbage collection is invisible.
   Level (a): the content of every deleted (not kept) item is replaced by a Deleted marker.
   Level (b): the lists below deleted (not kept) type items are dropped; their ids move to d_gc. *)
From Coq Require Import List NArith ZArith Bool Lia Permutation.
From YV Require Import Lib.Bytes Codec.UpdateV1 Ids.Ranges Crdt.Doc.
From YV Require Import Crdt.YataProofs Crdt.DeliverProofs Crdt.MapProofs.
Import ListNotations.
Open Scope N_scope.

(* ====================================================================== *)
(* 0. the model of GC                                                      *)
(* ====================================================================== *)

Definition gc_item (keep : id -> bool) (x : ditem) : ditem :=
  if d_del x && negb (keep (did x))
  then mkditem (mkop (oid (d_op x)) (oorigin (d_op x)) (ororigin (d_op x))
                     (oparent (d_op x)) (osub (d_op x)) UDeleted) true
  else x.
Definition gc_list (keep : id -> bool) (l : list ditem) : list ditem := map (gc_item keep) l.
Definition gc_lists (keep : id -> bool) (ls : list (seqkey * list ditem)) : list (seqkey * list ditem) :=
  map (fun kl => (fst kl, gc_list keep (snd kl))) ls.

(* level (a) only *)
Definition gc_contents (keep : id -> bool) (d : doc) : doc :=
  mkdoc (gc_lists keep (d_lists d)) (d_gc d).

(* level (b) *)
Definition dead_parent (keep : id -> bool) (d : doc) (k : seqkey) : bool :=
  match fst k with
  | PId p => match find_item p (d_lists d) with
             | Some (_, x) => d_del x && negb (keep p) && is_type x
             | None => false
             end
  | _ => false
  end.
Definition gc_doc (keep : id -> bool) (d : doc) : doc :=
  let dead := filter (fun kl => dead_parent keep d (fst kl)) (d_lists d) in
  let kept := filter (fun kl => negb (dead_parent keep d (fst kl))) (d_lists d) in
  mkdoc (gc_lists keep kept) (ids_of dead ++ d_gc d).

(* in every reachable state, everything below a deleted type item is deleted *)
Definition subtree_dead (d : doc) : Prop :=
  forall k l, In (k, l) (d_lists d) -> dead_parent (fun _ => false) d k = true ->
  forall x, In x l -> d_del x = true.

(* observational equivalence: same visible items in every list, same integrated ids *)
Definition vis_eq (d1 d2 : doc) : Prop :=
  (forall k, visible (get_list k (d_lists d1)) = visible (get_list k (d_lists d2))) /\
  (forall i, integrated d1 i = integrated d2 i).

Lemma vis_eq_refl : forall d, vis_eq d d.
Proof. intros d. split; reflexivity. Qed.
Lemma vis_eq_sym : forall a b, vis_eq a b -> vis_eq b a.
Proof. intros a b [H1 H2]. split; intros; symmetry; auto. Qed.
Lemma vis_eq_trans : forall a b c, vis_eq a b -> vis_eq b c -> vis_eq a c.
Proof. intros a b c [H1 H2] [H3 H4]. split; intros; etransitivity; eauto. Qed.

(* ====================================================================== *)
(* 1. gc_item: what it keeps                                               *)
(* ====================================================================== *)

Lemma gc_item_did : forall keep x, did (gc_item keep x) = did x.
Proof. intros keep x. unfold gc_item. destruct (d_del x && negb (keep (did x))); reflexivity. Qed.
Lemma gc_item_del : forall keep x, d_del (gc_item keep x) = d_del x.
Proof.
  intros keep x. unfold gc_item. destruct (d_del x) eqn:E; cbn [andb]; [|exact E].
  destruct (negb (keep (did x))); [reflexivity|exact E].
Qed.
Lemma gc_item_origin : forall keep x, oorigin (d_op (gc_item keep x)) = oorigin (d_op x).
Proof. intros keep x. unfold gc_item. destruct (d_del x && negb (keep (did x))); reflexivity. Qed.
Lemma gc_item_rorigin : forall keep x, ororigin (d_op (gc_item keep x)) = ororigin (d_op x).
Proof. intros keep x. unfold gc_item. destruct (d_del x && negb (keep (did x))); reflexivity. Qed.
Lemma gc_item_parent : forall keep x, oparent (d_op (gc_item keep x)) = oparent (d_op x).
Proof. intros keep x. unfold gc_item. destruct (d_del x && negb (keep (did x))); reflexivity. Qed.
Lemma gc_item_sub : forall keep x, osub (d_op (gc_item keep x)) = osub (d_op x).
Proof. intros keep x. unfold gc_item. destruct (d_del x && negb (keep (did x))); reflexivity. Qed.

Lemma gc_item_live : forall keep x, d_del x = false -> gc_item keep x = x.
Proof. intros keep x H. unfold gc_item. rewrite H. reflexivity. Qed.

(* 5 (first half): kept items are not collected *)
Theorem kept_items_not_collected : forall keep x, keep (did x) = true -> gc_item keep x = x.
Proof. intros keep x H. unfold gc_item. rewrite H. cbn [negb]. rewrite andb_false_r. reflexivity. Qed.
Print Assumptions kept_items_not_collected.

Lemma gc_item_idem : forall keep x, gc_item keep (gc_item keep x) = gc_item keep x.
Proof.
  intros keep x. unfold gc_item at 2 3.
  destruct (d_del x && negb (keep (did x))) eqn:E; [|unfold gc_item; rewrite E; reflexivity].
  unfold gc_item, did. cbn [d_del d_op oid oorigin ororigin oparent osub].
  unfold did in E. apply andb_true_iff in E. destruct E as [_ E]. rewrite E. cbn [andb]. reflexivity.
Qed.

Lemma gc_item_collected : forall keep x, d_del x = true -> keep (did x) = false ->
  ocont (d_op (gc_item keep x)) = UDeleted.
Proof. intros keep x H1 H2. unfold gc_item. rewrite H1, H2. reflexivity. Qed.

Lemma gc_item_is_type : forall keep x,
  is_type (gc_item keep x) = is_type x && negb (d_del x && negb (keep (did x))).
Proof.
  intros keep x. unfold gc_item. destruct (d_del x && negb (keep (did x))); cbn [negb].
  - rewrite andb_false_r. reflexivity.
  - rewrite andb_true_r. reflexivity.
Qed.

Lemma gc_list_ids : forall keep l, map did (gc_list keep l) = map did l.
Proof.
  intros keep l. unfold gc_list. rewrite map_map. apply map_ext. intros x. apply gc_item_did.
Qed.

Lemma gc_list_app : forall keep a b, gc_list keep (a ++ b) = gc_list keep a ++ gc_list keep b.
Proof. intros. unfold gc_list. apply map_app. Qed.

Lemma gc_list_idem : forall keep l, gc_list keep (gc_list keep l) = gc_list keep l.
Proof.
  intros keep l. unfold gc_list. rewrite map_map. apply map_ext. intros x. apply gc_item_idem.
Qed.

(* ====================================================================== *)
(* 2. GC preserves what is visible                                         *)
(* ====================================================================== *)

Lemma gc_list_visible : forall keep l, visible (gc_list keep l) = visible l.
Proof.
  intros keep l. unfold visible, gc_list. induction l as [|x r IH]; cbn [map filter].
  - reflexivity.
  - rewrite gc_item_del. destruct (d_del x) eqn:E; cbn [negb].
    + exact IH.
    + rewrite IH. rewrite (gc_item_live keep x E). reflexivity.
Qed.

Lemma gc_list_seq_len : forall keep l, seq_len (gc_list keep l) = seq_len l.
Proof. intros keep l. unfold seq_len. rewrite gc_list_visible. reflexivity. Qed.

Lemma gc_list_map_value : forall keep l, map_value (gc_list keep l) = map_value l.
Proof.
  intros keep l. unfold map_value, gc_list. rewrite <- map_rev.
  destruct (rev l) as [|x r]; cbn [map]; [reflexivity|].
  rewrite gc_item_del. destruct (d_del x) eqn:E; [reflexivity|].
  rewrite (gc_item_live keep x E). reflexivity.
Qed.

Lemma get_list_gc_lists : forall keep k ls,
  get_list k (gc_lists keep ls) = gc_list keep (get_list k ls).
Proof.
  intros keep k ls. unfold gc_lists. induction ls as [|[k0 l0] r IH]; cbn [map get_list fst snd].
  - reflexivity.
  - destruct (seqkey_eqb k0 k); [reflexivity|exact IH].
Qed.

Lemma get_list_gc_contents : forall keep d k,
  get_list k (d_lists (gc_contents keep d)) = gc_list keep (get_list k (d_lists d)).
Proof. intros keep d k. unfold gc_contents. cbn [d_lists]. apply get_list_gc_lists. Qed.

(* 1, level (a) *)
Theorem gc_preserves_visible : forall keep d k,
  visible (get_list k (d_lists (gc_contents keep d))) = visible (get_list k (d_lists d)).
Proof. intros keep d k. rewrite get_list_gc_contents. apply gc_list_visible. Qed.
Print Assumptions gc_preserves_visible.

Theorem gc_preserves_seq_len : forall keep d k,
  seq_len (get_list k (d_lists (gc_contents keep d))) = seq_len (get_list k (d_lists d)).
Proof. intros keep d k. rewrite get_list_gc_contents. apply gc_list_seq_len. Qed.
Print Assumptions gc_preserves_seq_len.

Theorem gc_preserves_map_value : forall keep d k,
  map_value (get_list k (d_lists (gc_contents keep d))) = map_value (get_list k (d_lists d)).
Proof. intros keep d k. rewrite get_list_gc_contents. apply gc_list_map_value. Qed.
Print Assumptions gc_preserves_map_value.

(* level (b) *)
Lemma get_list_filter_keep : forall (P : seqkey -> bool) k ls,
  P k = true -> get_list k (filter (fun kl => P (fst kl)) ls) = get_list k ls.
Proof.
  intros P k ls HP. induction ls as [|[k0 l0] r IH]; cbn [filter get_list fst].
  - reflexivity.
  - destruct (seqkey_eqb k0 k) eqn:E.
    + apply seqkey_eqb_eq in E. subst k0. rewrite HP. cbn [get_list].
      rewrite seqkey_eqb_refl. reflexivity.
    + destruct (P k0); cbn [get_list]; [rewrite E|]; exact IH.
Qed.

Lemma get_list_filter_drop : forall (P : seqkey -> bool) k ls,
  P k = false -> get_list k (filter (fun kl => P (fst kl)) ls) = [].
Proof.
  intros P k ls HP. induction ls as [|[k0 l0] r IH]; cbn [filter get_list fst].
  - reflexivity.
  - destruct (P k0) eqn:E0; [|exact IH]. cbn [get_list].
    destruct (seqkey_eqb k0 k) eqn:E; [|exact IH].
    apply seqkey_eqb_eq in E. subst k0. congruence.
Qed.

Lemma get_list_gc_doc : forall keep d k,
  get_list k (d_lists (gc_doc keep d)) =
  if dead_parent keep d k then [] else gc_list keep (get_list k (d_lists d)).
Proof.
  intros keep d k. unfold gc_doc. cbn [d_lists]. rewrite get_list_gc_lists.
  destruct (dead_parent keep d k) eqn:E.
  - rewrite (get_list_filter_drop (fun k0 => negb (dead_parent keep d k0))); [reflexivity|].
    rewrite E. reflexivity.
  - rewrite (get_list_filter_keep (fun k0 => negb (dead_parent keep d k0))); [reflexivity|].
    rewrite E. reflexivity.
Qed.

Lemma dead_parent_mono : forall keep d k,
  dead_parent keep d k = true -> dead_parent (fun _ => false) d k = true.
Proof.
  intros keep d k. unfold dead_parent. destruct (fst k) as [n|p|]; try discriminate.
  destruct (find_item p (d_lists d)) as [[k0 x]|]; [|discriminate].
  cbn [negb]. rewrite andb_true_r.
  destruct (d_del x), (is_type x), (keep p); cbn; intros H; congruence.
Qed.

Lemma dead_list_all_deleted : forall keep d k, subtree_dead d -> dead_parent keep d k = true ->
  forall x, In x (get_list k (d_lists d)) -> d_del x = true.
Proof.
  intros keep d k Hs Hd x Hx.
  destruct (get_list_In k (d_lists d)) as [A|[A _]].
  - eapply Hs; [exact A|eapply dead_parent_mono; exact Hd|exact Hx].
  - rewrite A in Hx. destruct Hx.
Qed.

Theorem gc_doc_preserves_visible : forall keep d k, subtree_dead d ->
  visible (get_list k (d_lists (gc_doc keep d))) = visible (get_list k (d_lists d)).
Proof.
  intros keep d k Hs. rewrite get_list_gc_doc.
  destruct (dead_parent keep d k) eqn:E.
  - symmetry. apply filter_all_del. apply (dead_list_all_deleted keep d k Hs E).
  - apply gc_list_visible.
Qed.
Print Assumptions gc_doc_preserves_visible.

Theorem gc_doc_preserves_seq_len : forall keep d k, subtree_dead d ->
  seq_len (get_list k (d_lists (gc_doc keep d))) = seq_len (get_list k (d_lists d)).
Proof. intros keep d k Hs. unfold seq_len. rewrite gc_doc_preserves_visible; auto. Qed.
Print Assumptions gc_doc_preserves_seq_len.

Theorem gc_doc_preserves_map_value : forall keep d k, subtree_dead d ->
  map_value (get_list k (d_lists (gc_doc keep d))) = map_value (get_list k (d_lists d)).
Proof.
  intros keep d k Hs. rewrite get_list_gc_doc.
  destruct (dead_parent keep d k) eqn:E.
  - pose proof (dead_list_all_deleted keep d k Hs E) as Hall.
    unfold map_value. cbn [rev]. destruct (rev (get_list k (d_lists d))) as [|x r] eqn:Er; [reflexivity|].
    rewrite (Hall x); [reflexivity|]. apply in_rev. rewrite Er. left. reflexivity.
  - apply gc_list_map_value.
Qed.
Print Assumptions gc_doc_preserves_map_value.

(* ====================================================================== *)
(* 3. GC preserves the set of integrated ids                               *)
(* ====================================================================== *)

Lemma ids_of_gc_lists : forall keep ls, ids_of (gc_lists keep ls) = ids_of ls.
Proof.
  intros keep ls. unfold ids_of, gc_lists. induction ls as [|[k l] r IH]; cbn [map flat_map fst snd].
  - reflexivity.
  - rewrite gc_list_ids, IH. reflexivity.
Qed.

Lemma ids_of_filter_split : forall (P : seqkey * list ditem -> bool) ls i,
  In i (ids_of ls) <-> In i (ids_of (filter (fun kl => negb (P kl)) ls)) \/ In i (ids_of (filter P ls)).
Proof.
  intros P ls i. unfold ids_of. induction ls as [|kl r IH]; cbn [filter flat_map].
  - cbn. tauto.
  - rewrite in_app_iff, IH. destruct (P kl); cbn [negb flat_map]; rewrite in_app_iff; tauto.
Qed.

Lemma bool_eq_of_iff : forall a b : bool, (a = true <-> b = true) -> a = b.
Proof. intros [|] [|] [H1 H2]; auto. symmetry. auto. Qed.

Theorem gc_contents_preserves_integrated : forall keep d i,
  integrated (gc_contents keep d) i = integrated d i.
Proof.
  intros keep d i. apply bool_eq_of_iff. rewrite !integrated_iff. unfold iset, gc_contents.
  cbn [d_lists d_gc]. rewrite ids_of_gc_lists. tauto.
Qed.
Print Assumptions gc_contents_preserves_integrated.

(* 2 *)
Theorem gc_preserves_integrated : forall keep d i,
  integrated (gc_doc keep d) i = integrated d i.
Proof.
  intros keep d i. apply bool_eq_of_iff. rewrite !integrated_iff. unfold iset, gc_doc.
  cbn [d_lists d_gc]. rewrite ids_of_gc_lists, in_app_iff.
  rewrite (ids_of_filter_split (fun kl => dead_parent keep d (fst kl)) (d_lists d) i). tauto.
Qed.
Print Assumptions gc_preserves_integrated.

Theorem gc_contents_vis_eq : forall keep d, vis_eq (gc_contents keep d) d.
Proof.
  intros keep d. split; [intros k; apply gc_preserves_visible|intros i; apply gc_contents_preserves_integrated].
Qed.

Theorem gc_doc_vis_eq : forall keep d, subtree_dead d -> vis_eq (gc_doc keep d) d.
Proof.
  intros keep d Hs. split; [intros k; apply gc_doc_preserves_visible; exact Hs|intros i; apply gc_preserves_integrated].
Qed.
Print Assumptions gc_doc_vis_eq.

(* ====================================================================== *)
(* 4. kept items survive                                                   *)
(* ====================================================================== *)

Lemma find_in_list_gc : forall keep i l,
  find_in_list i (gc_list keep l) = option_map (gc_item keep) (find_in_list i l).
Proof.
  intros keep i l. unfold gc_list. induction l as [|x r IH]; cbn [map find_in_list].
  - reflexivity.
  - rewrite gc_item_did. destruct (id_eqb (did x) i); [reflexivity|exact IH].
Qed.

Lemma find_item_gc_lists : forall keep i ls,
  find_item i (gc_lists keep ls) =
  option_map (fun kx => (fst kx, gc_item keep (snd kx))) (find_item i ls).
Proof.
  intros keep i ls. unfold gc_lists. induction ls as [|[k l] r IH]; cbn [map find_item fst snd].
  - reflexivity.
  - rewrite find_in_list_gc. destruct (find_in_list i l); cbn [option_map]; [reflexivity|exact IH].
Qed.

Lemma find_item_filter_keep : forall (P : seqkey -> bool) i ls k x,
  find_item i ls = Some (k, x) -> P k = true ->
  find_item i (filter (fun kl => P (fst kl)) ls) = Some (k, x).
Proof.
  intros P i ls k x. induction ls as [|[k0 l0] r IH]; cbn [find_item filter fst]; intros Hf HP.
  - discriminate.
  - destruct (find_in_list i l0) as [y|] eqn:E.
    + inversion Hf; subst. rewrite HP. cbn [find_item]. rewrite E. reflexivity.
    + destruct (P k0); cbn [find_item]; [rewrite E|]; apply IH; assumption.
Qed.

(* 5 (second half) *)
Theorem kept_items_survive_gc_doc : forall keep d i k x,
  keep i = true -> find_item i (d_lists d) = Some (k, x) -> dead_parent keep d k = false ->
  find_item i (d_lists (gc_doc keep d)) = Some (k, x).
Proof.
  intros keep d i k x Hk Hf Hd. unfold gc_doc. cbn [d_lists].
  rewrite find_item_gc_lists.
  rewrite (find_item_filter_keep (fun k0 => negb (dead_parent keep d k0)) i (d_lists d) k x Hf).
  2:{ rewrite Hd. reflexivity. }
  cbn [option_map fst snd]. rewrite kept_items_not_collected; [reflexivity|].
  destruct (find_item_In_inv _ _ _ _ Hf) as (l & _ & _ & E). rewrite E. exact Hk.
Qed.
Print Assumptions kept_items_survive_gc_doc.

Theorem kept_items_survive_gc_contents : forall keep d i k x,
  keep i = true -> find_item i (d_lists d) = Some (k, x) ->
  find_item i (d_lists (gc_contents keep d)) = Some (k, x).
Proof.
  intros keep d i k x Hk Hf. unfold gc_contents. cbn [d_lists].
  rewrite find_item_gc_lists, Hf. cbn [option_map fst snd].
  rewrite kept_items_not_collected; [reflexivity|].
  destruct (find_item_In_inv _ _ _ _ Hf) as (l & _ & _ & E). rewrite E. exact Hk.
Qed.
Print Assumptions kept_items_survive_gc_contents.

(* every item that survives gc_doc keeps id, origins, parent, sub, flag and list *)
Theorem gc_doc_find_item : forall keep d i k x,
  find_item i (d_lists d) = Some (k, x) -> dead_parent keep d k = false ->
  find_item i (d_lists (gc_doc keep d)) = Some (k, gc_item keep x).
Proof.
  intros keep d i k x Hf Hd. unfold gc_doc. cbn [d_lists].
  rewrite find_item_gc_lists.
  rewrite (find_item_filter_keep (fun k0 => negb (dead_parent keep d k0)) i (d_lists d) k x Hf).
  2:{ rewrite Hd. reflexivity. }
  reflexivity.
Qed.

(* ====================================================================== *)
(* 5. YATA placement does not read contents                                *)
(* ====================================================================== *)

(* what yata_scan / split_after read of an existing item *)
Definition skel_eq (a b : ditem) : Prop :=
  did a = did b /\ oorigin (d_op a) = oorigin (d_op b) /\ ororigin (d_op a) = ororigin (d_op b).

Lemma skel_eq_refl : forall a, skel_eq a a.
Proof. intros a. repeat split. Qed.

Lemma gc_item_skel : forall keep x, skel_eq (gc_item keep x) x.
Proof.
  intros keep x. split; [apply gc_item_did|]. split; [apply gc_item_origin|apply gc_item_rorigin].
Qed.

Lemma yata_scan_skel : forall x l1 l2, Forall2 skel_eq l1 l2 ->
  forall k lft conf before, yata_scan x l1 k lft conf before = yata_scan x l2 k lft conf before.
Proof.
  intros x l1 l2 H. induction H as [|a b r1 r2 (Hi & Ho & Hr) _ IH]; intros k lft conf before;
    cbn [yata_scan]; [reflexivity|].
  rewrite Hi, Ho, Hr, !IH. reflexivity.
Qed.

(* ... and of the new item *)
Lemma yata_scan_op_ext : forall x x' rest,
  oid x = oid x' -> oorigin x = oorigin x' -> ororigin x = ororigin x' ->
  forall k lft conf before, yata_scan x rest k lft conf before = yata_scan x' rest k lft conf before.
Proof.
  intros x x' rest Hi Ho Hr. induction rest as [|o r IH]; intros k lft conf before;
    cbn [yata_scan]; [reflexivity|].
  rewrite Hi, Ho, Hr, !IH. reflexivity.
Qed.

Lemma gc_list_Forall2_skel : forall keep l, Forall2 skel_eq (gc_list keep l) l.
Proof.
  intros keep l. unfold gc_list. induction l as [|x r IH]; cbn [map]; constructor;
    [apply gc_item_skel|exact IH].
Qed.

Lemma yata_scan_gc : forall keep x rest k lft conf before,
  yata_scan x (gc_list keep rest) k lft conf before = yata_scan x rest k lft conf before.
Proof. intros. apply yata_scan_skel. apply gc_list_Forall2_skel. Qed.

Lemma split_after_gc : forall keep i l,
  split_after i (gc_list keep l) =
  option_map (fun p => (gc_list keep (fst p), gc_list keep (snd p))) (split_after i l).
Proof.
  intros keep i l. unfold gc_list. induction l as [|y r IH]; cbn [map split_after].
  - reflexivity.
  - rewrite gc_item_did. destruct (id_eqb (did y) i); [reflexivity|].
    rewrite IH. destruct (split_after i r) as [[a b]|]; reflexivity.
Qed.

Lemma yi_split_gc : forall keep l x,
  yi_split (gc_list keep l) x = (gc_list keep (fst (yi_split l x)), gc_list keep (snd (yi_split l x))).
Proof.
  intros keep l x. unfold yi_split. destruct (oorigin (d_op x)) as [o|]; [|reflexivity].
  rewrite split_after_gc. destruct (split_after o l) as [[a b]|]; reflexivity.
Qed.

(* 3 *)
Theorem gc_commutes_with_insert : forall keep l x,
  exists l1 l2, l = l1 ++ l2 /\ yata_insert l x = l1 ++ x :: l2 /\
                yata_insert (gc_list keep l) x = gc_list keep l1 ++ x :: gc_list keep l2.
Proof.
  intros keep l x. rewrite !yata_insert_unfold. cbv zeta. rewrite yi_split_gc. cbn [fst snd].
  rewrite yata_scan_gc.
  set (pre := fst (yi_split l x)). set (suf := snd (yi_split l x)).
  set (n := yata_scan (d_op x) suf 0 0 [] []).
  exists (pre ++ firstn n suf), (skipn n suf). split; [|split].
  - rewrite <- app_assoc, firstn_skipn. apply yi_split_app.
  - rewrite <- app_assoc. reflexivity.
  - rewrite gc_list_app, <- app_assoc. unfold gc_list. rewrite firstn_map, skipn_map. reflexivity.
Qed.
Print Assumptions gc_commutes_with_insert.

Corollary gc_commutes_with_insert_ids : forall keep l x,
  map did (yata_insert (gc_list keep l) x) = map did (yata_insert l x).
Proof.
  intros keep l x. destruct (gc_commutes_with_insert keep l x) as (l1 & l2 & _ & E1 & E2).
  rewrite E1, E2, !map_app. cbn [map]. rewrite !gc_list_ids. reflexivity.
Qed.
Print Assumptions gc_commutes_with_insert_ids.

(* the position does not depend on the content of the new item either *)
Lemma yata_insert_new_ext : forall l x x',
  oid (d_op x) = oid (d_op x') -> oorigin (d_op x) = oorigin (d_op x') ->
  ororigin (d_op x) = ororigin (d_op x') ->
  forall l1 l2, yata_insert l x = l1 ++ x :: l2 -> l = l1 ++ l2 ->
  (forall z, In z l -> did z <> did x) ->
  yata_insert l x' = l1 ++ x' :: l2.
Proof.
  intros l x x' Hi Ho Hr l1 l2 E El Hn.
  rewrite yata_insert_unfold in E. rewrite yata_insert_unfold. cbv zeta in *.
  assert (Es : yi_split l x' = yi_split l x) by (unfold yi_split; rewrite Ho; reflexivity).
  rewrite Es. rewrite <- (yata_scan_op_ext (d_op x) (d_op x') _ Hi Ho Hr).
  set (pre := fst (yi_split l x)) in *. set (suf := snd (yi_split l x)) in *.
  set (n := yata_scan (d_op x) suf 0 0 [] []) in *.
  assert (Hl : l = (pre ++ firstn n suf) ++ skipn n suf).
  { rewrite <- app_assoc, firstn_skipn. apply yi_split_app. }
  rewrite app_assoc in E.
  (* x occurs once on each side: the two decompositions agree *)
  assert (Hx1 : ~ In x (pre ++ firstn n suf)).
  { intros A. apply (Hn x); [rewrite Hl; apply in_or_app; left; exact A|reflexivity]. }
  assert (Hx2 : ~ In x l1).
  { intros A. apply (Hn x); [rewrite El; apply in_or_app; left; exact A|reflexivity]. }
  assert (Hsame : forall (a1 b1 a2 b2 : list ditem), ~ In x a1 -> ~ In x a2 ->
            a1 ++ x :: b1 = a2 ++ x :: b2 -> a1 = a2 /\ b1 = b2).
  { induction a1 as [|h t IH]; intros b1 a2 b2 N1 N2 H; destruct a2 as [|h2 t2]; cbn [app] in H.
    - inversion H. auto.
    - inversion H; subst. exfalso. apply N2. left. reflexivity.
    - inversion H; subst. exfalso. apply N1. left. reflexivity.
    - inversion H; subst. destruct (IH b1 t2 b2) as [A B].
      + intros A. apply N1. right. exact A.
      + intros A. apply N2. right. exact A.
      + assumption.
      + subst. auto. }
  destruct (Hsame _ _ _ _ Hx1 Hx2 E) as [A B]. rewrite <- A, <- B, <- app_assoc. reflexivity.
Qed.

(* full commutation: GC after the insertion = insertion of the collected item into the collected list *)
Theorem gc_list_yata_insert : forall keep l x, (forall z, In z l -> did z <> did x) ->
  gc_list keep (yata_insert l x) = yata_insert (gc_list keep l) (gc_item keep x).
Proof.
  intros keep l x Hn. destruct (gc_commutes_with_insert keep l x) as (l1 & l2 & El & E1 & E2).
  rewrite E1, gc_list_app. cbn [gc_list map]. fold (gc_list keep l2). symmetry.
  apply (yata_insert_new_ext (gc_list keep l) x (gc_item keep x)).
  - symmetry. apply gc_item_did.
  - symmetry. apply gc_item_origin.
  - symmetry. apply gc_item_rorigin.
  - exact E2.
  - rewrite El. apply gc_list_app.
  - intros z Hz. unfold gc_list in Hz. apply in_map_iff in Hz. destruct Hz as (z0 & <- & Hz0).
    rewrite gc_item_did. apply Hn. exact Hz0.
Qed.
Print Assumptions gc_list_yata_insert.

(* ====================================================================== *)
(* 6. the simulation relation: equal up to collected contents              *)
(* ====================================================================== *)

(* [a] is [b], or [b] with its content collected *)
Definition erel (keep : id -> bool) (a b : ditem) : Prop := a = b \/ a = gc_item keep b.
Definition lrel (keep : id -> bool) (l1 l2 : list ditem) : Prop := Forall2 (erel keep) l1 l2.
Definition trel1 (keep : id -> bool) (a b : seqkey * list ditem) : Prop :=
  fst a = fst b /\ lrel keep (snd a) (snd b).
Definition trel (keep : id -> bool) (ls1 ls2 : list (seqkey * list ditem)) : Prop :=
  Forall2 (trel1 keep) ls1 ls2.
Definition drel (keep : id -> bool) (d1 d2 : doc) : Prop :=
  trel keep (d_lists d1) (d_lists d2) /\ d_gc d1 = d_gc d2.

Section Rel.
  Variable keep : id -> bool.

  Lemma erel_refl : forall a, erel keep a a.
  Proof. intros a. left. reflexivity. Qed.
  Lemma lrel_refl : forall l, lrel keep l l.
  Proof. intros l. apply Forall2_refl'. apply erel_refl. Qed.
  Lemma trel_refl : forall ls, trel keep ls ls.
  Proof. intros ls. apply Forall2_refl'. intros a. split; [reflexivity|apply lrel_refl]. Qed.
  Lemma drel_refl : forall d, drel keep d d.
  Proof. intros d. split; [apply trel_refl|reflexivity]. Qed.

  Lemma erel_gc : forall a, erel keep (gc_item keep a) a.
  Proof. intros a. right. reflexivity. Qed.
  Lemma erel_gc_l : forall a b, erel keep a b -> erel keep (gc_item keep a) b.
  Proof.
    intros a b [->| ->]; [right; reflexivity|]. right. apply gc_item_idem.
  Qed.

  Lemma erel_did : forall a b, erel keep a b -> did a = did b.
  Proof. intros a b [->| ->]; [reflexivity|apply gc_item_did]. Qed.
  Lemma erel_del : forall a b, erel keep a b -> d_del a = d_del b.
  Proof. intros a b [->| ->]; [reflexivity|apply gc_item_del]. Qed.
  Lemma erel_skel : forall a b, erel keep a b -> skel_eq a b.
  Proof. intros a b [->| ->]; [apply skel_eq_refl|apply gc_item_skel]. Qed.
  Lemma erel_live : forall a b, erel keep a b -> d_del b = false -> a = b.
  Proof. intros a b [->| ->] H; [reflexivity|apply gc_item_live; exact H]. Qed.
  Lemma erel_type_l : forall a b, erel keep a b -> is_type a = true -> a = b.
  Proof.
    intros a b [->| ->] H; [reflexivity|]. rewrite gc_item_is_type in H.
    apply andb_true_iff in H. destruct H as [_ H]. apply negb_true_iff in H.
    unfold gc_item. rewrite H. reflexivity.
  Qed.
  Lemma erel_nontype : forall a b, erel keep a b -> is_type b = false -> is_type a = false.
  Proof.
    intros a b [->| ->] H; [exact H|]. rewrite gc_item_is_type, H. reflexivity.
  Qed.
  Lemma erel_uncollected : forall a b, erel keep a b ->
    d_del b && negb (keep (did b)) = false -> a = b.
  Proof. intros a b [->| ->] H; [reflexivity|]. unfold gc_item. rewrite H. reflexivity. Qed.

  Lemma kill_deleted : forall b, d_del b = true -> kill b = b.
  Proof. intros [o f] H. cbn [d_del] in H. subst f. reflexivity. Qed.

  Lemma erel_kill : forall a b, erel keep a b -> erel keep (kill a) (kill b).
  Proof.
    intros a b [->| ->]; [left; reflexivity|].
    unfold gc_item. destruct (d_del b && negb (keep (did b))) eqn:E; [|left; reflexivity].
    right. unfold kill at 1. cbn [d_op].
    assert (Hk : kill b = b).
    { apply kill_deleted. apply andb_true_iff in E. tauto. }
    rewrite Hk. unfold gc_item. rewrite E. reflexivity.
  Qed.

  Lemma lrel_gc : forall l, lrel keep (gc_list keep l) l.
  Proof.
    intros l. unfold gc_list. induction l as [|x r IH]; cbn [map]; constructor;
      [apply erel_gc|exact IH].
  Qed.
  Lemma trel_gc : forall ls, trel keep (gc_lists keep ls) ls.
  Proof.
    intros ls. unfold gc_lists. induction ls as [|[k l] r IH]; cbn [map]; constructor; [|exact IH].
    split; [reflexivity|apply lrel_gc].
  Qed.
  Lemma drel_gc : forall d, drel keep (gc_contents keep d) d.
  Proof. intros d. split; [apply trel_gc|reflexivity]. Qed.

  Lemma lrel_gc_l : forall l1 l2, lrel keep l1 l2 -> lrel keep (gc_list keep l1) l2.
  Proof.
    intros l1 l2 H. unfold gc_list. induction H as [|a b r1 r2 Hab _ IH]; cbn [map]; constructor;
      [apply erel_gc_l; exact Hab|exact IH].
  Qed.
  Lemma drel_gc_l : forall d1 d2, drel keep d1 d2 -> drel keep (gc_contents keep d1) d2.
  Proof.
    intros d1 d2 [Ht Hg]. split; [|exact Hg]. unfold gc_contents, gc_lists. cbn [d_lists].
    induction Ht as [|[k1 l1] [k2 l2] r1 r2 [Hk Hl] _ IH]; cbn [map]; constructor; [|exact IH].
    split; [exact Hk|apply lrel_gc_l; exact Hl].
  Qed.

  (* ---------- observations agree ---------- *)
  Lemma lrel_ids : forall l1 l2, lrel keep l1 l2 -> map did l1 = map did l2.
  Proof.
    intros l1 l2 H. induction H as [|a b r1 r2 Hab _ IH]; cbn [map]; [reflexivity|].
    rewrite (erel_did _ _ Hab), IH. reflexivity.
  Qed.
  Lemma lrel_skel : forall l1 l2, lrel keep l1 l2 -> Forall2 skel_eq l1 l2.
  Proof.
    intros l1 l2 H. induction H as [|a b r1 r2 Hab _ IH]; constructor;
      [apply erel_skel; exact Hab|exact IH].
  Qed.
  Lemma lrel_visible : forall l1 l2, lrel keep l1 l2 -> visible l1 = visible l2.
  Proof.
    intros l1 l2 H. unfold visible. induction H as [|a b r1 r2 Hab _ IH]; cbn [filter]; [reflexivity|].
    rewrite (erel_del _ _ Hab). destruct (d_del b) eqn:E; cbn [negb]; [exact IH|].
    rewrite (erel_live _ _ Hab E), IH. reflexivity.
  Qed.
  Lemma trel_ids : forall ls1 ls2, trel keep ls1 ls2 -> ids_of ls1 = ids_of ls2.
  Proof.
    intros ls1 ls2 H. unfold ids_of. induction H as [|a b r1 r2 [_ Hl] _ IH]; cbn [flat_map]; [reflexivity|].
    rewrite (lrel_ids _ _ Hl), IH. reflexivity.
  Qed.
  Lemma trel_keys : forall ls1 ls2, trel keep ls1 ls2 -> map fst ls1 = map fst ls2.
  Proof.
    intros ls1 ls2 H. induction H as [|a b r1 r2 [Hk _] _ IH]; cbn [map]; [reflexivity|].
    rewrite Hk, IH. reflexivity.
  Qed.
  Lemma trel_get_list : forall k ls1 ls2, trel keep ls1 ls2 ->
    lrel keep (get_list k ls1) (get_list k ls2).
  Proof.
    intros k ls1 ls2 H. induction H as [|[k1 l1] [k2 l2] r1 r2 [Hk Hl] _ IH]; cbn [get_list].
    - constructor.
    - cbn [fst snd] in Hk, Hl. subst k2. destruct (seqkey_eqb k1 k); [exact Hl|exact IH].
  Qed.
  Lemma trel_set_list : forall k l1 l2 ls1 ls2, trel keep ls1 ls2 -> lrel keep l1 l2 ->
    trel keep (set_list k l1 ls1) (set_list k l2 ls2).
  Proof.
    intros k l1 l2 ls1 ls2 H Hl. induction H as [|[k1 m1] [k2 m2] r1 r2 [Hk Hm] Hr IH]; cbn [set_list].
    - constructor; [split; [reflexivity|exact Hl]|constructor].
    - cbn [fst snd] in Hk, Hm. subst k2. destruct (seqkey_eqb k1 k).
      + constructor; [split; [reflexivity|exact Hl]|exact Hr].
      + constructor; [split; [reflexivity|exact Hm]|exact IH].
  Qed.

  Lemma find_in_list_lrel : forall i l1 l2, lrel keep l1 l2 ->
    find_rel (erel keep) (find_in_list i l1) (find_in_list i l2).
  Proof.
    intros i l1 l2 H. induction H as [|a b r1 r2 Hab _ IH]; cbn [find_in_list]; [exact I|].
    rewrite (erel_did _ _ Hab). destruct (id_eqb (did b) i); [exact Hab|exact IH].
  Qed.
  Lemma find_item_trel : forall i ls1 ls2, trel keep ls1 ls2 ->
    find_rel (fun a b => fst a = fst b /\ erel keep (snd a) (snd b)) (find_item i ls1) (find_item i ls2).
  Proof.
    intros i ls1 ls2 H. induction H as [|[k1 l1] [k2 l2] r1 r2 [Hk Hl] _ IH]; cbn [find_item]; [exact I|].
    cbn [fst snd] in Hk, Hl. subst k2. pose proof (find_in_list_lrel i _ _ Hl) as Hr.
    unfold find_rel in Hr.
    destruct (find_in_list i l1) as [x1|]; destruct (find_in_list i l2) as [x2|]; try contradiction.
    - cbn [find_rel fst snd]. split; [reflexivity|exact Hr].
    - exact IH.
  Qed.

  Lemma drel_integrated : forall d1 d2 i, drel keep d1 d2 -> integrated d1 i = integrated d2 i.
  Proof.
    intros d1 d2 i [Ht Hg]. unfold integrated. pose proof (find_item_trel i _ _ Ht) as Hr.
    unfold find_rel in Hr. rewrite Hg.
    destruct (find_item i (d_lists d1)); destruct (find_item i (d_lists d2)); try contradiction; reflexivity.
  Qed.

  Theorem drel_vis_eq : forall d1 d2, drel keep d1 d2 -> vis_eq d1 d2.
  Proof.
    intros d1 d2 H. split.
    - intros k. apply lrel_visible. apply trel_get_list. exact (proj1 H).
    - intros i. apply drel_integrated. exact H.
  Qed.

  (* ---------- deletion respects the relation ---------- *)
  Lemma mark_deleted_lrel : forall i l1 l2, lrel keep l1 l2 ->
    lrel keep (mark_deleted i l1) (mark_deleted i l2).
  Proof.
    intros i l1 l2 H. induction H as [|a b r1 r2 Hab Hr IH]; cbn [mark_deleted]; [constructor|].
    rewrite (erel_did _ _ Hab). destruct (id_eqb (did b) i).
    - constructor; [exact (erel_kill _ _ Hab)|exact Hr].
    - constructor; [exact Hab|exact IH].
  Qed.

  Lemma map_kill_lrel : forall l1 l2, lrel keep l1 l2 -> lrel keep (map kill l1) (map kill l2).
  Proof.
    intros l1 l2 H. induction H as [|a b r1 r2 Hab _ IH]; cbn [map]; constructor;
      [apply erel_kill; exact Hab|exact IH].
  Qed.

  Lemma dc_step_trel : forall ps ls1 ls2, trel keep ls1 ls2 -> trel keep (dc_step ps ls1) (dc_step ps ls2).
  Proof.
    intros ps ls1 ls2 H. unfold dc_step.
    induction H as [|[k1 l1] [k2 l2] r1 r2 [Hk Hl] _ IH]; cbn [map]; constructor; [|exact IH].
    cbn [fst snd] in *. subst k2. destruct (hitk ps k1).
    - split; [reflexivity|]. cbn [snd]. apply (map_kill_lrel _ _ Hl).
    - split; [reflexivity|exact Hl].
  Qed.

  Lemma live_types_lrel : forall l1 l2, lrel keep l1 l2 ->
    map did (filter (fun x => negb (d_del x) && is_type x) l1) =
    map did (filter (fun x => negb (d_del x) && is_type x) l2).
  Proof.
    intros l1 l2 H. induction H as [|a b r1 r2 Hab _ IH]; cbn [filter map]; [reflexivity|].
    rewrite (erel_del _ _ Hab). destruct (d_del b) eqn:E; cbn [negb andb]; [exact IH|].
    rewrite (erel_live _ _ Hab E). destruct (is_type b); cbn [map]; rewrite IH; reflexivity.
  Qed.

  Lemma dc_newly_trel : forall ps ls1 ls2, trel keep ls1 ls2 -> dc_newly ps ls1 = dc_newly ps ls2.
  Proof.
    intros ps ls1 ls2 H. unfold dc_newly.
    induction H as [|[k1 l1] [k2 l2] r1 r2 [Hk Hl] _ IH]; cbn [flat_map]; [reflexivity|].
    cbn [fst snd] in *. subst k2. rewrite IH. destruct (hitk ps k1); [|reflexivity].
    rewrite (live_types_lrel _ _ Hl). reflexivity.
  Qed.

  Lemma delete_children_trel : forall fuel ps ls1 ls2, trel keep ls1 ls2 ->
    trel keep (delete_children fuel ps ls1) (delete_children fuel ps ls2).
  Proof.
    induction fuel as [|f IH]; intros ps ls1 ls2 H.
    - exact H.
    - destruct ps as [|p ps]; [rewrite !delete_children_nil; exact H|].
      rewrite !delete_children_S. rewrite (dc_newly_trel _ _ _ H). apply IH. apply dc_step_trel. exact H.
  Qed.

  Lemma Forall2_len : forall (A B : Type) (R : A -> B -> Prop) l1 l2,
    Forall2 R l1 l2 -> length l1 = length l2.
  Proof. intros A B R l1 l2 H. induction H; cbn [length]; congruence. Qed.

  Theorem delete_item_drel : forall i d1 d2, drel keep d1 d2 ->
    drel keep (delete_item i d1) (delete_item i d2).
  Proof.
    intros i d1 d2 [Ht Hg]. unfold delete_item.
    pose proof (find_item_trel i _ _ Ht) as Hr. unfold find_rel in Hr.
    destruct (find_item i (d_lists d1)) as [[k1 x1]|]; destruct (find_item i (d_lists d2)) as [[k2 x2]|];
      try contradiction; [|split; assumption].
    cbn [fst snd] in Hr. destruct Hr as [Hk Hx]. subst k2.
    rewrite (erel_del _ _ Hx). destruct (d_del x2) eqn:Ed; [split; assumption|].
    rewrite (erel_live _ _ Hx Ed).
    assert (Hs : trel keep (set_list k1 (mark_deleted i (get_list k1 (d_lists d1))) (d_lists d1))
                            (set_list k1 (mark_deleted i (get_list k1 (d_lists d2))) (d_lists d2))).
    { apply trel_set_list; [exact Ht|]. apply mark_deleted_lrel. apply trel_get_list. exact Ht. }
    split; [|exact Hg]. cbn [d_lists]. destruct (is_type x2); [|exact Hs].
    rewrite (Forall2_len _ _ _ _ _ Hs). apply delete_children_trel. exact Hs.
  Qed.

  Lemma parent_deleted_drel : forall p d1 d2, drel keep d1 d2 -> parent_deleted p d1 = parent_deleted p d2.
  Proof.
    intros p d1 d2 [Ht _]. unfold parent_deleted. destruct p as [n|pid|]; try reflexivity.
    pose proof (find_item_trel pid _ _ Ht) as Hr. unfold find_rel in Hr.
    destruct (find_item pid (d_lists d1)) as [[k1 x1]|]; destruct (find_item pid (d_lists d2)) as [[k2 x2]|];
      try contradiction; [|reflexivity].
    cbn [snd] in Hr. apply erel_del. exact (proj2 Hr).
  Qed.
End Rel.

(* ====================================================================== *)
(* 7. integration respects the relation                                    *)
(* ====================================================================== *)

Lemma Forall2_firstn : forall (A B : Type) (R : A -> B -> Prop) n l1 l2,
  Forall2 R l1 l2 -> Forall2 R (firstn n l1) (firstn n l2).
Proof.
  intros A B R n. induction n as [|n IH]; intros l1 l2 H; cbn [firstn]; [constructor|].
  destruct H; constructor; [assumption|apply IH; assumption].
Qed.
Lemma Forall2_skipn : forall (A B : Type) (R : A -> B -> Prop) n l1 l2,
  Forall2 R l1 l2 -> Forall2 R (skipn n l1) (skipn n l2).
Proof.
  intros A B R n. induction n as [|n IH]; intros l1 l2 H; cbn [skipn]; [exact H|].
  destruct H; [constructor|apply IH; assumption].
Qed.
Lemma Forall2_rev : forall (A B : Type) (R : A -> B -> Prop) l1 l2,
  Forall2 R l1 l2 -> Forall2 R (rev l1) (rev l2).
Proof.
  intros A B R l1 l2 H. induction H; cbn [rev]; [constructor|].
  apply Forall2_app; [assumption|constructor; [assumption|constructor]].
Qed.

(* an op is safe for GC in [d] when it does not land below a collected type *)
Definition gc_safe_op (keep : id -> bool) (d : doc) (o : op) : Prop :=
  forall key, resolve_parent o d = Some key -> dead_parent keep d key = false.
Definition gc_safe (keep : id -> bool) (d : doc) (x : xop) : Prop :=
  match x with XItem o => gc_safe_op keep d o | XGC _ => True end.

Section Rel2.
  Variable keep : id -> bool.

  Lemma split_after_lrel : forall i l1 l2, lrel keep l1 l2 ->
    find_rel (fun p q : list ditem * list ditem => lrel keep (fst p) (fst q) /\ lrel keep (snd p) (snd q))
             (split_after i l1) (split_after i l2).
  Proof.
    intros i l1 l2 H. induction H as [|a b r1 r2 Hab Hr IH]; cbn [split_after]; [exact I|].
    rewrite (erel_did _ _ _ Hab). destruct (id_eqb (did b) i).
    - cbn [find_rel fst snd]. split; [constructor; [exact Hab|constructor]|exact Hr].
    - unfold find_rel in IH.
      destruct (split_after i r1) as [[a1 b1]|]; destruct (split_after i r2) as [[a2 b2]|];
        try contradiction; [|exact I].
      cbn [find_rel fst snd] in *. destruct IH as [IH1 IH2].
      split; [constructor; assumption|exact IH2].
  Qed.

  Lemma yi_split_lrel : forall l1 l2 x, lrel keep l1 l2 ->
    lrel keep (fst (yi_split l1 x)) (fst (yi_split l2 x)) /\
    lrel keep (snd (yi_split l1 x)) (snd (yi_split l2 x)).
  Proof.
    intros l1 l2 x H. unfold yi_split. destruct (oorigin (d_op x)) as [o|].
    2:{ cbn [fst snd]. split; [constructor|exact H]. }
    pose proof (split_after_lrel o _ _ H) as Hs. unfold find_rel in Hs.
    destruct (split_after o l1) as [[a1 b1]|]; destruct (split_after o l2) as [[a2 b2]|];
      try contradiction.
    - exact Hs.
    - cbn [fst snd]. split; [constructor|exact H].
  Qed.

  Theorem yata_insert_lrel : forall l1 l2 x, lrel keep l1 l2 ->
    lrel keep (yata_insert l1 x) (yata_insert l2 x).
  Proof.
    intros l1 l2 x H. rewrite !yata_insert_unfold. cbv zeta.
    destruct (yi_split_lrel l1 l2 x H) as [Hp Hs].
    rewrite (yata_scan_skel (d_op x) _ _ (lrel_skel keep _ _ Hs)).
    set (n := yata_scan (d_op x) (snd (yi_split l2 x)) 0 0 [] []).
    apply Forall2_app; [exact Hp|]. apply Forall2_app; [apply Forall2_firstn; exact Hs|].
    constructor; [apply erel_refl|apply Forall2_skipn; exact Hs].
  Qed.

  Lemma resolve_parent_drel : forall o d1 d2, drel keep d1 d2 -> gc_safe_op keep d2 o ->
    resolve_parent o d1 = resolve_parent o d2.
  Proof.
    intros o d1 d2 [Ht _] Hsafe. unfold gc_safe_op in Hsafe. unfold resolve_parent in *. cbv zeta in *.
    set (L1 := match oorigin o with Some i => find_item i (d_lists d1) | None => None end).
    set (L2 := match oorigin o with Some i => find_item i (d_lists d2) | None => None end) in *.
    set (R1 := match ororigin o with Some i => find_item i (d_lists d1) | None => None end).
    set (R2 := match ororigin o with Some i => find_item i (d_lists d2) | None => None end) in *.
    assert (HL : find_rel (fun a b : seqkey * ditem => fst a = fst b /\ erel keep (snd a) (snd b)) L1 L2).
    { unfold L1, L2. destruct (oorigin o); [apply find_item_trel; exact Ht|exact I]. }
    assert (HR : find_rel (fun a b : seqkey * ditem => fst a = fst b /\ erel keep (snd a) (snd b)) R1 R2).
    { unfold R1, R2. destruct (ororigin o); [apply find_item_trel; exact Ht|exact I]. }
    clearbody L1 L2 R1 R2.
    assert (EL : option_map fst L1 = option_map fst L2).
    { destruct L1 as [[? ?]|], L2 as [[? ?]|]; try contradiction; [|reflexivity].
      cbn in HL. destruct HL as [-> _]. reflexivity. }
    assert (ER : option_map fst R1 = option_map fst R2).
    { destruct R1 as [[? ?]|], R2 as [[? ?]|]; try contradiction; [|reflexivity].
      cbn in HR. destruct HR as [-> _]. reflexivity. }
    clear HL HR.
    destruct (oparent o) as [n|pid|].
    - destruct L1 as [[kl1 xl1]|], L2 as [[kl2 xl2]|]; try discriminate EL;
        destruct R1 as [[kr1 xr1]|], R2 as [[kr2 xr2]|]; try discriminate ER;
        cbn [option_map fst] in EL, ER;
        repeat match goal with H : Some _ = Some _ |- _ => injection H as H; subst end; reflexivity.
    - pose proof (find_item_trel keep pid _ _ Ht) as Hp. unfold find_rel in Hp.
      destruct (find_item pid (d_lists d1)) as [[k1 px1]|];
        destruct (find_item pid (d_lists d2)) as [[k2 px2]|] eqn:Ef2; try contradiction; [|reflexivity].
      cbn [fst snd] in Hp. destruct Hp as [_ Hx].
      destruct (is_type px2) eqn:T2.
      + assert (E : px1 = px2).
        { apply (erel_uncollected keep _ _ Hx).
          specialize (Hsafe _ eq_refl). unfold dead_parent in Hsafe. cbn [fst] in Hsafe.
          rewrite Ef2, T2, andb_true_r in Hsafe.
          destruct (find_item_In_inv _ _ _ _ Ef2) as (l & _ & _ & E). rewrite E. exact Hsafe. }
        rewrite E, T2.
        destruct L1 as [[kl1 xl1]|], L2 as [[kl2 xl2]|]; try discriminate EL;
          destruct R1 as [[kr1 xr1]|], R2 as [[kr2 xr2]|]; try discriminate ER;
          cbn [option_map fst] in EL, ER;
          repeat match goal with H : Some _ = Some _ |- _ => injection H as H; subst end; reflexivity.
      + rewrite (erel_nontype keep _ _ Hx T2). reflexivity.
    - destruct L1 as [[kl1 xl1]|], L2 as [[kl2 xl2]|]; try discriminate EL;
        destruct R1 as [[kr1 xr1]|], R2 as [[kr2 xr2]|]; try discriminate ER;
        cbn [option_map fst] in EL, ER;
        repeat match goal with H : Some _ = Some _ |- _ => injection H as H; subst end; reflexivity.
  Qed.

  Theorem integrate_op_drel : forall o d1 d2, drel keep d1 d2 -> gc_safe_op keep d2 o ->
    drel keep (integrate_op d1 o) (integrate_op d2 o).
  Proof.
    intros o d1 d2 Hd Hsafe. unfold integrate_op. rewrite (resolve_parent_drel o d1 d2 Hd Hsafe).
    destruct (resolve_parent o d2) as [key|].
    2:{ split; cbn [d_lists d_gc]; [exact (proj1 Hd)|rewrite (proj2 Hd); reflexivity]. }
    cbv zeta.
    set (x := mkditem (mkop (oid o) (oorigin o) (ororigin o) (fst key) (snd key) (ocont o))
                      (match ocont o with UDeleted => true | _ => false end)).
    set (l1' := yata_insert (get_list key (d_lists d1)) x).
    set (l2' := yata_insert (get_list key (d_lists d2)) x).
    assert (Hl' : lrel keep l1' l2').
    { apply yata_insert_lrel. apply trel_get_list. exact (proj1 Hd). }
    set (e1 := mkdoc (set_list key l1' (d_lists d1)) (d_gc d1)).
    set (e2 := mkdoc (set_list key l2' (d_lists d2)) (d_gc d2)).
    assert (He : drel keep e1 e2).
    { split; [apply trel_set_list; [exact (proj1 Hd)|exact Hl']|exact (proj2 Hd)]. }
    match goal with
    | |- drel keep (if _ then delete_item _ ?A else _) (if _ then delete_item _ ?B else _) =>
        assert (H2 : drel keep A B)
    end.
    { destruct (snd key) as [s|]; [|exact He].
      pose proof (split_after_lrel (oid o) _ _ Hl') as Hs. unfold find_rel in Hs.
      destruct (split_after (oid o) l1') as [[u1 s1]|]; destruct (split_after (oid o) l2') as [[u2 s2]|];
        try contradiction; [|apply delete_item_drel; exact He].
      cbn [fst snd] in Hs. destruct Hs as [Hu Hs].
      destruct Hs as [|a b s1 s2 Hab Hs]; [|apply delete_item_drel; exact He].
      apply Forall2_rev in Hu.
      destruct Hu as [|a b r1 r2 Hab Hu]; [exact He|].
      destruct Hu as [|lft1 lft2 r1 r2 Hlft Hu]; [exact He|].
      rewrite (erel_did keep _ _ Hlft). apply delete_item_drel. exact He. }
    rewrite (parent_deleted_drel keep _ _ _ H2).
    destruct (parent_deleted (fst key) _); [apply delete_item_drel; exact H2|exact H2].
  Qed.

  Theorem integrate_x_drel : forall x d1 d2, drel keep d1 d2 -> gc_safe keep d2 x ->
    drel keep (integrate_x d1 x) (integrate_x d2 x).
  Proof.
    intros [o|i] d1 d2 Hd Hs; cbn [integrate_x].
    - apply integrate_op_drel; assumption.
    - split; cbn [d_lists d_gc]; [exact (proj1 Hd)|rewrite (proj2 Hd); reflexivity].
  Qed.
End Rel2.

(* 4, one op, level (a) *)
Theorem gc_commutes_with_integrate : forall keep d o, gc_safe_op keep d o ->
  vis_eq (gc_contents keep (integrate_op d o)) (integrate_op (gc_contents keep d) o).
Proof.
  intros keep d o Hs. eapply vis_eq_trans; [apply gc_contents_vis_eq|].
  apply vis_eq_sym. apply (drel_vis_eq keep). apply integrate_op_drel; [apply drel_gc|exact Hs].
Qed.
Print Assumptions gc_commutes_with_integrate.

(* the same, as the simulation relation (strictly stronger than vis_eq: same items up to collected
   contents, position by position) *)
Theorem gc_commutes_with_integrate_drel : forall keep d o, gc_safe_op keep d o ->
  drel keep (gc_contents keep (integrate_op (gc_contents keep d) o)) (integrate_op d o) /\
  drel keep (gc_contents keep (integrate_op d o)) (integrate_op d o).
Proof.
  intros keep d o Hs. split; [|apply drel_gc].
  apply drel_gc_l. apply integrate_op_drel; [apply drel_gc|exact Hs].
Qed.

(* deletion commutes with GC unconditionally *)
Theorem gc_commutes_with_delete : forall keep d i,
  vis_eq (gc_contents keep (delete_item i d)) (delete_item i (gc_contents keep d)).
Proof.
  intros keep d i. eapply vis_eq_trans; [apply gc_contents_vis_eq|].
  apply vis_eq_sym. apply (drel_vis_eq keep). apply delete_item_drel. apply drel_gc.
Qed.
Print Assumptions gc_commutes_with_delete.

(* ====================================================================== *)
(* 8. lifting to delete sets and delivery                                  *)
(* ====================================================================== *)

Lemma fold_delete_drel : forall keep (js : list id) d1 d2, drel keep d1 d2 ->
  drel keep (fold_left (fun d i => delete_item i d) js d1) (fold_left (fun d i => delete_item i d) js d2).
Proof.
  intros keep js. induction js as [|j r IH]; intros d1 d2 H; cbn [fold_left]; [exact H|].
  apply IH. apply delete_item_drel. exact H.
Qed.

Theorem apply_ds_drel : forall keep s d1 d2, drel keep d1 d2 -> drel keep (apply_ds d1 s) (apply_ds d2 s).
Proof. intros keep s d1 d2 H. unfold apply_ds. apply fold_delete_drel. exact H. Qed.

Theorem gc_commutes_with_apply_ds : forall keep d s,
  vis_eq (gc_contents keep (apply_ds d s)) (apply_ds (gc_contents keep d) s).
Proof.
  intros keep d s. eapply vis_eq_trans; [apply gc_contents_vis_eq|].
  apply vis_eq_sym. apply (drel_vis_eq keep). apply apply_ds_drel. apply drel_gc.
Qed.
Print Assumptions gc_commutes_with_apply_ds.

Lemma ready_drel : forall keep d1 d2 x, drel keep d1 d2 -> ready d1 x = ready d2 x.
Proof.
  intros keep d1 d2 x H. unfold ready. induction (deps x) as [|i r IH]; cbn [forallb]; [reflexivity|].
  rewrite (drel_integrated keep _ _ i H), IH. reflexivity.
Qed.

Section DeliverRel.
  Variable keep : id -> bool.
  (* [Safe]: an invariant of the uncollected replica under which the ops satisfying [okx] never
     land below a collected type *)
  Variable Safe : doc -> Prop.
  Variable okx : xop -> Prop.
  Hypothesis Safe_step : forall d x, Safe d -> okx x -> integrated d (xid x) = false -> Safe (integrate_x d x).
  Hypothesis Safe_ok : forall d x, Safe d -> okx x -> gc_safe keep d x.

  Lemma deliver_pass_drel : forall w d1 d2 kept progress,
    drel keep d1 d2 -> Safe d2 -> (forall x, In x w -> okx x) ->
    drel keep (fst (fst (deliver_pass d1 w kept progress))) (fst (fst (deliver_pass d2 w kept progress))) /\
    snd (fst (deliver_pass d1 w kept progress)) = snd (fst (deliver_pass d2 w kept progress)) /\
    snd (deliver_pass d1 w kept progress) = snd (deliver_pass d2 w kept progress) /\
    Safe (fst (fst (deliver_pass d2 w kept progress))).
  Proof.
    induction w as [|x r IH]; intros d1 d2 kept progress Hd Hs Hok; cbn [deliver_pass].
    - cbn [fst snd]. auto.
    - assert (Hokr : forall y, In y r -> okx y) by (intros y Hy; apply Hok; right; exact Hy).
      assert (Hx : okx x) by (apply Hok; left; reflexivity).
      rewrite (drel_integrated keep _ _ (xid x) Hd), (ready_drel keep _ _ x Hd).
      destruct (integrated d2 (xid x)) eqn:Ei; [apply IH; assumption|].
      destruct (ready d2 x); [|apply IH; assumption].
      apply IH; [|apply Safe_step; assumption|assumption].
      apply integrate_x_drel; [exact Hd|apply Safe_ok; assumption].
  Qed.

  Lemma deliver_loop_drel : forall fuel w d1 d2,
    drel keep d1 d2 -> Safe d2 -> (forall x, In x w -> okx x) ->
    drel keep (fst (deliver_loop fuel d1 w)) (fst (deliver_loop fuel d2 w)) /\
    snd (deliver_loop fuel d1 w) = snd (deliver_loop fuel d2 w) /\
    Safe (fst (deliver_loop fuel d2 w)).
  Proof.
    induction fuel as [|f IH]; intros w d1 d2 Hd Hs Hok; cbn [deliver_loop].
    - cbn [fst snd]. auto.
    - destruct (deliver_pass_drel w d1 d2 [] false Hd Hs Hok) as (A & B & C & D).
      destruct (deliver_pass d1 w [] false) as [[d1' w1'] p1].
      destruct (deliver_pass d2 w [] false) as [[d2' w2'] p2] eqn:E2.
      cbn [fst snd] in A, B, C, D. subst w1' p1.
      destruct p2; [|cbn [fst snd]; auto].
      apply IH; [exact A|exact D|].
      destruct (deliver_pass_conserves _ _ _ _ _ _ _ E2) as (k2 & Ek & _ & Hincl).
      cbn [rev app] in Ek. subst k2. intros y Hy. apply Hok. apply Hincl. exact Hy.
  Qed.

  Theorem deliver_drel : forall w d1 d2,
    drel keep d1 d2 -> Safe d2 -> (forall x, In x w -> okx x) ->
    drel keep (fst (deliver d1 w)) (fst (deliver d2 w)) /\ snd (deliver d1 w) = snd (deliver d2 w).
  Proof.
    intros w d1 d2 Hd Hs Hok. unfold deliver.
    destruct (deliver_loop_drel (S (length w)) w d1 d2 Hd Hs Hok) as (A & B & _). auto.
  Qed.

  (* 4, lifted: a replica that collects contents before delivery is observationally the replica that does not *)
  Theorem gc_replica_equals_nogc_replica : forall d w,
    Safe d -> (forall x, In x w -> okx x) ->
    vis_eq (fst (deliver (gc_contents keep d) w)) (fst (deliver d w)) /\
    snd (deliver (gc_contents keep d) w) = snd (deliver d w).
  Proof.
    intros d w Hs Hok. destruct (deliver_drel w (gc_contents keep d) d (drel_gc keep d) Hs Hok) as [A B].
    split; [apply (drel_vis_eq keep); exact A|exact B].
  Qed.

  (* ... and collecting afterwards changes nothing either *)
  Theorem gc_commutes_with_deliver_gen : forall d w,
    Safe d -> (forall x, In x w -> okx x) ->
    vis_eq (gc_contents keep (fst (deliver d w))) (fst (deliver (gc_contents keep d) w)).
  Proof.
    intros d w Hs Hok. eapply vis_eq_trans; [apply gc_contents_vis_eq|].
    apply vis_eq_sym. apply (gc_replica_equals_nogc_replica d w Hs Hok).
  Qed.
End DeliverRel.
Print Assumptions gc_replica_equals_nogc_replica.

(* ---------- instance: documents without nested types ---------- *)
Definition flat_key (k : seqkey) : Prop := match fst k with PId _ => False | _ => True end.
Definition flat_doc (d : doc) : Prop := forall k, In k (map fst (d_lists d)) -> flat_key k.
Definition flat_xop (x : xop) : Prop :=
  match x with
  | XItem o => match oparent o with PId _ => False | _ => True end
  | XGC _ => True
  end.

Lemma resolve_parent_flat : forall d o key,
  flat_doc d -> flat_xop (XItem o) -> resolve_parent o d = Some key -> flat_key key.
Proof.
  intros d o key Hd Ho H. unfold resolve_parent in H. cbv zeta in H. cbn [flat_xop] in Ho.
  destruct (oparent o) as [n|pid|]; [|contradiction|].
  - inversion H; subst. exact I.
  - assert (Hk : forall i k x, find_item i (d_lists d) = Some (k, x) -> flat_key k).
    { intros i k x Hf. apply Hd. eapply find_item_key. exact Hf. }
    destruct (oorigin o) as [i|].
    + destruct (find_item i (d_lists d)) as [[k x]|] eqn:Ef.
      * inversion H; subst. unfold flat_key. cbn [fst]. exact (Hk _ _ _ Ef).
      * destruct (ororigin o) as [j|]; [|discriminate].
        destruct (find_item j (d_lists d)) as [[k x]|] eqn:Ef'; [|discriminate].
        inversion H; subst. unfold flat_key. cbn [fst]. exact (Hk _ _ _ Ef').
    + destruct (ororigin o) as [j|]; [|discriminate].
      destruct (find_item j (d_lists d)) as [[k x]|] eqn:Ef'; [|discriminate].
      inversion H; subst. unfold flat_key. cbn [fst]. exact (Hk _ _ _ Ef').
Qed.

Lemma flat_key_not_dead : forall keep d k, flat_key k -> dead_parent keep d k = false.
Proof.
  intros keep d k H. unfold dead_parent. unfold flat_key in H. destruct (fst k); [reflexivity|contradiction|reflexivity].
Qed.

Lemma delete_item_flat : forall i d, flat_doc d -> flat_doc (delete_item i d).
Proof.
  intros i d H k Hk. apply H. rewrite (tle_keys _ _ (delete_item_tle i d)). exact Hk.
Qed.

Lemma integrate_op_flat : forall d o, flat_doc d -> flat_xop (XItem o) -> flat_doc (integrate_op d o).
Proof.
  intros d o Hd Ho. unfold integrate_op.
  destruct (resolve_parent o d) as [key|] eqn:Er; [|exact Hd].
  cbv zeta.
  assert (H1 : flat_doc (mkdoc (set_list key
             (yata_insert (get_list key (d_lists d))
                (mkditem (mkop (oid o) (oorigin o) (ororigin o) (fst key) (snd key) (ocont o))
                         (match ocont o with UDeleted => true | _ => false end)))
             (d_lists d)) (d_gc d))).
  { intros k Hk. cbn [d_lists] in Hk.
    destruct (in_dec (fun a b => match seqkey_eqb a b as c return seqkey_eqb a b = c -> {a = b} + {a <> b} with
                                 | true => fun e => left (proj1 (seqkey_eqb_eq a b) e)
                                 | false => fun e => right (proj1 (seqkey_eqb_neq a b) e)
                                 end eq_refl) key (map fst (d_lists d))) as [A|A].
    - rewrite (proj1 (set_list_keys key _ (d_lists d)) A) in Hk. apply Hd. exact Hk.
    - rewrite (proj2 (set_list_keys key _ (d_lists d)) A) in Hk. apply in_app_or in Hk.
      destruct Hk as [Hk|[<-|[]]]; [apply Hd; exact Hk|].
      eapply resolve_parent_flat; eassumption. }
  repeat match goal with
         | |- flat_doc (match ?e with _ => _ end) => destruct e
         | |- flat_doc (delete_item _ _) => apply delete_item_flat
         end; exact H1.
Qed.

Theorem gc_replica_equals_nogc_replica_flat : forall keep d w,
  flat_doc d -> (forall x, In x w -> flat_xop x) ->
  vis_eq (fst (deliver (gc_contents keep d) w)) (fst (deliver d w)) /\
  snd (deliver (gc_contents keep d) w) = snd (deliver d w).
Proof.
  intros keep d w Hd Hw.
  apply (gc_replica_equals_nogc_replica keep flat_doc flat_xop); [| |exact Hd|exact Hw].
  - intros d0 [o|i] H0 Hx _; cbn [integrate_x]; [apply integrate_op_flat; assumption|exact H0].
  - intros d0 [o|i] H0 Hx; cbn [gc_safe]; [|exact I].
    intros key Hr. apply flat_key_not_dead. eapply resolve_parent_flat; eassumption.
Qed.
Print Assumptions gc_replica_equals_nogc_replica_flat.

(* ====================================================================== *)
(* 9. the invariant [subtree_dead] holds in every reachable state          *)
(* ====================================================================== *)

(* everything below a deleted type is deleted, except possibly the items whose id satisfies [J] *)
Definition sd_except (J : id -> Prop) (d : doc) : Prop :=
  forall k l, In (k, l) (d_lists d) -> dead_parent (fun _ => false) d k = true ->
  forall x, In x l -> J (did x) \/ d_del x = true.

Lemma subtree_dead_sd_except : forall d, subtree_dead d <-> sd_except (fun _ => False) d.
Proof.
  intros d. split.
  - intros H k l Hin Hd x Hx. right. eapply H; eassumption.
  - intros H k l Hin Hd x Hx. destruct (H k l Hin Hd x Hx) as [[]|A]. exact A.
Qed.

Lemma sd_except_weaken : forall (J : id -> Prop) d, subtree_dead d -> sd_except J d.
Proof. intros J d H k l Hin Hd x Hx. right. eapply H; eassumption. Qed.

Lemma dead_parent0_obs : forall d k,
  dead_parent (fun _ => false) d k =
  match fst k with PId p => deadb (d_lists d) p && typb (d_lists d) p | _ => false end.
Proof.
  intros d k. unfold dead_parent, deadb, typb. destruct (fst k) as [n|p|]; try reflexivity.
  destruct (find_item p (d_lists d)) as [[k0 x]|]; [|reflexivity].
  cbn [negb]. rewrite andb_true_r. reflexivity.
Qed.

Lemma empty_subtree_dead : subtree_dead empty_doc.
Proof. intros k l []. Qed.

Theorem delete_item_sd_except : forall J j d, NoDupKeys d -> NoDupIds d ->
  sd_except J d -> sd_except J (delete_item j d).
Proof.
  intros J j d Hnk Hni Hs k l' Hin Hdead x' Hx'.
  pose proof (delete_item_tle j d) as Ht.
  pose proof (delete_item_NoDupIds j d Hni) as Hni'.
  destruct (Forall2_In_r _ _ _ _ _ _ Ht Hin) as ([k0 l0] & Hin0 & Hk0 & Hf).
  cbn [fst snd] in Hk0, Hf. subst k0.
  destruct (Forall2_In_r _ _ _ _ _ _ Hf Hx') as (x0 & Hx0 & Hop & Hdl).
  assert (Eid : did x0 = did x') by (unfold did; rewrite Hop; reflexivity).
  rewrite dead_parent0_obs in Hdead.
  destruct (fst k) as [n|p|] eqn:Ek; try discriminate.
  apply andb_true_iff in Hdead. destruct Hdead as [Hdp Htp].
  rewrite <- (tle_typb _ _ p Ht) in Htp.
  assert (CaseA : deadb (d_lists d) p = true -> J (did x') \/ d_del x' = true).
  { intros Hd0. rewrite <- Eid.
    destruct (Hs k l0 Hin0) with (x := x0) as [A|A].
    - rewrite dead_parent0_obs, Ek, Hd0, Htp. reflexivity.
    - exact Hx0.
    - left. exact A.
    - right. apply Hdl. exact A. }
  apply (delete_item_spec j d p Hnk Hni) in Hdp. destruct Hdp as [Hd0|[Hlj Hb]]; [apply CaseA; exact Hd0|].
  destruct (deadb (d_lists d) p) eqn:Hd0; [apply CaseA; reflexivity|].
  right.
  assert (Hlp : liveb (d_lists d) p = true).
  { unfold typb in Htp. unfold deadb in Hd0. unfold liveb.
    destruct (find_item p (d_lists d)) as [[kp px]|]; [|discriminate]. rewrite Hd0. reflexivity. }
  assert (Hpar : parof (d_lists d) (did x0) = Some p).
  { unfold parof. rewrite (find_item_In _ _ _ _ Hni Hin0 Hx0), Ek. reflexivity. }
  assert (Hbx : below (d_lists d) j (did x0)) by (eapply below_step; eassumption).
  rewrite (deadb_In _ _ _ _ Hni' Hin Hx'), <- Eid.
  apply (delete_item_spec j d (did x0) Hnk Hni). right. split; assumption.
Qed.

Theorem delete_item_subtree_dead : forall j d, NoDupKeys d -> NoDupIds d ->
  subtree_dead d -> subtree_dead (delete_item j d).
Proof.
  intros j d Hnk Hni H. apply subtree_dead_sd_except. apply delete_item_sd_except; try assumption.
  apply subtree_dead_sd_except. exact H.
Qed.
Print Assumptions delete_item_subtree_dead.

Definition gc_wf (d : doc) : Prop := subtree_dead d /\ NoDupKeys d /\ NoDupIds d.

Lemma empty_gc_wf : gc_wf empty_doc.
Proof. split; [apply empty_subtree_dead|split; [apply empty_NoDupKeys|apply empty_NoDupIds]]. Qed.

Theorem delete_item_gc_wf : forall j d, gc_wf d -> gc_wf (delete_item j d).
Proof.
  intros j d (H1 & H2 & H3). split; [apply delete_item_subtree_dead; assumption|].
  split; [apply delete_item_NoDupKeys; exact H2|apply delete_item_NoDupIds; exact H3].
Qed.

Theorem apply_ds_gc_wf : forall d s, gc_wf d -> gc_wf (apply_ds d s).
Proof.
  intros d s. unfold apply_ds. generalize (ds_points s). intros js. revert d.
  induction js as [|j r IH]; intros d H; cbn [fold_left]; [exact H|].
  apply IH. apply delete_item_gc_wf. exact H.
Qed.

(* --- integration --- *)
Lemma set_list_In_self : forall k l ls, In (k, l) (set_list k l ls).
Proof.
  intros k l ls. induction ls as [|[k0 l0] r IH]; cbn [set_list]; [left; reflexivity|].
  destruct (seqkey_eqb k0 k); [left; reflexivity|right; exact IH].
Qed.

Section IntegrateSd.
  Variables (d : doc) (o : op) (key : seqkey).
  Let x := mkditem (mkop (oid o) (oorigin o) (ororigin o) (fst key) (snd key) (ocont o))
                   (match ocont o with UDeleted => true | _ => false end).
  Let l := get_list key (d_lists d).
  Let l' := yata_insert l x.
  Let e1 := mkdoc (set_list key l' (d_lists d)) (d_gc d).
  Hypothesis Hnk : NoDupKeys d.
  Hypothesis Hni : NoDupIds d.
  Hypothesis Hnot : integrated d (oid o) = false.
  Hypothesis Hs : subtree_dead d.

  Lemma x_not_dead_type : d_del x && is_type x = false.
  Proof. unfold x, is_type. cbn [d_del d_op ocont]. destruct (ocont o); reflexivity. Qed.

  Lemma in_l_in_d : forall y, In y l -> In (key, l) (d_lists d).
  Proof.
    intros y Hy. unfold l in *. destruct (get_list_In key (d_lists d)) as [A|[A _]]; [exact A|].
    rewrite A in Hy. destruct Hy.
  Qed.

  Lemma e1_dead_parent : forall k, dead_parent (fun _ => false) e1 k = true ->
    dead_parent (fun _ => false) d k = true.
  Proof.
    intros k. unfold dead_parent. destruct (fst k) as [n|p|]; try discriminate.
    destruct (find_item p (d_lists e1)) as [[kp px]|] eqn:Ef; [|discriminate].
    intros Hd. destruct (find_item_In_inv _ _ _ _ Ef) as (lp & Hin & Hpx & Ep).
    unfold e1 in Hin. cbn [d_lists] in Hin. apply set_list_In in Hin.
    assert (Hold : forall k0 l0, In (k0, l0) (d_lists d) -> In px l0 ->
              match find_item p (d_lists d) with
              | Some (_, x0) => d_del x0 && negb false && is_type x0
              | None => false
              end = true).
    { intros k0 l0 H1 H2. rewrite <- Ep. rewrite (find_item_In _ _ _ _ Hni H1 H2). exact Hd. }
    destruct Hin as [[_ El]|Hin].
    - subst lp. unfold l' in Hpx. apply yata_insert_mem in Hpx. destruct Hpx as [Hpx|Hpx].
      + subst px. cbn [negb] in Hd. rewrite andb_true_r in Hd. rewrite x_not_dead_type in Hd. discriminate.
      + eapply Hold; [eapply in_l_in_d; exact Hpx|exact Hpx].
    - eapply Hold; eassumption.
  Qed.

  Lemma e1_sd_except : sd_except (fun i => i = oid o) e1.
  Proof.
    intros k l0 Hin Hd y Hy. apply e1_dead_parent in Hd.
    unfold e1 in Hin. cbn [d_lists] in Hin. apply set_list_In in Hin.
    destruct Hin as [[Ek El]|Hin].
    - subst k l0. unfold l' in Hy. apply yata_insert_mem in Hy. destruct Hy as [Hy|Hy].
      + left. subst y. reflexivity.
      + right. eapply Hs; [eapply in_l_in_d; exact Hy|exact Hd|exact Hy].
    - right. eapply Hs; eassumption.
  Qed.

  Lemma e1_find_new : find_item (oid o) (d_lists e1) = Some (key, x).
  Proof.
    change (oid o) with (did x).
    apply (find_item_In (d_lists e1) key l' x).
    - apply (d1_NoDupIds d o key Hni Hnot).
    - unfold e1. cbn [d_lists]. apply set_list_In_self.
    - unfold l'. apply yata_insert_mem. left. reflexivity.
  Qed.
End IntegrateSd.

(* the state between the insertion and the final parent-deleted check *)
Definition mid (j : id) (e1 D : doc) : Prop :=
  NoDupKeys D /\ NoDupIds D /\ sd_except (fun i => i = j) D /\ tle (d_lists e1) (d_lists D).

Lemma mid_delete : forall j e1 D i, mid j e1 D -> mid j e1 (delete_item i D).
Proof.
  intros j e1 D i (H1 & H2 & H3 & H4). split; [apply delete_item_NoDupKeys; exact H1|].
  split; [apply delete_item_NoDupIds; exact H2|].
  split; [apply delete_item_sd_except; assumption|].
  eapply tle_trans; [exact H4|apply delete_item_tle].
Qed.

Lemma dead_parent0_parent_deleted : forall d k,
  dead_parent (fun _ => false) d k = true -> parent_deleted (fst k) d = true.
Proof.
  intros d k. unfold dead_parent, parent_deleted. destruct (fst k) as [n|p|]; try discriminate.
  destruct (find_item p (d_lists d)) as [[k0 x]|]; [|discriminate].
  destruct (d_del x); [reflexivity|discriminate].
Qed.

Theorem integrate_op_subtree_dead : forall d o,
  NoDupKeys d -> NoDupIds d -> integrated d (oid o) = false ->
  subtree_dead d -> subtree_dead (integrate_op d o).
Proof.
  intros d o Hnk Hni Hnot Hs. unfold integrate_op.
  destruct (resolve_parent o d) as [key|]; [|exact Hs].
  cbv zeta.
  set (x := mkditem (mkop (oid o) (oorigin o) (ororigin o) (fst key) (snd key) (ocont o))
                    (match ocont o with UDeleted => true | _ => false end)).
  set (l' := yata_insert (get_list key (d_lists d)) x).
  set (e1 := mkdoc (set_list key l' (d_lists d)) (d_gc d)).
  assert (Hm1 : mid (oid o) e1 e1).
  { split; [apply (d1_NoDupKeys d o key Hnk)|]. split; [apply (d1_NoDupIds d o key Hni Hnot)|].
    split; [apply (e1_sd_except d o key Hni Hs)|apply tle_refl]. }
  pose proof (e1_find_new d o key Hni Hnot) as Hfn. fold x l' e1 in Hfn.
  match goal with
  | |- subtree_dead (if _ then delete_item _ ?D else _) => assert (Hm : mid (oid o) e1 D)
  end.
  { repeat match goal with
           | |- mid _ _ (match ?e with _ => _ end) => destruct e
           | |- mid _ _ (delete_item _ _) => apply mid_delete
           end; exact Hm1. }
  match goal with
  | |- subtree_dead (if _ then delete_item _ ?D else _) => set (D2 := D) in *
  end.
  destruct Hm as (Hk2 & Hi2 & Hs2 & Ht2).
  destruct (parent_deleted (fst key) D2) eqn:Epd.
  - pose proof (delete_item_sd_except _ (oid o) D2 Hk2 Hi2 Hs2) as Hs3.
    intros k l0 Hin Hd y Hy. destruct (Hs3 k l0 Hin Hd y Hy) as [A|A]; [|exact A].
    eapply delete_item_kills; eassumption.
  - intros k l0 Hin Hd y Hy. destruct (Hs2 k l0 Hin Hd y Hy) as [A|A]; [|exact A].
    exfalso.
    pose proof (find_item_In _ _ _ _ Hi2 Hin Hy) as Hf. rewrite A in Hf.
    destruct (tle_find_fwd _ _ _ _ _ Ht2 Hfn) as (x' & Hf' & _).
    rewrite Hf in Hf'. inversion Hf'; subst k.
    apply dead_parent0_parent_deleted in Hd. congruence.
Qed.
Print Assumptions integrate_op_subtree_dead.

Theorem integrate_x_gc_wf : forall d x, gc_wf d -> integrated d (xid x) = false -> gc_wf (integrate_x d x).
Proof.
  intros d [o|i] (H1 & H2 & H3) Hn; cbn [integrate_x xid] in *.
  - split; [apply integrate_op_subtree_dead; assumption|].
    split; [apply integrate_op_NoDupKeys; assumption|apply integrate_op_NoDupIds; assumption].
  - split; [exact H1|split; assumption].
Qed.

Theorem deliver_gc_wf : forall d w, gc_wf d -> gc_wf (fst (deliver d w)).
Proof. intros d w. apply deliver_inv. apply integrate_x_gc_wf. Qed.

Theorem render_gc_wf : forall pool ds, gc_wf (fst (render pool ds)).
Proof.
  intros pool ds. unfold render.
  pose proof (deliver_gc_wf empty_doc pool empty_gc_wf) as H.
  destruct (deliver empty_doc pool) as [d st]. cbn [fst] in *. apply apply_ds_gc_wf. exact H.
Qed.
Print Assumptions render_gc_wf.

Theorem later_gc_wf : forall d d', later d d' -> gc_wf d -> gc_wf d'.
Proof.
  intros d d' H. induction H as [d|d d' w _ IH|d d' s _ IH]; intros Hw.
  - exact Hw.
  - apply deliver_gc_wf. apply IH. exact Hw.
  - apply apply_ds_gc_wf. apply IH. exact Hw.
Qed.

(* in every state reachable from the empty document, full GC (both levels) is invisible *)
Theorem gc_invisible_reachable : forall keep d, later empty_doc d -> vis_eq (gc_doc keep d) d.
Proof.
  intros keep d H. apply gc_doc_vis_eq. exact (proj1 (later_gc_wf _ _ H empty_gc_wf)).
Qed.
Print Assumptions gc_invisible_reachable.

Theorem gc_invisible_render : forall keep pool ds,
  vis_eq (gc_doc keep (fst (render pool ds))) (fst (render pool ds)).
Proof. intros keep pool ds. apply gc_doc_vis_eq. exact (proj1 (render_gc_wf pool ds)). Qed.
Print Assumptions gc_invisible_render.

(* ====================================================================== *)
(* 10. the safety hypothesis cannot simply be dropped                      *)
(* ====================================================================== *)
(* A deleted map [T]; [o1] arrives below it (lands in list (T,[7]) without GC, in d_gc with GC);
   then an ill-formed [o2] whose origin is [o1] but which names another parent: its resolved map
   key is inherited from [o1]'s list without GC and is its own with GC.  (The decoder never produces
   such an op: an item with an origin carries no parent.) *)
Definition cex_T : ditem := mkditem (mkop (mkid 0 0) None None (PNamed [1]) None (UType TMap)) true.
Definition cex_gd : doc := mkdoc [((PNamed [1], None), [cex_T])] [].
Definition cex_o1 : op := mkop (mkid 1 0) None None (PId (mkid 0 0)) (Some [7]) (UString 65).
Definition cex_o2 : op := mkop (mkid 1 1) (Some (mkid 1 0)) None (PNamed [2]) (Some [9]) (UString 66).
Definition cex_w : list xop := [XItem cex_o1; XItem cex_o2].

Example gc_replica_needs_safety :
  gc_wf cex_gd /\
  ~ vis_eq (fst (deliver (gc_contents (fun _ => false) cex_gd) cex_w)) (fst (deliver cex_gd cex_w)).
Proof.
  split.
  - split; [|split].
    + intros k l [E|[]] Hd x Hx. inversion E; subst. vm_compute in Hd. discriminate.
    + unfold NoDupKeys. cbn. constructor; [intros []|constructor].
    + unfold NoDupIds. cbn. constructor; [intros []|constructor].
  - intros [H _]. specialize (H (PNamed [2], Some [7])). vm_compute in H. discriminate.
Qed.

(* non-vacuity: level (b) really drops the list below [T] and moves its id to d_gc *)
Example gc_doc_collects :
  gc_doc (fun _ => false) (fst (deliver cex_gd [XItem cex_o1])) =
  mkdoc [((PNamed [1], None),
          [mkditem (mkop (mkid 0 0) None None (PNamed [1]) None UDeleted) true])]
        [mkid 1 0].
Proof. vm_compute. reflexivity. Qed.

(* ====================================================================== *)
(* 11. a checkable form of the safety hypothesis, along a run              *)
(* ====================================================================== *)
Definition gc_safeb (keep : id -> bool) (d : doc) (x : xop) : bool :=
  match x with
  | XItem o => match resolve_parent o d with
               | Some key => negb (dead_parent keep d key)
               | None => true
               end
  | XGC _ => true
  end.

Lemma gc_safeb_spec : forall keep d x, gc_safeb keep d x = true <-> gc_safe keep d x.
Proof.
  intros keep d [o|i]; cbn [gc_safeb gc_safe]; [|tauto]. unfold gc_safe_op.
  destruct (resolve_parent o d) as [key|].
  - rewrite negb_true_iff. split.
    + intros H k E. inversion E; subst. exact H.
    + intros H. apply H. reflexivity.
  - split; [intros _ k E; discriminate|reflexivity].
Qed.

Fixpoint safe_runb (keep : id -> bool) (d : doc) (xs : list xop) : bool :=
  match xs with
  | [] => true
  | x :: r => gc_safeb keep d x && safe_runb keep (integrate_x d x) r
  end.

Theorem gc_commutes_with_run_drel : forall keep xs d1 d2,
  drel keep d1 d2 -> safe_runb keep d2 xs = true ->
  drel keep (fold_left integrate_x xs d1) (fold_left integrate_x xs d2).
Proof.
  intros keep xs. induction xs as [|x r IH]; intros d1 d2 Hd Hs; cbn [fold_left safe_runb] in *; [exact Hd|].
  apply andb_true_iff in Hs. destruct Hs as [Hx Hr].
  apply IH; [|exact Hr]. apply integrate_x_drel; [exact Hd|apply gc_safeb_spec; exact Hx].
Qed.

Theorem gc_commutes_with_run : forall keep xs d, safe_runb keep d xs = true ->
  vis_eq (fold_left integrate_x xs (gc_contents keep d)) (fold_left integrate_x xs d) /\
  vis_eq (gc_contents keep (fold_left integrate_x xs d)) (fold_left integrate_x xs (gc_contents keep d)).
Proof.
  intros keep xs d Hs.
  assert (A : vis_eq (fold_left integrate_x xs (gc_contents keep d)) (fold_left integrate_x xs d)).
  { apply (drel_vis_eq keep). apply gc_commutes_with_run_drel; [apply drel_gc|exact Hs]. }
  split; [exact A|]. eapply vis_eq_trans; [apply gc_contents_vis_eq|apply vis_eq_sym; exact A].
Qed.
Print Assumptions gc_commutes_with_run.
