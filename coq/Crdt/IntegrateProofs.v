(* Theorems about Integrate.v (the statements are summarised at the end of the file).  Sections:
     0   association lists
     1   the block store: contiguous lists, BlockStore::push, is_missing = "in no integrated segment";
         the induction rule for the loop of Update::integrate
     3   (b) causal safety: the invariant [itg_inv]
     2   the loop of Update::integrate ends within its fuel
     4   (a) termination of apply_update
     5   the picker only moves blocks; trimming only cuts blocks
     6   (f) the abstract delivery of Crdt/Doc.v integrates at least what apply_update integrates
     7   where the blocks of the update are while BlockPicker runs; (c) inside Update::integrate
     8   (d) completeness of Update::integrate on a causally closed update
     9   BlockSet::exclude on well-formed input; (c) for steps 1-3 of apply_update
     10  (d) for apply_update on a store without a stash; (f) equality
     11  the missing vector; (e) progress of the retry
     12  the literal recursion of apply_update computes what the loop computes *)
From Coq Require Import List NArith ZArith Bool Lia Permutation Sorted.
From Coq Require Import ZifyBool ZifyN ZifyNat.
From YV Require Import Gen.Consts Lib.Bytes Codec.Varint Codec.AnyCodec Codec.IdSetCodec Codec.UpdateV1
  Ids.Ranges Crdt.Doc Crdt.Blocks Crdt.Merge.
From YV Require Import Crdt.Integrate.
Import ListNotations.
Open Scope N_scope.

(* ================================================================================================ *)
(* 0. association lists                                                                             *)
(* ================================================================================================ *)
Lemma itg_get_del_same : forall (A : Type) (m : list (N * A)) c, itg_get (itg_del m c) c = None.
Proof.
  intros A m c. unfold itg_del. induction m as [|[c' v'] r IH]; cbn [filter itg_get fst]; [reflexivity|].
  destruct (c' =? c) eqn:E; cbn [negb].
  - exact IH.
  - cbn [itg_get]. rewrite N.eqb_sym, E. exact IH.
Qed.

Lemma itg_get_del_other : forall (A : Type) (m : list (N * A)) c c', c' <> c ->
  itg_get (itg_del m c) c' = itg_get m c'.
Proof.
  intros A m c c' Hne. unfold itg_del. induction m as [|[c0 v0] r IH]; cbn [filter itg_get fst]; [reflexivity|].
  destruct (c0 =? c) eqn:E; cbn [negb].
  - apply N.eqb_eq in E. subst c0.
    destruct (c' =? c) eqn:E2; [apply N.eqb_eq in E2; contradiction|exact IH].
  - cbn [itg_get]. destruct (c' =? c0); [reflexivity|exact IH].
Qed.

Lemma itg_get_ins_same : forall (A : Type) (m : list (N * A)) c v, itg_get m c = None ->
  itg_get (itg_ins m c v) c = Some v.
Proof.
  intros A m c v. induction m as [|[c0 v0] r IH]; cbn [itg_ins itg_get]; intros H.
  - rewrite N.eqb_refl. reflexivity.
  - destruct (c =? c0) eqn:E0; [discriminate|].
    destruct (c <? c0); cbn [itg_get].
    + rewrite N.eqb_refl. reflexivity.
    + rewrite E0. apply IH. exact H.
Qed.

Lemma itg_get_ins_other : forall (A : Type) (m : list (N * A)) c c' v, c' <> c ->
  itg_get (itg_ins m c v) c' = itg_get m c'.
Proof.
  intros A m c c' v Hne. induction m as [|[c0 v0] r IH]; cbn [itg_ins itg_get].
  - destruct (c' =? c) eqn:E; [apply N.eqb_eq in E; contradiction|reflexivity].
  - destruct (c <? c0); cbn [itg_get].
    + destruct (c' =? c) eqn:E; [apply N.eqb_eq in E; contradiction|reflexivity].
    + destruct (c' =? c0); [reflexivity|exact IH].
Qed.

Lemma itg_get_put_same : forall (A : Type) (m : list (N * A)) c v, itg_get (itg_put m c v) c = Some v.
Proof. intros A m c v. unfold itg_put. apply itg_get_ins_same. apply itg_get_del_same. Qed.

Lemma itg_get_put_other : forall (A : Type) (m : list (N * A)) c c' v, c' <> c ->
  itg_get (itg_put m c v) c' = itg_get m c'.
Proof.
  intros A m c c' v Hne. unfold itg_put. rewrite itg_get_ins_other by exact Hne. apply itg_get_del_other. exact Hne.
Qed.

Lemma itg_get_put : forall (A : Type) (m : list (N * A)) c c' v,
  itg_get (itg_put m c v) c' = if c' =? c then Some v else itg_get m c'.
Proof.
  intros A m c c' v. destruct (c' =? c) eqn:E.
  - apply N.eqb_eq in E. subst c'. apply itg_get_put_same.
  - apply N.eqb_neq in E. apply itg_get_put_other. exact E.
Qed.


Lemma itg_get_in : forall (A : Type) (m : list (N * A)) c v, itg_get m c = Some v -> In (c, v) m.
Proof.
  intros A m c v. induction m as [|[c' v'] r IH]; cbn [itg_get]; [discriminate|].
  destruct (c =? c') eqn:E.
  - intros H. injection H as <-. apply N.eqb_eq in E. subst c'. left. reflexivity.
  - intros H. right. apply IH. exact H.
Qed.

(* ================================================================================================ *)
(* 1. the block store                                                                               *)
(* ================================================================================================ *)
Fixpoint itg_clock_from (a : N) (l : list itg_seg) : N :=
  match l with [] => a | g :: r => itg_clock_from (itg_sg_end g) r end.

Lemma itg_list_clock_from : forall l a, l <> [] -> itg_list_clock l = itg_clock_from a l.
Proof.
  induction l as [|g r IH]; intros a Hne; [contradiction|].
  destruct r as [|g' r'].
  - reflexivity.
  - change (itg_list_clock (g :: g' :: r')) with (itg_list_clock (g' :: r')).
    cbn [itg_clock_from]. rewrite (IH (itg_sg_end g)) by discriminate. reflexivity.
Qed.

Lemma itg_list_clock_from0 : forall l, itg_list_clock l = itg_clock_from 0 l.
Proof. intros [|g r]; [reflexivity|]. apply itg_list_clock_from. discriminate. Qed.

Lemma itg_segs_from_app : forall x y a,
  itg_segs_from a (x ++ y) = itg_segs_from a x && itg_segs_from (itg_clock_from a x) y.
Proof.
  induction x as [|g r IH]; intros y a; cbn [app itg_segs_from itg_clock_from andb]; [reflexivity|].
  rewrite IH, andb_assoc. reflexivity.
Qed.

Lemma itg_clock_from_app : forall x y a, itg_clock_from a (x ++ y) = itg_clock_from (itg_clock_from a x) y.
Proof. induction x as [|g r IH]; intros y a; cbn [app itg_clock_from]; [reflexivity|apply IH]. Qed.

Lemma itg_clock_from_ge : forall l a, itg_segs_from a l = true -> a <= itg_clock_from a l.
Proof.
  induction l as [|g r IH]; intros a H; cbn [itg_clock_from itg_segs_from] in *; [lia|].
  apply andb_prop in H. destruct H as [H1 H2]. specialize (IH _ H2). unfold itg_sg_end in *. lia.
Qed.

Lemma itg_has_l_app : forall x y k, itg_has_l (x ++ y) k = itg_has_l x k || itg_has_l y k.
Proof. intros. unfold itg_has_l. apply existsb_app. Qed.

Lemma itg_in_skips_app : forall x y k, itg_in_skips (x ++ y) k = itg_in_skips x k || itg_in_skips y k.
Proof. intros. unfold itg_in_skips. apply existsb_app. Qed.

(* outside [a, clock) nothing *)
Lemma itg_segs_out : forall l a k, itg_segs_from a l = true -> (k < a \/ itg_clock_from a l <= k) ->
  itg_has_l l k = false /\ itg_in_skips l k = false.
Proof.
  induction l as [|g r IH]; intros a k H Hk; cbn [itg_segs_from itg_clock_from] in *; [split; reflexivity|].
  apply andb_prop in H. destruct H as [H1 H2].
  pose proof (itg_clock_from_ge _ _ H2) as Hge.
  assert (Hr : k < itg_sg_end g \/ itg_clock_from (itg_sg_end g) r <= k) by (unfold itg_sg_end in *; lia).
  destruct (IH _ k H2 Hr) as [I1 I2].
  unfold itg_has_l, itg_in_skips in *. cbn [existsb]. rewrite I1, I2.
  unfold itg_in_seg, itg_sg_end in *. split.
  - destruct (itg_sg_skip g); cbn [negb andb orb]; [reflexivity|]. lia.
  - destruct (itg_sg_skip g); cbn [andb orb]; [|reflexivity]. lia.
Qed.

(* inside [a, clock): in an integrated segment or in a Skip, not both *)
Lemma itg_segs_in : forall l a k, itg_segs_from a l = true -> a <= k < itg_clock_from a l ->
  itg_in_skips l k = negb (itg_has_l l k).
Proof.
  induction l as [|g r IH]; intros a k H Hk; cbn [itg_segs_from itg_clock_from] in *; [lia|].
  apply andb_prop in H. destruct H as [H1 H2].
  unfold itg_has_l, itg_in_skips in *. cbn [existsb].
  destruct (k <? itg_sg_end g) eqn:E.
  - assert (Hr : k < itg_sg_end g \/ itg_clock_from (itg_sg_end g) r <= k) by lia.
    destruct (itg_segs_out _ _ k H2 Hr) as [I1 I2]. unfold itg_has_l, itg_in_skips in *. rewrite I1, I2.
    unfold itg_in_seg. rewrite E.
    assert (E2 : (itg_sg_start g <=? k) = true) by lia. rewrite E2.
    destruct (itg_sg_skip g); reflexivity.
  - assert (Hr : itg_sg_end g <= k < itg_clock_from (itg_sg_end g) r) by lia.
    rewrite (IH _ k H2 Hr). unfold itg_in_seg. rewrite E.
    rewrite !andb_false_r. reflexivity.
Qed.

(* BlockStore::is_missing on a contiguous list = in no integrated segment *)
Lemma itg_missing_l_spec : forall l k, itg_segs_from 0 l = true ->
  (itg_list_clock l <=? k) || itg_in_skips l k = negb (itg_has_l l k).
Proof.
  intros l k H. rewrite itg_list_clock_from0.
  destruct (itg_clock_from 0 l <=? k) eqn:E.
  - destruct (itg_segs_out _ _ k H (or_intror (proj1 (N.leb_le _ _) E))) as [I1 _]. rewrite I1. reflexivity.
  - cbn [orb]. apply (itg_segs_in _ 0); [exact H|lia].
Qed.

Definition itg_blocks_ok (st : list (N * list itg_seg)) : Prop :=
  forall c l, itg_get st c = Some l -> itg_segs_from 0 l = true /\ l <> [].

Lemma itg_blocks_wf_ok : forall st, itg_blocks_wf st = true -> itg_blocks_ok st.
Proof.
  intros st H c l Hg. apply itg_get_in in Hg. unfold itg_blocks_wf in H. rewrite forallb_forall in H.
  specialize (H _ Hg). cbn [snd] in H. apply andb_prop in H. destruct H as [H1 H2]. split; [exact H1|].
  destruct l; [discriminate|discriminate].
Qed.

Theorem itg_is_missing_spec : forall st i, itg_blocks_ok st -> itg_is_missing st i = negb (itg_has st i).
Proof.
  intros st i Hok. unfold itg_is_missing, itg_has, itg_get_clock.
  destruct (itg_get st (cl i)) as [l|] eqn:E.
  - apply itg_missing_l_spec. apply (Hok _ _ E).
  - cbn. assert (0 <=? ck i = true) by lia. rewrite H. reflexivity.
Qed.

(* ---- BlockStore::push ---- *)
Lemma itg_seg_split_spec : forall l k pre g post, itg_seg_split l k = Some (pre, g, post) ->
  l = pre ++ g :: post /\ itg_in_seg g k = true.
Proof.
  induction l as [|x r IH]; intros k pre g post H; cbn [itg_seg_split] in H; [discriminate|].
  destruct ((itg_sg_start x <=? k) && (k <? itg_sg_end x)) eqn:E.
  - injection H as <- <- <-. split; [reflexivity|exact E].
  - destruct (itg_seg_split r k) as [[[p1 g1] q1]|] eqn:E2; [|discriminate].
    injection H as <- <- <-. destruct (IH _ _ _ _ E2) as [-> Hin]. split; [reflexivity|exact Hin].
Qed.

(* what a successful push does to a contiguous list *)
Lemma itg_push_list_spec : forall l s len sk l', itg_segs_from 0 l = true -> (l = [] -> s = 0) ->
  itg_push_list l s len sk = itg_ok l' ->
  itg_segs_from 0 l' = true /\ l' <> [] /\
  itg_clock_from 0 l' = N.max (itg_clock_from 0 l) (s + len) /\
  (forall k, itg_has_l l' k = itg_has_l l k || (negb sk && (s <=? k) && (k <? s + len))) /\
  (forall k, s <= k < s + len -> itg_has_l l k = false).
Proof.
  intros l s len sk l' Hwf Hnil H. unfold itg_push_list in H.
  assert (Happ : itg_list_clock l = s -> l' = l ++ [itg_mkseg s len sk] ->
    itg_segs_from 0 l' = true /\ l' <> [] /\
    itg_clock_from 0 l' = N.max (itg_clock_from 0 l) (s + len) /\
    (forall k, itg_has_l l' k = itg_has_l l k || (negb sk && (s <=? k) && (k <? s + len))) /\
    (forall k, s <= k < s + len -> itg_has_l l k = false)).
  { intros Hc ->. rewrite itg_list_clock_from0 in Hc. split; [|split; [|split; [|split]]].
    - rewrite itg_segs_from_app, Hwf. cbn [itg_segs_from itg_sg_start andb]. rewrite Hc. lia.
    - destruct l; discriminate.
    - rewrite itg_clock_from_app. cbn [itg_clock_from]. unfold itg_sg_end. cbn [itg_sg_start itg_sg_len]. lia.
    - intros k. rewrite itg_has_l_app. unfold itg_has_l at 2. cbn [existsb itg_sg_skip].
      unfold itg_in_seg, itg_sg_end. cbn [itg_sg_start itg_sg_len]. rewrite orb_false_r, andb_assoc. reflexivity.
    - intros k Hk. apply (itg_segs_out l 0 k Hwf). right. lia. }
  destruct l as [|g0 r0] eqn:El.
  - injection H as <-. apply Happ; [cbn; symmetry; apply Hnil; reflexivity|reflexivity].
  - rewrite <- El in *. destruct (itg_list_clock l =? s) eqn:Ec.
    + injection H as <-. apply Happ; [lia|reflexivity].
    + destruct (itg_seg_split l s) as [[[pre g] post]|] eqn:Es; [|discriminate].
      destruct (itg_sg_end g <? s + len) eqn:E5; [discriminate|].
      destruct (itg_sg_skip g) eqn:Esk; cbn [negb] in H; [|discriminate].
      destruct sk; [discriminate|]. injection H as Hl'.
      destruct (itg_seg_split_spec _ _ _ _ _ Es) as [Hl Hin]. unfold itg_in_seg in Hin.
      rewrite Hl in Hwf. rewrite itg_segs_from_app in Hwf. apply andb_prop in Hwf. destruct Hwf as [W1 W2].
      cbn [itg_segs_from] in W2. apply andb_prop in W2. destruct W2 as [W2 W3].
      set (a := itg_clock_from 0 pre) in *.
      set (mid := (if itg_sg_start g <? s then [itg_mkseg (itg_sg_start g) (s - itg_sg_start g) true] else [])
                  ++ [itg_mkseg s len false]
                  ++ (if s + len <? itg_sg_end g then [itg_mkseg (s + len) (itg_sg_end g - (s + len)) true] else [])).
      assert (Hmid1 : itg_segs_from a mid = true).
      { unfold mid. destruct (itg_sg_start g <? s) eqn:A1; destruct (s + len <? itg_sg_end g) eqn:A2;
          cbn [app itg_segs_from itg_sg_start itg_sg_end itg_sg_len]; unfold itg_sg_end in *;
          cbn [itg_sg_start itg_sg_len]; lia. }
      assert (Hmid2 : itg_clock_from a mid = itg_sg_end g).
      { unfold mid. destruct (itg_sg_start g <? s) eqn:A1; destruct (s + len <? itg_sg_end g) eqn:A2;
          cbn [app itg_clock_from]; unfold itg_sg_end in *; cbn [itg_sg_start itg_sg_len]; lia. }
      assert (Hmid3 : forall k, itg_has_l mid k = (s <=? k) && (k <? s + len)).
      { intros k. unfold mid. destruct (itg_sg_start g <? s) eqn:A1; destruct (s + len <? itg_sg_end g) eqn:A2;
          cbn [app]; unfold itg_has_l; cbn [existsb itg_sg_skip negb andb orb]; unfold itg_in_seg, itg_sg_end;
          cbn [itg_sg_start itg_sg_len]; rewrite ?orb_false_r; reflexivity. }
      assert (Hshape : l' = pre ++ mid ++ post).
      { rewrite <- Hl'. unfold mid. rewrite <- !app_assoc. reflexivity. }
      rewrite Hshape. clear Hshape Hl'.
      assert (Hclk : itg_clock_from 0 (pre ++ mid ++ post) = itg_clock_from 0 l).
      { rewrite Hl, !itg_clock_from_app. fold a. rewrite Hmid2. reflexivity. }
      assert (Hpost_ge : itg_sg_end g <= itg_clock_from (itg_sg_end g) post) by (apply itg_clock_from_ge; exact W3).
      split; [|split; [|split; [|split]]].
      * rewrite !itg_segs_from_app. fold a. rewrite W1, Hmid1, Hmid2, W3. reflexivity.
      * unfold mid. destruct pre; [|discriminate]. cbn [app].
        destruct (itg_sg_start g <? s); discriminate.
      * rewrite Hclk. rewrite Hl, itg_clock_from_app. fold a. cbn [itg_clock_from]. lia.
      * intros k. rewrite Hl, !itg_has_l_app, Hmid3.
        assert (Hg : itg_has_l (g :: post) k = itg_has_l post k).
        { unfold itg_has_l. cbn [existsb]. rewrite Esk. reflexivity. }
        rewrite Hg. cbn [negb andb].
        destruct (itg_has_l pre k), (itg_has_l post k), ((s <=? k) && (k <? s + len)); reflexivity.
      * intros k Hk. rewrite Hl, itg_has_l_app.
        assert (Hp : itg_has_l pre k = false).
        { apply (itg_segs_out pre 0 k W1). right. fold a. lia. }
        rewrite Hp. unfold itg_has_l. cbn [existsb]. rewrite Esk. cbn [negb andb orb].
        apply (itg_segs_out post (itg_sg_end g) k W3). left. lia.
Qed.

Lemma itg_push_spec : forall st c s len sk st', itg_blocks_ok st -> (itg_get st c = None -> s = 0) ->
  itg_push st c s len sk = itg_ok st' ->
  itg_blocks_ok st' /\
  itg_get_clock st' c = N.max (itg_get_clock st c) (s + len) /\
  (forall c', c' <> c -> itg_get st' c' = itg_get st c') /\
  (forall i, itg_has st' i = itg_has st i || (negb sk && (cl i =? c) && (s <=? ck i) && (ck i <? s + len))) /\
  (forall i, cl i = c -> s <= ck i < s + len -> itg_has st i = false).
Proof.
  intros st c s len sk st' Hok Hnone H. unfold itg_push in H.
  set (l := match itg_get st c with Some l => l | None => [] end).
  assert (Hl : itg_segs_from 0 l = true).
  { unfold l. destruct (itg_get st c) as [l0|] eqn:E; [apply (Hok _ _ E)|reflexivity]. }
  assert (Hnil : l = [] -> s = 0).
  { unfold l. destruct (itg_get st c) as [l0|] eqn:E; [|intros _; apply Hnone; reflexivity].
    intros ->. destruct (Hok _ _ E) as [_ Hne]. contradiction. }
  assert (Hpl : exists l', itg_push_list l s len sk = itg_ok l' /\ st' = itg_put st c l').
  { unfold l. destruct (itg_get st c) as [l0|] eqn:E.
    - destruct (itg_push_list l0 s len sk) as [l1| |] eqn:E1; cbn [itg_bind] in H; try discriminate.
      injection H as <-. exists l1. split; reflexivity.
    - injection H as <-. eexists. split; reflexivity. }
  destruct Hpl as [l' [Hp ->]].
  destruct (itg_push_list_spec _ _ _ _ _ Hl Hnil Hp) as [P1 [P2 [P3 [P4 P5]]]].
  assert (Hclk : itg_get_clock st c = itg_clock_from 0 l).
  { unfold itg_get_clock, l. destruct (itg_get st c); [apply itg_list_clock_from0|reflexivity]. }
  split; [|split; [|split; [|split]]].
  - intros c' l0 Hg. rewrite itg_get_put in Hg. destruct (c' =? c).
    + injection Hg as <-. split; assumption.
    + apply (Hok _ _ Hg).
  - unfold itg_get_clock at 1. rewrite itg_get_put_same, itg_list_clock_from0, P3, Hclk. reflexivity.
  - intros c' Hne. apply itg_get_put_other. exact Hne.
  - intros i. unfold itg_has. rewrite itg_get_put. destruct (cl i =? c) eqn:E.
    + apply N.eqb_eq in E. rewrite P4. rewrite E. fold l.
      assert (Hh : match itg_get st c with Some l0 => itg_has_l l0 (ck i) | None => false end = itg_has_l l (ck i)).
      { unfold l. destruct (itg_get st c); reflexivity. }
      rewrite Hh. rewrite andb_true_r. reflexivity.
    + rewrite andb_false_r. cbn [andb]. rewrite orb_false_r. reflexivity.
  - intros i Hc Hk. unfold itg_has. rewrite Hc.
    assert (Hh : match itg_get st c with Some l0 => itg_has_l l0 (ck i) | None => false end = itg_has_l l (ck i)).
    { unfold l. destruct (itg_get st c); reflexivity. }
    rewrite Hh. apply P5. exact Hk.
Qed.

(* integrate_skip (if the block starts beyond the end of the list) followed by integrate *)
Lemma itg_integ_spec : forall st c s len st1 st2, itg_blocks_ok st ->
  (if itg_get_clock st c <? s then itg_push st c (itg_get_clock st c) (s - itg_get_clock st c) true else itg_ok st)
    = itg_ok st1 ->
  itg_push st1 c s len false = itg_ok st2 ->
  itg_blocks_ok st2 /\
  itg_get_clock st2 c = N.max (itg_get_clock st c) (s + len) /\
  (forall c', c' <> c -> itg_get st2 c' = itg_get st c') /\
  (forall i, itg_has st2 i = itg_has st i || ((cl i =? c) && (s <=? ck i) && (ck i <? s + len))) /\
  (forall i, cl i = c -> s <= ck i < s + len -> itg_has st i = false).
Proof.
  intros st c s len st1 st2 Hok H1 H2.
  set (lc := itg_get_clock st c) in *.
  assert (Hlc0 : itg_get st c = None -> lc = 0).
  { intros E. unfold lc, itg_get_clock. rewrite E. reflexivity. }
  destruct (lc <? s) eqn:E.
  - destruct (itg_push_spec _ _ _ _ _ _ Hok Hlc0 H1) as [A1 [A2 [A3 [A4 A5]]]].
    assert (Hsome : itg_get st1 c = None -> s = 0).
    { intros En. exfalso. unfold itg_push in H1. destruct (itg_get st c) as [l0|].
      - destruct (itg_push_list l0 lc (s - lc) true); cbn [itg_bind] in H1; try discriminate.
        injection H1 as <-. rewrite itg_get_put_same in En. discriminate.
      - injection H1 as <-. rewrite itg_get_put_same in En. discriminate. }
    destruct (itg_push_spec _ _ _ _ _ _ A1 Hsome H2) as [B1 [B2 [B3 [B4 B5]]]].
    split; [exact B1|]. split; [rewrite B2, A2; fold lc; lia|].
    split; [intros c' Hne; rewrite B3, A3 by exact Hne; reflexivity|]. split.
    + intros i. rewrite B4, A4. cbn [negb andb]. rewrite orb_false_r. reflexivity.
    + intros i Hc Hk. specialize (B5 i Hc Hk). rewrite A4 in B5. cbn [negb andb] in B5.
      rewrite orb_false_r in B5. exact B5.
  - injection H1 as <-.
    assert (Hsome : itg_get st c = None -> s = 0) by (intros En; specialize (Hlc0 En); lia).
    destruct (itg_push_spec _ _ _ _ _ _ Hok Hsome H2) as [B1 [B2 [B3 [B4 B5]]]].
    split; [exact B1|]. split; [rewrite B2; reflexivity|]. split; [exact B3|]. split; [|exact B5].
    intros i. rewrite B4. cbn [negb andb]. reflexivity.
Qed.

(* ================================================================================================ *)
(* the loop of Update::integrate: an induction rule                                                 *)
(* ================================================================================================ *)
Definition itg_local_clock (r : itg_run) (c : N) : N :=
  match itg_get (itg_rn_state r) c with Some v => v | None => itg_get_clock (itg_rn_blocks r) c end.
Definition itg_state1 (r : itg_run) (c : N) : list (N * N) :=
  match itg_get (itg_rn_state r) c with
  | Some _ => itg_rn_state r
  | None => itg_put (itg_rn_state r) c (itg_local_clock r c)
  end.

Lemma itg_loop_rule : forall (P : option block -> itg_run -> Prop),
  (* a Skip block is dropped *)
  (forall b r, P (Some b) r -> itg_is_skip b = true ->
     let np := itg_pk_next (itg_rn_pk r) in
     P (fst np) (itg_mkrun (itg_rn_blocks r) (itg_rn_log r) (itg_rn_state r) (snd np))) ->
  (* a dependency is missing: switch *)
  (forall b r m, P (Some b) r -> itg_is_skip b = false -> itg_missing_dep (itg_rn_blocks r) b = Some m ->
     let np := itg_pk_switch (itg_rn_pk r) b m in
     P (fst np) (itg_mkrun (itg_rn_blocks r) (itg_rn_log r) (itg_state1 r (itg_client b)) (snd np))) ->
  (* the block is integrated *)
  (forall b r blocks1 blocks2, P (Some b) r -> itg_is_skip b = false -> itg_missing_dep (itg_rn_blocks r) b = None ->
     let c := itg_client b in
     let lc := itg_local_clock r c in
     (if lc <? itg_clock b then itg_push (itg_rn_blocks r) c lc (itg_clock b - lc) true else itg_ok (itg_rn_blocks r))
       = itg_ok blocks1 ->
     itg_push blocks1 c (itg_clock b) (block_len b) false = itg_ok blocks2 ->
     let np := itg_pk_next (itg_rn_pk r) in
     P (fst np) (itg_mkrun blocks2 (b :: itg_rn_log r)
                   (itg_put (itg_state1 r c) c (N.max lc (itg_clock b + block_len b))) (snd np))) ->
  forall fuel next r r', P next r -> itg_loop fuel next r = itg_ok r' -> P None r'.
Proof.
  intros P Hskip Hsw Hint. induction fuel as [|f IH]; intros next r r' HP H.
  - destruct next as [b|]; cbn [itg_loop] in H; [discriminate|]. injection H as <-. exact HP.
  - destruct next as [b|]; cbn [itg_loop] in H; [|injection H as <-; exact HP].
    destruct (itg_is_skip b) eqn:Esk.
    + apply (IH _ _ _ (Hskip b r HP Esk) H).
    + destruct (itg_missing_dep (itg_rn_blocks r) b) as [m|] eqn:Em.
      * apply (IH _ _ _ (Hsw b r m HP Esk Em) H).
      * fold (itg_local_clock r (itg_client b)) in H. fold (itg_state1 r (itg_client b)) in H.
        destruct (if itg_local_clock r (itg_client b) <? itg_clock b
                  then itg_push (itg_rn_blocks r) (itg_client b) (itg_local_clock r (itg_client b))
                         (itg_clock b - itg_local_clock r (itg_client b)) true
                  else itg_ok (itg_rn_blocks r)) as [blocks1| |] eqn:E1; cbn [itg_bind] in H; try discriminate.
        destruct (itg_push blocks1 (itg_client b) (itg_clock b) (block_len b) false) as [blocks2| |] eqn:E2;
          cbn [itg_bind] in H; try discriminate.
        apply (IH _ _ _ (Hint b r blocks1 blocks2 HP Esk Em E1 E2) H).
Qed.

(* ================================================================================================ *)
(* 3. (b) causal safety                                                                             *)
(* ================================================================================================ *)
(* the id lies in the range of the block *)
Definition itg_covers (b : block) (i : id) : bool :=
  (itg_client b =? cl i) && (itg_clock b <=? ck i) && (ck i <? itg_end b).
Definition itg_log_has (log : list block) (i : id) : bool := existsb (fun b => itg_covers b i) log.

(* every block of the log (newest first) found all its dependency ids integrated by the OLDER blocks *)
Fixpoint itg_log_causal (log : list block) : Prop :=
  match log with
  | [] => True
  | b :: r => (forall d, In d (itg_deps b) -> itg_log_has r d = true) /\ itg_log_causal r
  end.
(* no id is integrated twice *)
Fixpoint itg_log_disjoint (log : list block) : Prop :=
  match log with
  | [] => True
  | b :: r => (forall i, itg_covers b i = true -> itg_log_has r i = false) /\ itg_log_disjoint r
  end.

Record itg_inv_bl (blocks : list (N * list itg_seg)) (log : list block) : Prop := {
  itg_inv_ok : itg_blocks_ok blocks;
  itg_inv_agree : forall i, itg_has blocks i = itg_log_has log i;
  itg_inv_causal : itg_log_causal log;
  itg_inv_disjoint : itg_log_disjoint log;
  itg_inv_noskip : forall b, In b log -> itg_is_skip b = false
}.
Definition itg_inv (s : itg_store) : Prop := itg_inv_bl (itg_blocks s) (itg_log s).

(* the cache `state` of Update::integrate holds get_clock *)
Definition itg_cache_ok (blocks : list (N * list itg_seg)) (state : list (N * N)) : Prop :=
  forall c v, itg_get state c = Some v -> v = itg_get_clock blocks c.

Lemma itg_cache_local : forall r c, itg_cache_ok (itg_rn_blocks r) (itg_rn_state r) ->
  itg_local_clock r c = itg_get_clock (itg_rn_blocks r) c.
Proof.
  intros r c H. unfold itg_local_clock. destruct (itg_get (itg_rn_state r) c) as [v|] eqn:E; [|reflexivity].
  apply (H _ _ E).
Qed.

Lemma itg_cache_state1 : forall r c, itg_cache_ok (itg_rn_blocks r) (itg_rn_state r) ->
  itg_cache_ok (itg_rn_blocks r) (itg_state1 r c).
Proof.
  intros r c H. unfold itg_state1. destruct (itg_get (itg_rn_state r) c) as [v|] eqn:E; [exact H|].
  intros c' v'. rewrite itg_get_put. destruct (c' =? c) eqn:E2.
  - intros Hv. injection Hv as <-. apply N.eqb_eq in E2. subst c'. unfold itg_local_clock. rewrite E. reflexivity.
  - apply H.
Qed.

Lemma itg_missing_dep_none : forall st b, itg_missing_dep st b = None ->
  forall d, In d (itg_deps b) -> itg_is_missing st d = false.
Proof.
  intros st b H d Hd. unfold itg_missing_dep in H.
  apply (find_none _ _ H) in Hd. exact Hd.
Qed.

Lemma itg_missing_dep_some : forall st b m, itg_missing_dep st b = Some m ->
  In m (itg_deps b) /\ itg_is_missing st m = true.
Proof. intros st b m H. apply find_some in H. exact H. Qed.

Definition itg_bl_P (log0 : list block) (next : option block) (r : itg_run) : Prop :=
  itg_inv_bl (itg_rn_blocks r) (itg_rn_log r) /\
  itg_cache_ok (itg_rn_blocks r) (itg_rn_state r) /\
  exists new, itg_rn_log r = new ++ log0.

Lemma itg_bl_P_skip : forall log0 b r, itg_bl_P log0 (Some b) r ->
  itg_bl_P log0 (fst (itg_pk_next (itg_rn_pk r)))
    (itg_mkrun (itg_rn_blocks r) (itg_rn_log r) (itg_rn_state r) (snd (itg_pk_next (itg_rn_pk r)))).
Proof. intros log0 b r HP. exact HP. Qed.

Lemma itg_bl_P_switch : forall log0 b r m, itg_bl_P log0 (Some b) r ->
  itg_bl_P log0 (fst (itg_pk_switch (itg_rn_pk r) b m))
    (itg_mkrun (itg_rn_blocks r) (itg_rn_log r) (itg_state1 r (itg_client b)) (snd (itg_pk_switch (itg_rn_pk r) b m))).
Proof.
  intros log0 b r m [I [C N0]]. unfold itg_bl_P. cbn [itg_rn_blocks itg_rn_log itg_rn_state].
  split; [exact I|]. split; [apply itg_cache_state1; exact C|exact N0].
Qed.

Lemma itg_bl_P_integ : forall log0 b r blocks1 blocks2, itg_bl_P log0 (Some b) r ->
  itg_is_skip b = false -> itg_missing_dep (itg_rn_blocks r) b = None ->
  (if itg_local_clock r (itg_client b) <? itg_clock b
   then itg_push (itg_rn_blocks r) (itg_client b) (itg_local_clock r (itg_client b)) (itg_clock b - itg_local_clock r (itg_client b)) true
   else itg_ok (itg_rn_blocks r)) = itg_ok blocks1 ->
  itg_push blocks1 (itg_client b) (itg_clock b) (block_len b) false = itg_ok blocks2 ->
  itg_bl_P log0 (fst (itg_pk_next (itg_rn_pk r)))
    (itg_mkrun blocks2 (b :: itg_rn_log r)
       (itg_put (itg_state1 r (itg_client b)) (itg_client b)
          (N.max (itg_local_clock r (itg_client b)) (itg_clock b + block_len b)))
       (snd (itg_pk_next (itg_rn_pk r)))).
Proof.
  intros log0 b r0 blocks1 blocks2 [I [C [new N0]]] Esk Em E1 E2. unfold itg_bl_P.
  set (c := itg_client b) in *. set (lc := itg_local_clock r0 c) in *.
  cbn [itg_rn_blocks itg_rn_log itg_rn_state].
  assert (Hlc : lc = itg_get_clock (itg_rn_blocks r0) c) by (apply itg_cache_local; exact C).
  rewrite Hlc in E1.
  destruct I as [I1 I2 I3 I4 I5].
  destruct (itg_integ_spec _ _ _ _ _ _ I1 E1 E2) as [A1 [A2 [A3 [A4 A5]]]].
  split; [|split].
  + split.
    * exact A1.
    * intros i. rewrite A4, I2. cbn [itg_log_has existsb]. rewrite orb_comm. f_equal.
      unfold itg_covers, itg_end. fold c. rewrite (N.eqb_sym c (cl i)). reflexivity.
    * cbn [itg_log_causal]. split; [|exact I3]. intros d Hd.
      pose proof (itg_missing_dep_none _ _ Em d Hd) as Hm.
      rewrite (itg_is_missing_spec _ _ I1) in Hm. rewrite <- I2. destruct (itg_has (itg_rn_blocks r0) d); [reflexivity|discriminate].
    * cbn [itg_log_disjoint]. split; [|exact I4]. intros i Hc. rewrite <- I2.
      unfold itg_covers, itg_end in Hc. apply A5; fold c; lia.
    * intros b' [<-|Hb']; [exact Esk|apply I5; exact Hb'].
  + intros c' v. rewrite itg_get_put. destruct (c' =? c) eqn:E.
    * intros Hv. injection Hv as <-. apply N.eqb_eq in E. subst c'. rewrite A2, Hlc. reflexivity.
    * intros Hv. apply N.eqb_neq in E. unfold itg_get_clock. rewrite (A3 _ E).
      apply (itg_cache_state1 _ c C) in Hv. exact Hv.
  + exists (b :: new). rewrite N0. reflexivity.
Qed.

Lemma itg_loop_inv : forall fuel next r r' ,
  itg_inv_bl (itg_rn_blocks r) (itg_rn_log r) -> itg_cache_ok (itg_rn_blocks r) (itg_rn_state r) ->
  itg_loop fuel next r = itg_ok r' ->
  itg_inv_bl (itg_rn_blocks r') (itg_rn_log r') /\ itg_cache_ok (itg_rn_blocks r') (itg_rn_state r') /\
  exists new, itg_rn_log r' = new ++ itg_rn_log r.
Proof.
  intros fuel next r r' Hinv Hcache H.
  apply (itg_loop_rule (itg_bl_P (itg_rn_log r))) with (fuel := fuel) (next := next) (r := r); [| | | |exact H].
  - intros b r0 HP _. apply (itg_bl_P_skip _ b r0 HP).
  - intros b r0 m HP _ _. apply itg_bl_P_switch. exact HP.
  - intros b r0 blocks1 blocks2 HP Esk Em c lc E1 E2. apply (itg_bl_P_integ _ b r0 blocks1 blocks2 HP Esk Em E1 E2).
  - split; [exact Hinv|]. split; [exact Hcache|]. exists []. reflexivity.
Qed.

Lemma itg_integrate_inv : forall blocks log bs blocks' log' rem,
  itg_inv_bl blocks log -> itg_integrate blocks log bs = itg_ok (blocks', log', rem) ->
  itg_inv_bl blocks' log' /\ exists new, log' = new ++ log.
Proof.
  intros blocks log bs blocks' log' rem Hinv H. unfold itg_integrate in H.
  destruct bs as [|e bs0] eqn:Eb.
  - injection H as <- <- _. split; [exact Hinv|exists []; reflexivity].
  - rewrite <- Eb in *. clear Eb.
    destruct (itg_loop (itg_loop_fuel bs) (fst (itg_pk_next (itg_pk_new bs)))
               (itg_mkrun blocks log [] (snd (itg_pk_next (itg_pk_new bs))))) as [r'| |] eqn:E;
      cbn [itg_bind] in H; try discriminate.
    injection H as <- <- _.
    assert (Hc : itg_cache_ok blocks []) by (intros c v Hv; discriminate).
    destruct (itg_loop_inv _ _ (itg_mkrun blocks log [] (snd (itg_pk_next (itg_pk_new bs)))) _ Hinv Hc E) as [A [_ B]].
    split; [exact A|exact B].
Qed.

Lemma itg_step_inv : forall mrg s u s' retry, itg_inv s -> itg_step_with mrg s u = itg_ok (s', retry) ->
  itg_inv s' /\ exists new, itg_log s' = new ++ itg_log s.
Proof.
  intros mrg s u s' retry Hinv H. unfold itg_step_with in H.
  destruct (itg_trim (itg_blocks s) (u_blocks (itg_abs_update u))) as [bs| |]; cbn [itg_bind] in H; try discriminate.
  destruct (itg_integrate (itg_blocks s) (itg_log s) bs) as [[[blocks log] rem]| |] eqn:E;
    cbn [itg_bind] in H; try discriminate.
  destruct (itg_integrate_inv _ _ _ _ _ _ Hinv E) as [A B].
  destruct (itg_pend s) as [p|]; injection H as <- _; unfold itg_inv; cbn [itg_blocks itg_log]; split; assumption.
Qed.

Lemma itg_retry_inv : forall mrg fuel s s', itg_inv s -> itg_retry_with mrg fuel s = itg_ok s' ->
  itg_inv s' /\ exists new, itg_log s' = new ++ itg_log s.
Proof.
  intros mrg. induction fuel as [|f IH]; intros s s' Hinv H; cbn [itg_retry_with] in H; [discriminate|].
  destruct (itg_pend s) as [p|].
  - destruct (itg_step_with mrg (itg_mkstore (itg_blocks s) None (itg_log s)) (itg_p_update p)) as [[s1 r1]| |] eqn:E1;
      cbn [itg_bind] in H; try discriminate.
    cbn [fst] in H.
    destruct (itg_step_with mrg s1 itg_empty_update) as [[s2 r2]| |] eqn:E2; cbn [itg_bind] in H; try discriminate.
    cbn [fst snd] in H.
    assert (Hinv0 : itg_inv (itg_mkstore (itg_blocks s) None (itg_log s))) by exact Hinv.
    destruct (itg_step_inv _ _ _ _ _ Hinv0 E1) as [A1 [n1 B1]]. cbn [itg_log] in B1.
    destruct (itg_step_inv _ _ _ _ _ A1 E2) as [A2 [n2 B2]].
    destruct r2.
    + destruct (IH _ _ A2 H) as [A3 [n3 B3]]. split; [exact A3|]. exists (n3 ++ n2 ++ n1).
      rewrite B3, B2, B1, !app_assoc. reflexivity.
    + injection H as <-. split; [exact A2|]. exists (n2 ++ n1). rewrite B2, B1, app_assoc. reflexivity.
  - injection H as <-. split; [exact Hinv|exists []; reflexivity].
Qed.

Lemma itg_apply_with_inv : forall mrg s u s', itg_inv s -> itg_apply_with mrg s u = itg_ok s' ->
  itg_inv s' /\ exists new, itg_log s' = new ++ itg_log s.
Proof.
  intros mrg s u s' Hinv H. unfold itg_apply_with in H.
  destruct (itg_step_with mrg s u) as [[s1 r1]| |] eqn:E1; cbn [itg_bind] in H; try discriminate.
  cbn [fst snd] in H. destruct (itg_step_inv _ _ _ _ _ Hinv E1) as [A1 [n1 B1]].
  destruct r1.
  - destruct (itg_retry_inv _ _ _ _ A1 H) as [A2 [n2 B2]]. split; [exact A2|]. exists (n2 ++ n1).
    rewrite B2, B1, app_assoc. reflexivity.
  - injection H as <-. split; [exact A1|exists n1; exact B1].
Qed.

Lemma itg_inv_empty : itg_inv itg_empty.
Proof.
  unfold itg_inv, itg_empty. cbn [itg_blocks itg_log]. split.
  - intros c l H. discriminate.
  - intros i. reflexivity.
  - exact I.
  - exact I.
  - intros b [].
Qed.

(* stores reachable from the empty store by apply_update of arbitrary updates *)
Inductive itg_reachable : itg_store -> Prop :=
| itg_reach_empty : itg_reachable itg_empty
| itg_reach_apply : forall s u, itg_reachable s -> itg_reachable (itg_apply_update s u).

Lemma itg_apply_update_inv : forall s u, itg_inv s ->
  itg_inv (itg_apply_update s u) /\ exists new, itg_log (itg_apply_update s u) = new ++ itg_log s.
Proof.
  intros s u Hinv. unfold itg_apply_update, itg_apply_update_res.
  destruct (itg_apply_with itg_mrg s u) as [s'| |] eqn:E.
  - apply (itg_apply_with_inv _ _ _ _ Hinv E).
  - split; [exact Hinv|exists []; reflexivity].
  - split; [exact Hinv|exists []; reflexivity].
Qed.

Theorem itg_reachable_inv : forall s, itg_reachable s -> itg_inv s.
Proof.
  intros s H. induction H as [|s u _ IH]; [apply itg_inv_empty|]. apply (itg_apply_update_inv s u IH).
Qed.

Lemma itg_log_causal_in : forall log b, itg_log_causal log -> In b log ->
  forall d, In d (itg_deps b) -> itg_log_has log d = true.
Proof.
  induction log as [|x r IH]; intros b Hc Hb d Hd; [destruct Hb|].
  cbn [itg_log_causal] in Hc. destruct Hc as [Hx Hr].
  assert (E : itg_log_has (x :: r) d = itg_covers x d || itg_log_has r d) by reflexivity.
  rewrite E. destruct Hb as [<-|Hb].
  - rewrite (Hx d Hd). apply orb_true_r.
  - rewrite (IH b Hr Hb d Hd). apply orb_true_r.
Qed.

(* (b) CAUSAL SAFETY.  In every reachable store: the integrated ids are exactly the ids of the integrated blocks
   (the ghost log), every dependency id of an integrated block is integrated - it was integrated BEFORE the block
   (itg_log_causal: by the older blocks of the log) -, no id is integrated twice, and one apply_update only adds
   blocks to the log. *)
Theorem itg_causal_safety : forall s, itg_reachable s ->
  (forall i, itg_has (itg_blocks s) i = itg_log_has (itg_log s) i) /\
  itg_log_causal (itg_log s) /\
  itg_log_disjoint (itg_log s) /\
  (forall b, In b (itg_log s) -> forall d, In d (itg_deps b) ->
     itg_has (itg_blocks s) d = true /\ itg_is_missing (itg_blocks s) d = false).
Proof.
  intros s Hr. destruct (itg_reachable_inv s Hr) as [I1 I2 I3 I4 I5].
  split; [exact I2|]. split; [exact I3|]. split; [exact I4|].
  intros b Hb d Hd. assert (Hh : itg_has (itg_blocks s) d = true).
  { rewrite I2. apply (itg_log_causal_in _ b I3 Hb d Hd). }
  split; [exact Hh|]. rewrite (itg_is_missing_spec _ _ I1), Hh. reflexivity.
Qed.

(* the same for one step from any store that satisfies the invariant, whatever the merge function *)
Theorem itg_causal_step : forall s u s', itg_inv s -> itg_apply_update_res s u = itg_ok s' ->
  itg_inv s' /\ exists new, itg_log s' = new ++ itg_log s.
Proof. intros s u s' Hinv H. apply (itg_apply_with_inv _ _ _ _ Hinv H). Qed.

(* ================================================================================================ *)
(* 2. the loop of Update::integrate ends within its fuel                                            *)
(* ================================================================================================ *)
Lemma itg_nblocks_cons : forall c d r, itg_nblocks ((c, d) :: r) = (length d + itg_nblocks r)%nat.
Proof. reflexivity. Qed.
Lemma itg_del_cons : forall (A : Type) c0 (v : A) r c,
  itg_del ((c0, v) :: r) c = if c0 =? c then itg_del r c else (c0, v) :: itg_del r c.
Proof. intros. unfold itg_del. cbn [filter fst]. destruct (c0 =? c); reflexivity. Qed.

Lemma itg_nblocks_del : forall m c,
  (itg_nblocks (itg_del m c) + match itg_get m c with Some d => length d | None => 0 end <= itg_nblocks m)%nat.
Proof.
  intros m c. induction m as [|[c0 d0] r IH]; [cbn; lia|].
  rewrite itg_del_cons, itg_nblocks_cons. cbn [itg_get]. rewrite (N.eqb_sym c c0).
  destruct (c0 =? c) eqn:E.
  - assert (Hd : (itg_nblocks (itg_del r c) <= itg_nblocks r)%nat) by (destruct (itg_get r c); lia).
    lia.
  - rewrite itg_nblocks_cons. lia.
Qed.

Lemma itg_nblocks_ins : forall m c d, itg_nblocks (itg_ins m c d) = (length d + itg_nblocks m)%nat.
Proof.
  intros m c d. induction m as [|[c0 d0] r IH]; cbn [itg_ins]; [reflexivity|].
  destruct (c <? c0); [reflexivity|]. rewrite !itg_nblocks_cons, IH. lia.
Qed.

Lemma itg_nblocks_put : forall m c d,
  (itg_nblocks (itg_put m c d) + match itg_get m c with Some d0 => length d0 | None => 0 end
   <= itg_nblocks m + length d)%nat.
Proof. intros m c d. unfold itg_put. rewrite itg_nblocks_ins. pose proof (itg_nblocks_del m c). lia. Qed.

Definition itg_llen (latest : option (N * list block)) : nat :=
  match latest with Some (_, d) => length d | None => O end.
Definition itg_wnext (n : option block) : nat := match n with Some _ => 2%nat | None => O end.
Definition itg_pk_measure (n : option block) (pk : itg_picker) : nat :=
  (2 * (itg_nblocks (itg_pk_store pk) + itg_llen (itg_pk_latest pk)) + length (itg_pk_stack pk) + itg_wnext n)%nat.

Lemma itg_pk_next_client_measure : forall cs store latest n cs' store' latest',
  itg_pk_next_client cs store latest = (n, cs', store', latest') ->
  (2 * (itg_nblocks store' + itg_llen latest') + itg_wnext n <= 2 * (itg_nblocks store + itg_llen latest))%nat.
Proof.
  induction cs as [|c cs IH]; intros store latest n cs' store' latest' H; cbn [itg_pk_next_client] in H.
  - injection H as <- _ <- <-. cbn [itg_wnext]. lia.
  - pose proof (itg_nblocks_del store c) as Hd.
    destruct (itg_get store c) as [[|b r]|] eqn:E.
    + specialize (IH _ _ _ _ _ _ H). cbn [itg_llen length] in IH. lia.
    + injection H as <- _ <- <-. cbn [itg_llen itg_wnext length] in *. lia.
    + specialize (IH _ _ _ _ _ _ H). cbn [itg_llen] in IH. lia.
Qed.

Lemma itg_pk_next_measure : forall pk b,
  (itg_pk_measure (fst (itg_pk_next pk)) (snd (itg_pk_next pk)) < itg_pk_measure (Some b) pk)%nat.
Proof.
  intros pk b. unfold itg_pk_next, itg_pk_measure. cbn [itg_wnext].
  destruct (itg_pk_stack pk) as [|x s] eqn:Es.
  - destruct (itg_pk_latest pk) as [[c [|x r]]|] eqn:El.
    + destruct (itg_pk_next_client (itg_pk_clients pk) (itg_pk_store pk) (Some (c, []))) as [[[n cs] store] latest] eqn:E.
      pose proof (itg_pk_next_client_measure _ _ _ _ _ _ _ E) as Hm.
      cbn [fst snd itg_pk_store itg_pk_latest itg_pk_stack length itg_llen] in *. lia.
    + cbn [fst snd itg_pk_store itg_pk_latest itg_pk_stack length itg_llen itg_wnext]. lia.
    + destruct (itg_pk_next_client (itg_pk_clients pk) (itg_pk_store pk) None) as [[[n cs] store] latest] eqn:E.
      pose proof (itg_pk_next_client_measure _ _ _ _ _ _ _ E) as Hm.
      cbn [fst snd itg_pk_store itg_pk_latest itg_pk_stack length itg_llen] in *. lia.
  - cbn [fst snd itg_pk_store itg_pk_latest itg_pk_stack length itg_wnext]. lia.
Qed.

Lemma itg_pk_drain_measure : forall items store latest unapp store' latest' unapp',
  itg_pk_drain items store latest unapp = (store', latest', unapp') ->
  (itg_nblocks store' + itg_llen latest' <= itg_nblocks store + itg_llen latest)%nat.
Proof.
  induction items as [|item rest IH]; intros store latest unapp store' latest' unapp' H; cbn [itg_pk_drain] in H.
  - injection H as <- <- _. lia.
  - pose proof (itg_nblocks_del store (itg_client item)) as Hd.
    destruct (itg_get store (itg_client item)) as [blocks|] eqn:E.
    + specialize (IH _ _ _ _ _ _ H). lia.
    + destruct latest as [[lc blocks]|].
      * destruct (lc =? itg_client item).
        -- specialize (IH _ _ _ _ _ _ H). cbn [itg_llen length] in *. lia.
        -- apply (IH _ _ _ _ _ _ H).
      * apply (IH _ _ _ _ _ _ H).
Qed.

Lemma itg_pk_switch_measure : forall pk b m,
  (itg_pk_measure (fst (itg_pk_switch pk b m)) (snd (itg_pk_switch pk b m)) < itg_pk_measure (Some b) pk)%nat.
Proof.
  intros pk b m. unfold itg_pk_switch.
  set (mc := cl m). set (missing := itg_sv_set_min (itg_pk_missing pk) mc (ck m)).
  set (stack := b :: itg_pk_stack pk).
  assert (Hfail : forall store latest unapp,
     itg_pk_drain (rev stack) (itg_pk_store pk) (itg_pk_latest pk) (itg_pk_unapp pk) = (store, latest, unapp) ->
     let pk1 := itg_mkpicker store latest [] (itg_pk_clients pk) (itg_sv_set_min missing mc (ck m)) unapp in
     (itg_pk_measure (fst (itg_pk_next pk1)) (snd (itg_pk_next pk1)) < itg_pk_measure (Some b) pk)%nat).
  { intros store latest unapp Hd pk1. pose proof (itg_pk_next_measure pk1 b) as H1.
    pose proof (itg_pk_drain_measure _ _ _ _ _ _ _ Hd) as H2.
    assert (Hm1 : itg_pk_measure (Some b) pk1 = (2 * (itg_nblocks store + itg_llen latest) + 0 + 2)%nat) by reflexivity.
    assert (Hm0 : itg_pk_measure (Some b) pk
                  = (2 * (itg_nblocks (itg_pk_store pk) + itg_llen (itg_pk_latest pk)) + length (itg_pk_stack pk) + 2)%nat)
      by reflexivity.
    rewrite Hm1 in H1. rewrite Hm0. lia. }
  destruct (itg_pk_drain (rev stack) (itg_pk_store pk) (itg_pk_latest pk) (itg_pk_unapp pk)) as [[store latest] unapp] eqn:Ed.
  specialize (Hfail _ _ _ eq_refl). cbn zeta in Hfail.
  destruct (itg_get (itg_pk_store pk) mc) as [[|b' r]|] eqn:Eg; try exact Hfail.
  destruct (existsb (fun s => itg_client s =? mc) stack); [exact Hfail|].
  cbn [fst snd]. unfold itg_pk_measure. cbn [itg_pk_store itg_pk_latest itg_pk_stack itg_wnext].
  pose proof (itg_nblocks_put (itg_pk_store pk) mc r) as Hp. rewrite Eg in Hp. unfold stack. cbn [length] in *. lia.
Qed.

Lemma itg_push_fuel : forall st c s len sk, itg_push st c s len sk <> itg_nofuel.
Proof.
  intros st c s len sk. unfold itg_push. destruct (itg_get st c) as [l|]; [|discriminate].
  assert (H : itg_push_list l s len sk <> itg_nofuel).
  { unfold itg_push_list. destruct l as [|g r]; [discriminate|].
    destruct (itg_list_clock (g :: r) =? s); [discriminate|].
    destruct (itg_seg_split (g :: r) s) as [[[pre x] post]|]; [|discriminate].
    destruct (itg_sg_end x <? s + len); [discriminate|].
    destruct (negb (itg_sg_skip x)); [discriminate|]. destruct sk; discriminate. }
  destruct (itg_push_list l s len sk); cbn [itg_bind]; try discriminate. contradiction.
Qed.

Lemma itg_loop_fuel_ok : forall fuel next r, (itg_pk_measure next (itg_rn_pk r) <= fuel)%nat ->
  itg_loop fuel next r <> itg_nofuel.
Proof.
  induction fuel as [|f IH]; intros next r Hm.
  - destruct next as [b|]; [|cbn; discriminate]. unfold itg_pk_measure in Hm. cbn [itg_wnext] in Hm. lia.
  - destruct next as [b|]; [|cbn; discriminate]. cbn [itg_loop].
    destruct (itg_is_skip b).
    + apply IH. cbn [itg_rn_pk]. pose proof (itg_pk_next_measure (itg_rn_pk r) b). lia.
    + destruct (itg_missing_dep (itg_rn_blocks r) b) as [m|].
      * apply IH. cbn [itg_rn_pk]. pose proof (itg_pk_switch_measure (itg_rn_pk r) b m). lia.
      * match goal with |- itg_bind ?x _ <> _ => destruct x as [blocks1| |] eqn:E1 end; cbn [itg_bind]; try discriminate.
        2: { destruct (_ <? itg_clock b); [apply itg_push_fuel in E1; contradiction|discriminate]. }
        match goal with |- itg_bind ?x _ <> _ => destruct x as [blocks2| |] eqn:E2 end; cbn [itg_bind]; try discriminate.
        2: { apply itg_push_fuel in E2. contradiction. }
        apply IH. cbn [itg_rn_pk]. pose proof (itg_pk_next_measure (itg_rn_pk r) b). lia.
Qed.

Lemma itg_integrate_fuel_ok : forall blocks log bs, itg_integrate blocks log bs <> itg_nofuel.
Proof.
  intros blocks log bs. unfold itg_integrate. destruct bs as [|e bs0] eqn:Eb; [discriminate|]. rewrite <- Eb. clear Eb.
  set (np := itg_pk_next (itg_pk_new bs)).
  assert (Hm : (itg_pk_measure (fst np) (snd np) <= itg_loop_fuel bs)%nat).
  { pose proof (itg_pk_next_measure (itg_pk_new bs) (BSkip (mkid 0 0) 0)) as H. fold np in H.
    unfold itg_pk_measure at 2 in H. cbn [itg_pk_new itg_pk_store itg_pk_latest itg_pk_stack itg_llen length itg_wnext] in H.
    unfold itg_loop_fuel. lia. }
  pose proof (itg_loop_fuel_ok _ (fst np) (itg_mkrun blocks log [] (snd np)) Hm) as Hl.
  destruct (itg_loop (itg_loop_fuel bs) (fst np) (itg_mkrun blocks log [] (snd np))); cbn [itg_bind]; try discriminate.
  contradiction.
Qed.

(* ================================================================================================ *)
(* 4. (a) termination of apply_update                                                               *)
(* ================================================================================================ *)
(* ---- lengths of non-Skip blocks ---- *)
Definition itg_bu (b : block) : N := if itg_is_skip b then 0 else block_len b.
Definition itg_ulist (d : list block) : N := fold_right (fun b m => itg_bu b + m) 0 d.
Definition itg_bu_opt (n : option block) : N := match n with Some b => itg_bu b | None => 0 end.
Definition itg_ulat (latest : option (N * list block)) : N :=
  match latest with Some (_, d) => itg_ulist d | None => 0 end.

Lemma itg_units_cons : forall c d r, itg_units ((c, d) :: r) = itg_ulist d + itg_units r.
Proof. reflexivity. Qed.
Lemma itg_ulist_cons : forall b d, itg_ulist (b :: d) = itg_bu b + itg_ulist d.
Proof. reflexivity. Qed.
Lemma itg_ulist_app : forall x y, itg_ulist (x ++ y) = itg_ulist x + itg_ulist y.
Proof. induction x as [|b r IH]; intros y; cbn [app]; [reflexivity|]. rewrite !itg_ulist_cons, IH. lia. Qed.
Lemma itg_ulist_rev : forall x, itg_ulist (rev x) = itg_ulist x.
Proof.
  induction x as [|b r IH]; [reflexivity|]. cbn [rev]. rewrite itg_ulist_app, IH, !itg_ulist_cons.
  change (itg_ulist []) with 0. lia.
Qed.
Lemma itg_ulist_nil : itg_ulist [] = 0.
Proof. reflexivity. Qed.

Lemma itg_units_del : forall m c,
  itg_units (itg_del m c) + match itg_get m c with Some d => itg_ulist d | None => 0 end <= itg_units m.
Proof.
  intros m c. induction m as [|[c0 d0] r IH]; [cbn; lia|].
  rewrite itg_del_cons, itg_units_cons. cbn [itg_get]. rewrite (N.eqb_sym c c0).
  destruct (c0 =? c) eqn:E.
  - assert (Hd : itg_units (itg_del r c) <= itg_units r) by (destruct (itg_get r c); lia). lia.
  - rewrite itg_units_cons. lia.
Qed.
Lemma itg_units_ins : forall m c d, itg_units (itg_ins m c d) = itg_ulist d + itg_units m.
Proof.
  intros m c d. induction m as [|[c0 d0] r IH]; cbn [itg_ins]; [reflexivity|].
  destruct (c <? c0); [reflexivity|]. rewrite !itg_units_cons, IH. lia.
Qed.
Lemma itg_units_put : forall m c d,
  itg_units (itg_put m c d) + match itg_get m c with Some d0 => itg_ulist d0 | None => 0 end
  <= itg_units m + itg_ulist d.
Proof. intros m c d. unfold itg_put. rewrite itg_units_ins. pose proof (itg_units_del m c). lia. Qed.

Definition itg_pk_units (pk : itg_picker) : N :=
  itg_units (itg_pk_store pk) + itg_ulat (itg_pk_latest pk) + itg_ulist (itg_pk_stack pk) + itg_units (itg_pk_unapp pk).

Lemma itg_pk_next_client_units : forall cs store latest n cs' store' latest',
  itg_pk_next_client cs store latest = (n, cs', store', latest') ->
  itg_bu_opt n + itg_units store' + itg_ulat latest' <= itg_units store + itg_ulat latest.
Proof.
  induction cs as [|c cs IH]; intros store latest n cs' store' latest' H; cbn [itg_pk_next_client] in H.
  - injection H as <- _ <- <-. cbn [itg_bu_opt]. lia.
  - pose proof (itg_units_del store c) as Hd.
    destruct (itg_get store c) as [[|b r]|] eqn:E.
    + specialize (IH _ _ _ _ _ _ H). cbn [itg_ulat] in *; rewrite ?itg_ulist_nil in *. lia.
    + injection H as <- _ <- <-. cbn [itg_ulat itg_bu_opt] in *. rewrite itg_ulist_cons in Hd. lia.
    + specialize (IH _ _ _ _ _ _ H). cbn [itg_ulat] in *. lia.
Qed.

Lemma itg_pk_next_units : forall pk,
  itg_bu_opt (fst (itg_pk_next pk)) + itg_pk_units (snd (itg_pk_next pk)) <= itg_pk_units pk.
Proof.
  intros pk. unfold itg_pk_next, itg_pk_units.
  destruct (itg_pk_stack pk) as [|x s] eqn:Es.
  - destruct (itg_pk_latest pk) as [[c [|x r]]|] eqn:El.
    + destruct (itg_pk_next_client (itg_pk_clients pk) (itg_pk_store pk) (Some (c, []))) as [[[n cs] store] latest] eqn:E.
      pose proof (itg_pk_next_client_units _ _ _ _ _ _ _ E) as Hm.
      cbn [fst snd itg_pk_store itg_pk_latest itg_pk_stack itg_pk_unapp itg_ulat] in *; rewrite ?itg_ulist_nil in *. lia.
    + cbn [fst snd itg_pk_store itg_pk_latest itg_pk_stack itg_pk_unapp itg_ulat itg_bu_opt].
      rewrite itg_ulist_cons, itg_ulist_nil. lia.
    + destruct (itg_pk_next_client (itg_pk_clients pk) (itg_pk_store pk) None) as [[[n cs] store] latest] eqn:E.
      pose proof (itg_pk_next_client_units _ _ _ _ _ _ _ E) as Hm.
      cbn [fst snd itg_pk_store itg_pk_latest itg_pk_stack itg_pk_unapp itg_ulat] in *; rewrite ?itg_ulist_nil in *. lia.
  - cbn [fst snd itg_pk_store itg_pk_latest itg_pk_stack itg_pk_unapp itg_bu_opt]. rewrite itg_ulist_cons. lia.
Qed.

Lemma itg_pk_drain_units : forall items store latest unapp store' latest' unapp',
  itg_pk_drain items store latest unapp = (store', latest', unapp') ->
  itg_units store' + itg_ulat latest' + itg_units unapp'
  <= itg_units store + itg_ulat latest + itg_units unapp + itg_ulist items.
Proof.
  induction items as [|item rest IH]; intros store latest unapp store' latest' unapp' H; cbn [itg_pk_drain] in H.
  - injection H as <- <- <-. rewrite itg_ulist_nil. lia.
  - rewrite itg_ulist_cons. pose proof (itg_units_del store (itg_client item)) as Hd.
    destruct (itg_get store (itg_client item)) as [blocks|] eqn:E.
    + specialize (IH _ _ _ _ _ _ H).
      pose proof (itg_units_put unapp (itg_client item) (item :: blocks)) as Hp. rewrite itg_ulist_cons in Hp.
      destruct (itg_get unapp (itg_client item)); lia.
    + destruct latest as [[lc blocks]|].
      * destruct (lc =? itg_client item).
        -- specialize (IH _ _ _ _ _ _ H).
           pose proof (itg_units_put unapp (itg_client item) (item :: blocks)) as Hp. rewrite itg_ulist_cons in Hp.
           cbn [itg_ulat] in *; rewrite ?itg_ulist_nil in *. destruct (itg_get unapp (itg_client item)); lia.
        -- specialize (IH _ _ _ _ _ _ H).
           pose proof (itg_units_put unapp (itg_client item) [item]) as Hp. rewrite itg_ulist_cons in Hp.
           cbn [itg_ulat] in *; rewrite ?itg_ulist_nil in *. destruct (itg_get unapp (itg_client item)); lia.
      * specialize (IH _ _ _ _ _ _ H).
        pose proof (itg_units_put unapp (itg_client item) [item]) as Hp. rewrite itg_ulist_cons in Hp.
        cbn [itg_ulat] in *; rewrite ?itg_ulist_nil in *. destruct (itg_get unapp (itg_client item)); lia.
Qed.

Lemma itg_pk_switch_units : forall pk b m,
  itg_bu_opt (fst (itg_pk_switch pk b m)) + itg_pk_units (snd (itg_pk_switch pk b m)) <= itg_bu b + itg_pk_units pk.
Proof.
  intros pk b m. unfold itg_pk_switch.
  set (mc := cl m). set (missing := itg_sv_set_min (itg_pk_missing pk) mc (ck m)).
  set (stack := b :: itg_pk_stack pk).
  destruct (itg_pk_drain (rev stack) (itg_pk_store pk) (itg_pk_latest pk) (itg_pk_unapp pk)) as [[store latest] unapp] eqn:Ed.
  set (pk1 := itg_mkpicker store latest [] (itg_pk_clients pk) (itg_sv_set_min missing mc (ck m)) unapp).
  assert (Hfail : itg_bu_opt (fst (itg_pk_next pk1)) + itg_pk_units (snd (itg_pk_next pk1)) <= itg_bu b + itg_pk_units pk).
  { pose proof (itg_pk_next_units pk1) as H1. pose proof (itg_pk_drain_units _ _ _ _ _ _ _ Ed) as H2.
    rewrite itg_ulist_rev in H2. unfold stack in H2. rewrite itg_ulist_cons in H2.
    assert (Hu1 : itg_pk_units pk1 = itg_units store + itg_ulat latest + 0 + itg_units unapp) by reflexivity.
    unfold itg_pk_units at 2. lia. }
  destruct (itg_get (itg_pk_store pk) mc) as [[|b' r]|] eqn:Eg; try exact Hfail.
  destruct (existsb (fun s => itg_client s =? mc) stack); [exact Hfail|].
  cbn [fst snd itg_bu_opt]. unfold itg_pk_units. cbn [itg_pk_store itg_pk_latest itg_pk_stack itg_pk_unapp].
  pose proof (itg_units_put (itg_pk_store pk) mc r) as Hp. rewrite Eg, itg_ulist_cons in Hp.
  unfold stack. rewrite itg_ulist_cons. lia.
Qed.

(* ---- the missing vector ---- *)
Lemma itg_in_del : forall (A : Type) (m : list (N * A)) c e, In e (itg_del m c) -> In e m.
Proof. intros A m c e H. unfold itg_del in H. apply filter_In in H. apply H. Qed.
Lemma itg_in_ins : forall (A : Type) (m : list (N * A)) c v e, In e (itg_ins m c v) -> e = (c, v) \/ In e m.
Proof.
  intros A m c v e. induction m as [|[c0 v0] r IH]; cbn [itg_ins]; intros H.
  - destruct H as [<-|[]]. left. reflexivity.
  - destruct (c <? c0).
    + destruct H as [<-|H]; [left; reflexivity|right; exact H].
    + destruct H as [<-|H]; [right; left; reflexivity|]. destruct (IH H) as [->|H']; [left; reflexivity|right; right; exact H'].
Qed.
Lemma itg_in_put : forall (A : Type) (m : list (N * A)) c v e, In e (itg_put m c v) -> e = (c, v) \/ In e m.
Proof.
  intros A m c v e H. unfold itg_put in H. apply itg_in_ins in H. destruct H as [->|H]; [left; reflexivity|].
  right. apply (itg_in_del _ _ _ _ H).
Qed.
Lemma itg_in_set_min : forall m c k e, In e (itg_sv_set_min m c k) -> In e m \/ e = (c, k).
Proof.
  intros m c k e H. unfold itg_sv_set_min in H. destruct (itg_get m c) as [v|] eqn:E.
  - apply itg_in_put in H. destruct H as [->|H]; [|left; exact H].
    destruct (N.min_spec v k) as [[_ ->]|[_ ->]]; [left; apply itg_get_in; exact E|right; reflexivity].
  - apply itg_in_put in H. destruct H as [->|H]; [right; reflexivity|left; exact H].
Qed.

Lemma itg_pk_next_missing : forall pk, itg_pk_missing (snd (itg_pk_next pk)) = itg_pk_missing pk.
Proof.
  intros pk. unfold itg_pk_next. destruct (itg_pk_stack pk); [|reflexivity].
  destruct (itg_pk_latest pk) as [[c [|x r]]|]; try reflexivity.
  - destruct (itg_pk_next_client _ _ _) as [[[n cs] store] latest]. reflexivity.
  - destruct (itg_pk_next_client _ _ _) as [[[n cs] store] latest]. reflexivity.
Qed.

Lemma itg_pk_switch_missing : forall pk b m e, In e (itg_pk_missing (snd (itg_pk_switch pk b m))) ->
  In e (itg_pk_missing pk) \/ e = (cl m, ck m).
Proof.
  intros pk b m e. unfold itg_pk_switch.
  destruct (itg_pk_drain _ _ _ _) as [[store latest] unapp].
  assert (Hfail : In e (itg_pk_missing (snd (itg_pk_next
            (itg_mkpicker store latest [] (itg_pk_clients pk)
               (itg_sv_set_min (itg_sv_set_min (itg_pk_missing pk) (cl m) (ck m)) (cl m) (ck m)) unapp)))) ->
          In e (itg_pk_missing pk) \/ e = (cl m, ck m)).
  { rewrite itg_pk_next_missing. cbn [itg_pk_missing]. intros H. apply itg_in_set_min in H.
    destruct H as [H|H]; [|right; exact H]. apply itg_in_set_min in H. exact H. }
  destruct (itg_get (itg_pk_store pk) (cl m)) as [[|b' r]|]; try exact Hfail.
  destruct (existsb _ _); [exact Hfail|]. cbn [snd itg_pk_missing]. apply itg_in_set_min.
Qed.

(* ---- content-free blocks; trimming does not add length ---- *)
Definition itg_cf_block (b : block) : bool :=
  match b with
  | BItem _ _ _ _ _ (BDeleted _) => true
  | BItem _ _ _ _ _ (BType (TWeak _)) => true
  | BItem _ _ _ _ _ _ => false
  | _ => true
  end.

Lemma itg_abs_block_cf : forall b, itg_cf_block (itg_abs_block b) = true.
Proof.
  intros [i o ro p ps c|i n|i n]; cbn [itg_abs_block itg_cf_block]; try reflexivity.
  destruct c as [n|l|bb|s|j|k j|t|l|g o0]; cbn [itg_abs_content]; try reflexivity.
  destruct t; reflexivity.
Qed.

Lemma itg_abs_block_id : forall b, itg_cf_block b = true -> itg_abs_block b = b.
Proof.
  intros [i o ro p ps c|i n|i n] H; cbn [itg_abs_block itg_cf_block] in *; try reflexivity.
  destruct c as [n|l|bb|s|j|k j|t|l|g o0]; try discriminate; cbn [itg_abs_content content_len]; try reflexivity.
  destruct t; try discriminate. reflexivity.
Qed.

Lemma itg_abs_update_idem : forall u, itg_abs_update (itg_abs_update u) = itg_abs_update u.
Proof.
  intros u. unfold itg_abs_update. cbn [u_blocks]. f_equal. rewrite map_map. apply map_ext. intros [c d]. cbn [fst snd].
  f_equal. rewrite map_map. apply map_ext. intros b. apply itg_abs_block_id. apply itg_abs_block_cf.
Qed.

Lemma itg_abs_block_view : forall b,
  block_id (itg_abs_block b) = block_id b /\ block_len (itg_abs_block b) = block_len b /\
  itg_is_skip (itg_abs_block b) = itg_is_skip b /\ itg_deps (itg_abs_block b) = itg_deps b.
Proof.
  intros [i o ro p ps c|i n|i n]; cbn [itg_abs_block block_id block_len itg_is_skip itg_deps]; try (repeat split; reflexivity).
  destruct c as [n|l|bb|s|j|k j|t|l|g o0]; cbn [itg_abs_content content_len]; try (repeat split; reflexivity).
  destruct t; repeat split; reflexivity.
Qed.

Lemma itg_splice_spec : forall b k, itg_cf_block b = true -> 0 < k < block_len b ->
  let lr := itg_splice b k in
  itg_cf_block (fst lr) = true /\ itg_cf_block (snd lr) = true /\
  block_id (fst lr) = block_id b /\ block_len (fst lr) = k /\
  block_id (snd lr) = mkid (cl (block_id b)) (ck (block_id b) + k) /\ block_len (snd lr) = block_len b - k /\
  itg_is_skip (fst lr) = itg_is_skip b /\ itg_is_skip (snd lr) = itg_is_skip b.
Proof.
  intros [i o ro p ps c|i n|i n] k Hcf Hk; cbn [itg_splice mrg_splice fst snd block_id block_len itg_is_skip itg_cf_block] in *.
  - destruct c as [n|l|bb|s|j|k0 j|t|l|g o0]; try discriminate.
    + cbn [mrg_content_splice fst snd content_len]. repeat split; reflexivity.
    + destruct t; try discriminate. cbn [content_len] in Hk. lia.
  - repeat split; reflexivity.
  - repeat split; reflexivity.
Qed.

Lemma itg_split_at_units : forall d k d' i, Forall (fun b => itg_cf_block b = true) d ->
  itg_split_at d k = Some (d', i) ->
  itg_ulist d' = itg_ulist d /\ Forall (fun b => itg_cf_block b = true) d' /\ (i <= length d')%nat.
Proof.
  induction d as [|b r IH]; intros k d' i Hcf H; cbn [itg_split_at] in H; [discriminate|].
  inversion Hcf as [|b0 r0 Hb Hr]; subst.
  destruct ((itg_clock b <=? k) && (k <? itg_end b)) eqn:E.
  - destruct (k =? itg_clock b) eqn:E2.
    + injection H as <- <-. split; [reflexivity|]. split; [exact Hcf|]. cbn [length]. lia.
    + unfold itg_end, itg_clock in E, E2, H. injection H as <- <-.
      assert (Hk : 0 < k - ck (block_id b) < block_len b) by lia.
      destruct (itg_splice_spec b _ Hb Hk) as [S1 [S2 [S3 [S4 [S5 [S6 [S7 S8]]]]]]].
      split; [|split].
      * rewrite !itg_ulist_cons. unfold itg_bu. rewrite S7, S8, S4, S6. destruct (itg_is_skip b); lia.
      * constructor; [exact S1|]. constructor; [exact S2|exact Hr].
      * cbn [length]. lia.
  - destruct (itg_split_at r k) as [[r' i']|] eqn:E2; [|discriminate]. injection H as <- <-.
    destruct (IH _ _ _ Hr E2) as [I1 [I2 I3]]. split; [|split].
    + rewrite !itg_ulist_cons, I1. reflexivity.
    + constructor; assumption.
    + cbn [length]. lia.
Qed.

Lemma itg_ulist_firstn_skipn : forall d a, itg_ulist (firstn a d) + itg_ulist (skipn a d) = itg_ulist d.
Proof. intros d a. rewrite <- itg_ulist_app, firstn_skipn. reflexivity. Qed.

Lemma itg_skipn_add : forall (A : Type) n m (l : list A), skipn n (skipn m l) = skipn (n + m) l.
Proof.
  intros A n m. induction m as [|m IH]; intros l.
  - rewrite Nat.add_0_r. reflexivity.
  - destruct l as [|x r]; [rewrite !skipn_nil; reflexivity|]. rewrite Nat.add_succ_r. cbn [skipn]. apply IH.
Qed.

Lemma itg_ulist_skipn_le : forall d a b, (a <= b)%nat -> itg_ulist (skipn b d) <= itg_ulist (skipn a d).
Proof.
  intros d a b Hab. replace b with ((b - a) + a)%nat by lia. rewrite <- itg_skipn_add.
  pose proof (itg_ulist_firstn_skipn (skipn a d) (b - a)). lia.
Qed.

Definition itg_cf_list (d : list block) : Prop := Forall (fun b => itg_cf_block b = true) d.

Lemma itg_cf_firstn : forall n d, itg_cf_list d -> itg_cf_list (firstn n d).
Proof.
  intros n d H. unfold itg_cf_list in *. rewrite Forall_forall in *. intros x Hx. apply H.
  rewrite <- (firstn_skipn n d). apply in_or_app. left. exact Hx.
Qed.
Lemma itg_cf_skipn : forall n d, itg_cf_list d -> itg_cf_list (skipn n d).
Proof.
  intros n d H. unfold itg_cf_list in *. rewrite Forall_forall in *. intros x Hx. apply H.
  rewrite <- (firstn_skipn n d). apply in_or_app. right. exact Hx.
Qed.

Lemma itg_split_opt_units : forall (cond : bool) d k dflt p, itg_cf_list d ->
  (if cond then match itg_split_at d k with Some p => itg_ok p | None => itg_undef 2 end else itg_ok (d, dflt))
    = itg_ok p ->
  itg_ulist (fst p) = itg_ulist d /\ itg_cf_list (fst p).
Proof.
  intros cond d k dflt p Hcf H. destruct cond.
  - destruct (itg_split_at d k) as [[d1 si]|] eqn:E; [|discriminate]. injection H as <-.
    destruct (itg_split_at_units _ _ _ _ Hcf E) as [A [B _]]. split; assumption.
  - injection H as <-. split; [reflexivity|exact Hcf].
Qed.

Lemma itg_excl_range_units : forall c cs ce d r d', itg_cf_list d ->
  itg_excl_range c cs ce d r = itg_ok d' -> itg_ulist d' <= itg_ulist d /\ itg_cf_list d'.
Proof.
  intros c cs ce d [rs re] d' Hcf H. unfold itg_excl_range in H. cbn [fst snd] in H.
  destruct (ce <=? rs); [injection H as <-; split; [lia|exact Hcf]|].
  match type of H with itg_bind ?x _ = _ => destruct x as [[d1 si]| |] eqn:E1 end; cbn [itg_bind fst snd] in H; try discriminate.
  destruct (itg_split_opt_units _ _ _ _ _ Hcf E1) as [U1 C1]. cbn [fst] in U1, C1.
  destruct (re <=? cs); [injection H as <-; split; [lia|exact C1]|].
  match type of H with itg_bind ?x _ = _ => destruct x as [[d2 ei]| |] eqn:E2 end; cbn [itg_bind fst snd] in H; try discriminate.
  destruct (itg_split_opt_units _ _ _ _ _ C1 E2) as [U2 C2]. cbn [fst] in U2, C2.
  destruct (si <? ei)%nat eqn:Elt.
  - injection H as <-. split.
    + rewrite itg_ulist_app, itg_ulist_cons. unfold itg_bu at 1. cbn [itg_is_skip].
      pose proof (itg_ulist_firstn_skipn d2 si). pose proof (itg_ulist_skipn_le d2 si ei ltac:(lia)). lia.
    + unfold itg_cf_list. apply Forall_app. split; [apply itg_cf_firstn; exact C2|].
      constructor; [reflexivity|apply itg_cf_skipn; exact C2].
  - injection H as <-. split; [lia|exact C2].
Qed.

Lemma itg_excl_ranges_units : forall c cs ce rs d d', itg_cf_list d ->
  itg_excl_ranges c cs ce d rs = itg_ok d' -> itg_ulist d' <= itg_ulist d /\ itg_cf_list d'.
Proof.
  intros c cs ce. induction rs as [|r rest IH]; intros d d' Hcf H; cbn [itg_excl_ranges] in H.
  - injection H as <-. split; [lia|exact Hcf].
  - destruct (itg_excl_range c cs ce d r) as [d1| |] eqn:E; cbn [itg_bind] in H; try discriminate.
    destruct (itg_excl_range_units _ _ _ _ _ _ Hcf E) as [A B]. destruct (IH _ _ B H) as [A' B']. split; [lia|exact B'].
Qed.

Definition itg_cf_blocks (bs : list (N * list block)) : Prop := forall e, In e bs -> itg_cf_list (snd e).

Lemma itg_trim_units : forall st bs bs', itg_cf_blocks bs -> itg_trim st bs = itg_ok bs' ->
  itg_units bs' <= itg_units bs /\ itg_cf_blocks bs'.
Proof.
  intros st. induction bs as [|[c d] r IH]; intros bs' Hcf H; cbn [itg_trim] in H.
  - injection H as <-. split; [lia|exact Hcf].
  - destruct (itg_trim_client st c d) as [d'| |] eqn:E; cbn [itg_bind] in H; try discriminate.
    destruct (itg_trim st r) as [r'| |] eqn:E2; cbn [itg_bind] in H; try discriminate. injection H as <-.
    assert (Hd : itg_cf_list d) by (apply (Hcf (c, d)); left; reflexivity).
    assert (Hr : itg_cf_blocks r) by (intros e He; apply Hcf; right; exact He).
    destruct (IH _ Hr eq_refl) as [A B].
    assert (Hc : itg_ulist d' <= itg_ulist d /\ itg_cf_list d').
    { unfold itg_trim_client in E. destruct (itg_get st c) as [segs|].
      - destruct d as [|f d0]; [discriminate|]. apply (itg_excl_ranges_units _ _ _ _ _ _ Hd E).
      - injection E as <-. split; [lia|exact Hd]. }
    destruct Hc as [C1 C2]. split.
    + rewrite !itg_units_cons. lia.
    + intros e [<-|He]; [exact C2|apply B; exact He].
Qed.

Lemma itg_abs_update_cf : forall u, itg_cf_blocks (u_blocks (itg_abs_update u)).
Proof.
  intros u e He. cbn [itg_abs_update u_blocks] in He. apply in_map_iff in He. destruct He as [[c d] [<- _]].
  cbn [snd fst]. unfold itg_cf_list. rewrite Forall_forall. intros b Hb. apply in_map_iff in Hb.
  destruct Hb as [b0 [<- _]]. apply itg_abs_block_cf.
Qed.

Lemma itg_abs_update_units : forall u, itg_units (u_blocks (itg_abs_update u)) = itg_units (u_blocks u).
Proof.
  intros u. cbn [itg_abs_update u_blocks]. induction (u_blocks u) as [|[c d] r IH]; [reflexivity|].
  cbn [map fst snd]. rewrite !itg_units_cons, IH. f_equal.
  induction d as [|b d IHd]; [reflexivity|]. cbn [map]. rewrite !itg_ulist_cons, IHd. f_equal.
  unfold itg_bu. destruct (itg_abs_block_view b) as [_ [-> [-> _]]]. reflexivity.
Qed.

(* ---- one run of Update::integrate: lengths are conserved or lost, never created; an entry of the missing
   vector that is no longer missing lies in a block integrated by this run ---- *)
Definition itg_T_P (blocks0 : list (N * list itg_seg)) (log0 : list block) (K : N) (next : option block) (r : itg_run) : Prop :=
  itg_blocks_ok (itg_rn_blocks r) /\
  itg_cache_ok (itg_rn_blocks r) (itg_rn_state r) /\
  itg_bu_opt next + itg_pk_units (itg_rn_pk r) + itg_ulist (itg_rn_log r) <= K /\
  (forall i, itg_has blocks0 i = true -> itg_has (itg_rn_blocks r) i = true) /\
  (forall e, In e (itg_pk_missing (itg_rn_pk r)) -> itg_has blocks0 (mkid (fst e) (snd e)) = false) /\
  exists new, itg_rn_log r = new ++ log0 /\
    forall e, In e (itg_pk_missing (itg_rn_pk r)) -> itg_has (itg_rn_blocks r) (mkid (fst e) (snd e)) = true ->
      exists b, In b new /\ itg_is_skip b = false /\ itg_covers b (mkid (fst e) (snd e)) = true.

Lemma itg_id_eta : forall m : id, mkid (cl m) (ck m) = m.
Proof. intros [a b]. reflexivity. Qed.

Lemma itg_loop_T : forall fuel next r r' K,
  itg_blocks_ok (itg_rn_blocks r) -> itg_cache_ok (itg_rn_blocks r) (itg_rn_state r) ->
  itg_bu_opt next + itg_pk_units (itg_rn_pk r) + itg_ulist (itg_rn_log r) <= K ->
  itg_pk_missing (itg_rn_pk r) = [] ->
  itg_loop fuel next r = itg_ok r' -> itg_T_P (itg_rn_blocks r) (itg_rn_log r) K None r'.
Proof.
  intros fuel next r r' K Hok Hc HK Hm H.
  apply (itg_loop_rule (itg_T_P (itg_rn_blocks r) (itg_rn_log r) K)) with (fuel := fuel) (next := next) (r := r); [| | | |exact H].
  - intros b r0 [A [B [C [M1 [M2 [new [D1 D2]]]]]]] Esk np. unfold itg_T_P. cbn [itg_rn_blocks itg_rn_log itg_rn_state itg_rn_pk].
    split; [exact A|]. split; [exact B|]. split.
    + pose proof (itg_pk_next_units (itg_rn_pk r0)). fold np in H0. cbn [itg_bu_opt] in C. lia.
    + split; [exact M1|]. split; [unfold np; rewrite itg_pk_next_missing; exact M2|].
      exists new. split; [exact D1|]. unfold np. rewrite itg_pk_next_missing. exact D2.
  - intros b r0 m [A [B [C [M1 [M2 [new [D1 D2]]]]]]] Esk Em np. unfold itg_T_P.
    cbn [itg_rn_blocks itg_rn_log itg_rn_state itg_rn_pk].
    destruct (itg_missing_dep_some _ _ _ Em) as [_ Hmiss]. rewrite (itg_is_missing_spec _ _ A) in Hmiss.
    assert (Hhm : itg_has (itg_rn_blocks r0) m = false) by (destruct (itg_has (itg_rn_blocks r0) m); [discriminate|reflexivity]).
    split; [exact A|]. split; [apply itg_cache_state1; exact B|]. split.
    + pose proof (itg_pk_switch_units (itg_rn_pk r0) b m). fold np in H0. cbn [itg_bu_opt] in C. lia.
    + split; [exact M1|]. split.
      * intros e He. unfold np in He. apply itg_pk_switch_missing in He. destruct He as [He| ->]; [apply (M2 e He)|].
        cbn [fst snd]. rewrite itg_id_eta. destruct (itg_has (itg_rn_blocks r) m) eqn:E0; [|reflexivity].
        rewrite (M1 m E0) in Hhm. discriminate.
      * exists new. split; [exact D1|]. intros e He Hh. unfold np in He. apply itg_pk_switch_missing in He.
        destruct He as [He| ->]; [apply (D2 e He Hh)|]. cbn [fst snd] in Hh. rewrite itg_id_eta in Hh. rewrite Hh in Hhm. discriminate.
  - intros b r0 blocks1 blocks2 [A [B [C [M1 [M2 [new [D1 D2]]]]]]] Esk Em c lc E1 E2 np. unfold itg_T_P.
    cbn [itg_rn_blocks itg_rn_log itg_rn_state itg_rn_pk].
    assert (Hlc : lc = itg_get_clock (itg_rn_blocks r0) c) by (apply itg_cache_local; exact B).
    rewrite Hlc in E1.
    destruct (itg_integ_spec _ _ _ _ _ _ A E1 E2) as [A1 [A2 [A3 [A4 A5]]]].
    split; [exact A1|]. split; [|split; [|split; [|split]]].
    + intros c' v. rewrite itg_get_put. destruct (c' =? c) eqn:E.
      * intros Hv. injection Hv as <-. apply N.eqb_eq in E. subst c'. rewrite A2, Hlc. reflexivity.
      * intros Hv. apply N.eqb_neq in E. unfold itg_get_clock. rewrite (A3 _ E).
        apply (itg_cache_state1 _ c B) in Hv. exact Hv.
    + pose proof (itg_pk_next_units (itg_rn_pk r0)). fold np in H0. cbn [itg_bu_opt] in C.
      rewrite itg_ulist_cons. lia.
    + intros i Hi. rewrite A4, (M1 i Hi). reflexivity.
    + unfold np. rewrite itg_pk_next_missing. exact M2.
    + exists (b :: new). split; [rewrite D1; reflexivity|]. intros e He Hh. unfold np in He.
      rewrite itg_pk_next_missing in He. rewrite A4 in Hh. apply orb_prop in Hh. destruct Hh as [Hh|Hh].
      * destruct (D2 e He Hh) as [b' [B1 [B2 B3]]]. exists b'. split; [right; exact B1|split; assumption].
      * exists b. split; [left; reflexivity|]. split; [exact Esk|].
        unfold itg_covers, itg_end. fold c. cbn [cl ck] in *. lia.
  - unfold itg_T_P. split; [exact Hok|]. split; [exact Hc|]. split; [exact HK|]. split; [tauto|].
    split; [intros e He; rewrite Hm in He; destruct He|]. exists []. split; [reflexivity|].
    intros e He. rewrite Hm in He. destruct He.
Qed.

Definition itg_pend_units (p : option itg_pending) : N :=
  match p with Some p => itg_units (u_blocks (itg_p_update p)) | None => 0 end.

Lemma itg_integrate_T : forall blocks log bs blocks' log' rem, itg_blocks_ok blocks ->
  itg_integrate blocks log bs = itg_ok (blocks', log', rem) ->
  itg_blocks_ok blocks' /\
  exists new, log' = new ++ log /\ itg_pend_units rem + itg_ulist new <= itg_units bs /\
    (new = [] -> blocks' = blocks) /\
    forall p, rem = Some p -> forall e, In e (itg_p_missing p) ->
      itg_has blocks (mkid (fst e) (snd e)) = false /\
      (itg_has blocks' (mkid (fst e) (snd e)) = true ->
       exists b, In b new /\ itg_is_skip b = false /\ itg_covers b (mkid (fst e) (snd e)) = true).
Proof.
  intros blocks log bs blocks' log' rem Hok H. unfold itg_integrate in H.
  destruct bs as [|e0 bs0] eqn:Eb.
  - injection H as <- <- <-. split; [exact Hok|]. exists []. split; [reflexivity|]. split; [cbn; lia|].
    split; [reflexivity|]. intros p Hp. discriminate.
  - rewrite <- Eb in *. clear Eb.
    set (np := itg_pk_next (itg_pk_new bs)) in *.
    destruct (itg_loop (itg_loop_fuel bs) (fst np) (itg_mkrun blocks log [] (snd np))) as [r'| |] eqn:E;
      cbn [itg_bind] in H; try discriminate.
    injection H as <- <- <-.
    assert (Hc : itg_cache_ok blocks []) by (intros c v Hv; discriminate).
    assert (HK : itg_bu_opt (fst np) + itg_pk_units (snd np) + itg_ulist log <= itg_units bs + itg_ulist log).
    { pose proof (itg_pk_next_units (itg_pk_new bs)) as Hn. fold np in Hn.
      assert (Hu : itg_pk_units (itg_pk_new bs) = itg_units bs + 0 + 0 + 0) by reflexivity. lia. }
    assert (Hm : itg_pk_missing (snd np) = []) by (unfold np; rewrite itg_pk_next_missing; reflexivity).
    pose proof (itg_loop_T _ _ (itg_mkrun blocks log [] (snd np)) _ _ Hok Hc HK Hm E) as [A [_ [C [_ [M2 [new [D1 D2]]]]]]].
    cbn [itg_rn_log itg_rn_blocks] in *.
    split; [exact A|]. exists new. split; [exact D1|]. split; [|split].
    + rewrite D1, itg_ulist_app in C. cbn [itg_bu_opt] in C.
      assert (Hp : itg_pend_units (itg_pk_pending (itg_rn_pk r')) <= itg_pk_units (itg_rn_pk r')).
      { unfold itg_pk_pending, itg_pend_units, itg_pk_units. destruct (itg_pk_unapp (itg_rn_pk r')); cbn [u_blocks itg_p_update]; lia. }
      lia.
    + intros Hn. subst new. cbn [app] in D1.
      (* nothing integrated: the block lists are unchanged *)
      assert (Hgen : forall fuel next r r1, itg_loop fuel next r = itg_ok r1 ->
                 length (itg_rn_log r1) = length (itg_rn_log r) -> itg_rn_blocks r1 = itg_rn_blocks r).
      { clear. induction fuel as [|f IH]; intros next r r1 H Hl.
        - destruct next; cbn in H; [discriminate|]. injection H as <-. reflexivity.
        - destruct next as [b|]; cbn [itg_loop] in H; [|injection H as <-; reflexivity].
          destruct (itg_is_skip b).
          + apply (IH _ _ _ H Hl).
          + destruct (itg_missing_dep (itg_rn_blocks r) b).
            * apply (IH _ _ _ H Hl).
            * match type of H with itg_bind ?x _ = _ => destruct x as [b1| |] end; cbn [itg_bind] in H; try discriminate.
              match type of H with itg_bind ?x _ = _ => destruct x as [b2| |] end; cbn [itg_bind] in H; try discriminate.
              exfalso.
              assert (Hmono : forall fuel next r r1, itg_loop fuel next r = itg_ok r1 ->
                        (length (itg_rn_log r) <= length (itg_rn_log r1))%nat).
              { clear. induction fuel as [|f IH]; intros next r r1 H.
                - destruct next; cbn in H; [discriminate|]. injection H as <-. lia.
                - destruct next as [b|]; cbn [itg_loop] in H; [|injection H as <-; lia].
                  destruct (itg_is_skip b); [apply (IH _ _ _ H)|].
                  destruct (itg_missing_dep (itg_rn_blocks r) b); [apply (IH _ _ _ H)|].
                  match type of H with itg_bind ?x _ = _ => destruct x as [b1| |] end; cbn [itg_bind] in H; try discriminate.
                  match type of H with itg_bind ?x _ = _ => destruct x as [b2| |] end; cbn [itg_bind] in H; try discriminate.
                  apply IH in H. cbn [itg_rn_log length] in H. lia. }
              apply Hmono in H. cbn [itg_rn_log length] in H. lia. }
      apply (Hgen _ _ _ _ E). cbn [itg_rn_log]. rewrite D1. reflexivity.
    + intros p Hp e He. unfold itg_pk_pending in Hp. destruct (itg_pk_unapp (itg_rn_pk r')); [discriminate|].
      injection Hp as <-. cbn [itg_p_missing] in He. split; [apply (M2 e He)|intros Hh; apply (D2 e He Hh)].
Qed.

Lemma itg_excl_range_fuel : forall c cs ce d r, itg_excl_range c cs ce d r <> itg_nofuel.
Proof.
  intros c cs ce d [rs re]. unfold itg_excl_range. cbn [fst snd].
  destruct (ce <=? rs); [discriminate|].
  destruct (cs <? rs); [destruct (itg_split_at d rs) as [[d1 si]|]|]; cbn [itg_bind fst snd]; try discriminate.
  - destruct (re <=? cs); [discriminate|].
    destruct (re <? ce); [destruct (itg_split_at d1 re) as [[d2 ei]|]|]; cbn [itg_bind fst snd]; try discriminate;
      destruct (_ <? _)%nat; discriminate.
  - destruct (re <=? cs); [discriminate|].
    destruct (re <? ce); [destruct (itg_split_at d re) as [[d2 ei]|]|]; cbn [itg_bind fst snd]; try discriminate;
      destruct (_ <? _)%nat; discriminate.
Qed.

Lemma itg_excl_ranges_fuel : forall c cs ce rs d, itg_excl_ranges c cs ce d rs <> itg_nofuel.
Proof.
  intros c cs ce. induction rs as [|r rest IH]; intros d; cbn [itg_excl_ranges]; [discriminate|].
  pose proof (itg_excl_range_fuel c cs ce d r). destruct (itg_excl_range c cs ce d r); cbn [itg_bind]; try discriminate; [apply IH|contradiction].
Qed.

Lemma itg_trim_fuel : forall st bs, itg_trim st bs <> itg_nofuel.
Proof.
  intros st. induction bs as [|[c d] r IH]; cbn [itg_trim]; [discriminate|].
  assert (Hc : itg_trim_client st c d <> itg_nofuel).
  { unfold itg_trim_client. destruct (itg_get st c); [|discriminate]. destruct d; [discriminate|]. apply itg_excl_ranges_fuel. }
  destruct (itg_trim_client st c d); cbn [itg_bind]; try discriminate; [|contradiction].
  destruct (itg_trim st r); cbn [itg_bind]; try discriminate. contradiction.
Qed.

Lemma itg_step_fuel : forall mrg s u, itg_step_with mrg s u <> itg_nofuel.
Proof.
  intros mrg s u. unfold itg_step_with.
  pose proof (itg_trim_fuel (itg_blocks s) (u_blocks (itg_abs_update u))) as Ht.
  destruct (itg_trim (itg_blocks s) (u_blocks (itg_abs_update u))) as [bs| |]; cbn [itg_bind]; try discriminate; [|contradiction].
  pose proof (itg_integrate_fuel_ok (itg_blocks s) (itg_log s) bs) as Hi.
  destruct (itg_integrate (itg_blocks s) (itg_log s) bs) as [[[blocks log] rem]| |]; cbn [itg_bind]; try discriminate; [|contradiction].
  destruct (itg_pend s); discriminate.
Qed.

(* steps 1-3 on a store without a stash *)
Lemma itg_step_T : forall mrg s u s1 retry, itg_blocks_ok (itg_blocks s) -> itg_step_with mrg s u = itg_ok (s1, retry) ->
  itg_blocks_ok (itg_blocks s1) /\
  (itg_pend s = None ->
     retry = false /\
     exists new, itg_log s1 = new ++ itg_log s /\
       itg_pend_units (itg_pend s1) + itg_ulist new <= itg_units (u_blocks u) /\
       forall p, itg_pend s1 = Some p -> forall e, In e (itg_p_missing p) ->
         itg_has (itg_blocks s) (mkid (fst e) (snd e)) = false /\
         (itg_has (itg_blocks s1) (mkid (fst e) (snd e)) = true ->
          exists b, In b new /\ itg_is_skip b = false /\ itg_covers b (mkid (fst e) (snd e)) = true)).
Proof.
  intros mrg s u s1 retry Hok H. unfold itg_step_with in H.
  destruct (itg_trim (itg_blocks s) (u_blocks (itg_abs_update u))) as [bs| |] eqn:Et; cbn [itg_bind] in H; try discriminate.
  destruct (itg_integrate (itg_blocks s) (itg_log s) bs) as [[[blocks log] rem]| |] eqn:Ei; cbn [itg_bind] in H; try discriminate.
  destruct (itg_integrate_T _ _ _ _ _ _ Hok Ei) as [A [new [B1 [B2 [_ B3]]]]].
  destruct (itg_trim_units _ _ _ (itg_abs_update_cf u) Et) as [T1 _]. rewrite itg_abs_update_units in T1.
  destruct (itg_pend s) as [p|] eqn:Ep.
  - injection H as <- _. cbn [itg_blocks]. split; [exact A|]. intros Hn. discriminate.
  - injection H as <- <-. cbn [itg_blocks itg_pend itg_log]. split; [exact A|]. intros _. split; [reflexivity|].
    exists new. split; [exact B1|]. split; [lia|exact B3].
Qed.

(* the apply_update(ds_update) of step 5: nothing but the retry test *)
Lemma itg_step_empty : forall mrg s, itg_step_with mrg s itg_empty_update
  = itg_ok (s, match itg_pend s with Some p => itg_retry_test (itg_blocks s) p | None => false end).
Proof.
  intros mrg s. unfold itg_step_with. cbn [itg_empty_update itg_abs_update u_blocks map itg_trim itg_bind itg_integrate].
  destruct s as [blocks pend log]. cbn [itg_blocks itg_pend itg_log]. destruct pend; reflexivity.
Qed.

Lemma itg_ulist_in : forall b d, In b d -> itg_bu b <= itg_ulist d.
Proof.
  intros b d. induction d as [|x r IH]; intros H; [destruct H|]. rewrite itg_ulist_cons.
  destruct H as [<-|H]; [lia|]. specialize (IH H). lia.
Qed.

Lemma itg_retry_fuel_ok : forall mrg fuel s, itg_blocks_ok (itg_blocks s) ->
  (N.to_nat (itg_pend_units (itg_pend s)) < fuel)%nat -> itg_retry_with mrg fuel s <> itg_nofuel.
Proof.
  intros mrg. induction fuel as [|f IH]; intros s Hok Hf; [lia|]. cbn [itg_retry_with].
  destruct (itg_pend s) as [p|] eqn:Ep; [|discriminate].
  pose proof (itg_step_fuel mrg (itg_mkstore (itg_blocks s) None (itg_log s)) (itg_p_update p)) as Hs1.
  destruct (itg_step_with mrg (itg_mkstore (itg_blocks s) None (itg_log s)) (itg_p_update p)) as [[s1 r1]| |] eqn:E1;
    cbn [itg_bind]; try discriminate; [|contradiction].
  cbn [fst]. rewrite itg_step_empty. cbn [itg_bind fst snd].
  assert (Hok0 : itg_blocks_ok (itg_blocks (itg_mkstore (itg_blocks s) None (itg_log s)))) by exact Hok.
  destruct (itg_step_T _ _ _ _ _ Hok0 E1) as [A B]. destruct (B eq_refl) as [_ [new [B1 [B2 B3]]]].
  destruct (itg_pend s1) as [p1|] eqn:Ep1; [|discriminate].
  destruct (itg_retry_test (itg_blocks s1) p1) eqn:Er; [|discriminate].
  apply IH; [exact A|]. rewrite Ep1. cbn [itg_pend_units] in *.
  unfold itg_retry_test in Er. apply existsb_exists in Er. destruct Er as [e [He Hm]].
  rewrite (itg_is_missing_spec _ _ A), negb_involutive in Hm.
  destruct (proj2 (B3 p1 eq_refl e He) Hm) as [b [Hb1 [Hb2 Hb3]]].
  pose proof (itg_ulist_in _ _ Hb1) as Hu. unfold itg_bu in Hu. rewrite Hb2 in Hu.
  unfold itg_covers, itg_end in Hb3. lia.
Qed.

(* (a) TERMINATION: on a store whose block lists are contiguous, apply_update never runs out of fuel, whatever
   the update (well-formed or not) and whatever the stash and the merge function *)
Theorem itg_apply_with_terminates : forall mrg s u, itg_blocks_ok (itg_blocks s) -> itg_apply_with mrg s u <> itg_nofuel.
Proof.
  intros mrg s u Hok. unfold itg_apply_with.
  pose proof (itg_step_fuel mrg s u) as Hs.
  destruct (itg_step_with mrg s u) as [[s1 r1]| |] eqn:E; cbn [itg_bind fst snd]; try discriminate; [|contradiction].
  destruct r1; [|discriminate].
  destruct (itg_step_T _ _ _ _ _ Hok E) as [A _].
  apply itg_retry_fuel_ok; [exact A|]. unfold itg_retry_fuel, itg_pend_units. destruct (itg_pend s1); lia.
Qed.

Theorem itg_apply_terminates : forall s u, itg_blocks_wf (itg_blocks s) = true -> itg_apply_update_res s u <> itg_nofuel.
Proof. intros s u H. apply itg_apply_with_terminates. apply itg_blocks_wf_ok. exact H. Qed.

Corollary itg_apply_terminates_reachable : forall s u, itg_reachable s -> itg_apply_update_res s u <> itg_nofuel.
Proof. intros s u H. apply itg_apply_with_terminates. apply (itg_inv_ok _ _ (itg_reachable_inv s H)). Qed.

(* ================================================================================================ *)
(* 5. the picker only moves blocks: a property of all blocks of the update holds for every block    *)
(*    that is integrated or set aside                                                               *)
(* ================================================================================================ *)
Definition itg_all_blocks (Q : block -> Prop) (m : list (N * list block)) : Prop :=
  forall e, In e m -> forall b, In b (snd e) -> Q b.
Definition itg_pk_all (Q : block -> Prop) (pk : itg_picker) : Prop :=
  itg_all_blocks Q (itg_pk_store pk) /\
  (forall c d, itg_pk_latest pk = Some (c, d) -> forall b, In b d -> Q b) /\
  (forall b, In b (itg_pk_stack pk) -> Q b) /\
  itg_all_blocks Q (itg_pk_unapp pk).

Lemma itg_all_del : forall (Q : block -> Prop) m c, itg_all_blocks Q m -> itg_all_blocks Q (itg_del m c).
Proof. intros Q m c H e He. apply H. apply (itg_in_del _ _ _ _ He). Qed.
Lemma itg_all_put : forall (Q : block -> Prop) m c d, itg_all_blocks Q m -> (forall b, In b d -> Q b) -> itg_all_blocks Q (itg_put m c d).
Proof.
  intros Q m c d H Hd e He. apply itg_in_put in He. destruct He as [->|He]; [exact Hd|apply H; exact He].
Qed.
Lemma itg_all_get : forall (Q : block -> Prop) m c d, itg_all_blocks Q m -> itg_get m c = Some d -> forall b, In b d -> Q b.
Proof. intros Q m c d H Hg. apply itg_get_in in Hg. apply (H _ Hg). Qed.

Lemma itg_pk_next_client_all : forall (Q : block -> Prop) cs store latest n cs' store' latest',
  itg_pk_next_client cs store latest = (n, cs', store', latest') ->
  itg_all_blocks Q store -> (forall c d, latest = Some (c, d) -> forall b, In b d -> Q b) ->
  (forall b, n = Some b -> Q b) /\ itg_all_blocks Q store' /\
  (forall c d, latest' = Some (c, d) -> forall b, In b d -> Q b).
Proof.
  intros Q. induction cs as [|c cs IH]; intros store latest n cs' store' latest' H Hs Hl; cbn [itg_pk_next_client] in H.
  - injection H as <- _ <- <-. split; [intros b Hb; discriminate|]. split; assumption.
  - destruct (itg_get store c) as [[|b r]|] eqn:E.
    + apply (IH _ _ _ _ _ _ H); [apply itg_all_del; exact Hs|]. intros c0 d0 Hc. injection Hc as <- <-. intros b [].
    + injection H as <- _ <- <-. pose proof (itg_all_get _ _ _ _ Hs E) as Hd. split; [|split].
      * intros b0 Hb0. injection Hb0 as <-. apply Hd. left. reflexivity.
      * apply itg_all_del. exact Hs.
      * intros c0 d0 Hc. injection Hc as <- <-. intros b0 Hb0. apply Hd. right. exact Hb0.
    + apply (IH _ _ _ _ _ _ H); [apply itg_all_del; exact Hs|]. intros c0 d0 Hc. discriminate.
Qed.

Lemma itg_pk_next_all : forall (Q : block -> Prop) pk, itg_pk_all Q pk ->
  (forall b, fst (itg_pk_next pk) = Some b -> Q b) /\ itg_pk_all Q (snd (itg_pk_next pk)).
Proof.
  intros Q pk [H1 [H2 [H3 H4]]]. unfold itg_pk_next.
  destruct (itg_pk_stack pk) as [|x s] eqn:Es.
  - assert (Hnc : forall lat n cs store latest,
        itg_pk_next_client (itg_pk_clients pk) (itg_pk_store pk) lat = (n, cs, store, latest) ->
        (forall c d, lat = Some (c, d) -> forall b, In b d -> Q b) ->
        (forall b, n = Some b -> Q b) /\ itg_pk_all Q (itg_mkpicker store latest [] cs (itg_pk_missing pk) (itg_pk_unapp pk))).
    { intros lat n cs store latest E Hlat. destruct (itg_pk_next_client_all Q _ _ _ _ _ _ _ E H1 Hlat) as [A [B C]].
      split; [exact A|]. unfold itg_pk_all. cbn [itg_pk_store itg_pk_latest itg_pk_stack itg_pk_unapp].
      split; [exact B|]. split; [exact C|]. split; [intros b []|exact H4]. }
    destruct (itg_pk_latest pk) as [[c [|x r]]|] eqn:El.
    + destruct (itg_pk_next_client (itg_pk_clients pk) (itg_pk_store pk) (Some (c, []))) as [[[n cs] store] latest] eqn:E.
      cbn [fst snd]. apply (Hnc _ _ _ _ _ E). intros c0 d0 Hc. injection Hc as <- <-. intros b [].
    + cbn [fst snd]. split.
      * intros b Hb. injection Hb as <-. apply (H2 c (x :: r) eq_refl). left. reflexivity.
      * unfold itg_pk_all. cbn [itg_pk_store itg_pk_latest itg_pk_stack itg_pk_unapp]. split; [exact H1|]. split; [|split; [intros b []|exact H4]].
        intros c0 d0 Hc. injection Hc as <- <-. intros b Hb. apply (H2 c (x :: r) eq_refl). right. exact Hb.
    + destruct (itg_pk_next_client (itg_pk_clients pk) (itg_pk_store pk) None) as [[[n cs] store] latest] eqn:E.
      cbn [fst snd]. apply (Hnc _ _ _ _ _ E). intros c0 d0 Hc. discriminate.
  - cbn [fst snd]. split.
    + intros b Hb. injection Hb as <-. apply H3. left. reflexivity.
    + unfold itg_pk_all. cbn [itg_pk_store itg_pk_latest itg_pk_stack itg_pk_unapp]. split; [exact H1|]. split; [exact H2|].
      split; [intros b Hb; apply H3; right; exact Hb|exact H4].
Qed.

Lemma itg_pk_drain_all : forall (Q : block -> Prop) items store latest unapp store' latest' unapp',
  itg_pk_drain items store latest unapp = (store', latest', unapp') ->
  (forall b, In b items -> Q b) -> itg_all_blocks Q store ->
  (forall c d, latest = Some (c, d) -> forall b, In b d -> Q b) -> itg_all_blocks Q unapp ->
  itg_all_blocks Q store' /\ (forall c d, latest' = Some (c, d) -> forall b, In b d -> Q b) /\ itg_all_blocks Q unapp'.
Proof.
  intros Q. induction items as [|item rest IH]; intros store latest unapp store' latest' unapp' H Hi Hs Hl Hu; cbn [itg_pk_drain] in H.
  - injection H as <- <- <-. repeat split; assumption.
  - assert (Hitem : Q item) by (apply Hi; left; reflexivity).
    assert (Hrest : forall b, In b rest -> Q b) by (intros b Hb; apply Hi; right; exact Hb).
    destruct (itg_get store (itg_client item)) as [blocks|] eqn:E.
    + apply (IH _ _ _ _ _ _ H Hrest); [apply itg_all_del; exact Hs|exact Hl|].
      apply itg_all_put; [exact Hu|]. intros b [<-|Hb]; [exact Hitem|apply (itg_all_get _ _ _ _ Hs E); exact Hb].
    + destruct latest as [[lc blocks]|].
      * destruct (lc =? itg_client item).
        -- apply (IH _ _ _ _ _ _ H Hrest); [exact Hs| |].
           ++ intros c0 d0 Hc. injection Hc as <- <-. intros b [].
           ++ apply itg_all_put; [exact Hu|]. intros b [<-|Hb]; [exact Hitem|apply (Hl lc blocks eq_refl); exact Hb].
        -- apply (IH _ _ _ _ _ _ H Hrest); [exact Hs|exact Hl|].
           apply itg_all_put; [exact Hu|]. intros b [<-|[]]. exact Hitem.
      * apply (IH _ _ _ _ _ _ H Hrest); [exact Hs|exact Hl|].
        apply itg_all_put; [exact Hu|]. intros b [<-|[]]. exact Hitem.
Qed.

Lemma itg_pk_switch_all : forall (Q : block -> Prop) pk b m, itg_pk_all Q pk -> Q b ->
  (forall b', fst (itg_pk_switch pk b m) = Some b' -> Q b') /\ itg_pk_all Q (snd (itg_pk_switch pk b m)).
Proof.
  intros Q pk b m [H1 [H2 [H3 H4]]] Hb. unfold itg_pk_switch.
  destruct (itg_pk_drain (rev (b :: itg_pk_stack pk)) (itg_pk_store pk) (itg_pk_latest pk) (itg_pk_unapp pk))
    as [[store latest] unapp] eqn:Ed.
  assert (Hitems : forall x, In x (rev (b :: itg_pk_stack pk)) -> Q x).
  { intros x Hx. apply in_rev in Hx. destruct Hx as [<-|Hx]; [exact Hb|apply H3; exact Hx]. }
  destruct (itg_pk_drain_all Q _ _ _ _ _ _ _ Ed Hitems H1 H2 H4) as [D1 [D2 D3]].
  set (pk1 := itg_mkpicker store latest [] (itg_pk_clients pk)
                (itg_sv_set_min (itg_sv_set_min (itg_pk_missing pk) (cl m) (ck m)) (cl m) (ck m)) unapp).
  assert (Hfail : (forall b', fst (itg_pk_next pk1) = Some b' -> Q b') /\ itg_pk_all Q (snd (itg_pk_next pk1))).
  { apply itg_pk_next_all. unfold itg_pk_all, pk1. cbn [itg_pk_store itg_pk_latest itg_pk_stack itg_pk_unapp].
    split; [exact D1|]. split; [exact D2|]. split; [intros x []|exact D3]. }
  destruct (itg_get (itg_pk_store pk) (cl m)) as [[|b' r]|] eqn:Eg; try exact Hfail.
  destruct (existsb _ _); [exact Hfail|]. cbn [fst snd].
  pose proof (itg_all_get _ _ _ _ H1 Eg) as Hd. split.
  - intros x Hx. injection Hx as <-. apply Hd. left. reflexivity.
  - unfold itg_pk_all. cbn [itg_pk_store itg_pk_latest itg_pk_stack itg_pk_unapp].
    split; [|split; [exact H2|split; [|exact H4]]].
    + apply itg_all_put; [exact H1|]. intros x Hx. apply Hd. right. exact Hx.
    + intros x [<-|Hx]; [exact Hb|apply H3; exact Hx].
Qed.

Lemma itg_integrate_moves : forall (Q : block -> Prop) blocks log bs blocks' log' rem,
  itg_all_blocks Q bs -> itg_integrate blocks log bs = itg_ok (blocks', log', rem) ->
  exists new, log' = new ++ log /\ (forall b, In b new -> Q b /\ itg_is_skip b = false) /\
    (forall p, rem = Some p -> itg_all_blocks Q (u_blocks (itg_p_update p))).
Proof.
  intros Q blocks log bs blocks' log' rem HQ H. unfold itg_integrate in H.
  destruct bs as [|e0 bs0] eqn:Eb.
  - injection H as _ <- <-. exists []. split; [reflexivity|]. split; [intros b []|intros p Hp; discriminate].
  - rewrite <- Eb in *. clear Eb. set (np := itg_pk_next (itg_pk_new bs)) in *.
    destruct (itg_loop (itg_loop_fuel bs) (fst np) (itg_mkrun blocks log [] (snd np))) as [r'| |] eqn:E;
      cbn [itg_bind] in H; try discriminate.
    injection H as _ <- <-.
    set (P := fun (next : option block) (r : itg_run) =>
                (forall b, next = Some b -> Q b) /\ itg_pk_all Q (itg_rn_pk r) /\
                exists new, itg_rn_log r = new ++ log /\ forall b, In b new -> Q b /\ itg_is_skip b = false).
    assert (HP : P None r').
    { apply (itg_loop_rule P) with (fuel := itg_loop_fuel bs) (next := fst np) (r := itg_mkrun blocks log [] (snd np)); [| | | |exact E].
      - intros b r0 [A [B C]] _ np0. unfold P. cbn [itg_rn_pk itg_rn_log].
        destruct (itg_pk_next_all Q _ B) as [N1 N2]. split; [exact N1|]. split; [exact N2|exact C].
      - intros b r0 m [A [B C]] _ _ np0. unfold P. cbn [itg_rn_pk itg_rn_log].
        destruct (itg_pk_switch_all Q _ b m B (A b eq_refl)) as [N1 N2]. split; [exact N1|]. split; [exact N2|exact C].
      - intros b r0 b1 b2 [A [B [new [C1 C2]]]] Esk _ c lc _ _ np0. unfold P. cbn [itg_rn_pk itg_rn_log].
        destruct (itg_pk_next_all Q _ B) as [N1 N2]. split; [exact N1|]. split; [exact N2|].
        exists (b :: new). split; [rewrite C1; reflexivity|]. intros x [<-|Hx]; [split; [apply A; reflexivity|exact Esk]|apply C2; exact Hx].
      - unfold P. cbn [itg_rn_pk itg_rn_log].
        assert (H0 : itg_pk_all Q (itg_pk_new bs)).
        { unfold itg_pk_all, itg_pk_new. cbn [itg_pk_store itg_pk_latest itg_pk_stack itg_pk_unapp].
          split; [exact HQ|]. split; [intros c d Hc; discriminate|]. split; [intros b []|intros e []]. }
        destruct (itg_pk_next_all Q _ H0) as [N1 N2]. split; [exact N1|]. split; [exact N2|].
        exists []. split; [reflexivity|intros b []]. }
    destruct HP as [_ [[_ [_ [_ Hun]]] [new [C1 C2]]]]. exists new. split; [exact C1|]. split; [exact C2|].
    intros p Hp. unfold itg_pk_pending in Hp. destruct (itg_pk_unapp (itg_rn_pk r')) eqn:Eu; [discriminate|].
    injection Hp as <-. cbn [itg_p_update u_blocks]. exact Hun.
Qed.

(* ---- trimming only cuts blocks and puts Skip blocks in ---- *)
Definition itg_cut_closed_at (Q : block -> Prop) (c : N) : Prop :=
  (forall b k, Q b -> 0 < k < block_len b -> Q (fst (itg_splice b k)) /\ Q (snd (itg_splice b k))) /\
  (forall k n, Q (BSkip (mkid c k) n)).
Definition itg_cut_closed (Q : block -> Prop) : Prop := forall c, itg_cut_closed_at Q c.

Lemma itg_split_at_all : forall (Q : block -> Prop) c d k d' i, itg_cut_closed_at Q c -> Forall Q d ->
  itg_split_at d k = Some (d', i) -> Forall Q d'.
Proof.
  intros Q c. induction d as [|b r IH]; intros k d' i HQ Hd H; cbn [itg_split_at] in H; [discriminate|].
  inversion Hd as [|b0 r0 Hb Hr]; subst.
  destruct ((itg_clock b <=? k) && (k <? itg_end b)) eqn:E.
  - destruct (k =? itg_clock b) eqn:E2.
    + injection H as <- _. exact Hd.
    + injection H as <- _. unfold itg_end in E.
      destruct (proj1 HQ b (k - itg_clock b) Hb ltac:(lia)) as [A B]. constructor; [exact A|]. constructor; [exact B|exact Hr].
  - destruct (itg_split_at r k) as [[r' i']|] eqn:E2; [|discriminate]. injection H as <- _.
    constructor; [exact Hb|]. apply (IH _ _ _ HQ Hr E2).
Qed.

Lemma itg_forall_firstn : forall (A : Type) (P : A -> Prop) n l, Forall P l -> Forall P (firstn n l).
Proof.
  intros A P n l H. rewrite Forall_forall in *. intros x Hx. apply H.
  rewrite <- (firstn_skipn n l). apply in_or_app. left. exact Hx.
Qed.
Lemma itg_forall_skipn : forall (A : Type) (P : A -> Prop) n l, Forall P l -> Forall P (skipn n l).
Proof.
  intros A P n l H. rewrite Forall_forall in *. intros x Hx. apply H.
  rewrite <- (firstn_skipn n l). apply in_or_app. right. exact Hx.
Qed.

Lemma itg_split_opt_all : forall (Q : block -> Prop) c (cond : bool) d k dflt p, itg_cut_closed_at Q c -> Forall Q d ->
  (if cond then match itg_split_at d k with Some p => itg_ok p | None => itg_undef 2 end else itg_ok (d, dflt))
    = itg_ok p -> Forall Q (fst p).
Proof.
  intros Q c cond d k dflt p HQ Hd H. destruct cond.
  - destruct (itg_split_at d k) as [[d1 si]|] eqn:E; [|discriminate]. injection H as <-.
    apply (itg_split_at_all Q c _ _ _ _ HQ Hd E).
  - injection H as <-. exact Hd.
Qed.

Lemma itg_excl_range_all : forall (Q : block -> Prop) c cs ce d r d', itg_cut_closed_at Q c -> Forall Q d ->
  itg_excl_range c cs ce d r = itg_ok d' -> Forall Q d'.
Proof.
  intros Q c cs ce d [rs re] d' HQ Hd H. unfold itg_excl_range in H. cbn [fst snd] in H.
  destruct (ce <=? rs); [injection H as <-; exact Hd|].
  match type of H with itg_bind ?x _ = _ => destruct x as [[d1 si]| |] eqn:E1 end; cbn [itg_bind fst snd] in H; try discriminate.
  pose proof (itg_split_opt_all Q c _ _ _ _ _ HQ Hd E1) as C1. cbn [fst] in C1.
  destruct (re <=? cs); [injection H as <-; exact C1|].
  match type of H with itg_bind ?x _ = _ => destruct x as [[d2 ei]| |] eqn:E2 end; cbn [itg_bind fst snd] in H; try discriminate.
  pose proof (itg_split_opt_all Q c _ _ _ _ _ HQ C1 E2) as C2. cbn [fst] in C2.
  destruct (si <? ei)%nat.
  - injection H as <-. apply Forall_app. split; [apply itg_forall_firstn; exact C2|].
    constructor; [apply (proj2 HQ)|apply itg_forall_skipn; exact C2].
  - injection H as <-. exact C2.
Qed.

Lemma itg_excl_ranges_all : forall (Q : block -> Prop) c cs ce rs d d', itg_cut_closed_at Q c -> Forall Q d ->
  itg_excl_ranges c cs ce d rs = itg_ok d' -> Forall Q d'.
Proof.
  intros Q c cs ce. induction rs as [|r rest IH]; intros d d' HQ Hd H; cbn [itg_excl_ranges] in H.
  - injection H as <-. exact Hd.
  - destruct (itg_excl_range c cs ce d r) as [d1| |] eqn:E; cbn [itg_bind] in H; try discriminate.
    apply (IH _ _ HQ (itg_excl_range_all Q _ _ _ _ _ _ HQ Hd E) H).
Qed.

Lemma itg_trim_all : forall (Q : block -> Prop) st bs bs', itg_cut_closed Q -> itg_all_blocks Q bs ->
  itg_trim st bs = itg_ok bs' -> itg_all_blocks Q bs' /\ map fst bs' = map fst bs.
Proof.
  intros Q st. induction bs as [|[c d] r IH]; intros bs' HQ Hall H; cbn [itg_trim] in H.
  - injection H as <-. split; [exact Hall|reflexivity].
  - destruct (itg_trim_client st c d) as [d'| |] eqn:E; cbn [itg_bind] in H; try discriminate.
    destruct (itg_trim st r) as [r'| |] eqn:E2; cbn [itg_bind] in H; try discriminate. injection H as <-.
    assert (Hd : Forall Q d) by (apply Forall_forall; intros b Hb; apply (Hall (c, d)); [left; reflexivity|exact Hb]).
    assert (Hr : itg_all_blocks Q r) by (intros e He; apply Hall; right; exact He).
    destruct (IH _ HQ Hr eq_refl) as [A B].
    assert (Hc : Forall Q d').
    { unfold itg_trim_client in E. destruct (itg_get st c) as [segs|].
      - destruct d as [|f d0]; [discriminate|]. apply (itg_excl_ranges_all Q _ _ _ _ _ _ (HQ c) Hd E).
      - injection E as <-. exact Hd. }
    split.
    + intros e [<-|He]; [|apply A; exact He]. cbn [snd]. rewrite Forall_forall in Hc. exact Hc.
    + cbn [map fst]. rewrite B. reflexivity.
Qed.

(* ================================================================================================ *)
(* 6. (f) the abstract delivery of Crdt/Doc.v integrates at least what apply_update integrates      *)
(* ================================================================================================ *)
From YV Require Import Crdt.DeliverProofs Crdt.MergeProofs.

Lemma itg_units_of_item_app : forall us1 us2 c k o ro p ps,
  units_of_item c k o ro p ps (us1 ++ us2)
  = units_of_item c k o ro p ps us1
    ++ units_of_item c (k + N.of_nat (length us1))
         (match us1 with [] => o | _ => Some (mkid c (k + N.of_nat (length us1) - 1)) end) ro p ps us2.
Proof.
  induction us1 as [|u r IH]; intros us2 c k o ro p ps.
  - cbn [app length units_of_item]. rewrite N.add_0_r. reflexivity.
  - cbn [app units_of_item]. rewrite IH. f_equal. f_equal.
    replace (k + 1 + N.of_nat (length r)) with (k + N.of_nat (length (u :: r))) by (cbn [length]; lia).
    f_equal. destruct r as [|u' r'].
    + cbn [length]. f_equal. f_equal. lia.
    + reflexivity.
Qed.

Lemma itg_gc_units_app : forall a b c k, gc_units c k (a + b) = gc_units c k a ++ gc_units c (k + N.of_nat a) b.
Proof.
  induction a as [|a IH]; intros b c k.
  - cbn [plus gc_units app]. rewrite N.add_0_r. reflexivity.
  - cbn [plus gc_units app]. rewrite IH. f_equal. f_equal. f_equal. lia.
Qed.

Lemma itg_splice_units : forall b k, itg_cf_block b = true -> 0 < k < block_len b ->
  units_of_block (fst (itg_splice b k)) ++ units_of_block (snd (itg_splice b k)) = units_of_block b.
Proof.
  intros [i o ro p ps c|i n|i n] k Hcf Hk; cbn [itg_splice mrg_splice fst snd block_len itg_cf_block] in *.
  - destruct c as [n|l|bb|s|j|k0 j|t|l|g o0]; try discriminate.
    + cbn [mrg_content_splice fst snd units_of_block content_units content_len] in *.
      replace (N.to_nat n) with (N.to_nat k + N.to_nat (n - k))%nat by lia.
      rewrite repeat_app, itg_units_of_item_app. f_equal. rewrite repeat_length, N2Nat.id. cbn [cl ck].
      destruct (N.to_nat k) eqn:E; [lia|]. reflexivity.
    + destruct t; try discriminate. cbn [content_len] in Hk. lia.
  - cbn [units_of_block cl ck]. replace (N.to_nat n) with (N.to_nat k + N.to_nat (n - k))%nat by lia.
    rewrite itg_gc_units_app, N2Nat.id. reflexivity.
  - reflexivity.
Qed.

(* the ids the abstract model waits for and the ids missing_dependency tests are the same *)
Lemma itg_weak_deps_incl : forall w i, In i (scope_dep (wl_start w) ++ scope_dep (wl_end w)) <-> In i (itg_weak_deps w).
Proof.
  intros w i. unfold itg_weak_deps. destruct (wl_start w) as [n1|i1|i1]; destruct (wl_end w) as [n2|i2|i2];
    cbn [scope_dep app In]; try tauto.
  destruct (id_eqb i1 i2) eqn:E; cbn [In]; [|tauto]. apply id_eqb_eq in E. subst. tauto.
Qed.

(* all units of a block become ready one after the other once the dependency ids of the block are integrated *)
Lemma itg_item_units_ready : forall (isin : id -> bool) us c k o ro p ps,
  (forall i, In i (itg_oid o) -> isin i = true) ->
  (forall i, In i (itg_oid ro) -> isin i = true) ->
  (forall i, In i (match p with PId j => [j] | _ => [] end) -> isin i = true) ->
  (forall u w i, In u us -> u = UType (TWeak w) -> In i (itg_weak_deps w) -> isin i = true) ->
  (forall x, In x (units_of_item c k o ro p ps us) -> isin (xid x) = true \/ forallb isin (deps x) = false) ->
  forall x, In x (units_of_item c k o ro p ps us) -> isin (xid x) = true.
Proof.
  intros isin. induction us as [|u r IH]; intros c k o ro p ps Ho Hro Hp Hw Hst x Hx; cbn [units_of_item] in *; [destruct Hx|].
  assert (H0 : isin (mkid c k) = true).
  { destruct (Hst _ (or_introl eq_refl)) as [A|A]; [exact A|]. exfalso.
    assert (B : forallb isin (deps (XItem (mkop (mkid c k) o ro p ps u))) = true).
    { apply forallb_forall. intros i Hi. cbn [deps oorigin ororigin oparent ocont] in Hi.
      fold (itg_oid o) in Hi. fold (itg_oid ro) in Hi.
      apply in_app_or in Hi. destruct Hi as [Hi|Hi]; [apply Ho; exact Hi|].
      apply in_app_or in Hi. destruct Hi as [Hi|Hi]; [apply Hro; exact Hi|].
      apply in_app_or in Hi. destruct Hi as [Hi|Hi]; [apply Hp; exact Hi|].
      destruct u as [| | | | | |t| |]; try (destruct Hi). destruct t; try (destruct Hi).
      apply (Hw (UType (TWeak w)) w i); [left; reflexivity|reflexivity|]. apply itg_weak_deps_incl. exact Hi. }
    rewrite B in A. discriminate. }
  destruct Hx as [<-|Hx]; [exact H0|].
  apply (IH c (k + 1) (Some (mkid c k)) ro p ps); try assumption.
  - intros i [<-|[]]. exact H0.
  - intros u0 w i Hu. apply Hw. right. exact Hu.
  - intros y Hy. apply Hst. right. exact Hy.
Qed.

Lemma itg_block_units_ready : forall (isin : id -> bool) b, itg_cf_block b = true ->
  (forall i, In i (itg_deps b) -> isin i = true) ->
  (forall x, In x (units_of_block b) -> isin (xid x) = true \/ forallb isin (deps x) = false) ->
  forall x, In x (units_of_block b) -> isin (xid x) = true.
Proof.
  intros isin [i o ro p ps c|i n|i n] Hcf Hd Hst x Hx; cbn [units_of_block itg_deps] in *.
  - apply (itg_item_units_ready isin (content_units c) (cl i) (ck i) o ro p ps); try assumption.
    + intros j Hj. apply Hd. apply in_or_app. left. exact Hj.
    + intros j Hj. apply Hd. apply in_or_app. right. apply in_or_app. left. exact Hj.
    + intros j Hj. apply Hd. apply in_or_app. right. apply in_or_app. right. apply in_or_app. left. exact Hj.
    + intros u w j Hu -> Hj. apply Hd. apply in_or_app. right. apply in_or_app. right. apply in_or_app. right.
      cbn [itg_cf_block] in Hcf. destruct c as [n|l|bb|s|j0|k0 j0|t|l|g o0]; try discriminate.
      * cbn [content_units] in Hu. apply repeat_spec in Hu. discriminate.
      * destruct t; try discriminate. cbn [content_units] in Hu. destruct Hu as [Hu|[]]. injection Hu as <-. exact Hj.
  - destruct (Hst x Hx) as [A|A]; [exact A|]. exfalso.
    assert (Hg : forall n c k y, In y (gc_units c k n) -> deps y = []).
    { clear. induction n as [|n IH]; intros c k y H; cbn [gc_units] in H; [destruct H|].
      destruct H as [<-|H]; [reflexivity|apply (IH _ _ _ H)]. }
    rewrite (Hg _ _ _ _ Hx) in A. discriminate.
  - destruct Hx.
Qed.

Lemma itg_covers_unit : forall b i, itg_cf_block b = true -> itg_is_skip b = false -> itg_covers b i = true ->
  exists x, In x (units_of_block b) /\ xid x = i.
Proof.
  intros b [c k] Hcf Hs Hc. unfold itg_covers, itg_client, itg_end, itg_clock in Hc. cbn [cl ck] in Hc.
  assert (Hwf : blk_wf b = true).
  { destruct b as [i o ro p ps cc|i n|i n]; try reflexivity. cbn [blk_wf itg_cf_block] in *.
    destruct cc; try discriminate; reflexivity. }
  assert (Hms : mrg_is_skip b = false) by (destruct b; try reflexivity; discriminate).
  assert (H1 : mrg_clock b <= k) by (unfold mrg_clock; lia).
  assert (H2 : k < mrg_end b) by (unfold mrg_end, mrg_clock; lia).
  destruct (mrg_units_cover b k Hwf Hms H1 H2) as [x [Hx Hi]].
  exists x. split; [exact Hx|]. rewrite Hi. unfold mrg_client. f_equal. lia.
Qed.

(* a content-free block all of whose units are in W *)
Definition itg_sub (W : list xop) (b : block) : Prop := itg_cf_block b = true /\ incl (units_of_block b) W.
Definition itg_upd_sub (W : list xop) (u : update) : Prop := itg_all_blocks (itg_sub W) (u_blocks (itg_abs_update u)).

Lemma itg_sub_cut_closed : forall W, itg_cut_closed (itg_sub W).
Proof.
  intros W c. split.
  - intros b k [Hcf Hi] Hk. destruct (itg_splice_spec b k Hcf Hk) as [S1 [S2 _]].
    pose proof (itg_splice_units b k Hcf Hk) as Hu. split; (split; [assumption|]).
    + intros x Hx. apply Hi. rewrite <- Hu. apply in_or_app. left. exact Hx.
    + intros x Hx. apply Hi. rewrite <- Hu. apply in_or_app. right. exact Hx.
  - intros k n. split; [reflexivity|intros x []].
Qed.

Lemma itg_upd_sub_cf : forall W bs, itg_all_blocks (itg_sub W) bs -> itg_upd_sub W {| u_blocks := bs; u_ds := [] |}.
Proof.
  intros W bs H e He. cbn [itg_abs_update u_blocks] in He. apply in_map_iff in He. destruct He as [[c d] [<- Hcd]].
  cbn [fst snd]. intros b Hb. apply in_map_iff in Hb. destruct Hb as [b0 [<- Hb0]].
  pose proof (H _ Hcd b0 Hb0) as [Hcf Hi]. rewrite (itg_abs_block_id _ Hcf). split; assumption.
Qed.

Lemma itg_step_sub : forall mrg W s u s1 retry,
  (itg_pend s <> None -> forall a b, itg_upd_sub W a -> itg_upd_sub W b -> itg_upd_sub W (mrg a b)) ->
  (forall p, itg_pend s = Some p -> itg_upd_sub W (itg_p_update p)) -> itg_upd_sub W u ->
  itg_step_with mrg s u = itg_ok (s1, retry) ->
  (forall p, itg_pend s1 = Some p -> itg_upd_sub W (itg_p_update p)) /\
  (itg_pend s = None -> retry = false) /\
  exists new, itg_log s1 = new ++ itg_log s /\ forall b, In b new -> itg_sub W b /\ itg_is_skip b = false.
Proof.
  intros mrg W s u s1 retry Hmrg Hp Hu H. unfold itg_step_with in H.
  destruct (itg_trim (itg_blocks s) (u_blocks (itg_abs_update u))) as [bs| |] eqn:Et; cbn [itg_bind] in H; try discriminate.
  destruct (itg_integrate (itg_blocks s) (itg_log s) bs) as [[[blocks log] rem]| |] eqn:Ei; cbn [itg_bind] in H; try discriminate.
  destruct (itg_trim_all (itg_sub W) _ _ _ (itg_sub_cut_closed W) Hu Et) as [Hbs _].
  destruct (itg_integrate_moves (itg_sub W) _ _ _ _ _ _ Hbs Ei) as [new [N1 [N2 N3]]].
  assert (Hrem : forall r, rem = Some r -> itg_upd_sub W (itg_p_update r)).
  { intros r Hr. specialize (N3 r Hr). destruct (itg_p_update r) as [ub uds] eqn:Eu. cbn [u_blocks] in N3.
    intros e He. apply (itg_upd_sub_cf W ub N3 e). exact He. }
  destruct (itg_pend s) as [p|] eqn:Ep.
  - injection H as <- _. cbn [itg_pend itg_log]. split; [|split; [intros Hn; discriminate|exists new; split; assumption]].
    intros p0 Hp0. injection Hp0 as <-. destruct rem as [r|]; cbn [itg_p_update].
    + apply (Hmrg ltac:(discriminate)); [apply Hp; reflexivity|apply Hrem; reflexivity].
    + apply Hp. reflexivity.
  - injection H as <- <-. cbn [itg_pend itg_log]. split; [exact Hrem|]. split; [reflexivity|]. exists new. split; assumption.
Qed.

Lemma itg_empty_sub : forall W, itg_upd_sub W itg_empty_update.
Proof. intros W e []. Qed.

Lemma itg_retry_sub : forall mrg W fuel s s',
  (forall p, itg_pend s = Some p -> itg_upd_sub W (itg_p_update p)) ->
  itg_retry_with mrg fuel s = itg_ok s' ->
  exists new, itg_log s' = new ++ itg_log s /\ forall b, In b new -> itg_sub W b /\ itg_is_skip b = false.
Proof.
  intros mrg W. induction fuel as [|f IH]; intros s s' Hp H; cbn [itg_retry_with] in H; [discriminate|].
  destruct (itg_pend s) as [p|] eqn:Ep.
  - destruct (itg_step_with mrg (itg_mkstore (itg_blocks s) None (itg_log s)) (itg_p_update p)) as [[s1 r1]| |] eqn:E1;
      cbn [itg_bind] in H; try discriminate.
    cbn [fst] in H. rewrite itg_step_empty in H. cbn [itg_bind fst snd] in H.
    set (s0 := itg_mkstore (itg_blocks s) None (itg_log s)) in *.
    assert (Hm0 : itg_pend s0 <> None -> forall a b, itg_upd_sub W a -> itg_upd_sub W b -> itg_upd_sub W (mrg a b))
      by (intros Hn; exfalso; apply Hn; reflexivity).
    assert (Hp0 : forall p0, itg_pend s0 = Some p0 -> itg_upd_sub W (itg_p_update p0)) by (intros p0 Hp0; discriminate).
    destruct (itg_step_sub mrg W _ _ _ _ Hm0 Hp0 (Hp p eq_refl) E1) as [A [_ [n1 [B1 B2]]]]. unfold s0 in B1.
    cbn [itg_log] in B1.
    destruct (match itg_pend s1 with Some p0 => itg_retry_test (itg_blocks s1) p0 | None => false end).
    + destruct (IH _ _ A H) as [n2 [C1 C2]]. exists (n2 ++ n1). split; [rewrite C1, B1, app_assoc; reflexivity|].
      intros b Hb. apply in_app_or in Hb. destruct Hb as [Hb|Hb]; [apply C2|apply B2]; exact Hb.
    + injection H as <-. exists n1. split; assumption.
  - injection H as <-. exists []. split; [reflexivity|intros b []].
Qed.

Lemma itg_apply_sub : forall mrg W s u s',
  (itg_pend s <> None -> forall a b, itg_upd_sub W a -> itg_upd_sub W b -> itg_upd_sub W (mrg a b)) ->
  (forall p, itg_pend s = Some p -> itg_upd_sub W (itg_p_update p)) -> itg_upd_sub W u ->
  itg_apply_with mrg s u = itg_ok s' ->
  exists new, itg_log s' = new ++ itg_log s /\ forall b, In b new -> itg_sub W b /\ itg_is_skip b = false.
Proof.
  intros mrg W s u s' Hmrg Hp Hu H. unfold itg_apply_with in H.
  destruct (itg_step_with mrg s u) as [[s1 r1]| |] eqn:E1; cbn [itg_bind fst snd] in H; try discriminate.
  destruct (itg_step_sub mrg W _ _ _ _ Hmrg Hp Hu E1) as [A [_ [n1 [B1 B2]]]].
  destruct r1.
  - destruct (itg_retry_sub mrg W _ _ _ A H) as [n2 [C1 C2]]. exists (n2 ++ n1).
    split; [rewrite C1, B1, app_assoc; reflexivity|].
    intros b Hb. apply in_app_or in Hb. destruct Hb as [Hb|Hb]; [apply C2|apply B2]; exact Hb.
  - injection H as <-. exists n1. split; assumption.
Qed.

(* the log-level core: a state that contains the old integrated ids and in which every waiting unit is integrated
   or blocked contains every id of the new blocks *)
Lemma itg_log_has_app : forall x y i, itg_log_has (x ++ y) i = itg_log_has x i || itg_log_has y i.
Proof. intros. unfold itg_log_has. apply existsb_app. Qed.

Lemma itg_log_causal_app : forall x y, itg_log_causal (x ++ y) -> itg_log_causal y.
Proof. induction x as [|b r IH]; intros y H; [exact H|]. cbn [app itg_log_causal] in H. apply IH. apply H. Qed.

Lemma itg_sub_core : forall (isin : id -> bool) W new log0,
  (forall i, itg_log_has log0 i = true -> isin i = true) ->
  (forall x, In x W -> isin (xid x) = true \/ forallb isin (deps x) = false) ->
  itg_log_causal (new ++ log0) ->
  (forall b, In b new -> itg_sub W b /\ itg_is_skip b = false) ->
  forall i, itg_log_has (new ++ log0) i = true -> isin i = true.
Proof.
  intros isin W. induction new as [|b r IH]; intros log0 H0 HW Hc Hn i Hi; [apply H0; exact Hi|].
  cbn [app itg_log_causal] in Hc. destruct Hc as [Hd Hc].
  assert (Hr : forall j, itg_log_has (r ++ log0) j = true -> isin j = true).
  { apply IH; try assumption. intros b0 Hb0. apply Hn. right. exact Hb0. }
  change (itg_log_has ((b :: r) ++ log0) i) with (itg_covers b i || itg_log_has (r ++ log0) i) in Hi.
  apply orb_prop in Hi. destruct Hi as [Hi|Hi]; [|apply Hr; exact Hi].
  destruct (Hn b (or_introl eq_refl)) as [[Hcf Hincl] Hsk].
  destruct (itg_covers_unit b i Hcf Hsk Hi) as [x [Hx <-]].
  apply (itg_block_units_ready isin b Hcf); [| |exact Hx].
  - intros j Hj. apply Hr. apply Hd. exact Hj.
  - intros y Hy. apply HW. apply Hincl. exact Hy.
Qed.

(* (f), general form.  W is any list of unit operations that contains the units of the stash and of the incoming
   update (both content-free); the merge function has to stay inside W (no hypothesis if there is no stash).
   Then every id apply_update integrates is integrated by the abstract [deliver] of W. *)
Theorem itg_sub_deliver_with : forall mrg W s u s' (d : doc),
  (itg_pend s <> None -> forall a b, itg_upd_sub W a -> itg_upd_sub W b -> itg_upd_sub W (mrg a b)) ->
  itg_inv s ->
  (forall p, itg_pend s = Some p -> itg_upd_sub W (itg_p_update p)) -> itg_upd_sub W u ->
  (forall i, itg_has (itg_blocks s) i = true -> integrated d i = true) ->
  itg_apply_with mrg s u = itg_ok s' ->
  forall i, itg_has (itg_blocks s') i = true -> integrated (fst (deliver d W)) i = true.
Proof.
  intros mrg W s u s' d Hmrg Hinv Hp Hu Hd H i Hi.
  destruct (itg_apply_with_inv _ _ _ _ Hinv H) as [Hinv' _].
  destruct (itg_apply_sub mrg W _ _ _ Hmrg Hp Hu H) as [new [N1 N2]].
  destruct (deliver d W) as [d' stash] eqn:Ed. cbn [fst].
  rewrite (itg_inv_agree _ _ Hinv'), N1 in Hi.
  apply (itg_sub_core (integrated d') W new (itg_log s)); try assumption.
  - intros j Hj. rewrite <- (itg_inv_agree _ _ Hinv) in Hj.
    pose proof (deliver_monotone d W j (Hd j Hj)) as Hm. rewrite Ed in Hm. exact Hm.
  - intros x Hx. destruct (deliver_never_drops _ _ _ _ Ed) as [Hnd _]. destruct (Hnd x Hx) as [A|A]; [left; exact A|].
    right. destruct (deliver_stash_blocked _ _ _ _ Ed x A) as [_ [B _]]. exact B.
  - rewrite <- N1. apply (itg_inv_causal _ _ Hinv').
Qed.

(* (f) without a stash: the same inputs on both sides *)
Corollary itg_sub_deliver : forall s u s' (d : doc),
  itg_inv s -> itg_pend s = None ->
  (forall i, itg_has (itg_blocks s) i = true -> integrated d i = true) ->
  itg_apply_update_res s u = itg_ok s' ->
  forall i, itg_has (itg_blocks s') i = true ->
    integrated (fst (deliver d (units_of_update (itg_abs_update u)))) i = true.
Proof.
  intros s u s' d Hinv Hp Hd H. apply (itg_sub_deliver_with itg_mrg _ s u s' d); try assumption.
  - intros Hn. rewrite Hp in Hn. contradiction.
  - intros p Hp0. rewrite Hp in Hp0. discriminate.
  - intros e He b Hb. split.
    + cbn [itg_abs_update u_blocks] in He. apply in_map_iff in He. destruct He as [[c dq] [<- _]]. cbn [snd] in Hb.
      apply in_map_iff in Hb. destruct Hb as [b0 [<- _]]. apply itg_abs_block_cf.
    + intros x Hx. unfold units_of_update. apply in_flat_map. exists e. split; [exact He|]. apply in_flat_map. exists b. split; assumption.
Qed.

(* ================================================================================================ *)
(* 7. where the blocks of the update are while BlockPicker runs                                     *)
(* ================================================================================================ *)
Definition itg_sdone (new : list block) (b : block) : Prop := itg_is_skip b = true \/ In b new.
Definition itg_out (next : option block) (stack : list block) : list block :=
  match next with Some b => b :: stack | None => stack end.
(* the block of client c that has left its deque and is not dealt with yet *)
Definition itg_pend_of (c : N) (out : list block) : option block := find (fun s => itg_client s =? c) out.

Inductive itg_front (new : list block) : option block -> list block -> Prop :=
| itg_front_none : forall pre, Forall (itg_sdone new) pre -> itg_front new None pre
| itg_front_some : forall s pre', Forall (itg_sdone new) pre' -> itg_front new (Some s) (pre' ++ [s]).

Definition itg_lat_is (latest : option (N * list block)) (c : N) : Prop := exists d, latest = Some (c, d).

(* where the rest of client c's deque is *)
Definition itg_loc (out : list block) (clients : list N) (store : list (N * list block))
  (latest : option (N * list block)) (unapp : list (N * list block)) (c : N) (rest : list block) : Prop :=
  (In c clients /\ itg_get store c = Some rest /\ ~ itg_lat_is latest c /\ itg_get unapp c = None)
  \/ (latest = Some (c, rest) /\ ~ In c clients /\ itg_get store c = None /\ itg_get unapp c = None)
  \/ (itg_get unapp c = Some rest /\ itg_get store c = None /\ (forall d, latest = Some (c, d) -> d = []) /\
      itg_pend_of c out = None)
  \/ (rest = [] /\ ~ In c clients /\ itg_get store c = None /\ ~ itg_lat_is latest c /\ itg_get unapp c = None /\
      itg_pend_of c out = None).

Definition itg_status (out : list block) (clients : list N) (store : list (N * list block))
  (latest : option (N * list block)) (unapp : list (N * list block)) (new : list block) (c : N) (D : list block) : Prop :=
  exists pre rest, D = pre ++ rest /\ itg_front new (itg_pend_of c out) pre /\ itg_loc out clients store latest unapp c rest.

Record itg_pinv (bs : list (N * list block)) (out : list block) (clients : list N) (store : list (N * list block))
  (latest : option (N * list block)) (unapp : list (N * list block)) (new : list block) : Prop := {
  itg_pi_clients : NoDup clients;
  itg_pi_out : NoDup (map itg_client out);
  itg_pi_store_cl : forall c d b, itg_get store c = Some d -> In b d -> itg_client b = c;
  itg_pi_lat_cl : forall c d b, latest = Some (c, d) -> In b d -> itg_client b = c;
  itg_pi_status : forall c D, In (c, D) bs -> itg_status out clients store latest unapp new c D
}.

Lemma itg_sdone_mono : forall new new' b, (forall x, In x new -> In x new') -> itg_sdone new b -> itg_sdone new' b.
Proof. intros new new' b H [A|A]; [left; exact A|right; apply H; exact A]. Qed.

Lemma itg_front_mono : forall new new' p pre, (forall x, In x new -> In x new') -> itg_front new p pre -> itg_front new' p pre.
Proof.
  intros new new' p pre H F. destruct F as [pre F|s pre' F]; constructor;
    (apply Forall_forall; intros x Hx; rewrite Forall_forall in F; apply (itg_sdone_mono new new' x H); apply F; exact Hx).
Qed.

Lemma itg_pend_of_cons : forall c b out,
  itg_pend_of c (b :: out) = if itg_client b =? c then Some b else itg_pend_of c out.
Proof. reflexivity. Qed.

Lemma itg_pend_of_none : forall c out, ~ In c (map itg_client out) -> itg_pend_of c out = None.
Proof.
  intros c out H. unfold itg_pend_of. induction out as [|b r IH]; [reflexivity|]. cbn [find].
  destruct (itg_client b =? c) eqn:E.
  - exfalso. apply H. left. apply N.eqb_eq. exact E.
  - apply IH. intros Hr. apply H. right. exact Hr.
Qed.

Lemma itg_pend_of_in : forall c out s, itg_pend_of c out = Some s -> In s out /\ itg_client s = c.
Proof.
  intros c out s H. unfold itg_pend_of in H. apply find_some in H. destruct H as [A B]. split; [exact A|].
  apply N.eqb_eq. exact B.
Qed.

(* the block that is consumed (dropped as a Skip, or integrated) *)
Lemma itg_front_consume : forall new b pre, itg_sdone new b -> itg_front new (Some b) pre -> itg_front new None pre.
Proof.
  intros new b pre Hb F. inversion F as [|s pre' F' E1 E2]; subst. constructor. apply Forall_app. split; [exact F'|].
  constructor; [exact Hb|constructor].
Qed.

Lemma itg_pinv_consume : forall bs b stack clients store latest unapp new new',
  (forall x, In x new -> In x new') -> itg_sdone new' b ->
  itg_pinv bs (b :: stack) clients store latest unapp new ->
  itg_pinv bs stack clients store latest unapp new'.
Proof.
  intros bs b stack clients store latest unapp new new' Hmono Hb [P1 P2 P3 P4 P5].
  cbn [map] in P2. inversion P2 as [|x l Hnin Hnd]; subst.
  split; try assumption.
  intros c D HcD. destruct (P5 c D HcD) as [pre [rest [E [F L]]]]. exists pre, rest. split; [exact E|].
  rewrite itg_pend_of_cons in F.
  assert (Hloc : forall o1 o2, (itg_pend_of c o1 = None -> itg_pend_of c o2 = None) ->
            itg_loc o1 clients store latest unapp c rest -> itg_loc o2 clients store latest unapp c rest).
  { intros o1 o2 Ho [A|[A|[A|A]]]; [left; exact A|right; left; exact A| |].
    - right; right; left. destruct A as [A1 [A2 [A3 A4]]]. repeat split; try assumption. apply Ho. exact A4.
    - right; right; right. destruct A as [A1 [A2 [A3 [A4 [A5 A6]]]]]. repeat split; try assumption. apply Ho. exact A6. }
  destruct (itg_client b =? c) eqn:Ec.
  - apply N.eqb_eq in Ec. assert (Hn : itg_pend_of c stack = None) by (apply itg_pend_of_none; rewrite <- Ec; exact Hnin).
    split.
    + rewrite Hn. apply (itg_front_consume new' b); [exact Hb|]. apply (itg_front_mono new new'); assumption.
    + apply (Hloc (b :: stack) stack); [intros _; exact Hn|exact L].
  - split; [apply (itg_front_mono new new'); assumption|].
    apply (Hloc (b :: stack) stack); [|exact L]. rewrite itg_pend_of_cons, Ec. tauto.
Qed.

Definition itg_lat_empty (latest : option (N * list block)) : Prop :=
  latest = None \/ exists c, latest = Some (c, []).

(* next_client pops client c: what happens to the other clients *)
Lemma itg_loc_pop_other : forall out' c cs' store lat lat' unapp c2 rest,
  c2 <> c -> itg_lat_empty lat -> ~ itg_lat_is lat' c2 -> itg_pend_of c2 out' = None ->
  itg_loc [] (c :: cs') store lat unapp c2 rest ->
  itg_loc out' cs' (itg_del store c) lat' unapp c2 rest.
Proof.
  intros out' c cs' store lat lat' unapp c2 rest Hne Hle Hl' Hp [A|[A|[A|A]]].
  - destruct A as [A1 [A2 [A3 A4]]]. left. split; [destruct A1 as [A1|A1]; [congruence|exact A1]|].
    split; [rewrite itg_get_del_other by exact Hne; exact A2|]. split; assumption.
  - destruct A as [A1 [A2 [A3 A4]]]. right; right; right.
    assert (rest = []) as -> by (destruct Hle as [Hle|[c0 Hle]]; rewrite Hle in A1; [discriminate|injection A1 as _ <-; reflexivity]).
    split; [reflexivity|]. split; [intros Hin; apply A2; right; exact Hin|].
    split; [rewrite itg_get_del_other by exact Hne; exact A3|]. repeat split; assumption.
  - destruct A as [A1 [A2 [A3 A4]]]. right; right; left. split; [exact A1|].
    split; [rewrite itg_get_del_other by exact Hne; exact A2|]. split; [|exact Hp].
    intros d Hd. exfalso. apply Hl'. exists d. exact Hd.
  - destruct A as [A1 [A2 [A3 [A4 [A5 A6]]]]]. right; right; right. split; [exact A1|].
    split; [intros Hin; apply A2; right; exact Hin|].
    split; [rewrite itg_get_del_other by exact Hne; exact A3|]. repeat split; assumption.
Qed.

Lemma itg_next_client_pinv : forall bs unapp new cs store latest n cs' store' latest',
  itg_pk_next_client cs store latest = (n, cs', store', latest') ->
  itg_lat_empty latest ->
  itg_pinv bs [] cs store latest unapp new ->
  itg_pinv bs (itg_out n []) cs' store' latest' unapp new /\ (n = None -> cs' = [] /\ itg_lat_empty latest').
Proof.
  intros bs unapp new. induction cs as [|c cs IH]; intros store latest n cs' store' latest' H Hle Hinv;
    cbn [itg_pk_next_client] in H.
  - injection H as <- <- <- <-. split; [exact Hinv|]. intros _. split; [reflexivity|exact Hle].
  - destruct Hinv as [P1 P2 P3 P4 P5]. inversion P1 as [|x l Hnin Hnd]; subst.
    assert (Hdel_cl : forall c0 d b, itg_get (itg_del store c) c0 = Some d -> In b d -> itg_client b = c0).
    { intros c0 d b Hg Hb. destruct (N.eq_dec c0 c) as [->|Hne]; [rewrite itg_get_del_same in Hg; discriminate|].
      rewrite itg_get_del_other in Hg by exact Hne. apply (P3 _ _ _ Hg Hb). }
    destruct (itg_get store c) as [[|b r]|] eqn:Eg.
    + (* an empty deque: latest = (c, []), go on *)
      apply (IH _ _ _ _ _ _ H); [right; exists c; reflexivity|].
      split; [exact Hnd|constructor|exact Hdel_cl|intros c0 d b Hl Hb; injection Hl as <- <-; destruct Hb|].
      intros c2 D HcD. destruct (P5 c2 D HcD) as [pre [rest [E [F L]]]]. exists pre, rest. split; [exact E|]. split; [exact F|].
      destruct (N.eq_dec c2 c) as [->|Hne].
      * destruct L as [A|[A|[A|A]]].
        -- destruct A as [_ [A2 [_ A4]]]. rewrite Eg in A2. injection A2 as <-. right; left.
           split; [reflexivity|]. split; [exact Hnin|]. split; [apply itg_get_del_same|exact A4].
        -- destruct A as [_ [A2 _]]. exfalso. apply A2. left. reflexivity.
        -- destruct A as [_ [A2 _]]. rewrite Eg in A2. discriminate.
        -- destruct A as [_ [A2 _]]. exfalso. apply A2. left. reflexivity.
      * apply (itg_loc_pop_other [] c cs store latest); try assumption; [|reflexivity].
        intros [d Hd]. injection Hd as Hd _. congruence.
    + (* a block: it becomes `next` *)
      injection H as <- <- <- <-. split; [|intros Hn; discriminate]. cbn [itg_out].
      assert (Hb : itg_client b = c) by (apply (P3 c (b :: r) b Eg); left; reflexivity).
      split; [exact Hnd|cbn [map]; constructor; [intros []|constructor]|exact Hdel_cl| |].
      * intros c0 d b0 Hl Hb0. injection Hl as <- <-. apply (P3 c (b :: r) b0 Eg). right. exact Hb0.
      * intros c2 D HcD. destruct (P5 c2 D HcD) as [pre [rest [E [F L]]]].
        destruct (N.eq_dec c2 c) as [->|Hne].
        -- destruct L as [A|[A|[A|A]]].
           ++ destruct A as [_ [A2 [_ A4]]]. rewrite Eg in A2. injection A2 as <-.
              exists (pre ++ [b]), r. split; [rewrite E, <- app_assoc; reflexivity|].
              rewrite itg_pend_of_cons, Hb, N.eqb_refl. split.
              ** cbn [itg_pend_of find] in F. inversion F; subst. constructor. assumption.
              ** right; left. split; [reflexivity|]. split; [exact Hnin|]. split; [apply itg_get_del_same|exact A4].
           ++ destruct A as [_ [A2 _]]. exfalso. apply A2. left. reflexivity.
           ++ destruct A as [_ [A2 _]]. rewrite Eg in A2. discriminate.
           ++ destruct A as [_ [A2 _]]. exfalso. apply A2. left. reflexivity.
        -- exists pre, rest. split; [exact E|].
           assert (Hp : itg_pend_of c2 [b] = None).
           { rewrite itg_pend_of_cons, Hb. destruct (c =? c2) eqn:Ec; [apply N.eqb_eq in Ec; congruence|reflexivity]. }
           rewrite Hp. split; [exact F|].
           apply (itg_loc_pop_other [b] c cs store latest); try assumption.
           intros [d Hd]. injection Hd as Hd _. congruence.
    + (* the client has been moved to unapplicable: latest = None, go on *)
      apply (IH _ _ _ _ _ _ H); [left; reflexivity|].
      split; [exact Hnd|constructor|exact Hdel_cl|intros c0 d b Hl; discriminate|].
      intros c2 D HcD. destruct (P5 c2 D HcD) as [pre [rest [E [F L]]]]. exists pre, rest. split; [exact E|]. split; [exact F|].
      destruct (N.eq_dec c2 c) as [->|Hne].
      * destruct L as [A|[A|[A|A]]].
        -- destruct A as [_ [A2 _]]. rewrite Eg in A2. discriminate.
        -- destruct A as [_ [A2 _]]. exfalso. apply A2. left. reflexivity.
        -- destruct A as [A1 [A2 [A3 A4]]]. right; right; left. split; [exact A1|]. split; [apply itg_get_del_same|].
           split; [intros d Hd; discriminate|exact A4].
        -- destruct A as [_ [A2 _]]. exfalso. apply A2. left. reflexivity.
      * apply (itg_loc_pop_other [] c cs store latest); try assumption; [|reflexivity].
        intros [d Hd]. discriminate.
Qed.

Definition itg_pk_pinv (bs : list (N * list block)) (next : option block) (pk : itg_picker) (new : list block) : Prop :=
  itg_pinv bs (itg_out next (itg_pk_stack pk)) (itg_pk_clients pk) (itg_pk_store pk) (itg_pk_latest pk) (itg_pk_unapp pk) new.
Definition itg_pk_finished (pk : itg_picker) : Prop :=
  itg_pk_stack pk = [] /\ itg_pk_clients pk = [] /\ itg_lat_empty (itg_pk_latest pk).

Lemma itg_pk_next_pinv : forall bs pk new, itg_pk_pinv bs None pk new ->
  itg_pk_pinv bs (fst (itg_pk_next pk)) (snd (itg_pk_next pk)) new /\
  (fst (itg_pk_next pk) = None -> itg_pk_finished (snd (itg_pk_next pk))).
Proof.
  intros bs pk new Hinv. unfold itg_pk_pinv in *. cbn [itg_out] in Hinv. unfold itg_pk_next.
  destruct (itg_pk_stack pk) as [|x s] eqn:Es.
  - destruct (itg_pk_latest pk) as [[c [|b r]]|] eqn:El.
    + destruct (itg_pk_next_client (itg_pk_clients pk) (itg_pk_store pk) (Some (c, []))) as [[[n cs] store] latest] eqn:E.
      cbn [fst snd itg_pk_stack itg_pk_clients itg_pk_store itg_pk_latest itg_pk_unapp].
      destruct (itg_next_client_pinv bs _ new _ _ _ _ _ _ _ E (or_intror (ex_intro _ c eq_refl)) Hinv) as [A B].
      split; [exact A|]. intros Hn. destruct (B Hn) as [B1 B2]. unfold itg_pk_finished.
      cbn [itg_pk_stack itg_pk_clients itg_pk_latest]. repeat split; assumption.
    + cbn [fst snd itg_pk_stack itg_pk_clients itg_pk_store itg_pk_latest itg_pk_unapp itg_out]. split; [|intros Hn; discriminate].
      destruct Hinv as [P1 P2 P3 P4 P5].
      assert (Hb : itg_client b = c) by (apply (P4 c (b :: r) b eq_refl); left; reflexivity).
      split; [exact P1|cbn [map]; constructor; [intros []|constructor]|exact P3| |].
      * intros c0 d b0 Hl Hb0. injection Hl as <- <-. apply (P4 c (b :: r) b0 eq_refl). right. exact Hb0.
      * intros c2 D HcD. destruct (P5 c2 D HcD) as [pre [rest [E [F L]]]].
        destruct (N.eq_dec c2 c) as [->|Hne].
        -- destruct L as [A|[A|[A|A]]].
           ++ destruct A as [_ [_ [A3 _]]]. exfalso. apply A3. exists (b :: r). reflexivity.
           ++ destruct A as [A1 [A2 [A3 A4]]]. injection A1 as <-.
              exists (pre ++ [b]), r. split; [rewrite E, <- app_assoc; reflexivity|].
              rewrite itg_pend_of_cons, Hb, N.eqb_refl. split.
              ** cbn [itg_pend_of find] in F. inversion F; subst. constructor. assumption.
              ** right; left. repeat split; assumption.
           ++ destruct A as [_ [_ [A3 _]]]. specialize (A3 _ eq_refl). discriminate.
           ++ destruct A as [_ [_ [_ [A4 _]]]]. exfalso. apply A4. exists (b :: r). reflexivity.
        -- exists pre, rest. split; [exact E|].
           assert (Hp : itg_pend_of c2 [b] = None).
           { rewrite itg_pend_of_cons, Hb. destruct (c =? c2) eqn:Ec; [apply N.eqb_eq in Ec; congruence|reflexivity]. }
           rewrite Hp. split; [exact F|].
           assert (Hnl : ~ itg_lat_is (Some (c, r)) c2) by (intros [d Hd]; injection Hd as Hd _; congruence).
           destruct L as [A|[A|[A|A]]].
           ++ destruct A as [A1 [A2 [A3 A4]]]. left. repeat split; assumption.
           ++ destruct A as [A1 _]. injection A1 as A1 _. congruence.
           ++ destruct A as [A1 [A2 [A3 A4]]]. right; right; left. repeat split; try assumption.
              intros d Hd. exfalso. apply Hnl. exists d. exact Hd.
           ++ destruct A as [A1 [A2 [A3 [A4 [A5 A6]]]]]. right; right; right. repeat split; assumption.
    + destruct (itg_pk_next_client (itg_pk_clients pk) (itg_pk_store pk) None) as [[[n cs] store] latest] eqn:E.
      cbn [fst snd itg_pk_stack itg_pk_clients itg_pk_store itg_pk_latest itg_pk_unapp].
      destruct (itg_next_client_pinv bs _ new _ _ _ _ _ _ _ E (or_introl eq_refl) Hinv) as [A B].
      split; [exact A|]. intros Hn. destruct (B Hn) as [B1 B2]. unfold itg_pk_finished.
      cbn [itg_pk_stack itg_pk_clients itg_pk_latest]. repeat split; assumption.
  - cbn [fst snd itg_pk_stack itg_pk_clients itg_pk_store itg_pk_latest itg_pk_unapp itg_out]. split; [exact Hinv|intros Hn; discriminate].
Qed.

(* a client that a step does not touch *)
Lemma itg_loc_frame : forall c2 out out' clients store store' latest latest' unapp unapp' rest,
  itg_get store' c2 = itg_get store c2 -> itg_get unapp' c2 = itg_get unapp c2 ->
  (forall d, latest' = Some (c2, d) <-> latest = Some (c2, d)) ->
  (itg_pend_of c2 out = None -> itg_pend_of c2 out' = None) ->
  itg_loc out clients store latest unapp c2 rest -> itg_loc out' clients store' latest' unapp' c2 rest.
Proof.
  intros c2 out out' clients store store' latest latest' unapp unapp' rest Hs Hu Hl Hp L.
  assert (Hnl : ~ itg_lat_is latest c2 -> ~ itg_lat_is latest' c2).
  { intros H [d Hd]. apply H. exists d. apply Hl. exact Hd. }
  destruct L as [A|[A|[A|A]]].
  - destruct A as [A1 [A2 [A3 A4]]]. left. rewrite Hs, Hu. repeat split; try assumption. apply Hnl. exact A3.
  - destruct A as [A1 [A2 [A3 A4]]]. right; left. rewrite Hs, Hu. repeat split; try assumption. apply Hl. exact A1.
  - destruct A as [A1 [A2 [A3 A4]]]. right; right; left. rewrite Hs, Hu. repeat split; try assumption.
    + intros d Hd. apply A3. apply Hl. exact Hd.
    + apply Hp. exact A4.
  - destruct A as [A1 [A2 [A3 [A4 [A5 A6]]]]]. right; right; right. rewrite Hs, Hu. repeat split; try assumption.
    + apply Hnl. exact A4.
    + apply Hp. exact A6.
Qed.

Lemma itg_pk_drain_pinv : forall bs clients new items store latest unapp store' latest' unapp',
  itg_pk_drain items store latest unapp = (store', latest', unapp') ->
  itg_pinv bs items clients store latest unapp new ->
  itg_pinv bs [] clients store' latest' unapp' new.
Proof.
  intros bs clients new. induction items as [|item rest_items IH]; intros store latest unapp store' latest' unapp' H Hinv;
    cbn [itg_pk_drain] in H.
  - injection H as <- <- <-. exact Hinv.
  - destruct Hinv as [P1 P2 P3 P4 P5]. cbn [map] in P2. inversion P2 as [|x l Hnin Hnd]; subst.
    set (c := itg_client item) in *.
    assert (Hpn : itg_pend_of c rest_items = None) by (apply itg_pend_of_none; exact Hnin).
    assert (Hpo : forall c2, c2 <> c -> itg_pend_of c2 (item :: rest_items) = itg_pend_of c2 rest_items).
    { intros c2 Hne. rewrite itg_pend_of_cons. fold c. destruct (c =? c2) eqn:Ec; [apply N.eqb_eq in Ec; congruence|reflexivity]. }
    assert (Hps : itg_pend_of c (item :: rest_items) = Some item).
    { rewrite itg_pend_of_cons. fold c. rewrite N.eqb_refl. reflexivity. }
    destruct (itg_get store c) as [blocks|] eqn:Eg.
    + apply (IH _ _ _ _ _ _ H). split; [exact P1|exact Hnd| |exact P4|].
      * intros c0 d b Hg Hb. destruct (N.eq_dec c0 c) as [->|Hne]; [rewrite itg_get_del_same in Hg; discriminate|].
        rewrite itg_get_del_other in Hg by exact Hne. apply (P3 _ _ _ Hg Hb).
      * intros c2 D HcD. destruct (P5 c2 D HcD) as [pre [rest [E [F L]]]].
        destruct (N.eq_dec c2 c) as [->|Hne].
        -- rewrite Hps in F. inversion F as [|s pre' F' E1 E2]; subst.
           destruct L as [A|[A|[A|A]]].
           ++ destruct A as [_ [A2 [A3 _]]]. rewrite Eg in A2. injection A2 as <-.
              exists pre', (item :: blocks). split; [rewrite <- app_assoc; reflexivity|]. rewrite Hpn.
              split; [constructor; exact F'|]. right; right; left.
              split; [apply itg_get_put_same|]. split; [apply itg_get_del_same|]. split; [|exact Hpn].
              intros d Hd. exfalso. apply A3. exists d. exact Hd.
           ++ destruct A as [_ [_ [A3 _]]]. rewrite Eg in A3. discriminate.
           ++ destruct A as [_ [A2 _]]. rewrite Eg in A2. discriminate.
           ++ destruct A as [_ [_ [A3 _]]]. rewrite Eg in A3. discriminate.
        -- exists pre, rest. split; [exact E|]. rewrite (Hpo c2 Hne) in F. split; [exact F|].
           apply (itg_loc_frame c2 (item :: rest_items) rest_items clients store _ latest latest unapp _ rest); try assumption.
           ++ apply itg_get_del_other. exact Hne.
           ++ apply itg_get_put_other. exact Hne.
           ++ intros d. tauto.
           ++ rewrite (Hpo c2 Hne). tauto.
    + destruct latest as [[lc blocks]|] eqn:El.
      * destruct (lc =? c) eqn:Elc.
        -- apply N.eqb_eq in Elc. subst lc.
           apply (IH _ _ _ _ _ _ H). split; [exact P1|exact Hnd|exact P3|intros c0 d b Hl Hb; injection Hl as <- <-; destruct Hb|].
           intros c2 D HcD. destruct (P5 c2 D HcD) as [pre [rest [E [F L]]]].
           destruct (N.eq_dec c2 c) as [->|Hne].
           ++ rewrite Hps in F. inversion F as [|s pre' F' E1 E2]; subst.
              destruct L as [A|[A|[A|A]]].
              ** destruct A as [_ [A2 _]]. rewrite Eg in A2. discriminate.
              ** destruct A as [A1 [A2 [A3 A4]]]. injection A1 as <-.
                 exists pre', (item :: blocks). split; [rewrite <- app_assoc; reflexivity|]. rewrite Hpn.
                 split; [constructor; exact F'|]. right; right; left.
                 split; [apply itg_get_put_same|]. split; [exact A3|]. split; [|exact Hpn].
                 intros d Hd. injection Hd as <-. reflexivity.
              ** destruct A as [_ [_ [_ A4]]]. rewrite Hps in A4. discriminate.
              ** destruct A as [_ [_ [_ [_ [_ A6]]]]]. rewrite Hps in A6. discriminate.
           ++ exists pre, rest. split; [exact E|]. rewrite (Hpo c2 Hne) in F. split; [exact F|].
              apply (itg_loc_frame c2 (item :: rest_items) rest_items clients store store (Some (c, blocks)) (Some (c, [])) unapp _ rest);
                try assumption; try reflexivity.
              ** apply itg_get_put_other. exact Hne.
              ** intros d. split; intros Hd; injection Hd as Hd _; congruence.
              ** rewrite (Hpo c2 Hne). tauto.
        -- apply N.eqb_neq in Elc.
           apply (IH _ _ _ _ _ _ H). split; [exact P1|exact Hnd|exact P3|exact P4|].
           intros c2 D HcD. destruct (P5 c2 D HcD) as [pre [rest [E [F L]]]].
           destruct (N.eq_dec c2 c) as [->|Hne].
           ++ exfalso. destruct L as [A|[A|[A|A]]].
              ** destruct A as [_ [A2 _]]. rewrite Eg in A2. discriminate.
              ** destruct A as [A1 _]. injection A1 as A1 _. congruence.
              ** destruct A as [_ [_ [_ A4]]]. rewrite Hps in A4. discriminate.
              ** destruct A as [_ [_ [_ [_ [_ A6]]]]]. rewrite Hps in A6. discriminate.
           ++ exists pre, rest. split; [exact E|]. rewrite (Hpo c2 Hne) in F. split; [exact F|].
              apply (itg_loc_frame c2 (item :: rest_items) rest_items clients store store (Some (lc, blocks)) (Some (lc, blocks)) unapp _ rest);
                try assumption; try reflexivity.
              ** apply itg_get_put_other. exact Hne.
              ** rewrite (Hpo c2 Hne). tauto.
      * apply (IH _ _ _ _ _ _ H). split; [exact P1|exact Hnd|exact P3|exact P4|].
        intros c2 D HcD. destruct (P5 c2 D HcD) as [pre [rest [E [F L]]]].
        destruct (N.eq_dec c2 c) as [->|Hne].
        -- exfalso. destruct L as [A|[A|[A|A]]].
           ++ destruct A as [_ [A2 _]]. rewrite Eg in A2. discriminate.
           ++ destruct A as [A1 _]. discriminate.
           ++ destruct A as [_ [_ [_ A4]]]. rewrite Hps in A4. discriminate.
           ++ destruct A as [_ [_ [_ [_ [_ A6]]]]]. rewrite Hps in A6. discriminate.
        -- exists pre, rest. split; [exact E|]. rewrite (Hpo c2 Hne) in F. split; [exact F|].
           apply (itg_loc_frame c2 (item :: rest_items) rest_items clients store store None None unapp _ rest);
             try assumption; try reflexivity.
           ++ apply itg_get_put_other. exact Hne.
           ++ rewrite (Hpo c2 Hne). tauto.
Qed.

Lemma itg_nodup_map_inj : forall (A B : Type) (f : A -> B) l x y, NoDup (map f l) -> In x l -> In y l -> f x = f y -> x = y.
Proof.
  intros A B f. induction l as [|a r IH]; intros x y Hnd Hx Hy Hf; [destruct Hx|].
  cbn [map] in Hnd. inversion Hnd as [|z l Hnin Hnd']; subst.
  destruct Hx as [<-|Hx]; destruct Hy as [<-|Hy]; try reflexivity.
  - exfalso. apply Hnin. rewrite Hf. apply in_map. exact Hy.
  - exfalso. apply Hnin. rewrite <- Hf. apply in_map. exact Hx.
  - apply (IH x y Hnd' Hx Hy Hf).
Qed.

Lemma itg_pend_of_same : forall c l l', NoDup (map itg_client l') -> (forall x, In x l <-> In x l') ->
  forall s, itg_pend_of c l = Some s -> itg_pend_of c l' = Some s.
Proof.
  intros c l l' Hnd Hin s H. destruct (itg_pend_of_in _ _ _ H) as [Hs Hc].
  destruct (itg_pend_of c l') as [s'|] eqn:E.
  - destruct (itg_pend_of_in _ _ _ E) as [Hs' Hc']. f_equal.
    apply (itg_nodup_map_inj _ _ itg_client l' s' s Hnd Hs'); [apply Hin; exact Hs|congruence].
  - exfalso. unfold itg_pend_of in E. apply Hin in Hs. apply (find_none _ _ E s) in Hs.
    rewrite Hc, N.eqb_refl in Hs. discriminate.
Qed.

Lemma itg_pend_of_perm : forall c l l', NoDup (map itg_client l) -> NoDup (map itg_client l') ->
  (forall x, In x l <-> In x l') -> itg_pend_of c l = itg_pend_of c l'.
Proof.
  intros c l l' H1 H2 Hin. destruct (itg_pend_of c l) as [s|] eqn:E.
  - symmetry. apply (itg_pend_of_same c l l' H2 Hin s E).
  - destruct (itg_pend_of c l') as [s'|] eqn:E'; [|reflexivity].
    assert (Hin' : forall x, In x l' <-> In x l) by (intros x; symmetry; apply Hin).
    rewrite (itg_pend_of_same c l' l H1 Hin' s' E') in E. discriminate.
Qed.

Lemma itg_pinv_out_perm : forall bs out out' clients store latest unapp new,
  NoDup (map itg_client out') -> (forall x, In x out <-> In x out') ->
  itg_pinv bs out clients store latest unapp new -> itg_pinv bs out' clients store latest unapp new.
Proof.
  intros bs out out' clients store latest unapp new Hnd Hin [P1 P2 P3 P4 P5].
  split; try assumption. intros c D HcD. destruct (P5 c D HcD) as [pre [rest [E [F L]]]].
  exists pre, rest. split; [exact E|]. rewrite <- (itg_pend_of_perm c out out' P2 Hnd Hin). split; [exact F|].
  apply (itg_loc_frame c out out' clients store store latest latest unapp unapp rest); try reflexivity; [|exact L].
  rewrite (itg_pend_of_perm c out out' P2 Hnd Hin). tauto.
Qed.

Lemma itg_pk_switch_pinv : forall bs pk b m new, itg_pk_pinv bs (Some b) pk new ->
  itg_pk_pinv bs (fst (itg_pk_switch pk b m)) (snd (itg_pk_switch pk b m)) new /\
  (fst (itg_pk_switch pk b m) = None -> itg_pk_finished (snd (itg_pk_switch pk b m))).
Proof.
  intros bs pk b m new Hinv. unfold itg_pk_pinv in Hinv. cbn [itg_out] in Hinv. unfold itg_pk_switch.
  set (mc := cl m).
  destruct (itg_pk_drain (rev (b :: itg_pk_stack pk)) (itg_pk_store pk) (itg_pk_latest pk) (itg_pk_unapp pk))
    as [[store latest] unapp] eqn:Ed.
  set (pk1 := itg_mkpicker store latest [] (itg_pk_clients pk)
                (itg_sv_set_min (itg_sv_set_min (itg_pk_missing pk) mc (ck m)) mc (ck m)) unapp).
  assert (Hfail : itg_pk_pinv bs (fst (itg_pk_next pk1)) (snd (itg_pk_next pk1)) new /\
                  (fst (itg_pk_next pk1) = None -> itg_pk_finished (snd (itg_pk_next pk1)))).
  { apply itg_pk_next_pinv. unfold itg_pk_pinv, pk1. cbn [itg_out itg_pk_stack itg_pk_clients itg_pk_store itg_pk_latest itg_pk_unapp].
    apply (itg_pk_drain_pinv bs _ new _ _ _ _ _ _ _ Ed).
    apply (itg_pinv_out_perm bs (b :: itg_pk_stack pk)); [| |exact Hinv].
    - rewrite map_rev. apply NoDup_rev. apply (itg_pi_out _ _ _ _ _ _ _ Hinv).
    - intros x. apply in_rev. }
  destruct (itg_get (itg_pk_store pk) mc) as [[|b' r]|] eqn:Eg; try exact Hfail.
  destruct (existsb (fun s => itg_client s =? mc) (b :: itg_pk_stack pk)) eqn:Eex; [exact Hfail|].
  cbn [fst snd]. split; [|intros Hn; discriminate]. unfold itg_pk_pinv.
  cbn [itg_out itg_pk_stack itg_pk_clients itg_pk_store itg_pk_latest itg_pk_unapp].
  destruct Hinv as [P1 P2 P3 P4 P5].
  assert (Hb' : itg_client b' = mc) by (apply (P3 mc (b' :: r) b' Eg); left; reflexivity).
  assert (Hnin : ~ In mc (map itg_client (b :: itg_pk_stack pk))).
  { intros Hin. apply in_map_iff in Hin. destruct Hin as [s [Hs1 Hs2]].
    assert (Ht : existsb (fun s => itg_client s =? mc) (b :: itg_pk_stack pk) = true).
    { apply existsb_exists. exists s. split; [exact Hs2|apply N.eqb_eq; exact Hs1]. }
    rewrite Ht in Eex. discriminate. }
  split; [exact P1| | |exact P4|].
  - cbn [map]. rewrite Hb'. constructor; [exact Hnin|exact P2].
  - intros c0 d b0 Hg Hb0. rewrite itg_get_put in Hg. destruct (c0 =? mc) eqn:Ec.
    + injection Hg as <-. apply N.eqb_eq in Ec. subst c0. apply (P3 mc (b' :: r) b0 Eg). right. exact Hb0.
    + apply (P3 _ _ _ Hg Hb0).
  - intros c2 D HcD. destruct (P5 c2 D HcD) as [pre [rest [E [F L]]]].
    destruct (N.eq_dec c2 mc) as [->|Hne].
    + assert (Hpn : itg_pend_of mc (b :: itg_pk_stack pk) = None) by (apply itg_pend_of_none; exact Hnin).
      rewrite Hpn in F. inversion F as [pre0 F' E1 E2|]; subst.
      destruct L as [A|[A|[A|A]]].
      * destruct A as [A1 [A2 [A3 A4]]]. rewrite Eg in A2. injection A2 as <-.
        exists (pre ++ [b']), r. split; [rewrite <- app_assoc; reflexivity|].
        rewrite itg_pend_of_cons, Hb', N.eqb_refl. split; [constructor; exact F'|].
        left. split; [exact A1|]. split; [apply itg_get_put_same|]. split; assumption.
      * destruct A as [_ [_ [A3 _]]]. rewrite Eg in A3. discriminate.
      * destruct A as [_ [A2 _]]. rewrite Eg in A2. discriminate.
      * destruct A as [_ [_ [A3 _]]]. rewrite Eg in A3. discriminate.
    + assert (Hpo : itg_pend_of c2 (b' :: b :: itg_pk_stack pk) = itg_pend_of c2 (b :: itg_pk_stack pk)).
      { rewrite itg_pend_of_cons, Hb'. destruct (mc =? c2) eqn:Ec; [apply N.eqb_eq in Ec; congruence|reflexivity]. }
      exists pre, rest. split; [exact E|]. rewrite Hpo. split; [exact F|].
      apply (itg_loc_frame c2 (b :: itg_pk_stack pk) _ _ (itg_pk_store pk) _ (itg_pk_latest pk) _ (itg_pk_unapp pk) _ rest);
        try reflexivity; try assumption.
      * apply itg_get_put_other. exact Hne.
      * rewrite Hpo. tauto.
Qed.

(* ---- (c) conservation inside Update::integrate ---- *)
Definition itg_update_ok (bs : list (N * list block)) : Prop :=
  NoDup (map fst bs) /\ forall c D b, In (c, D) bs -> In b D -> itg_client b = c.

Lemma itg_insert_desc_in : forall c l x, In x (itg_insert_desc c l) <-> x = c \/ In x l.
Proof.
  intros c l x. induction l as [|y r IH]; cbn [itg_insert_desc].
  - cbn [In]. intuition.
  - destruct (y <=? c); cbn [In]; [intuition|]. rewrite IH. intuition.
Qed.
Lemma itg_sort_desc_in : forall l x, In x (itg_sort_desc l) <-> In x l.
Proof.
  induction l as [|c r IH]; intros x; cbn [itg_sort_desc fold_right]; [tauto|].
  fold (itg_sort_desc r). rewrite itg_insert_desc_in, IH. cbn [In]. intuition.
Qed.
Lemma itg_insert_desc_nodup : forall c l, ~ In c l -> NoDup l -> NoDup (itg_insert_desc c l).
Proof.
  intros c l. induction l as [|y r IH]; intros Hn Hd; cbn [itg_insert_desc].
  - constructor; [intros []|constructor].
  - destruct (y <=? c).
    + constructor; assumption.
    + inversion Hd as [|z l Hy Hr]; subst. constructor.
      * rewrite itg_insert_desc_in. intros [->|H]; [apply Hn; left; reflexivity|contradiction].
      * apply IH; [intros H; apply Hn; right; exact H|exact Hr].
Qed.
Lemma itg_sort_desc_nodup : forall l, NoDup l -> NoDup (itg_sort_desc l).
Proof.
  induction l as [|c r IH]; intros H; cbn [itg_sort_desc fold_right]; [constructor|].
  fold (itg_sort_desc r). inversion H as [|z l Hc Hr]; subst.
  apply itg_insert_desc_nodup; [rewrite itg_sort_desc_in; exact Hc|apply IH; exact Hr].
Qed.

Lemma itg_get_of_in : forall (A : Type) (m : list (N * A)) c v, NoDup (map fst m) -> In (c, v) m -> itg_get m c = Some v.
Proof.
  intros A m c v. induction m as [|[c0 v0] r IH]; intros Hnd Hin; [destruct Hin|].
  cbn [map fst] in Hnd. inversion Hnd as [|z l Hn Hr]; subst. cbn [itg_get].
  destruct Hin as [Hin|Hin].
  - injection Hin as <- <-. rewrite N.eqb_refl. reflexivity.
  - destruct (c =? c0) eqn:E; [|apply IH; assumption].
    apply N.eqb_eq in E. subst c0. exfalso. apply Hn. apply (in_map fst) in Hin. exact Hin.
Qed.

Lemma itg_pk_new_pinv : forall bs, itg_update_ok bs -> itg_pk_pinv bs None (itg_pk_new bs) [].
Proof.
  intros bs [Hk Hcl]. unfold itg_pk_pinv, itg_pk_new. cbn [itg_out itg_pk_stack itg_pk_clients itg_pk_store itg_pk_latest itg_pk_unapp].
  split.
  - apply itg_sort_desc_nodup. exact Hk.
  - constructor.
  - intros c d b Hg Hb. apply itg_get_in in Hg. apply (Hcl _ _ _ Hg Hb).
  - intros c d b Hl. discriminate.
  - intros c D HcD. exists [], D. split; [reflexivity|]. split; [constructor; constructor|].
    left. split; [apply itg_sort_desc_in; apply (in_map fst) in HcD; exact HcD|].
    split; [apply itg_get_of_in; assumption|]. split; [intros [d Hd]; discriminate|reflexivity].
Qed.

Definition itg_C_P (bs : list (N * list block)) (log0 : list block) (next : option block) (r : itg_run) : Prop :=
  (exists new, itg_rn_log r = new ++ log0 /\ itg_pk_pinv bs next (itg_rn_pk r) new) /\
  (next = None -> itg_pk_finished (itg_rn_pk r)).

Lemma itg_C_P_skip : forall bs log0 b r, itg_C_P bs log0 (Some b) r -> itg_is_skip b = true ->
  itg_C_P bs log0 (fst (itg_pk_next (itg_rn_pk r)))
    (itg_mkrun (itg_rn_blocks r) (itg_rn_log r) (itg_rn_state r) (snd (itg_pk_next (itg_rn_pk r)))).
Proof.
  intros bs log0 b r0 [[new [N1 N2]] _] Esk. unfold itg_C_P. cbn [itg_rn_pk itg_rn_log].
  assert (Hc : itg_pk_pinv bs None (itg_rn_pk r0) new).
  { unfold itg_pk_pinv in *. cbn [itg_out] in *. apply (itg_pinv_consume bs b _ _ _ _ _ new new); [tauto|left; exact Esk|exact N2]. }
  destruct (itg_pk_next_pinv bs _ new Hc) as [A B]. split; [exists new; split; assumption|exact B].
Qed.

Lemma itg_C_P_switch : forall bs log0 b r m st, itg_C_P bs log0 (Some b) r ->
  itg_C_P bs log0 (fst (itg_pk_switch (itg_rn_pk r) b m))
    (itg_mkrun (itg_rn_blocks r) (itg_rn_log r) st (snd (itg_pk_switch (itg_rn_pk r) b m))).
Proof.
  intros bs log0 b r0 m st [[new [N1 N2]] _]. unfold itg_C_P. cbn [itg_rn_pk itg_rn_log].
  destruct (itg_pk_switch_pinv bs _ b m new N2) as [A B]. split; [exists new; split; assumption|exact B].
Qed.

Lemma itg_C_P_integ : forall bs log0 b r blocks2 st, itg_C_P bs log0 (Some b) r ->
  itg_C_P bs log0 (fst (itg_pk_next (itg_rn_pk r)))
    (itg_mkrun blocks2 (b :: itg_rn_log r) st (snd (itg_pk_next (itg_rn_pk r)))).
Proof.
  intros bs log0 b r0 blocks2 st [[new [N1 N2]] _]. unfold itg_C_P. cbn [itg_rn_pk itg_rn_log].
  assert (Hc : itg_pk_pinv bs None (itg_rn_pk r0) (b :: new)).
  { unfold itg_pk_pinv in *. cbn [itg_out] in *.
    apply (itg_pinv_consume bs b _ _ _ _ _ new (b :: new)); [intros x Hx; right; exact Hx|right; left; reflexivity|exact N2]. }
  destruct (itg_pk_next_pinv bs _ (b :: new) Hc) as [A B]. split; [|exact B].
  exists (b :: new). split; [rewrite N1; reflexivity|exact A].
Qed.

Lemma itg_loop_C : forall bs fuel next r r',
  (exists new, itg_rn_log r = new ++ itg_rn_log r /\ itg_pk_pinv bs next (itg_rn_pk r) new) ->
  (next = None -> itg_pk_finished (itg_rn_pk r)) ->
  itg_loop fuel next r = itg_ok r' -> itg_C_P bs (itg_rn_log r) None r'.
Proof.
  intros bs fuel next r r' H0 H1 H.
  apply (itg_loop_rule (itg_C_P bs (itg_rn_log r))) with (fuel := fuel) (next := next) (r := r); [| | | |exact H].
  - intros b r0 HP Esk np. apply (itg_C_P_skip bs _ b r0 HP Esk).
  - intros b r0 m HP Esk Em np. apply itg_C_P_switch. exact HP.
  - intros b r0 b1 b2 HP Esk Em c lc E1 E2 np. apply itg_C_P_integ. exact HP.
  - split; assumption.
Qed.

Theorem itg_integrate_conserves : forall blocks log bs blocks' log' rem, itg_update_ok bs ->
  itg_integrate blocks log bs = itg_ok (blocks', log', rem) ->
  exists new, log' = new ++ log /\
    forall c D b, In (c, D) bs -> In b D -> itg_is_skip b = false ->
      In b new \/ exists p rest, rem = Some p /\ itg_get (u_blocks (itg_p_update p)) c = Some rest /\ In b rest.
Proof.
  intros blocks log bs blocks' log' rem Hok H. unfold itg_integrate in H.
  destruct bs as [|e0 bs0] eqn:Eb.
  - injection H as _ <- _. exists []. split; [reflexivity|]. intros c D b [].
  - rewrite <- Eb in *. clear Eb. set (np := itg_pk_next (itg_pk_new bs)) in *.
    destruct (itg_loop (itg_loop_fuel bs) (fst np) (itg_mkrun blocks log [] (snd np))) as [r'| |] eqn:E;
      cbn [itg_bind] in H; try discriminate.
    injection H as _ <- <-.
    destruct (itg_pk_next_pinv bs _ [] (itg_pk_new_pinv bs Hok)) as [A0 B0]. fold np in A0, B0.
    assert (HP : itg_C_P bs log None r').
    { apply (itg_loop_C bs (itg_loop_fuel bs) (fst np) (itg_mkrun blocks log [] (snd np)) r'); [|exact B0|exact E].
      exists []. split; [reflexivity|exact A0]. }
    destruct HP as [[new [N1 N2]] Hfin]. destruct (Hfin eq_refl) as [F1 [F2 F3]].
    exists new. split; [exact N1|]. intros c D b HcD Hb Hsk.
    unfold itg_pk_pinv in N2. rewrite F1, F2 in N2. cbn [itg_out] in N2.
    destruct (itg_pi_status _ _ _ _ _ _ _ N2 c D HcD) as [pre [rest [ED [F L]]]].
    cbn [itg_pend_of find] in F. inversion F as [pre0 F' E1 E2|]; subst.
    apply in_app_or in Hb. destruct Hb as [Hb|Hb].
    + rewrite Forall_forall in F'. destruct (F' b Hb) as [S|S]; [rewrite S in Hsk; discriminate|left; exact S].
    + destruct L as [A|[A|[A|A]]].
      * destruct A as [[] _].
      * destruct A as [A1 _]. destruct F3 as [F3|[c0 F3]]; rewrite F3 in A1; [discriminate|].
        injection A1 as _ <-. destruct Hb.
      * destruct A as [A1 _]. right. unfold itg_pk_pending.
        destruct (itg_pk_unapp (itg_rn_pk r')) as [|e un] eqn:Eu; [discriminate|].
        eexists. exists rest. split; [reflexivity|]. cbn [itg_p_update u_blocks]. split; [exact A1|exact Hb].
      * destruct A as [-> _]. destruct Hb.
Qed.

(* ================================================================================================ *)
(* 8. (d) completeness of Update::integrate on a causally closed update                             *)
(* ================================================================================================ *)
Fixpoint itg_last_opt (l : list block) : option block :=
  match l with
  | [] => None
  | [x] => Some x
  | _ :: r => itg_last_opt r
  end.

Lemma itg_last_opt_cons : forall x y r, itg_last_opt (x :: y :: r) = itg_last_opt (y :: r).
Proof. reflexivity. Qed.
Lemma itg_last_opt_in : forall l s, itg_last_opt l = Some s -> In s l.
Proof.
  induction l as [|x r IH]; intros s H; [discriminate|]. destruct r as [|y r'].
  - injection H as <-. left. reflexivity.
  - right. apply IH. exact H.
Qed.
Lemma itg_last_opt_some : forall l, l <> [] -> exists s, itg_last_opt l = Some s.
Proof.
  induction l as [|x r IH]; intros H; [contradiction|]. destruct r as [|y r'].
  - exists x. reflexivity.
  - destruct (IH ltac:(discriminate)) as [s Hs]. exists s. exact Hs.
Qed.

Lemma itg_pend_of_self : forall out s, NoDup (map itg_client out) -> In s out -> itg_pend_of (itg_client s) out = Some s.
Proof.
  intros out s Hnd Hin. destruct (itg_pend_of (itg_client s) out) as [s'|] eqn:E.
  - destruct (itg_pend_of_in _ _ _ E) as [A B]. f_equal. apply (itg_nodup_map_inj _ _ itg_client out s' s Hnd A Hin B).
  - unfold itg_pend_of in E. apply (find_none _ _ E s) in Hin. rewrite N.eqb_refl in Hin. discriminate.
Qed.

Lemma itg_pk_next_unapp : forall pk, itg_pk_unapp (snd (itg_pk_next pk)) = itg_pk_unapp pk.
Proof.
  intros pk. unfold itg_pk_next. destruct (itg_pk_stack pk); [|reflexivity].
  destruct (itg_pk_latest pk) as [[c [|x r]]|]; try reflexivity.
  - destruct (itg_pk_next_client _ _ _) as [[[n cs] store] latest]. reflexivity.
  - destruct (itg_pk_next_client _ _ _) as [[[n cs] store] latest]. reflexivity.
Qed.

Lemma itg_next_client_lat : forall cs store latest n cs' store' latest' b,
  (forall c d x, itg_get store c = Some d -> In x d -> itg_client x = c) ->
  itg_pk_next_client cs store latest = (n, cs', store', latest') -> n = Some b ->
  itg_lat_is latest' (itg_client b).
Proof.
  induction cs as [|c cs IH]; intros store latest n cs' store' latest' b Hcl H Hn; cbn [itg_pk_next_client] in H.
  - injection H as <- _ _ _. discriminate.
  - assert (Hdel : forall c0 d x, itg_get (itg_del store c) c0 = Some d -> In x d -> itg_client x = c0).
    { intros c0 d x Hg Hx. destruct (N.eq_dec c0 c) as [->|Hne]; [rewrite itg_get_del_same in Hg; discriminate|].
      rewrite itg_get_del_other in Hg by exact Hne. apply (Hcl _ _ _ Hg Hx). }
    destruct (itg_get store c) as [[|x r]|] eqn:Eg.
    + apply (IH _ _ _ _ _ _ b Hdel H Hn).
    + injection H as <- _ _ <-. injection Hn as <-. exists r. f_equal. f_equal. symmetry.
      apply (Hcl c (x :: r) x Eg). left. reflexivity.
    + apply (IH _ _ _ _ _ _ b Hdel H Hn).
Qed.

(* what next() does to the stack and to `latest` *)
Lemma itg_pk_next_stack : forall pk,
  (forall c d x, itg_get (itg_pk_store pk) c = Some d -> In x d -> itg_client x = c) ->
  (forall c d x, itg_pk_latest pk = Some (c, d) -> In x d -> itg_client x = c) ->
  match itg_pk_stack pk with
  | x :: s => fst (itg_pk_next pk) = Some x /\ itg_pk_stack (snd (itg_pk_next pk)) = s /\
              itg_pk_latest (snd (itg_pk_next pk)) = itg_pk_latest pk
  | [] => itg_pk_stack (snd (itg_pk_next pk)) = [] /\
          forall b, fst (itg_pk_next pk) = Some b -> itg_lat_is (itg_pk_latest (snd (itg_pk_next pk))) (itg_client b)
  end.
Proof.
  intros pk Hs Hl. unfold itg_pk_next. destruct (itg_pk_stack pk) as [|x s]; [|repeat split].
  destruct (itg_pk_latest pk) as [[c [|x r]]|] eqn:El.
  - destruct (itg_pk_next_client (itg_pk_clients pk) (itg_pk_store pk) (Some (c, []))) as [[[n cs] store] latest] eqn:E.
    cbn [fst snd itg_pk_stack itg_pk_latest]. split; [reflexivity|]. intros b Hb. apply (itg_next_client_lat _ _ _ _ _ _ _ b Hs E Hb).
  - cbn [fst snd itg_pk_stack itg_pk_latest]. split; [reflexivity|]. intros b Hb. injection Hb as <-. exists r.
    f_equal. f_equal. symmetry. apply (Hl c (x :: r) x eq_refl). left. reflexivity.
  - destruct (itg_pk_next_client (itg_pk_clients pk) (itg_pk_store pk) None) as [[[n cs] store] latest] eqn:E.
    cbn [fst snd itg_pk_stack itg_pk_latest]. split; [reflexivity|]. intros b Hb. apply (itg_next_client_lat _ _ _ _ _ _ _ b Hs E Hb).
Qed.

Lemma itg_pk_switch_success : forall pk b m b' r,
  itg_get (itg_pk_store pk) (cl m) = Some (b' :: r) ->
  existsb (fun s => itg_client s =? cl m) (b :: itg_pk_stack pk) = false ->
  itg_pk_switch pk b m =
  (Some b', itg_mkpicker (itg_put (itg_pk_store pk) (cl m) r) (itg_pk_latest pk) (b :: itg_pk_stack pk) (itg_pk_clients pk)
              (itg_sv_set_min (itg_pk_missing pk) (cl m) (ck m)) (itg_pk_unapp pk)).
Proof. intros pk b m b' r Hg He. unfold itg_pk_switch. rewrite Hg, He. reflexivity. Qed.

Section ItgComplete.
  Variable bs : list (N * list block).
  Variable blocks0 : list (N * list itg_seg).
  Variable log0 : list block.
  Variable rank : block -> nat.

  Definition itg_in_bs (b : block) : Prop := exists c D, In (c, D) bs /\ In b D.

  Hypothesis Hok : itg_update_ok bs.
  Hypothesis Hagree0 : forall i, itg_has blocks0 i = itg_log_has log0 i.
  (* every dependency id is integrated already, or lies in a block of the update that is ranked lower *)
  Hypothesis R1 : forall y, itg_in_bs y -> itg_is_skip y = false -> forall dep, In dep (itg_deps y) ->
    itg_has blocks0 dep = true \/
    exists x, itg_in_bs x /\ itg_is_skip x = false /\ (rank x < rank y)%nat /\ itg_covers x dep = true.
  (* the ranking respects the order of each client's blocks *)
  Hypothesis R2 : forall c D p x q y r, In (c, D) bs -> D = p ++ x :: q ++ y :: r ->
    itg_is_skip x = false -> itg_is_skip y = false -> (rank x < rank y)%nat.

  Definition itg_D_P (next : option block) (r : itg_run) : Prop :=
    itg_bl_P log0 next r /\ itg_C_P bs log0 next r /\
    itg_pk_unapp (itg_rn_pk r) = [] /\
    (forall b, next = Some b -> itg_in_bs b) /\ itg_pk_all itg_in_bs (itg_rn_pk r) /\
    (forall s, In s (itg_pk_stack (itg_rn_pk r)) -> itg_is_skip s = false) /\
    (forall b, next = Some b -> itg_is_skip b = false -> forall t, In t (itg_pk_stack (itg_rn_pk r)) -> (rank b < rank t)%nat) /\
    StronglySorted (fun x y => (rank x < rank y)%nat) (itg_pk_stack (itg_rn_pk r)) /\
    (forall s, itg_last_opt (itg_out next (itg_pk_stack (itg_rn_pk r))) = Some s ->
       itg_lat_is (itg_pk_latest (itg_rn_pk r)) (itg_client s)).

  (* the heart: a missing dependency always leads to a successful switch *)
  Lemma itg_switch_succeeds : forall b r m, itg_D_P (Some b) r -> itg_is_skip b = false ->
    itg_missing_dep (itg_rn_blocks r) b = Some m ->
    exists b' rr, itg_get (itg_pk_store (itg_rn_pk r)) (cl m) = Some (b' :: rr) /\
      existsb (fun s => itg_client s =? cl m) (b :: itg_pk_stack (itg_rn_pk r)) = false /\
      (itg_is_skip b' = false -> (rank b' < rank b)%nat).
  Proof.
    intros b r m [[I [C [new N0]]] [[[new' [N1 N2]] _] [Hun [Hnb [Hall [Hsk [Hch1 [Hch2 Hbot]]]]]]]] Esk Em.
    assert (new' = new) as -> by (rewrite N0 in N1; apply app_inv_tail in N1; symmetry; exact N1).
    destruct (itg_missing_dep_some _ _ _ Em) as [Hmd Hmiss].
    rewrite (itg_is_missing_spec _ _ (itg_inv_ok _ _ I)) in Hmiss.
    assert (Hhas : itg_has (itg_rn_blocks r) m = false) by (destruct (itg_has (itg_rn_blocks r) m); [discriminate|reflexivity]).
    clear Hmiss.
    assert (Hlog : itg_log_has (new ++ log0) m = false) by (rewrite <- N0, <- (itg_inv_agree _ _ I); exact Hhas).
    rewrite itg_log_has_app in Hlog. apply orb_false_elim in Hlog. destruct Hlog as [Hlnew Hl0].
    destruct (R1 b (Hnb b eq_refl) Esk m Hmd) as [H0|[x [Hx1 [Hx2 [Hx3 Hx4]]]]]; [rewrite Hagree0, Hl0 in H0; discriminate|].
    assert (Hxnew : ~ In x new).
    { intros Hin. assert (Ht : itg_log_has new m = true) by (apply existsb_exists; exists x; split; assumption).
      rewrite Ht in Hlnew. discriminate. }
    destruct Hx1 as [c [D [HcD HxD]]].
    assert (Hc : c = cl m).
    { rewrite <- (proj2 Hok c D x HcD HxD). unfold itg_covers in Hx4. lia. }
    subst c. set (mc := cl m) in *.
    unfold itg_pk_pinv in N2. cbn [itg_out] in N2.
    set (stack := itg_pk_stack (itg_rn_pk r)) in *.
    destruct (itg_pi_status _ _ _ _ _ _ _ N2 mc D HcD) as [pre [rest [ED [F L]]]].
    assert (Hnsd : ~ itg_sdone new x) by (intros [A|A]; [rewrite A in Hx2; discriminate|contradiction]).
    (* no block of client mc is out of its deque *)
    assert (K : forall s, In s (b :: stack) -> itg_client s = mc -> False).
    { intros s Hs Hsc.
      assert (Hsns : itg_is_skip s = false) by (destruct Hs as [<-|Hs]; [exact Esk|apply Hsk; exact Hs]).
      assert (Hrs : (rank b <= rank s)%nat).
      { destruct Hs as [<-|Hs]; [lia|]. specialize (Hch1 b eq_refl Esk s Hs). lia. }
      pose proof (itg_pend_of_self _ s (itg_pi_out _ _ _ _ _ _ _ N2) Hs) as Hp. rewrite Hsc in Hp.
      rewrite Hp in F. inversion F as [|s0 pre' F' E1 E2]; subst.
      rewrite <- app_assoc in HxD. apply in_app_or in HxD. destruct HxD as [HxD|HxD].
      - rewrite Forall_forall in F'. apply Hnsd. apply F'. exact HxD.
      - cbn [app] in HxD. destruct HxD as [<-|HxD]; [lia|].
        apply in_split in HxD. destruct HxD as [q [r' Hq]].
        assert (Hr : (rank s < rank x)%nat).
        { apply (R2 mc _ pre' s q x r' HcD); [rewrite <- app_assoc, Hq; reflexivity|exact Hsns|exact Hx2]. }
        lia. }
    assert (Hnin : ~ In mc (map itg_client (b :: stack))).
    { intros Hin. apply in_map_iff in Hin. destruct Hin as [s [Hs1 Hs2]]. apply (K s Hs2 Hs1). }
    rewrite (itg_pend_of_none _ _ Hnin) in F. inversion F as [pre0 F' E1 E2|]; subst.
    apply in_app_or in HxD. destruct HxD as [HxD|HxD]; [rewrite Forall_forall in F'; exfalso; apply Hnsd; apply F'; exact HxD|].
    assert (Hex : existsb (fun s => itg_client s =? mc) (b :: stack) = false).
    { destruct (existsb (fun s => itg_client s =? mc) (b :: stack)) eqn:E; [|reflexivity].
      apply existsb_exists in E. destruct E as [s [Hs1 Hs2]]. exfalso. apply (K s Hs1). apply N.eqb_eq. exact Hs2. }
    destruct L as [A|[A|[A|A]]].
    - destruct A as [_ [A2 _]]. destruct rest as [|b' rr]; [destruct HxD|]. exists b', rr. split; [exact A2|]. split; [exact Hex|].
      intros Hb'. destruct HxD as [<-|HxD]; [exact Hx3|].
      apply in_split in HxD. destruct HxD as [q [r' Hq]].
      assert (Hr : (rank b' < rank x)%nat) by (apply (R2 mc _ pre b' q x r' HcD); [rewrite Hq; reflexivity|exact Hb'|exact Hx2]).
      lia.
    - exfalso. destruct A as [A1 _].
      destruct (itg_last_opt_some (b :: stack) ltac:(discriminate)) as [s0 Hs0].
      destruct (Hbot s0 Hs0) as [d Hd]. fold stack in Hs0. rewrite A1 in Hd. injection Hd as Hd _.
      apply (K s0 (itg_last_opt_in _ _ Hs0)). symmetry. exact Hd.
    - exfalso. destruct A as [A1 _]. rewrite Hun in A1. discriminate.
    - destruct A as [-> _]. destruct HxD.
  Qed.

  (* the parts of the invariant that concern the picker, across next() *)
  Lemma itg_D_next_parts : forall pk new,
    itg_pk_pinv bs None pk new ->
    itg_pk_unapp pk = [] -> itg_pk_all itg_in_bs pk ->
    (forall s, In s (itg_pk_stack pk) -> itg_is_skip s = false) ->
    StronglySorted (fun x y => (rank x < rank y)%nat) (itg_pk_stack pk) ->
    (forall s, itg_last_opt (itg_pk_stack pk) = Some s -> itg_lat_is (itg_pk_latest pk) (itg_client s)) ->
    let np := itg_pk_next pk in
    itg_pk_unapp (snd np) = [] /\
    (forall b, fst np = Some b -> itg_in_bs b) /\ itg_pk_all itg_in_bs (snd np) /\
    (forall s, In s (itg_pk_stack (snd np)) -> itg_is_skip s = false) /\
    (forall b, fst np = Some b -> itg_is_skip b = false -> forall t, In t (itg_pk_stack (snd np)) -> (rank b < rank t)%nat) /\
    StronglySorted (fun x y => (rank x < rank y)%nat) (itg_pk_stack (snd np)) /\
    (forall s, itg_last_opt (itg_out (fst np) (itg_pk_stack (snd np))) = Some s ->
       itg_lat_is (itg_pk_latest (snd np)) (itg_client s)).
  Proof.
    intros pk new Hpi Hun Hall Hsk Hss Hbot np.
    destruct (itg_pk_next_all itg_in_bs pk Hall) as [A1 A2]. fold np in A1, A2.
    pose proof (itg_pk_next_stack pk (itg_pi_store_cl _ _ _ _ _ _ _ Hpi) (itg_pi_lat_cl _ _ _ _ _ _ _ Hpi)) as Hst. fold np in Hst.
    split; [unfold np; rewrite itg_pk_next_unapp; exact Hun|]. split; [exact A1|]. split; [exact A2|].
    destruct (itg_pk_stack pk) as [|x s] eqn:Es.
    - destruct Hst as [S1 S2]. rewrite S1. split; [intros t []|]. split; [intros b _ _ t []|]. split; [constructor|].
      intros s0 Hs0. destruct (fst np) as [b0|] eqn:En; cbn [itg_out itg_last_opt] in Hs0; [|discriminate].
      injection Hs0 as <-. apply S2. reflexivity.
    - destruct Hst as [S1 [S2 S3]]. rewrite S1, S2, S3. inversion Hss as [|x0 s0 Hss' Hfa]; subst.
      split; [intros t Ht; apply Hsk; right; exact Ht|]. split.
      + intros b Hb _ t Ht. injection Hb as <-. rewrite Forall_forall in Hfa. apply Hfa. exact Ht.
      + split; [exact Hss'|]. cbn [itg_out]. exact Hbot.
  Qed.

  Lemma itg_loop_D : forall fuel next r r', itg_D_P next r -> itg_loop fuel next r = itg_ok r' -> itg_D_P None r'.
  Proof.
    intros fuel next r r' H0 H.
    apply (itg_loop_rule itg_D_P) with (fuel := fuel) (next := next) (r := r); [| | |exact H0|exact H].
    - (* a Skip is dropped *)
      intros b r0 HD Esk np. destruct HD as [Hbl [HC [Hun [Hnb [Hall [Hsk [Hch1 [Hch2 Hbot]]]]]]]].
      pose proof (itg_bl_P_skip _ b r0 Hbl) as Hbl'. pose proof (itg_C_P_skip bs _ b r0 HC Esk) as HC'.
      destruct HC as [[new [N1 N2]] _].
      assert (Hc : itg_pk_pinv bs None (itg_rn_pk r0) new).
      { unfold itg_pk_pinv in *. cbn [itg_out] in *. apply (itg_pinv_consume bs b _ _ _ _ _ new new); [tauto|left; exact Esk|exact N2]. }
      assert (Hbot' : forall s, itg_last_opt (itg_pk_stack (itg_rn_pk r0)) = Some s -> itg_lat_is (itg_pk_latest (itg_rn_pk r0)) (itg_client s)).
      { intros s Hs. apply Hbot. cbn [itg_out]. destruct (itg_pk_stack (itg_rn_pk r0)) as [|y r1]; [discriminate|].
        rewrite itg_last_opt_cons. exact Hs. }
      destruct (itg_D_next_parts _ new Hc Hun Hall Hsk Hch2 Hbot') as [D1 [D2 [D3 [D4 [D5 [D6 D7]]]]]].
      unfold itg_D_P. cbn [itg_rn_pk]. split; [exact Hbl'|]. split; [exact HC'|]. split; [exact D1|]. split; [exact D2|].
      split; [exact D3|]. split; [exact D4|]. split; [exact D5|]. split; [exact D6|exact D7].
    - (* switch: it succeeds *)
      intros b r0 m HD Esk Em np.
      destruct (itg_switch_succeeds b r0 m HD Esk Em) as [b' [rr [Hg [Hex Hrk]]]].
      pose proof (itg_pk_switch_success (itg_rn_pk r0) b m b' rr Hg Hex) as Hsw.
      destruct HD as [Hbl [HC [Hun [Hnb [Hall [Hsk [Hch1 [Hch2 Hbot]]]]]]]].
      pose proof (itg_bl_P_switch _ b r0 m Hbl) as Hbl'.
      pose proof (itg_C_P_switch bs _ b r0 m (itg_state1 r0 (itg_client b)) HC) as HC'.
      destruct (itg_pk_switch_all itg_in_bs _ b m Hall (Hnb b eq_refl)) as [A1 A2].
      unfold np. unfold itg_D_P. cbn [itg_rn_pk]. rewrite Hsw in *. cbn [fst snd itg_pk_unapp itg_pk_stack itg_pk_latest itg_out] in *.
      split; [exact Hbl'|]. split; [exact HC'|]. split; [exact Hun|]. split; [exact A1|]. split; [exact A2|].
      split; [intros s [<-|Hs]; [exact Esk|apply Hsk; exact Hs]|]. split; [|split].
      + intros b0 Hb0 Hsk0 t Ht. injection Hb0 as <-. specialize (Hrk Hsk0). destruct Ht as [<-|Ht]; [exact Hrk|].
        specialize (Hch1 b eq_refl Esk t Ht). lia.
      + constructor; [exact Hch2|]. apply Forall_forall. intros t Ht. apply (Hch1 b eq_refl Esk t Ht).
      + intros s Hs. apply Hbot. rewrite itg_last_opt_cons in Hs. exact Hs.
    - (* the block is integrated *)
      intros b r0 blocks1 blocks2 HD Esk Em c lc E1 E2 np.
      destruct HD as [Hbl [HC [Hun [Hnb [Hall [Hsk [Hch1 [Hch2 Hbot]]]]]]]].
      pose proof (itg_bl_P_integ _ b r0 blocks1 blocks2 Hbl Esk Em E1 E2) as Hbl'.
      pose proof (itg_C_P_integ bs _ b r0 blocks2
                    (itg_put (itg_state1 r0 c) c (N.max lc (itg_clock b + block_len b))) HC) as HC'.
      destruct HC as [[new [N1 N2]] _].
      assert (Hc : itg_pk_pinv bs None (itg_rn_pk r0) (b :: new)).
      { unfold itg_pk_pinv in *. cbn [itg_out] in *.
        apply (itg_pinv_consume bs b _ _ _ _ _ new (b :: new)); [intros x Hx; right; exact Hx|right; left; reflexivity|exact N2]. }
      assert (Hbot' : forall s, itg_last_opt (itg_pk_stack (itg_rn_pk r0)) = Some s -> itg_lat_is (itg_pk_latest (itg_rn_pk r0)) (itg_client s)).
      { intros s Hs. apply Hbot. cbn [itg_out]. destruct (itg_pk_stack (itg_rn_pk r0)) as [|y r1]; [discriminate|].
        rewrite itg_last_opt_cons. exact Hs. }
      destruct (itg_D_next_parts _ (b :: new) Hc Hun Hall Hsk Hch2 Hbot') as [D1 [D2 [D3 [D4 [D5 [D6 D7]]]]]].
      unfold itg_D_P. cbn [itg_rn_pk]. split; [exact Hbl'|]. split; [exact HC'|]. split; [exact D1|]. split; [exact D2|].
      split; [exact D3|]. split; [exact D4|]. split; [exact D5|]. split; [exact D6|exact D7].
  Qed.

  (* (d) for Update::integrate *)
  Theorem itg_integrate_complete_sec : forall blocks' log' rem, itg_inv_bl blocks0 log0 ->
    itg_integrate blocks0 log0 bs = itg_ok (blocks', log', rem) ->
    rem = None /\ exists new, log' = new ++ log0 /\
      forall c D b, In (c, D) bs -> In b D -> itg_is_skip b = false -> In b new.
  Proof.
    intros blocks' log' rem Hinv H.
    destruct (itg_integrate_conserves _ _ _ _ _ _ Hok H) as [new [N1 N2]].
    assert (Hrem : rem = None).
    { unfold itg_integrate in H. destruct bs as [|e0 bs0] eqn:Eb; [injection H as _ _ <-; reflexivity|].
      rewrite <- Eb in *. set (np := itg_pk_next (itg_pk_new bs)) in *.
      destruct (itg_loop (itg_loop_fuel bs) (fst np) (itg_mkrun blocks0 log0 [] (snd np))) as [r'| |] eqn:E;
        cbn [itg_bind] in H; try discriminate.
      injection H as _ _ <-.
      pose proof (itg_pk_new_pinv bs Hok) as Hp0.
      destruct (itg_pk_next_pinv bs _ [] Hp0) as [A0 B0]. fold np in A0, B0.
      assert (Hall0 : itg_pk_all itg_in_bs (itg_pk_new bs)).
      { unfold itg_pk_all, itg_pk_new. cbn [itg_pk_store itg_pk_latest itg_pk_stack itg_pk_unapp].
        split; [|split; [intros c d Hc; discriminate|split; [intros b []|intros e []]]].
        intros [c D] He b Hb. exists c, D. split; assumption. }
      destruct (itg_D_next_parts (itg_pk_new bs) [] Hp0 eq_refl Hall0 ltac:(intros s [])
                  ltac:(constructor) ltac:(intros s Hs; discriminate)) as [D1 [D2 [D3 [D4 [D5 [D6 D7]]]]]].
      fold np in D1, D2, D3, D4, D5, D6, D7.
      assert (HD0 : itg_D_P (fst np) (itg_mkrun blocks0 log0 [] (snd np))).
      { unfold itg_D_P. cbn [itg_rn_pk]. split; [|split].
        - split; [exact Hinv|]. split; [intros c v Hv; discriminate|exists []; reflexivity].
        - split; [exists []; split; [reflexivity|exact A0]|exact B0].
        - split; [exact D1|]. split; [exact D2|]. split; [exact D3|]. split; [exact D4|]. split; [exact D5|]. split; [exact D6|exact D7]. }
      destruct (itg_loop_D _ _ _ _ HD0 E) as [_ [_ [Hun _]]].
      unfold itg_pk_pending. rewrite Hun. reflexivity. }
    split; [exact Hrem|]. exists new. split; [exact N1|]. intros c D b HcD Hb Hsk.
    destruct (N2 c D b HcD Hb Hsk) as [A|[p [rest [A _]]]]; [exact A|]. rewrite Hrem in A. discriminate.
  Qed.
End ItgComplete.

(* ================================================================================================ *)
(* 9. BlockSet::exclude on well-formed input: what is known is cut out, nothing else                *)
(* ================================================================================================ *)
Fixpoint itg_dend (a : N) (d : list block) : N := match d with [] => a | b :: r => itg_dend (itg_end b) r end.
(* clock k lies in a non-Skip block of the deque *)
Definition itg_dcov (d : list block) (k : N) : bool :=
  existsb (fun b => negb (itg_is_skip b) && (itg_clock b <=? k) && (k <? itg_end b)) d.

Lemma itg_deque_from_cons : forall c a b r, itg_deque_from c a (b :: r) = true ->
  itg_client b = c /\ itg_clock b = a /\ 0 < block_len b /\ itg_deque_from c (itg_end b) r = true.
Proof.
  intros c a b r H. cbn [itg_deque_from] in H. apply andb_prop in H. destruct H as [H H4].
  apply andb_prop in H. destruct H as [H H3]. apply andb_prop in H. destruct H as [H1 H2].
  repeat split; [lia|lia|lia|exact H4].
Qed.
Lemma itg_deque_from_cons_intro : forall c a b r, itg_client b = c -> itg_clock b = a -> 0 < block_len b ->
  itg_deque_from c (itg_end b) r = true -> itg_deque_from c a (b :: r) = true.
Proof. intros c a b r H1 H2 H3 H4. cbn [itg_deque_from]. rewrite H4. lia. Qed.

Lemma itg_deque_from_app : forall c x y a,
  itg_deque_from c a (x ++ y) = itg_deque_from c a x && itg_deque_from c (itg_dend a x) y.
Proof.
  intros c. induction x as [|b r IH]; intros y a; cbn [app itg_deque_from itg_dend andb]; [reflexivity|].
  rewrite IH, !andb_assoc. reflexivity.
Qed.
Lemma itg_dend_app : forall x y a, itg_dend a (x ++ y) = itg_dend (itg_dend a x) y.
Proof. induction x as [|b r IH]; intros y a; cbn [app itg_dend]; [reflexivity|apply IH]. Qed.
Lemma itg_dcov_app : forall x y k, itg_dcov (x ++ y) k = itg_dcov x k || itg_dcov y k.
Proof. intros. unfold itg_dcov. apply existsb_app. Qed.
Lemma itg_dend_ge : forall c d a, itg_deque_from c a d = true -> a <= itg_dend a d.
Proof.
  intros c. induction d as [|b r IH]; intros a H; [cbn; lia|]. cbn [itg_dend].
  destruct (itg_deque_from_cons _ _ _ _ H) as [_ [Ha [Hl H2]]]. specialize (IH _ H2). unfold itg_end in *. lia.
Qed.
Lemma itg_dcov_range : forall c d a k, itg_deque_from c a d = true -> itg_dcov d k = true -> a <= k < itg_dend a d.
Proof.
  intros c. induction d as [|b r IH]; intros a k H Hk; [discriminate|]. cbn [itg_dend].
  destruct (itg_deque_from_cons _ _ _ _ H) as [_ [Ha [Hl H2]]].
  pose proof (itg_dend_ge c r _ H2) as Hge.
  unfold itg_dcov in Hk. cbn [existsb] in Hk. apply orb_prop in Hk. destruct Hk as [Hk|Hk].
  - unfold itg_end in *. lia.
  - specialize (IH _ k H2 Hk). unfold itg_end in *. lia.
Qed.
Lemma itg_deque_nonempty : forall c d a, itg_deque_from c a d = true -> a < itg_dend a d -> d <> [].
Proof. intros c d a H Hlt ->. cbn in Hlt. lia. Qed.

(* split_at on a contiguous deque *)
Lemma itg_split_at_contig : forall c d a k, itg_deque_from c a d = true -> itg_cf_list d -> a <= k < itg_dend a d ->
  exists L R, itg_split_at d k = Some (L ++ R, length L) /\
    itg_deque_from c a L = true /\ itg_dend a L = k /\ itg_deque_from c k R = true /\ itg_dend k R = itg_dend a d /\
    itg_cf_list (L ++ R) /\ forall j, itg_dcov (L ++ R) j = itg_dcov d j.
Proof.
  intros c. induction d as [|b r IH]; intros a k H Hcf Hk; [cbn in Hk; lia|].
  cbn [itg_dend] in Hk. inversion Hcf as [|b0 r0 Hb Hr]; subst.
  destruct (itg_deque_from_cons _ _ _ _ H) as [Hc [Ha [Hl H2]]].
  cbn [itg_split_at]. destruct ((itg_clock b <=? k) && (k <? itg_end b)) eqn:E.
  - destruct (k =? itg_clock b) eqn:E2.
    + exists [], (b :: r). cbn [app length itg_deque_from itg_dend].
      assert (k = a) by lia. subst k. repeat split; try assumption; try reflexivity.
    + unfold itg_end, itg_clock in E, E2, Ha. assert (Hk0 : 0 < k - ck (block_id b) < block_len b) by lia.
      destruct (itg_splice_spec b _ Hb Hk0) as [S1 [S2 [S3 [S4 [S5 [S6 [S7 S8]]]]]]].
      unfold itg_clock. set (lr := itg_splice b (k - ck (block_id b))) in *.
      exists [fst lr], (snd lr :: r). cbn [app length].
      split; [reflexivity|]. split; [|split; [|split; [|split; [|split]]]].
      * apply itg_deque_from_cons_intro; [unfold itg_client in *; rewrite S3; exact Hc|unfold itg_clock; rewrite S3; exact Ha|lia|reflexivity].
      * cbn [itg_dend]. unfold itg_end, itg_clock. rewrite S3, S4. lia.
      * apply itg_deque_from_cons_intro; [unfold itg_client in *; rewrite S5; exact Hc|unfold itg_clock; rewrite S5; cbn [ck]; lia|lia|].
        unfold itg_end, itg_clock in *. rewrite S5, S6. cbn [ck].
        replace (ck (block_id b) + (k - ck (block_id b)) + (block_len b - (k - ck (block_id b)))) with (ck (block_id b) + block_len b) by lia.
        exact H2.
      * cbn [itg_dend]. unfold itg_end, itg_clock. rewrite S5, S6. cbn [ck]. f_equal. lia.
      * constructor; [exact S1|]. constructor; [exact S2|exact Hr].
      * intros j. unfold itg_dcov. cbn [existsb]. unfold itg_end, itg_clock. rewrite S3, S4, S5, S6, S7, S8. cbn [ck].
        destruct (itg_is_skip b); cbn [negb andb orb]; [reflexivity|].
        destruct (existsb _ r); [rewrite !orb_true_r; reflexivity|]. rewrite !orb_false_r. lia.
  - assert (Hk' : itg_end b <= k < itg_dend (itg_end b) r) by (unfold itg_end in *; lia).
    destruct (IH _ k H2 Hr Hk') as [L [R [E1 [A1 [A2 [A3 [A4 [A5 A6]]]]]]]]. rewrite E1.
    exists (b :: L), R. cbn [app length itg_dend].
    split; [reflexivity|]. split; [apply itg_deque_from_cons_intro; assumption|]. split; [exact A2|]. split; [exact A3|]. split; [exact A4|]. split.
    + constructor; assumption.
    + intros j. unfold itg_dcov in *. cbn [existsb]. rewrite A6. reflexivity.
Qed.

Lemma itg_split_at_app : forall c L R a k, itg_deque_from c a L = true -> itg_dend a L <= k ->
  itg_split_at (L ++ R) k =
  match itg_split_at R k with Some (R', i) => Some (L ++ R', (length L + i)%nat) | None => None end.
Proof.
  intros c. induction L as [|b r IH]; intros R a k H Hk.
  - cbn [app length]. destruct (itg_split_at R k) as [[R' i]|]; reflexivity.
  - cbn [itg_dend] in Hk. destruct (itg_deque_from_cons _ _ _ _ H) as [_ [Ha [Hl H2]]].
    pose proof (itg_dend_ge c r _ H2) as Hge.
    cbn [app itg_split_at]. assert (E : (itg_clock b <=? k) && (k <? itg_end b) = false) by lia. rewrite E.
    rewrite (IH R _ k H2 Hk). destruct (itg_split_at R k) as [[R' i]|]; reflexivity.
Qed.

Lemma itg_firstn_app_len : forall (A : Type) (x y : list A), firstn (length x) (x ++ y) = x.
Proof. intros A x y. induction x as [|a r IH]; [reflexivity|]. cbn [length app firstn]. rewrite IH. reflexivity. Qed.
Lemma itg_skipn_app_len : forall (A : Type) (x y : list A), skipn (length x) (x ++ y) = y.
Proof. intros A x y. induction x as [|a r IH]; [reflexivity|]. cbn [length app skipn]. exact IH. Qed.

Definition itg_in_range (r : N * N) (j : N) : bool := (fst r <=? j) && (j <? snd r).

Lemma itg_skip_mid_contig : forall c a L R rs re, itg_deque_from c a L = true -> itg_dend a L = rs -> rs < re ->
  itg_deque_from c re R = true ->
  itg_deque_from c a (L ++ BSkip (mkid c rs) (re - rs) :: R) = true /\
  itg_dend a (L ++ BSkip (mkid c rs) (re - rs) :: R) = itg_dend re R.
Proof.
  intros c a L R rs re HL Hd Hlt HR. split.
  - rewrite itg_deque_from_app, HL, Hd. cbn [andb]. apply itg_deque_from_cons_intro; try reflexivity.
    + cbn [block_len]. lia.
    + unfold itg_end, itg_clock. cbn [block_id block_len ck]. replace (rs + (re - rs)) with re by lia. exact HR.
  - rewrite itg_dend_app, Hd. cbn [itg_dend]. unfold itg_end, itg_clock. cbn [block_id block_len ck]. f_equal. lia.
Qed.

Lemma itg_skip_mid_cov : forall L R i n j, itg_dcov (L ++ BSkip i n :: R) j = itg_dcov L j || itg_dcov R j.
Proof. intros. rewrite itg_dcov_app. unfold itg_dcov at 2. cbn [existsb itg_is_skip negb andb orb]. reflexivity. Qed.

Lemma itg_skipn_all2 : forall (A : Type) (l : list A), skipn (length l) l = [].
Proof. intros A l. induction l as [|x r IH]; [reflexivity|exact IH]. Qed.

Lemma itg_excl_range_contig : forall c cs ce d a r,
  itg_deque_from c a d = true -> itg_cf_list d -> cs < ce -> a <= cs -> ce <= itg_dend a d ->
  (forall j, itg_dcov d j = true -> cs <= j < ce) ->
  fst r < snd r -> (a = cs \/ cs < fst r) ->
  exists d' a', itg_excl_range c cs ce d r = itg_ok d' /\
    itg_deque_from c a' d' = true /\ itg_cf_list d' /\ a' <= cs /\ ce <= itg_dend a' d' /\
    (a' = cs \/ cs < snd r) /\
    (forall j, itg_dcov d' j = itg_dcov d j && negb (itg_in_range r j)).
Proof.
  intros c cs ce d a [rs re] Hd Hcf Hlt Ha He Hcov Hr Hlo. cbn [fst snd] in *.
  unfold itg_excl_range, itg_in_range. cbn [fst snd].
  destruct (ce <=? rs) eqn:E1.
  { exists d, a. split; [reflexivity|]. split; [exact Hd|]. split; [exact Hcf|]. split; [exact Ha|]. split; [exact He|].
    split; [destruct Hlo; [left; assumption|right; lia]|].
    intros j. destruct (itg_dcov d j) eqn:Ej; [|reflexivity]. specialize (Hcov j Ej). cbn [andb]. lia. }
  destruct (cs <? rs) eqn:E2.
  - (* the range starts inside the deque *)
    destruct (itg_split_at_contig c d a rs Hd Hcf ltac:(lia)) as [L1 [R1 [S1 [A1 [A2 [A3 [A4 [A5 A6]]]]]]]].
    rewrite S1. cbn [itg_bind fst snd].
    assert (E3 : (re <=? cs) = false) by lia. rewrite E3.
    assert (Hcf1 : itg_cf_list L1 /\ itg_cf_list R1) by (apply Forall_app; exact A5). destruct Hcf1 as [CL1 CR1].
    assert (HcL1 : forall j, itg_dcov L1 j = true -> j < rs).
    { intros j Hj. pose proof (itg_dcov_range c L1 a j A1 Hj). lia. }
    destruct (re <? ce) eqn:E4.
    + rewrite (itg_split_at_app c L1 R1 a re A1 ltac:(lia)).
      destruct (itg_split_at_contig c R1 rs re A3 CR1 ltac:(lia)) as [L2 [R2 [S2 [B1 [B2 [B3 [B4 [B5 B6]]]]]]]].
      rewrite S2. cbn [itg_bind fst snd].
      assert (HL2 : L2 <> []) by (apply (itg_deque_nonempty c L2 rs B1); lia).
      assert (Hlt2 : (length L1 <? length L1 + length L2)%nat = true) by (destruct L2; [contradiction|cbn [length]; lia]).
      rewrite Hlt2. rewrite itg_firstn_app_len.
      replace (L1 ++ L2 ++ R2) with ((L1 ++ L2) ++ R2) by (rewrite app_assoc; reflexivity).
      replace (length L1 + length L2)%nat with (length (L1 ++ L2)) by (rewrite app_length; reflexivity).
      rewrite itg_skipn_app_len.
      destruct (itg_skip_mid_contig c a L1 R2 rs re A1 A2 Hr B3) as [C1 C2].
      assert (Hcf2 : itg_cf_list L2 /\ itg_cf_list R2) by (apply Forall_app; exact B5). destruct Hcf2 as [CL2 CR2].
      exists (L1 ++ BSkip (mkid c rs) (re - rs) :: R2), a. split; [reflexivity|]. split; [exact C1|].
      split; [apply Forall_app; split; [exact CL1|constructor; [reflexivity|exact CR2]]|]. split; [exact Ha|].
      split; [rewrite C2, B4, A4; exact He|]. split; [right; lia|].
      intros j. rewrite itg_skip_mid_cov, <- A6, itg_dcov_app, <- B6, itg_dcov_app.
      assert (HcL2 : itg_dcov L2 j = true -> rs <= j < re) by (intros Hj; pose proof (itg_dcov_range c L2 rs j B1 Hj); lia).
      assert (HcR2 : itg_dcov R2 j = true -> re <= j) by (intros Hj; pose proof (itg_dcov_range c R2 re j B3 Hj); lia).
      specialize (HcL1 j).
      destruct (itg_dcov L1 j), (itg_dcov L2 j), (itg_dcov R2 j); cbn [orb andb]; try specialize (HcL1 eq_refl);
        try specialize (HcL2 eq_refl); try specialize (HcR2 eq_refl); lia.
    + cbn [itg_bind fst snd].
      assert (HR1 : R1 <> []) by (apply (itg_deque_nonempty c R1 rs A3); lia).
      assert (Hlt2 : (length L1 <? length (L1 ++ R1))%nat = true) by (rewrite app_length; destruct R1; [contradiction|cbn [length]; lia]).
      rewrite Hlt2, itg_firstn_app_len, itg_skipn_all2.
      destruct (itg_skip_mid_contig c a L1 [] rs re A1 A2 Hr eq_refl) as [C1 C2].
      exists (L1 ++ [BSkip (mkid c rs) (re - rs)]), a. split; [reflexivity|]. split; [exact C1|].
      split; [apply Forall_app; split; [exact CL1|constructor; [reflexivity|constructor]]|]. split; [exact Ha|].
      split; [rewrite C2; cbn [itg_dend]; lia|]. split; [right; lia|].
      intros j. rewrite itg_skip_mid_cov, <- A6, itg_dcov_app.
      assert (HcR1 : itg_dcov R1 j = true -> rs <= j) by (intros Hj; pose proof (itg_dcov_range c R1 rs j A3 Hj); lia).
      assert (Hcj : itg_dcov R1 j = true -> j < ce).
      { intros Hj. apply (Hcov j). rewrite <- A6, itg_dcov_app, Hj. apply orb_true_r. }
      specialize (HcL1 j). change (itg_dcov [] j) with false.
      destruct (itg_dcov L1 j), (itg_dcov R1 j); cbn [orb andb]; try specialize (HcL1 eq_refl);
        try specialize (HcR1 eq_refl); try specialize (Hcj eq_refl); lia.
  - (* the range starts at or before the first block: nothing has been cut before, a = cs *)
    assert (a = cs) by (destruct Hlo; [assumption|lia]). subst a. cbn [itg_bind fst snd].
    destruct (re <=? cs) eqn:E3.
    { exists d, cs. split; [reflexivity|]. split; [exact Hd|]. split; [exact Hcf|]. split; [lia|]. split; [exact He|].
      split; [left; reflexivity|].
      intros j. destruct (itg_dcov d j) eqn:Ej; [|reflexivity]. specialize (Hcov j Ej). cbn [andb]. lia. }
    destruct (re <? ce) eqn:E4.
    + destruct (itg_split_at_contig c d cs re Hd Hcf ltac:(lia)) as [L2 [R2 [S2 [B1 [B2 [B3 [B4 [B5 B6]]]]]]]].
      rewrite S2. cbn [itg_bind fst snd].
      assert (HL2 : L2 <> []) by (apply (itg_deque_nonempty c L2 cs B1); lia).
      assert (Hlt2 : (0 <? length L2)%nat = true) by (destruct L2; [contradiction|cbn [length]; lia]).
      rewrite Hlt2. cbn [firstn app]. rewrite itg_skipn_app_len.
      destruct (itg_skip_mid_contig c rs [] R2 rs re eq_refl eq_refl Hr B3) as [C1 C2]. cbn [app] in C1, C2.
      assert (Hcf2 : itg_cf_list L2 /\ itg_cf_list R2) by (apply Forall_app; exact B5). destruct Hcf2 as [CL2 CR2].
      exists (BSkip (mkid c rs) (re - rs) :: R2), rs. split; [reflexivity|]. split; [exact C1|].
      split; [constructor; [reflexivity|exact CR2]|]. split; [lia|].
      split; [rewrite C2, B4; exact He|]. split; [right; lia|].
      intros j. change (BSkip (mkid c rs) (re - rs) :: R2) with ([] ++ BSkip (mkid c rs) (re - rs) :: R2).
      rewrite itg_skip_mid_cov, <- B6, itg_dcov_app. change (itg_dcov [] j) with false.
      assert (HcL2 : itg_dcov L2 j = true -> cs <= j < re) by (intros Hj; pose proof (itg_dcov_range c L2 cs j B1 Hj); lia).
      assert (HcR2 : itg_dcov R2 j = true -> re <= j) by (intros Hj; pose proof (itg_dcov_range c R2 re j B3 Hj); lia).
      destruct (itg_dcov L2 j), (itg_dcov R2 j); cbn [orb andb];
        try specialize (HcL2 eq_refl); try specialize (HcR2 eq_refl); lia.
    + cbn [itg_bind fst snd].
      assert (Hne : d <> []) by (apply (itg_deque_nonempty c d cs Hd); lia).
      assert (Hlt2 : (0 <? length d)%nat = true) by (destruct d; [contradiction|cbn [length]; lia]).
      rewrite Hlt2. cbn [firstn app]. rewrite itg_skipn_all2.
      destruct (itg_skip_mid_contig c rs [] [] rs re eq_refl eq_refl Hr eq_refl) as [C1 C2]. cbn [app] in C1, C2.
      exists [BSkip (mkid c rs) (re - rs)], rs. split; [reflexivity|]. split; [exact C1|].
      split; [constructor; [reflexivity|constructor]|]. split; [lia|].
      split; [rewrite C2; cbn [itg_dend]; lia|]. split; [right; lia|].
      intros j. unfold itg_dcov at 1. cbn [existsb itg_is_skip negb andb orb].
      destruct (itg_dcov d j) eqn:Ej; [|reflexivity]. specialize (Hcov j Ej). cbn [andb]. lia.
Qed.

Fixpoint itg_ranges_ok (lo : N) (l : list (N * N)) : Prop :=
  match l with
  | [] => True
  | r :: rest => lo <= fst r /\ fst r < snd r /\ itg_ranges_ok (snd r) rest
  end.
Definition itg_in_ranges (l : list (N * N)) (j : N) : bool := existsb (fun r => itg_in_range r j) l.

Lemma itg_ranges_ok_mono : forall l lo lo', itg_ranges_ok lo l -> lo' <= lo -> itg_ranges_ok lo' l.
Proof. intros [|r rest] lo lo' H Hle; [exact I|]. cbn [itg_ranges_ok] in *. destruct H as [A [B C]]. repeat split; [lia|exact B|exact C]. Qed.

Lemma itg_excl_ranges_contig : forall c cs ce rs d a lo,
  itg_deque_from c a d = true -> itg_cf_list d -> cs < ce -> a <= cs -> ce <= itg_dend a d ->
  (forall j, itg_dcov d j = true -> cs <= j < ce) ->
  itg_ranges_ok lo rs -> (a = cs \/ cs < lo) ->
  exists d' a', itg_excl_ranges c cs ce d rs = itg_ok d' /\
    itg_deque_from c a' d' = true /\ itg_cf_list d' /\ a' <= cs /\ ce <= itg_dend a' d' /\
    (forall j, itg_dcov d' j = itg_dcov d j && negb (itg_in_ranges rs j)).
Proof.
  intros c cs ce. induction rs as [|r rest IH]; intros d a lo Hd Hcf Hlt Ha He Hcov Hro Hlo; cbn [itg_excl_ranges].
  - exists d, a. split; [reflexivity|]. split; [exact Hd|]. split; [exact Hcf|]. split; [exact Ha|]. split; [exact He|].
    intros j. cbn. rewrite andb_true_r. reflexivity.
  - cbn [itg_ranges_ok] in Hro. destruct Hro as [R1 [R2 R3]].
    assert (Hlo' : a = cs \/ cs < fst r) by (destruct Hlo; [left; assumption|right; lia]).
    destruct (itg_excl_range_contig c cs ce d a r Hd Hcf Hlt Ha He Hcov R2 Hlo') as [d1 [a1 [E1 [A1 [A2 [A3 [A4 [A5 A6]]]]]]]].
    rewrite E1. cbn [itg_bind].
    assert (Hcov1 : forall j, itg_dcov d1 j = true -> cs <= j < ce).
    { intros j Hj. rewrite A6 in Hj. apply andb_prop in Hj. apply Hcov. apply Hj. }
    destruct (IH d1 a1 (snd r) A1 A2 Hlt A3 A4 Hcov1 R3 A5) as [d' [a' [E2 [B1 [B2 [B4 [B5 B3]]]]]]].
    exists d', a'. split; [exact E2|]. split; [exact B1|]. split; [exact B2|]. split; [exact B4|]. split; [exact B5|].
    intros j. rewrite B3, A6. unfold itg_in_ranges. cbn [existsb]. rewrite negb_orb, andb_assoc. reflexivity.
Qed.

(* known_state of one client: the ranges are ascending and cover exactly the integrated clocks *)
Lemma itg_minus_skips_spec : forall l a s0, itg_segs_from s0 l = true -> a <= s0 ->
  itg_ranges_ok a (itg_minus_skips a l (itg_clock_from s0 l)) /\
  forall j, itg_in_ranges (itg_minus_skips a l (itg_clock_from s0 l)) j = ((a <=? j) && (j <? s0)) || itg_has_l l j.
Proof.
  induction l as [|g r IH]; intros a s0 H Ha; cbn [itg_minus_skips itg_clock_from itg_segs_from] in *.
  - destruct (a <? s0) eqn:E.
    + split; [cbn; lia|]. intros j. unfold itg_in_ranges, itg_in_range. cbn [existsb fst snd itg_has_l]. rewrite !orb_false_r. reflexivity.
    + split; [exact I|]. intros j. cbn. lia.
  - apply andb_prop in H. destruct H as [H1 H2]. assert (Hs : itg_sg_start g = s0) by lia.
    assert (Hge : s0 <= itg_sg_end g) by (unfold itg_sg_end; lia).
    destruct (itg_sg_skip g) eqn:Esk.
    + destruct (IH (itg_sg_end g) (itg_sg_end g) H2 ltac:(lia)) as [I1 I2]. rewrite Hs. split.
      * destruct (a <? s0) eqn:E; cbn [app itg_ranges_ok fst snd].
        -- split; [lia|]. split; [lia|]. apply (itg_ranges_ok_mono _ _ _ I1). exact Hge.
        -- apply (itg_ranges_ok_mono _ _ _ I1). lia.
      * intros j. unfold itg_in_ranges in *. rewrite existsb_app, I2.
        unfold itg_has_l at 2. cbn [existsb]. rewrite Esk. cbn [negb andb orb].
        fold (itg_has_l r j). destruct (a <? s0) eqn:E; unfold itg_in_range; cbn [existsb fst snd].
        -- destruct (itg_has_l r j); [rewrite !orb_true_r; reflexivity|]. rewrite !orb_false_r. lia.
        -- destruct (itg_has_l r j); [rewrite !orb_true_r; reflexivity|]. rewrite !orb_false_r. lia.
    + destruct (IH a (itg_sg_end g) H2 ltac:(lia)) as [I1 I2]. split; [exact I1|].
      intros j. rewrite I2. unfold itg_has_l at 2. cbn [existsb]. rewrite Esk. cbn [negb andb].
      fold (itg_has_l r j). unfold itg_in_seg. rewrite Hs.
      destruct (itg_has_l r j); [rewrite !orb_true_r; reflexivity|]. rewrite !orb_false_r. lia.
Qed.

Lemma itg_known_spec : forall l, itg_segs_from 0 l = true ->
  itg_ranges_ok 0 (itg_known l) /\ forall j, itg_in_ranges (itg_known l) j = itg_has_l l j.
Proof.
  intros l H. unfold itg_known. rewrite itg_list_clock_from0.
  destruct (itg_minus_skips_spec l 0 0 H ltac:(lia)) as [A B]. split; [exact A|].
  intros j. rewrite B. assert (E : (0 <=? j) && (j <? 0) = false) by lia. rewrite E. reflexivity.
Qed.

Lemma itg_last_dend : forall c d a f, itg_deque_from c a d = true -> d <> [] -> itg_end (last d f) = itg_dend a d.
Proof.
  intros c. induction d as [|b r IH]; intros a f H Hne; [contradiction|].
  destruct (itg_deque_from_cons _ _ _ _ H) as [_ [_ [_ H2]]]. cbn [itg_dend].
  destruct r as [|b' r']; [reflexivity|]. change (last (b :: b' :: r') f) with (last (b' :: r') f).
  apply (IH _ f H2). discriminate.
Qed.

(* (c), trimming: on a well-formed deque and a contiguous block list BlockSet::exclude succeeds, keeps the deque
   contiguous, and removes from the non-Skip blocks exactly the clocks that are integrated *)
Lemma itg_trim_client_correct : forall st c d, itg_blocks_ok st -> itg_deque_wf c d = true -> itg_cf_list d ->
  exists d', itg_trim_client st c d = itg_ok d' /\ itg_deque_wf c d' = true /\ itg_cf_list d' /\
    forall j, itg_dcov d' j = itg_dcov d j && negb (itg_has st (mkid c j)).
Proof.
  intros st c d Hok Hwf Hcf. unfold itg_trim_client, itg_has. cbn [cl ck].
  destruct d as [|f d0] eqn:Ed; [discriminate|]. rewrite <- Ed in *.
  assert (Hd : itg_deque_from c (itg_clock f) d = true) by (rewrite Ed in *; exact Hwf).
  destruct (itg_get st c) as [segs|] eqn:Eg.
  - destruct (Hok c segs Eg) as [Hs _]. destruct (itg_known_spec segs Hs) as [K1 K2].
    assert (Hne : d <> []) by (rewrite Ed; discriminate).
    assert (Hend : itg_end (last d f) = itg_dend (itg_clock f) d) by (apply (itg_last_dend c d _ f Hd Hne)).
    rewrite Hend.
    assert (Hlt : itg_clock f < itg_dend (itg_clock f) d).
    { rewrite Ed. cbn [itg_dend]. destruct (itg_deque_from_cons _ _ _ _ (eq_ind _ (fun x => itg_deque_from c (itg_clock f) x = true) Hd _ Ed)) as [_ [_ [Hl H2]]].
      pose proof (itg_dend_ge c d0 _ H2). unfold itg_end in *. lia. }
    destruct (itg_excl_ranges_contig c (itg_clock f) (itg_dend (itg_clock f) d) (itg_known segs) d (itg_clock f) 0
                Hd Hcf Hlt ltac:(lia) ltac:(lia) (fun j Hj => itg_dcov_range c d _ j Hd Hj) K1 (or_introl eq_refl))
      as [d' [a' [E [A1 [A2 [A4 [A5 A3]]]]]]].
    exists d'. split; [exact E|]. split; [|split; [exact A2|]].
    + unfold itg_deque_wf. destruct d' as [|b' r'].
      * cbn [itg_dend] in A5. lia.
      * destruct (itg_deque_from_cons _ _ _ _ A1) as [_ [Ha' _]]. rewrite Ha'. exact A1.
    + intros j. rewrite A3, K2. reflexivity.
  - exists d. split; [reflexivity|]. split; [unfold itg_deque_wf; rewrite Ed in *; exact Hwf|]. split; [exact Hcf|].
    intros j. rewrite andb_true_r. reflexivity.
Qed.

Lemma itg_keys_distinct_nodup : forall ks, itg_keys_distinct ks = true -> NoDup ks.
Proof.
  induction ks as [|k r IH]; intros H; [constructor|]. cbn [itg_keys_distinct] in H. apply andb_prop in H. destruct H as [H1 H2].
  constructor; [|apply IH; exact H2]. intros Hin.
  assert (Ht : existsb (N.eqb k) r = true) by (apply existsb_exists; exists k; split; [exact Hin|apply N.eqb_refl]).
  rewrite Ht in H1. discriminate.
Qed.
Lemma itg_nodup_keys_distinct : forall ks, NoDup ks -> itg_keys_distinct ks = true.
Proof.
  induction ks as [|k r IH]; intros H; [reflexivity|]. inversion H as [|x l Hn Hr]; subst. cbn [itg_keys_distinct].
  rewrite (IH Hr), andb_true_r. destruct (existsb (N.eqb k) r) eqn:E; [|reflexivity].
  apply existsb_exists in E. destruct E as [x [Hx Hk]]. apply N.eqb_eq in Hk. subst x. contradiction.
Qed.

Lemma itg_deque_from_clients : forall c d a b, itg_deque_from c a d = true -> In b d -> itg_client b = c /\ 0 < block_len b.
Proof.
  intros c. induction d as [|x r IH]; intros a b H Hb; [destruct Hb|].
  destruct (itg_deque_from_cons _ _ _ _ H) as [Hc [_ [Hl H2]]]. destruct Hb as [<-|Hb]; [split; assumption|apply (IH _ b H2 Hb)].
Qed.

Lemma itg_update_wf_ok : forall bs, itg_update_wf bs = true -> itg_update_ok bs.
Proof.
  intros bs H. unfold itg_update_wf in H. apply andb_prop in H. destruct H as [H1 H2]. split.
  - apply itg_keys_distinct_nodup. exact H1.
  - intros c D b HcD Hb. rewrite forallb_forall in H2. specialize (H2 _ HcD). cbn [fst snd] in H2.
    unfold itg_deque_wf in H2. destruct D as [|f D0]; [destruct Hb|]. apply (itg_deque_from_clients c _ _ b H2 Hb).
Qed.

(* per entry: same client, well-formed again, and the non-Skip coverage is what was not known *)
Definition itg_trim_rel (st : list (N * list itg_seg)) (e e' : N * list block) : Prop :=
  fst e' = fst e /\ itg_deque_wf (fst e) (snd e') = true /\ itg_cf_list (snd e') /\
  forall j, itg_dcov (snd e') j = itg_dcov (snd e) j && negb (itg_has st (mkid (fst e) j)).

Theorem itg_trim_correct : forall st bs, itg_blocks_ok st -> itg_update_wf bs = true -> itg_cf_blocks bs ->
  exists bs', itg_trim st bs = itg_ok bs' /\ Forall2 (itg_trim_rel st) bs bs' /\ itg_update_wf bs' = true /\ itg_cf_blocks bs'.
Proof.
  intros st bs Hok Hwf Hcf. unfold itg_update_wf in Hwf. apply andb_prop in Hwf. destruct Hwf as [Hk Hd].
  assert (Hgen : exists bs', itg_trim st bs = itg_ok bs' /\ Forall2 (itg_trim_rel st) bs bs').
  { clear Hk. induction bs as [|[c d] r IH]; [exists []; split; [reflexivity|constructor]|].
    cbn [forallb fst snd] in Hd. apply andb_prop in Hd. destruct Hd as [Hd1 Hd2].
    assert (Hcd : itg_cf_list d) by (apply (Hcf (c, d)); left; reflexivity).
    destruct (itg_trim_client_correct st c d Hok Hd1 Hcd) as [d' [E [A1 [A2 A3]]]].
    assert (Hcr : itg_cf_blocks r) by (intros e He; apply Hcf; right; exact He).
    destruct (IH Hd2 Hcr) as [r' [E2 F2]].
    exists ((c, d') :: r'). cbn [itg_trim]. rewrite E, E2. cbn [itg_bind]. split; [reflexivity|].
    constructor; [|exact F2]. split; [reflexivity|]. cbn [fst snd]. split; [exact A1|]. split; [exact A2|exact A3]. }
  destruct Hgen as [bs' [E F]]. exists bs'. split; [exact E|]. split; [exact F|].
  assert (Hkeys : map fst bs' = map fst bs).
  { clear -F. induction F as [|e e' l l' Hr _ IH]; [reflexivity|]. cbn [map]. rewrite IH. f_equal. apply Hr. }
  split.
  - unfold itg_update_wf. rewrite Hkeys, Hk. cbn [andb]. apply forallb_forall. intros e' He'.
    clear -F He'. induction F as [|e e0 l l' Hr _ IH]; [destruct He'|]. destruct He' as [<-|He']; [|apply IH; exact He'].
    destruct Hr as [R1 [R2 _]]. rewrite R1. exact R2.
  - intros e' He'. clear -F He'. induction F as [|e e0 l l' Hr _ IH]; [destruct He'|]. destruct He' as [<-|He']; [|apply IH; exact He'].
    apply Hr.
Qed.

Lemma itg_dcov_in : forall d j, itg_dcov d j = true ->
  exists b, In b d /\ itg_is_skip b = false /\ itg_clock b <= j < itg_end b.
Proof.
  intros d j H. unfold itg_dcov in H. apply existsb_exists in H. destruct H as [b [Hb Hc]]. exists b. split; [exact Hb|].
  destruct (itg_is_skip b); [discriminate|]. split; [reflexivity|lia].
Qed.
Lemma itg_in_dcov : forall d b j, In b d -> itg_is_skip b = false -> itg_clock b <= j < itg_end b -> itg_dcov d j = true.
Proof.
  intros d b j Hb Hs Hj. unfold itg_dcov. apply existsb_exists. exists b. split; [exact Hb|]. rewrite Hs. cbn [negb andb]. lia.
Qed.

Lemma itg_forall2_in_l : forall (A B : Type) (R : A -> B -> Prop) l l' x, Forall2 R l l' -> In x l -> exists y, In y l' /\ R x y.
Proof.
  intros A B R l l' x F. induction F as [|a b l l' Hr _ IH]; intros Hx; [destruct Hx|].
  destruct Hx as [<-|Hx]; [exists b; split; [left; reflexivity|exact Hr]|].
  destruct (IH Hx) as [y [Hy Hr']]. exists y. split; [right; exact Hy|exact Hr'].
Qed.

(* (c) CONSERVATION for steps 1-3 of apply_update, at the level of ids.  For a well-formed incoming update and a
   store with contiguous block lists: the step is inside the domain of the model up to the pushes, and every id
   of a non-Skip block of the update is already integrated in the old store, or is in a block integrated by this
   step, or is in a block of `remaining` (which is then merged into the stash).  Nothing is integrated twice:
   itg_log_disjoint in itg_causal_safety. *)
Theorem itg_step_conserves : forall mrg s u s1 retry,
  itg_blocks_ok (itg_blocks s) -> itg_update_wf (u_blocks (itg_abs_update u)) = true ->
  itg_step_with mrg s u = itg_ok (s1, retry) ->
  exists new rem,
    itg_log s1 = new ++ itg_log s /\
    itg_pend s1 = match itg_pend s with
                  | Some p => Some (match rem with
                                    | Some r => itg_mkpending (mrg (itg_p_update p) (itg_p_update r))
                                                  (itg_merge_missing (itg_p_missing p) (itg_p_missing r))
                                    | None => p
                                    end)
                  | None => rem
                  end /\
    forall c d j, In (c, d) (u_blocks (itg_abs_update u)) -> itg_dcov d j = true ->
      itg_has (itg_blocks s) (mkid c j) = true \/
      itg_log_has new (mkid c j) = true \/
      exists r rest, rem = Some r /\ itg_get (u_blocks (itg_p_update r)) c = Some rest /\ itg_dcov rest j = true.
Proof.
  intros mrg s u s1 retry Hok Hwf H. unfold itg_step_with in H.
  destruct (itg_trim_correct _ _ Hok Hwf (itg_abs_update_cf u)) as [bs [Et [F [Hwf' _]]]].
  rewrite Et in H. cbn [itg_bind] in H.
  destruct (itg_integrate (itg_blocks s) (itg_log s) bs) as [[[blocks log] rem]| |] eqn:Ei; cbn [itg_bind] in H; try discriminate.
  pose proof (itg_update_wf_ok _ Hwf') as Hok'.
  destruct (itg_integrate_conserves _ _ _ _ _ _ Hok' Ei) as [new [N1 N2]].
  exists new, rem. split; [destruct (itg_pend s); injection H as <- _; exact N1|].
  split; [destruct (itg_pend s); injection H as <- _; reflexivity|].
  intros c d j HcD Hj.
  destruct (itg_forall2_in_l _ _ _ _ _ _ F HcD) as [[c' d'] [Hin [R1 [R2 [R3 R4]]]]]. cbn [fst snd] in *. subst c'.
  destruct (itg_has (itg_blocks s) (mkid c j)) eqn:Eh; [left; reflexivity|right].
  assert (Hj' : itg_dcov d' j = true) by (rewrite R4, Hj, Eh; reflexivity).
  destruct (itg_dcov_in _ _ Hj') as [b [Hb [Hs Hr]]].
  destruct (N2 c d' b Hin Hb Hs) as [A|[r [rest [A1 [A2 A3]]]]].
  - left. apply existsb_exists. exists b. split; [exact A|]. unfold itg_covers. cbn [cl ck].
    rewrite (proj2 Hok' c d' b Hin Hb). lia.
  - right. exists r, rest. split; [exact A1|]. split; [exact A2|]. apply (itg_in_dcov _ b j A3 Hs Hr).
Qed.

(* ================================================================================================ *)
(* 10. (d) for apply_update on a store without a stash                                              *)
(* ================================================================================================ *)
(* closure hypotheses on the blocks Update::integrate sees, then on the incoming update itself *)
Definition itg_closed_R1 (bs : list (N * list block)) (blocks0 : list (N * list itg_seg)) (rank : block -> nat) : Prop :=
  forall y, itg_in_bs bs y -> itg_is_skip y = false -> forall dep, In dep (itg_deps y) ->
    itg_has blocks0 dep = true \/
    exists x, itg_in_bs bs x /\ itg_is_skip x = false /\ (rank x < rank y)%nat /\ itg_covers x dep = true.
Definition itg_closed_R2 (bs : list (N * list block)) (rank : block -> nat) : Prop :=
  forall c D p x q y r, In (c, D) bs -> D = p ++ x :: q ++ y :: r ->
    itg_is_skip x = false -> itg_is_skip y = false -> (rank x < rank y)%nat.

Theorem itg_integrate_complete : forall bs blocks0 log0 rank blocks' log' rem,
  itg_update_ok bs -> itg_inv_bl blocks0 log0 ->
  itg_closed_R1 bs blocks0 rank -> itg_closed_R2 bs rank ->
  itg_integrate blocks0 log0 bs = itg_ok (blocks', log', rem) ->
  rem = None /\ exists new, log' = new ++ log0 /\
    forall c D b, In (c, D) bs -> In b D -> itg_is_skip b = false -> In b new.
Proof.
  intros bs blocks0 log0 rank blocks' log' rem Hok Hinv R1 R2 H.
  apply (itg_integrate_complete_sec bs blocks0 log0 rank Hok (itg_inv_agree _ _ Hinv) R1 R2 _ _ _ Hinv H).
Qed.

(* y is a part of the non-Skip block b: its dependency ids are those of b, or ids of b in front of y *)
Definition itg_piece (y b : block) : Prop :=
  itg_client y = itg_client b /\ itg_clock b <= itg_clock y /\ itg_end y <= itg_end b /\
  itg_is_skip y = false /\ itg_is_skip b = false /\
  forall dep, In dep (itg_deps y) -> In dep (itg_deps b) \/ (cl dep = itg_client b /\ itg_clock b <= ck dep < itg_clock y).
Definition itg_piece_Q (U0 : list (N * list block)) (y : block) : Prop :=
  itg_cf_block y = true /\ (itg_is_skip y = true \/ exists c d b, In (c, d) U0 /\ In b d /\ itg_piece y b).

Lemma itg_piece_cut_closed : forall U0, itg_cut_closed (itg_piece_Q U0).
Proof.
  intros U0 c. split.
  - intros y k [Hcf HQ] Hk. destruct (itg_splice_spec y k Hcf Hk) as [S1 [S2 [S3 [S4 [S5 [S6 [S7 S8]]]]]]].
    split; (split; [assumption|]).
    + destruct HQ as [Hs|[c0 [d [b [H1 [H2 P]]]]]]; [left; rewrite S7; exact Hs|right].
      exists c0, d, b. split; [exact H1|]. split; [exact H2|]. destruct P as [P1 [P2 [P3 [P4 [P5 P6]]]]].
      unfold itg_piece, itg_client, itg_end, itg_clock in *. rewrite S3, S4, S7. repeat split; try assumption; try lia.
      intros dep Hdep. apply P6.
      destruct y as [i o ro p ps cc|i n|i n]; cbn [itg_splice mrg_splice fst itg_deps] in *; try assumption.
      cbn [itg_cf_block] in Hcf. destruct cc as [n|l|bb|s|j|k0 j|t|l|g o0]; try discriminate.
      * cbn [mrg_content_splice fst] in Hdep. cbn [itg_deps]. exact Hdep.
      * destruct t; try discriminate. cbn [block_len content_len] in Hk. lia.
    + destruct HQ as [Hs|[c0 [d [b [H1 [H2 P]]]]]]; [left; rewrite S8; exact Hs|right].
      exists c0, d, b. split; [exact H1|]. split; [exact H2|]. destruct P as [P1 [P2 [P3 [P4 [P5 P6]]]]].
      unfold itg_piece, itg_client, itg_end, itg_clock in *. rewrite S5, S6, S8. cbn [cl ck]. repeat split; try assumption; try lia.
      intros dep Hdep.
      destruct y as [i o ro p ps cc|i n|i n]; cbn [itg_splice mrg_splice snd itg_deps block_id block_len] in *;
        [|destruct Hdep|destruct Hdep].
      cbn [itg_cf_block] in Hcf. destruct cc as [n|l|bb|s|j|k0 j|t|l|g o0]; try discriminate.
      * cbn [mrg_content_splice snd itg_oid] in Hdep. cbn [content_len] in Hk.
        destruct Hdep as [<-|Hdep].
        -- right. cbn [cl ck]. split; [exact P1|]. lia.
        -- assert (Hy : In dep (itg_oid o ++ itg_oid ro ++ match p with PId i0 => [i0] | _ => [] end ++ [])).
           { apply in_or_app. right. exact Hdep. }
           destruct (P6 dep Hy) as [A|[A1 A2]]; [left; exact A|right]. split; [exact A1|]. lia.
      * destruct t; try discriminate. cbn [content_len] in Hk. lia.
  - intros k n. split; [reflexivity|left; reflexivity].
Qed.

Lemma itg_deque_from_order : forall c p x q y r a, itg_deque_from c a (p ++ x :: q ++ y :: r) = true ->
  itg_end x <= itg_clock y.
Proof.
  intros c p x q y r a H. rewrite itg_deque_from_app in H. apply andb_prop in H. destruct H as [_ H].
  destruct (itg_deque_from_cons _ _ _ _ H) as [_ [_ [_ H2]]]. rewrite itg_deque_from_app in H2.
  apply andb_prop in H2. destruct H2 as [Hq Hy]. destruct (itg_deque_from_cons _ _ _ _ Hy) as [_ [Hc _]].
  pose proof (itg_dend_ge c q _ Hq). lia.
Qed.

Section ItgCompleteApply.
  Variable s : itg_store.
  Variable u : update.
  (* a ranking of ids *)
  Variable rho : id -> nat.
  Let U0 := u_blocks (itg_abs_update u).

  Hypothesis Hinv : itg_inv s.
  Hypothesis Hwf : itg_update_wf U0 = true.
  (* every dependency id of every non-Skip block of the update is integrated, or is an id of a non-Skip block of
     the update that is ranked below the first id of the block *)
  Hypothesis H1 : forall c d b, In (c, d) U0 -> In b d -> itg_is_skip b = false -> forall dep, In dep (itg_deps b) ->
    itg_has (itg_blocks s) dep = true \/
    ((rho dep < rho (block_id b))%nat /\ exists d2, In (cl dep, d2) U0 /\ itg_dcov d2 (ck dep) = true).
  (* the ranking increases along each client's clocks *)
  Hypothesis H2 : forall c d j1 j2, In (c, d) U0 -> itg_dcov d j1 = true -> itg_dcov d j2 = true -> j1 < j2 ->
    (rho (mkid c j1) < rho (mkid c j2))%nat.

  Lemma itg_H2_le : forall c d j1 j2, In (c, d) U0 -> itg_dcov d j1 = true -> itg_dcov d j2 = true -> j1 <= j2 ->
    (rho (mkid c j1) <= rho (mkid c j2))%nat.
  Proof.
    intros c d j1 j2 Hd A B Hle. destruct (N.eq_dec j1 j2) as [->|Hne]; [lia|].
    pose proof (H2 c d j1 j2 Hd A B ltac:(lia)). lia.
  Qed.

  Lemma itg_block_id_eta : forall b, block_id b = mkid (itg_client b) (itg_clock b).
  Proof. intros b. unfold itg_client, itg_clock. destruct (block_id b). reflexivity. Qed.

  Theorem itg_apply_complete : forall s', itg_pend s = None -> itg_apply_update_res s u = itg_ok s' ->
    itg_pend s' = None /\
    forall c d j, In (c, d) U0 -> itg_dcov d j = true -> itg_has (itg_blocks s') (mkid c j) = true.
  Proof.
    intros s' Hp H. unfold itg_apply_update_res, itg_apply_with in H.
    destruct (itg_step_with itg_mrg s u) as [[s1 r1]| |] eqn:Es; cbn [itg_bind fst snd] in H; try discriminate.
    assert (Hr1 : r1 = false /\ s' = s1).
    { unfold itg_step_with in Es.
      destruct (itg_trim _ _) as [bs0| |]; cbn [itg_bind] in Es; try discriminate.
      destruct (itg_integrate _ _ _) as [[[bl lg] rm]| |]; cbn [itg_bind] in Es; try discriminate.
      rewrite Hp in Es. injection Es as <- <-. cbn [snd] in H. injection H as <-. split; reflexivity. }
    destruct Hr1 as [-> ->]. clear H.
    pose proof (itg_inv_ok _ _ Hinv) as Hok.
    destruct (itg_trim_correct _ _ Hok Hwf (itg_abs_update_cf u)) as [bs [Et [F [Hwf' Hcf']]]].
    pose proof (itg_update_wf_ok _ Hwf') as Hok'.
    (* all blocks of the trimmed update are pieces of blocks of the update *)
    assert (HQ0 : itg_all_blocks (itg_piece_Q U0) U0).
    { intros [c d] He b Hb. split; [pose proof (itg_abs_update_cf u (c, d) He) as Hf; unfold itg_cf_list in Hf; rewrite Forall_forall in Hf; apply Hf; exact Hb|].
      destruct (itg_is_skip b) eqn:Esk; [left; reflexivity|right]. exists c, d, b. split; [exact He|]. split; [exact Hb|].
      unfold itg_piece. repeat split; try assumption; try lia. intros dep Hd. left. exact Hd. }
    destruct (itg_trim_all _ _ _ _ (itg_piece_cut_closed U0) HQ0 Et) as [HQ _].
    pose proof (itg_update_wf_ok _ Hwf) as Hok0.
    set (rank := fun b : block => rho (block_id b)).
    (* facts about a non-Skip block y of the trimmed update *)
    assert (Hy : forall c d' y, In (c, d') bs -> In y d' -> itg_is_skip y = false ->
              exists d, In (c, d) U0 /\ itg_client y = c /\ 0 < block_len y /\
                (forall j, itg_dcov d' j = itg_dcov d j && negb (itg_has (itg_blocks s) (mkid c j))) /\
                itg_dcov d (itg_clock y) = true).
    { intros c d' y Hd' Hy Hsk.
      assert (Hex : exists e, In e U0 /\ itg_trim_rel (itg_blocks s) e (c, d')).
      { clear -F Hd'. induction F as [|e e' l l' Hr _ IH]; [destruct Hd'|].
        destruct Hd' as [->|Hd']; [exists e; split; [left; reflexivity|exact Hr]|].
        destruct (IH Hd') as [e0 [A B]]. exists e0. split; [right; exact A|exact B]. }
      destruct Hex as [[c0 d] [He [R1 [R2 [R3 R4]]]]]. cbn [fst snd] in *. subst c0.
      exists d. split; [exact He|].
      unfold itg_deque_wf in R2. destruct d' as [|f0 d0'] eqn:Ed'; [destruct Hy|]. rewrite <- Ed' in *.
      destruct (itg_deque_from_clients c d' _ y R2 Hy) as [Hc Hl]. split; [exact Hc|]. split; [exact Hl|]. split; [exact R4|].
      assert (Hcv : itg_dcov d' (itg_clock y) = true) by (apply (itg_in_dcov d' y); [exact Hy|exact Hsk|unfold itg_end; lia]).
      rewrite R4 in Hcv. apply andb_prop in Hcv. apply Hcv. }
    assert (R1 : itg_closed_R1 bs (itg_blocks s) rank).
    { intros y [c [d' [Hd' Hyd]]] Hsk dep Hdep.
      destruct (Hy c d' y Hd' Hyd Hsk) as [d [Hd [Hcy [Hly [Hcov Hcy0]]]]].
      destruct (HQ (c, d') Hd' y Hyd) as [Hcfy [Hs|[c0 [d0 [b [Hb1 [Hb2 P]]]]]]]; [rewrite Hs in Hsk; discriminate|].
      destruct P as [P1 [P2 [P3 [P4 [P5 P6]]]]].
      assert (Hcb : itg_client b = c0) by (apply (proj2 Hok0 c0 d0 b Hb1 Hb2)).
      assert (Hcc : c0 = c) by congruence. rewrite Hcc in *. clear Hcc.
      assert (d0 = d).
      { pose proof (itg_get_of_in _ _ _ _ (proj1 Hok0) Hb1) as G1. pose proof (itg_get_of_in _ _ _ _ (proj1 Hok0) Hd) as G2.
        congruence. }
      subst d0.
      (* find the trimmed block that covers an id of the update which is not integrated *)
      assert (Hfind : forall c2 d2 j, In (c2, d2) U0 -> itg_dcov d2 j = true -> itg_has (itg_blocks s) (mkid c2 j) = false ->
                exists x, itg_in_bs bs x /\ itg_is_skip x = false /\ itg_covers x (mkid c2 j) = true /\
                          (rho (block_id x) <= rho (mkid c2 j))%nat).
      { intros c2 d2 j Hd2 Hj Hh.
        destruct (itg_forall2_in_l _ _ _ _ _ _ F Hd2) as [[c2' d2'] [Hin [Q1 [Q2 [Q3 Q4]]]]]. cbn [fst snd] in *. subst c2'.
        assert (Hj' : itg_dcov d2' j = true) by (rewrite Q4, Hj, Hh; reflexivity).
        destruct (itg_dcov_in _ _ Hj') as [x [Hx [Hxs Hxr]]].
        destruct (Hy c2 d2' x Hin Hx Hxs) as [d2b [Hd2b [Hcx [Hlx [_ Hcx0]]]]].
        assert (d2b = d2).
        { pose proof (itg_get_of_in _ _ _ _ (proj1 Hok0) Hd2b) as G1. pose proof (itg_get_of_in _ _ _ _ (proj1 Hok0) Hd2) as G2.
          congruence. }
        subst d2b. exists x. split; [exists c2, d2'; split; assumption|]. split; [exact Hxs|]. split.
        - unfold itg_covers. cbn [cl ck]. rewrite Hcx. lia.
        - rewrite (itg_block_id_eta x), Hcx. apply (itg_H2_le c2 d2); try assumption. lia. }
      destruct (P6 dep Hdep) as [A|[A1 A2]].
      - destruct (H1 c d b Hb1 Hb2 P5 dep A) as [B|[B1 [d2 [B2 B3]]]]; [left; exact B|].
        destruct (itg_has (itg_blocks s) dep) eqn:Eh; [left; reflexivity|right].
        destruct (Hfind (cl dep) d2 (ck dep) B2 B3 ltac:(rewrite itg_id_eta; exact Eh)) as [x [X1 [X2 [X3 X4]]]].
        rewrite itg_id_eta in X3, X4. exists x. split; [exact X1|]. split; [exact X2|]. split; [|exact X3].
        unfold rank. assert (Hby : (rho (block_id b) <= rho (block_id y))%nat).
        { assert (Hlb : 0 < block_len b).
          { pose proof Hwf as Hw. unfold itg_update_wf in Hw. apply andb_prop in Hw. destruct Hw as [_ Hw].
            rewrite forallb_forall in Hw. specialize (Hw _ Hb1). cbn [fst snd] in Hw. unfold itg_deque_wf in Hw.
            destruct d as [|f0 d0]; [destruct Hb2|]. apply (itg_deque_from_clients c _ _ b Hw Hb2). }
          assert (Hcb0 : itg_dcov d (itg_clock b) = true) by (apply (itg_in_dcov d b); [exact Hb2|exact P5|unfold itg_end; lia]).
          rewrite (itg_block_id_eta b), (itg_block_id_eta y), Hcb, Hcy. apply (itg_H2_le c d _ _ Hd Hcb0 Hcy0 P2). }
        lia.
      - (* an id of b in front of y *)
        destruct (itg_has (itg_blocks s) dep) eqn:Eh; [left; reflexivity|right].
        assert (Hdj : itg_dcov d (ck dep) = true) by (apply (itg_in_dcov d b); [exact Hb2|exact P5|unfold itg_end in *; lia]).
        assert (Hdep_eq : dep = mkid c (ck dep)) by (rewrite <- Hcb, <- A1; symmetry; apply itg_id_eta).
        destruct (Hfind c d (ck dep) Hd Hdj ltac:(rewrite <- Hdep_eq; exact Eh)) as [x [X1 [X2 [X3 X4]]]].
        rewrite <- Hdep_eq in X3, X4. exists x. split; [exact X1|]. split; [exact X2|]. split; [|exact X3].
        unfold rank. rewrite (itg_block_id_eta y), Hcy.
        assert (Hlt : (rho dep < rho (mkid c (itg_clock y)))%nat).
        { rewrite Hdep_eq. apply (H2 c d); try assumption. lia. }
        lia. }
    assert (R2 : itg_closed_R2 bs rank).
    { intros c D p x q y r HD ED Hxs Hys. unfold rank.
      assert (Hwd : itg_deque_wf c D = true).
      { pose proof Hwf' as Hw. unfold itg_update_wf in Hw. apply andb_prop in Hw. destruct Hw as [_ Hw].
        rewrite forallb_forall in Hw. apply (Hw _ HD). }
      unfold itg_deque_wf in Hwd. destruct D as [|f0 D0] eqn:EDD; [destruct p; discriminate|]. rewrite <- EDD in *.
      rewrite ED in Hwd. pose proof (itg_deque_from_order _ _ _ _ _ _ _ Hwd) as Hord.
      assert (Hxin : In x D) by (rewrite ED; apply in_or_app; right; left; reflexivity).
      assert (Hyin : In y D) by (rewrite ED; apply in_or_app; right; right; apply in_or_app; right; left; reflexivity).
      destruct (Hy c D x HD Hxin Hxs) as [d [Hd [Hcx [Hlx [_ Hcx0]]]]].
      destruct (Hy c D y HD Hyin Hys) as [d2 [Hd2 [Hcy [Hly [_ Hcy0]]]]].
      assert (d2 = d).
      { pose proof (itg_get_of_in _ _ _ _ (proj1 Hok0) Hd2) as G1. pose proof (itg_get_of_in _ _ _ _ (proj1 Hok0) Hd) as G2.
        congruence. }
      subst d2. rewrite (itg_block_id_eta x), (itg_block_id_eta y), Hcx, Hcy.
      apply (H2 c d); try assumption. unfold itg_end in Hord. lia. }
    (* run the step *)
    unfold itg_step_with in Es. unfold U0 in Et. rewrite Et in Es. cbn [itg_bind] in Es.
    destruct (itg_integrate (itg_blocks s) (itg_log s) bs) as [[[blocks log] rem]| |] eqn:Ei; cbn [itg_bind] in Es; try discriminate.
    rewrite Hp in Es. injection Es as <-. cbn [itg_pend itg_blocks].
    destruct (itg_integrate_complete bs _ _ rank _ _ _ Hok' Hinv R1 R2 Ei) as [Hrem [new [N1 N2]]].
    split; [exact Hrem|].
    intros c d j Hd Hj.
    destruct (itg_integrate_inv _ _ _ _ _ _ Hinv Ei) as [Hinv' _].
    rewrite (itg_inv_agree _ _ Hinv'), N1, itg_log_has_app.
    destruct (itg_has (itg_blocks s) (mkid c j)) eqn:Eh.
    - rewrite (itg_inv_agree _ _ Hinv) in Eh. rewrite Eh. apply orb_true_r.
    - destruct (itg_forall2_in_l _ _ _ _ _ _ F Hd) as [[c' d'] [Hin [Q1 [Q2 [Q3 Q4]]]]]. cbn [fst snd] in *. subst c'.
      assert (Hj' : itg_dcov d' j = true) by (rewrite Q4, Hj, Eh; reflexivity).
      destruct (itg_dcov_in _ _ Hj') as [x [Hx [Hxs Hxr]]].
      assert (Ht : itg_log_has new (mkid c j) = true).
      { apply existsb_exists. exists x. split; [apply (N2 c d' x Hin Hx Hxs)|].
        unfold itg_covers. cbn [cl ck]. rewrite (proj2 Hok' c d' x Hin Hx). lia. }
      rewrite Ht. reflexivity.
  Qed.
End ItgCompleteApply.

(* (f), equality: under the hypotheses of (d) the abstract delivery and apply_update integrate the same ids *)
Theorem itg_deliver_equal : forall s u (rho : id -> nat) s' (d : doc),
  itg_inv s -> itg_pend s = None ->
  itg_update_wf (u_blocks (itg_abs_update u)) = true ->
  (forall c dq b, In (c, dq) (u_blocks (itg_abs_update u)) -> In b dq -> itg_is_skip b = false ->
     forall dep, In dep (itg_deps b) ->
     itg_has (itg_blocks s) dep = true \/
     ((rho dep < rho (block_id b))%nat /\
      exists d2, In (cl dep, d2) (u_blocks (itg_abs_update u)) /\ itg_dcov d2 (ck dep) = true)) ->
  (forall c dq j1 j2, In (c, dq) (u_blocks (itg_abs_update u)) -> itg_dcov dq j1 = true -> itg_dcov dq j2 = true ->
     j1 < j2 -> (rho (mkid c j1) < rho (mkid c j2))%nat) ->
  (forall i, itg_has (itg_blocks s) i = integrated d i) ->
  itg_apply_update_res s u = itg_ok s' ->
  forall i, itg_has (itg_blocks s') i = integrated (fst (deliver d (units_of_update (itg_abs_update u)))) i.
Proof.
  intros s u rho s' d Hinv Hp Hwf H1 H2 Hd H i.
  destruct (itg_apply_complete s u rho Hinv Hwf H1 H2 s' Hp H) as [_ Hall].
  destruct (itg_has (itg_blocks s') i) eqn:Eh.
  - symmetry. apply (itg_sub_deliver s u s' d Hinv Hp); [intros j Hj; rewrite <- Hd; exact Hj|exact H|exact Eh].
  - destruct (integrated (fst (deliver d (units_of_update (itg_abs_update u)))) i) eqn:Ei; [|reflexivity].
    exfalso. apply deliver_exact in Ei. destruct Ei as [Ei|[x [Hx Hxi]]].
    + rewrite <- Hd in Ei. destruct (itg_apply_with_inv _ _ _ _ Hinv H) as [Hinv' [new Hn]].
      rewrite (itg_inv_agree _ _ Hinv'), Hn, itg_log_has_app in Eh. rewrite (itg_inv_agree _ _ Hinv) in Ei.
      rewrite Ei, orb_true_r in Eh. discriminate.
    + unfold units_of_update in Hx. apply in_flat_map in Hx. destruct Hx as [[c dq] [He Hx]]. cbn [snd] in Hx.
      apply in_flat_map in Hx. destruct Hx as [b [Hb Hxb]].
      assert (Hcfb : itg_cf_block b = true).
      { pose proof (itg_abs_update_cf u (c, dq) He) as Hf. unfold itg_cf_list in Hf. rewrite Forall_forall in Hf. apply Hf. exact Hb. }
      assert (Hwfb : blk_wf b = true).
      { destruct b as [i0 o ro p ps cc|i0 n|i0 n]; try reflexivity. cbn [blk_wf itg_cf_block] in *. destruct cc; try discriminate; reflexivity. }
      destruct (mrg_units_range b x Hwfb Hxb) as [R1 [R2 R3]]. unfold mrg_client, mrg_clock, mrg_end in *.
      assert (Hsk : itg_is_skip b = false) by (destruct b; try reflexivity; destruct Hxb).
      assert (Hcb : itg_client b = c) by (apply (proj2 (itg_update_wf_ok _ Hwf) c dq b He Hb)).
      assert (Hcov : itg_dcov dq (ck i) = true).
      { apply (itg_in_dcov dq b); [exact Hb|exact Hsk|]. unfold itg_end, itg_clock. rewrite <- Hxi. unfold mrg_end, mrg_clock in *. lia. }
      specialize (Hall c dq (ck i) He Hcov).
      assert (Hi : mkid c (ck i) = i).
      { rewrite <- Hcb. unfold itg_client. rewrite <- R1, Hxi. apply itg_id_eta. }
      rewrite Hi, Eh in Hall. discriminate.
Qed.

(* ================================================================================================ *)
(* 11. the missing vector, and (e) progress of the retry                                            *)
(* ================================================================================================ *)
(* (c), the missing vector.  When Update::integrate (on a store without a stash) sets blocks aside, every entry
   (client, clock) of the `missing` vector it returns is an id that was missing in the store the update was
   applied to (it was missing when switch() recorded it, and nothing that is integrated is ever lost); if the id
   is no longer missing at the end of the run, it lies in a block this run integrated.  The vector keeps one
   clock per client (the minimum), and switch() also records ids whose block is then found in the same update:
   so an entry need not be a dependency of a block that is still in the stash. *)
Theorem itg_missing_guarantee : forall mrg s u s1 retry p e,
  itg_blocks_ok (itg_blocks s) -> itg_pend s = None ->
  itg_step_with mrg s u = itg_ok (s1, retry) -> itg_pend s1 = Some p -> In e (itg_p_missing p) ->
  itg_is_missing (itg_blocks s) (mkid (fst e) (snd e)) = true /\
  (itg_is_missing (itg_blocks s1) (mkid (fst e) (snd e)) = false ->
   exists new b, itg_log s1 = new ++ itg_log s /\ In b new /\ itg_covers b (mkid (fst e) (snd e)) = true).
Proof.
  intros mrg s u s1 retry p e Hok Hp H Hp1 He.
  destruct (itg_step_T _ _ _ _ _ Hok H) as [A B]. destruct (B Hp) as [_ [new [B1 [_ B3]]]].
  destruct (B3 p Hp1 e He) as [C1 C2]. split.
  - rewrite (itg_is_missing_spec _ _ Hok), C1. reflexivity.
  - intros Hm. rewrite (itg_is_missing_spec _ _ A) in Hm.
    assert (Hh : itg_has (itg_blocks s1) (mkid (fst e) (snd e)) = true) by (destruct (itg_has (itg_blocks s1) _); [reflexivity|discriminate]).
    destruct (C2 Hh) as [b [D1 [_ D3]]]. exists new, b. repeat split; assumption.
Qed.

(* (e) PROGRESS.  With a stash p: `retry` is exactly "some entry of p.missing is no longer missing after the
   incoming update has been integrated", and then apply_update takes the (merged) stash, applies it to the store
   as an update, and tests again (the body of itg_retry, one round unfolded). *)
Theorem itg_retry_progress : forall s u p s1 retry,
  itg_pend s = Some p -> itg_step s u = itg_ok (s1, retry) ->
  retry = existsb (fun e => negb (itg_is_missing (itg_blocks s1) (mkid (fst e) (snd e)))) (itg_p_missing p) /\
  (retry = true ->
   exists p', itg_pend s1 = Some p' /\
     itg_apply_update_res s u =
       itg_bind (itg_step (itg_mkstore (itg_blocks s1) None (itg_log s1)) (itg_p_update p')) (fun sr1 =>
       itg_bind (itg_step (fst sr1) itg_empty_update) (fun sr2 =>
         if snd sr2 then itg_retry (pred (itg_retry_fuel s1)) (fst sr2) else itg_ok (fst sr2)))).
Proof.
  intros s u p s1 retry Hp H. unfold itg_step in *.
  assert (Hs : retry = itg_retry_test (itg_blocks s1) p /\ exists p', itg_pend s1 = Some p').
  { unfold itg_step_with in H.
    destruct (itg_trim _ _) as [bs| |]; cbn [itg_bind] in H; try discriminate.
    destruct (itg_integrate _ _ _) as [[[blocks log] rem]| |]; cbn [itg_bind] in H; try discriminate.
    rewrite Hp in H. injection H as <- <-. cbn [itg_blocks itg_pend]. split; [reflexivity|eexists; reflexivity]. }
  destruct Hs as [Hr [p' Hp']]. split; [exact Hr|].
  intros Ht. exists p'. split; [exact Hp'|].
  unfold itg_apply_update_res, itg_apply_with. rewrite H. cbn [itg_bind fst snd]. rewrite Ht.
  unfold itg_retry_fuel. rewrite Hp'. cbn [pred]. unfold itg_retry. cbn [itg_retry_with]. rewrite Hp'. reflexivity.
Qed.

(* the stash is re-applied as long as the test succeeds; when apply_update returns, no entry of the missing vector
   of the stash that was just re-applied is integrated (the test of the last round failed) *)
Lemma itg_retry_final : forall mrg fuel s s', itg_retry_with mrg fuel s = itg_ok s' -> itg_pend s <> None ->
  forall p, itg_pend s' = Some p -> itg_retry_test (itg_blocks s') p = false.
Proof.
  intros mrg. induction fuel as [|f IH]; intros s s' H Hne p Hp; cbn [itg_retry_with] in H; [discriminate|].
  destruct (itg_pend s) as [p0|] eqn:Ep; [|contradiction].
  destruct (itg_step_with mrg _ (itg_p_update p0)) as [[s1 r1]| |] eqn:E1; cbn [itg_bind] in H; try discriminate.
  cbn [fst] in H. rewrite itg_step_empty in H. cbn [itg_bind fst snd] in H.
  destruct (itg_pend s1) as [p1|] eqn:Ep1.
  - destruct (itg_retry_test (itg_blocks s1) p1) eqn:Er.
    + apply (IH _ _ H); [rewrite Ep1; discriminate|exact Hp].
    + injection H as <-. rewrite Ep1 in Hp. injection Hp as <-. exact Er.
  - injection H as <-. rewrite Ep1 in Hp. discriminate.
Qed.

(* ================================================================================================ *)
(* 12. the literal recursion of apply_update computes what the loop computes                        *)
(* ================================================================================================ *)
Lemma itg_step_nopend_retry : forall mrg s u s1 r, itg_pend s = None -> itg_step_with mrg s u = itg_ok (s1, r) -> r = false.
Proof.
  intros mrg s u s1 r Hp H. unfold itg_step_with in H.
  destruct (itg_trim _ _) as [bs| |]; cbn [itg_bind] in H; try discriminate.
  destruct (itg_integrate _ _ _) as [[[blocks log] rem]| |]; cbn [itg_bind] in H; try discriminate.
  rewrite Hp in H. injection H as _ <-. reflexivity.
Qed.

(* apply_update on a store without a stash never reaches step 5 *)
Lemma itg_apply_rec_nopend : forall mrg f s u, itg_pend s = None ->
  itg_apply_rec_with mrg (S f) s u = itg_bind (itg_step_with mrg s u) (fun sr => itg_ok (fst sr)).
Proof.
  intros mrg f s u Hp. cbn [itg_apply_rec_with]. destruct (itg_step_with mrg s u) as [[s1 r]| |] eqn:E; cbn [itg_bind]; try reflexivity.
  rewrite (itg_step_nopend_retry _ _ _ _ _ Hp E). reflexivity.
Qed.

Definition itg_test (s : itg_store) : bool :=
  match itg_pend s with Some p => itg_retry_test (itg_blocks s) p | None => false end.

Lemma itg_apply_rec_empty : forall mrg f s,
  itg_apply_rec_with mrg (S f) s itg_empty_update =
  if itg_test s then
    match itg_pend s with
    | Some p => itg_bind (itg_apply_rec_with mrg f (itg_mkstore (itg_blocks s) None (itg_log s)) (itg_p_update p))
                         (fun s2 => itg_apply_rec_with mrg f s2 itg_empty_update)
    | None => itg_ok s
    end
  else itg_ok s.
Proof. intros mrg f s. cbn [itg_apply_rec_with]. rewrite itg_step_empty. cbn [itg_bind fst snd]. reflexivity. Qed.

Lemma itg_rec_retry_eq : forall mrg g s r,
  (if itg_test s then itg_retry_with mrg g s else itg_ok s) = r -> r <> itg_nofuel ->
  forall f, (g + 2 <= f)%nat -> itg_apply_rec_with mrg f s itg_empty_update = r.
Proof.
  intros mrg. induction g as [|g IH]; intros s r H Hr f Hf.
  - destruct f as [|f]; [lia|]. rewrite itg_apply_rec_empty. destruct (itg_test s); [cbn in H; congruence|exact H].
  - destruct f as [|f]; [lia|]. rewrite itg_apply_rec_empty. destruct (itg_test s) eqn:Et; [|exact H].
    cbn [itg_retry_with] in H. destruct (itg_pend s) as [p|] eqn:Ep; [|exact H].
    destruct f as [|f]; [lia|]. rewrite (itg_apply_rec_nopend mrg f (itg_mkstore (itg_blocks s) None (itg_log s)) (itg_p_update p) eq_refl).
    destruct (itg_step_with mrg (itg_mkstore (itg_blocks s) None (itg_log s)) (itg_p_update p)) as [[s1 r1]| |] eqn:E1;
      cbn [itg_bind] in *; try exact H.
    cbn [fst] in *. rewrite itg_step_empty in H. cbn [itg_bind fst snd] in H. fold (itg_test s1) in H.
    apply (IH s1 r H Hr). lia.
Qed.

Theorem itg_apply_rec_eq : forall mrg s u r, itg_apply_with mrg s u = r -> r <> itg_nofuel ->
  exists n, forall f, (n <= f)%nat -> itg_apply_rec_with mrg f s u = r.
Proof.
  intros mrg s u r H Hr. unfold itg_apply_with in H.
  destruct (itg_step_with mrg s u) as [[s1 r1]| |] eqn:E; cbn [itg_bind fst snd] in H.
  - destruct r1.
    + exists (itg_retry_fuel s1 + 3)%nat. intros f Hf. destruct f as [|f]; [lia|]. cbn [itg_apply_rec_with]. rewrite E. cbn [itg_bind fst snd].
      remember (itg_retry_fuel s1) as g eqn:Eg. destruct g as [|g]; [cbn in H; congruence|].
      cbn [itg_retry_with] in H. destruct (itg_pend s1) as [p|] eqn:Ep; [|exact H].
      destruct f as [|f]; [lia|]. rewrite (itg_apply_rec_nopend mrg f (itg_mkstore (itg_blocks s1) None (itg_log s1)) (itg_p_update p) eq_refl).
      destruct (itg_step_with mrg (itg_mkstore (itg_blocks s1) None (itg_log s1)) (itg_p_update p)) as [[s2 r2]| |] eqn:E1;
        cbn [itg_bind] in *; try exact H.
      cbn [fst] in *. rewrite itg_step_empty in H. cbn [itg_bind fst snd] in H. fold (itg_test s2) in H.
      apply (itg_rec_retry_eq mrg g s2 r H Hr). lia.
    + exists 1%nat. intros f Hf. destruct f as [|f]; [lia|]. cbn [itg_apply_rec_with]. rewrite E. cbn [itg_bind fst snd]. exact H.
  - exists 1%nat. intros f Hf. destruct f as [|f]; [lia|]. cbn [itg_apply_rec_with]. rewrite E. exact H.
  - congruence.
Qed.

(* in particular for the model itself, on contiguous block lists *)
Corollary itg_apply_rec_agrees : forall s u, itg_blocks_wf (itg_blocks s) = true ->
  exists n, forall f, (n <= f)%nat -> itg_apply_rec f s u = itg_apply_update_res s u.
Proof.
  intros s u H. apply (itg_apply_rec_eq itg_mrg s u _ eq_refl). apply itg_apply_terminates. exact H.
Qed.

(* (d) with a stash, conditionally: IF the retry fires and the merged stash is well-formed and causally closed
   w.r.t. the store that has integrated the incoming update, THEN nothing is pending afterwards.  The two
   hypotheses are the two gaps named in the summary below. *)
Theorem itg_apply_complete_stash : forall s u p s1 p' (rho : id -> nat) s',
  itg_inv s -> itg_pend s = Some p -> itg_step s u = itg_ok (s1, true) -> itg_pend s1 = Some p' ->
  let s0 := itg_mkstore (itg_blocks s1) None (itg_log s1) in
  let U0 := u_blocks (itg_abs_update (itg_p_update p')) in
  itg_update_wf U0 = true ->
  (forall c d b, In (c, d) U0 -> In b d -> itg_is_skip b = false -> forall dep, In dep (itg_deps b) ->
     itg_has (itg_blocks s0) dep = true \/
     ((rho dep < rho (block_id b))%nat /\ exists d2, In (cl dep, d2) U0 /\ itg_dcov d2 (ck dep) = true)) ->
  (forall c d j1 j2, In (c, d) U0 -> itg_dcov d j1 = true -> itg_dcov d j2 = true -> j1 < j2 ->
     (rho (mkid c j1) < rho (mkid c j2))%nat) ->
  itg_apply_update_res s u = itg_ok s' ->
  itg_pend s' = None /\
  forall c d j, In (c, d) U0 -> itg_dcov d j = true -> itg_has (itg_blocks s') (mkid c j) = true.
Proof.
  intros s u p s1 p' rho s' Hinv Hp Hs Hp' s0 U0 Hwf H1 H2 H.
  destruct (itg_step_inv _ _ _ _ _ Hinv Hs) as [Hinv1 _].
  assert (Hinv0 : itg_inv s0) by exact Hinv1.
  unfold itg_apply_update_res, itg_apply_with in H. unfold itg_step in Hs. rewrite Hs in H. cbn [itg_bind fst snd] in H.
  unfold itg_retry_fuel in H. rewrite Hp' in H.
  remember (S (N.to_nat (itg_units (u_blocks (itg_p_update p'))))) as g eqn:Eg.
  change (itg_retry_with itg_mrg (S g) s1) with
    (match itg_pend s1 with
     | None => itg_ok s1
     | Some pending =>
         itg_bind (itg_step_with itg_mrg (itg_mkstore (itg_blocks s1) None (itg_log s1)) (itg_p_update pending)) (fun sr1 =>
         itg_bind (itg_step_with itg_mrg (fst sr1) itg_empty_update) (fun sr2 =>
           if snd sr2 then itg_retry_with itg_mrg g (fst sr2) else itg_ok (fst sr2)))
     end) in H.
  rewrite Hp' in H. fold s0 in H.
  destruct (itg_step_with itg_mrg s0 (itg_p_update p')) as [[s2 r2]| |] eqn:E2; cbn [itg_bind fst snd] in H; try discriminate.
  assert (Hr2 : r2 = false) by (apply (itg_step_nopend_retry itg_mrg s0 (itg_p_update p') s2 r2 eq_refl E2)). subst r2.
  assert (Hres : itg_apply_update_res s0 (itg_p_update p') = itg_ok s2).
  { unfold itg_apply_update_res, itg_apply_with. rewrite E2. reflexivity. }
  destruct (itg_apply_complete s0 (itg_p_update p') rho Hinv0 Hwf H1 H2 s2 (eq_refl : itg_pend s0 = None) Hres) as [Hp2 Hall].
  rewrite itg_step_empty in H. cbn [itg_bind fst snd] in H. rewrite Hp2 in H. injection H as <-.
  split; [exact Hp2|exact Hall].
Qed.

(* ================================================================================================ *)
(* Summary                                                                                          *)
(* ================================================================================================ *)
(* proved, for any store / update / number of clients and blocks:
   (a) itg_apply_terminates (and itg_apply_with_terminates for any merge function; itg_integrate_fuel_ok for the
       loop of Update::integrate; itg_apply_rec_agrees: the literal recursion computes the same)
   (b) itg_causal_safety, itg_causal_step
   (c) itg_integrate_conserves (blocks, inside Update::integrate), itg_trim_correct (BlockSet::exclude),
       itg_step_conserves (ids, steps 1-3 of apply_update), itg_missing_guarantee, itg_integrate_moves (nothing
       is created), no id twice: itg_log_disjoint in itg_causal_safety
   (d) itg_integrate_complete (Update::integrate), itg_apply_complete (apply_update on a store without a stash),
       itg_apply_complete_stash (with a stash, under two explicit hypotheses);
       refuted without the client-order condition / for a block behind another block of its client:
       IntegrateCases.v itg_complete_weak_closure_refuted, itg_complete_refuted
   (e) itg_retry_progress, itg_retry_final
   (f) itg_sub_deliver_with, itg_sub_deliver, itg_deliver_equal

   stated, NOT proved:
   (d) with a stash.  "If (stash + update) is causally closed w.r.t. the store (ranking as in itg_apply_complete, over
       the blocks of both), then after apply_update nothing is pending."  What is missing: (1) the retry must fire,
       which needs an invariant that ties the entries of pending.missing to the blocks of the stash across
       merge_updates (each block at the head of a client's list in the stash was set aside at a switch that
       recorded an id with the client of one of its dependencies and a clock not above it); (2) that the blocks of
       merge_updates [stash; rest] are again pieces of the blocks of stash and rest with the same dependency ids
       (Crdt/MergeProofs.v gives this at unit level under mrg_wf_norm, i.e. for views of one history).
       With both, itg_integrate_complete applies to the re-application.
   (e) eventual.  "Once every update of a causally closed history (closed with a ranking that respects each
       client's clocks, as real histories are) has been applied, in any order and with any duplicates, nothing is
       pending and the integrated ids are those of the history."  Not proved (same two gaps).  Not refuted either:
       tests/itg_fuzz.rs delivered 40000 random histories of 2-4 clients (3-16 transactions, random order,
       duplicates, merged updates) to the Rust library: none left a stash once everything had been delivered.
       Argument: when all updates have been delivered, take the lowest-ranked block b that is not integrated; it
       is in the stash (conservation) at the head of its client; the run that set it aside recorded a missing id
       (X, k) with k at most the clock of a dependency of b; that id is integrated now, so the entry of X in
       pending.missing, (X, k') with k' <= k, is integrated as well - or lies in a block ranked below b, which is
       integrated by the choice of b -, and an integrated entry makes the test at the end of the apply_update
       that integrated it succeed (entries recorded by the run of the incoming update itself are only tested by
       the next apply_update, but then b would have been found integrable in that very run).
   not proved either: that on reachable stores and well-formed updates the model never leaves its domain
   (itg_undef); by itg_trim_correct BlockSet::exclude does not; for BlockStore::push this needs two more invariants
   of the block lists (no two adjacent Skips, last block not a Skip).  1774 + 140 replayed steps never did. *)

Print Assumptions itg_apply_terminates.
Print Assumptions itg_apply_with_terminates.
Print Assumptions itg_apply_rec_agrees.
Print Assumptions itg_causal_safety.
Print Assumptions itg_causal_step.
Print Assumptions itg_integrate_conserves.
Print Assumptions itg_trim_correct.
Print Assumptions itg_step_conserves.
Print Assumptions itg_missing_guarantee.
Print Assumptions itg_integrate_moves.
Print Assumptions itg_integrate_complete.
Print Assumptions itg_apply_complete.
Print Assumptions itg_apply_complete_stash.
Print Assumptions itg_retry_progress.
Print Assumptions itg_retry_final.
Print Assumptions itg_sub_deliver_with.
Print Assumptions itg_sub_deliver.
Print Assumptions itg_deliver_equal.
Print Assumptions itg_is_missing_spec.
