(* Proofs about RichText.v: the local rich-text operations of yrs (text.rs) refine the sequential data
   structure "list of elements, each carrying a finite map of attributes".

   How equality of attribute maps is stated: [requiv] of EventsProofs.v, i.e. the two lists have the same
   elements in the same order and at every position [amap_eqb m1 m2 = true] - every entry of either map is an
   entry of the other (equality as finite maps; the order of the entries is not compared).

   Main results (all unbounded, for all order hints o1 o2 and all id supplies):
     rt_insert_with_attributes_refines, rt_format_refines, rt_insert_refines, rt_insert_embed_refines,
     rt_remove_range_raw_refines (without clean_format_gap: plain equality),
     rt_remove_range_refines (with clean_format_gap as repaired in commit b6f7856; before that commit a live embedded
       shared type did not end the gap and the clean-up deleted markers that were still needed:
       rt_remove_range_former_witness is the list that refuted refinement then),
     rt_apply_refines (the five together), rt_apply_wf (the invariant), rt_render_live (tombstones are invisible),
     rt_format_noop (nothing is created or deleted when the attributes are in force). *)
From Coq Require Import List NArith Bool Arith Lia.
From YV Require Import Codec.UpdateV1 Crdt.Events Crdt.EventsProofs.
From YV Require Import Crdt.RichText.
Import ListNotations.
Open Scope N_scope.

(* ---------------------------------------------------------------------------------------------- *)
(* 1. attribute maps *)

Lemma rt_getd_getd m k : rt_getd m k = getd m k.
Proof. reflexivity. Qed.

(* equal as finite maps, NULL = absent *)
Definition rt_meq (a b : amap) : Prop := forall k, getd a k = getd b k.

Lemma rt_meq_refl a : rt_meq a a.
Proof. intros k; reflexivity. Qed.
Lemma rt_meq_sym a b : rt_meq a b -> rt_meq b a.
Proof. intros H k; symmetry; apply H. Qed.
Lemma rt_meq_trans a b c : rt_meq a b -> rt_meq b c -> rt_meq a c.
Proof. intros H1 H2 k; rewrite H1; apply H2. Qed.
Lemma rt_meq_update a b k v : rt_meq a b -> rt_meq (am_update a k v) (am_update b k v).
Proof. intros H k'. rewrite !getd_update. destruct (k =? k'); auto. Qed.

Lemma rt_attrs_ok_wfm m : rt_attrs_ok m = true -> wfm m.
Proof.
  induction m as [|[k v] r IH]; cbn; trivial.
  intros H. apply andb_true_iff in H. destruct H as [H1 H2]. split; auto.
  unfold rt_mem in H1. destruct (am_get r k); [discriminate | reflexivity].
Qed.

Lemma rt_wfm_attrs_ok m : wfm m -> rt_attrs_ok m = true.
Proof.
  induction m as [|[k v] r IH]; cbn; trivial.
  intros [H1 H2]. unfold rt_mem. rewrite H1. cbn. auto.
Qed.

Lemma rt_wfm_app a b : wfm a -> wfm b -> (forall k, am_get a k <> None -> am_get b k = None) -> wfm (a ++ b).
Proof.
  induction a as [|[k v] r IH]; cbn; trivial.
  intros [H1 H2] Hb Hd. split.
  - rewrite am_get_app, H1. apply Hd. rewrite N.eqb_refl. discriminate.
  - apply IH; trivial. intros k' Hk'. apply Hd. destruct (k =? k'); [discriminate | trivial].
Qed.

Lemma rt_get_filter (p : tok -> bool) m k :
  am_get (filter (fun kv => p (fst kv)) m) k = if p k then am_get m k else None.
Proof.
  induction m as [|[k1 v1] r IH]; cbn.
  - now destruct (p k).
  - destruct (p k1) eqn:E1; cbn.
    + destruct (k1 =? k) eqn:E; trivial. apply N.eqb_eq in E. subst. now rewrite E1.
    + rewrite IH. destruct (k1 =? k) eqn:E; trivial. apply N.eqb_eq in E. subst. now rewrite E1.
Qed.

Lemma rt_wfm_filter (p : tok -> bool) m : wfm m -> wfm (filter (fun kv => p (fst kv)) m).
Proof.
  induction m as [|[k1 v1] r IH]; cbn; trivial.
  intros [H1 H2]. destruct (p k1); cbn; auto. split; auto.
  rewrite rt_get_filter, H1. now destruct (p k1).
Qed.

Definition rt_pick (m : amap) (k : tok) : amap := match am_get m k with Some v => [(k, v)] | None => [] end.

Lemma rt_get_picks m ks k :
  am_get (flat_map (rt_pick m) ks) k = if existsb (N.eqb k) ks then am_get m k else None.
Proof.
  induction ks as [|k1 r IH]; cbn; trivial.
  rewrite am_get_app, IH. unfold rt_pick.
  destruct (k =? k1) eqn:E.
  - apply N.eqb_eq in E. subst k1. cbn. destruct (am_get m k) eqn:G; cbn.
    + now rewrite N.eqb_refl.
    + now destruct (existsb (N.eqb k) r).
  - cbn. destruct (am_get m k1); cbn; trivial. rewrite N.eqb_sym, E. trivial.
Qed.

Lemma rt_wfm_picks m ks : NoDup ks -> wfm (flat_map (rt_pick m) ks).
Proof.
  induction 1 as [|k1 r Hn Hd IH]; cbn; trivial.
  unfold rt_pick at 1. destruct (am_get m k1); cbn; trivial. split; trivial.
  rewrite rt_get_picks.
  destruct (existsb (N.eqb k1) r) eqn:E; trivial.
  apply existsb_exists in E. destruct E as [x [Hx E]]. apply N.eqb_eq in E. subst. contradiction.
Qed.

Lemma rt_existsb_nodup k o : existsb (N.eqb k) (nodup N.eq_dec o) = existsb (N.eqb k) o.
Proof.
  destruct (existsb (N.eqb k) o) eqn:E.
  - apply existsb_exists in E. destruct E as [x [Hx E]]. apply existsb_exists. exists x. split; trivial.
    now apply nodup_In.
  - destruct (existsb (N.eqb k) (nodup N.eq_dec o)) eqn:E2; trivial.
    apply existsb_exists in E2. destruct E2 as [x [Hx E2]]. apply nodup_In in Hx.
    assert (existsb (N.eqb k) o = true) by (apply existsb_exists; eauto). congruence.
Qed.

Lemma rt_order_eq o m :
  rt_order o m = flat_map (rt_pick m) (nodup N.eq_dec o) ++ filter (fun kv => negb (existsb (N.eqb (fst kv)) o)) m.
Proof. reflexivity. Qed.

(* the iteration order does not change the map *)
Lemma rt_get_order o m k : am_get (rt_order o m) k = am_get m k.
Proof.
  rewrite rt_order_eq. rewrite am_get_app. rewrite rt_get_picks, rt_existsb_nodup.
  rewrite (rt_get_filter (fun k => negb (existsb (N.eqb k) o))).
  destruct (existsb (N.eqb k) o); cbn; trivial. now destruct (am_get m k).
Qed.

Lemma rt_wfm_order o m : wfm m -> wfm (rt_order o m).
Proof.
  intros Hm. rewrite rt_order_eq. apply rt_wfm_app.
  - apply rt_wfm_picks, NoDup_nodup.
  - now apply (rt_wfm_filter (fun k => negb (existsb (N.eqb k) o))).
  - intros k Hk. rewrite rt_get_picks, rt_existsb_nodup in Hk.
    rewrite (rt_get_filter (fun k => negb (existsb (N.eqb k) o))).
    destruct (existsb (N.eqb k) o); cbn; trivial. congruence.
Qed.

Lemma rt_get_all_none m : (forall k, am_get m k = None) -> m = [].
Proof.
  destruct m as [|[k v] r]; trivial. intros H. specialize (H k). cbn in H. rewrite N.eqb_refl in H. discriminate.
Qed.

Lemma rt_opt_tok_eqb_true o v : opt_tok_eqb o v = true <-> o = Some v.
Proof.
  destruct o as [x|]; cbn.
  - rewrite N.eqb_eq. split; [intros -> | intros [= ->]]; trivial.
  - split; discriminate.
Qed.

(* ---------------------------------------------------------------------------------------------- *)
(* 2. rendering *)

(* the attributes in force after the items of l *)
Fixpoint rt_aft (cur : amap) (l : list rt_item) : amap :=
  match l with
  | [] => cur
  | x :: r =>
    rt_aft (if rt_del x then cur else match rt_cont x with RFormat k v => am_update cur k v | _ => cur end) r
  end.

(* items that Text::diff does not report *)
Definition rt_quiet (x : rt_item) : bool := rt_del x || negb (rt_countable x).

Lemma rt_run_app cur a b : rt_run cur (a ++ b) = rt_run cur a ++ rt_run (rt_aft cur a) b.
Proof.
  revert cur. induction a as [|x r IH]; intros cur; cbn; trivial.
  destruct (rt_del x); [apply IH|].
  destruct (rt_cont x); cbn; rewrite ?IH; trivial.
Qed.

Lemma rt_aft_app cur a b : rt_aft cur (a ++ b) = rt_aft (rt_aft cur a) b.
Proof. revert cur. induction a as [|x r IH]; intros cur; cbn; trivial. Qed.

Lemma rt_run_quiet l : forallb rt_quiet l = true -> forall cur, rt_run cur l = [].
Proof.
  induction l as [|x r IH]; cbn; trivial. intros H cur. apply andb_true_iff in H. destruct H as [H1 H2].
  unfold rt_quiet, rt_countable in H1. destruct (rt_del x); [auto|].
  destruct (rt_cont x); cbn in H1; try discriminate; auto.
Qed.

Lemma rt_aft_clean l : forall cur, clean cur -> clean (rt_aft cur l).
Proof.
  induction l as [|x r IH]; intros cur Hc; cbn; trivial. apply IH.
  destruct (rt_del x); trivial. destruct (rt_cont x); trivial. now apply clean_update.
Qed.

Lemma rt_aft_meq l : forall c c', rt_meq c c' -> rt_meq (rt_aft c l) (rt_aft c' l).
Proof.
  induction l as [|x r IH]; intros c c' H; cbn; trivial. apply IH.
  destruct (rt_del x); trivial. destruct (rt_cont x); trivial. now apply rt_meq_update.
Qed.

(* element lists up to equality of the maps as finite maps *)
Definition rt_req (a b : list relem) : Prop := Forall2 (fun x y => fst x = fst y /\ rt_meq (snd x) (snd y)) a b.

Lemma rt_req_refl a : rt_req a a.
Proof. induction a; constructor; auto. split; trivial. apply rt_meq_refl. Qed.
Lemma rt_req_app a1 a2 b1 b2 : rt_req a1 b1 -> rt_req a2 b2 -> rt_req (a1 ++ a2) (b1 ++ b2).
Proof. apply Forall2_app. Qed.
Lemma rt_req_trans a b c : rt_req a b -> rt_req b c -> rt_req a c.
Proof.
  intros H. revert c. induction H as [|x y a b [H1 H2] _ IH]; intros c Hc.
  - inversion Hc. constructor.
  - inversion Hc as [|y' z b' c' [H3 H4] Hr]; subst. constructor.
    + split; [congruence | eapply rt_meq_trans; eauto].
    + apply IH, Hr.
Qed.
Lemma rt_req_sym a b : rt_req a b -> rt_req b a.
Proof. induction 1 as [|x y a b [H1 H2] _ IH]; constructor; auto. split; auto. now apply rt_meq_sym. Qed.
Lemma rt_req_eq a b : a = b -> rt_req a b.
Proof. intros ->. apply rt_req_refl. Qed.

Lemma rt_run_meq l : forall c c', rt_meq c c' -> rt_req (rt_run c l) (rt_run c' l).
Proof.
  induction l as [|x r IH]; intros c c' H; cbn; [constructor|].
  destruct (rt_del x); [auto|].
  destruct (rt_cont x).
  - constructor; [split; [reflexivity | exact H] | apply IH, H].
  - constructor; [split; [reflexivity | exact H] | apply IH, H].
  - constructor; [split; [reflexivity | exact H] | apply IH, H].
  - apply IH. now apply rt_meq_update.
  - apply IH, H.
Qed.

Definition rt_allclean (t : list relem) : Prop := Forall (fun e => clean (snd e)) t.

Lemma rt_run_allclean l : forall c, clean c -> rt_allclean (rt_run c l).
Proof.
  induction l as [|x r IH]; intros c Hc; cbn; [constructor|].
  destruct (rt_del x); [auto|].
  destruct (rt_cont x).
  - constructor; [exact Hc | apply IH, Hc].
  - constructor; [exact Hc | apply IH, Hc].
  - constructor; [exact Hc | apply IH, Hc].
  - apply IH. now apply clean_update.
  - apply IH, Hc.
Qed.

Lemma rt_render_allclean l : rt_allclean (rt_render l).
Proof. apply rt_run_allclean, clean_nil. Qed.

Lemma rt_req_requiv a b : rt_req a b -> rt_allclean a -> rt_allclean b -> requiv a b.
Proof.
  induction 1 as [|x y a b [H1 H2] _ IH]; intros Ha Hb; [constructor|].
  inversion Ha as [|? ? Hx Hxs]; inversion Hb as [|? ? Hy Hys]; subst. constructor.
  - split; [exact H1 | now apply amap_eqb_getd].
  - apply IH; assumption.
Qed.

Lemma rt_allclean_app a b : rt_allclean a -> rt_allclean b -> rt_allclean (a ++ b).
Proof. intros; apply Forall_app; auto. Qed.
Lemma rt_allclean_firstn n a : rt_allclean a -> rt_allclean (firstn n a).
Proof. intros H. unfold rt_allclean in *. rewrite <- (firstn_skipn n a) in H. apply Forall_app in H. tauto. Qed.
Lemma rt_allclean_skipn n a : rt_allclean a -> rt_allclean (skipn n a).
Proof. intros H. unfold rt_allclean in *. rewrite <- (firstn_skipn n a) in H. apply Forall_app in H. tauto. Qed.

Lemma rt_norm_attrs_clean attrs : clean (rt_norm_attrs attrs).
Proof. apply (rs_clean attrs []), clean_nil. Qed.

(* (d) tombstones, deleted markers included, never influence what is rendered *)
Theorem rt_render_live : forall l, rt_render l = rt_render (filter (fun x => negb (rt_del x)) l).
Proof.
  intros l. unfold rt_render. generalize (@nil (tok * tok)) as c.
  induction l as [|x r IH]; intros c; cbn; trivial.
  destruct (rt_del x) eqn:E; cbn; [apply IH|]. rewrite E.
  destruct (rt_cont x); rewrite ?IH; trivial.
Qed.

(* ---------------------------------------------------------------------------------------------- *)
(* 3. find_position *)

(* the attributes of the element left of position n; c at the very start *)
Definition rt_left (c : amap) (t : list relem) (n : nat) : amap :=
  match n with
  | O => c
  | S j => match nth_error t j with Some e => snd e | None => [] end
  end.

Lemma rt_left_attrs_left t n : rt_left_attrs t n = rt_left [] t n.
Proof. reflexivity. Qed.

Lemma rt_wf_cons x r : rt_wf (x :: r) = true -> rt_wf_item x = true /\ rt_wf r = true.
Proof. cbn. intros H. apply andb_true_iff in H. exact H. Qed.

Lemma rt_wf_app a b : rt_wf (a ++ b) = rt_wf a && rt_wf b.
Proof. apply forallb_app. Qed.

Lemma rt_find_position_sem : forall l n fp0 a b fp,
  rt_wf l = true ->
  rt_find_position l n fp0 = (a, b, fp) ->
  l = a ++ b /\ fp = rt_aft fp0 a /\
  (forall c, rt_run c a = firstn n (rt_run c l) /\ rt_run (rt_aft c a) b = skipn n (rt_run c l)) /\
  (forall c, (n <= length (rt_run c l))%nat -> rt_aft c a = rt_left c (rt_run c l) n).
Proof.
  induction l as [|x rest IH]; intros n fp0 a b fp Hwf H.
  - cbn in H. inversion H; subst. split; [reflexivity|]. split; [reflexivity|]. split.
    + intros c. cbn. now destruct n.
    + intros c Hn. cbn in Hn. assert (n = O) by lia. subst. reflexivity.
  - apply rt_wf_cons in Hwf. destruct Hwf as [Hx Hwf].
    destruct n as [|n'].
    + cbn in H. inversion H; subst. repeat split; reflexivity.
    + cbn [rt_find_position] in H.
      destruct (rt_del x) eqn:Ed.
      * destruct (rt_find_position rest (S n') fp0) as [[a' b'] fp'] eqn:E. inversion H; subst.
        destruct (IH _ _ _ _ _ Hwf E) as (H1 & H2 & H3 & H4).
        split; [cbn; congruence|]. split; [cbn; rewrite Ed; exact H2|].
        split; intros c; cbn [rt_run rt_aft]; rewrite Ed; [apply H3 | apply H4].
      * destruct (rt_cont x) eqn:Ec.
        -- destruct (rt_find_position rest n' fp0) as [[a' b'] fp'] eqn:E. inversion H; subst.
           destruct (IH _ _ _ _ _ Hwf E) as (H1 & H2 & H3 & H4).
           split; [cbn; congruence|]. split; [cbn; rewrite Ed, Ec; exact H2|].
           split; intros c; cbn [rt_run rt_aft]; rewrite Ed, Ec; cbn [firstn skipn length].
           ++ destruct (H3 c) as [H5 H6]. rewrite H5, H6. split; reflexivity.
           ++ intros Hn. rewrite H4 by lia. destruct n'; reflexivity.
        -- destruct (rt_find_position rest n' fp0) as [[a' b'] fp'] eqn:E. inversion H; subst.
           destruct (IH _ _ _ _ _ Hwf E) as (H1 & H2 & H3 & H4).
           split; [cbn; congruence|]. split; [cbn; rewrite Ed, Ec; exact H2|].
           split; intros c; cbn [rt_run rt_aft]; rewrite Ed, Ec; cbn [firstn skipn length].
           ++ destruct (H3 c) as [H5 H6]. rewrite H5, H6. split; reflexivity.
           ++ intros Hn. rewrite H4 by lia. destruct n'; reflexivity.
        -- destruct (rt_find_position rest n' fp0) as [[a' b'] fp'] eqn:E. inversion H; subst.
           destruct (IH _ _ _ _ _ Hwf E) as (H1 & H2 & H3 & H4).
           split; [cbn; congruence|]. split; [cbn; rewrite Ed, Ec; exact H2|].
           split; intros c; cbn [rt_run rt_aft]; rewrite Ed, Ec; cbn [firstn skipn length].
           ++ destruct (H3 c) as [H5 H6]. rewrite H5, H6. split; reflexivity.
           ++ intros Hn. rewrite H4 by lia. destruct n'; reflexivity.
        -- destruct (rt_find_position rest (S n') (am_update fp0 k v)) as [[a' b'] fp'] eqn:E. inversion H; subst.
           destruct (IH _ _ _ _ _ Hwf E) as (H1 & H2 & H3 & H4).
           split; [cbn; congruence|]. split; [cbn; rewrite Ed, Ec; exact H2|].
           split; intros c; cbn [rt_run rt_aft]; rewrite Ed, Ec; [apply H3 |].
           intros Hn. rewrite H4 by exact Hn. reflexivity.
        -- unfold rt_wf_item in Hx. rewrite Ec, Ed in Hx. discriminate.
Qed.

Lemma rt_init_cur_map fp : rt_cur_map (rt_init_cur fp) = fp.
Proof. destruct fp; reflexivity. Qed.

(* ---------------------------------------------------------------------------------------------- *)
(* 4. minimize_attr_changes *)

(* only tombstones and live markers (k, v) with attrs[k] = v *)
Definition rt_mini_item (attrs : amap) (x : rt_item) : bool :=
  rt_del x || match rt_cont x with RFormat k v => opt_tok_eqb (am_get attrs k) v | _ => false end.

Lemma rt_mini_quiet attrs p : forallb (rt_mini_item attrs) p = true -> forallb rt_quiet p = true.
Proof.
  intros H. apply forallb_forall. intros x Hx. eapply forallb_forall in H; eauto.
  unfold rt_mini_item in H. unfold rt_quiet, rt_countable. destruct (rt_del x); trivial.
  destruct (rt_cont x); cbn in *; trivial; discriminate.
Qed.

Lemma rt_forward_cur_map cur x :
  rt_cur_map (rt_forward_cur cur x) = rt_aft (rt_cur_map cur) [x].
Proof.
  unfold rt_forward_cur. cbn. destruct (rt_del x); trivial. destruct (rt_cont x); trivial.
Qed.

Lemma rt_minimize_sem attrs : forall r cur p r' cur',
  rt_minimize attrs cur r = (p, r', cur') ->
  r = p ++ r' /\ forallb (rt_mini_item attrs) p = true /\ rt_cur_map cur' = rt_aft (rt_cur_map cur) p.
Proof.
  induction r as [|x rest IH]; intros cur p r' cur' H.
  - cbn in H. inversion H; subst. auto.
  - cbn [rt_minimize] in H. destruct (rt_del x) eqn:Ed.
    + destruct (rt_minimize attrs cur rest) as [[a b] c] eqn:E. inversion H; subst.
      destruct (IH _ _ _ _ E) as (H1 & H2 & H3). repeat split.
      * cbn; congruence.
      * cbn. unfold rt_mini_item at 1. rewrite Ed. exact H2.
      * cbn. rewrite Ed. exact H3.
    + destruct (rt_cont x) eqn:Ec; try (inversion H; subst; auto; fail).
      destruct (opt_tok_eqb (am_get attrs k) v) eqn:Eq; [|inversion H; subst; auto].
      destruct (rt_minimize attrs (rt_forward_cur cur x) rest) as [[a b] c] eqn:E. inversion H; subst.
      destruct (IH _ _ _ _ E) as (H1 & H2 & H3). repeat split.
      * cbn; congruence.
      * cbn. unfold rt_mini_item at 1. rewrite Ed, Ec, Eq. exact H2.
      * rewrite H3, rt_forward_cur_map. reflexivity.
Qed.

(* what such a prefix does to the attributes in force *)
Lemma rt_mini_aft attrs p : forallb (rt_mini_item attrs) p = true -> forall c k,
  getd (rt_aft c p) k = getd c k \/ am_get attrs k = Some (getd (rt_aft c p) k).
Proof.
  induction p as [|x r IH]; intros H c k; cbn; auto.
  cbn in H. apply andb_true_iff in H. destruct H as [Hx H].
  unfold rt_mini_item in Hx. destruct (rt_del x); [auto|]. cbn in Hx.
  destruct (rt_cont x); try discriminate. apply rt_opt_tok_eqb_true in Hx.
  destruct (IH H (am_update c k0 v) k) as [H1|H1]; auto.
  rewrite H1, getd_update. destruct (k0 =? k) eqn:E; auto. apply N.eqb_eq in E. subst. auto.
Qed.


(* ---------------------------------------------------------------------------------------------- *)
(* 5. insert_attributes *)

Lemma rt_insert_attributes_sem ids : forall it cur neg0 n m cur' neg n',
  wfm it ->
  rt_insert_attributes it cur neg0 ids n = (m, cur', neg, n') ->
  forallb rt_quiet m = true /\
  (forall k, getd (rt_aft (rt_cur_map cur) m) k =
             match am_get it k with Some v => v | None => getd (rt_cur_map cur) k end) /\
  (forall k, am_get neg k =
             match am_get it k with
             | Some v => if v =? getd (rt_cur_map cur) k then am_get neg0 k else Some (getd (rt_cur_map cur) k)
             | None => am_get neg0 k
             end) /\
  (wfm neg0 -> wfm neg) /\ rt_wf m = true.
Proof.
  induction it as [|[k v] rest IH]; intros cur neg0 n m cur' neg n' Hw H.
  - cbn in H. inversion H; subst. cbn. auto.
  - destruct Hw as [Hk Hw]. cbn [rt_insert_attributes] in H.
    unfold rt_cur_get in H. rewrite rt_getd_getd in H.
    destruct (v =? getd (rt_cur_map cur) k) eqn:Ev.
    + destruct (IH _ _ _ _ _ _ _ Hw H) as (H1 & H2 & H3 & H4 & H5).
      apply N.eqb_eq in Ev.
      split; [exact H1|]. split; [|split; [|split; [exact H4 | exact H5]]].
      * intros k'. rewrite H2. cbn [am_get]. destruct (k =? k') eqn:E; trivial.
        apply N.eqb_eq in E. subst k'. rewrite Hk. auto.
      * intros k'. rewrite H3. cbn [am_get]. destruct (k =? k') eqn:E; trivial.
        apply N.eqb_eq in E. subst k'. rewrite Hk. rewrite <- Ev. now rewrite N.eqb_refl.
    + set (x := rt_mk (ids n) false (RFormat k v)) in *.
      destruct (rt_insert_attributes rest (rt_forward_cur cur x) (am_insert neg0 k (getd (rt_cur_map cur) k)) ids (S n))
        as [[[a c] ng] n2] eqn:E.
      inversion H; subst m cur' neg n'. clear H.
      destruct (IH _ _ _ _ _ _ _ Hw E) as (H1 & H2 & H3 & H4 & H5).
      assert (Hc : rt_cur_map (rt_forward_cur cur x) = am_update (rt_cur_map cur) k v) by reflexivity.
      rewrite Hc in *.
      split; [exact H1|]. split; [|split; [|split]].
      * intros k'. cbn [rt_aft]. change (rt_del x) with false. change (rt_cont x) with (RFormat k v). cbn iota.
        rewrite H2. cbn [am_get]. rewrite getd_update. destruct (k =? k') eqn:E2; trivial.
        apply N.eqb_eq in E2. subst k'. now rewrite Hk.
      * intros k'. rewrite H3. cbn [am_get]. rewrite getd_update, am_get_insert.
        destruct (k =? k') eqn:E2.
        -- apply N.eqb_eq in E2. subst k'. rewrite Hk, Ev. reflexivity.
        -- reflexivity.
      * intros Hn. apply H4. now apply wfm_insert.
      * cbn. exact H5.
Qed.

Lemma rt_new_formats_aft ids : forall it n c, rt_aft c (rt_new_formats it ids n) = rs it c.
Proof. induction it as [|[k v] rest IH]; intros n c; cbn; auto. Qed.

Lemma rt_new_formats_quiet ids : forall it n, forallb rt_quiet (rt_new_formats it ids n) = true.
Proof. induction it as [|[k v] rest IH]; intros n; cbn; auto. Qed.

Lemma rt_new_formats_wf ids : forall it n, rt_wf (rt_new_formats it ids n) = true.
Proof. induction it as [|[k v] rest IH]; intros n; cbn; auto. Qed.

Lemma rt_new_chars_run ids : forall chars n c X,
  rt_run c (rt_new_chars chars ids n ++ X) = map (fun u => (EUnit u, c)) chars ++ rt_run c X.
Proof. induction chars as [|u rest IH]; intros n c X; cbn; trivial. now rewrite IH. Qed.

Lemma rt_new_chars_run1 ids : forall chars n c,
  rt_run c (rt_new_chars chars ids n) = map (fun u => (EUnit u, c)) chars.
Proof. induction chars as [|u rest IH]; intros n c; cbn; trivial. now rewrite IH. Qed.

Lemma rt_new_chars_aft ids : forall chars n c, rt_aft c (rt_new_chars chars ids n) = c.
Proof. induction chars as [|u rest IH]; intros n c; cbn; auto. Qed.

Lemma rt_new_chars_wf ids : forall chars n, rt_wf (rt_new_chars chars ids n) = true.
Proof. induction chars as [|u rest IH]; intros n; cbn; auto. Qed.

(* ---------------------------------------------------------------------------------------------- *)
(* 6. insert_negated_attributes *)

(* o: the attributes in force in the text as it was, c: in the text as it is now, neg: what is still owed *)
Definition rt_post (o c neg : amap) : Prop :=
  forall k, match am_get neg k with Some w => getd o k = w | None => getd c k = getd o k end.

Lemma rt_neg_skip_sem : forall r neg p r' neg' o c,
  rt_neg_skip neg r = (p, r', neg') -> wfm neg -> rt_post o c neg ->
  r = p ++ r' /\ forallb rt_quiet p = true /\ wfm neg' /\ rt_post (rt_aft o p) (rt_aft c p) neg'.
Proof.
  induction r as [|x rest IH]; intros neg p r' neg' o c H Hw Hp.
  - cbn in H. inversion H; subst. cbn. auto.
  - cbn [rt_neg_skip] in H. destruct (rt_del x) eqn:Ed.
    + destruct (rt_neg_skip neg rest) as [[a b] ng] eqn:E. inversion H; subst.
      destruct (IH _ _ _ _ o c E Hw Hp) as (H1 & H2 & H3 & H4). repeat split; trivial.
      * cbn; congruence.
      * cbn. unfold rt_quiet at 1. rewrite Ed. exact H2.
      * cbn [rt_aft]. rewrite Ed. exact H4.
    + destruct (rt_cont x) eqn:Ec; try (inversion H; subst; cbn; auto; fail).
      destruct (opt_tok_eqb (am_get neg k) v) eqn:Eq; [|inversion H; subst; cbn; auto].
      apply rt_opt_tok_eqb_true in Eq.
      destruct (rt_neg_skip (am_remove neg k) rest) as [[a b] ng] eqn:E. inversion H; subst.
      assert (Hp' : rt_post (am_update o k v) (am_update c k v) (am_remove neg k)).
      { intros k'. rewrite am_get_remove, !getd_update. destruct (k =? k') eqn:E2; trivial. apply Hp. }
      destruct (IH _ _ _ _ _ _ E (wfm_remove _ _ Hw) Hp') as (H1 & H2 & H3 & H4). repeat split; trivial.
      * cbn; congruence.
      * cbn. unfold rt_quiet at 1. unfold rt_countable. rewrite Ec. rewrite orb_true_r. exact H2.
      * cbn [rt_aft]. rewrite Ed, Ec. exact H4.
Qed.

Lemma rt_neg_skip_wf : forall r neg p r' neg',
  rt_neg_skip neg r = (p, r', neg') -> rt_wf r = true -> rt_wf p = true /\ rt_wf r' = true.
Proof.
  induction r as [|x rest IH]; intros neg p r' neg' H Hwf.
  - cbn in H. inversion H; subst. auto.
  - pose proof Hwf as Hwf0. apply rt_wf_cons in Hwf. destruct Hwf as [Hx Hwf].
    cbn [rt_neg_skip] in H. destruct (rt_del x) eqn:Ed.
    + destruct (rt_neg_skip neg rest) as [[a b] ng] eqn:E. inversion H; subst.
      destruct (IH _ _ _ _ E Hwf). split; trivial. cbn. now rewrite Hx.
    + destruct (rt_cont x) eqn:Ec; try (inversion H; subst; auto; fail).
      destruct (opt_tok_eqb (am_get neg k) v) eqn:Eq; [|inversion H; subst; auto].
      destruct (rt_neg_skip (am_remove neg k) rest) as [[a b] ng] eqn:E. inversion H; subst.
      destruct (IH _ _ _ _ E Hwf). split; trivial. cbn. now rewrite Hx.
Qed.

Lemma rt_insert_negated_sem o2 ids n : forall r neg o c, wfm neg -> rt_post o c neg ->
  rt_req (rt_run c (rt_insert_negated o2 neg r ids n)) (rt_run o r).
Proof.
  intros r neg o c Hw Hp. unfold rt_insert_negated.
  destruct (rt_neg_skip neg r) as [[p r'] neg'] eqn:E.
  destruct (rt_neg_skip_sem _ _ _ _ _ o c E Hw Hp) as (H1 & H2 & H3 & H4). subst r.
  rewrite !rt_run_app, !(rt_run_quiet _ H2), (rt_run_quiet _ (rt_new_formats_quiet ids _ n)). cbn [app].
  rewrite rt_new_formats_aft. apply rt_run_meq. intros k.
  rewrite rs_getd by now apply rt_wfm_order. rewrite rt_get_order.
  specialize (H4 k). destruct (am_get neg' k); auto.
Qed.

Lemma rt_insert_negated_wf o2 ids n r neg : rt_wf r = true -> rt_wf (rt_insert_negated o2 neg r ids n) = true.
Proof.
  intros H. unfold rt_insert_negated. destruct (rt_neg_skip neg r) as [[p r'] neg'] eqn:E.
  destruct (rt_neg_skip_wf _ _ _ _ _ E H) as [H0 H1]. rewrite !rt_wf_app, rt_new_formats_wf. now rewrite H0, H1.
Qed.

(* ---------------------------------------------------------------------------------------------- *)
(* 7. the loop of insert_format *)

(* neg holds, for every key of attrs, the value in force in the text as it was - unless that is the new value *)
Definition rt_inv (attrs o neg : amap) : Prop :=
  forall k, am_get neg k = match am_get attrs k with
                           | Some v => if v =? getd o k then None else Some (getd o k)
                           | None => None
                           end.
(* c = o restyled by attrs *)
Definition rt_styled (attrs o c : amap) : Prop :=
  forall k, getd c k = match am_get attrs k with Some v => v | None => getd o k end.

Lemma rt_inv_post attrs o c neg : rt_inv attrs o neg -> rt_styled attrs o c -> rt_post o c neg.
Proof.
  intros Hi Hs k. rewrite Hi, Hs. destruct (am_get attrs k) as [v|]; trivial.
  destruct (v =? getd o k) eqn:E; trivial. now apply N.eqb_eq in E.
Qed.

Lemma rt_styled_rs attrs o c : wfm attrs -> rt_styled attrs o c -> rt_meq c (rs attrs o).
Proof. intros Hw Hs k. rewrite rs_getd by trivial. apply Hs. Qed.

Lemma rt_format_loop_sem attrs : wfm attrs -> forall r len neg o c p r' neg',
  rt_wf r = true -> wfm neg -> rt_inv attrs o neg -> rt_styled attrs o c ->
  rt_format_loop attrs r len neg = (p, r', neg') ->
  exists o', skipn len (rt_run o r) = rt_run o' r' /\ rt_inv attrs o' neg' /\ rt_styled attrs o' (rt_aft c p) /\
             wfm neg' /\ rt_req (rt_run c p) (map (restyle attrs) (firstn len (rt_run o r))) /\
             rt_wf p = true /\ rt_wf r' = true.
Proof.
  intros Hwa. induction r as [|x rest IH]; intros len neg o c p r' neg' Hwf Hw Hi Hs H.
  - cbn in H. inversion H; subst. exists o. cbn. rewrite skipn_nil, firstn_nil. cbn. repeat split; trivial. constructor.
  - pose proof Hwf as Hwf0. apply rt_wf_cons in Hwf. destruct Hwf as [Hx Hwf].
    cbn [rt_format_loop] in H.
    destruct (negb ((0 <? len)%nat || negb (rt_is_empty neg) && rt_valid_target x)) eqn:Estop.
    + inversion H; subst. apply negb_true_iff, orb_false_iff in Estop. destruct Estop as [El _].
      apply Nat.ltb_ge in El. assert (len = O) by lia. subst len.
      exists o. cbn [skipn firstn map rt_run rt_aft]. repeat split; trivial. constructor.
    + apply negb_false_iff in Estop. destruct (rt_del x) eqn:Ed.
      * destruct (rt_format_loop attrs rest len neg) as [[a b] ng] eqn:E. inversion H; subst.
        destruct (IH _ _ _ _ _ _ _ Hwf Hw Hi Hs E) as (o' & H1 & H2 & H3 & H4 & H5 & H6 & H7).
        exists o'. cbn [rt_run rt_aft]. rewrite Ed. repeat split; trivial. cbn. now rewrite Hx.
      * destruct (rt_cont x) eqn:Ec.
        (* RChar, REmbed, RType: one element of the range *)
        1-3: assert (Hl : exists len', len = S len')
               by (unfold rt_valid_target in Estop; rewrite Ed, Ec in Estop;
                   destruct len as [|len']; [cbn in Estop; rewrite andb_false_r in Estop; discriminate | eauto]);
             destruct Hl as [len' ->]; cbn [pred] in H;
             destruct (rt_format_loop attrs rest len' neg) as [[a b] ng] eqn:E; inversion H; subst;
             destruct (IH _ _ _ _ _ _ _ Hwf Hw Hi Hs E) as (o' & H1 & H2 & H3 & H4 & H5 & H6 & H7);
             exists o'; cbn [rt_run rt_aft]; rewrite Ed, Ec; cbn [skipn firstn map];
             (split; [exact H1|]); (split; [exact H2|]); (split; [exact H3|]); (split; [exact H4|]);
             (split; [|split; [cbn; now rewrite Hx | exact H7]]);
             (constructor; [split; [reflexivity | cbn [snd]; now apply rt_styled_rs] | exact H5]).
        -- (* a marker *)
           destruct (am_get attrs k) as [v'|] eqn:Ea.
           ++ set (neg1 := if v' =? v then am_remove neg k else am_insert neg k v) in *.
              destruct (rt_format_loop attrs rest len neg1) as [[a b] ng] eqn:E. inversion H; subst.
              assert (Hw1 : wfm neg1) by (unfold neg1; destruct (v' =? v); [now apply wfm_remove | now apply wfm_insert]).
              assert (Hi1 : rt_inv attrs (am_update o k v) neg1).
              { intros k'. rewrite getd_update. unfold neg1. destruct (k =? k') eqn:E2.
                - apply N.eqb_eq in E2. subst k'. rewrite Ea. destruct (v' =? v) eqn:E3.
                  + rewrite am_get_remove, N.eqb_refl. reflexivity.
                  + rewrite am_get_insert, N.eqb_refl. reflexivity.
                - destruct (v' =? v); [rewrite am_get_remove | rewrite am_get_insert]; rewrite E2; apply Hi. }
              assert (Hs1 : rt_styled attrs (am_update o k v) c).
              { intros k'. rewrite getd_update, Hs. destruct (k =? k') eqn:E2; trivial.
                apply N.eqb_eq in E2. subst k'. now rewrite Ea. }
              destruct (IH _ _ _ _ _ _ _ Hwf Hw1 Hi1 Hs1 E) as (o' & H1 & H2 & H3 & H4 & H5 & H6 & H7).
              exists o'. cbn [rt_run rt_aft]. rewrite Ed, Ec. cbn [rt_kill rt_del]. repeat split; trivial.
              cbn. unfold rt_wf_item. cbn. rewrite Ec. exact H6.
           ++ destruct (rt_format_loop attrs rest len neg) as [[a b] ng] eqn:E. inversion H; subst.
              assert (Hi1 : rt_inv attrs (am_update o k v) neg).
              { intros k'. rewrite getd_update, Hi. destruct (k =? k') eqn:E2; trivial.
                apply N.eqb_eq in E2. subst k'. now rewrite Ea. }
              assert (Hs1 : rt_styled attrs (am_update o k v) (am_update c k v)).
              { intros k'. rewrite !getd_update, Hs. destruct (k =? k') eqn:E2; trivial.
                apply N.eqb_eq in E2. subst k'. now rewrite Ea. }
              destruct (IH _ _ _ _ _ _ _ Hwf Hw Hi1 Hs1 E) as (o' & H1 & H2 & H3 & H4 & H5 & H6 & H7).
              exists o'. cbn [rt_run rt_aft]. rewrite Ed, Ec. repeat split; trivial. cbn. now rewrite Hx.
        -- unfold rt_wf_item in Hx. rewrite Ec, Ed in Hx. discriminate.
Qed.

(* ---------------------------------------------------------------------------------------------- *)
(* 8. Text::format and Text::insert_with_attributes *)

Lemma rt_allclean_restyle attrs t : rt_allclean t -> rt_allclean (map (restyle attrs) t).
Proof.
  induction 1 as [|[e m] r Hm _ IH]; cbn; constructor; trivial. cbn. now apply rs_clean.
Qed.

Lemma rt_format_req l index len attrs o1 o2 ids :
  rt_wf l = true -> rt_attrs_ok attrs = true ->
  rt_req (rt_render (rt_format l index len attrs o1 o2 ids)) (spec_format (rt_render l) index len attrs) /\
  rt_wf (rt_format l index len attrs o1 o2 ids) = true.
Proof.
  intros Hwf Hok. apply rt_attrs_ok_wfm in Hok. unfold rt_format, rt_render, spec_format.
  destruct (rt_find_position l index []) as [[a b] fp] eqn:Ef.
  destruct (rt_find_position_sem _ _ _ _ _ _ Hwf Ef) as (Hl & Hfp & Hrun & _).
  destruct (Hrun []) as [Hr1 Hr2]. rewrite <- Hr1, <- Hr2, <- Hfp. clear Hrun Hr1 Hr2.
  destruct (rt_minimize attrs (rt_init_cur fp) b) as [[p1 b1] cur1] eqn:Em.
  destruct (rt_minimize_sem _ _ _ _ _ _ Em) as (Hb & Hmini & Hc1). rewrite rt_init_cur_map in Hc1.
  destruct (rt_insert_attributes (rt_order o1 attrs) cur1 [] ids 0) as [[[m cur2] neg] n] eqn:Ei.
  destruct (rt_insert_attributes_sem ids _ _ _ _ _ _ _ _ (rt_wfm_order o1 _ Hok) Ei) as (Hmq & Hma & Hneg & Hnw & Hmw).
  specialize (Hnw I).
  destruct (rt_format_loop attrs b1 len neg) as [[p2 b2] neg2] eqn:El.
  subst l b. rewrite !rt_wf_app in Hwf. apply andb_true_iff in Hwf. destruct Hwf as [Hwa Hwf].
  apply andb_true_iff in Hwf. destruct Hwf as [Hwp1 Hwb1].
  set (c1 := rt_cur_map cur1) in *.
  assert (Hi : rt_inv attrs c1 neg).
  { intros k. rewrite Hneg, rt_get_order. cbn. reflexivity. }
  assert (Hs : rt_styled attrs c1 (rt_aft c1 m)).
  { intros k. rewrite Hma, rt_get_order. reflexivity. }
  destruct (rt_format_loop_sem attrs Hok _ _ _ _ _ _ _ _ Hwb1 Hnw Hi Hs El) as (o' & H1 & H2 & H3 & H4 & H5 & H6 & H7).
  split.
  - rewrite !rt_run_app. rewrite <- Hfp, <- Hc1. fold c1.
    rewrite (rt_run_quiet _ (rt_mini_quiet _ _ Hmini)), (rt_run_quiet _ Hmq). cbn [app].
    apply rt_req_app; [apply rt_req_refl|]. apply rt_req_app; [exact H5|].
    rewrite H1. apply rt_insert_negated_sem; trivial. now apply (rt_inv_post attrs).
  - rewrite !rt_wf_app, Hwa, Hwp1, Hmw, H6. cbn. now apply rt_insert_negated_wf.
Qed.

Theorem rt_format_refines : forall l index len attrs o1 o2 ids,
  rt_wf l = true -> rt_attrs_ok attrs = true ->
  requiv (rt_render (rt_format l index len attrs o1 o2 ids)) (spec_format (rt_render l) index len attrs).
Proof.
  intros. apply rt_req_requiv.
  - now apply rt_format_req.
  - apply rt_render_allclean.
  - unfold spec_format. pose proof (rt_render_allclean l).
    repeat apply rt_allclean_app; auto using rt_allclean_firstn, rt_allclean_skipn, rt_allclean_restyle.
Qed.

Lemma rt_mem_cons k1 v1 r k : rt_mem ((k1, v1) :: r) k = (k1 =? k) || rt_mem r k.
Proof. unfold rt_mem. cbn. now destruct (k1 =? k). Qed.

(* unset_missing as a map *)
Lemma rt_unset_missing_get fp attrs k :
  am_get (rt_unset_missing (rt_init_cur fp) attrs) k =
  match am_get attrs k with Some v => Some v | None => if rt_mem fp k then Some NULL else None end.
Proof.
  destruct fp as [|e fp'].
  - cbn. now destruct (am_get attrs k).
  - set (fp := e :: fp'). change (rt_init_cur fp) with (Some fp). unfold rt_unset_missing.
    rewrite am_get_app. destruct (am_get attrs k) eqn:Ea; trivial.
    generalize fp. clear fp. induction fp as [|[k1 v1] r IH]; cbn; trivial.
    unfold rt_mem in *. destruct (am_get attrs k1) eqn:E1; cbn.
    + rewrite IH. destruct (k1 =? k) eqn:E; trivial. apply N.eqb_eq in E. subst. congruence.
    + rewrite IH. destruct (k1 =? k); trivial.
Qed.

Lemma rt_unset_missing_wfm fp attrs : wfm fp -> wfm attrs -> wfm (rt_unset_missing (rt_init_cur fp) attrs).
Proof.
  intros Hf Ha. destruct fp as [|e fp']; trivial.
  set (fp := e :: fp') in *. change (rt_init_cur fp) with (Some fp). unfold rt_unset_missing.
  assert (Hget : forall m k, am_get (map (fun kv : tok * tok => (fst kv, NULL))
                                 (filter (fun kv => negb (rt_mem attrs (fst kv))) m)) k =
                             if rt_mem attrs k then None else if rt_mem m k then Some NULL else None).
  { induction m as [|[k1 v1] r IH]; intros k; cbn.
    - now destruct (rt_mem attrs k).
    - rewrite rt_mem_cons. destruct (rt_mem attrs k1) eqn:E1; cbn.
      + rewrite IH. destruct (k1 =? k) eqn:E; trivial. apply N.eqb_eq in E. subst. now rewrite E1.
      + rewrite IH. destruct (k1 =? k) eqn:E; trivial. apply N.eqb_eq in E. subst. now rewrite E1. }
  apply rt_wfm_app; trivial.
  - generalize Hf. generalize fp. induction fp0 as [|[k1 v1] r IH]; cbn; trivial.
    intros [H1 H2]. destruct (rt_mem attrs k1) eqn:E1; cbn; auto. split; auto.
    rewrite Hget, E1. unfold rt_mem. now rewrite H1.
  - intros k Hk. rewrite Hget. unfold rt_mem at 1. destruct (am_get attrs k); [trivial | congruence].
Qed.

Lemma rt_insert_with_attributes_req l index chars attrs o1 o2 ids :
  rt_wf l = true -> rt_attrs_ok attrs = true -> chars <> [] ->
  rt_req (rt_render (rt_insert_with_attributes l index chars attrs o1 o2 ids))
         (spec_insert_with_attributes (rt_render l) index chars attrs) /\
  rt_wf (rt_insert_with_attributes l index chars attrs o1 o2 ids) = true.
Proof.
  intros Hwf Hok Hne. apply rt_attrs_ok_wfm in Hok.
  unfold rt_insert_with_attributes, rt_render, spec_insert_with_attributes.
  destruct chars as [|u0 chars0]; [congruence|]. set (chars := u0 :: chars0) in *. clearbody chars.
  destruct (rt_find_position l index []) as [[a b] fp] eqn:Ef.
  destruct (rt_find_position_sem _ _ _ _ _ _ Hwf Ef) as (Hl & Hfp & Hrun & _).
  destruct (Hrun []) as [Hr1 Hr2]. rewrite <- Hr1, <- Hr2, <- Hfp. clear Hrun Hr1 Hr2.
  assert (Hfw : wfm fp) by (subst fp; apply (rt_aft_clean a [] clean_nil)).
  set (attrs1 := rt_unset_missing (rt_init_cur fp) attrs) in *.
  assert (Hw1 : wfm attrs1) by now apply rt_unset_missing_wfm.
  destruct (rt_minimize attrs1 (rt_init_cur fp) b) as [[p1 b1] cur1] eqn:Em.
  destruct (rt_minimize_sem _ _ _ _ _ _ Em) as (Hb & Hmini & Hc1). rewrite rt_init_cur_map in Hc1.
  destruct (rt_insert_attributes (rt_order o1 attrs1) cur1 [] ids 0) as [[[m cur2] neg] n] eqn:Ei.
  destruct (rt_insert_attributes_sem ids _ _ _ _ _ _ _ _ (rt_wfm_order o1 _ Hw1) Ei) as (Hmq & Hma & Hneg & Hnw & Hmw).
  specialize (Hnw I).
  subst l b. rewrite !rt_wf_app in Hwf. apply andb_true_iff in Hwf. destruct Hwf as [Hwa Hwf].
  apply andb_true_iff in Hwf. destruct Hwf as [Hwp1 Hwb1].
  set (c1 := rt_cur_map cur1) in *.
  split.
  - rewrite !rt_run_app. rewrite <- Hfp, <- Hc1. fold c1.
    rewrite (rt_run_quiet _ (rt_mini_quiet _ _ Hmini)), (rt_run_quiet _ Hmq). cbn [app].
    apply rt_req_app; [apply rt_req_refl|].
    rewrite rt_new_chars_run1, rt_new_chars_aft. apply rt_req_app.
    + (* the characters carry exactly the given attributes *)
      assert (Hm : rt_meq (rt_aft c1 m) (rt_norm_attrs attrs)).
      { intros k. rewrite Hma, rt_get_order. unfold rt_norm_attrs. fold (rs attrs []). rewrite rs_getd by trivial.
        unfold attrs1. rewrite rt_unset_missing_get. destruct (am_get attrs k) eqn:Ea; trivial.
        unfold rt_mem. destruct (am_get fp k) eqn:Ef2; trivial.
        rewrite Hc1.
        destruct (rt_mini_aft _ _ Hmini fp k) as [H|H].
        - rewrite H. unfold getd. now rewrite Ef2.
        - unfold attrs1 in H. rewrite rt_unset_missing_get, Ea in H. unfold rt_mem in H. rewrite Ef2 in H. discriminate. }
      clear -Hm. induction chars; cbn; constructor; auto.
    + apply rt_insert_negated_sem; trivial.
      intros k. rewrite Hneg, Hma, rt_get_order. cbn [am_get]. destruct (am_get attrs1 k) as [v|]; trivial.
      destruct (v =? getd c1 k) eqn:E; trivial. now apply N.eqb_eq in E.
  - rewrite !rt_wf_app, Hwa, Hwp1, Hmw, rt_new_chars_wf. cbn. now apply rt_insert_negated_wf.
Qed.

Theorem rt_insert_with_attributes_refines : forall l index chars attrs o1 o2 ids,
  rt_wf l = true -> rt_attrs_ok attrs = true -> chars <> [] ->
  requiv (rt_render (rt_insert_with_attributes l index chars attrs o1 o2 ids))
         (spec_insert_with_attributes (rt_render l) index chars attrs).
Proof.
  intros. apply rt_req_requiv.
  - now apply rt_insert_with_attributes_req.
  - apply rt_render_allclean.
  - unfold spec_insert_with_attributes. pose proof (rt_render_allclean l).
    repeat apply rt_allclean_app; auto using rt_allclean_firstn, rt_allclean_skipn.
    apply Forall_forall. intros e He. apply in_map_iff in He. destruct He as [u [<- _]]. apply rt_norm_attrs_clean.
Qed.

(* an empty chunk: the call returns at once *)
Theorem rt_insert_with_attributes_empty : forall l index attrs o1 o2 ids,
  rt_insert_with_attributes l index [] attrs o1 o2 ids = l.
Proof. reflexivity. Qed.

(* ---------------------------------------------------------------------------------------------- *)
(* 9. Text::insert and Text::insert_embed: plain equality *)

Lemma rt_skip_deleted_sem : forall r d b',
  rt_skip_deleted r = (d, b') -> r = d ++ b' /\ forallb rt_quiet d = true /\ forall c, rt_aft c d = c.
Proof.
  induction r as [|x rest IH]; intros d b' H.
  - cbn in H. inversion H; subst. auto.
  - cbn [rt_skip_deleted] in H. destruct (rt_del x) eqn:Ed.
    + destruct (rt_skip_deleted rest) as [a b] eqn:E. inversion H; subst.
      destruct (IH _ _ eq_refl) as (H1 & H2 & H3). repeat split.
      * cbn; congruence.
      * cbn. unfold rt_quiet at 1. rewrite Ed. exact H2.
      * intros c. cbn. rewrite Ed. apply H3.
    + inversion H; subst. auto.
Qed.

Lemma rt_firstn_skipn_le {X} (t : list X) n : (length t <= n)%nat -> firstn n t = t /\ skipn n t = [].
Proof. intros H. split; [now apply firstn_all2 | now apply skipn_all2]. Qed.

Theorem rt_insert_exact : forall l index chars ids,
  rt_wf l = true -> (index <= length (rt_render l))%nat ->
  rt_render (rt_insert l index chars ids) = spec_insert (rt_render l) index chars /\
  rt_wf (rt_insert l index chars ids) = true.
Proof.
  intros l index chars ids Hwf Hi. unfold rt_insert, spec_insert, rt_render in *.
  destruct chars as [|u0 chars0]; [cbn [map app]; now rewrite firstn_skipn|].
  set (chars := u0 :: chars0) in *. clearbody chars.
  destruct (rt_find_position l index []) as [[a b] fp] eqn:Ef.
  destruct (rt_find_position_sem _ _ _ _ _ _ Hwf Ef) as (Hl & Hfp & Hrun & Hleft).
  destruct (Hrun []) as [Hr1 Hr2]. rewrite <- Hr1, <- Hr2, rt_left_attrs_left, <- (Hleft [] Hi).
  destruct (rt_skip_deleted b) as [d b'] eqn:Es.
  destruct (rt_skip_deleted_sem _ _ _ Es) as (Hb & Hd & Hda).
  split.
  - rewrite !rt_run_app, (rt_run_quiet _ Hd), Hda, rt_new_chars_run1, rt_new_chars_aft. cbn [app].
    subst b. rewrite rt_run_app, (rt_run_quiet _ Hd), Hda. reflexivity.
  - subst l b. rewrite !rt_wf_app in *. rewrite rt_new_chars_wf.
    apply andb_true_iff in Hwf. destruct Hwf as [-> Hwf]. apply andb_true_iff in Hwf. destruct Hwf as [-> ->]. reflexivity.
Qed.

Lemma rt_requiv_refl t : rt_allclean t -> requiv t t.
Proof. intros H. apply rt_req_requiv; trivial. apply rt_req_refl. Qed.

Theorem rt_insert_refines : forall l index chars ids,
  rt_wf l = true -> (index <= length (rt_render l))%nat ->
  requiv (rt_render (rt_insert l index chars ids)) (spec_insert (rt_render l) index chars).
Proof.
  intros l index chars ids Hwf Hi. destruct (rt_insert_exact l index chars ids Hwf Hi) as [<- _].
  apply rt_requiv_refl, rt_render_allclean.
Qed.

Theorem rt_insert_embed_exact : forall l index shared v ids,
  rt_wf l = true -> (index <= length (rt_render l))%nat ->
  rt_render (rt_insert_embed l index shared v ids) = spec_insert_embed (rt_render l) index v /\
  rt_wf (rt_insert_embed l index shared v ids) = true.
Proof.
  intros l index shared v ids Hwf Hi. unfold rt_insert_embed, spec_insert_embed, rt_render in *.
  destruct (rt_find_position l index []) as [[a b] fp] eqn:Ef.
  destruct (rt_find_position_sem _ _ _ _ _ _ Hwf Ef) as (Hl & Hfp & Hrun & Hleft).
  destruct (Hrun []) as [Hr1 Hr2]. rewrite <- Hr1, <- Hr2, rt_left_attrs_left, <- (Hleft [] Hi).
  split.
  - rewrite rt_run_app. destruct shared; reflexivity.
  - subst l. rewrite !rt_wf_app in *. apply andb_true_iff in Hwf. destruct Hwf as [-> Hwf].
    destruct shared; cbn; exact Hwf.
Qed.

Theorem rt_insert_embed_refines : forall l index shared v ids,
  rt_wf l = true -> (index <= length (rt_render l))%nat ->
  requiv (rt_render (rt_insert_embed l index shared v ids)) (spec_insert_embed (rt_render l) index v).
Proof.
  intros l index shared v ids Hwf Hi. destruct (rt_insert_embed_exact l index shared v ids Hwf Hi) as [<- _].
  apply rt_requiv_refl, rt_render_allclean.
Qed.

(* ---------------------------------------------------------------------------------------------- *)
(* 10. Text::remove_range *)

Lemma rt_remove_loop_sem : forall r len cur mid rest cur' rem,
  rt_wf r = true ->
  rt_remove_loop r len cur = (mid, rest, cur', rem) ->
  forallb rt_quiet mid = true /\ rt_cur_map cur' = rt_aft (rt_cur_map cur) mid /\
  (forall o, skipn len (rt_run o r) = rt_run (rt_aft o mid) rest /\ rem = (len - length (rt_run o r))%nat) /\
  rt_wf mid = true /\ rt_wf rest = true /\ (length mid + length rest = length r)%nat.
Proof.
  induction r as [|x rest0 IH]; intros len cur mid rest cur' rem Hwf H.
  - cbn in H. inversion H; subst. cbn. repeat split; trivial. now rewrite skipn_nil. lia.
  - pose proof Hwf as Hwf0. apply rt_wf_cons in Hwf. destruct Hwf as [Hx Hwf].
    destruct len as [|len'].
    + cbn in H. inversion H; subst. cbn [length skipn]. repeat split; trivial.
    + cbn [rt_remove_loop] in H.
      destruct (negb (rt_del x) && rt_countable x) eqn:Ec.
      * destruct (rt_remove_loop rest0 len' cur) as [[[a b] c] m] eqn:E. inversion H; subst.
        destruct (IH _ _ _ _ _ _ Hwf E) as (H1 & H2 & H3 & H4 & H5 & H6).
        apply andb_true_iff in Ec. destruct Ec as [Ed Ec]. apply negb_true_iff in Ed.
        repeat split; trivial.
        -- cbn [rt_aft rt_kill rt_del]. destruct (H3 o) as [H8 _]. rewrite <- H8.
           cbn [rt_run]. rewrite Ed. unfold rt_countable in Ec. destruct (rt_cont x); try discriminate; reflexivity.
        -- destruct (H3 o) as [_ H8]. rewrite H8. cbn [rt_run]. rewrite Ed.
           unfold rt_countable in Ec. destruct (rt_cont x); try discriminate; cbn [length]; lia.
        -- cbn. unfold rt_wf_item. cbn. unfold rt_countable in Ec. destruct (rt_cont x); try discriminate; exact H4.
        -- cbn [length]. lia.
      * destruct (rt_remove_loop rest0 (S len') (rt_forward_cur cur x)) as [[[a b] c] m] eqn:E. inversion H; subst.
        destruct (IH _ _ _ _ _ _ Hwf E) as (H1 & H2 & H3 & H4 & H5 & H6).
        assert (Hq : rt_quiet x = true).
        { unfold rt_quiet. destruct (rt_del x); trivial. cbn in *. now rewrite Ec. }
        assert (Hr : forall o, rt_run o (x :: rest0) = rt_run (rt_aft o [x]) rest0).
        { intros o. cbn. unfold rt_quiet, rt_countable in Hq. destruct (rt_del x); trivial.
          destruct (rt_cont x); cbn in Hq; try discriminate; reflexivity. }
        repeat split; trivial.
        -- cbn [forallb]. now rewrite Hq.
        -- rewrite H2, rt_forward_cur_map. reflexivity.
        -- rewrite Hr. destruct (H3 (rt_aft o [x])) as [H8 _]. exact H8.
        -- rewrite Hr. destruct (H3 (rt_aft o [x])) as [_ H8]. exact H8.
        -- cbn. now rewrite Hx.
        -- cbn [length]. lia.
Qed.

(* without the clean-up the rendering is exactly the text with the range cut out *)
Theorem rt_remove_range_raw_refines : forall l index len l',
  rt_wf l = true -> rt_remove_range_raw l index len = Some l' ->
  rt_render l' = spec_remove_range (rt_render l) index len /\ rt_wf l' = true.
Proof.
  intros l index len l' Hwf H. unfold rt_remove_range_raw, spec_remove_range, rt_render in *.
  destruct (rt_find_position l index []) as [[a b] fp] eqn:Ef.
  destruct (rt_find_position_sem _ _ _ _ _ _ Hwf Ef) as (Hl & Hfp & Hrun & _).
  destruct (Hrun []) as [Hr1 Hr2]. rewrite <- Hr1, <- Hr2.
  destruct (rt_remove_loop b len (rt_init_cur fp)) as [[[mid rest] cur'] rem] eqn:Er.
  subst l. rewrite rt_wf_app in Hwf. apply andb_true_iff in Hwf. destruct Hwf as [Hwa Hwb].
  destruct (rt_remove_loop_sem _ _ _ _ _ _ _ Hwb Er) as (H1 & H2 & H3 & H4 & H5 & _).
  destruct (0 <? rem)%nat; [discriminate|]. inversion H; subst l'. split.
  - rewrite !rt_run_app, (rt_run_quiet _ H1). cbn [app]. destruct (H3 (rt_aft [] a)) as [-> _]. reflexivity.
  - rewrite !rt_wf_app, Hwa, H4, H5. reflexivity.
Qed.

(* when the call does not panic *)
Theorem rt_remove_range_defined : forall l index len,
  rt_wf l = true ->
  (rt_remove_range l index len <> None <-> (len <= length (rt_render l) - index)%nat) /\
  (rt_remove_range l index len <> None <-> rt_remove_range_raw l index len <> None).
Proof.
  intros l index len Hwf. unfold rt_remove_range, rt_remove_range_raw, rt_render.
  destruct (rt_find_position l index []) as [[a b] fp] eqn:Ef.
  destruct (rt_find_position_sem _ _ _ _ _ _ Hwf Ef) as (Hl & Hfp & Hrun & _).
  destruct (Hrun []) as [Hr1 Hr2].
  destruct (rt_remove_loop b len (rt_init_cur fp)) as [[[mid rest] cur'] rem] eqn:Er.
  subst l. rewrite rt_wf_app in Hwf. apply andb_true_iff in Hwf. destruct Hwf as [Hwa Hwb].
  destruct (rt_remove_loop_sem _ _ _ _ _ _ _ Hwb Er) as (_ & _ & H3 & _).
  destruct (H3 (rt_aft [] a)) as [_ Hrem]. rewrite Hr2, skipn_length in Hrem.
  destruct (0 <? rem)%nat eqn:E.
  - apply Nat.ltb_lt in E. split; split; intros H; try congruence. lia.
  - apply Nat.ltb_ge in E. split; split; intros H; try discriminate. lia.
Qed.

(* clean_format_gap, first loop: nothing visible between start and end *)
Lemma rt_gap_end_sem : forall r ea ext rest' ea',
  rt_gap_end r ea = (ext, rest', ea') ->
  r = ext ++ rest' /\ ea' = rt_aft ea ext /\ forallb rt_quiet ext = true.
Proof.
  induction r as [|x rest IH]; intros ea ext rest' ea' H.
  - cbn in H. inversion H; subst. auto.
  - cbn [rt_gap_end] in H. destruct (rt_cont x) eqn:Ec.
    1-2: inversion H; subst; auto.
    + destruct (negb (rt_del x) && rt_countable x) eqn:Eq; [inversion H; subst; auto|].
      destruct (rt_gap_end rest ea) as [[a b] e] eqn:E. inversion H; subst.
      destruct (IH _ _ _ _ E) as (H1 & H2 & H3). repeat split.
      * cbn; congruence.
      * cbn. rewrite Ec. destruct (rt_del x); exact H2.
      * cbn. unfold rt_quiet at 1. destruct (rt_del x); cbn in *; [exact H3 | now rewrite Eq].
    + destruct (rt_gap_end rest (if rt_del x then ea else am_update ea k v)) as [[a b] e] eqn:E. inversion H; subst.
      destruct (IH _ _ _ _ E) as (H1 & H2 & H3). repeat split.
      * cbn; congruence.
      * cbn. rewrite Ec. exact H2.
      * cbn. unfold rt_quiet at 1. unfold rt_countable. rewrite Ec. rewrite orb_true_r. exact H3.
    + destruct (negb (rt_del x) && rt_countable x) eqn:Eq; [inversion H; subst; auto|].
      destruct (rt_gap_end rest ea) as [[a b] e] eqn:E. inversion H; subst.
      destruct (IH _ _ _ _ E) as (H1 & H2 & H3). repeat split.
      * cbn; congruence.
      * cbn. rewrite Ec. destruct (rt_del x); exact H2.
      * cbn. unfold rt_quiet at 1. destruct (rt_del x); cbn in *; [exact H3 | now rewrite Eq].
Qed.

(* clean_format_gap, second loop: for every key, the attributes in force after the gap are unchanged *)
Lemma rt_clean_step sa ea x c' :
  rt_aft c' [rt_clean sa ea x] =
  if rt_del x then c'
  else match rt_cont x with
       | RFormat k v => if negb (getd ea k =? v) || (getd sa k =? v) then c' else am_update c' k v
       | _ => c'
       end.
Proof.
  unfold rt_clean, rt_getd. fold (getd ea). fold (getd sa). destruct (rt_del x) eqn:Ed.
  - cbn. now rewrite Ed.
  - destruct (rt_cont x) eqn:Ec; try (cbn; now rewrite Ed, Ec).
    change (match am_get ea k with Some v0 => v0 | None => NULL end) with (getd ea k).
    change (match am_get sa k with Some v0 => v0 | None => NULL end) with (getd sa k).
    destruct (negb (getd ea k =? v) || (getd sa k =? v)); cbn; [reflexivity | now rewrite Ed, Ec].
Qed.

Lemma rt_aft_cons c x G : rt_aft c (x :: G) = rt_aft (rt_aft c [x]) G.
Proof. reflexivity. Qed.

Lemma rt_clean_aft sa ea k : forall G c c',
  getd (rt_aft c G) k = getd ea k ->
  (getd c' k = getd ea k \/ (getd c' k = getd sa k /\ getd c k <> getd ea k) \/
   (getd sa k = getd ea k /\ getd c' k = getd sa k)) ->
  getd (rt_aft c' (map (rt_clean sa ea) G)) k = getd ea k.
Proof.
  induction G as [|x G' IH]; intros c c' He H.
  - cbn in *. destruct H as [H|[[H1 H2]|[H1 H2]]]; congruence.
  - cbn [map]. rewrite rt_aft_cons, rt_clean_step. rewrite rt_aft_cons in He.
    assert (Hx : rt_aft c [x] = if rt_del x then c else match rt_cont x with RFormat k v => am_update c k v | _ => c end)
      by reflexivity.
    rewrite Hx in He. clear Hx.
    destruct (rt_del x) eqn:Ed; [apply (IH c c'); assumption|].
    destruct (rt_cont x) eqn:Ec; try (apply (IH c c'); assumption).
    destruct (k0 =? k) eqn:Ek.
    + apply N.eqb_eq in Ek. subst k0.
      destruct (negb (getd ea k =? v) || (getd sa k =? v)) eqn:Ekill.
      * apply (IH (am_update c k v) c'); trivial.
        rewrite getd_update, N.eqb_refl.
        destruct H as [H|[[H1 H2]|[H1 H2]]]; auto.
        apply orb_true_iff in Ekill. destruct Ekill as [E|E].
        -- apply negb_true_iff, N.eqb_neq in E. right. left. split; congruence.
        -- apply N.eqb_eq in E. destruct (N.eq_dec (getd ea k) v) as [E2|E2].
           ++ right. right. split; congruence.
           ++ right. left. split; congruence.
      * apply (IH (am_update c k v) (am_update c' k v)); trivial.
        left. rewrite getd_update, N.eqb_refl.
        apply orb_false_iff in Ekill. destruct Ekill as [E _]. apply negb_false_iff, N.eqb_eq in E. congruence.
    + assert (Hc : getd (am_update c k0 v) k = getd c k) by (rewrite getd_update, Ek; reflexivity).
      destruct (negb (getd ea k0 =? v) || (getd sa k0 =? v)).
      * apply (IH (am_update c k0 v) c'); trivial. now rewrite Hc.
      * apply (IH (am_update c k0 v) (am_update c' k0 v)); trivial.
        rewrite Hc. rewrite getd_update, Ek. exact H.
Qed.

Lemma rt_clean_quiet sa ea G : forallb rt_quiet G = true -> forallb rt_quiet (map (rt_clean sa ea) G) = true.
Proof.
  induction G as [|x G' IH]; cbn; trivial. intros H. apply andb_true_iff in H. destruct H as [H1 H2].
  rewrite (IH H2), andb_true_r. unfold rt_clean. destruct (rt_del x) eqn:Ed; trivial.
  destruct (rt_cont x); trivial. destruct (negb (rt_getd ea k =? v) || (rt_getd sa k =? v)); trivial.
Qed.

Lemma rt_clean_wf sa ea G : rt_wf G = true -> rt_wf (map (rt_clean sa ea) G) = true.
Proof.
  unfold rt_wf. induction G as [|x G' IH]; cbn; trivial. intros H. apply andb_true_iff in H. destruct H as [H1 H2].
  rewrite (IH H2), andb_true_r. unfold rt_clean. destruct (rt_del x) eqn:Ed; trivial.
  destruct (rt_cont x) eqn:Ec; trivial. destruct (negb (rt_getd ea k =? v) || (rt_getd sa k =? v)); trivial.
  unfold rt_wf_item. cbn. now rewrite Ec.
Qed.

Lemma rt_remove_range_req l index len l' :
  rt_wf l = true -> rt_remove_range l index len = Some l' ->
  rt_req (rt_render l') (spec_remove_range (rt_render l) index len) /\ rt_wf l' = true.
Proof.
  intros Hwf H.
  assert (Hraw : exists l0, rt_remove_range_raw l index len = Some l0).
  { destruct (rt_remove_range_raw l index len) eqn:E; eauto.
    destruct (rt_remove_range_defined l index len Hwf) as [_ [H1 _]]. exfalso. apply H1; congruence. }
  destruct Hraw as [l0 Hraw]. destruct (rt_remove_range_raw_refines _ _ _ _ Hwf Hraw) as [<- Hw0].
  unfold rt_remove_range, rt_remove_range_raw, rt_render in *.
  destruct (rt_find_position l index []) as [[a b] fp] eqn:Ef.
  destruct (rt_find_position_sem _ _ _ _ _ _ Hwf Ef) as (Hl & Hfp & _).
  destruct (rt_remove_loop b len (rt_init_cur fp)) as [[[mid rest] cur'] rem] eqn:Er.
  destruct (0 <? rem)%nat; [discriminate|]. inversion Hraw; subst l0. inversion H; subst l'. clear H Hraw.
  subst l. rewrite rt_wf_app in Hwf. apply andb_true_iff in Hwf. destruct Hwf as [Hwa Hwb].
  destruct (rt_remove_loop_sem _ _ _ _ _ _ _ Hwb Er) as (H1 & H2 & H3 & H4 & H5 & H6).
  rewrite rt_init_cur_map in H2.
  destruct b as [|b0 b']; [split; [apply rt_req_refl | exact Hw0]|].
  destruct (rt_init_cur fp) as [sa|] eqn:Esa; [|split; [apply rt_req_refl | exact Hw0]].
  destruct cur' as [ea|]; [|split; [apply rt_req_refl | exact Hw0]].
  assert (sa = fp) by (unfold rt_init_cur in Esa; destruct (rt_is_empty fp); congruence). subst sa.
  cbn [rt_cur_map] in H2.
  destruct (rt_gap_end rest ea) as [[ext rest'] ea'] eqn:Eg.
  destruct (rt_gap_end_sem _ _ _ _ _ Eg) as (Hr & Hea & Hq).
  subst rest.
  assert (HG : forallb rt_quiet (mid ++ ext) = true) by (rewrite forallb_app, H1, Hq; reflexivity).
  rewrite rt_wf_app in H5. apply andb_true_iff in H5. destruct H5 as [Hwe Hwr].
  split.
  - rewrite !rt_run_app. apply rt_req_app; [apply rt_req_refl|].
    rewrite <- Hfp. rewrite (rt_run_quiet _ (rt_clean_quiet fp ea' _ HG)), (rt_run_quiet _ H1), (rt_run_quiet _ Hq).
    cbn [app]. rewrite <- rt_aft_app. apply rt_run_meq. intros k.
    assert (He : getd (rt_aft fp (mid ++ ext)) k = getd ea' k) by (rewrite rt_aft_app, <- H2, <- Hea; reflexivity).
    rewrite He. apply (rt_clean_aft fp ea' k (mid ++ ext) fp fp He).
    destruct (N.eq_dec (getd fp k) (getd ea' k)); auto.
  - rewrite !rt_wf_app, Hwa, Hwr, andb_true_r. cbn. apply rt_clean_wf. now rewrite rt_wf_app, H4, Hwe.
Qed.

Theorem rt_remove_range_refines : forall l index len l',
  rt_wf l = true -> rt_remove_range l index len = Some l' ->
  requiv (rt_render l') (spec_remove_range (rt_render l) index len).
Proof.
  intros l index len l' Hwf H. apply rt_req_requiv.
  - eapply rt_remove_range_req; eauto.
  - apply rt_render_allclean.
  - unfold spec_remove_range. pose proof (rt_render_allclean l).
    apply rt_allclean_app; auto using rt_allclean_firstn, rt_allclean_skipn.
Qed.

(* The list that refuted refinement before commit b6f7856 (a live embedded shared type did not end the gap of
   clean_format_gap: remove_range(1, 0) - a removal of nothing - made the embedded map bold; scenarios x01, x02 of
   RichTextCases.v). With the repaired loop the removal leaves the rendering as it is. *)
Definition rt_former_witness : list rt_item :=
  [rt_it 1 0 false (RFormat 1 1); rt_it 1 1 false (RChar 97); rt_it 1 2 false (RFormat 1 0);
   rt_it 1 3 false (RType 7); rt_it 1 4 false (RFormat 1 1)].

Example rt_remove_range_former_witness :
  rt_render rt_former_witness = [(EUnit 97, [(1, 1)]); (EEmb 7, [])] /\
  rt_remove_range rt_former_witness 1 0 = Some rt_former_witness /\
  spec_remove_range (rt_render rt_former_witness) 1 0 = rt_render rt_former_witness.
Proof. vm_compute. repeat split; reflexivity. Qed.

(* ---------------------------------------------------------------------------------------------- *)
(* 11. all operations; the invariant *)

Theorem rt_apply_refines : forall l op ids l',
  rt_wf l = true -> rt_op_ok l op = true -> rt_apply l op ids = Some l' ->
  requiv (rt_render l') (rt_spec_apply (rt_render l) op) /\ rt_wf l' = true.
Proof.
  intros l op ids l' Hwf Hok H. destruct op; cbn in H, Hok |- *.
  - inversion H; subst l'. destruct chars as [|u chars].
    + split; [apply rt_requiv_refl, rt_render_allclean | exact Hwf].
    + split; [apply rt_insert_with_attributes_refines | apply rt_insert_with_attributes_req]; trivial; discriminate.
  - inversion H; subst l'. split; [apply rt_format_refines | apply rt_format_req]; trivial.
  - inversion H; subst l'. apply Nat.leb_le in Hok.
    split; [now apply rt_insert_refines | now apply rt_insert_exact].
  - split; [eapply rt_remove_range_refines | eapply rt_remove_range_req]; eauto.
  - inversion H; subst l'. apply Nat.leb_le in Hok.
    split; [now apply rt_insert_embed_refines | now apply rt_insert_embed_exact].
Qed.

(* the calls that do not panic *)
Theorem rt_apply_defined : forall l op ids,
  rt_wf l = true -> rt_op_ok l op = true -> exists l', rt_apply l op ids = Some l'.
Proof.
  intros l op ids Hwf Hok. destruct op; cbn; eauto.
  cbn in Hok. apply Nat.leb_le in Hok. rename Hok into Hr.
  destruct (rt_remove_range l index len) eqn:E; eauto.
  destruct (rt_remove_range_defined l index len Hwf) as [[_ H] _]. exfalso. apply H; [lia | exact E].
Qed.

(* (b) the invariant: no live item with collected content. Holds without any condition on the arguments. *)
Theorem rt_apply_wf : forall l op ids l',
  rt_wf l = true -> rt_apply l op ids = Some l' -> rt_wf l' = true.
Proof.
  intros l op ids l' Hwf H. destruct op; cbn in H.
  - inversion H; subst l'. unfold rt_insert_with_attributes. destruct chars as [|u chars]; trivial.
    set (cs := u :: chars). clearbody cs.
    destruct (rt_find_position l index []) as [[a b] fp] eqn:Ef.
    destruct (rt_find_position_sem _ _ _ _ _ _ Hwf Ef) as (Hl & _).
    destruct (rt_minimize _ (rt_init_cur fp) b) as [[p1 b1] cur1] eqn:Em.
    destruct (rt_minimize_sem _ _ _ _ _ _ Em) as (Hb & _).
    destruct (rt_insert_attributes _ cur1 [] ids 0) as [[[m cur2] neg] n] eqn:Ei.
    assert (Hmw : rt_wf m = true).
    { clear -Ei. revert Ei. generalize 0%nat, (@nil (tok * tok)), cur1, m, cur2, neg, n.
      induction (rt_order o1 (rt_unset_missing (rt_init_cur fp) attrs)) as [|[k v] r IH]; intros n0 ng0 c0 m0 c2 ng n2 H.
      - cbn in H. inversion H; subst. reflexivity.
      - cbn [rt_insert_attributes] in H. destruct (v =? rt_cur_get c0 k); [eapply IH; eauto|].
        destruct (rt_insert_attributes r _ _ ids (S n0)) as [[[a' c'] ng'] n'] eqn:E. inversion H; subst.
        cbn. eapply IH; eauto. }
    subst l b. rewrite !rt_wf_app in *. apply andb_true_iff in Hwf. destruct Hwf as [-> Hwf].
    apply andb_true_iff in Hwf. destruct Hwf as [-> Hwb]. rewrite Hmw, rt_new_chars_wf. cbn.
    now apply rt_insert_negated_wf.
  - inversion H; subst l'. unfold rt_format.
    destruct (rt_find_position l index []) as [[a b] fp] eqn:Ef.
    destruct (rt_find_position_sem _ _ _ _ _ _ Hwf Ef) as (Hl & _).
    destruct (rt_minimize attrs (rt_init_cur fp) b) as [[p1 b1] cur1] eqn:Em.
    destruct (rt_minimize_sem _ _ _ _ _ _ Em) as (Hb & _).
    destruct (rt_insert_attributes _ cur1 [] ids 0) as [[[m cur2] neg] n] eqn:Ei.
    assert (Hmw : rt_wf m = true).
    { clear -Ei. revert Ei. generalize 0%nat, (@nil (tok * tok)), cur1, m, cur2, neg, n.
      induction (rt_order o1 attrs) as [|[k v] r IH]; intros n0 ng0 c0 m0 c2 ng n2 H.
      - cbn in H. inversion H; subst. reflexivity.
      - cbn [rt_insert_attributes] in H. destruct (v =? rt_cur_get c0 k); [eapply IH; eauto|].
        destruct (rt_insert_attributes r _ _ ids (S n0)) as [[[a' c'] ng'] n'] eqn:E. inversion H; subst.
        cbn. eapply IH; eauto. }
    destruct (rt_format_loop attrs b1 len neg) as [[p2 b2] neg2] eqn:El.
    subst l b. rewrite !rt_wf_app in *. apply andb_true_iff in Hwf. destruct Hwf as [-> Hwf].
    apply andb_true_iff in Hwf. destruct Hwf as [-> Hwb]. rewrite Hmw. cbn.
    assert (Hloop : rt_wf p2 = true /\ rt_wf b2 = true).
    { clear -El Hwb. revert len neg p2 b2 neg2 El Hwb. induction b1 as [|x rest IH]; intros len neg p2 b2 neg2 H Hwf.
      - cbn in H. inversion H; subst. auto.
      - pose proof Hwf as Hwf0. apply rt_wf_cons in Hwf. destruct Hwf as [Hx Hwf]. cbn [rt_format_loop] in H.
        destruct (negb _); [inversion H; subst; auto|].
        destruct (rt_del x) eqn:Ed.
        + destruct (rt_format_loop attrs rest len neg) as [[a b] ng] eqn:E. inversion H; subst.
          destruct (IH _ _ _ _ _ E Hwf). split; trivial. cbn. now rewrite Hx.
        + destruct (rt_cont x) eqn:Ec.
          1-3,5: destruct (rt_format_loop attrs rest (pred len) neg) as [[a b] ng] eqn:E; inversion H; subst;
               destruct (IH _ _ _ _ _ E Hwf); split; trivial; cbn; now rewrite Hx.
          destruct (am_get attrs k).
          * destruct (rt_format_loop attrs rest len _) as [[a b] ng] eqn:E. inversion H; subst.
            destruct (IH _ _ _ _ _ E Hwf). split; trivial. cbn. unfold rt_wf_item. cbn. now rewrite Ec.
          * destruct (rt_format_loop attrs rest len neg) as [[a b] ng] eqn:E. inversion H; subst.
            destruct (IH _ _ _ _ _ E Hwf). split; trivial. cbn. now rewrite Hx. }
    destruct Hloop as [-> Hb2]. now apply rt_insert_negated_wf.
  - inversion H; subst l'. unfold rt_insert. destruct chars as [|u chars]; trivial.
    destruct (rt_find_position l index []) as [[a b] fp] eqn:Ef.
    destruct (rt_find_position_sem _ _ _ _ _ _ Hwf Ef) as (Hl & _).
    destruct (rt_skip_deleted b) as [d b'] eqn:Es.
    destruct (rt_skip_deleted_sem _ _ _ Es) as (Hb & _).
    subst l b. rewrite !rt_wf_app in *. rewrite rt_new_chars_wf.
    apply andb_true_iff in Hwf. destruct Hwf as [-> Hwf]. apply andb_true_iff in Hwf. destruct Hwf as [-> ->]. reflexivity.
  - unfold rt_remove_range in H.
    destruct (rt_find_position l index []) as [[a b] fp] eqn:Ef.
    destruct (rt_find_position_sem _ _ _ _ _ _ Hwf Ef) as (Hl & _).
    destruct (rt_remove_loop b len (rt_init_cur fp)) as [[[mid rest] cur'] rem] eqn:Er.
    subst l. rewrite rt_wf_app in Hwf. apply andb_true_iff in Hwf. destruct Hwf as [Hwa Hwb].
    destruct (rt_remove_loop_sem _ _ _ _ _ _ _ Hwb Er) as (_ & _ & _ & H4 & H5 & _).
    destruct (0 <? rem)%nat; [discriminate|]. inversion H; subst l'. rewrite rt_wf_app, Hwa. cbn.
    assert (Hraw : rt_wf (mid ++ rest) = true) by now rewrite rt_wf_app, H4, H5.
    destruct b; trivial. destruct (rt_init_cur fp); trivial. destruct cur'; trivial.
    destruct (rt_gap_end rest a1) as [[ext rest'] ea'] eqn:Eg.
    destruct (rt_gap_end_sem _ _ _ _ _ Eg) as (Hr & _). subst rest.
    rewrite rt_wf_app in H5. apply andb_true_iff in H5. destruct H5 as [Hwe Hwr].
    rewrite rt_wf_app, Hwr, andb_true_r. apply rt_clean_wf. now rewrite rt_wf_app, H4, Hwe.
  - inversion H; subst l'. unfold rt_insert_embed.
    destruct (rt_find_position l index []) as [[a b] fp] eqn:Ef.
    destruct (rt_find_position_sem _ _ _ _ _ _ Hwf Ef) as (Hl & _).
    subst l. rewrite !rt_wf_app in *. apply andb_true_iff in Hwf. destruct Hwf as [-> Hwf].
    destruct shared; cbn; exact Hwf.
Qed.

(* ---------------------------------------------------------------------------------------------- *)
(* 12. (c) minimality: when the attributes are in force on the element to the left of the range and on every element
   of the range, Text::format creates no item (minimize_attr_changes; markers inside the range that have become
   redundant may still be deleted) *)

Lemma rt_insert_attributes_none ids : forall it cur neg0 n,
  wfm it -> (forall k v, am_get it k = Some v -> v = getd (rt_cur_map cur) k) ->
  rt_insert_attributes it cur neg0 ids n = ([], cur, neg0, n).
Proof.
  induction it as [|[k v] rest IH]; intros cur neg0 n Hw H; cbn; trivial.
  destruct Hw as [Hk Hw]. unfold rt_cur_get. rewrite rt_getd_getd.
  rewrite <- (H k v) by (cbn; now rewrite N.eqb_refl). rewrite N.eqb_refl.
  apply IH; trivial. intros k' v' H'. apply H. cbn. destruct (k =? k') eqn:E; trivial.
  apply N.eqb_eq in E. subst. congruence.
Qed.

Lemma rt_inv_step_in attrs o neg k v v' :
  rt_inv attrs o neg -> am_get attrs k = Some v' ->
  rt_inv attrs (am_update o k v) (if v' =? v then am_remove neg k else am_insert neg k v).
Proof.
  intros Hi Ea k'. rewrite getd_update. destruct (k =? k') eqn:E2.
  - apply N.eqb_eq in E2. subst k'. rewrite Ea. destruct (v' =? v) eqn:E3.
    + rewrite am_get_remove, N.eqb_refl. reflexivity.
    + rewrite am_get_insert, N.eqb_refl. reflexivity.
  - destruct (v' =? v); [rewrite am_get_remove | rewrite am_get_insert]; rewrite E2; apply Hi.
Qed.

Lemma rt_inv_step_out attrs o neg k v :
  rt_inv attrs o neg -> am_get attrs k = None -> rt_inv attrs (am_update o k v) neg.
Proof.
  intros Hi Ea k'. rewrite getd_update, Hi. destruct (k =? k') eqn:E2; trivial.
  apply N.eqb_eq in E2. subst k'. now rewrite Ea.
Qed.

Lemma rt_inv_in_force attrs o neg :
  rt_inv attrs o neg -> (forall k v, am_get attrs k = Some v -> getd o k = v) -> neg = [].
Proof.
  intros Hi H. apply rt_get_all_none. intros k. rewrite Hi. destruct (am_get attrs k) as [v|] eqn:E; trivial.
  rewrite (H k v E), N.eqb_refl. reflexivity.
Qed.

Lemma rt_format_loop_noneg attrs : forall r len neg o p r' neg',
  rt_wf r = true -> rt_inv attrs o neg -> (len = 0%nat -> neg = []) -> (len <= length (rt_run o r))%nat ->
  (forall e, In e (firstn len (rt_run o r)) -> forall k v, am_get attrs k = Some v -> getd (snd e) k = v) ->
  rt_format_loop attrs r len neg = (p, r', neg') -> neg' = [].
Proof.
  induction r as [|x rest IH]; intros len neg o p r' neg' Hwf Hi H0 Hlen Hin H.
  - cbn in H, Hlen. inversion H; subst. apply H0. lia.
  - apply rt_wf_cons in Hwf. destruct Hwf as [Hx Hwf]. cbn [rt_format_loop] in H.
    destruct (negb ((0 <? len)%nat || negb (rt_is_empty neg) && rt_valid_target x)) eqn:Estop.
    + inversion H; subst. apply negb_true_iff, orb_false_iff in Estop. destruct Estop as [El _].
      apply Nat.ltb_ge in El. apply H0. lia.
    + apply negb_false_iff in Estop.
      assert (Hpos : (0 < len)%nat).
      { destruct len; [|lia]. rewrite (H0 eq_refl) in Estop. cbn in Estop. discriminate. }
      destruct (rt_del x) eqn:Ed.
      * destruct (rt_format_loop attrs rest len neg) as [[a b] ng] eqn:E. inversion H; subst.
        cbn [rt_run] in Hlen, Hin. rewrite Ed in Hlen, Hin.
        apply (IH len neg o a r' neg' Hwf Hi H0 Hlen Hin E).
      * destruct (rt_cont x) eqn:Ec.
        1-3: destruct len as [|len']; [lia|]; cbn [pred] in H;
             destruct (rt_format_loop attrs rest len' neg) as [[a b] ng] eqn:E; inversion H; subst;
             cbn [rt_run] in Hlen, Hin; rewrite Ed, Ec in Hlen, Hin; cbn [firstn length] in Hlen, Hin;
             assert (Hn : neg = []) by (apply (rt_inv_in_force attrs o); trivial; intros k0 v0 Hk;
                                        apply (Hin _ (or_introl eq_refl) k0 v0 Hk));
             apply (IH len' neg o a r' neg' Hwf Hi);
               [intros _; exact Hn | lia | intros e He; apply Hin; now right | exact E].
        -- cbn [rt_run] in Hlen, Hin. rewrite Ed, Ec in Hlen, Hin.
           destruct (am_get attrs k) as [v'|] eqn:Ea.
           ++ destruct (rt_format_loop attrs rest len _) as [[a b] ng] eqn:E. inversion H; subst.
              apply (IH len (if v' =? v then am_remove neg k else am_insert neg k v) (am_update o k v) a r' neg' Hwf);
                [now apply rt_inv_step_in | lia | exact Hlen | exact Hin | exact E].
           ++ destruct (rt_format_loop attrs rest len neg) as [[a b] ng] eqn:E. inversion H; subst.
              apply (IH len neg (am_update o k v) a r' neg' Hwf);
                [now apply rt_inv_step_out | lia | exact Hlen | exact Hin | exact E].
        -- unfold rt_wf_item in Hx. rewrite Ec, Ed in Hx. discriminate.
Qed.

Lemma rt_format_loop_ids attrs : forall r len neg p r' neg',
  rt_format_loop attrs r len neg = (p, r', neg') -> map rt_id p ++ map rt_id r' = map rt_id r.
Proof.
  induction r as [|x rest IH]; intros len neg p r' neg' H.
  - cbn in H. inversion H; subst. reflexivity.
  - cbn [rt_format_loop] in H. destruct (negb _); [inversion H; subst; reflexivity|].
    destruct (rt_del x).
    + destruct (rt_format_loop attrs rest len neg) as [[a b] ng] eqn:E. inversion H; subst. cbn. f_equal. eauto.
    + destruct (rt_cont x).
      1-3,5: destruct (rt_format_loop attrs rest (pred len) neg) as [[a b] ng] eqn:E; inversion H; subst; cbn; f_equal; eauto.
      destruct (am_get attrs k).
      * destruct (rt_format_loop attrs rest len _) as [[a b] ng] eqn:E. inversion H; subst. cbn. f_equal. eauto.
      * destruct (rt_format_loop attrs rest len neg) as [[a b] ng] eqn:E. inversion H; subst. cbn. f_equal. eauto.
Qed.

Lemma rt_insert_negated_nil o2 ids n r : rt_insert_negated o2 [] r ids n = r.
Proof.
  unfold rt_insert_negated.
  assert (H : forall r, exists p r', rt_neg_skip [] r = (p, r', []) /\ r = p ++ r').
  { induction r0 as [|x rest [p [r' [H1 H2]]]]; cbn.
    - exists [], []. auto.
    - destruct (rt_del x).
      + rewrite H1. exists (x :: p), r'. split; trivial. cbn. congruence.
      + destruct (rt_cont x); try (exists [], (x :: rest); auto; fail). }
  destruct (H r) as [p [r' [H1 H2]]]. rewrite H1.
  assert (Ho : rt_order o2 [] = []) by (apply rt_get_all_none; intros k; now rewrite rt_get_order).
  rewrite Ho. cbn. congruence.
Qed.

Theorem rt_format_noop : forall l index len attrs o1 o2 ids,
  rt_wf l = true -> rt_attrs_ok attrs = true -> (index + len <= length (rt_render l))%nat ->
  (forall k v, am_get attrs k = Some v -> getd (rt_left_attrs (rt_render l) index) k = v) ->
  (forall e, In e (firstn len (skipn index (rt_render l))) -> forall k v, am_get attrs k = Some v -> getd (snd e) k = v) ->
  map rt_id (rt_format l index len attrs o1 o2 ids) = map rt_id l.
Proof.
  intros l index len attrs o1 o2 ids Hwf Hok Hrange Hleft Hin. apply rt_attrs_ok_wfm in Hok.
  unfold rt_format, rt_render in *.
  destruct (rt_find_position l index []) as [[a b] fp] eqn:Ef.
  destruct (rt_find_position_sem _ _ _ _ _ _ Hwf Ef) as (Hl & Hfp & Hrun & Hlf).
  destruct (Hrun []) as [_ Hr2]. rewrite <- Hr2, <- Hfp in Hin.
  rewrite rt_left_attrs_left, <- (Hlf [] ltac:(lia)), <- Hfp in Hleft.
  assert (Hlen : (len <= length (rt_run fp b))%nat) by (rewrite Hfp, Hr2, skipn_length; lia).
  clear Hrun Hlf Hr2.
  destruct (rt_minimize attrs (rt_init_cur fp) b) as [[p1 b1] cur1] eqn:Em.
  destruct (rt_minimize_sem _ _ _ _ _ _ Em) as (Hb & Hmini & Hc1). rewrite rt_init_cur_map in Hc1.
  assert (Hc1f : forall k v, am_get attrs k = Some v -> v = getd (rt_cur_map cur1) k).
  { intros k v Hk. rewrite Hc1. destruct (rt_mini_aft _ _ Hmini fp k) as [H|H].
    - rewrite H. symmetry. now apply Hleft.
    - congruence. }
  rewrite (rt_insert_attributes_none ids (rt_order o1 attrs) cur1 [] 0%nat (rt_wfm_order o1 _ Hok)).
  2:{ intros k v Hk. rewrite rt_get_order in Hk. now apply Hc1f. }
  destruct (rt_format_loop attrs b1 len []) as [[p2 b2] neg2] eqn:El.
  subst l b. rewrite !rt_wf_app in Hwf. apply andb_true_iff in Hwf. destruct Hwf as [Hwa Hwf].
  apply andb_true_iff in Hwf. destruct Hwf as [Hwp1 Hwb1].
  rewrite rt_run_app, (rt_run_quiet _ (rt_mini_quiet _ _ Hmini)), <- Hc1 in Hin, Hlen. cbn [app] in Hin, Hlen.
  assert (Hi : rt_inv attrs (rt_cur_map cur1) []).
  { intros k. cbn. destruct (am_get attrs k) as [v|] eqn:E; trivial. rewrite <- (Hc1f k v E), N.eqb_refl. reflexivity. }
  assert (neg2 = []) by (eapply (rt_format_loop_noneg attrs b1 len [] (rt_cur_map cur1)); eauto). subst neg2.
  rewrite rt_insert_negated_nil. cbn [app]. rewrite !map_app. rewrite (rt_format_loop_ids _ _ _ _ _ _ _ El). reflexivity.
Qed.

(* ---------------------------------------------------------------------------------------------- *)
Print Assumptions rt_insert_with_attributes_refines.
Print Assumptions rt_format_refines.
Print Assumptions rt_insert_refines.
Print Assumptions rt_insert_embed_refines.
Print Assumptions rt_remove_range_raw_refines.
Print Assumptions rt_remove_range_refines.
Print Assumptions rt_remove_range_defined.
Print Assumptions rt_apply_refines.
Print Assumptions rt_apply_defined.
Print Assumptions rt_apply_wf.
Print Assumptions rt_render_live.
Print Assumptions rt_format_noop.
