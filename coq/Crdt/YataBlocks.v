(* Integration of ONE block into ONE sequence, at BLOCK level (yrs, Rust port of Yjs).

   What is transcribed (files under yrs/src of the pinned tree):
     Item::contains                              block.rs          [yib_contains]
     BlockStore::get_item                        block_store.rs    [yib_get_item]      (restricted to the sequence, see below)
     ItemPtr::splice + the `blocks.insert(i+1)`  block.rs / store.rs (Store::materialize, BlockStore::split_block)
                                                                   [yib_split_at]      (the halves are Blocks.blk_split)
     BlockStore::get_item_clean_end + Store::materialize          [yib_clean_end]
     BlockStore::get_item_clean_start + Store::materialize        [yib_clean_start]
     Update::missing_dependency, the part after the dependency tests (update.rs l.441-454:
       item.left = clean_end(origin), item.right = clean_start(right_origin))                [yib_resolve]
     Item::trim (the `offset > 0` prologue of TransactionMut::integrate_item)               [yib_trim]
     Item::detect_conflict                       block.rs          [yib_detect_conflict]
     Item::resolve_conflict (the conflict loop)  block.rs          [yib_loop] [yib_resolve_conflict]
     TransactionMut::integrate_item: the linking `left.right = this; this.right = ...; right.left = this`,
       `parent.start` / left-most entry of the chain when left is None, `parent.map[key] = this` and
       `self.delete(left)`, Item::integrate_content (a Deleted content arrives deleted),
       Item::needs_deletion (parent deleted, or map entry with a right neighbour)             [yib_link] [yib_integrate]
     local insertion (TransactionMut::create_item: origin = left.last_id(), right origin = right.id, then
       integrate_item(.., 0)) is [yib_integrate_ptrs] with the pointers given.

   Model.  One parent's sequence (or one key's chain of map entries) = the list of its blocks in document order,
   tombstones included: [yib_blk] = a wire block of Codec/UpdateV1.v plus the deleted flag.

   Where the model is more abstract than the code.
   * `left` / `right` pointers of items are list neighbours; `parent.start` is the head of the list; for a map
     chain `parent.map[key]` is the LAST block of the list (the code keeps it so: integrate_item sets it only when
     `right` is None, ItemPtr::splice moves it to the right half when the split block was the last) and the walk
     `while right.left.is_some()` ends at the head of the list.
   * An ItemPtr is represented by the id of the first unit of the block it points to (`PartialEq for ItemPtr`
     compares `id()`; the derived Hash hashes the address, which is stable and one per block).  HashSet<ItemPtr>
     = list of such ids.  `left = Some(item)` in the conflict loop is recorded as the number of blocks stepped
     over (the position of `item` to the right of the original left), like `lft` in Crdt/Doc.v yata_scan.
   * BlockStore::get_item searches the whole store (all clients, binary search).  Here it searches the sequence:
     an id that names a GC block, or an item of another parent, is `None` here.  For a GC block the code also
     gives None (`as_item_mut`); for an item of another parent the code would follow pointers into the other
     list (hostile updates only: local insertion and YATA keep origins inside the parent).
   * parent / parent_sub resolution (`item.parent_sub = left.parent_sub or right.parent_sub`, TypePtr::Named,
     TypePtr::ID, TypePtr::Unknown -> copy from neighbour or GC) is done at unit level in Crdt/Doc.v
     (resolve_parent) and not here: the incoming block is given with the parent_sub of the list it goes into;
     [yib_psub] only says whether that list is a map chain.
   * TransactionMut::delete: only the deleted flag of the block; the recursion into the children of a deleted
     type, the delete set, lengths (`parent.block_len`, `content_len`), links (feature weak), sub-documents,
     changed-type bookkeeping and insert_set / BlockStore::push (the per client lists) are left out.
   * Arithmetic is on N.  `id.clock - ptr.id().clock` (block_store.rs:419/430) cannot underflow, the block was
     found by `contains`.

   Failure values ([yib_fail tag]): where the Rust code would panic or leaves its domain.
     1  Store::materialize: `blocks.find_index(id.clock).unwrap()` / a pointer that is not in the sequence
        (cannot happen: pointers come from [yib_get_item] on the same sequence; kept for totality)
     2  ItemPtr::splice: `item.content.splice(offset, encoding).unwrap()` on a content that cannot be split
        (Binary / Embed / Format / Type / Doc have length 1 and are never asked to split), or a String cut
        inside a surrogate pair (Blocks.blk_content_split refuses it: the Rust code keeps the whole char in the
        left half and sets len = offset, an item whose len disagrees with its content)
     3  Item::trim: `self.content.splice(offset, ..).unwrap()` / `self.len -= offset` with offset >= len
        (offset = len does not panic for Any / JSON / String / Deleted: it builds an item of length 0)
   The conflict loop walks the list structurally (`o = item.right` = the tail): no fuel. *)
From Coq Require Import List NArith ZArith Bool.
From YV Require Import Gen.Consts Lib.Bytes Codec.Varint Codec.AnyCodec Codec.IdSetCodec Codec.UpdateV1
  Codec.V2Cols Ids.Ranges Crdt.Doc Crdt.Blocks.
Import ListNotations.
Open Scope N_scope.

(* ---------- blocks of a sequence ---------- *)
Record yib_blk := yib_mk { yib_b : block; yib_del : bool }.
Definition yib_seq := list yib_blk.

Inductive yib_res (A : Type) : Type :=
| yib_ok (a : A)
| yib_fail (tag : N).
Arguments yib_ok {A} a.
Arguments yib_fail {A} tag.
Definition yib_bind {A B : Type} (r : yib_res A) (f : A -> yib_res B) : yib_res B :=
  match r with yib_ok a => f a | yib_fail t => yib_fail t end.

Definition yib_id (b : yib_blk) : id := block_id (yib_b b).
Definition yib_len (b : yib_blk) : N := block_len (yib_b b).
Definition yib_origin (b : yib_blk) : option id :=
  match yib_b b with BItem _ o _ _ _ _ => o | _ => None end.
Definition yib_rorigin (b : yib_blk) : option id :=
  match yib_b b with BItem _ _ ro _ _ _ => ro | _ => None end.
Definition yib_psub (b : yib_blk) : option (list N) :=
  match yib_b b with BItem _ _ _ _ ps _ => ps | _ => None end.
Definition yib_is_item (b : yib_blk) : bool :=
  match yib_b b with BItem _ _ _ _ _ _ => true | _ => false end.
(* Item::last_id *)
Definition yib_last_id (b : yib_blk) : id := blk_last_id (yib_b b).

(* Item::contains *)
Definition yib_contains (b : yib_blk) (i : id) : bool :=
  (cl (yib_id b) =? cl i) && (ck (yib_id b) <=? ck i) && (ck i <? ck (yib_id b) + yib_len b).

(* BlockStore::get_item: the block that contains the id *)
Fixpoint yib_get_item (i : id) (s : yib_seq) : option yib_blk :=
  match s with
  | [] => None
  | b :: r => if yib_contains b i then Some b else yib_get_item i r
  end.

(* the block a pointer points to *)
Fixpoint yib_deref (p : id) (s : yib_seq) : option yib_blk :=
  match s with
  | [] => None
  | b :: r => if id_eqb (yib_id b) p then Some b else yib_deref p r
  end.

(* ---------- unit-level view ---------- *)
(* the ditems of a block: the units of Crdt/Doc.v units_of_block (unit j+1 has origin = unit j and the right
   origin, parent, parent_sub of the block), each with the deleted flag of the block *)
Definition yib_ditems (b : yib_blk) : list ditem :=
  flat_map (fun x => match x with XItem o => [mkditem o (yib_del b)] | XGC _ => [] end)
           (units_of_block (yib_b b)).
Definition yib_expand (s : yib_seq) : list ditem := flat_map yib_ditems s.

(* ---------- splitting inside the sequence ---------- *)
(* ItemPtr::splice(offset) on the block [p] points to, `blocks.insert(index + 1, right_half)`; the right half
   inherits `info` (the deleted flag) *)
Fixpoint yib_split_at (p : id) (k : N) (s : yib_seq) : yib_res yib_seq :=
  match s with
  | [] => yib_fail 1
  | b :: r =>
    if id_eqb (yib_id b) p then
      match blk_split (yib_b b) k with
      | Some (l, rr) => yib_ok (yib_mk l (yib_del b) :: yib_mk rr (yib_del b) :: r)
      | None => yib_fail 2
      end
    else yib_bind (yib_split_at p k r) (fun r' => yib_ok (b :: r'))
  end.

(* get_item_clean_end(id) = ItemSlice(ptr, 0, offset), materialize: adjacent_left; unless adjacent_right
   (`end == len - 1`) the block is spliced at slice.len() = offset + 1; the pointer is the left half *)
Definition yib_clean_end (i : id) (s : yib_seq) : yib_res (option id * yib_seq) :=
  match yib_get_item i s with
  | None => yib_ok (None, s)
  | Some b =>
    let offset := ck i - ck (yib_id b) in
    if offset =? yib_len b - 1 then yib_ok (Some (yib_id b), s)
    else yib_bind (yib_split_at (yib_id b) (offset + 1) s) (fun s' => yib_ok (Some (yib_id b), s'))
  end.

(* get_item_clean_start(id) = ItemSlice(ptr, offset, len - 1), materialize: unless adjacent_left (`start == 0`)
   the block is spliced at offset and the pointer is the right half (whose id is [i]); then adjacent_right *)
Definition yib_clean_start (i : id) (s : yib_seq) : yib_res (option id * yib_seq) :=
  match yib_get_item i s with
  | None => yib_ok (None, s)
  | Some b =>
    let offset := ck i - ck (yib_id b) in
    if offset =? 0 then yib_ok (Some (yib_id b), s)
    else yib_bind (yib_split_at (yib_id b) offset s) (fun s' => yib_ok (Some i, s'))
  end.

(* Update::missing_dependency l.441-454: left from origin, then right from right origin *)
Definition yib_resolve (b : yib_blk) (s : yib_seq) : yib_res (option id * option id * yib_seq) :=
  yib_bind (match yib_origin b with
            | Some o => yib_clean_end o s
            | None => yib_ok (None, s)
            end) (fun ls =>
  yib_bind (match yib_rorigin b with
            | Some ro => yib_clean_start ro (snd ls)
            | None => yib_ok (None, snd ls)
            end) (fun rs => yib_ok (fst ls, fst rs, snd rs))).

(* ---------- Item::trim ---------- *)
Definition yib_set_head (b : yib_blk) (i : id) (o : option id) (c : bcontent) : yib_blk :=
  match yib_b b with
  | BItem _ _ ro p ps _ => yib_mk (BItem i o ro p ps c) (yib_del b)
  | _ => b
  end.
(* id.clock += offset; left = clean_end(id.client, id.clock - 1); origin = left.last_id();
   content = content.splice(offset).unwrap() (the right part); len -= offset *)
Definition yib_trim (b : yib_blk) (offset : N) (s : yib_seq) : yib_res (yib_blk * option id * yib_seq) :=
  let i' := mkid (cl (yib_id b)) (ck (yib_id b) + offset) in
  yib_bind (yib_clean_end (mkid (cl i') (ck i' - 1)) s) (fun ls =>
    let origin' := match fst ls with
                   | Some p => match yib_deref p (snd ls) with Some lb => Some (yib_last_id lb) | None => None end
                   | None => None
                   end in
    match blk_split (yib_b b) offset with
    | Some (_, BItem _ _ _ _ _ c2) => yib_ok (yib_set_head b i' origin' c2, fst ls, snd ls)
    | _ => yib_fail 3
    end).

(* ---------- the conflict ---------- *)
(* the blocks up to and including the one [p] points to, and the blocks to its right *)
Fixpoint yib_cut_after (p : id) (s : yib_seq) : option (yib_seq * yib_seq) :=
  match s with
  | [] => None
  | b :: r => if id_eqb (yib_id b) p then Some ([b], r)
              else match yib_cut_after p r with Some (a, c) => Some (b :: a, c) | None => None end
  end.

Definition yib_head_ptr (s : yib_seq) : option id := match s with b :: _ => Some (yib_id b) | [] => None end.

(* Item::detect_conflict; [pre] = the blocks up to and including left ([] when left is None), [suf] the rest:
   `left.right` is the head of suf; `right.left.is_some()` = right is not the head of the list *)
Definition yib_detect_conflict (left right : option id) (suf : yib_seq) : bool :=
  match left, right with
  | None, None => true
  | None, Some r => negb (oid_eqb (yib_head_ptr suf) (Some r))
  | Some _, _ => negb (oid_eqb (yib_head_ptr suf) right)
  end.

(* Item::resolve_conflict, the loop.  [rest] = o and what is to its right; k = blocks stepped over so far;
   lft = the value of `left` as a number of blocks; conf / before = conflicting_items / items_before_origin *)
Fixpoint yib_loop (x : yib_blk) (right : option id) (store : yib_seq) (rest : yib_seq)
                  (k lft : nat) (conf before : list id) : nat :=
  match rest with
  | [] => lft
  | item :: rest' =>
    if oid_eqb right (Some (yib_id item)) then lft else            (* self.right == Some(item): break *)
    let before' := yib_id item :: before in
    let conf' := yib_id item :: conf in
    if oid_eqb (yib_origin x) (yib_origin item) then
      (* case 1 *)
      if cl (yib_id item) <? cl (yib_id x) then yib_loop x right store rest' (S k) (S k) [] before'
      else if oid_eqb (yib_rorigin x) (yib_rorigin item) then lft  (* break *)
      else yib_loop x right store rest' (S k) lft conf' before'
    else
      match (match yib_origin item with Some oi => yib_get_item oi store | None => None end) with
      | Some origin_left =>
        if mem_id (yib_id origin_left) before' then
          (* case 2 *)
          if negb (mem_id (yib_id origin_left) conf') then yib_loop x right store rest' (S k) (S k) [] before'
          else yib_loop x right store rest' (S k) lft conf' before'
        else lft                                                     (* break *)
      | None => lft                                                  (* break *)
      end
  end.

Definition yib_resolve_conflict (x : yib_blk) (right : option id) (store suf : yib_seq) : nat :=
  yib_loop x right store suf 0 0 [] [].

(* ---------- linking, map bookkeeping, deletion on arrival ---------- *)
Definition yib_is_deleted_content (b : yib_blk) : bool :=
  match yib_b b with BItem _ _ _ _ _ (BDeleted _) => true | _ => false end.
Definition yib_set_del (b : yib_blk) (d : bool) : yib_blk := yib_mk (yib_b b) d.

(* TransactionMut::delete on the last block of [l] (the `left` of the new right-most entry) *)
Definition yib_delete_last (l : yib_seq) : yib_seq :=
  match rev l with
  | [] => l
  | lb :: r => rev r ++ [yib_set_del lb true]
  end.

(* [before] = the blocks up to the resolved left (inclusive), [after] = the blocks from `this.right` on *)
Definition yib_link (x : yib_blk) (pdel : bool) (before after : yib_seq) : yib_seq :=
  match yib_psub x with
  | None =>
      before ++ yib_set_del x (yib_is_deleted_content x || yib_del x || pdel) :: after
  | Some _ =>
      match after with
      | [] =>   (* right is None: parent.map[key] = this; left (if any) is deleted *)
          yib_delete_last before ++ [yib_set_del x (yib_is_deleted_content x || yib_del x || pdel)]
      | _ :: _ => (* needs_deletion: parent_sub.is_some() && right.is_some() *)
          before ++ yib_set_del x true :: after
      end
  end.

(* integrate_item once left / right are pointers into [s]; pdel = the parent's item is deleted *)
Definition yib_integrate_ptrs (s : yib_seq) (x : yib_blk) (left right : option id) (pdel : bool) : yib_res yib_seq :=
  match (match left with
         | None => Some ([], s)
         | Some p => yib_cut_after p s
         end) with
  | None => yib_fail 1
  | Some (pre, suf) =>
    let n := if yib_detect_conflict left right suf then yib_resolve_conflict x right s suf else O in
    yib_ok (yib_link x pdel (pre ++ firstn n suf) (skipn n suf))
  end.

(* Update::integrate for one item block: missing_dependency (pointers), integrate_item(item, offset) *)
Definition yib_integrate_off (s : yib_seq) (b : yib_blk) (offset : N) (pdel : bool) : yib_res yib_seq :=
  yib_bind (yib_resolve b s) (fun lrs =>
    let '(lf, rt, s1) := lrs in
    if 0 <? offset then
      yib_bind (yib_trim b offset s1) (fun bls =>
        let '(b', lf', s2) := bls in yib_integrate_ptrs s2 b' lf' rt pdel)
    else yib_integrate_ptrs s1 b lf rt pdel).

Definition yib_integrate (s : yib_seq) (b : yib_blk) : yib_res yib_seq := yib_integrate_off s b 0 false.

(* the result as a plain sequence (failure = the sequence unchanged); only used to state theorems *)
Definition yib_get (s : yib_seq) (r : yib_res yib_seq) : yib_seq :=
  match r with yib_ok s' => s' | yib_fail _ => s end.

(* ---------- well-formedness (computable) ---------- *)
Definition yib_blk_ok (b : yib_blk) : bool :=
  yib_is_item b && blk_wf (yib_b b) && blk_nonempty (yib_b b).
Definition yib_ids (l : list ditem) : list id := map did l.
Fixpoint yib_nodupb (l : list id) : bool :=
  match l with [] => true | i :: r => negb (mem_id i r) && yib_nodupb r end.
(* origins point to the left: the origin of a unit is neither the unit itself nor to its right *)
Fixpoint yib_origins_left (l : list ditem) : bool :=
  match l with
  | [] => true
  | u :: r => match oorigin (d_op u) with
              | Some o => negb (mem_id o (yib_ids (u :: r)))
              | None => true
              end && yib_origins_left r
  end.
Definition yib_seq_ok (s : yib_seq) : bool :=
  forallb yib_blk_ok s && yib_nodupb (yib_ids (yib_expand s)) && yib_origins_left (yib_expand s).

(* the incoming block against the sequence: its ids are new, nothing refers to them, its origin is not one of
   its own units, and its right origin (if in the sequence) is not at or to the left of its origin *)
Definition yib_in_range (b : yib_blk) (i : id) : bool := yib_contains b i.
Fixpoint yib_upto (o : id) (l : list id) : list id :=       (* the ids up to and including o; [] if absent *)
  match l with
  | [] => []
  | i :: r => if id_eqb i o then [i] else match yib_upto o r with [] => [] | m => i :: m end
  end.
Definition yib_fresh (s : yib_seq) (b : yib_blk) : bool :=
  yib_blk_ok b &&
  forallb (fun u => negb (yib_in_range b (did u)) &&
                    match oorigin (d_op u) with Some o => negb (yib_in_range b o) | None => true end)
          (yib_expand s) &&
  match yib_origin b with Some o => negb (yib_in_range b o) | None => true end &&
  match yib_origin b, yib_rorigin b with
  | Some o, Some ro => negb (mem_id ro (yib_upto o (yib_ids (yib_expand s))))
  | _, _ => true
  end.
